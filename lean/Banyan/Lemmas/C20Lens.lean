/-
C20 helper lemmas, part 1: `holes` / `plug` form a lens on every level of the statement
(get-put, put-get, put-put) and the skeleton of a plugged statement depends only on the shapes of the fillers.
-/
import Banyan.Model.C20

namespace Banyan.C20

/-- the kind of a position (constructor, and the bound of a count position). -/
inductive LeafKind where
  | scalar | vlist | multi | time
  | count (max : Int)
  deriving DecidableEq, Repr

def Leaf.kind : Leaf → LeafKind
  | .scalar _ => .scalar
  | .vlist _ => .vlist
  | .multi _ => .multi
  | .time _ => .time
  | .count m _ => .count m

/-- `fs` can be written into the positions `hs`: same length, same kinds. -/
def Compat (hs fs : List Leaf) : Prop := hs.map Leaf.kind = fs.map Leaf.kind

theorem Compat.length {hs fs : List Leaf} (h : Compat hs fs) : hs.length = fs.length := by
  have := congrArg List.length h
  simpa using this

theorem Compat.refl (hs : List Leaf) : Compat hs hs := rfl

theorem Compat.take_left {a b fs : List Leaf} (h : Compat (a ++ b) fs) : Compat a (fs.take a.length) := by
  unfold Compat at *
  rw [List.map_take, ← h, List.map_append]
  have : a.length = (a.map Leaf.kind).length := by simp
  rw [this, List.take_left']
  rfl

theorem Compat.drop_left {a b fs : List Leaf} (h : Compat (a ++ b) fs) : Compat b (fs.drop a.length) := by
  unfold Compat at *
  rw [List.map_drop, ← h, List.map_append]
  have : a.length = (a.map Leaf.kind).length := by simp
  rw [this, List.drop_left']
  rfl

theorem Compat.nil_left {fs : List Leaf} (h : Compat [] fs) : fs = [] := by
  have := h.length
  cases fs <;> simp_all

theorem Compat.one {h : Leaf} {fs : List Leaf} (c : Compat [h] fs) : ∃ f, fs = [f] ∧ f.kind = h.kind := by
  have hl := c.length
  match fs, c, hl with
  | [f], c, _ => exact ⟨f, rfl, by simp [Compat] at c; exact c.symm⟩
  | [], _, hl => simp at hl
  | _ :: _ :: _, _, hl => simp at hl

theorem Compat.two {a b : Leaf} {fs : List Leaf} (c : Compat [a, b] fs) :
    ∃ f g, fs = [f, g] ∧ f.kind = a.kind ∧ g.kind = b.kind := by
  have hl := c.length
  match fs, c, hl with
  | [f, g], c, _ => exact ⟨f, g, rfl, by simp [Compat] at c; exact ⟨c.1.symm, c.2.symm⟩⟩
  | [], _, hl => simp at hl
  | [_], _, hl => simp at hl
  | _ :: _ :: _ :: _, _, hl => simp at hl

theorem Leaf.kind_scalar {f : Leaf} (h : f.kind = .scalar) : ∃ w, f = .scalar w := by
  cases f <;> simp [Leaf.kind] at h; exact ⟨_, rfl⟩
theorem Leaf.kind_vlist {f : Leaf} (h : f.kind = .vlist) : ∃ w, f = .vlist w := by
  cases f <;> simp [Leaf.kind] at h; exact ⟨_, rfl⟩
theorem Leaf.kind_multi {f : Leaf} (h : f.kind = .multi) : ∃ w, f = .multi w := by
  cases f <;> simp [Leaf.kind] at h; exact ⟨_, rfl⟩
theorem Leaf.kind_time {f : Leaf} (h : f.kind = .time) : ∃ w, f = .time w := by
  cases f <;> simp [Leaf.kind] at h; exact ⟨_, rfl⟩
theorem Leaf.kind_count {f : Leaf} {m : Int} (h : f.kind = .count m) : ∃ w, f = .count m w := by
  cases f <;> simp [Leaf.kind] at h; subst h; exact ⟨_, rfl⟩

/-! ### TIME clause -/

theorem TimeClause.holes_plug (t : TimeClause) (fs : List Leaf) (c : Compat t.holes fs) :
    (t.plug fs).holes = fs := by
  cases t with
  | cmp op v =>
    obtain ⟨f, rfl, hk⟩ := c.one
    obtain ⟨w, rfl⟩ := Leaf.kind_time hk
    rfl
  | between b e =>
    obtain ⟨f, g, rfl, hf, hg⟩ := c.two
    obtain ⟨w, rfl⟩ := Leaf.kind_time hf
    obtain ⟨w', rfl⟩ := Leaf.kind_time hg
    rfl

theorem TimeClause.plug_holes (t : TimeClause) : t.plug t.holes = t := by
  cases t <;> rfl

theorem TimeClause.plug_plug (t : TimeClause) (fs fs' : List Leaf) (c : Compat t.holes fs)
    (c' : Compat t.holes fs') : (t.plug fs).plug fs' = t.plug fs' := by
  cases t with
  | cmp op v =>
    obtain ⟨f, rfl, hk⟩ := c.one
    obtain ⟨w, rfl⟩ := Leaf.kind_time hk
    obtain ⟨f', rfl, hk'⟩ := c'.one
    obtain ⟨w', rfl⟩ := Leaf.kind_time hk'
    rfl
  | between b e =>
    obtain ⟨f, g, rfl, hf, hg⟩ := c.two
    obtain ⟨w, rfl⟩ := Leaf.kind_time hf
    obtain ⟨w', rfl⟩ := Leaf.kind_time hg
    obtain ⟨f', g', rfl, hf', hg'⟩ := c'.two
    obtain ⟨v, rfl⟩ := Leaf.kind_time hf'
    obtain ⟨v', rfl⟩ := Leaf.kind_time hg'
    rfl

/-! ### WHERE tree -/

mutual
theorem Pred.holes_plug : ∀ (p : Pred) (fs : List Leaf), Compat p.holes fs → (p.plug fs).holes = fs
  | .paren e, fs, c => by
    simp only [Pred.plug, Pred.holes] at *
    exact OrExpr.holes_plug e fs c
  | .compare i o v, fs, c => by
    simp only [Pred.holes] at c
    obtain ⟨f, rfl, hk⟩ := c.one
    obtain ⟨w, rfl⟩ := Leaf.kind_scalar hk
    rfl
  | .matchP i m a o, fs, c => by
    simp only [Pred.holes] at c
    obtain ⟨f, rfl, hk⟩ := c.one
    obtain ⟨w, rfl⟩ := Leaf.kind_multi hk
    rfl
  | .inP i n vs, fs, c => by
    simp only [Pred.holes] at c
    obtain ⟨f, rfl, hk⟩ := c.one
    obtain ⟨w, rfl⟩ := Leaf.kind_vlist hk
    rfl
  | .having i n m, fs, c => by
    simp only [Pred.holes] at c
    obtain ⟨f, rfl, hk⟩ := c.one
    obtain ⟨w, rfl⟩ := Leaf.kind_multi hk
    rfl
theorem AndExpr.holes_plug : ∀ (a : AndExpr) (fs : List Leaf), Compat a.holes fs → (a.plug fs).holes = fs
  | .one p, fs, c => by
    simp only [AndExpr.plug, AndExpr.holes] at *
    exact Pred.holes_plug p fs c
  | .cons p r, fs, c => by
    simp only [AndExpr.plug, AndExpr.holes] at *
    rw [Pred.holes_plug p _ c.take_left, AndExpr.holes_plug r _ c.drop_left, List.take_append_drop]
theorem OrExpr.holes_plug : ∀ (e : OrExpr) (fs : List Leaf), Compat e.holes fs → (e.plug fs).holes = fs
  | .one a, fs, c => by
    simp only [OrExpr.plug, OrExpr.holes] at *
    exact AndExpr.holes_plug a fs c
  | .cons a r, fs, c => by
    simp only [OrExpr.plug, OrExpr.holes] at *
    rw [AndExpr.holes_plug a _ c.take_left, OrExpr.holes_plug r _ c.drop_left, List.take_append_drop]
end

mutual
theorem Pred.plug_holes : ∀ (p : Pred), p.plug p.holes = p
  | .paren e => by simp only [Pred.plug, Pred.holes]; rw [OrExpr.plug_holes e]
  | .compare _ _ _ => rfl
  | .matchP _ _ _ _ => rfl
  | .inP _ _ _ => rfl
  | .having _ _ _ => rfl
theorem AndExpr.plug_holes : ∀ (a : AndExpr), a.plug a.holes = a
  | .one p => by simp only [AndExpr.plug, AndExpr.holes]; rw [Pred.plug_holes p]
  | .cons p r => by
    simp only [AndExpr.plug, AndExpr.holes, List.take_left', List.drop_left']
    rw [Pred.plug_holes p, AndExpr.plug_holes r]
theorem OrExpr.plug_holes : ∀ (e : OrExpr), e.plug e.holes = e
  | .one a => by simp only [OrExpr.plug, OrExpr.holes]; rw [AndExpr.plug_holes a]
  | .cons a r => by
    simp only [OrExpr.plug, OrExpr.holes, List.take_left', List.drop_left']
    rw [AndExpr.plug_holes a, OrExpr.plug_holes r]
end

mutual
theorem Pred.plug_plug : ∀ (p : Pred) (fs fs' : List Leaf), Compat p.holes fs → Compat p.holes fs' →
    (p.plug fs).plug fs' = p.plug fs'
  | .paren e, fs, fs', c, c' => by
    simp only [Pred.plug, Pred.holes] at *
    rw [OrExpr.plug_plug e fs fs' c c']
  | .compare i o v, fs, fs', c, c' => by
    simp only [Pred.holes] at c c'
    obtain ⟨f, rfl, hk⟩ := c.one
    obtain ⟨w, rfl⟩ := Leaf.kind_scalar hk
    obtain ⟨f', rfl, hk'⟩ := c'.one
    obtain ⟨w', rfl⟩ := Leaf.kind_scalar hk'
    rfl
  | .matchP i m a o, fs, fs', c, c' => by
    simp only [Pred.holes] at c c'
    obtain ⟨f, rfl, hk⟩ := c.one
    obtain ⟨w, rfl⟩ := Leaf.kind_multi hk
    obtain ⟨f', rfl, hk'⟩ := c'.one
    obtain ⟨w', rfl⟩ := Leaf.kind_multi hk'
    rfl
  | .inP i n vs, fs, fs', c, c' => by
    simp only [Pred.holes] at c c'
    obtain ⟨f, rfl, hk⟩ := c.one
    obtain ⟨w, rfl⟩ := Leaf.kind_vlist hk
    obtain ⟨f', rfl, hk'⟩ := c'.one
    obtain ⟨w', rfl⟩ := Leaf.kind_vlist hk'
    rfl
  | .having i n m, fs, fs', c, c' => by
    simp only [Pred.holes] at c c'
    obtain ⟨f, rfl, hk⟩ := c.one
    obtain ⟨w, rfl⟩ := Leaf.kind_multi hk
    obtain ⟨f', rfl, hk'⟩ := c'.one
    obtain ⟨w', rfl⟩ := Leaf.kind_multi hk'
    rfl
theorem AndExpr.plug_plug : ∀ (a : AndExpr) (fs fs' : List Leaf), Compat a.holes fs → Compat a.holes fs' →
    (a.plug fs).plug fs' = a.plug fs'
  | .one p, fs, fs', c, c' => by
    simp only [AndExpr.plug, AndExpr.holes] at *
    rw [Pred.plug_plug p fs fs' c c']
  | .cons p r, fs, fs', c, c' => by
    simp only [AndExpr.plug, AndExpr.holes] at *
    have hl : ((p.plug (fs.take p.holes.length)).holes).length = p.holes.length := by
      rw [Pred.holes_plug p _ c.take_left]; exact c.take_left.length.symm
    rw [hl, Pred.plug_plug p _ _ c.take_left c'.take_left, AndExpr.plug_plug r _ _ c.drop_left c'.drop_left]
theorem OrExpr.plug_plug : ∀ (e : OrExpr) (fs fs' : List Leaf), Compat e.holes fs → Compat e.holes fs' →
    (e.plug fs).plug fs' = e.plug fs'
  | .one a, fs, fs', c, c' => by
    simp only [OrExpr.plug, OrExpr.holes] at *
    rw [AndExpr.plug_plug a fs fs' c c']
  | .cons a r, fs, fs', c, c' => by
    simp only [OrExpr.plug, OrExpr.holes] at *
    have hl : ((a.plug (fs.take a.holes.length)).holes).length = a.holes.length := by
      rw [AndExpr.holes_plug a _ c.take_left]; exact c.take_left.length.symm
    rw [hl, AndExpr.plug_plug a _ _ c.take_left c'.take_left, OrExpr.plug_plug r _ _ c.drop_left c'.drop_left]
end

/-! ### optional clauses and counts -/

theorem countPlug_holes (m : Int) (c : Option Count) (fs : List Leaf) (h : Compat (countHoles m c) fs) :
    countHoles m (countPlug m c fs) = fs := by
  cases c with
  | none => simp only [countHoles] at h; rw [h.nil_left]; rfl
  | some c =>
    simp only [countHoles] at h
    obtain ⟨f, rfl, hk⟩ := h.one
    obtain ⟨w, rfl⟩ := Leaf.kind_count hk
    simp [countPlug, countHoles]

theorem countPlug_self (m : Int) (c : Option Count) : countPlug m c (countHoles m c) = c := by
  cases c <;> simp [countPlug, countHoles]

theorem countPlug_plug (m : Int) (c : Option Count) (fs fs' : List Leaf) (h : Compat (countHoles m c) fs)
    (h' : Compat (countHoles m c) fs') : countPlug m (countPlug m c fs) fs' = countPlug m c fs' := by
  cases c with
  | none => simp only [countHoles] at h h'; rw [h.nil_left, h'.nil_left]; rfl
  | some c =>
    simp only [countHoles] at h h'
    obtain ⟨f, rfl, hk⟩ := h.one
    obtain ⟨w, rfl⟩ := Leaf.kind_count hk
    obtain ⟨f', rfl, hk'⟩ := h'.one
    obtain ⟨w', rfl⟩ := Leaf.kind_count hk'
    simp [countPlug]

theorem countHoles_length_plug (m : Int) (c : Option Count) (fs : List Leaf) :
    (countHoles m (countPlug m c fs)).length = (countHoles m c).length := by
  cases c with
  | none => rfl
  | some c =>
    unfold countPlug
    split <;> (try split) <;> simp_all [countHoles]

theorem optTime_holes_plug (t : Option TimeClause) (fs : List Leaf) (h : Compat (optTimeHoles t) fs) :
    optTimeHoles (optTimePlug t fs) = fs := by
  cases t with
  | none => simp only [optTimeHoles] at h; rw [h.nil_left]; rfl
  | some t => exact TimeClause.holes_plug t fs h

theorem optTime_plug_self (t : Option TimeClause) : optTimePlug t (optTimeHoles t) = t := by
  cases t with
  | none => rfl
  | some t => simp [optTimePlug, optTimeHoles, TimeClause.plug_holes]

theorem optTime_plug_plug (t : Option TimeClause) (fs fs' : List Leaf) (h : Compat (optTimeHoles t) fs)
    (h' : Compat (optTimeHoles t) fs') : optTimePlug (optTimePlug t fs) fs' = optTimePlug t fs' := by
  cases t with
  | none => rfl
  | some t => simp only [optTimePlug]; rw [TimeClause.plug_plug t fs fs' h h']

theorem optOr_holes_plug (t : Option OrExpr) (fs : List Leaf) (h : Compat (optOrHoles t) fs) :
    optOrHoles (optOrPlug t fs) = fs := by
  cases t with
  | none => simp only [optOrHoles] at h; rw [h.nil_left]; rfl
  | some t => exact OrExpr.holes_plug t fs h

theorem optOr_plug_self (t : Option OrExpr) : optOrPlug t (optOrHoles t) = t := by
  cases t with
  | none => rfl
  | some t => simp [optOrPlug, optOrHoles, OrExpr.plug_holes]

theorem optOr_plug_plug (t : Option OrExpr) (fs fs' : List Leaf) (h : Compat (optOrHoles t) fs)
    (h' : Compat (optOrHoles t) fs') : optOrPlug (optOrPlug t fs) fs' = optOrPlug t fs' := by
  cases t with
  | none => rfl
  | some t => simp only [optOrPlug]; rw [OrExpr.plug_plug t fs fs' h h']

theorem optAnd_holes_plug (t : Option AndExpr) (fs : List Leaf) (h : Compat (optAndHoles t) fs) :
    optAndHoles (optAndPlug t fs) = fs := by
  cases t with
  | none => simp only [optAndHoles] at h; rw [h.nil_left]; rfl
  | some t => exact AndExpr.holes_plug t fs h

theorem optAnd_plug_self (t : Option AndExpr) : optAndPlug t (optAndHoles t) = t := by
  cases t with
  | none => rfl
  | some t => simp [optAndPlug, optAndHoles, AndExpr.plug_holes]

theorem optAnd_plug_plug (t : Option AndExpr) (fs fs' : List Leaf) (h : Compat (optAndHoles t) fs)
    (h' : Compat (optAndHoles t) fs') : optAndPlug (optAndPlug t fs) fs' = optAndPlug t fs' := by
  cases t with
  | none => rfl
  | some t => simp only [optAndPlug]; rw [AndExpr.plug_plug t fs fs' h h']

/-! ### statements -/

theorem SelectStmt.holes_plug (s : SelectStmt) (fs : List Leaf) (c : Compat s.holes fs) :
    (s.plug fs).holes = fs := by
  unfold SelectStmt.holes at c
  have c1 := c.take_left
  have c2 := c.drop_left.take_left
  have c3 := c.drop_left.drop_left.take_left
  have c4 := c.drop_left.drop_left.drop_left.take_left
  have c5 := c.drop_left.drop_left.drop_left.drop_left
  simp only [SelectStmt.holes, SelectStmt.plug]
  rw [countPlug_holes _ _ _ c1, optTime_holes_plug _ _ c2, optOr_holes_plug _ _ c3, countPlug_holes _ _ _ c4,
    countPlug_holes _ _ _ c5]
  simp only [List.take_append_drop]

theorem SelectStmt.plug_holes (s : SelectStmt) : s.plug s.holes = s := by
  simp only [SelectStmt.plug, SelectStmt.holes, List.take_left', List.drop_left', countPlug_self, optTime_plug_self,
    optOr_plug_self]

theorem SelectStmt.plug_plug (s : SelectStmt) (fs fs' : List Leaf) (c : Compat s.holes fs) (c' : Compat s.holes fs') :
    (s.plug fs).plug fs' = s.plug fs' := by
  unfold SelectStmt.holes at c c'
  have c1 := c.take_left
  have c2 := c.drop_left.take_left
  have c3 := c.drop_left.drop_left.take_left
  have c4 := c.drop_left.drop_left.drop_left.take_left
  have c5 := c.drop_left.drop_left.drop_left.drop_left
  have d1 := c'.take_left
  have d2 := c'.drop_left.take_left
  have d3 := c'.drop_left.drop_left.take_left
  have d4 := c'.drop_left.drop_left.drop_left.take_left
  have d5 := c'.drop_left.drop_left.drop_left.drop_left
  simp only [SelectStmt.plug]
  rw [countPlug_holes _ _ _ c1, optTime_holes_plug _ _ c2, optOr_holes_plug _ _ c3, countPlug_holes _ _ _ c4]
  rw [← c1.length, ← c2.length, ← c3.length, ← c4.length]
  rw [countPlug_plug _ _ _ _ c1 d1, optTime_plug_plug _ _ _ c2 d2, optOr_plug_plug _ _ _ c3 d3,
    countPlug_plug _ _ _ _ c4 d4, countPlug_plug _ _ _ _ c5 d5]

theorem TopNStmt.holes_plug (t : TopNStmt) (fs : List Leaf) (c : Compat t.holes fs) :
    (t.plug fs).holes = fs := by
  unfold TopNStmt.holes at c
  have c1 := c.take_left
  have c2 := c.drop_left.take_left
  have c3 := c.drop_left.drop_left
  simp only [List.length_singleton] at c1 c2 c3
  obtain ⟨f, hf, hk⟩ := c1.one
  obtain ⟨w, rfl⟩ := Leaf.kind_count hk
  simp only [TopNStmt.holes, TopNStmt.plug, hf]
  rw [optTime_holes_plug _ _ c2, optAnd_holes_plug _ _ c3]
  simp only [if_true, List.take_append_drop]
  rw [← hf, List.take_append_drop]

theorem TopNStmt.plug_holes (t : TopNStmt) : t.plug t.holes = t := by
  simp [TopNStmt.plug, TopNStmt.holes, optTime_plug_self, optAnd_plug_self]

theorem TopNStmt.plug_plug (t : TopNStmt) (fs fs' : List Leaf) (c : Compat t.holes fs) (c' : Compat t.holes fs') :
    (t.plug fs).plug fs' = t.plug fs' := by
  unfold TopNStmt.holes at c c'
  have c1 := c.take_left
  have c2 := c.drop_left.take_left
  have c3 := c.drop_left.drop_left
  have d1 := c'.take_left
  have d2 := c'.drop_left.take_left
  have d3 := c'.drop_left.drop_left
  simp only [List.length_singleton] at c1 c2 c3 d1 d2 d3
  obtain ⟨f, hf, hk⟩ := c1.one
  obtain ⟨w, rfl⟩ := Leaf.kind_count hk
  obtain ⟨f', hf', hk'⟩ := d1.one
  obtain ⟨w', rfl⟩ := Leaf.kind_count hk'
  simp only [TopNStmt.plug, hf, hf']
  rw [optTime_holes_plug _ _ c2, ← c2.length, optTime_plug_plug _ _ _ c2 d2, optAnd_plug_plug _ _ _ c3 d3]
  simp

theorem Stmt.holes_plug (s : Stmt) (fs : List Leaf) (c : Compat s.holes fs) : (s.plug fs).holes = fs := by
  cases s with
  | select s => exact SelectStmt.holes_plug s fs c
  | topN t => exact TopNStmt.holes_plug t fs c

theorem Stmt.plug_holes (s : Stmt) : s.plug s.holes = s := by
  cases s with
  | select s => simp only [Stmt.plug, Stmt.holes, SelectStmt.plug_holes]
  | topN t => simp only [Stmt.plug, Stmt.holes, TopNStmt.plug_holes]

theorem Stmt.plug_plug (s : Stmt) (fs fs' : List Leaf) (c : Compat s.holes fs) (c' : Compat s.holes fs') :
    (s.plug fs).plug fs' = s.plug fs' := by
  cases s with
  | select s => simp only [Stmt.plug]; rw [SelectStmt.plug_plug s fs fs' c c']
  | topN t => simp only [Stmt.plug]; rw [TopNStmt.plug_plug t fs fs' c c']

/-! ### the skeleton of a plugged statement depends only on the shapes of the fillers -/

/-- what of a position survives value erasure: its kind, the length of a list, single-vs-list form. -/
inductive LeafShape where
  | scalar | time | single
  | vlist (n : Nat)
  | array (n : Nat)
  | count (max : Int)
  deriving DecidableEq, Repr

def Leaf.shape : Leaf → LeafShape
  | .scalar _ => .scalar
  | .vlist vs => .vlist vs.length
  | .multi (.single _) => .single
  | .multi (.array vs) => .array vs.length
  | .time _ => .time
  | .count m _ => .count m

theorem map_eraseValue (l : List Value) : l.map eraseValue = List.replicate l.length .null := by
  induction l with
  | nil => rfl
  | cons a l ih => simp [eraseValue, List.replicate_succ] at *; exact ih

theorem Multi.skel_of_shape {m m' : Multi} (h : (Leaf.multi m).shape = (Leaf.multi m').shape) : m.skel = m'.skel := by
  cases m <;> cases m' <;> simp [Leaf.shape] at h <;> simp [Multi.skel, map_eraseValue, h]

/-- same shapes, position by position. -/
def SameShape (fs fs' : List Leaf) : Prop := fs.map Leaf.shape = fs'.map Leaf.shape

theorem SameShape.take {fs fs' : List Leaf} (h : SameShape fs fs') (n : Nat) : SameShape (fs.take n) (fs'.take n) := by
  unfold SameShape at *; rw [List.map_take, List.map_take, h]

theorem SameShape.drop {fs fs' : List Leaf} (h : SameShape fs fs') (n : Nat) : SameShape (fs.drop n) (fs'.drop n) := by
  unfold SameShape at *; rw [List.map_drop, List.map_drop, h]

theorem SameShape.one {f f' : Leaf} (h : SameShape [f] [f']) : f.shape = f'.shape := by
  simpa [SameShape] using h

theorem TimeClause.skel_plug (t : TimeClause) (fs : List Leaf) : (t.plug fs).skel = t.skel := by
  unfold TimeClause.plug
  split <;> rfl

mutual
theorem Pred.skel_plug : ∀ (p : Pred) (fs fs' : List Leaf), Compat p.holes fs → Compat p.holes fs' →
    SameShape fs fs' → (p.plug fs).skel = (p.plug fs').skel
  | .paren e, fs, fs', c, c', h => by
    simp only [Pred.plug, Pred.holes, Pred.skel] at *
    rw [OrExpr.skel_plug e fs fs' c c' h]
  | .compare i o v, fs, fs', c, c', h => by
    simp only [Pred.holes] at c c'
    obtain ⟨f, rfl, hk⟩ := c.one
    obtain ⟨w, rfl⟩ := Leaf.kind_scalar hk
    obtain ⟨f', rfl, hk'⟩ := c'.one
    obtain ⟨w', rfl⟩ := Leaf.kind_scalar hk'
    rfl
  | .matchP i m a o, fs, fs', c, c', h => by
    simp only [Pred.holes] at c c'
    obtain ⟨f, rfl, hk⟩ := c.one
    obtain ⟨w, rfl⟩ := Leaf.kind_multi hk
    obtain ⟨f', rfl, hk'⟩ := c'.one
    obtain ⟨w', rfl⟩ := Leaf.kind_multi hk'
    simp only [Pred.plug, Pred.skel, Multi.skel_of_shape h.one]
  | .inP i n vs, fs, fs', c, c', h => by
    simp only [Pred.holes] at c c'
    obtain ⟨f, rfl, hk⟩ := c.one
    obtain ⟨w, rfl⟩ := Leaf.kind_vlist hk
    obtain ⟨f', rfl, hk'⟩ := c'.one
    obtain ⟨w', rfl⟩ := Leaf.kind_vlist hk'
    have := h.one
    simp only [Leaf.shape, LeafShape.vlist.injEq] at this
    simp only [Pred.plug, Pred.skel, map_eraseValue, this]
  | .having i n m, fs, fs', c, c', h => by
    simp only [Pred.holes] at c c'
    obtain ⟨f, rfl, hk⟩ := c.one
    obtain ⟨w, rfl⟩ := Leaf.kind_multi hk
    obtain ⟨f', rfl, hk'⟩ := c'.one
    obtain ⟨w', rfl⟩ := Leaf.kind_multi hk'
    simp only [Pred.plug, Pred.skel, Multi.skel_of_shape h.one]
theorem AndExpr.skel_plug : ∀ (a : AndExpr) (fs fs' : List Leaf), Compat a.holes fs → Compat a.holes fs' →
    SameShape fs fs' → (a.plug fs).skel = (a.plug fs').skel
  | .one p, fs, fs', c, c', h => by
    simp only [AndExpr.plug, AndExpr.holes, AndExpr.skel] at *
    rw [Pred.skel_plug p fs fs' c c' h]
  | .cons p r, fs, fs', c, c', h => by
    simp only [AndExpr.plug, AndExpr.holes, AndExpr.skel] at *
    rw [Pred.skel_plug p _ _ c.take_left c'.take_left (h.take _),
      AndExpr.skel_plug r _ _ c.drop_left c'.drop_left (h.drop _)]
theorem OrExpr.skel_plug : ∀ (e : OrExpr) (fs fs' : List Leaf), Compat e.holes fs → Compat e.holes fs' →
    SameShape fs fs' → (e.plug fs).skel = (e.plug fs').skel
  | .one a, fs, fs', c, c', h => by
    simp only [OrExpr.plug, OrExpr.holes, OrExpr.skel] at *
    rw [AndExpr.skel_plug a fs fs' c c' h]
  | .cons a r, fs, fs', c, c', h => by
    simp only [OrExpr.plug, OrExpr.holes, OrExpr.skel] at *
    rw [AndExpr.skel_plug a _ _ c.take_left c'.take_left (h.take _),
      OrExpr.skel_plug r _ _ c.drop_left c'.drop_left (h.drop _)]
end

theorem countPlug_erase (m : Int) (c : Option Count) (fs : List Leaf) :
    (countPlug m c fs).map eraseCount = c.map eraseCount := by
  unfold countPlug
  split
  · split <;> rfl
  · rfl

theorem optTime_skel_plug (t : Option TimeClause) (fs : List Leaf) :
    (optTimePlug t fs).map TimeClause.skel = t.map TimeClause.skel := by
  cases t with
  | none => rfl
  | some t => simp [optTimePlug, TimeClause.skel_plug]

theorem Stmt.skel_plug (s : Stmt) (fs fs' : List Leaf) (c : Compat s.holes fs) (c' : Compat s.holes fs')
    (h : SameShape fs fs') : (s.plug fs).skel = (s.plug fs').skel := by
  cases s with
  | select s =>
    simp only [Stmt.holes, SelectStmt.holes] at c c'
    have c3 := c.drop_left.drop_left.take_left
    have d3 := c'.drop_left.drop_left.take_left
    simp only [Stmt.plug, Stmt.skel, SelectStmt.plug, countPlug_erase, optTime_skel_plug]
    have : (optOrPlug s.where_ (List.take (optOrHoles s.where_).length
          (List.drop (optTimeHoles s.time).length (List.drop (countHoles maxI32 s.topN).length fs)))).map OrExpr.skel =
        (optOrPlug s.where_ (List.take (optOrHoles s.where_).length
          (List.drop (optTimeHoles s.time).length (List.drop (countHoles maxI32 s.topN).length fs')))).map OrExpr.skel := by
      cases hw : s.where_ with
      | none => rfl
      | some e =>
        rw [hw] at c3 d3
        simp only [optOrPlug, Option.map, optOrHoles] at *
        rw [OrExpr.skel_plug e _ _ c3 d3 (((h.drop _).drop _).take _)]
    rw [this]
  | topN t =>
    simp only [Stmt.holes, TopNStmt.holes] at c c'
    have c3 := c.drop_left.drop_left
    have d3 := c'.drop_left.drop_left
    simp only [List.length_singleton] at c3 d3
    simp only [Stmt.plug, Stmt.skel, TopNStmt.plug, optTime_skel_plug, eraseCount]
    have : (optAndPlug t.where_ (List.drop (optTimeHoles t.time).length (List.drop 1 fs))).map AndExpr.skel =
        (optAndPlug t.where_ (List.drop (optTimeHoles t.time).length (List.drop 1 fs'))).map AndExpr.skel := by
      cases hw : t.where_ with
      | none => rfl
      | some e =>
        rw [hw] at c3 d3
        simp only [optAndPlug, Option.map, optAndHoles] at *
        rw [AndExpr.skel_plug e _ _ c3 d3 ((h.drop _).drop _)]
    rw [this]

end Banyan.C20
