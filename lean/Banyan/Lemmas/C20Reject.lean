/-
C20 helper lemmas, part 3: which parameters the binder accepts (declarative table = docs/interacting/bydbql.md 2.6.1)
and what happens on the first parameter that is not accepted.
-/
import Banyan.Lemmas.C20Bind

namespace Banyan.C20

/-- the documented position table: accepted parameter types per placeholder position. -/
def accepts : SlotKind → ParamVal → Bool
  | .scalar, .str _ => true
  | .scalar, .int _ => true
  | .scalar, .null => true
  | .list, .str _ => true
  | .list, .int _ => true
  | .list, .null => true
  | .list, .strArr l => !l.isEmpty
  | .list, .intArr l => !l.isEmpty
  | .time, .str _ => true
  | .time, .ts sec nanos => tsValid sec nanos
  | .count max, .int v => decide (0 ≤ v) && decide (v ≤ max)
  | _, _ => false

theorem validateCount_iff (v max : Int) : validateCount v max = true ↔ 0 ≤ v ∧ v ≤ max := by
  simp [validateCount]

theorem resolveOne_ok_iff (k : SlotKind) (p : ParamVal) (pos : Nat) :
    (∃ r, resolveOne k p pos = .ok r) ↔ accepts k p = true := by
  cases k <;> cases p <;>
    simp [resolveOne, resolve, resolveScalar, resolveList, resolveArray, resolveTime, resolveCount, accepts, Except.map]
  · rename_i l; cases l <;> simp
  · rename_i l; cases l <;> simp
  · rename_i s n; cases tsValid s n <;> simp
  · rename_i m v
    have := validateCount_iff v m
    cases hv : validateCount v m <;> simp [hv] at this ⊢ <;> omega

theorem resolveOne_error_of_not (k : SlotKind) (p : ParamVal) (pos : Nat) (h : accepts k p = false) :
    ∃ e, resolveOne k p pos = .error e := by
  cases hr : resolveOne k p pos with
  | error e => exact ⟨e, rfl⟩
  | ok r => have := (resolveOne_ok_iff k p pos).mp ⟨r, hr⟩; rw [h] at this; cases this

/-- every failure names the 1-based position of the parameter it was raised for. -/
def Err.pos : Err → Nat
  | .rebind => 0
  | .count => 0
  | .noValue p => p
  | .bind p _ => p

theorem resolveOne_error_pos {k : SlotKind} {p : ParamVal} {pos : Nat} {e : Err} (h : resolveOne k p pos = .error e) :
    e.pos = pos := by
  unfold resolveOne at h
  split at h
  · injection h with h; subst h; rfl
  · split at h
    · injection h with h; subst h; rfl
    · cases h

/-- all parameters acceptable at their positions. -/
def acceptsAll : List SlotKind → List ParamVal → Bool
  | [], [] => true
  | k :: ks, p :: ps => accepts k p && acceptsAll ks ps
  | _, _ => false

theorem resolveAll_ok_iff : ∀ (ks : List SlotKind) (ps : List ParamVal) (i : Nat), ks.length = ps.length →
    ((∃ rs, resolveAll ks ps i = .ok rs) ↔ acceptsAll ks ps = true)
  | [], [], _, _ => by simp [resolveAll, acceptsAll]
  | [], _ :: _, _, h => by simp at h
  | _ :: _, [], _, h => by simp at h
  | k :: ks, p :: ps, i, h => by
    have ih := resolveAll_ok_iff ks ps (i + 1) (by simpa using h)
    simp only [acceptsAll, Bool.and_eq_true, ← ih, ← resolveOne_ok_iff k p (i + 1)]
    constructor
    · rintro ⟨rs, hrs⟩
      obtain ⟨r, rs', h1, h2, _⟩ := resolveAll_cons_ok hrs
      exact ⟨⟨r, h1⟩, ⟨rs', h2⟩⟩
    · rintro ⟨⟨r, h1⟩, ⟨rs', h2⟩⟩
      exact ⟨r :: rs', resolveAll_cons_of h1 h2⟩

/-- the first unacceptable parameter decides the error, whatever follows it. -/
theorem resolveAll_first_error : ∀ (k1 : List SlotKind) (p1 : List ParamVal) (k : SlotKind) (p : ParamVal)
    (k2 : List SlotKind) (p2 : List ParamVal) (i : Nat),
    k1.length = p1.length → acceptsAll k1 p1 = true → accepts k p = false →
    resolveAll (k1 ++ k :: k2) (p1 ++ p :: p2) i = (resolveOne k p (i + k1.length + 1)).map (fun _ => [])
  | [], [], k, p, k2, p2, i, _, _, hk => by
    obtain ⟨e, he⟩ := resolveOne_error_of_not k p (i + 1) hk
    simp [resolveAll, he, Except.map]
  | [], _ :: _, _, _, _, _, _, h, _, _ => by simp at h
  | _ :: _, [], _, _, _, _, _, h, _, _ => by simp at h
  | a :: k1, q :: p1, k, p, k2, p2, i, hl, ha, hk => by
    simp only [acceptsAll, Bool.and_eq_true] at ha
    obtain ⟨r, hr⟩ := (resolveOne_ok_iff a q (i + 1)).mpr ha.1
    have ih := resolveAll_first_error k1 p1 k p k2 p2 (i + 1) (by simpa using hl) ha.2 hk
    obtain ⟨e, he⟩ := resolveOne_error_of_not k p (i + 1 + k1.length + 1) hk
    simp only [List.cons_append, List.length_cons]
    unfold resolveAll
    rw [hr]
    simp only
    rw [ih, show i + (k1.length + 1) + 1 = i + 1 + k1.length + 1 by omega, he]
    rfl

/-! ### literal counts and bound counts pass the same guard -/

def Leaf.countOk : Leaf → Bool
  | .count max (.lit n) => validateCount n max
  | _ => true

theorem TimeClause.holes_countOk (t : TimeClause) : ∀ h ∈ t.holes, h.countOk = true := by
  cases t <;> simp [TimeClause.holes, Leaf.countOk]

mutual
theorem Pred.holes_countOk : ∀ (p : Pred), ∀ h ∈ p.holes, h.countOk = true
  | .paren e => by simp only [Pred.holes]; exact OrExpr.holes_countOk e
  | .compare _ _ _ => by simp [Pred.holes, Leaf.countOk]
  | .matchP _ _ _ _ => by simp [Pred.holes, Leaf.countOk]
  | .inP _ _ _ => by simp [Pred.holes, Leaf.countOk]
  | .having _ _ _ => by simp [Pred.holes, Leaf.countOk]
theorem AndExpr.holes_countOk : ∀ (a : AndExpr), ∀ h ∈ a.holes, h.countOk = true
  | .one p => by simp only [AndExpr.holes]; exact Pred.holes_countOk p
  | .cons p r => by
    simp only [AndExpr.holes, List.mem_append]
    intro h hm
    rcases hm with hm | hm
    · exact Pred.holes_countOk p h hm
    · exact AndExpr.holes_countOk r h hm
theorem OrExpr.holes_countOk : ∀ (e : OrExpr), ∀ h ∈ e.holes, h.countOk = true
  | .one a => by simp only [OrExpr.holes]; exact AndExpr.holes_countOk a
  | .cons a r => by
    simp only [OrExpr.holes, List.mem_append]
    intro h hm
    rcases hm with hm | hm
    · exact AndExpr.holes_countOk a h hm
    · exact OrExpr.holes_countOk r h hm
end

theorem countOk_iff_holes (m : Int) (c : Option Count) : countOk m c = true ↔ ∀ h ∈ countHoles m c, h.countOk = true := by
  cases c with
  | none => simp [countOk, countHoles]
  | some c => cases c <;> simp [countOk, countHoles, Leaf.countOk]

theorem validCounts_iff_holes (s : Stmt) : validCounts s = true ↔ ∀ h ∈ s.holes, h.countOk = true := by
  cases s with
  | select s =>
    simp only [validCounts, Stmt.holes, SelectStmt.holes, Bool.and_eq_true, List.mem_append, countOk_iff_holes]
    constructor
    · rintro ⟨⟨h1, h2⟩, h3⟩ h hm
      rcases hm with hm | hm | hm | hm | hm
      · exact h1 h hm
      · cases ht : s.time <;> rw [ht] at hm <;> simp only [optTimeHoles, List.not_mem_nil] at hm
        exact TimeClause.holes_countOk _ h hm
      · cases hw : s.where_ <;> rw [hw] at hm <;> simp only [optOrHoles, List.not_mem_nil] at hm
        exact OrExpr.holes_countOk _ h hm
      · exact h2 h hm
      · exact h3 h hm
    · intro H
      exact ⟨⟨fun h hm => H h (Or.inl hm), fun h hm => H h (Or.inr (Or.inr (Or.inr (Or.inl hm))))⟩,
        fun h hm => H h (Or.inr (Or.inr (Or.inr (Or.inr hm))))⟩
  | topN t =>
    simp only [validCounts, Stmt.holes, TopNStmt.holes, List.mem_append, countOk_iff_holes, countHoles]
    constructor
    · intro h1 h hm
      rcases hm with hm | hm | hm
      · exact h1 h hm
      · cases ht : t.time <;> rw [ht] at hm <;> simp only [optTimeHoles, List.not_mem_nil] at hm
        exact TimeClause.holes_countOk _ h hm
      · cases hw : t.where_ <;> rw [hw] at hm <;> simp only [optAndHoles, List.not_mem_nil] at hm
        exact AndExpr.holes_countOk _ h hm
    · intro H h hm
      exact H h (Or.inl hm)

theorem fillLeaf_countOk (h : Leaf) (ps : List ParamVal) (i : Nat) (rs : List Resolved)
    (hl : h.slots.length = ps.length) (hr : resolveAll h.slots ps i = .ok rs) (hc : h.countOk = true) :
    (fillLeaf h rs).countOk = true := by
  cases h with
  | count m c =>
    cases c with
    | lit n => obtain ⟨rfl, rfl⟩ := resolveAll_nil hl hr; exact hc
    | param j =>
      simp only [Leaf.slots] at hl hr
      obtain ⟨p, r, rfl, rfl, _, hres⟩ := resolveAll_one hl hr
      cases p with
      | int v =>
        by_cases hv : validateCount v m = true
        · simp [resolve, resolveCount, Except.map, hv] at hres; subst hres; simpa [fillLeaf, Leaf.countOk] using hv
        · simp [resolve, resolveCount, Except.map, hv] at hres
      | _ => simp [resolve, resolveCount, Except.map] at hres
  | scalar v => have := fillLeaf_kind (.scalar v) rs; obtain ⟨w, hw⟩ := Leaf.kind_scalar this; rw [hw]; rfl
  | vlist v => rfl
  | multi v => rfl
  | time v => have := fillLeaf_kind (.time v) rs; obtain ⟨w, hw⟩ := Leaf.kind_time this; rw [hw]; rfl

theorem fillLeaves_countOk : ∀ (hs : List Leaf) (ps : List ParamVal) (i : Nat) (rs : List Resolved),
    (slotsOf hs).length = ps.length → resolveAll (slotsOf hs) ps i = .ok rs → (∀ h ∈ hs, h.countOk = true) →
    ∀ h ∈ fillLeaves hs rs, h.countOk = true
  | [], _, _, _, _, _, _ => by simp [fillLeaves]
  | h :: hs, ps, i, rs, hl, hr, hc => by
    rw [slotsOf_cons] at hl hr
    have hle : h.slots.length ≤ ps.length := by simp at hl; omega
    obtain ⟨r1, r2, h1, h2, rfl, hlen⟩ := resolveAll_append _ _ ps i rs hle hr
    simp only [fillLeaves, List.mem_cons]
    rw [List.take_left' hlen, List.drop_left' hlen]
    rintro x (rfl | hx)
    · exact fillLeaf_countOk h _ i r1 (by simp; omega) h1 (hc h (by simp))
    · exact fillLeaves_countOk hs _ _ r2 (by simp at hl ⊢; omega) h2 (fun y hy => hc y (by simp [hy])) x hx

end Banyan.C20
