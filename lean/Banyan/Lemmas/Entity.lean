/-
Helper lemmas for the entity-value escaping codec (pkg/pb/v1/value.go).
-/
import Banyan.Model.C12
import Banyan.Lemmas.Bytes
import Banyan.Lemmas.Bits

namespace Banyan.C12

theorem unescapeLoop_cons (b : Byte) (rest acc : List Byte) :
    unescapeLoop (b :: rest) acc =
      if b = esc then
        match rest with
        | [] => none
        | c :: rest' => unescapeLoop rest' (acc ++ [c])
      else if b = delim then some (acc, rest)
      else unescapeLoop rest (acc ++ [b]) := by
  rw [unescapeLoop.eq_def]; rfl

theorem delim_ne_esc : ¬ delim = esc := by decide

theorem unescapeLoop_escapeBody (s rest acc : List Byte) :
    unescapeLoop (escapeBody s ++ delim :: rest) acc = some (acc ++ s, rest) := by
  induction s generalizing acc with
  | nil => simp [escapeBody, unescapeLoop_cons, delim_ne_esc]
  | cons b bs ih =>
    simp only [escapeBody]
    by_cases h : b = delim ∨ b = esc
    · simp only [h, if_true, List.cons_append, unescapeLoop_cons]
      simp [ih]
    · simp only [h, if_false, List.cons_append, unescapeLoop_cons]
      have h1 : ¬ b = esc := fun e => h (Or.inr e)
      have h2 : ¬ b = delim := fun e => h (Or.inl e)
      simp [h1, h2, ih]

theorem unmarshal_marshalEntityValue (s rest : List Byte) :
    unmarshalEntityValue (marshalEntityValue s ++ rest) = some (s, rest) := by
  unfold unmarshalEntityValue marshalEntityValue
  have := unescapeLoop_escapeBody s rest []
  simp only [List.nil_append] at this
  rw [List.append_assoc]
  simp only [List.cons_append, List.nil_append]
  rw [this]
  cases h : escapeBody s ++ delim :: rest with
  | nil => simp at h
  | cons a as => rfl

theorem encInt64ToBytes_length (v : BitVec 64) : (encInt64ToBytes v).length = 8 := by
  simp [encInt64ToBytes, beBytes_length]

theorem encBytesToInt64_encInt64ToBytes (v : BitVec 64) : encBytesToInt64 (encInt64ToBytes v) = v := by
  unfold encBytesToInt64
  rw [List.take_of_length_le (by rw [encInt64ToBytes_length]; exact Nat.le_refl 8)]
  unfold encInt64ToBytes
  rw [ofBE_beBytes_of_lt 8 _ (by have := (zigzag v).isLt; exact this)]
  simp [Bits.unzigzag_zigzag]

end Banyan.C12
