/-
Basic facts about the FS model (`Banyan/Model/FS.lean`): association-list maps are reasoned about only through
`Map.get`; directory operations; closure of a predicate under any sub-list of pending operations; trees.
-/
import Banyan.Model.FS

namespace Banyan.FS

namespace Map
variable {α β : Type} [DecidableEq α]

@[simp] theorem get_nil (q : α) : get ([] : Map α β) q = none := rfl

theorem get_cons (k : α) (v : β) (m : Map α β) (q : α) :
    get ((k, v) :: m) q = if q = k then some v else get m q := rfl

theorem get_filterKeys (m : Map α β) (f : α → Bool) (q : α) :
    get (filterKeys m f) q = if f q then get m q else none := by
  induction m with
  | nil => simp [filterKeys]
  | cons kv m ih =>
    obtain ⟨k, v⟩ := kv
    unfold filterKeys at ih ⊢
    by_cases hk : f k = true
    · rw [List.filter_cons_of_pos (by simpa using hk), get_cons, get_cons, ih]
      by_cases hq : q = k
      · subst hq; simp [hk]
      · simp [hq]
    · rw [List.filter_cons_of_neg (by simpa using hk), get_cons, ih]
      by_cases hq : q = k
      · subst hq; simp [hk]
      · simp [hq]

theorem get_erase (m : Map α β) (k q : α) : get (erase m k) q = if q = k then none else get m q := by
  unfold erase; rw [get_filterKeys]; by_cases h : q = k <;> simp [h]

theorem get_set (m : Map α β) (k : α) (v : β) (q : α) :
    get (set m k v) q = if q = k then some v else get m q := by
  unfold set; rw [get_cons, get_erase]; by_cases h : q = k <;> simp [h]

theorem mem_keys_iff (m : Map α β) (q : α) : q ∈ keys m ↔ (get m q).isSome = true := by
  induction m with
  | nil => simp [keys]
  | cons kv m ih =>
    obtain ⟨k, v⟩ := kv
    unfold keys at ih ⊢
    simp only [List.map_cons, List.mem_cons, get_cons]
    by_cases h : q = k
    · simp [h]
    · simp [h, ih]

theorem get_map_val {γ : Type} (m : Map α β) (g : β → γ) (q : α) :
    get (List.map (fun kv => (kv.1, g kv.2)) m) q = (get m q).map g := by
  induction m with
  | nil => rfl
  | cons kv m ih =>
    obtain ⟨k, v⟩ := kv
    simp only [List.map_cons, get_cons, ih]
    by_cases h : q = k <;> simp [h]

end Map

section
variable {Name : Type} [DecidableEq Name]

/-! ### directory operations -/

theorem get_apply_add (m : NS Name) (p : List Name) (n : Node) (q : List Name) :
    Map.get ((DOp.add p n).apply m) q = if q = p then some n else Map.get m q := by
  simp [DOp.apply, Map.get_set]

theorem get_apply_del (m : NS Name) (p q : List Name) :
    Map.get ((DOp.del p).apply m) q = if p.isPrefixOf q then none else Map.get m q := by
  simp only [DOp.apply, Map.get_filterKeys]
  by_cases h : p.isPrefixOf q = true <;> simp [h]

theorem get_apply_ren (m : NS Name) (a b q : List Name) :
    Map.get ((DOp.ren a b).apply m) q =
      match Map.get m a with
      | some n => if q = b then some n else if q = a then none else Map.get m q
      | none => Map.get m q := by
  cases h : Map.get m a with
  | none => simp [DOp.apply, h]
  | some n =>
    simp only [DOp.apply, h, Map.get_cons, Map.get_filterKeys]
    by_cases hb : q = b
    · simp [hb]
    · by_cases ha : q = a
      · simp [ha]
      · simp [hb, ha]

/-- A predicate that holds of the durable name space and is preserved by every pending operation holds of
    every name space a power loss can leave behind (any sub-list, in fact any sequence, of pending ops). -/
theorem applyOps_inv (P : NS Name → Prop) (pend : List (DOp Name))
    (hstep : ∀ o ∈ pend, ∀ m, P m → P (o.apply m)) :
    ∀ (sub : List (DOp Name)), List.Sublist sub pend → ∀ m, P m → P (applyOps sub m) := by
  intro sub hs
  have hmem : ∀ o ∈ sub, o ∈ pend := fun o ho => hs.subset ho
  clear hs
  induction sub with
  | nil => intro m hm; simpa [applyOps] using hm
  | cons o sub ih =>
    intro m hm
    have : applyOps (o :: sub) m = applyOps sub (o.apply m) := by simp [applyOps]
    rw [this]
    exact ih (fun o' ho' => hmem o' (List.mem_cons_of_mem _ ho')) _ (hstep o (hmem o (List.mem_cons_self)) m hm)

theorem applyOps_nil (m : NS Name) : applyOps ([] : List (DOp Name)) m = m := rfl

theorem applyOps_cons (o : DOp Name) (ops : List (DOp Name)) (m : NS Name) :
    applyOps (o :: ops) m = applyOps ops (o.apply m) := by simp [applyOps]

theorem applyOps_append (a b : List (DOp Name)) (m : NS Name) :
    applyOps (a ++ b) m = applyOps b (applyOps a m) := by simp [applyOps, List.foldl_append]

/-! ### resolved trees -/

theorem get_resolve (ns : NS Name) (data : Nat → Content) (q : List Name) :
    Map.get (resolve ns data) q = (Map.get ns q).map (resolveNode data) := by
  unfold resolve; exact Map.get_map_val ns (resolveNode data) q

theorem get_rmAll (t : Tree Name) (p q : List Name) :
    Map.get (rmAll t p) q = if p.isPrefixOf q then none else Map.get t q := by
  simp only [rmAll, Map.get_filterKeys]
  by_cases h : p.isPrefixOf q = true <;> simp [h]

theorem dropLast_append_of_getLast? {α : Type} (q : List α) (n : α) (h : q.getLast? = some n) :
    q.dropLast ++ [n] = q := by
  induction q with
  | nil => simp at h
  | cons a q ih =>
    cases q with
    | nil => simp at h; simp [h]
    | cons b q =>
      have : (b :: q).getLast? = some n := by simpa [List.getLast?_cons_cons] using h
      simp [List.dropLast, ih this]

theorem mem_children (t : Tree Name) (d : List Name) (n : Name) :
    n ∈ children t d ↔ exists_ t (d ++ [n]) = true := by
  unfold children exists_
  rw [List.mem_eraseDups, List.mem_filterMap]
  constructor
  · rintro ⟨q, hq, hn⟩
    by_cases hd : q.dropLast = d
    · simp only [hd, if_true] at hn
      have hne : q ≠ [] := by intro h; subst h; simp at hn
      have : q = d ++ [n] := by
        have h1 := dropLast_append_of_getLast? q n hn
        rw [hd] at h1; exact h1.symm
      subst this
      exact (Map.mem_keys_iff t _).1 hq
    · simp [hd] at hn
  · intro h
    refine ⟨d ++ [n], (Map.mem_keys_iff t _).2 h, ?_⟩
    simp

end

end Banyan.FS
