/-
Helper lemmas for C10: hash group-by (`groupBy.hash`), the sort iterator's runs, and replica de-duplication.
-/
import Banyan.Model.C10

namespace Banyan.C10

variable {α κ : Type} [DecidableEq κ]

/-! ### `groupInsert` / `groupByKey` -/

/-- the members recorded for key `k` (empty if the key is absent). -/
def lookupG (acc : List (κ × List α)) (k : κ) : List α :=
  match acc with
  | [] => []
  | (k', g) :: rest => if k' = k then g else lookupG rest k

theorem keys_groupInsert (k : κ) (x : α) (acc : List (κ × List α)) :
    (groupInsert k x acc).map (·.1) = if k ∈ acc.map (·.1) then acc.map (·.1) else acc.map (·.1) ++ [k] := by
  induction acc with
  | nil => simp [groupInsert]
  | cons p rest ih =>
    obtain ⟨k', g⟩ := p
    simp only [groupInsert]
    by_cases c : k' = k
    · subst c; simp
    · rw [if_neg c]
      simp only [List.map_cons, List.mem_cons, ih]
      have c' : ¬ k = k' := fun h => c h.symm
      by_cases m : k ∈ rest.map (·.1)
      · simp [m]
      · simp [m, c']

theorem lookup_groupInsert (k : κ) (x : α) (acc : List (κ × List α)) (k' : κ) :
    lookupG (groupInsert k x acc) k' = if k' = k then lookupG acc k ++ [x] else lookupG acc k' := by
  induction acc with
  | nil =>
    simp only [groupInsert, lookupG]
    by_cases c : k = k'
    · subst c; simp
    · have c' : ¬ k' = k := fun h => c h.symm
      simp [c, c']
  | cons p rest ih =>
    obtain ⟨k₀, g⟩ := p
    simp only [groupInsert]
    by_cases c : k₀ = k
    · subst c
      simp only [if_true, lookupG]
      by_cases d : k₀ = k'
      · subst d; simp
      · have d' : ¬ k' = k₀ := fun h => d h.symm
        simp [d, d']
    · rw [if_neg c]
      simp only [lookupG, ih]
      by_cases d : k₀ = k'
      · subst d; simp [c]
      · simp [d, c]

theorem groupByKey_snoc (key : α → κ) (l : List α) (x : α) :
    groupByKey key (l ++ [x]) = groupInsert (key x) x (groupByKey key l) := by
  simp [groupByKey, List.foldl_append]

/-- membership in an association list with distinct keys. -/
theorem mem_iff_lookup (acc : List (κ × List α)) (hnd : (acc.map (·.1)).Nodup) (k : κ) (g : List α) :
    (k, g) ∈ acc ↔ k ∈ acc.map (·.1) ∧ lookupG acc k = g := by
  induction acc with
  | nil => simp
  | cons p rest ih =>
    obtain ⟨k₀, g₀⟩ := p
    rw [List.map_cons, List.nodup_cons] at hnd
    have ih' := ih hnd.2
    by_cases c : k₀ = k
    · subst c
      have hl : lookupG ((k₀, g₀) :: rest) k₀ = g₀ := by simp [lookupG]
      rw [hl]
      constructor
      · intro h
        cases List.mem_cons.mp h with
        | inl h => exact ⟨List.mem_cons_self .., (Prod.mk.inj h).2.symm⟩
        | inr h => exact absurd (List.mem_map.mpr ⟨(k₀, g), h, rfl⟩) hnd.1
      · intro h; rw [← h.2]; exact List.mem_cons_self ..
    · have hl : lookupG ((k₀, g₀) :: rest) k = lookupG rest k := by simp [lookupG, c]
      rw [hl]
      constructor
      · intro h
        cases List.mem_cons.mp h with
        | inl h => exact absurd (Prod.mk.inj h).1.symm c
        | inr h => have := ih'.mp h; exact ⟨List.mem_cons_of_mem _ this.1, this.2⟩
      · intro h
        have hk : k ∈ rest.map (·.1) := by
          cases List.mem_cons.mp h.1 with
          | inl e => exact absurd e.symm c
          | inr e => exact e
        exact List.mem_cons_of_mem _ (ih'.mpr ⟨hk, h.2⟩)

/-- the invariant of the grouping loop after the prefix `p` has been consumed. -/
def GroupInv (key : α → κ) (acc : List (κ × List α)) (p : List α) : Prop :=
  (acc.map (·.1)).Nodup ∧
  (∀ k, k ∈ acc.map (·.1) ↔ ∃ x ∈ p, key x = k) ∧
  (∀ k, lookupG acc k = p.filter (fun x => key x = k))

theorem groupInv_step (key : α → κ) (acc : List (κ × List α)) (p : List α) (x : α)
    (inv : GroupInv key acc p) : GroupInv key (groupInsert (key x) x acc) (p ++ [x]) := by
  obtain ⟨hnd, hkeys, hlook⟩ := inv
  refine ⟨?_, ?_, ?_⟩
  · rw [keys_groupInsert]
    by_cases m : key x ∈ acc.map (·.1)
    · rw [if_pos m]; exact hnd
    · rw [if_neg m]
      rw [List.nodup_append]
      refine ⟨hnd, by simp, ?_⟩
      intro a ha b hb
      simp at hb; subst hb
      intro e; subst e; exact m ha
  · intro k
    rw [keys_groupInsert]
    by_cases m : key x ∈ acc.map (·.1)
    · rw [if_pos m, hkeys]
      constructor
      · rintro ⟨y, hy, e⟩; exact ⟨y, List.mem_append_left _ hy, e⟩
      · rintro ⟨y, hy, e⟩
        cases List.mem_append.mp hy with
        | inl h => exact ⟨y, h, e⟩
        | inr h =>
          simp at h; subst h; subst e
          exact (hkeys _).mp m
    · rw [if_neg m, List.mem_append, hkeys]
      constructor
      · intro h
        cases h with
        | inl h => obtain ⟨y, hy, e⟩ := h; exact ⟨y, List.mem_append_left _ hy, e⟩
        | inr h => simp at h; exact ⟨x, by simp, h.symm⟩
      · rintro ⟨y, hy, e⟩
        cases List.mem_append.mp hy with
        | inl h => exact Or.inl ⟨y, h, e⟩
        | inr h => simp at h; subst h; exact Or.inr (by simp [e])
  · intro k
    rw [lookup_groupInsert, List.filter_append]
    by_cases c : k = key x
    · subst c; simp [hlook]
    · have c' : ¬ key x = k := fun h => c h.symm
      simp [c, c', hlook]

theorem groupInv_foldl (key : α → κ) (l : List α) (acc : List (κ × List α)) (p : List α)
    (inv : GroupInv key acc p) :
    GroupInv key (l.foldl (fun acc x => groupInsert (key x) x acc) acc) (p ++ l) := by
  induction l generalizing acc p with
  | nil => simpa using inv
  | cons x xs ih =>
    simp only [List.foldl_cons]
    have := ih _ _ (groupInv_step key acc p x inv)
    simpa [List.append_assoc] using this

/-- `groupBy.hash` is "partition by key": distinct keys, every row's key present, and the group of a key is
    exactly the rows with that key, in arrival order. -/
theorem groupByKey_spec (key : α → κ) (l : List α) :
    ((groupByKey key l).map (·.1)).Nodup ∧
    (∀ k, k ∈ (groupByKey key l).map (·.1) ↔ ∃ x ∈ l, key x = k) ∧
    (∀ k, lookupG (groupByKey key l) k = l.filter (fun x => key x = k)) := by
  have h := groupInv_foldl key l [] [] ⟨by simp, by simp, by simp [lookupG]⟩
  simpa [groupByKey, GroupInv] using h

/-- every group listed by `groupByKey` is the non-empty list of the rows with its key. -/
theorem groupByKey_mem (key : α → κ) (l : List α) (k : κ) (g : List α) (h : (k, g) ∈ groupByKey key l) :
    g = l.filter (fun x => key x = k) ∧ g ≠ [] := by
  obtain ⟨hnd, hkeys, hlook⟩ := groupByKey_spec key l
  have ⟨hk, hg⟩ := (mem_iff_lookup _ hnd k g).mp h
  rw [hlook] at hg
  refine ⟨hg.symm, ?_⟩
  obtain ⟨x, hx, e⟩ := (hkeys k).mp hk
  intro hnil
  rw [← hg] at hnil
  have : x ∈ l.filter (fun x => key x = k) := List.mem_filter.mpr ⟨hx, by simp [e]⟩
  rw [hnil] at this; simp at this

/-! ### runs of the sort iterator -/

/-- `groupSortIterator`: the runs concatenate to the input, every run is non-empty and carries one key. -/
theorem chunkByKey_spec (key : α → κ) (l : List α) :
    ((chunkByKey key l).flatMap (·.2) = l) ∧
    (∀ kg ∈ chunkByKey key l, kg.2 ≠ [] ∧ ∀ x ∈ kg.2, key x = kg.1) := by
  induction l with
  | nil => simp [chunkByKey]
  | cons x xs ih =>
    obtain ⟨hcat, hrun⟩ := ih
    simp only [chunkByKey]
    cases hc : chunkByKey key xs with
    | nil =>
      rw [hc] at hcat
      simp at hcat
      subst hcat
      simp
    | cons p rest =>
      obtain ⟨k, g⟩ := p
      rw [hc] at hcat hrun
      simp only []
      by_cases c : k = key x
      · rw [if_pos c]
        refine ⟨by simpa using hcat, ?_⟩
        intro kg hkg
        cases List.mem_cons.mp hkg with
        | inl e =>
          subst e
          refine ⟨by simp, ?_⟩
          intro y hy
          cases List.mem_cons.mp hy with
          | inl e => subst e; exact c.symm
          | inr e => exact (hrun (k, g) (List.mem_cons_self ..)).2 y e
        | inr e => exact hrun kg (List.mem_cons_of_mem _ e)
      · rw [if_neg c]
        refine ⟨by simpa using hcat, ?_⟩
        intro kg hkg
        cases List.mem_cons.mp hkg with
        | inl e => subst e; simp
        | inr e => exact hrun kg e

/-! ### replica de-duplication -/

theorem dedupBy_sublist (key : α → κ) (l : List α) (seen : List κ) : (dedupBy key l seen).Sublist l := by
  induction l generalizing seen with
  | nil => simp [dedupBy]
  | cons x xs ih =>
    simp only [dedupBy]
    split
    · exact (ih seen).cons x
    · exact (ih _).cons_cons x

theorem dedupBy_keys_not_seen (key : α → κ) (l : List α) (seen : List κ) :
    ∀ y ∈ dedupBy key l seen, key y ∉ seen := by
  induction l generalizing seen with
  | nil => simp [dedupBy]
  | cons x xs ih =>
    simp only [dedupBy]
    split
    · exact ih seen
    · rename_i hx
      intro y hy
      cases List.mem_cons.mp hy with
      | inl e => subst e; exact hx
      | inr e => have := ih _ y e; simp at this; exact this.2

/-- one element per key survives. -/
theorem dedupBy_nodup (key : α → κ) (l : List α) (seen : List κ) :
    ((dedupBy key l seen).map key).Nodup := by
  induction l generalizing seen with
  | nil => simp [dedupBy]
  | cons x xs ih =>
    simp only [dedupBy]
    split
    · exact ih seen
    · rw [List.map_cons, List.nodup_cons]
      refine ⟨?_, ih _⟩
      intro hm
      obtain ⟨y, hy, e⟩ := List.mem_map.mp hm
      have := dedupBy_keys_not_seen key xs (key x :: seen) y hy
      simp at this; exact this.1 e

/-- every key of the input (not seen before) is still represented. -/
theorem dedupBy_covers (key : α → κ) (l : List α) (seen : List κ) :
    ∀ x ∈ l, key x ∉ seen → ∃ y ∈ dedupBy key l seen, key y = key x := by
  induction l generalizing seen with
  | nil => simp
  | cons a xs ih =>
    intro x hx hns
    simp only [dedupBy]
    by_cases c : key a ∈ seen
    · rw [if_pos c]
      cases List.mem_cons.mp hx with
      | inl e => subst e; exact absurd c hns
      | inr e => exact ih seen x e hns
    · rw [if_neg c]
      cases List.mem_cons.mp hx with
      | inl e => subst e; exact ⟨x, List.mem_cons_self .., rfl⟩
      | inr e =>
        by_cases d : key x = key a
        · exact ⟨a, List.mem_cons_self .., d.symm⟩
        · obtain ⟨y, hy, e2⟩ := ih (key a :: seen) x e (by simp [d, hns])
          exact ⟨y, List.mem_cons_of_mem _ hy, e2⟩

theorem dedupBy_append (key : α → κ) (l l' : List α) (seen : List κ) :
    dedupBy key (l ++ l') seen =
      dedupBy key l seen ++ dedupBy key l' ((dedupBy key l seen).reverse.map key ++ seen) := by
  induction l generalizing seen with
  | nil => simp [dedupBy]
  | cons x xs ih =>
    simp only [List.cons_append, dedupBy]
    by_cases c : key x ∈ seen
    · rw [if_pos c, if_pos c]; exact ih seen
    · rw [if_neg c, if_neg c, ih]
      simp [List.append_assoc]

theorem dedupBy_all_seen (key : α → κ) (l : List α) (seen : List κ) (h : ∀ x ∈ l, key x ∈ seen) :
    dedupBy key l seen = [] := by
  induction l with
  | nil => rfl
  | cons x xs ih =>
    simp only [dedupBy]
    rw [if_pos (h x (List.mem_cons_self ..))]
    exact ih (fun y hy => h y (List.mem_cons_of_mem _ hy))

/-- Answers that arrive after the first answer for their (shard, group) key are dropped entirely:
    appending any number of replica answers changes nothing. -/
theorem dedupBy_replicas (key : α → κ) (l l' : List α) (h : ∀ x ∈ l', ∃ y ∈ l, key y = key x) :
    dedupBy key (l ++ l') [] = dedupBy key l [] := by
  rw [dedupBy_append]
  have hs : dedupBy key l' ((dedupBy key l []).reverse.map key ++ []) = [] := by
    apply dedupBy_all_seen
    intro x hx
    obtain ⟨y, hy, e⟩ := h x hx
    obtain ⟨z, hz, e2⟩ := dedupBy_covers key l [] y hy (by simp)
    simp only [List.append_nil, List.map_reverse, List.mem_reverse, List.mem_map]
    exact ⟨z, hz, e2.trans e⟩
  rw [hs, List.append_nil]

/-- with consistent replicas (same key ⇒ same answer) the survivors are exactly the distinct answers. -/
theorem dedupBy_mem_of_consistent (key : α → κ) (l : List α)
    (cons : ∀ x ∈ l, ∀ y ∈ l, key x = key y → x = y) (x : α) :
    x ∈ dedupBy key l [] ↔ x ∈ l := by
  constructor
  · exact fun h => (dedupBy_sublist key l []).subset h
  · intro hx
    obtain ⟨y, hy, e⟩ := dedupBy_covers key l [] x hx (by simp)
    have : y = x := cons y ((dedupBy_sublist key l []).subset hy) x hx e
    rw [← this]; exact hy

theorem nodup_of_map {β : Type} (f : α → β) (l : List α) (h : (l.map f).Nodup) : l.Nodup := by
  unfold List.Nodup at h ⊢
  rw [List.pairwise_map] at h
  exact h.imp (fun hab e => hab (by rw [e]))

theorem dedupBy_perm_of_consistent [DecidableEq α] (key : α → κ) (l₁ l₂ : List α)
    (c₁ : ∀ x ∈ l₁, ∀ y ∈ l₁, key x = key y → x = y)
    (c₂ : ∀ x ∈ l₂, ∀ y ∈ l₂, key x = key y → x = y)
    (hm : ∀ x, x ∈ l₁ ↔ x ∈ l₂) :
    (dedupBy key l₁ []).Perm (dedupBy key l₂ []) := by
  have n₁ : (dedupBy key l₁ []).Nodup := nodup_of_map key _ (dedupBy_nodup key l₁ [])
  have n₂ : (dedupBy key l₂ []).Nodup := nodup_of_map key _ (dedupBy_nodup key l₂ [])
  rw [List.perm_ext_iff_of_nodup n₁ n₂]
  intro a
  rw [dedupBy_mem_of_consistent key l₁ c₁, dedupBy_mem_of_consistent key l₂ c₂]
  exact hm a

/-! ### partitions -/

variable {σ : Type} [DecidableEq σ]

theorem inj_of_nodup_map {β : Type} (f : α → β) (l : List α) (h : (l.map f).Nodup) (x y : α)
    (hx : x ∈ l) (hy : y ∈ l) (e : f x = f y) : x = y := by
  induction l with
  | nil => simp at hx
  | cons a as ih =>
    rw [List.map_cons, List.nodup_cons] at h
    cases List.mem_cons.mp hx with
    | inl h1 =>
      cases List.mem_cons.mp hy with
      | inl h2 => rw [h1, h2]
      | inr h2 => subst h1; exact absurd (List.mem_map.mpr ⟨y, h2, e.symm⟩) h.1
    | inr h1 =>
      cases List.mem_cons.mp hy with
      | inl h2 => subst h2; exact absurd (List.mem_map.mpr ⟨x, h1, e⟩) h.1
      | inr h2 => exact ih h.2 h1 h2

/-- splitting a list by a classifier over a duplicate-free list of classes that covers it rearranges it. -/
theorem partition_perm (f : α → σ) (ss : List σ) (L : List α) (hnd : ss.Nodup) (hc : ∀ x ∈ L, f x ∈ ss) :
    (ss.map fun s => L.filter fun x => f x = s).flatten.Perm L := by
  induction ss generalizing L with
  | nil =>
    cases L with
    | nil => simp
    | cons x xs => exact absurd (hc x (List.mem_cons_self ..)) (by simp)
  | cons s ss ih =>
    rw [List.nodup_cons] at hnd
    simp only [List.map_cons, List.flatten_cons]
    have h1 : (ss.map fun s' => L.filter fun x => f x = s') =
        (ss.map fun s' => (L.filter fun x => !decide (f x = s)).filter fun x => f x = s') := by
      apply List.map_congr_left
      intro s' hs'
      rw [List.filter_filter]
      apply List.filter_congr
      intro x _
      have hne : s' ≠ s := fun e => hnd.1 (e ▸ hs')
      by_cases c : f x = s'
      · simp [c, hne]
      · simp [c]
    rw [h1]
    have h2 := ih (L.filter fun x => !decide (f x = s)) hnd.2 (by
      intro x hx
      have ⟨hxl, hxs⟩ := List.mem_filter.mp hx
      have := hc x hxl
      cases List.mem_cons.mp this with
      | inl e => simp [e] at hxs
      | inr e => exact e)
    exact (List.Perm.append_left _ h2).trans (List.filter_append_perm (fun x => decide (f x = s)) L)

theorem groupByKey_eq (key : α → κ) (l : List α) :
    groupByKey key l = ((groupByKey key l).map (·.1)).map fun k => (k, l.filter fun x => key x = k) := by
  rw [List.map_map]
  conv => lhs; rw [← List.map_id (groupByKey key l)]
  apply List.map_congr_left
  intro kg hkg
  obtain ⟨k, g⟩ := kg
  have := (groupByKey_mem key l k g hkg).1
  simp [this]

end Banyan.C10
