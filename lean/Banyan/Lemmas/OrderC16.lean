/-
Helper lemmas for C16: `lexLt` is a strict total order on byte strings; the insertion-sort specification
(`insertBy`/`sortBy`) produces the unique strictly sorted list with the same members; the binary search of
Go's `sort.Search` finds the first index at which a monotone predicate holds.
-/
import Banyan.Model.C16

namespace Banyan

theorem lexLt_irrefl (a : List Byte) : lexLt a a = false := by
  induction a with
  | nil => rfl
  | cons x xs ih => simp [lexLt, ih]

theorem lexLt_trans {a b c : List Byte} (h1 : lexLt a b = true) (h2 : lexLt b c = true) : lexLt a c = true := by
  induction a generalizing b c with
  | nil =>
    cases b with
    | nil => simp [lexLt] at h1
    | cons y ys => cases c with
      | nil => simp [lexLt] at h2
      | cons z zs => simp [lexLt]
  | cons x xs ih =>
    cases b with
    | nil => simp [lexLt] at h1
    | cons y ys =>
      cases c with
      | nil => simp [lexLt] at h2
      | cons z zs =>
        simp only [lexLt] at h1 h2 ⊢
        by_cases hxy : x < y
        · by_cases hyz : y < z
          · have : x < z := Nat.lt_trans hxy hyz
            simp [this]
          · by_cases hzy : z < y
            · simp [hyz, hzy] at h2
            · have : y = z := Nat.le_antisymm (Nat.le_of_not_lt hzy) (Nat.le_of_not_lt hyz)
              subst this; simp [hxy]
        · by_cases hyx : y < x
          · simp [hxy, hyx] at h1
          · have hxy' : x = y := Nat.le_antisymm (Nat.le_of_not_lt hyx) (Nat.le_of_not_lt hxy)
            subst hxy'
            simp only [hxy, if_false] at h1
            by_cases hyz : x < z
            · simp [hyz]
            · by_cases hzy : z < x
              · simp [hyz, hzy] at h2
              · simp only [hyz, hzy, if_false] at h2 ⊢
                exact ih h1 h2

theorem lexLt_total {a b : List Byte} (h : a ≠ b) : lexLt a b = true ∨ lexLt b a = true := by
  induction a generalizing b with
  | nil =>
    cases b with
    | nil => exact absurd rfl h
    | cons y ys => simp [lexLt]
  | cons x xs ih =>
    cases b with
    | nil => simp [lexLt]
    | cons y ys =>
      simp only [lexLt]
      by_cases hxy : x < y
      · simp [hxy]
      · by_cases hyx : y < x
        · simp [hyx]
        · have : x = y := Nat.le_antisymm (Nat.le_of_not_lt hyx) (Nat.le_of_not_lt hxy)
          subst this
          simp only [hxy, if_false]
          exact ih (fun e => h (by rw [e]))

theorem lexLt_asymm {a b : List Byte} (h : lexLt a b = true) : lexLt b a = false := by
  cases hb : lexLt b a with
  | false => rfl
  | true => have := lexLt_trans h hb; rw [lexLt_irrefl] at this; exact absurd this (by decide)

namespace C16

/-! ### order on keys -/

theorem keyLt_irrefl (a : Key) : keyLt a a = false := by
  simp [keyLt, lexLt_irrefl]

theorem keyLt_trans {a b c : Key} (h1 : keyLt a b = true) (h2 : keyLt b c = true) : keyLt a c = true := by
  simp only [keyLt, Bool.or_eq_true, Bool.and_eq_true, beq_iff_eq, decide_eq_true_eq] at h1 h2 ⊢
  rcases h1 with h1 | ⟨e1, l1⟩ <;> rcases h2 with h2 | ⟨e2, l2⟩
  · exact Or.inl (lexLt_trans h1 h2)
  · exact Or.inl (e2 ▸ h1)
  · exact Or.inl (e1 ▸ h2)
  · exact Or.inr ⟨e1.trans e2, Nat.lt_trans l1 l2⟩

theorem keyLt_asymm {a b : Key} (h : keyLt a b = true) : keyLt b a = false := by
  cases hb : keyLt b a with
  | false => rfl
  | true => have := keyLt_trans h hb; rw [keyLt_irrefl] at this; exact absurd this (by decide)

/-- keys that differ in group or shard are comparable -/
theorem keyLt_total {a b : Key} (h : a.group ≠ b.group ∨ a.shard ≠ b.shard) :
    keyLt a b = true ∨ keyLt b a = true := by
  simp only [keyLt, Bool.or_eq_true, Bool.and_eq_true, beq_iff_eq, decide_eq_true_eq]
  by_cases hg : a.group = b.group
  · rcases h with h | h
    · exact absurd hg h
    · rcases Nat.lt_or_gt_of_ne h with h | h
      · exact Or.inl (Or.inr ⟨hg, h⟩)
      · exact Or.inr (Or.inr ⟨hg.symm, h⟩)
  · rcases lexLt_total hg with h | h
    · exact Or.inl (Or.inl h)
    · exact Or.inr (Or.inl h)

/-! ### insertion sort -/

section SortLemmas
variable {α : Type} (lt : α → α → Bool)

theorem mem_insertBy {x y : α} {l : List α} : y ∈ insertBy lt x l ↔ y = x ∨ y ∈ l := by
  induction l with
  | nil => simp [insertBy]
  | cons z zs ih =>
    simp only [insertBy]
    split
    · simp
    · simp only [List.mem_cons, ih]
      constructor
      · rintro (h | h | h)
        · exact Or.inr (Or.inl h)
        · exact Or.inl h
        · exact Or.inr (Or.inr h)
      · rintro (h | h | h)
        · exact Or.inr (Or.inl h)
        · exact Or.inl h
        · exact Or.inr (Or.inr h)

theorem mem_sortBy {y : α} {l : List α} : y ∈ sortBy lt l ↔ y ∈ l := by
  induction l with
  | nil => simp [sortBy]
  | cons x xs ih =>
    have : sortBy lt (x :: xs) = insertBy lt x (sortBy lt xs) := rfl
    rw [this, mem_insertBy, ih, List.mem_cons]

theorem length_insertBy (x : α) (l : List α) : (insertBy lt x l).length = l.length + 1 := by
  induction l with
  | nil => rfl
  | cons z zs ih =>
    simp only [insertBy]
    split
    · rfl
    · simp [ih]

theorem length_sortBy (l : List α) : (sortBy lt l).length = l.length := by
  induction l with
  | nil => rfl
  | cons x xs ih =>
    have : sortBy lt (x :: xs) = insertBy lt x (sortBy lt xs) := rfl
    rw [this, length_insertBy, ih, List.length_cons]

variable (trans : ∀ {a b c : α}, lt a b = true → lt b c = true → lt a c = true)
include trans

/-- inserting into a strictly sorted list an element comparable with all of its members -/
theorem insertBy_strict {x : α} {l : List α} (hs : l.Pairwise (fun a b => lt a b = true))
    (hc : ∀ y ∈ l, lt x y = true ∨ lt y x = true) : (insertBy lt x l).Pairwise (fun a b => lt a b = true) := by
  induction l with
  | nil => simp [insertBy]
  | cons z zs ih =>
    rw [List.pairwise_cons] at hs
    simp only [insertBy]
    split
    next hxz =>
      refine List.pairwise_cons.mpr ⟨?_, List.pairwise_cons.mpr hs⟩
      intro w hw
      rcases List.mem_cons.mp hw with rfl | hw
      · exact hxz
      · exact trans hxz (hs.1 w hw)
    next hxz =>
      have hzx : lt z x = true := by
        rcases hc z (List.mem_cons_self) with h | h
        · exact absurd h hxz
        · exact h
      refine List.pairwise_cons.mpr ⟨?_, ih hs.2 (fun y hy => hc y (List.mem_cons_of_mem _ hy))⟩
      intro w hw
      rcases (mem_insertBy lt).mp hw with rfl | hw
      · exact hzx
      · exact hs.1 w hw

/-- sorting a list of pairwise comparable elements yields a strictly sorted list -/
theorem sortBy_strict {l : List α} (hc : l.Pairwise (fun a b => lt a b = true ∨ lt b a = true)) :
    (sortBy lt l).Pairwise (fun a b => lt a b = true) := by
  induction l with
  | nil => simp [sortBy]
  | cons x xs ih =>
    rw [List.pairwise_cons] at hc
    have : sortBy lt (x :: xs) = insertBy lt x (sortBy lt xs) := rfl
    rw [this]
    exact insertBy_strict lt trans (ih hc.2) (fun y hy => hc.1 y ((mem_sortBy lt).mp hy))

omit trans

/-- a strictly sorted list is determined by its members -/
theorem strictSorted_ext (irrefl : ∀ a, lt a a = false)
    (trans : ∀ {a b c : α}, lt a b = true → lt b c = true → lt a c = true)
    {l1 l2 : List α} (h1 : l1.Pairwise (fun a b => lt a b = true)) (h2 : l2.Pairwise (fun a b => lt a b = true))
    (hm : ∀ x, x ∈ l1 ↔ x ∈ l2) : l1 = l2 := by
  induction l1 generalizing l2 with
  | nil =>
    cases l2 with
    | nil => rfl
    | cons b bs => exact absurd ((hm b).mpr List.mem_cons_self) (by simp)
  | cons a as ih =>
    cases l2 with
    | nil => exact absurd ((hm a).mp List.mem_cons_self) (by simp)
    | cons b bs =>
      rw [List.pairwise_cons] at h1 h2
      have hab : a = b := by
        rcases List.mem_cons.mp ((hm a).mp List.mem_cons_self) with h | h
        · exact h
        · rcases List.mem_cons.mp ((hm b).mpr List.mem_cons_self) with h' | h'
          · exact h'.symm
          · have x1 := h2.1 a h
            have x2 := h1.1 b h'
            have := trans x1 x2
            rw [irrefl] at this; exact absurd this (by decide)
      subst hab
      congr 1
      apply ih h1.2 h2.2
      intro x
      constructor
      · intro hx
        rcases List.mem_cons.mp ((hm x).mp (List.mem_cons_of_mem _ hx)) with h | h
        · subst h; have := h1.1 x hx; rw [irrefl] at this; exact absurd this (by decide)
        · exact h
      · intro hx
        rcases List.mem_cons.mp ((hm x).mpr (List.mem_cons_of_mem _ hx)) with h | h
        · subst h; have := h2.1 x hx; rw [irrefl] at this; exact absurd this (by decide)
        · exact h

end SortLemmas

/-! ### `sort.Search` -/

theorem bsearch_spec (f : Nat → Bool) (n : Nat)
    (mono : ∀ a b, a ≤ b → b < n → f a = true → f b = true) :
    ∀ (fuel i j : Nat), i ≤ j → j ≤ n → j - i ≤ fuel →
      (∀ x, x < i → f x = false) → (∀ x, j ≤ x → x < n → f x = true) →
      let r := bsearch f fuel i j
      r ≤ n ∧ (∀ x, x < r → f x = false) ∧ (∀ x, r ≤ x → x < n → f x = true) := by
  intro fuel
  induction fuel with
  | zero =>
    intro i j hij hjn hf hlo hhi
    have : i = j := by omega
    subst this
    exact ⟨hjn, hlo, hhi⟩
  | succ fuel ih =>
    intro i j hij hjn hf hlo hhi
    simp only [bsearch]
    by_cases hlt : i < j
    · simp only [hlt, if_true]
      have hh1 : i ≤ (i + j) / 2 := by omega
      have hh2 : (i + j) / 2 < j := by omega
      cases hfh : f ((i + j) / 2) with
      | false =>
        simp only [Bool.not_false, if_true]
        apply ih _ _ (by omega) hjn (by omega) _ hhi
        intro x hx
        cases hfx : f x with
        | false => rfl
        | true =>
          have := mono x ((i + j) / 2) (by omega) (by omega) hfx
          rw [hfh] at this; exact absurd this (by decide)
      | true =>
        simp only [Bool.not_true]
        apply ih _ _ hh1 (by omega) (by omega) hlo
        intro x hx hxn
        exact mono _ x hx hxn hfh
    · simp only [hlt, if_false]
      have : i = j := by omega
      subst this
      exact ⟨hjn, hlo, hhi⟩

theorem search_spec (f : Nat → Bool) (n : Nat)
    (mono : ∀ a b, a ≤ b → b < n → f a = true → f b = true) :
    search n f ≤ n ∧ (∀ x, x < search n f → f x = false) ∧ (∀ x, search n f ≤ x → x < n → f x = true) :=
  bsearch_spec f n mono n 0 n (Nat.zero_le _) (Nat.le_refl _) (by omega) (fun x hx => absurd hx (by omega))
    (fun x h1 h2 => absurd h1 (by omega))

end C16
end Banyan
