/-
Helper lemmas for C10 about the node and liaison plans of Banyan/Model/C10.lean.
-/
import Banyan.Model.C10
import Banyan.Lemmas.GroupC10

namespace Banyan.C10

/-- the answers a node computes on the hash path. -/
theorem nodeAnswer_hash (path : Path) (mode : KeyMode) (fn : Fn) (mask : List Bool) (emit : Bool) (rows : List Row)
    (hg : isGroup mask = true) (hh : ¬ (path = .row ∧ groupByEntity mask = true)) :
    nodeAnswer path mode fn mask emit rows =
      (groupByKey (fun r => groupKey mode mask r.tags) rows).map fun (_, g) =>
        ⟨firstShard g, firstTags g, mapFields fn emit (g.map (·.val))⟩ := by
  unfold nodeAnswer
  rw [if_pos hg, if_neg hh]

theorem first_mem {β : Type} (g : List β) (hne : g ≠ []) : ∃ x ∈ g, g.head? = some x := by
  cases g with
  | nil => exact absurd rfl hne
  | cons x xs => exact ⟨x, List.mem_cons_self .., rfl⟩

theorem filter_shard_key (rows : List Row) (K : List String → List String) (s : Nat) (k : List String) :
    ((rows.filter fun r => r.shard = s).filter fun r => K r.tags = k) =
      ((rows.filter fun r => K r.tags = k).filter fun r => r.shard = s) := by
  rw [List.filter_filter, List.filter_filter]
  apply List.filter_congr
  intro x _
  exact Bool.and_comm _ _

/-- the liaison output on the group-by path, group by group. -/
theorem liaison_group (mode : KeyMode) (fn : Fn) (mask : List Bool) (answers : List (List Resp))
    (hg : isGroup mask = true) :
    let K := fun tags => groupKey mode mask tags
    let kept := dedupBy (fun r : Resp => (r.shard, K r.tags)) answers.flatten []
    ((liaison mode fn mask answers).map fun o => K o.tags).Nodup ∧
    (∀ a ∈ kept, ∃ o ∈ liaison mode fn mask answers, K o.tags = K a.tags) ∧
    (∀ o ∈ liaison mode fn mask answers,
      o.fields = [reduceFields fn (kept.filter fun a => K a.tags = K o.tags)] ∧ ∃ a ∈ kept, K a.tags = K o.tags) := by
  intro K kept
  have hl : liaison mode fn mask answers =
      (groupByKey (fun r : Resp => K r.tags) kept).map fun (_, g) => ⟨0, firstRespTags g, [reduceFields fn g]⟩ := by
    unfold liaison; rw [if_pos hg]
  obtain ⟨hnd, hkeys, _⟩ := groupByKey_spec (fun r : Resp => K r.tags) kept
  have hkey : ∀ kg ∈ groupByKey (fun r : Resp => K r.tags) kept,
      K (firstRespTags kg.2) = kg.1 ∧ kg.2 = kept.filter (fun a => K a.tags = kg.1) ∧ ∃ a ∈ kept, K a.tags = kg.1 := by
    intro kg hkg
    obtain ⟨k, g⟩ := kg
    have ⟨hgf, hne⟩ := groupByKey_mem _ kept k g hkg
    obtain ⟨x, hx, hhead⟩ := first_mem g hne
    have hx' : x ∈ kept.filter (fun r => K r.tags = k) := by rw [← hgf]; exact hx
    have ⟨hxr, hxk⟩ := List.mem_filter.mp hx'
    have hxk' : K x.tags = k := by simpa using hxk
    refine ⟨?_, hgf, x, hxr, hxk'⟩
    simp only [firstRespTags, hhead, Option.map_some, Option.getD_some]; exact hxk'
  have hmapkeys : (liaison mode fn mask answers).map (fun o => K o.tags) =
      (groupByKey (fun r : Resp => K r.tags) kept).map (·.1) := by
    rw [hl, List.map_map]
    apply List.map_congr_left
    intro kg hkg
    exact (hkey kg hkg).1
  refine ⟨by rw [hmapkeys]; exact hnd, ?_, ?_⟩
  · intro a ha
    have : K a.tags ∈ (liaison mode fn mask answers).map (fun o => K o.tags) := by
      rw [hmapkeys]; exact (hkeys _).mpr ⟨a, ha, rfl⟩
    obtain ⟨o, ho, e⟩ := List.mem_map.mp this
    exact ⟨o, ho, e⟩
  · intro o ho
    rw [hl] at ho
    obtain ⟨kg, hkg, e⟩ := List.mem_map.mp ho
    obtain ⟨k, g⟩ := kg
    have ⟨hk1, hgf, a, ha, hak⟩ := hkey (k, g) hkg
    subst e
    simp only at hk1 hgf ⊢
    rw [hk1]
    exact ⟨by rw [hgf], a, ha, hak⟩

theorem dedup_replicate {κ : Type} [DecidableEq κ] (key : Resp → κ) (x : Resp) (m : Nat) :
    dedupBy key (List.replicate (m + 1) x) [] = [x] := by
  have : List.replicate (m + 1) x = [x] ++ List.replicate m x := by
    rw [List.replicate_succ]; rfl
  rw [this, dedupBy_replicas]
  · simp [dedupBy]
  · intro y hy
    have := List.eq_of_mem_replicate hy
    exact ⟨x, by simp, by rw [this]⟩

end Banyan.C10
