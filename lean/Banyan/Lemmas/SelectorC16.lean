/-
Helper lemmas for C16: every selector event maps the canonical state of a topology to the canonical state of the
updated topology; `Pick` on a canonical state finds exactly the keys of the topology.
-/
import Banyan.Lemmas.OrderC16

namespace Banyan.C16

/-! ### lookup-table building blocks -/

theorem mem_removeGroup {g : Name} {k : Key} {l : List Key} : k ∈ removeGroup g l ↔ k ∈ l ∧ k.group ≠ g := by
  induction l with
  | nil => simp [removeGroup]
  | cons x xs ih =>
    simp only [removeGroup]
    split
    next hx =>
      rw [ih, List.mem_cons]
      constructor
      · rintro ⟨h1, h2⟩; exact ⟨Or.inr h1, h2⟩
      · rintro ⟨h1 | h1, h2⟩
        · subst h1; exact absurd hx h2
        · exact ⟨h1, h2⟩
    next hx =>
      rw [List.mem_cons, ih, List.mem_cons]
      constructor
      · rintro (h | ⟨h1, h2⟩)
        · subst h; exact ⟨Or.inl rfl, hx⟩
        · exact ⟨Or.inr h1, h2⟩
      · rintro ⟨h1 | h1, h2⟩
        · exact Or.inl h1
        · exact Or.inr ⟨h1, h2⟩

theorem removeGroup_sublist (g : Name) (l : List Key) : (removeGroup g l).Sublist l := by
  induction l with
  | nil => exact List.Sublist.slnil
  | cons x xs ih =>
    simp only [removeGroup]
    split
    · exact List.Sublist.cons _ ih
    · exact List.Sublist.cons_cons _ ih

theorem mem_newKeys {g : Name} {n r : Nat} {k : Key} :
    k ∈ newKeys g n r ↔ k.group = g ∧ k.shard < n ∧ k.replicas = r := by
  simp only [newKeys, List.mem_map, List.mem_range]
  constructor
  · rintro ⟨i, hi, rfl⟩; exact ⟨rfl, hi, rfl⟩
  · rintro ⟨h1, h2, h3⟩
    exact ⟨k.shard, h2, by cases k; simp_all⟩

theorem newKeys_sorted (g : Name) (n r : Nat) : (newKeys g n r).Pairwise (fun a b => keyLt a b = true) := by
  unfold newKeys
  rw [List.pairwise_map]
  exact List.pairwise_lt_range.imp (fun {a b} h => by simp [keyLt, h])

theorem comparable_of_sorted {l : List Key} (h : l.Pairwise (fun a b => keyLt a b = true)) :
    l.Pairwise (fun a b => keyLt a b = true ∨ keyLt b a = true) := h.imp Or.inl

/-! ### one event -/

theorem canon_addOrUpdate {T : Topo} {st : Sel} (h : Canon T st) (g : Name) (n r : Nat) :
    Canon (T.step (.addOrUpdate g true n r)) (onAddOrUpdate st g true n r) := by
  have hmem : ∀ k, k ∈ removeGroup g st.lookup ++ newKeys g n r ↔
      (T.step (.addOrUpdate g true n r)).hasKey k := by
    intro k
    rw [List.mem_append, mem_removeGroup, mem_newKeys, h.lookup_mem]
    simp only [Topo.hasKey, Topo.step, upd]
    by_cases hg : k.group = g
    · simp [hg]
    · simp [hg]
  refine ⟨?_, ?_, h.nodes_sorted, h.nodes_mem⟩
  · simp only [onAddOrUpdate, if_true]
    apply sortBy_strict keyLt keyLt_trans
    rw [List.pairwise_append]
    refine ⟨comparable_of_sorted (h.lookup_sorted.sublist (removeGroup_sublist g _)),
      comparable_of_sorted (newKeys_sorted g n r), ?_⟩
    intro a ha b hb
    have ha' := (mem_removeGroup.mp ha).2
    have hb' := (mem_newKeys.mp hb).1
    exact keyLt_total (Or.inl (by rw [hb']; exact ha'))
  · intro k
    simp only [onAddOrUpdate, if_true]
    rw [mem_sortBy]
    exact hmem k

theorem canon_delete {T : Topo} {st : Sel} (h : Canon T st) (g : Name) :
    Canon (T.step (.delete g true)) (onDelete st g true) := by
  refine ⟨?_, ?_, h.nodes_sorted, h.nodes_mem⟩
  · simp only [onDelete, if_true]
    exact h.lookup_sorted.sublist (removeGroup_sublist g _)
  · intro k
    simp only [onDelete, if_true]
    rw [mem_removeGroup, h.lookup_mem]
    simp only [Topo.hasKey, Topo.step, upd]
    by_cases hg : k.group = g
    · simp [hg]
    · simp [hg]

/-- the keys listed by a registry listing -/
theorem mem_initKeys {gs : List GroupSpec} {k : Key} :
    k ∈ ((gs.filter fun g => g.valid).flatMap fun g => newKeys g.name g.shardNum g.replicas) ↔
      ∃ sp ∈ gs, sp.valid = true ∧ k.group = sp.name ∧ k.shard < sp.shardNum ∧ k.replicas = sp.replicas := by
  simp only [List.mem_flatMap, List.mem_filter, mem_newKeys]
  constructor
  · rintro ⟨sp, ⟨h1, h2⟩, h3⟩; exact ⟨sp, h1, h2, h3⟩
  · rintro ⟨sp, h1, h2, h3⟩; exact ⟨sp, ⟨h1, h2⟩, h3⟩

theorem specOf_eq_of_mem {gs : List GroupSpec} (hwf : ((gs.filter fun g => g.valid).map (·.name)).Nodup)
    {sp : GroupSpec} (hsp : sp ∈ gs) (hv : sp.valid = true) : specOf gs sp.name = some sp := by
  induction gs with
  | nil => cases hsp
  | cons x xs ih =>
    simp only [specOf, List.find?_cons]
    by_cases hx : x.valid = true
    · rw [List.filter_cons_of_pos (by simpa using hx), List.map_cons, List.nodup_cons] at hwf
      by_cases hn : x.name = sp.name
      · simp only [hx, hn, beq_self_eq_true, Bool.and_self]
        rcases List.mem_cons.mp hsp with h | h
        · rw [h]
        · exfalso
          apply hwf.1
          rw [hn]
          exact List.mem_map.mpr ⟨sp, List.mem_filter.mpr ⟨h, by simpa using hv⟩, rfl⟩
      · have : (x.valid && x.name == sp.name) = false := by simp [hn]
        simp only [this]
        rcases List.mem_cons.mp hsp with h | h
        · exact absurd (by rw [h]) hn
        · exact ih hwf.2 h
    · have hx' : x.valid = false := by simpa using hx
      rw [List.filter_cons_of_neg (by simp [hx'])] at hwf
      simp only [hx', Bool.false_and]
      rcases List.mem_cons.mp hsp with h | h
      · rw [h] at hv; rw [hv] at hx'; cases hx'
      · exact ih hwf h

theorem specOf_some {gs : List GroupSpec} {g : Name} {sp : GroupSpec} (h : specOf gs g = some sp) :
    sp ∈ gs ∧ sp.valid = true ∧ sp.name = g := by
  have h1 := List.mem_of_find?_eq_some h
  have h2 := List.find?_some h
  simp only [Bool.and_eq_true, beq_iff_eq] at h2
  exact ⟨h1, h2.1, h2.2⟩

theorem initKeys_comparable {gs : List GroupSpec} (hwf : ((gs.filter fun g => g.valid).map (·.name)).Nodup) :
    ((gs.filter fun g => g.valid).flatMap fun g => newKeys g.name g.shardNum g.replicas).Pairwise
      (fun a b => keyLt a b = true ∨ keyLt b a = true) := by
  rw [List.pairwise_flatMap]
  refine ⟨fun sp _ => comparable_of_sorted (newKeys_sorted _ _ _), ?_⟩
  rw [List.nodup_iff_pairwise_ne, List.pairwise_map] at hwf
  refine hwf.imp ?_
  intro a b hab x hx y hy
  have hx' := (mem_newKeys.mp hx).1
  have hy' := (mem_newKeys.mp hy).1
  exact keyLt_total (Or.inl (by rw [hx', hy']; exact hab))

theorem canon_init {T : Topo} {st : Sel} (h : Canon T st) (gs : List GroupSpec)
    (hwf : ((gs.filter fun g => g.valid).map (·.name)).Nodup) :
    Canon (T.step (.init gs)) (onInit st gs) := by
  refine ⟨?_, ?_, h.nodes_sorted, h.nodes_mem⟩
  · simp only [onInit]
    exact sortBy_strict keyLt keyLt_trans (initKeys_comparable hwf)
  · intro k
    simp only [onInit]
    rw [mem_sortBy, mem_initKeys]
    simp only [Topo.hasKey, Topo.step]
    constructor
    · rintro ⟨sp, h1, h2, h3, h4, h5⟩
      rw [h3, specOf_eq_of_mem hwf h1 h2]
      exact ⟨h4, h5⟩
    · intro ⟨h1, h2⟩
      cases hs : specOf gs k.group with
      | none => rw [hs] at h1; simp at h1
      | some sp =>
        rw [hs] at h1 h2
        have := specOf_some hs
        exact ⟨sp, this.1, this.2.1, this.2.2.symm, h1, h2⟩

theorem nodes_nodup {l : List Name} (h : l.Pairwise (fun a b => lexLt a b = true)) : l.Nodup := by
  rw [List.nodup_iff_pairwise_ne]
  refine h.imp ?_
  intro a b hab e
  subst e
  rw [lexLt_irrefl] at hab
  cases hab

theorem canon_addNode {T : Topo} {st : Sel} (h : Canon T st) (n : Name) :
    Canon (T.step (.addNode n true)) (addNode st n true) := by
  simp only [addNode, if_true]
  by_cases hc : st.nodes.contains n = true
  · simp only [hc, if_true]
    have hn : n ∈ st.nodes := List.contains_iff_mem.mp hc
    refine ⟨h.lookup_sorted, h.lookup_mem, h.nodes_sorted, ?_⟩
    intro x
    simp only [Topo.step, upd]
    by_cases hx : x = n
    · subst hx; simp [hn]
    · simp [hx, h.nodes_mem]
  · simp only [hc]
    have hn : n ∉ st.nodes := fun hm => hc (List.contains_iff_mem.mpr hm)
    refine ⟨h.lookup_sorted, h.lookup_mem, ?_, ?_⟩
    · apply sortBy_strict lexLt lexLt_trans
      rw [List.pairwise_append]
      refine ⟨h.nodes_sorted.imp Or.inl, by simp, ?_⟩
      intro a ha b hb
      have : b = n := by simpa using hb
      subst this
      exact lexLt_total (fun e => hn (e ▸ ha))
    · intro x
      simp only [Bool.false_eq_true, if_false]
      rw [mem_sortBy, List.mem_append, h.nodes_mem]
      simp only [Topo.step, upd, List.mem_singleton]
      by_cases hx : x = n
      · simp [hx]
      · simp [hx]

theorem canon_removeNode {T : Topo} {st : Sel} (h : Canon T st) (n : Name) :
    Canon (T.step (.removeNode n)) (removeNode st n) := by
  refine ⟨h.lookup_sorted, h.lookup_mem, ?_, ?_⟩
  · exact h.nodes_sorted.sublist List.erase_sublist
  · intro x
    simp only [removeNode]
    rw [(nodes_nodup h.nodes_sorted).mem_erase_iff, h.nodes_mem]
    simp only [Topo.step, upd]
    by_cases hx : x = n
    · simp [hx]
    · simp [hx]

theorem canon_step {T : Topo} {st : Sel} (h : Canon T st) (e : Event) (hwf : e.WF) :
    Canon (T.step e) (step st e) := by
  cases e with
  | addOrUpdate g v n r =>
    cases v with
    | true => exact canon_addOrUpdate h g n r
    | false => simpa [step, onAddOrUpdate, Topo.step] using h
  | delete g k =>
    cases k with
    | true => exact canon_delete h g
    | false => simpa [step, onDelete, Topo.step] using h
  | init gs => exact canon_init h gs hwf
  | addNode n m =>
    cases m with
    | true => exact canon_addNode h n
    | false => simpa [step, addNode, Topo.step] using h
  | removeNode n => exact canon_removeNode h n

theorem canon_empty : Canon Topo.empty Sel.empty := by
  refine ⟨by simp [Sel.empty], ?_, by simp [Sel.empty], ?_⟩
  · intro k; simp [Sel.empty, Topo.hasKey, Topo.empty]
  · intro n; simp [Sel.empty, Topo.empty]

theorem canon_foldl {T : Topo} {st : Sel} (h : Canon T st) (es : List Event) (hwf : ∀ e ∈ es, e.WF) :
    Canon (es.foldl Topo.step T) (es.foldl step st) := by
  induction es generalizing T st with
  | nil => exact h
  | cons e es ih =>
    simp only [List.foldl_cons]
    exact ih (canon_step h e (hwf e List.mem_cons_self)) (fun e' he' => hwf e' (List.mem_cons_of_mem _ he'))

/-- the canonical state of a topology is unique -/
theorem canon_unique {T₁ T₂ : Topo} {s₁ s₂ : Sel} (h₁ : Canon T₁ s₁) (h₂ : Canon T₂ s₂) (hT : T₁.Same T₂) :
    s₁ = s₂ := by
  have hl : s₁.lookup = s₂.lookup :=
    strictSorted_ext keyLt keyLt_irrefl keyLt_trans h₁.lookup_sorted h₂.lookup_sorted
      (fun k => by rw [h₁.lookup_mem, h₂.lookup_mem]; exact hT.1 k)
  have hn : s₁.nodes = s₂.nodes :=
    strictSorted_ext lexLt lexLt_irrefl lexLt_trans h₁.nodes_sorted h₂.nodes_sorted
      (fun n => by rw [h₁.nodes_mem, h₂.nodes_mem, hT.2 n])
  cases s₁; cases s₂; simp_all

/-! ### Pick on a strictly sorted table -/

theorem pickPred_eq {l : List Key} {g : Name} {s i : Nat} (hi : i < l.length) :
    pickPred l g s i = !keyLt l[i] { group := g, shard := s, replicas := 0 } := by
  simp only [pickPred, List.getD_eq_getElem?_getD, List.getElem?_eq_getElem hi, Option.getD_some, keyLt]
  by_cases hg : l[i].group = g
  · simp only [hg, if_true, lexLt_irrefl, beq_self_eq_true, Bool.true_and, Bool.false_or]
    by_cases hs : l[i].shard < s
    · have : ¬ l[i].shard ≥ s := by omega
      simp [hs, this]
    · have : l[i].shard ≥ s := by omega
      simp [hs, this]
  · have hne : (l[i].group == g) = false := by simpa using hg
    simp only [hg, if_false, hne, Bool.false_and, Bool.or_false]
    rcases lexLt_total hg with h | h
    · rw [h, lexLt_asymm h]; rfl
    · rw [h, lexLt_asymm h]; rfl

theorem pickPred_mono {l : List Key} (hs : l.Pairwise (fun a b => keyLt a b = true)) (g : Name) (s : Nat) :
    ∀ a b, a ≤ b → b < l.length → pickPred l g s a = true → pickPred l g s b = true := by
  intro a b hab hb ha
  rcases Nat.eq_or_lt_of_le hab with e | hlt
  · subst e; exact ha
  · have hal : a < l.length := by omega
    rw [pickPred_eq hal] at ha
    rw [pickPred_eq hb]
    have hab' := (List.pairwise_iff_getElem.mp hs) a b hal hb hlt
    cases hq : keyLt l[b] { group := g, shard := s, replicas := 0 } with
    | false => rfl
    | true =>
      have := keyLt_trans hab' hq
      rw [this] at ha; cases ha

/-- on a strictly sorted table the binary search lands exactly on the key, when it is there -/
theorem search_finds {l : List Key} (hs : l.Pairwise (fun a b => keyLt a b = true)) {g : Name} {s i : Nat}
    (hi : i < l.length) (hg : l[i].group = g) (hsh : l[i].shard = s) :
    search l.length (pickPred l g s) = i := by
  obtain ⟨_, hlo, hhi⟩ := search_spec (pickPred l g s) l.length (pickPred_mono hs g s)
  have hpi : pickPred l g s i = true := by
    rw [pickPred_eq hi]; simp [keyLt, hg, hsh, lexLt_irrefl]
  have h1 : search l.length (pickPred l g s) ≤ i := by
    apply Nat.le_of_not_lt
    intro hlt
    have := hlo i hlt
    rw [hpi] at this; cases this
  rcases Nat.eq_or_lt_of_le h1 with e | hlt
  · exact e
  · exfalso
    have hr : search l.length (pickPred l g s) < l.length := by omega
    have hpr := hhi _ (Nat.le_refl _) hr
    rw [pickPred_eq hr] at hpr
    have hri := (List.pairwise_iff_getElem.mp hs) _ i hr hi hlt
    have : keyLt l[search l.length (pickPred l g s)] { group := g, shard := s, replicas := 0 } = true := by
      simp only [keyLt] at hri ⊢
      rw [hg, hsh] at hri
      exact hri
    rw [this] at hpr; cases hpr

theorem pick_of_mem {st : Sel} (hs : st.lookup.Pairwise (fun a b => keyLt a b = true)) (hn : st.nodes ≠ [])
    {g : Name} {s i : Nat} (hi : i < st.lookup.length) (hg : st.lookup[i].group = g) (hsh : st.lookup[i].shard = s)
    (r : Nat) :
    pick st g s r = .node (st.nodes.getD ((i + r) % st.nodes.length) []) := by
  have hlen : st.nodes.length ≠ 0 := by
    intro h; exact hn (List.length_eq_zero_iff.mp h)
  simp only [pick, hlen, if_false, search_finds hs hi hg hsh, List.getD_eq_getElem?_getD,
    List.getElem?_eq_getElem hi, Option.getD_some, hg, hsh, hi, and_self, if_true]

theorem pick_node_imp {st : Sel} {g : Name} {s r : Nat} {n : Name} (h : pick st g s r = .node n) :
    ∃ hi : search st.lookup.length (pickPred st.lookup g s) < st.lookup.length,
      st.lookup[search st.lookup.length (pickPred st.lookup g s)].group = g ∧
      st.lookup[search st.lookup.length (pickPred st.lookup g s)].shard = s ∧ st.nodes ≠ [] ∧
      n = st.nodes.getD ((search st.lookup.length (pickPred st.lookup g s) + r) % st.nodes.length) [] := by
  simp only [pick] at h
  split at h
  · cases h
  next hlen =>
    split at h
    next hc =>
      obtain ⟨hi, hg, hsh⟩ := hc
      rw [List.getD_eq_getElem?_getD, List.getElem?_eq_getElem hi, Option.getD_some] at hg hsh
      refine ⟨hi, hg, hsh, ?_, ?_⟩
      · intro e; rw [e] at hlen; exact hlen rfl
      · injection h with h; exact h.symm
    · cases h

theorem add_mod_inj {i r₁ r₂ n : Nat} (h₁ : r₁ < n) (h₂ : r₂ < n) (h : (i + r₁) % n = (i + r₂) % n) : r₁ = r₂ := by
  rcases Nat.le_total r₁ r₂ with hle | hle
  · have h0 := Nat.sub_mod_eq_zero_of_mod_eq h.symm
    have e : i + r₂ - (i + r₁) = r₂ - r₁ := by omega
    rw [e, Nat.mod_eq_of_lt (by omega)] at h0
    omega
  · have h0 := Nat.sub_mod_eq_zero_of_mod_eq h
    have e : i + r₁ - (i + r₂) = r₁ - r₂ := by omega
    rw [e, Nat.mod_eq_of_lt (by omega)] at h0
    omega

theorem getD_inj_of_nodup {l : List Name} (hnd : l.Nodup) {a b : Nat} (ha : a < l.length) (hb : b < l.length)
    (h : l.getD a [] = l.getD b []) : a = b := by
  rw [List.getD_eq_getElem?_getD, List.getD_eq_getElem?_getD, List.getElem?_eq_getElem ha,
    List.getElem?_eq_getElem hb, Option.getD_some, Option.getD_some] at h
  rw [List.nodup_iff_pairwise_ne, List.pairwise_iff_getElem] at hnd
  rcases Nat.lt_trichotomy a b with hlt | e | hgt
  · exact absurd h (hnd a b ha hb hlt)
  · exact e
  · exact absurd h.symm (hnd b a hb ha hgt)

theorem getD_mem {l : List Name} {a : Nat} (ha : a < l.length) : l.getD a [] ∈ l := by
  rw [List.getD_eq_getElem?_getD, List.getElem?_eq_getElem ha, Option.getD_some]
  exact List.getElem_mem ha

theorem dedup_of_nodup {l : List Name} (h : l.Nodup) : dedup l = l := by
  induction l with
  | nil => rfl
  | cons x xs ih =>
    rw [List.nodup_cons] at h
    have : xs.contains x = false := by
      cases hc : xs.contains x with
      | false => rfl
      | true => exact absurd (List.contains_iff_mem.mp hc) h.1
    simp only [dedup, this, ih h.2]
    rfl

end Banyan.C16
