/-
Helper lemmas for C16: the client-layout locator (`findTagInSpec`, Go map = last index) and the schema locator
(`FindTagByName`, first index) extract the same value of every schema tag from the two writes of one series.
-/
import Banyan.Model.C16

namespace Banyan.C16

theorem firstIdx_some {l : List Name} {x : Name} {i : Nat} (h : firstIdx l x = some i) : l[i]? = some x := by
  induction l generalizing i with
  | nil => simp [firstIdx] at h
  | cons y ys ih =>
    simp only [firstIdx] at h
    split at h
    next hy => injection h with h; subst h; simp [hy]
    next hy =>
      cases hf : firstIdx ys x with
      | none => rw [hf] at h; simp at h
      | some j =>
        rw [hf] at h; simp at h; subst h
        simpa using ih hf

theorem firstIdx_none {l : List Name} {x : Name} (h : firstIdx l x = none) : x ∉ l := by
  induction l with
  | nil => simp
  | cons y ys ih =>
    simp only [firstIdx] at h
    split at h
    · cases h
    next hy =>
      cases hf : firstIdx ys x with
      | none => simp only [List.mem_cons, not_or]; exact ⟨fun e => hy e.symm, ih hf⟩
      | some j => rw [hf] at h; simp at h

theorem lastIdx_some {l : List Name} {x : Name} {i : Nat} (h : lastIdx l x = some i) : l[i]? = some x := by
  induction l generalizing i with
  | nil => simp [lastIdx] at h
  | cons y ys ih =>
    simp only [lastIdx] at h
    cases hf : lastIdx ys x with
    | some j => rw [hf] at h; simp at h; subst h; simpa using ih hf
    | none =>
      rw [hf] at h
      simp only at h
      split at h
      next hy => injection h with h; subst h; simp [hy]
      · cases h

theorem lastIdx_none {l : List Name} {x : Name} (h : lastIdx l x = none) : x ∉ l := by
  induction l with
  | nil => simp
  | cons y ys ih =>
    simp only [lastIdx] at h
    cases hf : lastIdx ys x with
    | some j => rw [hf] at h; simp at h
    | none =>
      rw [hf] at h
      simp only at h
      split at h
      · cases h
      next hy => simp only [List.mem_cons, not_or]; exact ⟨fun e => hy e.symm, ih hf⟩

theorem find_of_nodup {spec : List FamSpec} (hnd : (spec.map (·.name)).Nodup) {i : Nat} {f : FamSpec}
    (hi : spec[i]? = some f) : spec.find? (fun g => g.name == f.name) = some f := by
  induction spec generalizing i with
  | nil => simp at hi
  | cons g gs ih =>
    rw [List.map_cons, List.nodup_cons] at hnd
    cases i with
    | zero => simp at hi; subst hi; simp
    | succ j =>
      simp at hi
      have hne : g.name ≠ f.name := by
        intro e
        apply hnd.1
        rw [e]
        exact List.mem_map.mpr ⟨f, List.mem_of_getElem? hi, rfl⟩
      rw [List.find?_cons]
      have : (g.name == f.name) = false := by simpa using hne
      rw [this]
      exact ih hnd.2 hi

theorem find_none_of_not_mem {spec : List FamSpec} {fam : Name} (h : fam ∉ spec.map (·.name)) :
    spec.find? (fun g => g.name == fam) = none := by
  rw [List.find?_eq_none]
  intro g hg hge
  apply h
  simp only [beq_iff_eq] at hge
  exact List.mem_map.mpr ⟨g, hg, hge⟩

/-- spec side, one tag -/
theorem spec_value {schema spec : List FamSpec} (hnd : (spec.map (·.name)).Nodup) (v : Name → Name → C12.TagValue)
    {t fam : Name} (hf : schemaFamilyOf schema t = some fam) :
    locValue (specWrite spec v) (findTagInSpec schema spec t) = some (carried spec v fam t) := by
  simp only [findTagInSpec, hf]
  cases hl : lastIdx (spec.map (·.name)) fam with
  | none =>
    simp only [carried, find_none_of_not_mem (lastIdx_none hl), locValue]
  | some fi =>
    have h1 := lastIdx_some hl
    rw [List.getElem?_map] at h1
    cases hs : spec[fi]? with
    | none => rw [hs] at h1; simp at h1
    | some f =>
      rw [hs] at h1
      simp only [Option.map_some, Option.some.injEq] at h1
      have hfind := find_of_nodup hnd hs
      rw [h1] at hfind
      have hgd : spec.getD fi ⟨[], []⟩ = f := by
        rw [List.getD_eq_getElem?_getD, hs]; rfl
      simp only [hgd]
      cases ht : lastIdx f.tags t with
      | none =>
        have : f.tags.contains t = false := by
          cases hc : f.tags.contains t with
          | false => rfl
          | true => exact absurd (List.contains_iff_mem.mp hc) (lastIdx_none ht)
        simp only [carried, hfind, this, locValue]
        rfl
      | some ti =>
        have h2 := lastIdx_some ht
        have hc : f.tags.contains t = true := List.contains_iff_mem.mpr (List.mem_of_getElem? h2)
        simp only [carried, hfind, hc, if_true, locValue, getTagByOffset, specWrite, List.getElem?_map, hs, Option.map_some, h2, h1]

/-- schema side, one tag -/
theorem schema_value {schema : List FamSpec} (spec : List FamSpec) (v : Name → Name → C12.TagValue)
    {t : Name} {fi ti : Nat} (h : findTagByName schema t = some (fi, ti)) :
    ∃ fam, schemaFamilyOf schema t = some fam ∧
      getTagByOffset (refWrite schema spec v) fi ti = some (carried spec v fam t) := by
  induction schema generalizing fi with
  | nil => simp [findTagByName] at h
  | cons f fs ih =>
    simp only [findTagByName] at h
    cases hf : firstIdx f.tags t with
    | some j =>
      rw [hf] at h
      simp only [Option.some.injEq, Prod.mk.injEq] at h
      obtain ⟨rfl, rfl⟩ := h
      have h2 := firstIdx_some hf
      have hc : f.tags.contains t = true := List.contains_iff_mem.mpr (List.mem_of_getElem? h2)
      refine ⟨f.name, by simp [schemaFamilyOf, List.mem_of_getElem? h2], ?_⟩
      simp [getTagByOffset, refWrite, List.getElem?_map, h2]
    | none =>
      rw [hf] at h
      simp only at h
      cases hr : findTagByName fs t with
      | none => rw [hr] at h; simp at h
      | some p =>
        rw [hr] at h
        simp only [Option.map_some, Option.some.injEq, Prod.mk.injEq] at h
        obtain ⟨rfl, rfl⟩ := h
        obtain ⟨fam, h1, h2⟩ := ih (fi := p.1) (by rw [hr])
        refine ⟨fam, by simp [schemaFamilyOf, firstIdx_none hf, h1], ?_⟩
        simpa [getTagByOffset, refWrite] using h2

theorem specFind_carried (schema spec : List FamSpec) (tagNames : List Name) (v : Name → Name → C12.TagValue)
    (hin : ∀ t ∈ tagNames, (findTagByName schema t).isSome = true) (hnd : (spec.map (·.name)).Nodup) :
    specFind (specLocators schema spec tagNames) (specWrite spec v) = some (tagNames.map (effValue schema spec v)) := by
  induction tagNames with
  | nil => rfl
  | cons t ts ih =>
    have ih' := ih (fun t' h' => hin t' (List.mem_cons_of_mem _ h'))
    have ht := hin t List.mem_cons_self
    cases hp : findTagByName schema t with
    | none => rw [hp] at ht; cases ht
    | some p =>
      obtain ⟨fam, hfam, _⟩ := schema_value spec v (fi := p.1) (ti := p.2) (by rw [hp])
      have hsv := spec_value hnd v hfam (spec := spec)
      simp only [specFind, specLocators] at ih' ⊢
      simp only [List.map_cons, List.mapM_cons, hsv, ih', effValue, hfam]
      rfl

theorem schemaFind_carried (schema spec : List FamSpec) (tagNames : List Name) (v : Name → Name → C12.TagValue)
    (hin : ∀ t ∈ tagNames, (findTagByName schema t).isSome = true) :
    schemaFind (schemaLocators schema tagNames) (refWrite schema spec v) = some (tagNames.map (effValue schema spec v)) := by
  induction tagNames with
  | nil => rfl
  | cons t ts ih =>
    have ih' := ih (fun t' h' => hin t' (List.mem_cons_of_mem _ h'))
    have ht := hin t List.mem_cons_self
    cases hp : findTagByName schema t with
    | none => rw [hp] at ht; cases ht
    | some p =>
      obtain ⟨fam, hfam, hval⟩ := schema_value spec v (fi := p.1) (ti := p.2) (by rw [hp])
      simp only [schemaFind, schemaLocators] at ih' ⊢
      simp only [List.filterMap_cons, hp, List.mapM_cons, hval, ih']
      simp [effValue, hfam]

end Banyan.C16
