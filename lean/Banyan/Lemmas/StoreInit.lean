/-
Store layer: `memPart.mustInitFromDataPoints` (repaired loop) keeps, from any `Less`-sorted batch,
the first row of every run of equal (series, timestamp) — and that is a version resolution.
-/
import Banyan.Lemmas.StoreResolve

namespace Banyan.Store

/-! ### orders on rows -/

def keyLt (a b : Row) : Prop := a.sid < b.sid ∨ (a.sid = b.sid ∧ a.ts < b.ts)
def keyLe (a b : Row) : Prop := a.sid < b.sid ∨ (a.sid = b.sid ∧ a.ts ≤ b.ts)

/-- what `sort.Sort(dps)` guarantees, for whatever permutation it produces:
    no later element is `Less` than an earlier one. -/
def DpSorted (l : List Row) : Prop := l.Pairwise (fun a b => dpLess b a = false)

/-- strictly increasing timestamps (block invariant) -/
abbrev SInc (l : List Row) : Prop := l.Pairwise (fun a b => a.ts < b.ts)

theorem dpLess_false_iff {a b : Row} :
    dpLess b a = false ↔ keyLt a b ∨ (SameKey a b ∧ b.ver ≤ a.ver) := by
  unfold dpLess keyLt SameKey
  by_cases h1 : b.sid = a.sid
  · by_cases h2 : b.ts = a.ts
    · simp [h1, h2]
    · have h1' : a.sid = b.sid := h1.symm
      simp only [h1, h2, ne_eq, not_true_eq_false, ite_false, not_false_eq_true, ite_true,
        decide_eq_false_iff_not, true_and, Nat.lt_irrefl, false_or]
      constructor
      · intro h; left; omega
      · rintro (h | h)
        · omega
        · omega
  · simp only [h1, ne_eq, not_false_eq_true, ite_true, decide_eq_false_iff_not]
    constructor
    · intro h; left; left; omega
    · rintro ((h | h) | h)
      · omega
      · omega
      · omega

theorem keyLe_of_dpLess_false {a b : Row} (h : dpLess b a = false) : keyLe a b := by
  rcases dpLess_false_iff.1 h with h | h
  · rcases h with h | h
    · exact Or.inl h
    · exact Or.inr ⟨h.1, Int.le_of_lt h.2⟩
  · exact Or.inr ⟨h.1.1, Int.le_of_eq h.1.2⟩

theorem keyLt_trans {a b c : Row} (h1 : keyLt a b) (h2 : keyLt b c) : keyLt a c := by
  unfold keyLt at *; omega

theorem keyLt_of_le_of_lt {a b c : Row} (h1 : keyLe a b) (h2 : keyLt b c) : keyLt a c := by
  unfold keyLt keyLe at *; omega

theorem keyLt_of_le_of_not_same {a b : Row} (h1 : keyLe a b) (h2 : ¬ SameKey a b) : keyLt a b := by
  unfold keyLt keyLe SameKey at *; omega

theorem keyLt.not_sameKey {a b : Row} (h : keyLt a b) : ¬ SameKey a b := by
  unfold keyLt SameKey at *; omega

/-! ### keep the first row of each run -/

/-- what the repaired loop keeps of the rows still to come, `last` being the last row kept -/
def keepLoop : Option Row → List Row → List Row
  | _, [] => []
  | none, r :: rest => r :: keepLoop (some r) rest
  | some l, r :: rest => if SameKey l r then keepLoop (some l) rest else r :: keepLoop (some r) rest

theorem keepLoop_subset (last : Option Row) (l : List Row) : ∀ x ∈ keepLoop last l, x ∈ l := by
  induction l generalizing last with
  | nil => intro x hx; cases last <;> simp [keepLoop] at hx
  | cons r rest ih =>
    intro x hx
    cases last with
    | none =>
      simp only [keepLoop] at hx
      rcases List.mem_cons.1 hx with rfl | hx
      · exact List.mem_cons_self
      · exact List.mem_cons_of_mem _ (ih _ x hx)
    | some l =>
      simp only [keepLoop] at hx
      split at hx
      · exact List.mem_cons_of_mem _ (ih _ x hx)
      · rcases List.mem_cons.1 hx with rfl | hx
        · exact List.mem_cons_self
        · exact List.mem_cons_of_mem _ (ih _ x hx)

/-- sortedness w.r.t. a strict key order `K`, versions descending inside a key -/
def KSorted (K : Row → Row → Prop) (l : List Row) : Prop :=
  l.Pairwise (fun a b => K a b ∨ (SameKey a b ∧ b.ver ≤ a.ver))

theorem KSorted.tail {K : Row → Row → Prop} {a : Row} {l : List Row} (h : KSorted K (a :: l)) : KSorted K l :=
  (List.pairwise_cons.1 h).2

theorem KSorted.skip {K : Row → Row → Prop} {a b : Row} {l : List Row} (h : KSorted K (a :: b :: l)) :
    KSorted K (a :: l) := by
  unfold KSorted at *
  rw [List.pairwise_cons] at h ⊢
  exact ⟨fun x hx => h.1 x (List.mem_cons_of_mem _ hx), (List.pairwise_cons.1 h.2).2⟩

section General
variable {K : Row → Row → Prop} (hKt : ∀ a b c, K a b → K b c → K a c) (hKn : ∀ a b, K a b → ¬ SameKey a b)
include hKt hKn

/-- on a sorted tail, everything kept after `l` has a strictly greater key, and what is kept is
    strictly increasing in key -/
theorem keepLoop_sorted (l : Row) (rest : List Row) (hs : KSorted K (l :: rest)) :
    (∀ o ∈ keepLoop (some l) rest, K l o) ∧ (keepLoop (some l) rest).Pairwise K := by
  induction rest generalizing l with
  | nil => simp [keepLoop]
  | cons r rest ih =>
    have hlr := (List.pairwise_cons.1 hs).1 r List.mem_cons_self
    simp only [keepLoop]
    split
    · exact ih l hs.skip
    · rename_i hk
      have hlt : K l r := by
        rcases hlr with h | h
        · exact h
        · exact absurd h.1 hk
      obtain ⟨h1, h2⟩ := ih r hs.tail
      refine ⟨fun o ho => ?_, ?_⟩
      · rcases List.mem_cons.1 ho with rfl | ho
        · exact hlt
        · exact hKt _ _ _ hlt (h1 o ho)
      · rw [List.pairwise_cons]; exact ⟨h1, h2⟩

/-- every row of a sorted tail is dominated by `l` or by something kept -/
theorem keepLoop_dominates (l : Row) (rest : List Row) (hs : KSorted K (l :: rest)) :
    ∀ r ∈ rest, Dominates r l ∨ ∃ o ∈ keepLoop (some l) rest, Dominates r o := by
  induction rest generalizing l with
  | nil => intro r hr; simp at hr
  | cons x rest ih =>
    have hlx := (List.pairwise_cons.1 hs).1 x List.mem_cons_self
    intro r hr
    simp only [keepLoop]
    split
    · rename_i hk
      rcases List.mem_cons.1 hr with rfl | hr
      · left
        rcases hlx with h | h
        · exact absurd hk (hKn _ _ h)
        · exact ⟨hk.1, hk.2, h.2⟩
      · exact ih l hs.skip r hr
    · rcases List.mem_cons.1 hr with rfl | hr
      · exact Or.inr ⟨r, List.mem_cons_self, Dominates.refl r⟩
      · rcases ih x hs.tail r hr with h | ⟨o, ho, hd⟩
        · exact Or.inr ⟨x, List.mem_cons_self, h⟩
        · exact Or.inr ⟨o, List.mem_cons_of_mem _ ho, hd⟩

/-- the kept rows of a sorted list are a version resolution of it, in strictly increasing key order -/
theorem keepLoop_isResolution (l : List Row) (hs : KSorted K l) :
    IsResolution l (keepLoop none l) ∧ (keepLoop none l).Pairwise K := by
  cases l with
  | nil => exact ⟨⟨fun o ho => by simp [keepLoop] at ho, fun r hr => by simp at hr, by simp [keepLoop]⟩, by simp [keepLoop]⟩
  | cons r rest =>
    simp only [keepLoop]
    obtain ⟨h1, h2⟩ := keepLoop_sorted hKt hKn r rest hs
    have hp : (r :: keepLoop (some r) rest).Pairwise K := by rw [List.pairwise_cons]; exact ⟨h1, h2⟩
    refine ⟨⟨fun o ho => ?_, fun x hx => ?_, hp.imp fun h => hKn _ _ h⟩, hp⟩
    · rcases List.mem_cons.1 ho with rfl | ho
      · exact List.mem_cons_self
      · exact List.mem_cons_of_mem _ (keepLoop_subset _ _ o ho)
    · rcases List.mem_cons.1 hx with rfl | hx
      · exact ⟨x, List.mem_cons_self, Dominates.refl x⟩
      · rcases keepLoop_dominates hKt hKn r rest hs x hx with h | ⟨o, ho, hd⟩
        · exact ⟨r, List.mem_cons_self, h⟩
        · exact ⟨o, List.mem_cons_of_mem _ ho, hd⟩

end General

theorem keyLt_trans' : ∀ a b c : Row, keyLt a b → keyLt b c → keyLt a c := fun _ _ _ => keyLt_trans
theorem keyLt_not_same : ∀ a b : Row, keyLt a b → ¬ SameKey a b := fun _ _ h => h.not_sameKey

theorem DpSorted.kSorted {l : List Row} (h : DpSorted l) : KSorted keyLt l :=
  List.Pairwise.imp (fun h => dpLess_false_iff.1 h) h

/-! ### blocks -/

def rowsOf (bs : List Block) : List Row := bs.flatMap (·.rows)

/-- what the merger and the query path rely on for a block -/
structure ValidBlock (b : Block) : Prop where
  ne : b.rows ≠ []
  sid : ∀ x ∈ b.rows, x.sid = b.sid
  inc : SInc b.rows
  lo : ∀ x ∈ b.rows, b.bmMin ≤ x.ts
  hi : ∀ x ∈ b.rows, x.ts ≤ b.bmMax

theorem rowsOf_append (a b : List Block) : rowsOf (a ++ b) = rowsOf a ++ rowsOf b := by
  simp [rowsOf]

theorem rowsOf_writeBlock (sid : Nat) (rows : List Row) : rowsOf (writeBlock sid rows) = rows := by
  cases rows <;> simp [writeBlock, rowsOf]

theorem relabel_id (sid : Nat) (rows : List Row) (h : ∀ x ∈ rows, x.sid = sid) : relabel sid rows = rows := by
  unfold relabel
  induction rows with
  | nil => rfl
  | cons r rest ih =>
    simp only [List.map_cons]
    rw [ih fun x hx => h x (List.mem_cons_of_mem _ hx)]
    have := h r List.mem_cons_self
    cases r; simp_all

theorem sinc_head_le {r : Row} {rest : List Row} (h : SInc (r :: rest)) : ∀ x ∈ r :: rest, r.ts ≤ x.ts := by
  intro x hx
  rcases List.mem_cons.1 hx with rfl | hx
  · exact Int.le_refl _
  · exact Int.le_of_lt ((List.pairwise_cons.1 h).1 x hx)

theorem sinc_le_last {l : List Row} (h : SInc l) {z : Row} (hz : l.getLast? = some z) : ∀ x ∈ l, x.ts ≤ z.ts := by
  induction l with
  | nil => simp at hz
  | cons r rest ih =>
    intro x hx
    cases rest with
    | nil =>
      simp at hz; subst hz
      simp at hx; subst hx; exact Int.le_refl _
    | cons r2 rest2 =>
      rw [List.getLast?_cons_cons] at hz
      have h2 := (List.pairwise_cons.1 h)
      rcases List.mem_cons.1 hx with rfl | hx
      · have hzmem : z ∈ r2 :: rest2 := List.mem_of_getLast? hz
        exact Int.le_of_lt (h2.1 z hzmem)
      · exact ih h2.2 hz x hx

theorem writeBlock_valid (sid : Nat) (rows : List Row) (hs : ∀ x ∈ rows, x.sid = sid) (hi : SInc rows) :
    ∀ b ∈ writeBlock sid rows, ValidBlock b := by
  cases rows with
  | nil => intro b hb; simp [writeBlock] at hb
  | cons r rest =>
    intro b hb
    simp only [writeBlock, List.mem_singleton] at hb
    subst hb
    refine ⟨by simp, hs, hi, sinc_head_le hi, ?_⟩
    intro x hx
    cases hl : (r :: rest).getLast? with
    | none => simp at hl
    | some z =>
      simp only [hl, Option.map_some, Option.getD_some]
      exact sinc_le_last hi hl x hx

/-! ### the repaired loop -/

structure InitInv (st : InitSt) : Prop where
  started : st.started = true ↔ st.cur ≠ []
  sid : ∀ x ∈ st.cur, x.sid = st.sidPrev
  ts : ∀ l, st.cur.getLast? = some l → st.tsPrev = l.ts
  inc : SInc st.cur
  outValid : ∀ b ∈ st.out, ValidBlock b

def initFinish (st : InitSt) : List Block := st.out ++ writeBlock st.sidPrev (relabel st.sidPrev st.cur)

theorem getLast?_append_singleton (l : List Row) (r : Row) : (l ++ [r]).getLast? = some r := by
  simp

theorem getLast?_of_ne_nil {l : List Row} (h : l ≠ []) : ∃ z, l.getLast? = some z := by
  cases hc : l.getLast? with
  | none => exact absurd (List.getLast?_eq_none_iff.1 hc) h
  | some z => exact ⟨z, rfl⟩

def spOf (st : InitSt) (r : Row) : Nat := if st.started then st.sidPrev else r.sid

def stSplit (st : InitSt) (r : Row) : InitSt :=
  { sidPrev := r.sid, tsPrev := r.ts, cur := [r], size := dpSize r, started := true,
    out := st.out ++ writeBlock (spOf st r) (relabel (spOf st r) st.cur) }

def stApp (st : InitSt) (r : Row) : InitSt :=
  { st with sidPrev := spOf st r, tsPrev := r.ts, cur := st.cur ++ [r],
            size := st.size + dpSize r, started := true }

theorem initStepFixed_skip (cfg : Cfg) (st : InitSt) (r : Row)
    (h : r.sid = spOf st r ∧ st.cur ≠ [] ∧ st.tsPrev = r.ts) :
    initStepFixed cfg st r = { st with sidPrev := spOf st r } := by
  unfold initStepFixed spOf at *
  simp only []
  rw [if_pos h]

theorem initStepFixed_split (cfg : Cfg) (st : InitSt) (r : Row)
    (h : ¬ (r.sid = spOf st r ∧ st.cur ≠ [] ∧ st.tsPrev = r.ts))
    (h2 : st.size ≥ cfg.maxSize ∨ st.cur.length > cfg.maxLen ∨ r.sid ≠ spOf st r) :
    initStepFixed cfg st r = stSplit st r := by
  unfold initStepFixed stSplit spOf at *
  simp only []
  rw [if_neg h, if_pos h2]

theorem initStepFixed_app (cfg : Cfg) (st : InitSt) (r : Row)
    (h : ¬ (r.sid = spOf st r ∧ st.cur ≠ [] ∧ st.tsPrev = r.ts))
    (h2 : ¬ (st.size ≥ cfg.maxSize ∨ st.cur.length > cfg.maxLen ∨ r.sid ≠ spOf st r)) :
    initStepFixed cfg st r = stApp st r := by
  unfold initStepFixed stApp spOf at *
  simp only []
  rw [if_neg h, if_neg h2]

/-- one step of the repaired loop, described through `keepLoop` -/
theorem initStepFixed_spec (cfg : Cfg) (st : InitSt) (r : Row) (hinv : InitInv st)
    (hsorted : ∀ x ∈ st.cur, dpLess r x = false) :
    InitInv (initStepFixed cfg st r) ∧
    ((∃ l, st.cur.getLast? = some l ∧ SameKey l r ∧ initStepFixed cfg st r = st) ∨
     ((∀ l, st.cur.getLast? = some l → ¬ SameKey l r) ∧ (initStepFixed cfg st r).cur.getLast? = some r ∧
       (∀ x ∈ (initStepFixed cfg st r).cur, x = r ∨ x ∈ st.cur) ∧
       rowsOf (initStepFixed cfg st r).out ++ (initStepFixed cfg st r).cur = rowsOf st.out ++ st.cur ++ [r])) := by
  have hsp : st.cur ≠ [] → spOf st r = st.sidPrev := by
    intro hne
    have := hinv.started.2 hne
    simp [spOf, this]
  by_cases hskip : r.sid = spOf st r ∧ st.cur ≠ [] ∧ st.tsPrev = r.ts
  · -- duplicate of the last kept row
    obtain ⟨h1, h2, h3⟩ := hskip
    have hst' : initStepFixed cfg st r = st := by
      rw [initStepFixed_skip cfg st r ⟨h1, h2, h3⟩, hsp h2]
    obtain ⟨l, hl⟩ := getLast?_of_ne_nil h2
    refine ⟨by rw [hst']; exact hinv, Or.inl ⟨l, hl, ⟨?_, ?_⟩, hst'⟩⟩
    · rw [hinv.sid l (List.mem_of_getLast? hl), h1, hsp h2]
    · rw [← hinv.ts l hl, h3]
  · -- the row is kept
    have hns : ∀ l, st.cur.getLast? = some l → ¬ SameKey l r := by
      intro l hl hk
      have hne : st.cur ≠ [] := by intro h; rw [h] at hl; simp at hl
      apply hskip
      refine ⟨?_, hne, ?_⟩
      · rw [hsp hne, ← hinv.sid l (List.mem_of_getLast? hl)]; exact hk.1.symm
      · rw [hinv.ts l hl]; exact hk.2
    by_cases hsplit : st.size ≥ cfg.maxSize ∨ st.cur.length > cfg.maxLen ∨ r.sid ≠ spOf st r
    · rw [initStepFixed_split cfg st r hskip hsplit]
      unfold stSplit
      have hrel : relabel (spOf st r) st.cur = st.cur := by
        by_cases hne : st.cur = []
        · rw [hne]; rfl
        · rw [hsp hne]; exact relabel_id _ _ hinv.sid
      refine ⟨?_, Or.inr ⟨hns, by simp, by simp, ?_⟩⟩
      · refine ⟨by simp, by simp, by simp, by simp, ?_⟩
        intro b hb
        simp only [List.mem_append] at hb
        rcases hb with hb | hb
        · exact hinv.outValid b hb
        · rw [hrel] at hb
          by_cases hne : st.cur = []
          · rw [hne] at hb; simp [writeBlock] at hb
          · rw [hsp hne] at hb
            exact writeBlock_valid _ _ hinv.sid hinv.inc b hb
      · simp only [rowsOf_append, rowsOf_writeBlock, hrel]
    · have hsid : r.sid = spOf st r := by
        by_cases h : r.sid = spOf st r
        · exact h
        · exact absurd (Or.inr (Or.inr h)) hsplit
      rw [initStepFixed_app cfg st r hskip hsplit]
      unfold stApp
      refine ⟨?_, Or.inr ⟨hns, by simp, ?_, by simp [List.append_assoc]⟩⟩
      · refine ⟨by simp, ?_, by simp, ?_, hinv.outValid⟩
        · intro x hx
          simp only [List.mem_append, List.mem_singleton] at hx
          rcases hx with hx | rfl
          · have hne : st.cur ≠ [] := List.ne_nil_of_mem hx
            show x.sid = spOf st r
            rw [hsp hne]; exact hinv.sid x hx
          · exact hsid
        · show List.Pairwise (fun a b => a.ts < b.ts) (st.cur ++ [r])
          rw [List.pairwise_append]
          refine ⟨hinv.inc, by simp, ?_⟩
          intro x hx y hy
          simp only [List.mem_singleton] at hy; subst hy
          have hne : st.cur ≠ [] := List.ne_nil_of_mem hx
          obtain ⟨l, hl⟩ := getLast?_of_ne_nil hne
          have hlm := List.mem_of_getLast? hl
          have h1 : x.ts ≤ l.ts := sinc_le_last hinv.inc hl x hx
          have h2 : keyLt l y := keyLt_of_le_of_not_same (keyLe_of_dpLess_false (hsorted l hlm)) (hns l hl)
          have h3 : l.sid = y.sid := by rw [hinv.sid l hlm, hsid, hsp hne]
          unfold keyLt at h2
          omega
      · intro x hx
        simp only [List.mem_append, List.mem_singleton] at hx
        rcases hx with hx | hx
        · exact Or.inr hx
        · exact Or.inl hx

theorem initInv_init : InitInv {} :=
  ⟨by simp, by simp, by simp, by simp [SInc], by simp⟩

/-- the loop over a sorted remainder: rows = what `keepLoop` keeps; all blocks valid -/
theorem initFold_spec (cfg : Cfg) (rest : List Row) (st : InitSt) (hinv : InitInv st)
    (hs : DpSorted rest) (hcur : ∀ x ∈ st.cur, ∀ y ∈ rest, dpLess y x = false) :
    rowsOf (initFinish (rest.foldl (initStepFixed cfg) st)) = rowsOf st.out ++ st.cur ++ keepLoop st.cur.getLast? rest ∧
      ∀ b ∈ initFinish (rest.foldl (initStepFixed cfg) st), ValidBlock b := by
  induction rest generalizing st with
  | nil =>
    simp only [List.foldl_nil, initFinish]
    have hrel : relabel st.sidPrev st.cur = st.cur := relabel_id _ _ hinv.sid
    refine ⟨?_, ?_⟩
    · rw [rowsOf_append, rowsOf_writeBlock, hrel]
      cases st.cur.getLast? <;> simp [keepLoop]
    · intro b hb
      rcases List.mem_append.1 hb with hb | hb
      · exact hinv.outValid b hb
      · rw [hrel] at hb; exact writeBlock_valid _ _ hinv.sid hinv.inc b hb
  | cons r rest ih =>
    simp only [List.foldl_cons]
    unfold DpSorted at hs
    rw [List.pairwise_cons] at hs
    obtain ⟨hinv', hcase⟩ := initStepFixed_spec cfg st r hinv (fun x hx => hcur x hx r List.mem_cons_self)
    rcases hcase with ⟨l, hl, hk, heq⟩ | ⟨hns, hlast, hmem, hrows⟩
    · rw [heq]
      have := ih st hinv hs.2 (fun x hx y hy => hcur x hx y (List.mem_cons_of_mem _ hy))
      refine ⟨?_, this.2⟩
      rw [this.1, hl]
      simp [keepLoop, hk]
    · have hcur' : ∀ x ∈ (initStepFixed cfg st r).cur, ∀ y ∈ rest, dpLess y x = false := by
        intro x hx y hy
        rcases hmem x hx with rfl | hx
        · exact hs.1 y hy
        · exact hcur x hx y (List.mem_cons_of_mem _ hy)
      have := ih (initStepFixed cfg st r) hinv' hs.2 hcur'
      refine ⟨?_, this.2⟩
      rw [this.1, hlast, hrows]
      cases hl : st.cur.getLast? with
      | none => simp [keepLoop, List.append_assoc]
      | some l => simp [keepLoop, hns l hl, List.append_assoc]

end Banyan.Store
