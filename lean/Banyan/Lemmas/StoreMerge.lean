/-
Store layer: `mergeTwoBlocks` (loop with role swap) and the pending-block state machine `mergeBlocks`.
-/
import Banyan.Lemmas.StoreInit

namespace Banyan.Store

/-! ### scan -/

theorem scanLe_append (t : Int) (l : List Row) : (scanLe t l).1 ++ (scanLe t l).2 = l := by
  induction l with
  | nil => rfl
  | cons x rest ih =>
    unfold scanLe
    split
    · simp [ih]
    · simp

theorem scanLe_fst_le (t : Int) (l : List Row) : ∀ x ∈ (scanLe t l).1, x.ts ≤ t := by
  induction l with
  | nil => intro x hx; simp [scanLe] at hx
  | cons y rest ih =>
    intro x hx
    unfold scanLe at hx
    split at hx
    · rcases List.mem_cons.1 hx with rfl | hx
      · assumption
      · exact ih x hx
    · simp at hx

theorem scanLe_snd_gt (t : Int) (l : List Row) (hl : SInc l) : ∀ x ∈ (scanLe t l).2, t < x.ts := by
  induction l with
  | nil => intro x hx; simp [scanLe] at hx
  | cons y rest ih =>
    intro x hx
    have h2 := List.pairwise_cons.1 hl
    unfold scanLe at hx
    split at hx
    · exact ih h2.2 x hx
    · rename_i hy
      rcases List.mem_cons.1 hx with rfl | hx
      · omega
      · have := h2.1 x hx; omega

theorem scanLe_fst_nil (t : Int) (y : Row) (rest : List Row) (h : (scanLe t (y :: rest)).1 = []) : t < y.ts := by
  unfold scanLe at h
  split at h
  · simp at h
  · omega

theorem scanLe_fst_length (t : Int) (l : List Row) : (scanLe t l).1.length + (scanLe t l).2.length = l.length := by
  have := congrArg List.length (scanLe_append t l)
  simpa using this

theorem eq_dropLast_append_of_getLast? {l : List Row} {p : Row} (h : l.getLast? = some p) : l = l.dropLast ++ [p] := by
  induction l with
  | nil => simp at h
  | cons x rest ih =>
    cases rest with
    | nil => simp at h; simp [h]
    | cons y rest' =>
      rw [List.getLast?_cons_cons] at h
      have := ih h
      simp only [List.dropLast_cons₂]
      rw [List.cons_append, ← this]

/-! ### what a merge of two blocks of one series must deliver -/

/-- `m` merges `l` and `r` (rows of one series): strictly increasing timestamps, nothing invented,
    every timestamp of either input present with a version ≥ the input's. -/
structure MergeSpec (l r m : List Row) : Prop where
  inc : SInc m
  sub : ∀ x ∈ m, x ∈ l ∨ x ∈ r
  dom : ∀ x, x ∈ l ∨ x ∈ r → ∃ o ∈ m, o.ts = x.ts ∧ x.ver ≤ o.ver

theorem MergeSpec.symm {l r m : List Row} (h : MergeSpec l r m) : MergeSpec r l m :=
  ⟨h.inc, fun x hx => (h.sub x hx).symm, fun x hx => h.dom x hx.symm⟩

theorem sinc_append {a b : List Row} (ha : SInc a) (hb : SInc b) (hab : ∀ x ∈ a, ∀ y ∈ b, x.ts < y.ts) : SInc (a ++ b) :=
  List.pairwise_append.2 ⟨ha, hb, hab⟩

theorem MergeSpec.nil_right (l : List Row) (hl : SInc l) : MergeSpec l [] l :=
  ⟨hl, fun x hx => Or.inl hx, fun x hx => by
    rcases hx with hx | hx
    · exact ⟨x, hx, rfl, Int.le_refl _⟩
    · simp at hx⟩

theorem MergeSpec.concat {l r : List Row} (hl : SInc l) (hr : SInc r) (h : ∀ x ∈ l, ∀ y ∈ r, x.ts < y.ts) :
    MergeSpec l r (l ++ r) :=
  ⟨sinc_append hl hr h, fun x hx => List.mem_append.1 hx,
    fun x hx => ⟨x, List.mem_append.2 hx, rfl, Int.le_refl _⟩⟩

theorem MergeSpec.congr_left {l l' r m : List Row} (h : l = l') (hm : MergeSpec l r m) : MergeSpec l' r m := by
  subst h; exact hm

/-- prefix a chunk that resolves `cl ∪ cr` and lies entirely before what remains -/
theorem MergeSpec.prepend {cl cr chunk l r m : List Row}
    (hc : MergeSpec cl cr chunk) (hm : MergeSpec l r m)
    (hsep : ∀ x ∈ chunk, ∀ y, y ∈ l ∨ y ∈ r → x.ts < y.ts) :
    MergeSpec (cl ++ l) (cr ++ r) (chunk ++ m) := by
  refine ⟨sinc_append hc.inc hm.inc fun x hx y hy => hsep x hx y (hm.sub y hy), fun x hx => ?_, fun x hx => ?_⟩
  · rcases List.mem_append.1 hx with hx | hx
    · rcases hc.sub x hx with h | h
      · exact Or.inl (List.mem_append.2 (Or.inl h))
      · exact Or.inr (List.mem_append.2 (Or.inl h))
    · rcases hm.sub x hx with h | h
      · exact Or.inl (List.mem_append.2 (Or.inr h))
      · exact Or.inr (List.mem_append.2 (Or.inr h))
  · have : (x ∈ cl ∨ x ∈ cr) ∨ (x ∈ l ∨ x ∈ r) := by
      rcases hx with hx | hx <;> rcases List.mem_append.1 hx with h | h
      · exact Or.inl (Or.inl h)
      · exact Or.inr (Or.inl h)
      · exact Or.inl (Or.inr h)
      · exact Or.inr (Or.inr h)
    rcases this with h | h
    · obtain ⟨o, ho, h1, h2⟩ := hc.dom x h
      exact ⟨o, List.mem_append.2 (Or.inl ho), h1, h2⟩
    · obtain ⟨o, ho, h1, h2⟩ := hm.dom x h
      exact ⟨o, List.mem_append.2 (Or.inr ho), h1, h2⟩

/-! ### the loop -/

/-- the measure of the loop: an iteration either consumes a row or is followed by one that does -/
def mergeMeasure (l r : List Row) : Nat :=
  2 * (l.length + r.length) + 1 +
    (match l, r with
     | a :: _, b :: _ => if b.ts < a.ts then 1 else 0
     | _, _ => 0)

theorem mergeMeasure_le_fuel (l r : List Row) : mergeMeasure l r ≤ mergeFuel l r := by
  unfold mergeMeasure mergeFuel
  split
  · split <;> omega
  · omega

theorem mergeMeasure_bound (l r : List Row) : mergeMeasure l r ≤ 2 * (l.length + r.length) + 2 := by
  unfold mergeMeasure
  split
  · split <;> omega
  · omega

/-- the chunk written when the scan stops on an equal timestamp -/
theorem chunk_equal_spec {pre : List Row} {p r0 : Row} (hpre : SInc pre) (hlast : pre.getLast? = some p)
    (heq : p.ts = r0.ts) :
    MergeSpec pre [r0] (if p.ver ≥ r0.ver then pre else pre.dropLast ++ [r0]) := by
  have hsplit := eq_dropLast_append_of_getLast? hlast
  have hpm : p ∈ pre := List.mem_of_getLast? hlast
  split
  · rename_i hv
    refine ⟨hpre, fun x hx => Or.inl hx, fun x hx => ?_⟩
    rcases hx with hx | hx
    · exact ⟨x, hx, rfl, Int.le_refl _⟩
    · simp at hx; subst hx
      exact ⟨p, hpm, heq, hv⟩
  · rename_i hv
    have hdl : SInc pre.dropLast := List.Pairwise.sublist (List.dropLast_sublist pre) hpre
    have hlt : ∀ x ∈ pre.dropLast, x.ts < p.ts := by
      rw [hsplit] at hpre
      have := (List.pairwise_append.1 hpre).2.2
      intro x hx
      exact this x hx p (by simp)
    refine ⟨sinc_append hdl (by simp) fun x hx y hy => ?_, fun x hx => ?_, fun x hx => ?_⟩
    · simp at hy; subst hy; have := hlt x hx; omega
    · rcases List.mem_append.1 hx with hx | hx
      · exact Or.inl (List.dropLast_subset pre hx)
      · exact Or.inr hx
    · rcases hx with hx | hx
      · rw [hsplit] at hx
        rcases List.mem_append.1 hx with hx | hx
        · exact ⟨x, List.mem_append.2 (Or.inl hx), rfl, Int.le_refl _⟩
        · simp at hx; subst hx
          exact ⟨r0, by simp, heq.symm, by omega⟩
      · simp at hx; subst hx
        exact ⟨x, by simp, rfl, Int.le_refl _⟩

theorem mergeLoop_spec : ∀ (fuel : Nat) (l r acc : List Row), SInc l → SInc r → r ≠ [] →
    mergeMeasure l r ≤ fuel → ∃ m, mergeLoop fuel l r acc = some (acc ++ m) ∧ MergeSpec l r m := by
  intro fuel
  induction fuel with
  | zero =>
    intro l r acc _ _ _ hm
    unfold mergeMeasure at hm
    omega
  | succ fuel ih =>
    intro l r acc hl hr hrne hm
    cases r with
    | nil => exact absurd rfl hrne
    | cons r0 rt =>
      have hr2 := List.pairwise_cons.1 hr
      have happ := scanLe_append r0.ts l
      have hprele := scanLe_fst_le r0.ts l
      have hpostgt := scanLe_snd_gt r0.ts l hl
      have hlen := scanLe_fst_length r0.ts l
      have hpreInc : SInc (scanLe r0.ts l).1 := by
        have : List.Sublist (scanLe r0.ts l).1 l := by
          conv => rhs; rw [← happ]
          exact List.sublist_append_left _ _
        exact List.Pairwise.sublist this hl
      have hpostInc : SInc (scanLe r0.ts l).2 := by
        have : List.Sublist (scanLe r0.ts l).2 l := by
          conv => rhs; rw [← happ]
          exact List.sublist_append_right _ _
        exact List.Pairwise.sublist this hl
      unfold mergeLoop
      simp only []
      cases hlast : (scanLe r0.ts l).1.getLast? with
      | none =>
        have hprenil : (scanLe r0.ts l).1 = [] := List.getLast?_eq_none_iff.1 hlast
        simp only []
        by_cases hlnil : l = []
        · rw [if_pos hlnil]
          subst hlnil
          exact ⟨r0 :: rt, rfl, (MergeSpec.nil_right _ hr).symm⟩
        · rw [if_neg hlnil]
          cases l with
          | nil => exact absurd rfl hlnil
          | cons l0 lt =>
            have hgt : r0.ts < l0.ts := scanLe_fst_nil r0.ts l0 lt hprenil
            have hm' : mergeMeasure (r0 :: rt) (l0 :: lt) ≤ fuel := by
              unfold mergeMeasure at hm ⊢
              simp only [List.length_cons] at hm ⊢
              rw [if_pos hgt] at hm
              have : ¬ l0.ts < r0.ts := by omega
              rw [if_neg this]
              omega
            obtain ⟨m, h1, h2⟩ := ih (r0 :: rt) (l0 :: lt) acc hr hl (by simp) hm'
            exact ⟨m, h1, h2.symm⟩
      | some p =>
        simp only []
        have hpm : p ∈ (scanLe r0.ts l).1 := List.mem_of_getLast? hlast
        have hple : p.ts ≤ r0.ts := hprele p hpm
        have hprene : (scanLe r0.ts l).1.length ≥ 1 := by
          cases h : (scanLe r0.ts l).1 with
          | nil => rw [h] at hpm; simp at hpm
          | cons _ _ => simp
        by_cases heq : p.ts = r0.ts
        · rw [if_pos heq]
          have hchunk := chunk_equal_spec hpreInc hlast heq
          have hchunk_le : ∀ x ∈ (if p.ver ≥ r0.ver then (scanLe r0.ts l).1 else (scanLe r0.ts l).1.dropLast ++ [r0]), x.ts ≤ r0.ts := by
            intro x hx
            rcases hchunk.sub x hx with h | h
            · exact hprele x h
            · simp at h; subst h; exact Int.le_refl _
          have hacc : (if p.ver ≥ r0.ver then acc ++ (scanLe r0.ts l).1 else acc ++ (scanLe r0.ts l).1.dropLast ++ [r0]) =
              acc ++ (if p.ver ≥ r0.ver then (scanLe r0.ts l).1 else (scanLe r0.ts l).1.dropLast ++ [r0]) := by
            split <;> simp [List.append_assoc]
          rw [hacc]
          have hsep : ∀ x ∈ (if p.ver ≥ r0.ver then (scanLe r0.ts l).1 else (scanLe r0.ts l).1.dropLast ++ [r0]),
              ∀ y, y ∈ (scanLe r0.ts l).2 ∨ y ∈ rt → x.ts < y.ts := by
            intro x hx y hy
            have h1 := hchunk_le x hx
            rcases hy with hy | hy
            · have := hpostgt y hy; omega
            · have := hr2.1 y hy; omega
          -- the three exits
          by_cases hrt : rt = []
          · rw [if_pos hrt]
            subst hrt
            refine ⟨_, by rw [List.append_assoc], ?_⟩
            have := MergeSpec.prepend hchunk (MergeSpec.nil_right _ hpostInc) (by simpa using hsep)
            rw [happ] at this
            simpa using this
          · rw [if_neg hrt]
            by_cases hpost : (scanLe r0.ts l).2 = []
            · rw [if_pos hpost]
              refine ⟨_, by rw [List.append_assoc], ?_⟩
              have hsep' : ∀ x ∈ (if p.ver ≥ r0.ver then (scanLe r0.ts l).1 else (scanLe r0.ts l).1.dropLast ++ [r0]),
                  ∀ y, y ∈ ([] : List Row) ∨ y ∈ rt → x.ts < y.ts := by
                intro x hx y hy
                exact hsep x hx y (Or.inr (by simpa using hy))
              have := MergeSpec.prepend hchunk (MergeSpec.nil_right rt hr2.2).symm hsep'
              have hpe : (scanLe r0.ts l).1 = l := by
                have h := happ; rw [hpost] at h; simpa using h
              exact MergeSpec.congr_left hpe (by simpa using this)
            · rw [if_neg hpost]
              have hm' : mergeMeasure rt (scanLe r0.ts l).2 ≤ fuel := by
                have hb := mergeMeasure_bound rt (scanLe r0.ts l).2
                unfold mergeMeasure at hm
                simp only [List.length_cons] at hm
                have : 2 * (l.length + (rt.length + 1)) + 1 ≤ fuel + 1 := by
                  revert hm; split <;> intro hm <;> omega
                omega
              obtain ⟨m, h1, h2⟩ := ih rt (scanLe r0.ts l).2 (acc ++ (if p.ver ≥ r0.ver then (scanLe r0.ts l).1 else (scanLe r0.ts l).1.dropLast ++ [r0]))
                hr2.2 hpostInc hpost hm'
              refine ⟨_, by rw [h1, List.append_assoc], ?_⟩
              have := MergeSpec.prepend hchunk h2.symm (fun x hx y hy => hsep x hx y hy)
              rw [happ] at this
              simpa using this
        · rw [if_neg heq]
          have hplt : p.ts < r0.ts := by omega
          have hprelt : ∀ x ∈ (scanLe r0.ts l).1, x.ts < r0.ts := by
            intro x hx
            have := sinc_le_last hpreInc hlast x hx
            omega
          have hchunk : MergeSpec (scanLe r0.ts l).1 [] (scanLe r0.ts l).1 := MergeSpec.nil_right _ hpreInc
          have hsep : ∀ x ∈ (scanLe r0.ts l).1, ∀ y, y ∈ (scanLe r0.ts l).2 ∨ y ∈ r0 :: rt → x.ts < y.ts := by
            intro x hx y hy
            have h1 := hprelt x hx
            rcases hy with hy | hy
            · have := hpostgt y hy; omega
            · rcases List.mem_cons.1 hy with rfl | hy
              · exact h1
              · have := hr2.1 y hy; omega
          by_cases hpost : (scanLe r0.ts l).2 = []
          · rw [if_pos hpost]
            refine ⟨_, by rw [List.append_assoc], ?_⟩
            have hsep' : ∀ x ∈ (scanLe r0.ts l).1, ∀ y, y ∈ ([] : List Row) ∨ y ∈ r0 :: rt → x.ts < y.ts := by
              intro x hx y hy
              exact hsep x hx y (Or.inr (by simpa using hy))
            have := MergeSpec.prepend hchunk (MergeSpec.nil_right (r0 :: rt) hr).symm hsep'
            have hpe : (scanLe r0.ts l).1 = l := by
              have h := happ; rw [hpost] at h; simpa using h
            exact MergeSpec.congr_left hpe (by simpa using this)
          · rw [if_neg hpost]
            have hm' : mergeMeasure (r0 :: rt) (scanLe r0.ts l).2 ≤ fuel := by
              have hb := mergeMeasure_bound (r0 :: rt) (scanLe r0.ts l).2
              unfold mergeMeasure at hm
              simp only [List.length_cons] at hm hb
              have : 2 * (l.length + (rt.length + 1)) + 1 ≤ fuel + 1 := by
                revert hm; split <;> intro hm <;> omega
              omega
            obtain ⟨m, h1, h2⟩ := ih (r0 :: rt) (scanLe r0.ts l).2 (acc ++ (scanLe r0.ts l).1) hr hpostInc hpost hm'
            refine ⟨_, by rw [h1, List.append_assoc], ?_⟩
            have := MergeSpec.prepend hchunk.symm h2 (fun x hx y hy => hsep x hx y hy.symm)
            simp only [List.nil_append] at this
            have h3 := this.symm
            rw [happ] at h3
            exact h3

/-! ### `mergeTwoBlocks` on block pointers (fast paths on the metadata, then the loop) -/

theorem mergeTwoBlocks_blocks (p b : Block) (hp : ValidBlock p) (hb : ValidBlock b) :
    ∃ m, mergeTwoBlocks p b = some m ∧ MergeSpec p.rows b.rows m := by
  unfold mergeTwoBlocks
  by_cases h1 : p.bmMax < b.bmMin
  · rw [if_pos h1]
    refine ⟨_, rfl, MergeSpec.concat hp.inc hb.inc fun x hx y hy => ?_⟩
    have := hp.hi x hx; have := hb.lo y hy; omega
  · rw [if_neg h1]
    by_cases h2 : b.bmMax < p.bmMin
    · rw [if_pos h2]
      refine ⟨_, rfl, (MergeSpec.concat hb.inc hp.inc fun x hx y hy => ?_).symm⟩
      have := hb.hi x hx; have := hp.lo y hy; omega
    · rw [if_neg h2, if_neg hp.ne, if_neg hb.ne]
      cases hpr : p.rows with
      | nil => exact absurd hpr hp.ne
      | cons a as =>
        cases hbr : b.rows with
        | nil => exact absurd hbr hb.ne
        | cons c cs =>
          simp only [List.head?_cons]
          have hpi : SInc (a :: as) := hpr ▸ hp.inc
          have hbi : SInc (c :: cs) := hbr ▸ hb.inc
          by_cases hsw : c.ts < a.ts
          · simp only [hsw, decide_true, if_true]
            obtain ⟨m, h1, h2⟩ := mergeLoop_spec (mergeFuel (c :: cs) (a :: as)) (c :: cs) (a :: as) [] hbi hpi (by simp)
              (mergeMeasure_le_fuel _ _)
            exact ⟨m, by simpa using h1, h2.symm⟩
          · simp only [hsw, decide_false, Bool.false_eq_true, if_false]
            obtain ⟨m, h1, h2⟩ := mergeLoop_spec (mergeFuel (a :: as) (c :: cs)) (a :: as) (c :: cs) [] hpi hbi (by simp)
              (mergeMeasure_le_fuel _ _)
            exact ⟨m, by simpa using h1, h2⟩

/-- for blocks of one series the timestamp-level spec is the key-level one -/
theorem MergeSpec.refines {l r m : List Row} {sid : Nat} (h : MergeSpec l r m)
    (hl : ∀ x ∈ l, x.sid = sid) (hr : ∀ x ∈ r, x.sid = sid) : Refines (l ++ r) m := by
  have hs : ∀ x, x ∈ l ∨ x ∈ r → x.sid = sid := fun x hx => hx.elim (hl x) (hr x)
  refine ⟨fun o ho => List.mem_append.2 (h.sub o ho), fun x hx => ?_⟩
  obtain ⟨o, ho, h1, h2⟩ := h.dom x (List.mem_append.1 hx)
  exact ⟨o, ho, (hs o (h.sub o ho)).trans (hs x (List.mem_append.1 hx)).symm, h1, h2⟩

/-! ### the pending-block state machine -/

def pendRows (st : MergeSt) : List Row := match st.pending with | some p => p.rows | none => []

structure MInv (consumed : List Row) (st : MergeSt) : Prop where
  notStuck : st.stuck = false
  outValid : ∀ b ∈ st.out, ValidBlock b
  pendValid : ∀ p, st.pending = some p → ValidBlock p
  refines : Refines consumed (rowsOf st.out ++ pendRows st)

theorem tsMin_le {rows : List Row} (h : SInc rows) : ∀ x ∈ rows, tsMin rows ≤ x.ts := by
  cases rows with
  | nil => intro x hx; simp at hx
  | cons r rest => simpa [tsMin] using sinc_head_le h

theorem le_tsMax {rows : List Row} (h : SInc rows) : ∀ x ∈ rows, x.ts ≤ tsMax rows := by
  intro x hx
  cases hl : rows.getLast? with
  | none => rw [List.getLast?_eq_none_iff.1 hl] at hx; simp at hx
  | some z =>
    simp only [tsMax, hl, Option.map_some, Option.getD_some]
    exact sinc_le_last h hl x hx

theorem mergeStep_inv (cfg : Cfg) (consumed : List Row) (st : MergeSt) (b : Block)
    (hinv : MInv consumed st) (hb : ValidBlock b) : MInv (consumed ++ b.rows) (mergeStep cfg st b) := by
  unfold mergeStep
  cases hpend : st.pending with
  | none =>
    simp only []
    refine ⟨hinv.notStuck, hinv.outValid, fun p hp => by simp at hp; subst hp; exact hb, ?_⟩
    have := hinv.refines
    simp only [pendRows, hpend, List.append_nil] at this ⊢
    exact Refines.append this (Refines.refl _)
  | some p =>
    simp only []
    have hpv := hinv.pendValid p hpend
    have hbase : Refines (consumed ++ b.rows) (rowsOf st.out ++ (p.rows ++ b.rows)) := by
      have := hinv.refines
      simp only [pendRows, hpend] at this
      rw [← List.append_assoc]
      exact Refines.append this (Refines.refl _)
    by_cases hw : p.sid ≠ b.sid ∨ (p.isFull cfg ∧ p.bmMax ≤ b.bmMin)
    · rw [if_pos hw]
      refine ⟨hinv.notStuck, fun x hx => ?_, fun q hq => by simp at hq; subst hq; exact hb, ?_⟩
      · rcases List.mem_append.1 hx with hx | hx
        · exact hinv.outValid x hx
        · exact writeBlock_valid _ _ hpv.sid hpv.inc x hx
      · simp only [pendRows, rowsOf_append, rowsOf_writeBlock, List.append_assoc]
        exact hbase
    · rw [if_neg hw]
      have hsid : p.sid = b.sid := by
        by_cases h : p.sid = b.sid
        · exact h
        · exact absurd (Or.inl h) hw
      obtain ⟨tmp, htmp, hspec⟩ := mergeTwoBlocks_blocks p b hpv hb
      rw [htmp]
      simp only []
      have hbsid : ∀ x ∈ b.rows, x.sid = b.sid := hb.sid
      have hpsid : ∀ x ∈ p.rows, x.sid = b.sid := fun x hx => (hpv.sid x hx).trans hsid
      have hmerge : Refines (p.rows ++ b.rows) tmp := hspec.refines hpsid hbsid
      have hbase2 : Refines (consumed ++ b.rows) (rowsOf st.out ++ tmp) :=
        hbase.trans (Refines.append (Refines.refl _) hmerge)
      have htsid : ∀ x ∈ tmp, x.sid = b.sid := fun x hx => (hspec.sub x hx).elim (hpsid x) (hbsid x)
      have htne : tmp ≠ [] := by
        cases hpr : p.rows with
        | nil => exact absurd hpr hpv.ne
        | cons a _ =>
          obtain ⟨o, ho, _⟩ := hspec.dom a (Or.inl (by rw [hpr]; exact List.mem_cons_self))
          exact List.ne_nil_of_mem ho
      by_cases hfit : tmp.length ≤ cfg.maxLen ∧ blockSize tmp ≤ cfg.maxSize
      · rw [if_pos hfit, if_neg htne]
        refine ⟨hinv.notStuck, hinv.outValid, fun q hq => ?_, ?_⟩
        · simp at hq; subst hq
          exact ⟨htne, htsid, hspec.inc, tsMin_le hspec.inc, le_tsMax hspec.inc⟩
        · simpa [pendRows] using hbase2
      · rw [if_neg hfit]
        by_cases hlen : tmp.length ≤ cfg.maxLen
        · rw [if_pos hlen]
          refine ⟨hinv.notStuck, fun x hx => ?_, fun q hq => by simp at hq, ?_⟩
          · rcases List.mem_append.1 hx with hx | hx
            · exact hinv.outValid x hx
            · exact writeBlock_valid _ _ htsid hspec.inc x hx
          · simpa [pendRows, rowsOf_append, rowsOf_writeBlock] using hbase2
        · rw [if_neg hlen]
          have htake : List.Sublist (tmp.take cfg.maxLen) tmp := List.take_sublist _ _
          have hdrop : List.Sublist (tmp.drop cfg.maxLen) tmp := List.drop_sublist _ _
          refine ⟨hinv.notStuck, fun x hx => ?_, fun q hq => ?_, ?_⟩
          · rcases List.mem_append.1 hx with hx | hx
            · exact hinv.outValid x hx
            · exact writeBlock_valid _ _ (fun y hy => htsid y (htake.subset hy))
                (List.Pairwise.sublist htake hspec.inc) x hx
          · simp at hq; subst hq
            refine ⟨?_, fun y hy => htsid y (hdrop.subset hy), List.Pairwise.sublist hdrop hspec.inc,
              fun y hy => tsMin_le hspec.inc y (hdrop.subset hy), fun y hy => le_tsMax hspec.inc y (hdrop.subset hy)⟩
            intro h
            have := congrArg List.length h
            simp at this
            omega
          · simp only [pendRows, rowsOf_append, rowsOf_writeBlock, List.append_assoc, List.take_append_drop]
            exact hbase2

theorem mergeFold_inv (cfg : Cfg) (stream : List Block) (consumed : List Row) (st : MergeSt)
    (hinv : MInv consumed st) (hv : ∀ b ∈ stream, ValidBlock b) :
    MInv (consumed ++ rowsOf stream) (stream.foldl (mergeStep cfg) st) := by
  induction stream generalizing consumed st with
  | nil => simpa [rowsOf] using hinv
  | cons b rest ih =>
    simp only [List.foldl_cons]
    have := ih (consumed ++ b.rows) (mergeStep cfg st b)
      (mergeStep_inv cfg consumed st b hinv (hv b List.mem_cons_self))
      (fun x hx => hv x (List.mem_cons_of_mem _ hx))
    simpa [rowsOf, List.append_assoc] using this

/-- `mergeBlocks` over any stream of valid blocks: never stuck, valid blocks out, content refined -/
theorem mergeStream_inv (cfg : Cfg) (stream : List Block) (hv : ∀ b ∈ stream, ValidBlock b) :
    (mergeStream cfg stream).stuck = false ∧ (∀ b ∈ (mergeStream cfg stream).out, ValidBlock b) ∧
      Refines (rowsOf stream) (rowsOf (mergeStream cfg stream).out) := by
  have hinit : MInv [] ({} : MergeSt) :=
    ⟨rfl, by simp, by simp, by simpa [pendRows, rowsOf] using Refines.refl []⟩
  have h := mergeFold_inv cfg stream [] {} hinit hv
  simp only [List.nil_append] at h
  unfold mergeStream
  simp only []
  cases hp : (stream.foldl (mergeStep cfg) {}).pending with
  | none =>
    simp only []
    refine ⟨h.notStuck, h.outValid, ?_⟩
    have := h.refines
    simpa [pendRows, hp] using this
  | some p =>
    simp only []
    have hpv := h.pendValid p hp
    refine ⟨h.notStuck, fun x hx => ?_, ?_⟩
    · rcases List.mem_append.1 hx with hx | hx
      · exact h.outValid x hx
      · exact writeBlock_valid _ _ hpv.sid hpv.inc x hx
    · have := h.refines
      simpa [pendRows, hp, rowsOf_append, rowsOf_writeBlock] using this

end Banyan.Store
