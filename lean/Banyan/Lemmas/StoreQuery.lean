/-
Store layer: the query-side heap merge (`queryResult.Less`, `merge`, `Pull`).
 A. `queryResult.Less` is a lexicographic order on (k1, k2, -version)
 B. popping a `Less`-minimal cursor head again and again yields a `Less`-sorted sequence (k-way merge)
 C. `Pull`/`merge` emit exactly the first row of every run of equal (series, timestamp) of that sequence
-/
import Banyan.Lemmas.StoreMerge

namespace Banyan.Store

/-! ### A. the order -/

def k1 (q : Query) (r : Row) : Int :=
  match q.order with
  | .series => (sidIndex q r.sid : Int)
  | .timeAsc => r.ts
  | .timeDesc => -r.ts

def k2 (q : Query) (r : Row) : Int :=
  match q.order with
  | .series => r.ts
  | .timeAsc => (r.sid : Int)
  | .timeDesc => (r.sid : Int)

/-- strict order on the keys (series, timestamp) in the direction the query asks for -/
def Kq (q : Query) (a b : Row) : Prop := k1 q a < k1 q b ∨ (k1 q a = k1 q b ∧ k2 q a < k2 q b)

theorem rowLess_iff (q : Query) (a b : Row) :
    rowLess q a b = true ↔ Kq q a b ∨ (k1 q a = k1 q b ∧ k2 q a = k2 q b ∧ b.ver < a.ver) := by
  unfold rowLess Kq k1 k2
  cases q.order <;> simp only []
  · -- time asc
    split
    · rename_i h1
      split
      · rename_i h2
        simp only [decide_eq_true_eq]
        constructor <;> intro h <;> omega
      · rename_i h2
        simp only [decide_eq_true_eq]
        constructor <;> intro h <;> omega
    · rename_i h1
      simp only [decide_eq_true_eq]
      constructor <;> intro h <;> omega
  · -- time desc
    split
    · rename_i h1
      split
      · rename_i h2
        simp only [decide_eq_true_eq]
        constructor <;> intro h <;> omega
      · rename_i h2
        simp only [decide_eq_true_eq]
        constructor <;> intro h <;> omega
    · rename_i h1
      simp only [decide_eq_true_eq]
      constructor <;> intro h <;> omega
  · -- series
    split
    · rename_i h1
      split
      · rename_i h2
        simp only [decide_eq_true_eq]
        constructor <;> intro h <;> omega
      · rename_i h2
        simp only [decide_eq_true_eq]
        constructor <;> intro h <;> omega
    · rename_i h1
      simp only [decide_eq_true_eq]
      constructor <;> intro h <;> omega

theorem Kq_trans (q : Query) : ∀ a b c : Row, Kq q a b → Kq q b c → Kq q a c := by
  intro a b c h1 h2; unfold Kq at *; omega

theorem sameKey_k (q : Query) {a b : Row} (h : SameKey a b) : k1 q a = k1 q b ∧ k2 q a = k2 q b := by
  unfold k1 k2; rw [h.1, h.2]; cases q.order <;> simp

theorem Kq_not_same (q : Query) : ∀ a b : Row, Kq q a b → ¬ SameKey a b := by
  intro a b h hs
  have := sameKey_k q hs
  unfold Kq at h; omega

theorem idxOf_inj {l : List Nat} {a b : Nat} (ha : a ∈ l) (hb : b ∈ l) (h : idxOf a l = idxOf b l) : a = b := by
  induction l with
  | nil => simp at ha
  | cons x xs ih =>
    simp only [idxOf] at h
    by_cases h1 : x = a <;> by_cases h2 : x = b
    · exact h1.symm.trans h2
    · rw [if_pos h1, if_neg h2] at h; omega
    · rw [if_neg h1, if_pos h2] at h; omega
    · rw [if_neg h1, if_neg h2] at h
      have ha' : a ∈ xs := by
        rcases List.mem_cons.1 ha with h | h
        · exact absurd h.symm h1
        · exact h
      have hb' : b ∈ xs := by
        rcases List.mem_cons.1 hb with h | h
        · exact absurd h.symm h2
        · exact h
      exact ih ha' hb' (by omega)

/-- equal key components = same (series, timestamp), for series the query asks for -/
theorem sameKey_of_k (q : Query) {a b : Row} (ha : a.sid ∈ q.sids) (hb : b.sid ∈ q.sids)
    (h1 : k1 q a = k1 q b) (h2 : k2 q a = k2 q b) : SameKey a b := by
  unfold k1 k2 at *
  cases ho : q.order <;> simp only [ho] at h1 h2
  · exact ⟨by omega, h1⟩
  · exact ⟨by omega, by omega⟩
  · refine ⟨idxOf_inj ha hb ?_, h2⟩
    unfold sidIndex at h1
    omega

/-- "not less" in the sorted form the dedup lemmas use -/
theorem not_rowLess (q : Query) {a b : Row} (ha : a.sid ∈ q.sids) (hb : b.sid ∈ q.sids)
    (h : rowLess q b a = false) : Kq q a b ∨ (SameKey a b ∧ b.ver ≤ a.ver) := by
  have hn : ¬ (rowLess q b a = true) := by rw [h]; simp
  rw [rowLess_iff] at hn
  by_cases hk : Kq q a b
  · exact Or.inl hk
  · right
    have h1 : k1 q a = k1 q b ∧ k2 q a = k2 q b := by unfold Kq at *; omega
    refine ⟨sameKey_of_k q ha hb h1.1 h1.2, ?_⟩
    unfold Kq at *; omega

theorem rowLess_false_trans (q : Query) {a b c : Row} (h1 : rowLess q b a = false) (h2 : rowLess q c b = false) :
    rowLess q c a = false := by
  have n1 : ¬ (rowLess q b a = true) := by rw [h1]; simp
  have n2 : ¬ (rowLess q c b = true) := by rw [h2]; simp
  rw [rowLess_iff] at n1 n2
  cases h : rowLess q c a with
  | false => rfl
  | true =>
    rw [rowLess_iff] at h
    unfold Kq at *; omega

theorem rowLess_false_of_Kq (q : Query) {a b : Row} (h : Kq q a b) : rowLess q b a = false := by
  cases hl : rowLess q b a with
  | false => rfl
  | true => rw [rowLess_iff] at hl; unfold Kq at *; omega

theorem rowLess_irrefl (q : Query) (a : Row) : rowLess q a a = false := by
  cases hl : rowLess q a a with
  | false => rfl
  | true => rw [rowLess_iff] at hl; unfold Kq at *; omega

/-! ### B. cursors and the k-way merge -/

/-- a cursor as `loadData` leaves it: rows of one queried, non-zero series, strictly monotone in the
    traversal direction -/
structure ValidCursor (q : Query) (c : Cursor) : Prop where
  ne : c ≠ []
  sids : ∀ x ∈ c, x.sid ≠ 0 ∧ x.sid ∈ q.sids
  one : ∀ x ∈ c, ∀ y ∈ c, x.sid = y.sid
  mono : c.Pairwise (Kq q)

def ValidCursors (q : Query) (cs : List Cursor) : Prop := ∀ c ∈ cs, ValidCursor q c

theorem ValidCursor.tail {q : Query} {t : Row} {rest : Cursor} (h : ValidCursor q (t :: rest)) (hne : rest ≠ []) :
    ValidCursor q rest :=
  ⟨hne, fun x hx => h.sids x (List.mem_cons_of_mem _ hx),
   fun x hx y hy => h.one x (List.mem_cons_of_mem _ hx) y (List.mem_cons_of_mem _ hy), (List.pairwise_cons.1 h.mono).2⟩

/-- `choose` returns the heap root: an index whose head no other head is `Less` than -/
def MinChoice (q : Query) (choose : List Cursor → Nat) : Prop :=
  ∀ cs, ValidCursors q cs → cs ≠ [] →
    ∃ t rest, cs[choose cs]? = some (t :: rest) ∧ ∀ c ∈ cs, ∀ h, c.head? = some h → rowLess q h t = false

/-- the rows in the order the heap hands them out -/
def popAll (choose : List Cursor → Nat) : Nat → List Cursor → List Row
  | 0, _ => []
  | fuel + 1, cs =>
    if cs = [] then []
    else
      match cs[choose cs]? with
      | some (top :: _) => top :: popAll choose fuel (advance cs (choose cs))
      | _ => []

theorem totalRows_nil : totalRows [] = 0 := rfl

theorem length_le_totalRows {cs : List Cursor} {c : Cursor} (h : c ∈ cs) : c.length ≤ totalRows cs := by
  induction cs with
  | nil => simp at h
  | cons d ds ih =>
    unfold totalRows at *
    simp only [List.map_cons, List.sum_cons]
    rcases List.mem_cons.1 h with rfl | h
    · omega
    · have := ih h; omega

theorem mem_flatten_advance {cs : List Cursor} {i : Nat} {t : Row} {rest : Cursor}
    (h : cs[i]? = some (t :: rest)) : ∀ y, y ∈ (advance cs i).flatten → y ∈ cs.flatten := by
  intro y hy
  unfold advance at hy
  rw [h] at hy
  simp only [] at hy
  have hi : i < cs.length := by
    rcases List.getElem?_eq_some_iff.1 h with ⟨hi, _⟩; exact hi
  split at hy
  · rw [List.mem_flatten] at hy ⊢
    obtain ⟨c, hc, hyc⟩ := hy
    exact ⟨c, (List.eraseIdx_sublist cs i).subset hc, hyc⟩
  · rw [List.mem_flatten] at hy ⊢
    obtain ⟨c, hc, hyc⟩ := hy
    rcases List.mem_or_eq_of_mem_set hc with hc | hc
    · exact ⟨c, hc, hyc⟩
    · subst hc
      exact ⟨t :: c, List.mem_of_getElem? h, List.mem_cons_of_mem _ hyc⟩

theorem validCursors_advance {q : Query} {cs : List Cursor} {i : Nat} {t : Row} {rest : Cursor}
    (hv : ValidCursors q cs) (h : cs[i]? = some (t :: rest)) : ValidCursors q (advance cs i) := by
  intro c hc
  unfold advance at hc
  rw [h] at hc
  simp only [] at hc
  split at hc
  · exact hv c ((List.eraseIdx_sublist cs i).subset hc)
  · rename_i hne
    rcases List.mem_or_eq_of_mem_set hc with hc | hc
    · exact hv c hc
    · subst hc
      exact (hv (t :: c) (List.mem_of_getElem? h)).tail hne

theorem totalRows_advance {cs : List Cursor} {i : Nat} {t : Row} {rest : Cursor}
    (h : cs[i]? = some (t :: rest)) : totalRows (advance cs i) + 1 = totalRows cs := by
  have hi : i < cs.length := by
    rcases List.getElem?_eq_some_iff.1 h with ⟨hi, _⟩; exact hi
  have hget : cs[i] = t :: rest := by
    rcases List.getElem?_eq_some_iff.1 h with ⟨_, hg⟩; exact hg
  unfold advance totalRows
  rw [h]
  simp only []
  induction cs generalizing i with
  | nil => simp at hi
  | cons c cs ih =>
    cases i with
    | zero =>
      simp only [List.getElem_cons_zero] at hget
      subst hget
      split
      · rename_i hr; subst hr; simp; omega
      · simp; omega
    | succ j =>
      simp only [List.getElem_cons_succ] at hget
      have hj : j < cs.length := by simpa using hi
      have hj' : cs[j]? = some (t :: rest) := by rw [List.getElem?_eq_getElem hj, hget]
      have := ih hj' hj hget
      split
      · rename_i hr
        rw [if_pos hr] at this
        simp only [List.eraseIdx_cons_succ, List.map_cons, List.sum_cons]
        omega
      · rename_i hr
        rw [if_neg hr] at this
        simp only [List.set_cons_succ, List.map_cons, List.sum_cons]
        omega

/-- every remaining row is not `Less` than the popped one -/
theorem remaining_ge {q : Query} {cs : List Cursor} {i : Nat} {t : Row} {rest : Cursor}
    (hv : ValidCursors q cs) (h : cs[i]? = some (t :: rest))
    (hmin : ∀ c ∈ cs, ∀ hd, c.head? = some hd → rowLess q hd t = false) :
    ∀ y ∈ (advance cs i).flatten, rowLess q y t = false := by
  intro y hy
  unfold advance at hy
  rw [h] at hy
  simp only [] at hy
  have hcur : ∀ y ∈ rest, rowLess q y t = false := by
    intro y hy
    have hm := (hv (t :: rest) (List.mem_of_getElem? h)).mono
    exact rowLess_false_of_Kq q ((List.pairwise_cons.1 hm).1 y hy)
  have hother : ∀ c ∈ cs, ∀ y ∈ c, rowLess q y t = false := by
    intro c hc y hy
    have hvc := hv c hc
    cases c with
    | nil => simp at hy
    | cons hd tl =>
      have h1 := hmin (hd :: tl) hc hd rfl
      rcases List.mem_cons.1 hy with rfl | hy
      · exact h1
      · have := rowLess_false_of_Kq q ((List.pairwise_cons.1 hvc.mono).1 y hy)
        exact rowLess_false_trans q h1 this
  split at hy
  · rw [List.mem_flatten] at hy
    obtain ⟨c, hc, hyc⟩ := hy
    exact hother c ((List.eraseIdx_sublist cs i).subset hc) y hyc
  · rw [List.mem_flatten] at hy
    obtain ⟨c, hc, hyc⟩ := hy
    rcases List.mem_or_eq_of_mem_set hc with hc | hc
    · exact hother c hc y hyc
    · subst hc; exact hcur y hyc

theorem popAll_subset {q : Query} (choose : List Cursor → Nat) :
    ∀ (fuel : Nat) (cs : List Cursor), ∀ y ∈ popAll choose fuel cs, y ∈ cs.flatten := by
  intro fuel
  induction fuel with
  | zero => intro cs y hy; simp [popAll] at hy
  | succ fuel ih =>
    intro cs y hy
    unfold popAll at hy
    split at hy
    · simp at hy
    · split at hy
      · rename_i top rest hget
        rcases List.mem_cons.1 hy with rfl | hy
        · exact List.mem_flatten.2 ⟨_, List.mem_of_getElem? hget, List.mem_cons_self⟩
        · exact mem_flatten_advance hget y (ih _ y hy)
      · simp at hy

/-- the popped sequence is sorted: no later row is `Less` than an earlier one -/
theorem popAll_sorted {q : Query} {choose : List Cursor → Nat} (hc : MinChoice q choose) :
    ∀ (fuel : Nat) (cs : List Cursor), ValidCursors q cs →
      (popAll choose fuel cs).Pairwise (fun a b => rowLess q b a = false) := by
  intro fuel
  induction fuel with
  | zero => intro cs _; simp [popAll]
  | succ fuel ih =>
    intro cs hv
    unfold popAll
    split
    · simp
    · rename_i hne
      obtain ⟨t, rest, hget, hmin⟩ := hc cs hv hne
      rw [hget]
      simp only []
      rw [List.pairwise_cons]
      refine ⟨fun y hy => ?_, ih _ (validCursors_advance hv hget)⟩
      exact remaining_ge hv hget hmin y (popAll_subset (q := q) choose fuel _ y hy)

/-- with enough fuel every row is popped -/
theorem popAll_complete {q : Query} {choose : List Cursor → Nat} (hc : MinChoice q choose) :
    ∀ (fuel : Nat) (cs : List Cursor), ValidCursors q cs → totalRows cs ≤ fuel →
      ∀ y ∈ cs.flatten, y ∈ popAll choose fuel cs := by
  intro fuel
  induction fuel with
  | zero =>
    intro cs hv hf y hy
    exfalso
    rw [List.mem_flatten] at hy
    obtain ⟨c, hcm, hyc⟩ := hy
    have : c.length ≤ totalRows cs := length_le_totalRows hcm
    have : c.length > 0 := List.length_pos_of_mem hyc
    omega
  | succ fuel ih =>
    intro cs hv hf y hy
    unfold popAll
    by_cases hne : cs = []
    · subst hne; simp at hy
    · rw [if_neg hne]
      obtain ⟨t, rest, hget, _⟩ := hc cs hv hne
      rw [hget]
      simp only []
      by_cases hyt : y = t
      · subst hyt; exact List.mem_cons_self
      · refine List.mem_cons_of_mem _ (ih _ (validCursors_advance hv hget) ?_ y ?_)
        · have := totalRows_advance hget; omega
        · -- y is still in some cursor
          have hi : choose cs < cs.length := by
            rcases List.getElem?_eq_some_iff.1 hget with ⟨hi, _⟩; exact hi
          rw [List.mem_flatten] at hy ⊢
          obtain ⟨c, hcm, hyc⟩ := hy
          unfold advance
          rw [hget]
          simp only []
          obtain ⟨j, hj, rfl⟩ := List.mem_iff_getElem.1 hcm
          by_cases hji : j = choose cs
          · subst hji
            have hcj : cs[choose cs] = t :: rest := by
              rcases List.getElem?_eq_some_iff.1 hget with ⟨_, hg⟩; exact hg
            rw [hcj] at hyc
            have hyr : y ∈ rest := by
              rcases List.mem_cons.1 hyc with h | h
              · exact absurd h hyt
              · exact h
            have hrne : rest ≠ [] := List.ne_nil_of_mem hyr
            rw [if_neg hrne]
            exact ⟨rest, List.mem_set hi rest, hyr⟩
          · split
            · refine ⟨cs[j], ?_, hyc⟩
              rw [List.mem_eraseIdx_iff_getElem]
              exact ⟨j, hj, hji, rfl⟩
            · refine ⟨cs[j], ?_, hyc⟩
              rw [List.mem_iff_getElem]
              refine ⟨j, by simpa using hj, ?_⟩
              rw [List.getElem_set_ne (Ne.symm hji)]

/-! ### C. `merge` / `Pull` = keep the first row of every run of equal keys -/

theorem validCursors_totalRows_zero {q : Query} {cs : List Cursor} (hv : ValidCursors q cs) (h : totalRows cs = 0) :
    cs = [] := by
  cases cs with
  | nil => rfl
  | cons c rest =>
    exfalso
    have hne := (hv c List.mem_cons_self).ne
    have := length_le_totalRows (cs := c :: rest) (c := c) List.mem_cons_self
    cases c with
    | nil => exact hne rfl
    | cons _ _ => simp at this; omega

theorem popAll_nil (choose : List Cursor → Nat) (fuel : Nat) : popAll choose fuel [] = [] := by
  cases fuel <;> simp [popAll]

theorem popAll_fuel {q : Query} {choose : List Cursor → Nat} (hc : MinChoice q choose) :
    ∀ (f1 f2 : Nat) (cs : List Cursor), ValidCursors q cs → totalRows cs ≤ f1 → totalRows cs ≤ f2 →
      popAll choose f1 cs = popAll choose f2 cs := by
  intro f1
  induction f1 with
  | zero =>
    intro f2 cs hv h1 _
    have : cs = [] := validCursors_totalRows_zero hv (by omega)
    subst this
    rw [popAll_nil, popAll_nil]
  | succ f1 ih =>
    intro f2 cs hv h1 h2
    by_cases hne : cs = []
    · subst hne; rw [popAll_nil, popAll_nil]
    · obtain ⟨t, rest, hget, _⟩ := hc cs hv hne
      have htot := totalRows_advance hget
      cases f2 with
      | zero => omega
      | succ f2 =>
        unfold popAll
        simp only [if_neg hne, hget]
        rw [ih f2 _ (validCursors_advance hv hget) (by omega) (by omega)]

theorem keepLoop_of_pairwise {K : Row → Row → Prop} (hKn : ∀ a b, K a b → ¬ SameKey a b) :
    ∀ (a : Row) (l : List Row), (a :: l).Pairwise K → keepLoop (some a) l = l := by
  intro a l
  induction l generalizing a with
  | nil => intro _; rfl
  | cons b rest ih =>
    intro h
    have h1 := List.pairwise_cons.1 h
    simp only [keepLoop]
    rw [if_neg (hKn _ _ (h1.1 b List.mem_cons_self))]
    rw [ih b h1.2]

theorem keepLoop_none_of_pairwise {K : Row → Row → Prop} (hKn : ∀ a b, K a b → ¬ SameKey a b)
    (l : List Row) (h : l.Pairwise K) : keepLoop none l = l := by
  cases l with
  | nil => rfl
  | cons a rest => simp only [keepLoop]; rw [keepLoop_of_pairwise hKn a rest h]

/-- a run of rows of series `s` followed by a row of another series: the dedup restarts -/
theorem keepLoop_append_boundary (s : Nat) (b : List Row) (hb : ∀ t rest, b = t :: rest → t.sid ≠ s) :
    ∀ (a : List Row) (last : Option Row), (∀ x ∈ a, x.sid = s) → (∀ l, last = some l → l.sid = s) →
      keepLoop last (a ++ b) = keepLoop last a ++ keepLoop none b := by
  intro a
  induction a with
  | nil =>
    intro last _ hl
    cases last with
    | none => simp [keepLoop]
    | some l =>
      cases b with
      | nil => simp [keepLoop]
      | cons t rest =>
        have h1 := hb t rest rfl
        have h2 := hl l rfl
        have : ¬ SameKey l t := fun h => h1 (h.1.symm.trans h2)
        simp [keepLoop, this]
  | cons x xs ih =>
    intro last ha hl
    have hx := ha x List.mem_cons_self
    have hxs : ∀ y ∈ xs, y.sid = s := fun y hy => ha y (List.mem_cons_of_mem _ hy)
    cases last with
    | none =>
      simp only [List.cons_append, keepLoop]
      rw [ih (some x) hxs (fun l hl' => by simp at hl'; subst hl'; exact hx)]
    | some l =>
      simp only [List.cons_append, keepLoop]
      split
      · exact ih (some l) hxs hl
      · rw [ih (some x) hxs (fun l hl' => by simp at hl'; subst hl'; exact hx)]
        rfl

/-- what `merge` knows about the row it emitted last -/
structure PInv (q : Query) (cs : List Cursor) (st : PullSt) : Prop where
  last : ∀ l, st.result.getLast? = some l →
    st.lastSid = l.sid ∧ l.sid ≠ 0 ∧ st.lastVersion = l.ver ∧ l.sid ∈ q.sids ∧ ∀ y ∈ cs.flatten, rowLess q y l = false

theorem mergePull_spec {q : Query} {choose : List Cursor → Nat} (hc : MinChoice q choose) :
    ∀ (n : Nat) (cs : List Cursor) (st : PullSt) (F : Nat), ValidCursors q cs → PInv q cs st →
      (st.result = [] → st.lastSid = 0) → totalRows cs ≤ n → totalRows cs ≤ F →
      ∃ seg cs' s, mergePull q choose n cs st = (st.result ++ keepLoop st.result.getLast? seg, cs') ∧
        popAll choose F cs = seg ++ popAll choose F cs' ∧ ValidCursors q cs' ∧
        totalRows cs' + seg.length = totalRows cs ∧
        (st.lastSid ≠ 0 → s = st.lastSid) ∧ (∀ x ∈ seg, x.sid = s) ∧
        (cs' = [] ∨ ∃ t rest, popAll choose F cs' = t :: rest ∧ t.sid ≠ s) ∧
        (seg = [] → st.lastSid ≠ 0 ∨ cs = []) := by
  intro n
  induction n with
  | zero =>
    intro cs st F hv _ _ hn _
    have : cs = [] := validCursors_totalRows_zero hv (by omega)
    subst this
    refine ⟨[], [], st.lastSid, ?_, by simp, hv, by simp, fun _ => rfl, by simp, Or.inl rfl, fun _ => Or.inr rfl⟩
    cases h : st.result.getLast? <;> simp [mergePull, keepLoop]
  | succ n ih =>
    intro cs st F hv hp he hn hF
    by_cases hne : cs = []
    · subst hne
      refine ⟨[], [], st.lastSid, ?_, by simp, hv, by simp, fun _ => rfl, by simp, Or.inl rfl, fun _ => Or.inr rfl⟩
      cases h : st.result.getLast? <;> simp [mergePull, keepLoop]
    · obtain ⟨t, rest, hget, hmin⟩ := hc cs hv hne
      have htot := totalRows_advance hget
      have htmem : t ∈ cs.flatten := List.mem_flatten.2 ⟨_, List.mem_of_getElem? hget, List.mem_cons_self⟩
      have htv := (hv _ (List.mem_of_getElem? hget)).sids t List.mem_cons_self
      have hF1 : ∃ F', F = F' + 1 := ⟨F - 1, by omega⟩
      obtain ⟨F', rfl⟩ := hF1
      have hpop : popAll choose (F' + 1) cs = t :: popAll choose (F' + 1) (advance cs (choose cs)) := by
        conv => lhs; unfold popAll
        rw [if_neg hne, hget]
        simp only []
        rw [popAll_fuel hc F' (F' + 1) _ (validCursors_advance hv hget) (by omega) (by omega)]
      unfold mergePull
      rw [if_neg hne]
      simp only []
      rw [hget]
      simp only []
      by_cases hbnd : st.lastSid ≠ 0 ∧ t.sid ≠ st.lastSid
      · rw [if_pos hbnd]
        refine ⟨[], cs, st.lastSid, ?_, by simp, hv, by simp, fun _ => rfl, by simp,
          Or.inr ⟨t, _, hpop, hbnd.2⟩, fun _ => Or.inl hbnd.1⟩
        cases h : st.result.getLast? <;> simp [keepLoop]
      · rw [if_neg hbnd]
        have hva := validCursors_advance hv hget
        have hrem := remaining_ge hv hget hmin
        cases hlast : st.result.getLast? with
        | none =>
          have hres : st.result = [] := List.getLast?_eq_none_iff.1 hlast
          simp only [hres, List.nil_append]
          have hp2 : PInv q (advance cs (choose cs)) { st with lastSid := t.sid, result := [t], lastVersion := t.ver } := by
            refine ⟨fun l hl => ?_⟩
            simp at hl; subst hl
            exact ⟨rfl, htv.1, rfl, htv.2, hrem⟩
          obtain ⟨seg, cs', s, h1, h2, h3, h4, h5, h6, h7, _⟩ :=
            ih (advance cs (choose cs)) { st with lastSid := t.sid, result := [t], lastVersion := t.ver } (F' + 1)
              hva hp2 (by simp) (by omega) (by omega)
          have hs : s = t.sid := h5 htv.1
          refine ⟨t :: seg, cs', t.sid, ?_, ?_, h3, by simp; omega, ?_, ?_, ?_, by simp⟩
          · simp only [List.getLast?_nil] at h1 ⊢
            rw [h1]; simp [keepLoop]
          · rw [hpop, h2]; rfl
          · intro h0
            have := he hres
            exact absurd this h0
          · intro x hx
            rcases List.mem_cons.1 hx with rfl | hx
            · rfl
            · rw [h6 x hx, hs]
          · rw [← hs]; exact h7
        | some l =>
          obtain ⟨hl1, hl2, hl3, hl4, hl5⟩ := hp.last l hlast
          have htsid : t.sid = l.sid := by
            by_cases h : t.sid = st.lastSid
            · rw [h, hl1]
            · exact absurd ⟨by rw [hl1]; exact hl2, h⟩ hbnd
          simp only []
          by_cases hts : t.ts = l.ts
          · rw [if_pos hts]
            have hsame : SameKey l t := ⟨htsid.symm, hts.symm⟩
            have hver : ¬ (t.ver > st.lastVersion) := by
              rw [hl3]
              rcases not_rowLess q hl4 htv.2 (hl5 t htmem) with h | h
              · exact absurd hsame (Kq_not_same q _ _ h)
              · omega
            rw [if_neg hver]
            have hp2 : PInv q (advance cs (choose cs)) { st with lastSid := t.sid } := by
              refine ⟨fun l' hl' => ?_⟩
              simp only [] at hl'
              rw [hlast] at hl'
              simp at hl'; subst hl'
              exact ⟨htsid, hl2, hl3, hl4, fun y hy => hl5 y (mem_flatten_advance hget y hy)⟩
            obtain ⟨seg, cs', s, h1, h2, h3, h4, h5, h6, h7, _⟩ :=
              ih (advance cs (choose cs)) { st with lastSid := t.sid } (F' + 1) hva hp2
                (fun h => by simp only [] at h; rw [h] at hlast; simp at hlast) (by omega) (by omega)
            have hs : s = t.sid := h5 htv.1
            refine ⟨t :: seg, cs', t.sid, ?_, ?_, h3, by simp; omega, ?_, ?_, ?_, by simp⟩
            · rw [h1]
              simp only [hlast, keepLoop, if_pos hsame]
            · rw [hpop, h2]; rfl
            · intro _; rw [htsid, hl1]
            · intro x hx
              rcases List.mem_cons.1 hx with rfl | hx
              · rfl
              · rw [h6 x hx, hs]
            · rw [← hs]; exact h7
          · rw [if_neg hts]
            have hnsame : ¬ SameKey l t := fun h => hts h.2.symm
            have hp2 : PInv q (advance cs (choose cs))
                { st with lastSid := t.sid, result := st.result ++ [t], lastVersion := t.ver } := by
              refine ⟨fun l' hl' => ?_⟩
              simp at hl'; subst hl'
              exact ⟨rfl, htv.1, rfl, htv.2, hrem⟩
            obtain ⟨seg, cs', s, h1, h2, h3, h4, h5, h6, h7, _⟩ :=
              ih (advance cs (choose cs)) { st with lastSid := t.sid, result := st.result ++ [t], lastVersion := t.ver }
                (F' + 1) hva hp2 (by simp) (by omega) (by omega)
            have hs : s = t.sid := h5 htv.1
            refine ⟨t :: seg, cs', t.sid, ?_, ?_, h3, by simp; omega, ?_, ?_, ?_, by simp⟩
            · rw [h1]
              simp only [List.getLast?_append, List.getLast?_singleton, Option.some_or, keepLoop, if_neg hnsame,
                List.append_assoc, List.singleton_append]
            · rw [hpop, h2]; rfl
            · intro _; rw [htsid, hl1]
            · intro x hx
              rcases List.mem_cons.1 hx with rfl | hx
              · rfl
              · rw [h6 x hx, hs]
            · rw [← hs]; exact h7

theorem popAll_single {q : Query} {choose : List Cursor → Nat} (hc : MinChoice q choose) :
    ∀ (F : Nat) (c : Cursor), ValidCursors q [c] → c.length ≤ F → popAll choose F [c] = c := by
  intro F
  induction F with
  | zero =>
    intro c hv hF
    have := (hv c List.mem_cons_self).ne
    cases c with
    | nil => exact absurd rfl this
    | cons _ _ => simp at hF
  | succ F ih =>
    intro c hv hF
    obtain ⟨t, rest, hget, _⟩ := hc [c] hv (by simp)
    have hi : choose [c] = 0 := by
      rcases List.getElem?_eq_some_iff.1 hget with ⟨hi, _⟩
      simp at hi; exact hi
    rw [hi] at hget
    simp at hget
    subst hget
    unfold popAll
    simp only [hi]
    simp only [List.cons_ne_nil, if_false, List.getElem?_cons_zero]
    by_cases hr : rest = []
    · subst hr
      simp [advance, popAll_nil]
    · have hadv : advance [t :: rest] 0 = [rest] := by simp [advance, hr]
      rw [hadv]
      have hv' : ValidCursors q [rest] := by
        intro c hc'
        simp at hc'; subst hc'
        exact (hv _ List.mem_cons_self).tail hr
      rw [ih rest hv' (by simp at hF; omega)]

/-- all `Pull()` results, flattened = first row of every run of equal keys of the popped sequence -/
theorem pullAll_eq {q : Query} {choose : List Cursor → Nat} (hc : MinChoice q choose) :
    ∀ (fuel : Nat) (cs : List Cursor) (F : Nat), ValidCursors q cs → totalRows cs < fuel → totalRows cs ≤ F →
      pullAll q choose fuel cs = keepLoop none (popAll choose F cs) := by
  intro fuel
  induction fuel with
  | zero => intro cs F _ h _; omega
  | succ fuel ih =>
    intro cs F hv hf hF
    match cs, hv, hf, hF with
    | [], _, _, _ => simp [pullAll, popAll_nil, keepLoop]
    | [c], hv, _, hF =>
      have hlen : c.length ≤ F := by simpa [totalRows] using hF
      rw [popAll_single hc F c hv hlen]
      rw [keepLoop_none_of_pairwise (Kq_not_same q) c (hv c List.mem_cons_self).mono]
      rfl
    | c1 :: c2 :: rest, hv, hf, hF =>
      have hp0 : PInv q (c1 :: c2 :: rest) ({} : PullSt) := ⟨fun l hl => by simp at hl⟩
      obtain ⟨seg, cs', s, h1, h2, h3, h4, _, h6, h7, h8⟩ :=
        mergePull_spec hc (totalRows (c1 :: c2 :: rest) + 1) (c1 :: c2 :: rest) {} F hv hp0 (fun _ => rfl)
          (by omega) hF
      have hsegne : seg ≠ [] := by
        intro h
        rcases h8 h with h | h
        · exact h rfl
        · simp at h
      have hres : keepLoop none seg ≠ [] := by
        cases seg with
        | nil => exact absurd rfl hsegne
        | cons t _ => simp [keepLoop]
      have hlen : seg.length ≥ 1 := by
        cases seg with
        | nil => exact absurd rfl hsegne
        | cons _ _ => simp
      have hb : ∀ t rest', popAll choose F cs' = t :: rest' → t.sid ≠ s := by
        intro t rest' hpe
        rcases h7 with h | ⟨t', r', hp', hts⟩
        · subst h; rw [popAll_nil] at hpe; simp at hpe
        · rw [hp'] at hpe
          simp at hpe
          rw [← hpe.1]; exact hts
      have hrec := ih cs' F h3 (by omega) (by omega)
      have hk := keepLoop_append_boundary s (popAll choose F cs') hb seg none h6 (fun l hl => by simp at hl)
      rw [h2, hk]
      unfold pullAll
      simp only []
      have hm : mergePull q choose ((List.map List.length (c1 :: c2 :: rest)).sum + 1) (c1 :: c2 :: rest) {} =
          (keepLoop none seg, cs') := by
        have := h1
        simp only [totalRows] at this
        rw [this]
        rfl
      rw [hm]
      simp only []
      rw [if_neg hres, hrec]

/-! ### the columnar read path: `PullBatch` / `mergeBatch` (repaired cut, F57) -/

/-- the row a further row is compared with after `keepLoop last a` -/
def lastKept (last : Option Row) (a : List Row) : Option Row := ((keepLoop last a).getLast?).or last

/-- a sorted sequence may be cut anywhere except inside a run of equal keys: if the row after the cut is
    not another copy of the last kept row, de-duplicating the two pieces separately is the same -/
theorem keepLoop_append_cut (b : List Row) :
    ∀ (a : List Row) (last : Option Row),
      (∀ t rest, b = t :: rest → ∀ l, lastKept last a = some l → ¬ SameKey l t) →
      keepLoop last (a ++ b) = keepLoop last a ++ keepLoop none b := by
  intro a
  induction a with
  | nil =>
    intro last hb
    cases last with
    | none => simp [keepLoop]
    | some l =>
      cases b with
      | nil => simp [keepLoop]
      | cons t rest =>
        have : ¬ SameKey l t := hb t rest rfl l (by simp [lastKept, keepLoop])
        simp [keepLoop, this]
  | cons x xs ih =>
    intro last hb
    have hcons : ∀ (L : List Row), ((x :: L).getLast?).or last = (L.getLast?).or (some x) := by
      intro L
      rw [List.getLast?_cons]
      cases L.getLast? <;> simp
    cases last with
    | none =>
      simp only [List.cons_append, keepLoop]
      rw [ih (some x)]
      intro t rest hbt l hl
      refine hb t rest hbt l ?_
      simp only [lastKept, keepLoop]
      rw [hcons]; exact hl
    | some l0 =>
      simp only [List.cons_append, keepLoop]
      split
      · rename_i hs
        refine ih (some l0) ?_
        intro t rest hbt l hl
        refine hb t rest hbt l ?_
        simp only [lastKept, keepLoop, if_pos hs]
        exact hl
      · rename_i hs
        rw [ih (some x)]
        · rfl
        · intro t rest hbt l hl
          refine hb t rest hbt l ?_
          simp only [lastKept, keepLoop, if_neg hs]
          rw [hcons]; exact hl

theorem batchDup_of_none {res : List Row} (t : Row) (h : res.getLast? = none) : batchDup res t = false := by
  simp [batchDup, h]

theorem batchDup_of_some {res : List Row} (t : Row) {l : Row} (h : res.getLast? = some l) :
    batchDup res t = decide (t.ts = l.ts) := by
  simp [batchDup, h]

/-- one `mergeBatch` call (repaired cut): it consumes a prefix `seg` of the popped sequence, emits that prefix
    de-duplicated, and stops only where the next row to pop is not another copy of the row emitted last -/
theorem mergeBatchPull_spec {q : Query} {choose : List Cursor → Nat} (hc : MinChoice q choose) (maxRows : Nat) :
    ∀ (n : Nat) (cs : List Cursor) (st : PullSt) (F : Nat), ValidCursors q cs → PInv q cs st →
      (st.result = [] → st.lastSid = 0) → totalRows cs ≤ n → totalRows cs ≤ F →
      ∃ seg cs', mergeBatchPull q choose maxRows true n cs st = (st.result ++ keepLoop st.result.getLast? seg, cs') ∧
        popAll choose F cs = seg ++ popAll choose F cs' ∧ ValidCursors q cs' ∧
        totalRows cs' + seg.length = totalRows cs ∧
        (∀ t rest, popAll choose F cs' = t :: rest →
          ∀ l, (st.result ++ keepLoop st.result.getLast? seg).getLast? = some l → ¬ SameKey l t) ∧
        (seg = [] → st.lastSid ≠ 0 ∨ cs = [] ∨ st.result.length ≥ maxRows) := by
  intro n
  induction n with
  | zero =>
    intro cs st F hv _ _ hn _
    have : cs = [] := validCursors_totalRows_zero hv (by omega)
    subst this
    refine ⟨[], [], ?_, by simp, hv, by simp, ?_, fun _ => Or.inr (Or.inl rfl)⟩
    · cases h : st.result.getLast? <;> simp [mergeBatchPull, keepLoop]
    · intro t rest h; rw [popAll_nil] at h; simp at h
  | succ n ih =>
    intro cs st F hv hp he hn hF
    by_cases hne : cs = []
    · subst hne
      refine ⟨[], [], ?_, by simp, hv, by simp, ?_, fun _ => Or.inr (Or.inl rfl)⟩
      · cases h : st.result.getLast? <;> simp [mergeBatchPull, keepLoop]
      · intro t rest h; rw [popAll_nil] at h; simp at h
    · obtain ⟨t, rest, hget, hmin⟩ := hc cs hv hne
      have htot := totalRows_advance hget
      have htmem : t ∈ cs.flatten := List.mem_flatten.2 ⟨_, List.mem_of_getElem? hget, List.mem_cons_self⟩
      have htv := (hv _ (List.mem_of_getElem? hget)).sids t List.mem_cons_self
      have hF1 : ∃ F', F = F' + 1 := ⟨F - 1, by omega⟩
      obtain ⟨F', rfl⟩ := hF1
      have hpop : popAll choose (F' + 1) cs = t :: popAll choose (F' + 1) (advance cs (choose cs)) := by
        conv => lhs; unfold popAll
        rw [if_neg hne, hget]
        simp only []
        rw [popAll_fuel hc F' (F' + 1) _ (validCursors_advance hv hget) (by omega) (by omega)]
      have hnil : ∀ o : Option Row, keepLoop o [] = [] := by intro o; cases o <;> rfl
      unfold mergeBatchPull
      rw [if_neg hne]
      rw [if_neg (by simp : ¬ (true = false ∧ st.result.length ≥ maxRows))]
      simp only []
      rw [hget]
      simp only []
      by_cases hbnd : st.lastSid ≠ 0 ∧ t.sid ≠ st.lastSid
      · rw [if_pos hbnd]
        refine ⟨[], cs, by rw [hnil]; simp, by simp, hv, by simp, ?_, fun _ => Or.inl hbnd.1⟩
        intro t' rest' hpe l hl
        rw [hpop] at hpe
        have ht' : t = t' := by simp at hpe; exact hpe.1
        subst ht'
        rw [hnil, List.append_nil] at hl
        obtain ⟨hl1, _⟩ := hp.last l hl
        intro hs
        exact hbnd.2 (by rw [hl1]; exact hs.1.symm)
      · rw [if_neg hbnd]
        by_cases hfull : True ∧ st.result.length ≥ maxRows ∧ batchDup st.result t = false
        · rw [if_pos hfull]
          refine ⟨[], cs, by rw [hnil]; simp, by simp, hv, by simp, ?_, fun _ => Or.inr (Or.inr hfull.2.1)⟩
          intro t' rest' hpe l hl
          rw [hpop] at hpe
          have ht' : t = t' := by simp at hpe; exact hpe.1
          subst ht'
          rw [hnil, List.append_nil] at hl
          have hd := hfull.2.2
          rw [batchDup_of_some t hl] at hd
          intro hs
          simp at hd
          exact hd hs.2.symm
        · rw [if_neg hfull]
          have hva := validCursors_advance hv hget
          have hrem := remaining_ge hv hget hmin
          cases hlast : st.result.getLast? with
          | none =>
            have hres : st.result = [] := List.getLast?_eq_none_iff.1 hlast
            rw [batchDup_of_none t hlast]
            simp only [hres, List.nil_append, Bool.false_eq_true, if_false]
            have hp2 : PInv q (advance cs (choose cs)) { st with lastSid := t.sid, result := [t], lastVersion := t.ver } := by
              refine ⟨fun l hl => ?_⟩
              simp at hl; subst hl
              exact ⟨rfl, htv.1, rfl, htv.2, hrem⟩
            obtain ⟨seg, cs', h1, h2, h3, h4, h5, _⟩ :=
              ih (advance cs (choose cs)) { st with lastSid := t.sid, result := [t], lastVersion := t.ver } (F' + 1)
                hva hp2 (by simp) (by omega) (by omega)
            have heq : keepLoop none (t :: seg) = [t] ++ keepLoop ([t] : List Row).getLast? seg := by simp [keepLoop]
            refine ⟨t :: seg, cs', ?_, ?_, h3, by simp; omega, ?_, by simp⟩
            · rw [h1, heq]
            · rw [hpop, h2]; rfl
            · rw [heq]; exact h5
          | some l =>
            obtain ⟨hl1, hl2, hl3, hl4, hl5⟩ := hp.last l hlast
            have htsid : t.sid = l.sid := by
              by_cases h : t.sid = st.lastSid
              · rw [h, hl1]
              · exact absurd ⟨by rw [hl1]; exact hl2, h⟩ hbnd
            rw [batchDup_of_some t hlast]
            by_cases hts : t.ts = l.ts
            · have hsame : SameKey l t := ⟨htsid.symm, hts.symm⟩
              have hver : ¬ (t.ver > st.lastVersion) := by
                rw [hl3]
                rcases not_rowLess q hl4 htv.2 (hl5 t htmem) with h | h
                · exact absurd hsame (Kq_not_same q _ _ h)
                · omega
              simp only [hts, decide_true, if_true, if_neg hver]
              have hp2 : PInv q (advance cs (choose cs)) { st with lastSid := t.sid } := by
                refine ⟨fun l' hl' => ?_⟩
                simp only [] at hl'
                rw [hlast] at hl'
                simp at hl'; subst hl'
                exact ⟨htsid, hl2, hl3, hl4, fun y hy => hl5 y (mem_flatten_advance hget y hy)⟩
              obtain ⟨seg, cs', h1, h2, h3, h4, h5, _⟩ :=
                ih (advance cs (choose cs)) { st with lastSid := t.sid } (F' + 1) hva hp2
                  (fun h => by simp only [] at h; rw [h] at hlast; simp at hlast) (by omega) (by omega)
              have heq : keepLoop (some l) (t :: seg) = keepLoop (some l) seg := by
                simp only [keepLoop, if_pos hsame]
              simp only [hlast] at h1 h5
              refine ⟨t :: seg, cs', ?_, ?_, h3, by simp; omega, ?_, by simp⟩
              · rw [h1, heq]
              · rw [hpop, h2]; rfl
              · rw [heq]; exact h5
            · have hnsame : ¬ SameKey l t := fun h => hts h.2.symm
              simp only [hts, decide_false, Bool.false_eq_true, if_false]
              have hp2 : PInv q (advance cs (choose cs))
                  { st with lastSid := t.sid, result := st.result ++ [t], lastVersion := t.ver } := by
                refine ⟨fun l' hl' => ?_⟩
                simp at hl'; subst hl'
                exact ⟨rfl, htv.1, rfl, htv.2, hrem⟩
              obtain ⟨seg, cs', h1, h2, h3, h4, h5, _⟩ :=
                ih (advance cs (choose cs)) { st with lastSid := t.sid, result := st.result ++ [t], lastVersion := t.ver }
                  (F' + 1) hva hp2 (by simp) (by omega) (by omega)
              have heq : st.result ++ keepLoop (some l) (t :: seg) =
                  (st.result ++ [t]) ++ keepLoop (st.result ++ [t]).getLast? seg := by
                simp only [List.getLast?_append, List.getLast?_singleton, Option.some_or, keepLoop, if_neg hnsame,
                  List.append_assoc, List.singleton_append]
              refine ⟨t :: seg, cs', ?_, ?_, h3, by simp; omega, ?_, by simp⟩
              · rw [h1, heq]
              · rw [hpop, h2]; rfl
              · rw [heq]; exact h5

/-- all `PullBatch()` results, flattened = first row of every run of equal keys of the popped sequence:
    the same rows as the row path (`pullAll_eq`) -/
theorem pullAllBatch_eq {q : Query} {choose : List Cursor → Nat} (hc : MinChoice q choose) {maxRows : Nat}
    (hm : 0 < maxRows) :
    ∀ (fuel : Nat) (cs : List Cursor) (F : Nat), ValidCursors q cs → totalRows cs < fuel → totalRows cs ≤ F →
      pullAllBatch q choose maxRows true fuel cs = keepLoop none (popAll choose F cs) := by
  intro fuel
  induction fuel with
  | zero => intro cs F _ h _; omega
  | succ fuel ih =>
    intro cs F hv hf hF
    match cs, hv, hf, hF with
    | [], _, _, _ => simp [pullAllBatch, popAll_nil, keepLoop]
    | [c], hv, _, hF =>
      have hlen : c.length ≤ F := by simpa [totalRows] using hF
      rw [popAll_single hc F c hv hlen]
      rw [keepLoop_none_of_pairwise (Kq_not_same q) c (hv c List.mem_cons_self).mono]
      rfl
    | c1 :: c2 :: rest, hv, hf, hF =>
      have hp0 : PInv q (c1 :: c2 :: rest) ({} : PullSt) := ⟨fun l hl => by simp at hl⟩
      obtain ⟨seg, cs', h1, h2, h3, h4, h5, h8⟩ :=
        mergeBatchPull_spec hc maxRows (totalRows (c1 :: c2 :: rest) + 1) (c1 :: c2 :: rest) {} F hv hp0 (fun _ => rfl)
          (by omega) hF
      have hsegne : seg ≠ [] := by
        intro h
        rcases h8 h with h | h | h
        · exact h rfl
        · simp at h
        · simp at h; omega
      have hres : keepLoop none seg ≠ [] := by
        cases seg with
        | nil => exact absurd rfl hsegne
        | cons t _ => simp [keepLoop]
      have hlen : seg.length ≥ 1 := by
        cases seg with
        | nil => exact absurd rfl hsegne
        | cons _ _ => simp
      have hrec := ih cs' F h3 (by omega) (by omega)
      have hk := keepLoop_append_cut (popAll choose F cs') seg none (by
        intro t rest' hpe l hl
        refine h5 t rest' hpe l ?_
        simpa [lastKept] using hl)
      rw [h2, hk]
      unfold pullAllBatch
      simp only []
      have hmb : mergeBatchPull q choose maxRows true (totalRows (c1 :: c2 :: rest) + 1) (c1 :: c2 :: rest) {} =
          (keepLoop none seg, cs') := by
        rw [h1]; rfl
      rw [hmb]
      simp only []
      rw [if_neg hres, hrec]

/-- the two read paths return the same rows -/
theorem pullAllBatch_eq_pullAll {q : Query} {choose : List Cursor → Nat} (hc : MinChoice q choose) {maxRows : Nat}
    (hm : 0 < maxRows) (cs : List Cursor) (hv : ValidCursors q cs) :
    pullAllBatch q choose maxRows true (totalRows cs + 1) cs = pullAll q choose (totalRows cs + 1) cs := by
  rw [pullAllBatch_eq hc hm _ _ (totalRows cs) hv (by omega) (Nat.le_refl _),
    pullAll_eq hc _ _ (totalRows cs) hv (by omega) (Nat.le_refl _)]

/-! ### the linear-scan root of the executable model is a heap root -/

theorem rowLess_trans (q : Query) {a b c : Row} (h1 : rowLess q a b = true) (h2 : rowLess q b c = true) :
    rowLess q a c = true := by
  rw [rowLess_iff] at *
  unfold Kq at *; omega

theorem minIdxFrom_spec (q : Query) : ∀ (cs pre : List Cursor) (best : Nat) (bestRow : Row) (brest : Cursor),
    (pre ++ cs)[best]? = some (bestRow :: brest) → best < pre.length →
    (∀ c ∈ pre, ∀ h, c.head? = some h → rowLess q h bestRow = false) →
    ∃ t rest, (pre ++ cs)[minIdxFrom q cs pre.length best bestRow]? = some (t :: rest) ∧
      ∀ c ∈ pre ++ cs, ∀ h, c.head? = some h → rowLess q h t = false := by
  intro cs
  induction cs with
  | nil =>
    intro pre best bestRow brest hb _ hmin
    refine ⟨bestRow, brest, by simpa [minIdxFrom] using hb, ?_⟩
    simpa using hmin
  | cons c cs ih =>
    intro pre best bestRow brest hb hlt hmin
    have happ : pre ++ c :: cs = (pre ++ [c]) ++ cs := by simp
    have hlen : (pre ++ [c]).length = pre.length + 1 := by simp
    cases c with
    | nil =>
      simp only [minIdxFrom]
      have := ih (pre ++ [[]]) best bestRow brest (by rw [← happ]; exact hb) (by rw [hlen]; omega)
        (fun c hc h hh => by
          rcases List.mem_append.1 hc with hc | hc
          · exact hmin c hc h hh
          · simp at hc; subst hc; simp at hh)
      rw [hlen, ← happ] at this
      exact this
    | cons r rtl =>
      simp only [minIdxFrom]
      by_cases hl : rowLess q r bestRow = true
      · rw [if_pos hl]
        have hget : ((pre ++ [r :: rtl]) ++ cs)[pre.length]? = some (r :: rtl) := by
          rw [List.append_assoc, List.getElem?_append_right (Nat.le_refl _)]
          simp
        have := ih (pre ++ [r :: rtl]) pre.length r rtl hget (by rw [hlen]; omega)
          (fun c hc h hh => by
            rcases List.mem_append.1 hc with hc | hc
            · have h1 := hmin c hc h hh
              cases hx : rowLess q h r with
              | false => rfl
              | true =>
                have := rowLess_trans q hx hl
                rw [h1] at this; exact absurd this (by simp)
            · simp at hc; subst hc
              simp at hh; subst hh
              exact rowLess_irrefl q _)
        rw [hlen, ← happ] at this
        exact this
      · rw [if_neg hl]
        have hl' : rowLess q r bestRow = false := by
          cases h : rowLess q r bestRow with
          | false => rfl
          | true => exact absurd h hl
        have := ih (pre ++ [r :: rtl]) best bestRow brest (by rw [← happ]; exact hb) (by rw [hlen]; omega)
          (fun c hc h hh => by
            rcases List.mem_append.1 hc with hc | hc
            · exact hmin c hc h hh
            · simp at hc; subst hc
              simp at hh; subst hh
              exact hl')
        rw [hlen, ← happ] at this
        exact this

theorem minIdx_minChoice (q : Query) : MinChoice q (minIdx q) := by
  intro cs hv hne
  cases cs with
  | nil => exact absurd rfl hne
  | cons c rest =>
    have hc := (hv c List.mem_cons_self).ne
    cases c with
    | nil => exact absurd rfl hc
    | cons r rtl =>
      simp only [minIdx]
      have := minIdxFrom_spec q rest [r :: rtl] 0 r rtl (by simp) (by simp)
        (fun c hc h hh => by
          simp at hc; subst hc
          simp at hh; subst hh
          exact rowLess_irrefl q _)
      simpa using this

end Banyan.Store
