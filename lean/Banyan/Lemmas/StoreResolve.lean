/-
Store layer: algebra of `Refines` / `IsResolution` and correctness of the reference `resolve`.
-/
import Banyan.Model.Store

namespace Banyan.Store

theorem Dominates.refl (r : Row) : Dominates r r := ⟨rfl, rfl, Int.le_refl _⟩

theorem Dominates.trans {a b c : Row} (h1 : Dominates a b) (h2 : Dominates b c) : Dominates a c :=
  ⟨h2.1.trans h1.1, h2.2.1.trans h1.2.1, Int.le_trans h1.2.2 h2.2.2⟩

theorem Dominates.sameKey {a b : Row} (h : Dominates a b) : SameKey a b := ⟨h.1.symm, h.2.1.symm⟩

theorem SameKey.symm {a b : Row} (h : SameKey a b) : SameKey b a := ⟨h.1.symm, h.2.symm⟩
theorem SameKey.trans {a b c : Row} (h1 : SameKey a b) (h2 : SameKey b c) : SameKey a c :=
  ⟨h1.1.trans h2.1, h1.2.trans h2.2⟩
theorem SameKey.refl (a : Row) : SameKey a a := ⟨rfl, rfl⟩

/-! ### Refines -/

theorem Refines.refl (a : List Row) : Refines a a :=
  ⟨fun _ h => h, fun r h => ⟨r, h, Dominates.refl r⟩⟩

theorem Refines.trans {a b c : List Row} (h1 : Refines a b) (h2 : Refines b c) : Refines a c := by
  refine ⟨fun o ho => h1.1 o (h2.1 o ho), fun r hr => ?_⟩
  obtain ⟨o, ho, hd⟩ := h1.2 r hr
  obtain ⟨o', ho', hd'⟩ := h2.2 o ho
  exact ⟨o', ho', hd.trans hd'⟩

theorem Refines.append {a b c d : List Row} (h1 : Refines a b) (h2 : Refines c d) :
    Refines (a ++ c) (b ++ d) := by
  refine ⟨fun o ho => ?_, fun r hr => ?_⟩
  · rcases List.mem_append.1 ho with h | h
    · exact List.mem_append.2 (Or.inl (h1.1 o h))
    · exact List.mem_append.2 (Or.inr (h2.1 o h))
  · rcases List.mem_append.1 hr with h | h
    · obtain ⟨o, ho, hd⟩ := h1.2 r h
      exact ⟨o, List.mem_append.2 (Or.inl ho), hd⟩
    · obtain ⟨o, ho, hd⟩ := h2.2 r h
      exact ⟨o, List.mem_append.2 (Or.inr ho), hd⟩

/-- `Refines` only looks at membership. -/
theorem Refines.of_mem_iff {a a' b b' : List Row} (ha : ∀ x, x ∈ a ↔ x ∈ a') (hb : ∀ x, x ∈ b ↔ x ∈ b')
    (h : Refines a b) : Refines a' b' := by
  refine ⟨fun o ho => (ha o).1 (h.1 o ((hb o).2 ho)), fun r hr => ?_⟩
  obtain ⟨o, ho, hd⟩ := h.2 r ((ha r).2 hr)
  exact ⟨o, (hb o).1 ho, hd⟩

theorem Refines.flatMap {α : Type} (l : List α) (f g : α → List Row) (h : ∀ x ∈ l, Refines (f x) (g x)) :
    Refines (l.flatMap f) (l.flatMap g) := by
  induction l with
  | nil => exact Refines.refl _
  | cons x xs ih =>
    simp only [List.flatMap_cons]
    exact Refines.append (h x (List.mem_cons_self)) (ih fun y hy => h y (List.mem_cons_of_mem _ hy))

theorem Refines.filter {a b : List Row} (p : Row → Bool)
    (hp : ∀ x y, SameKey x y → p x = p y) (h : Refines a b) : Refines (a.filter p) (b.filter p) := by
  refine ⟨fun o ho => ?_, fun r hr => ?_⟩
  · rw [List.mem_filter] at ho ⊢
    exact ⟨h.1 o ho.1, ho.2⟩
  · rw [List.mem_filter] at hr
    obtain ⟨o, ho, hd⟩ := h.2 r hr.1
    refine ⟨o, List.mem_filter.2 ⟨ho, ?_⟩, hd⟩
    rw [← hp r o hd.sameKey]; exact hr.2

/-! ### IsResolution -/

theorem isResolution_iff {rows out : List Row} :
    IsResolution rows out ↔ Refines rows out ∧ out.Pairwise (fun a b => ¬ SameKey a b) :=
  ⟨fun h => ⟨⟨h.1, h.2.1⟩, h.2.2⟩, fun h => ⟨h.1.1, h.1.2, h.2⟩⟩

/-- the content may be replaced by anything that refines it -/
theorem IsResolution.of_refines {w s out : List Row} (h : Refines w s) (hr : IsResolution s out) :
    IsResolution w out := by
  rw [isResolution_iff] at hr ⊢
  exact ⟨h.trans hr.1, hr.2⟩

/-- every row of a resolution has the greatest version written for its key -/
theorem IsResolution.max_version {rows out : List Row} (h : IsResolution rows out)
    {o r : Row} (ho : o ∈ out) (hr : r ∈ rows) (hk : SameKey r o) : r.ver ≤ o.ver := by
  obtain ⟨o', ho', hd⟩ := h.2.1 r hr
  have hsame : SameKey o o' := hk.symm.trans hd.sameKey
  have : o = o' := by
    by_cases he : o = o'
    · exact he
    · exfalso
      have hp := h.2.2
      rcases List.mem_iff_getElem.1 ho with ⟨i, hi, rfl⟩
      rcases List.mem_iff_getElem.1 ho' with ⟨j, hj, rfl⟩
      rcases Nat.lt_trichotomy i j with hij | hij | hij
      · exact (List.pairwise_iff_getElem.1 hp i j hi hj hij) hsame
      · subst hij; exact he rfl
      · exact (List.pairwise_iff_getElem.1 hp j i hj hi hij) hsame.symm
  rw [this]; exact hd.2.2

/-- keys of a resolution = keys written -/
theorem IsResolution.key_iff {rows out : List Row} (h : IsResolution rows out) (sid : Nat) (ts : Int) :
    (∃ o ∈ out, o.sid = sid ∧ o.ts = ts) ↔ (∃ r ∈ rows, r.sid = sid ∧ r.ts = ts) := by
  constructor
  · rintro ⟨o, ho, h1, h2⟩; exact ⟨o, h.1 o ho, h1, h2⟩
  · rintro ⟨r, hr, h1, h2⟩
    obtain ⟨o, ho, hd⟩ := h.2.1 r hr
    exact ⟨o, ho, hd.1.trans h1, hd.2.1.trans h2⟩

/-! ### the reference `resolve` -/

theorem upsert_mem {r x : Row} {l : List Row} (h : x ∈ upsert r l) : x = r ∨ x ∈ l := by
  induction l with
  | nil => simp [upsert] at h; exact Or.inl h
  | cons o rest ih =>
    simp only [upsert] at h
    split at h
    · split at h
      · rcases List.mem_cons.1 h with h | h
        · exact Or.inl h
        · exact Or.inr (List.mem_cons_of_mem _ h)
      · exact Or.inr h
    · rcases List.mem_cons.1 h with h | h
      · exact Or.inr (h ▸ List.mem_cons_self)
      · rcases ih h with h | h
        · exact Or.inl h
        · exact Or.inr (List.mem_cons_of_mem _ h)

theorem upsert_dominates (r : Row) (l : List Row) :
    (∃ o ∈ upsert r l, Dominates r o) ∧ (∀ x ∈ l, ∃ o ∈ upsert r l, Dominates x o) := by
  induction l with
  | nil => exact ⟨⟨r, by simp [upsert], Dominates.refl r⟩, fun x hx => by simp at hx⟩
  | cons o rest ih =>
    simp only [upsert]
    split
    · rename_i hk
      split
      · rename_i hv
        refine ⟨⟨r, List.mem_cons_self, Dominates.refl r⟩, fun x hx => ?_⟩
        rcases List.mem_cons.1 hx with rfl | hx
        · exact ⟨r, List.mem_cons_self, ⟨hk.1.symm, hk.2.symm, Int.le_of_lt hv⟩⟩
        · exact ⟨x, List.mem_cons_of_mem _ hx, Dominates.refl x⟩
      · rename_i hv
        refine ⟨⟨o, List.mem_cons_self, ⟨hk.1, hk.2, Int.not_lt.1 hv⟩⟩, fun x hx => ⟨x, hx, Dominates.refl x⟩⟩
    · refine ⟨?_, fun x hx => ?_⟩
      · obtain ⟨o', ho', hd⟩ := ih.1
        exact ⟨o', List.mem_cons_of_mem _ ho', hd⟩
      · rcases List.mem_cons.1 hx with rfl | hx
        · exact ⟨x, List.mem_cons_self, Dominates.refl x⟩
        · obtain ⟨o', ho', hd⟩ := ih.2 x hx
          exact ⟨o', List.mem_cons_of_mem _ ho', hd⟩

theorem upsert_pairwise (r : Row) (l : List Row) (h : l.Pairwise (fun a b => ¬ SameKey a b)) :
    (upsert r l).Pairwise (fun a b => ¬ SameKey a b) := by
  induction l with
  | nil => simp [upsert]
  | cons o rest ih =>
    rw [List.pairwise_cons] at h
    simp only [upsert]
    split
    · rename_i hk
      split
      · rw [List.pairwise_cons]
        refine ⟨fun x hx hs => h.1 x hx ?_, h.2⟩
        exact (show SameKey o r from ⟨hk.1, hk.2⟩).trans hs
      · rw [List.pairwise_cons]; exact h
    · rename_i hk
      rw [List.pairwise_cons]
      refine ⟨fun x hx hs => ?_, ih h.2⟩
      rcases upsert_mem hx with rfl | hx
      · exact hk ⟨hs.1, hs.2⟩
      · exact h.1 x hx hs

theorem resolve_foldl (rows acc : List Row) (hp : acc.Pairwise (fun a b => ¬ SameKey a b)) :
    let out := rows.foldl (fun acc r => upsert r acc) acc
    (∀ o ∈ out, o ∈ acc ∨ o ∈ rows) ∧ (∀ r, r ∈ acc ∨ r ∈ rows → ∃ o ∈ out, Dominates r o) ∧
      out.Pairwise (fun a b => ¬ SameKey a b) := by
  induction rows generalizing acc with
  | nil =>
    refine ⟨fun o ho => Or.inl ho, fun r hr => ?_, hp⟩
    rcases hr with hr | hr
    · exact ⟨r, hr, Dominates.refl r⟩
    · simp at hr
  | cons x xs ih =>
    simp only [List.foldl_cons]
    obtain ⟨h1, h2, h3⟩ := ih (upsert x acc) (upsert_pairwise x acc hp)
    refine ⟨fun o ho => ?_, fun r hr => ?_, h3⟩
    · rcases h1 o ho with h | h
      · rcases upsert_mem h with rfl | h
        · exact Or.inr List.mem_cons_self
        · exact Or.inl h
      · exact Or.inr (List.mem_cons_of_mem _ h)
    · have hu := upsert_dominates x acc
      rcases hr with hr | hr
      · obtain ⟨o, ho, hd⟩ := hu.2 r hr
        obtain ⟨o', ho', hd'⟩ := h2 o (Or.inl ho)
        exact ⟨o', ho', hd.trans hd'⟩
      · rcases List.mem_cons.1 hr with rfl | hr
        · obtain ⟨o, ho, hd⟩ := hu.1
          obtain ⟨o', ho', hd'⟩ := h2 o (Or.inl ho)
          exact ⟨o', ho', hd.trans hd'⟩
        · exact h2 r (Or.inr hr)

end Banyan.Store
