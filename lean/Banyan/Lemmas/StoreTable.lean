/-
Store layer: from blocks to cursors to query results, and the table invariant over histories.
-/
import Banyan.Lemmas.StoreQuery

namespace Banyan.Store

/-! ### resolutions are unique up to ties -/

/-- no two different written rows share (series, timestamp, version) -/
def TieFree (rows : List Row) : Prop :=
  ∀ a ∈ rows, ∀ b ∈ rows, SameKey a b → a.ver = b.ver → a = b

theorem isResolution_mem_iff_of_tieFree {rows o1 o2 : List Row} (ht : TieFree rows)
    (h1 : IsResolution rows o1) (h2 : IsResolution rows o2) : ∀ x, x ∈ o1 ↔ x ∈ o2 := by
  have key : ∀ {a b : List Row}, IsResolution rows a → IsResolution rows b → ∀ x, x ∈ a → x ∈ b := by
    intro a b ha hb x hx
    obtain ⟨y, hy, hd⟩ := hb.2.1 x (ha.1 x hx)
    have hxy : x.ver ≤ y.ver := hd.2.2
    have hyx : y.ver ≤ x.ver := ha.max_version hx (hb.1 y hy) hd.sameKey.symm
    have : x = y := ht x (ha.1 x hx) y (hb.1 y hy) hd.sameKey (by omega)
    rw [this]; exact hy
  exact fun x => ⟨key h1 h2 x, key h2 h1 x⟩

theorem eq_of_pairwise_of_mem_iff {K : Row → Row → Prop} (hKt : ∀ a b c, K a b → K b c → K a c)
    (hKi : ∀ a, ¬ K a a) : ∀ (l1 l2 : List Row), l1.Pairwise K → l2.Pairwise K → (∀ x, x ∈ l1 ↔ x ∈ l2) → l1 = l2 := by
  intro l1
  induction l1 with
  | nil =>
    intro l2 _ _ h
    cases l2 with
    | nil => rfl
    | cons b _ => exact absurd ((h b).2 List.mem_cons_self) (by simp)
  | cons a as ih =>
    intro l2 h1 h2 h
    cases l2 with
    | nil => exact absurd ((h a).1 List.mem_cons_self) (by simp)
    | cons b bs =>
      have p1 := List.pairwise_cons.1 h1
      have p2 := List.pairwise_cons.1 h2
      have hab : a = b := by
        by_cases e : a = b
        · exact e
        · exfalso
          have ha : a ∈ bs := by
            rcases List.mem_cons.1 ((h a).1 List.mem_cons_self) with h' | h'
            · exact absurd h' e
            · exact h'
          have hb : b ∈ as := by
            rcases List.mem_cons.1 ((h b).2 List.mem_cons_self) with h' | h'
            · exact absurd h'.symm e
            · exact h'
          exact hKi a (hKt _ _ _ (p1.1 b hb) (p2.1 a ha))
      subst hab
      congr 1
      apply ih bs p1.2 p2.2
      intro x
      constructor
      · intro hx
        rcases List.mem_cons.1 ((h x).1 (List.mem_cons_of_mem _ hx)) with h' | h'
        · subst h'; exact absurd (p1.1 x hx) (hKi x)
        · exact h'
      · intro hx
        rcases List.mem_cons.1 ((h x).2 (List.mem_cons_of_mem _ hx)) with h' | h'
        · subst h'; exact absurd (p2.1 x hx) (hKi x)
        · exact h'

theorem Kq_irrefl (q : Query) : ∀ a : Row, ¬ Kq q a a := by
  intro a h; unfold Kq at h; omega

/-! ### blocks → cursors -/

/-- rows a query covers -/
def inQuery (q : Query) (r : Row) : Bool :=
  q.sids.contains r.sid && decide (q.tmin ≤ r.ts) && decide (r.ts ≤ q.tmax)

theorem covered_eq_filter (q : Query) (rows : List Row) : covered q rows = rows.filter (inQuery q) := rfl

theorem inQuery_sameKey (q : Query) : ∀ x y : Row, SameKey x y → inQuery q x = inQuery q y := by
  intro x y h; unfold inQuery; rw [h.1, h.2]

theorem sinc_filter {l : List Row} (p : Row → Bool) (h : SInc l) : SInc (l.filter p) :=
  List.Pairwise.sublist (List.filter_sublist) h

theorem Kq_of_ts_lt (q : Query) {a b : Row} (hs : a.sid = b.sid) (h : a.ts < b.ts) (ho : q.order ≠ .timeDesc) :
    Kq q a b := by
  unfold Kq k1 k2
  cases hq : q.order
  · simp only []; omega
  · exact absurd hq ho
  · simp only []; rw [hs]; omega

theorem Kq_of_ts_gt (q : Query) {a b : Row} (hs : a.sid = b.sid) (h : b.ts < a.ts) (ho : q.order = .timeDesc) :
    Kq q a b := by
  unfold Kq k1 k2
  rw [ho]; simp only []; omega

theorem mem_dirRows (q : Query) (b : Block) : ∀ x, x ∈ dirRows q b ↔ x ∈ rangeRows q b := by
  intro x; unfold dirRows; split
  · exact List.mem_reverse
  · exact Iff.rfl

theorem mem_blockCursor {q : Query} {b : Block} {c : Cursor} (h : blockCursor q b = some c) :
    q.sids.contains b.sid = true ∧ c ≠ [] ∧ (∀ x, x ∈ c ↔ x ∈ rangeRows q b) ∧ c = dirRows q b := by
  unfold blockCursor at h
  by_cases hsid : q.sids.contains b.sid = true
  · rw [if_pos hsid] at h
    by_cases hnil : dirRows q b = []
    · rw [if_pos hnil] at h; simp at h
    · rw [if_neg hnil] at h
      have hc : dirRows q b = c := by simpa using h
      exact ⟨hsid, hc ▸ hnil, fun x => hc ▸ mem_dirRows q b x, hc.symm⟩
  · rw [if_neg hsid] at h; simp at h

/-- the cursor `loadData` builds from a valid block of a queried series -/
theorem cursor_of_block_valid (q : Query) (b : Block) (hb : ValidBlock b) (h0 : ¬ (0 ∈ q.sids))
    (c : Cursor) (hc : blockCursor q b = some c) : ValidCursor q c := by
  obtain ⟨hsid, hne, hmemc, hceq⟩ := mem_blockCursor hc
  have hmem : b.sid ∈ q.sids := by simpa using hsid
  have hb0 : b.sid ≠ 0 := fun h => h0 (h ▸ hmem)
  have hsub : ∀ x ∈ c, x ∈ b.rows := fun x hx => (List.mem_filter.1 ((hmemc x).1 hx)).1
  refine ⟨hne, fun x hx => ?_, fun x hx y hy => ?_, ?_⟩
  · rw [hb.sid x (hsub x hx)]; exact ⟨hb0, hmem⟩
  · rw [hb.sid x (hsub x hx), hb.sid y (hsub y hy)]
  · rw [hceq]
    unfold dirRows
    have hf : SInc (rangeRows q b) := sinc_filter _ hb.inc
    have hfs : ∀ x ∈ rangeRows q b, x.sid = b.sid := fun x hx => hb.sid x (List.mem_filter.1 hx).1
    split
    · rename_i ho
      rw [List.pairwise_reverse]
      refine List.Pairwise.imp_of_mem ?_ hf
      intro a b' ha hb' hlt
      exact Kq_of_ts_gt q ((hfs b' hb').trans (hfs a ha).symm) hlt ho
    · rename_i ho
      refine List.Pairwise.imp_of_mem ?_ hf
      intro a b' ha hb' hlt
      exact Kq_of_ts_lt q ((hfs a ha).trans (hfs b' hb').symm) hlt ho

theorem cursorsOf_valid (q : Query) (parts : List (List Block)) (hv : ∀ p ∈ parts, ∀ b ∈ p, ValidBlock b)
    (h0 : ¬ (0 ∈ q.sids)) : ValidCursors q (cursorsOf q parts) := by
  intro c hc
  unfold cursorsOf at hc
  rw [List.mem_flatMap] at hc
  obtain ⟨p, hp, hc⟩ := hc
  rw [List.mem_filterMap] at hc
  obtain ⟨b, hb, hbc⟩ := hc
  exact cursor_of_block_valid q b (hv p hp b hb) h0 c hbc

theorem mem_cursorsOf_flatten (q : Query) (parts : List (List Block)) (hv : ∀ p ∈ parts, ∀ b ∈ p, ValidBlock b) :
    ∀ x, x ∈ (cursorsOf q parts).flatten ↔ x ∈ covered q (parts.flatMap rowsOf) := by
  intro x
  unfold cursorsOf covered
  simp only [List.mem_flatten, List.mem_flatMap, List.mem_filterMap, List.mem_filter, rowsOf]
  constructor
  · rintro ⟨c, ⟨p, hp, b, hb, hbc⟩, hx⟩
    obtain ⟨hsid, _, hmemc, _⟩ := mem_blockCursor hbc
    have hxr := List.mem_filter.1 ((hmemc x).1 hx)
    refine ⟨⟨p, hp, b, hb, hxr.1⟩, ?_⟩
    rw [(hv p hp b hb).sid x hxr.1]
    have := hxr.2
    simp only [Bool.and_eq_true] at this ⊢
    exact ⟨⟨hsid, this.1⟩, this.2⟩
  · rintro ⟨⟨p, hp, b, hb, hxb⟩, hq⟩
    have hsx := (hv p hp b hb).sid x hxb
    simp only [Bool.and_eq_true] at hq
    have hsid : q.sids.contains b.sid = true := by rw [← hsx]; exact hq.1.1
    have hin : x ∈ rangeRows q b := by
      unfold rangeRows
      rw [List.mem_filter]
      simp only [Bool.and_eq_true]
      exact ⟨hxb, hq.1.2, hq.2⟩
    have hne : dirRows q b ≠ [] := by
      intro h
      have := (mem_dirRows q b x).2 hin
      rw [h] at this; simp at this
    have hbc : blockCursor q b = some (dirRows q b) := by
      unfold blockCursor; rw [if_pos hsid, if_neg hne]
    exact ⟨dirRows q b, ⟨p, hp, b, hb, hbc⟩, (mem_dirRows q b x).2 hin⟩

/-- the query over a list of parts (all blocks valid): a version resolution of what the parts hold
    inside the query, in the requested order -/
theorem queryParts_spec (q : Query) (parts : List (List Block)) (hv : ∀ p ∈ parts, ∀ b ∈ p, ValidBlock b)
    (h0 : ¬ (0 ∈ q.sids)) :
    IsResolution (covered q (parts.flatMap rowsOf)) (queryParts q parts) ∧ (queryParts q parts).Pairwise (Kq q) := by
  have hvc := cursorsOf_valid q parts hv h0
  have hmc := minIdx_minChoice q
  unfold queryParts
  simp only []
  rw [pullAll_eq hmc _ _ (totalRows (cursorsOf q parts)) hvc (by omega) (Nat.le_refl _)]
  have hsorted := popAll_sorted hmc (totalRows (cursorsOf q parts)) _ hvc
  have hsub := popAll_subset (q := q) (minIdx q) (totalRows (cursorsOf q parts)) (cursorsOf q parts)
  have hcomp := popAll_complete hmc (totalRows (cursorsOf q parts)) _ hvc (Nat.le_refl _)
  have hsid : ∀ y ∈ popAll (minIdx q) (totalRows (cursorsOf q parts)) (cursorsOf q parts), y.sid ∈ q.sids := by
    intro y hy
    obtain ⟨c, hc, hyc⟩ := List.mem_flatten.1 (hsub y hy)
    exact ((hvc c hc).sids y hyc).2
  have hks : KSorted (Kq q) (popAll (minIdx q) (totalRows (cursorsOf q parts)) (cursorsOf q parts)) := by
    unfold KSorted
    refine List.Pairwise.imp_of_mem ?_ hsorted
    intro a b ha hb h
    exact not_rowLess q (hsid a ha) (hsid b hb) h
  obtain ⟨hres, hord⟩ := keepLoop_isResolution (Kq_trans q) (Kq_not_same q) _ hks
  refine ⟨?_, hord⟩
  rw [isResolution_iff] at hres ⊢
  refine ⟨Refines.of_mem_iff (fun x => ?_) (fun _ => Iff.rfl) hres.1, hres.2⟩
  rw [← mem_cursorsOf_flatten q parts hv]
  exact ⟨fun h => hsub x h, fun h => hcomp x h⟩

/-! ### table invariant -/

structure TInv (w : List Row) (t : Table) : Prop where
  valid : ∀ p ∈ t.parts, ∀ b ∈ p.blocks, ValidBlock b
  refines : Refines w t.rows
  labels : t.parts.Pairwise (fun a b => a.label ≠ b.label)
  below : ∀ p ∈ t.parts, p.label < t.next

theorem partMinMax_sound (p : Part) (hv : ∀ b ∈ p.blocks, ValidBlock b) :
    ∀ x ∈ partRows p, (partMinMax p).1 ≤ x.ts ∧ x.ts ≤ (partMinMax p).2 := by
  unfold partMinMax partRows
  cases hb : p.blocks with
  | nil => intro x hx; simp at hx
  | cons b bs =>
    simp only []
    have key : ∀ (bs : List Block) (m : Int × Int) (acc : List Block),
        (∀ b ∈ acc, ∀ x ∈ b.rows, m.1 ≤ x.ts ∧ x.ts ≤ m.2) → (∀ b ∈ bs, ValidBlock b) →
        ∀ b ∈ acc ++ bs, ∀ x ∈ b.rows,
          (bs.foldl (fun (m : Int × Int) x => (min m.1 x.bmMin, max m.2 x.bmMax)) m).1 ≤ x.ts ∧
          x.ts ≤ (bs.foldl (fun (m : Int × Int) x => (min m.1 x.bmMin, max m.2 x.bmMax)) m).2 := by
      intro bs
      induction bs with
      | nil => intro m acc h _ b hb; simpa using h b (by simpa using hb)
      | cons c cs ih =>
        intro m acc h hvs b' hb'
        simp only [List.foldl_cons]
        have := ih (min m.1 c.bmMin, max m.2 c.bmMax) (acc ++ [c]) ?_ (fun b hb => hvs b (List.mem_cons_of_mem _ hb)) b'
          (by simpa using hb')
        · exact this
        · intro b'' hb'' x hx
          rcases List.mem_append.1 hb'' with hb'' | hb''
          · have := h b'' hb'' x hx
            simp only []
            omega
          · simp at hb''; subst hb''
            have hvc := hvs b'' List.mem_cons_self
            have h1 := hvc.lo x hx
            have h2 := hvc.hi x hx
            simp only []
            omega
    intro x hx
    rw [List.mem_flatMap] at hx
    obtain ⟨b', hb', hxb⟩ := hx
    have hvb := hv b (by rw [hb]; exact List.mem_cons_self)
    exact key bs (b.bmMin, b.bmMax) [b]
      (fun b'' hb'' x hx => by simp at hb''; subst hb''; exact ⟨hvb.lo x hx, hvb.hi x hx⟩)
      (fun b'' hb'' => hv b'' (by rw [hb]; exact List.mem_cons_of_mem _ hb'')) b' (by simpa using hb') x hxb

/-- the columnar read path (`PullBatch`, repaired batch cut) returns the rows of the row path -/
theorem queryPartsBatch_eq (cfg : Cfg) (hb : cfg.batchFinishRun = true) (hm : 0 < cfg.batchRows) (q : Query)
    (parts : List (List Block)) (hv : ∀ p ∈ parts, ∀ b ∈ p, ValidBlock b) (h0 : ¬ (0 ∈ q.sids)) :
    queryPartsBatch cfg q parts = queryParts q parts := by
  unfold queryPartsBatch queryParts
  simp only []
  rw [hb]
  exact pullAllBatch_eq_pullAll (minIdx_minChoice q) hm _ (cursorsOf_valid q parts hv h0)

theorem tableQueryBatch_eq (cfg : Cfg) (hb : cfg.batchFinishRun = true) (hm : 0 < cfg.batchRows) (t : Table) (q : Query)
    (hv : ∀ p ∈ t.parts, ∀ b ∈ p.blocks, ValidBlock b) (h0 : ¬ (0 ∈ q.sids)) :
    t.queryBatch cfg q = t.query q := by
  unfold Table.queryBatch Table.query
  simp only []
  refine queryPartsBatch_eq cfg hb hm q _ ?_ h0
  intro bl hbl b hb'
  rw [List.mem_map] at hbl
  obtain ⟨p, hp, rfl⟩ := hbl
  exact hv p (List.mem_filter.1 hp).1 b hb'

/-- `Table.query`: resolution of the covered part of the table content, in query order -/
theorem tableQuery_spec (t : Table) (q : Query) (hv : ∀ p ∈ t.parts, ∀ b ∈ p.blocks, ValidBlock b)
    (h0 : ¬ (0 ∈ q.sids)) :
    IsResolution (covered q t.rows) (t.query q) ∧ (t.query q).Pairwise (Kq q) := by
  unfold Table.query
  simp only []
  have hsel : ∀ p ∈ (t.parts.filter fun p => !(decide (q.tmax < (partMinMax p).1) || decide (q.tmin > (partMinMax p).2))).map (·.blocks),
      ∀ b ∈ p, ValidBlock b := by
    intro bl hbl b hb
    rw [List.mem_map] at hbl
    obtain ⟨p, hp, rfl⟩ := hbl
    exact hv p (List.mem_filter.1 hp).1 b hb
  have hq := queryParts_spec q _ hsel h0
  refine ⟨?_, hq.2⟩
  have hres := hq.1
  rw [isResolution_iff] at hres ⊢
  refine ⟨Refines.of_mem_iff (fun x => ?_) (fun _ => Iff.rfl) hres.1, hres.2⟩
  -- dropping the parts outside the time range drops no covered row
  unfold covered Table.rows
  simp only [List.mem_filter, List.mem_flatMap, List.mem_map, rowsOf]
  constructor
  · rintro ⟨⟨bl, ⟨p, hp, rfl⟩, b, hb, hx⟩, hin⟩
    exact ⟨⟨p, hp.1, by unfold partRows; exact List.mem_flatMap.2 ⟨b, hb, hx⟩⟩, hin⟩
  · rintro ⟨⟨p, hp, hx⟩, hin⟩
    have hsound := partMinMax_sound p (hv p hp) x hx
    unfold partRows at hx
    obtain ⟨b, hb, hxb⟩ := List.mem_flatMap.1 hx
    refine ⟨⟨p.blocks, ⟨p, ⟨hp, ?_⟩, rfl⟩, b, hb, hxb⟩, hin⟩
    simp only [Bool.and_eq_true, decide_eq_true_eq] at hin
    simp only [Bool.not_eq_true', Bool.or_eq_false_iff, decide_eq_false_iff_not]
    omega

/-! ### transitions preserve the invariant -/

theorem dpLe_trans : ∀ a b c : Row, dpLe a b = true → dpLe b c = true → dpLe a c = true := by
  intro a b c h1 h2
  unfold dpLe at *
  simp only [Bool.not_eq_true'] at *
  rcases dpLess_false_iff.1 h1 with h1 | h1 <;> rcases dpLess_false_iff.1 h2 with h2 | h2
  · exact dpLess_false_iff.2 (Or.inl (keyLt_trans h1 h2))
  · refine dpLess_false_iff.2 (Or.inl ?_)
    unfold keyLt SameKey at *; omega
  · refine dpLess_false_iff.2 (Or.inl ?_)
    unfold keyLt SameKey at *; omega
  · exact dpLess_false_iff.2 (Or.inr ⟨h1.1.trans h2.1, by omega⟩)

theorem dpLe_total : ∀ a b : Row, (dpLe a b || dpLe b a) = true := by
  intro a b
  unfold dpLe
  cases h1 : dpLess b a <;> cases h2 : dpLess a b <;> simp
  -- both `Less`: impossible
  have e1 : ¬ (dpLess b a = false) := by rw [h1]; simp
  have e2 : ¬ (dpLess a b = false) := by rw [h2]; simp
  rw [dpLess_false_iff] at e1 e2
  unfold keyLt SameKey at *
  omega

theorem dpSorted_mergeSort (batch : List Row) : DpSorted (batch.mergeSort (fun a b => dpLe a b)) := by
  have := List.pairwise_mergeSort dpLe_trans dpLe_total batch
  unfold DpSorted
  refine this.imp ?_
  intro a b h
  unfold dpLe at h
  simpa using h

/-- `mustInitFromDataPoints` (repaired) on any `Less`-sorted permutation of the batch -/
theorem initFromSorted_spec (cfg : Cfg) (hfix : cfg.fixedInit = true) (batch sorted : List Row)
    (hperm : sorted.Perm batch) (hs : DpSorted sorted) :
    IsResolution batch (rowsOf (initFromSorted cfg sorted)) ∧ (∀ b ∈ initFromSorted cfg sorted, ValidBlock b) ∧
      rowsOf (initFromSorted cfg sorted) = keepLoop none sorted := by
  have hstep : initStep cfg = initStepFixed cfg := by unfold initStep; rw [if_pos hfix]
  have heq : initFromSorted cfg sorted = initFinish (sorted.foldl (initStepFixed cfg) {}) := by
    unfold initFromSorted initFinish; rw [hstep]
  have hfold := initFold_spec cfg sorted {} initInv_init hs (fun x hx => by simp at hx)
  rw [heq]
  have hrows : rowsOf (initFinish (sorted.foldl (initStepFixed cfg) {})) = keepLoop none sorted := by
    rw [hfold.1]; simp [rowsOf]
  refine ⟨?_, hfold.2, hrows⟩
  rw [hrows]
  have hres := (keepLoop_isResolution keyLt_trans' keyLt_not_same sorted hs.kSorted).1
  rw [isResolution_iff] at hres ⊢
  exact ⟨Refines.of_mem_iff (fun x => hperm.mem_iff) (fun _ => Iff.rfl) hres.1, hres.2⟩

theorem memPartBlocks_spec (cfg : Cfg) (hfix : cfg.fixedInit = true) (batch : List Row) :
    IsResolution batch (rowsOf (memPartBlocks cfg batch)) ∧ ∀ b ∈ memPartBlocks cfg batch, ValidBlock b := by
  have := initFromSorted_spec cfg hfix batch _ (List.mergeSort_perm batch _) (dpSorted_mergeSort batch)
  exact ⟨this.1, this.2.1⟩

theorem tableRows_append (ps : List Part) (p : Part) (n : Nat) :
    Table.rows { parts := ps ++ [p], next := n } = Table.rows { parts := ps, next := n } ++ partRows p := by
  simp [Table.rows]

theorem tinv_empty : TInv [] ({} : Table) :=
  ⟨by simp, by simpa [Table.rows] using Refines.refl [], by simp, by simp⟩

theorem tinv_introduce (cfg : Cfg) (hfix : cfg.fixedInit = true) (w : List Row) (t : Table) (batch : List Row)
    (h : TInv w t) : TInv (w ++ batch) (t.introduce cfg batch) := by
  unfold Table.introduce
  by_cases hb : batch = []
  · rw [if_pos hb]
    subst hb
    refine ⟨h.valid, by simpa [Table.rows] using h.refines, h.labels, fun p hp => Nat.lt_succ_of_lt (h.below p hp)⟩
  · rw [if_neg hb]
    obtain ⟨hres, hval⟩ := memPartBlocks_spec cfg hfix batch
    refine ⟨fun p hp b hbm => ?_, ?_, ?_, fun p hp => ?_⟩
    · rcases List.mem_append.1 hp with hp | hp
      · exact h.valid p hp b hbm
      · simp at hp; subst hp; exact hval b hbm
    · have : Refines batch (partRows { label := t.next, mem := true, blocks := memPartBlocks cfg batch }) := by
        rw [isResolution_iff] at hres; exact hres.1
      simp only [Table.rows, List.flatMap_append, List.flatMap_cons, List.flatMap_nil, List.append_nil]
      exact Refines.append h.refines this
    · rw [List.pairwise_append]
      refine ⟨h.labels, by simp, fun a ha b hb' => ?_⟩
      simp at hb'; subst hb'
      exact Nat.ne_of_lt (h.below a ha)
    · rcases List.mem_append.1 hp with hp | hp
      · exact Nat.lt_succ_of_lt (h.below p hp)
      · simp at hp; subst hp; exact Nat.lt_succ_self _

def flushPart (labels : List Nat) (p : Part) : Part :=
  if labels.contains p.label ∧ p.mem ∧ partRows p ≠ [] then { p with mem := false } else p

theorem flush_eq (t : Table) (labels : List Nat) :
    t.flush labels = { t with parts := t.parts.map (flushPart labels) } := rfl

theorem flushPart_blocks (labels : List Nat) (p : Part) : (flushPart labels p).blocks = p.blocks := by
  unfold flushPart; split <;> rfl

theorem flushPart_label (labels : List Nat) (p : Part) : (flushPart labels p).label = p.label := by
  unfold flushPart; split <;> rfl

theorem flush_rows (t : Table) (labels : List Nat) : (t.flush labels).rows = t.rows := by
  rw [flush_eq]
  unfold Table.rows
  simp only [List.flatMap_map]
  congr 1
  funext p
  unfold partRows
  rw [flushPart_blocks]

theorem tinv_flush (w : List Row) (t : Table) (labels : List Nat) (h : TInv w t) : TInv w (t.flush labels) := by
  refine ⟨fun p hp b hb => ?_, by rw [flush_rows]; exact h.refines, ?_, fun p hp => ?_⟩
  · rw [flush_eq] at hp
    simp only [List.mem_map] at hp
    obtain ⟨p0, hp0, rfl⟩ := hp
    rw [flushPart_blocks] at hb
    exact h.valid p0 hp0 b hb
  · rw [flush_eq]
    simp only []
    rw [List.pairwise_map]
    refine h.labels.imp ?_
    intro a b hab
    rw [flushPart_label, flushPart_label]; exact hab
  · rw [flush_eq] at hp
    simp only [List.mem_map] at hp
    obtain ⟨p0, hp0, rfl⟩ := hp
    rw [flushPart_label]; exact h.below p0 hp0

theorem find?_label_of_pairwise {ps : List Part} (hp : ps.Pairwise (fun a b => a.label ≠ b.label)) {p : Part}
    (hm : p ∈ ps) : ps.find? (fun x => decide (x.label = p.label)) = some p := by
  induction ps with
  | nil => simp at hm
  | cons a as ih =>
    have h2 := List.pairwise_cons.1 hp
    rcases List.mem_cons.1 hm with rfl | hm
    · simp
    · have hne : a.label ≠ p.label := h2.1 p hm
      simp only [List.find?_cons, hne, decide_false]
      exact ih h2.2 hm

theorem tinv_merge (cfg : Cfg) (w : List Row) (t : Table) (labels : List Nat) (h : TInv w t) :
    TInv w (t.merge cfg labels) := by
  unfold Table.merge
  simp only []
  split
  · exact ⟨h.valid, h.refines, h.labels, fun p hp => Nat.lt_succ_of_lt (h.below p hp)⟩
  · -- the chosen parts are exactly the parts whose label is listed
    have hchosen_mem : ∀ p, p ∈ labels.filterMap (fun l => t.parts.find? (fun x => decide (x.label = l))) ↔
        (p ∈ t.parts ∧ labels.contains p.label = true) := by
      intro p
      rw [List.mem_filterMap]
      constructor
      · rintro ⟨l, hl, hf⟩
        have hm := List.mem_of_find?_eq_some hf
        have hpl := List.find?_some hf
        simp at hpl
        refine ⟨hm, ?_⟩
        rw [hpl]; simpa using hl
      · rintro ⟨hm, hc⟩
        exact ⟨p.label, by simpa using hc, find?_label_of_pairwise h.labels hm⟩
    have hvalid_chosen : ∀ bl ∈ (labels.filterMap (fun l => t.parts.find? (fun x => decide (x.label = l)))).map (·.blocks),
        ∀ b ∈ bl, ValidBlock b := by
      intro bl hbl b hb
      rw [List.mem_map] at hbl
      obtain ⟨p, hp, rfl⟩ := hbl
      exact h.valid p ((hchosen_mem p).1 hp).1 b hb
    -- the stream handed to mergeBlocks enumerates the chosen blocks
    have hstream_mem : ∀ (parts : List (List Block)) (b : Block),
        b ∈ (if (blockStream parts).isPerm parts.flatten then blockStream parts else parts.flatten) ↔ b ∈ parts.flatten := by
      intro parts b
      split
      · rename_i hperm
        exact (List.isPerm_iff.1 hperm).mem_iff
      · exact Iff.rfl
    have hmv : ∀ parts : List (List Block), (∀ bl ∈ parts, ∀ b ∈ bl, ValidBlock b) →
        (∀ b ∈ mergeParts cfg parts, ValidBlock b) ∧ Refines (parts.flatMap rowsOf) (rowsOf (mergeParts cfg parts)) := by
      intro parts hv
      unfold mergeParts
      simp only []
      have hsv : ∀ b ∈ (if (blockStream parts).isPerm parts.flatten then blockStream parts else parts.flatten), ValidBlock b := by
        intro b hb
        obtain ⟨bl, hbl, hbb⟩ := List.mem_flatten.1 ((hstream_mem parts b).1 hb)
        exact hv bl hbl b hbb
      obtain ⟨_, h2, h3⟩ := mergeStream_inv cfg _ hsv
      refine ⟨h2, Refines.of_mem_iff (fun x => ?_) (fun _ => Iff.rfl) h3⟩
      simp only [rowsOf, List.mem_flatMap]
      constructor
      · rintro ⟨b, hb, hx⟩
        obtain ⟨bl, hbl, hbb⟩ := List.mem_flatten.1 ((hstream_mem parts b).1 hb)
        exact ⟨bl, hbl, b, hbb, hx⟩
      · rintro ⟨bl, hbl, b, hbb, hx⟩
        exact ⟨b, (hstream_mem parts b).2 (List.mem_flatten.2 ⟨bl, hbl, hbb⟩), hx⟩
    obtain ⟨hnv, hnr⟩ := hmv _ hvalid_chosen
    refine ⟨fun p hp b hb => ?_, ?_, ?_, fun p hp => ?_⟩
    · rcases List.mem_append.1 hp with hp | hp
      · exact h.valid p (List.mem_filter.1 hp).1 b hb
      · simp at hp; subst hp; exact hnv b hb
    · refine h.refines.trans ?_
      -- rows of the table = rows of the kept parts ++ rows of the chosen parts (as sets)
      have hsplit : Refines t.rows
          (Table.rows { parts := t.parts.filter (fun p => !labels.contains p.label), next := t.next } ++
            ((labels.filterMap (fun l => t.parts.find? (fun x => decide (x.label = l)))).map (·.blocks)).flatMap rowsOf) := by
        refine Refines.of_mem_iff (fun _ => Iff.rfl) (fun x => ?_) (Refines.refl t.rows)
        simp only [Table.rows, List.mem_append, List.mem_flatMap, List.mem_filter, List.mem_map, rowsOf]
        constructor
        · rintro ⟨p, hp, hx⟩
          by_cases hc : labels.contains p.label = true
          · right
            unfold partRows at hx
            obtain ⟨b, hb, hxb⟩ := List.mem_flatMap.1 hx
            exact ⟨p.blocks, ⟨p, (hchosen_mem p).2 ⟨hp, hc⟩, rfl⟩, b, hb, hxb⟩
          · left
            exact ⟨p, ⟨hp, by simpa using hc⟩, hx⟩
        · rintro (⟨p, ⟨hp, _⟩, hx⟩ | ⟨bl, ⟨p, hp, rfl⟩, b, hb, hxb⟩)
          · exact ⟨p, hp, hx⟩
          · refine ⟨p, ((hchosen_mem p).1 hp).1, ?_⟩
            unfold partRows
            exact List.mem_flatMap.2 ⟨b, hb, hxb⟩
      refine hsplit.trans ?_
      simp only [Table.rows, List.flatMap_append, List.flatMap_cons, List.flatMap_nil, List.append_nil]
      exact Refines.append (Refines.refl _) (by simpa [partRows, rowsOf] using hnr)
    · rw [List.pairwise_append]
      refine ⟨List.Pairwise.sublist (List.filter_sublist) h.labels, by simp, fun a ha b hb' => ?_⟩
      simp at hb'; subst hb'
      exact Nat.ne_of_lt (h.below a (List.mem_filter.1 ha).1)
    · rcases List.mem_append.1 hp with hp | hp
      · exact Nat.lt_succ_of_lt (h.below p (List.mem_filter.1 hp).1)
      · simp at hp; subst hp; exact Nat.lt_succ_self _

/-- every history keeps the invariant -/
theorem tinv_run (cfg : Cfg) (hfix : cfg.fixedInit = true) (ops : List Op) : TInv (written ops) (Table.run cfg ops) := by
  unfold Table.run
  have key : ∀ (ops : List Op) (w : List Row) (t : Table), TInv w t →
      TInv (w ++ written ops) (ops.foldl (Table.step cfg) t) := by
    intro ops
    induction ops with
    | nil => intro w t h; simpa [written] using h
    | cons op rest ih =>
      intro w t h
      simp only [List.foldl_cons]
      cases op with
      | batch rows =>
        have := ih (w ++ rows) (t.introduce cfg rows) (tinv_introduce cfg hfix w t rows h)
        simpa [written, opRows, Table.step, List.append_assoc] using this
      | flush ls =>
        have := ih w (t.flush ls) (tinv_flush w t ls h)
        simpa [written, opRows, Table.step] using this
      | merge ls =>
        have := ih w (t.merge cfg ls) (tinv_merge cfg w t ls h)
        simpa [written, opRows, Table.step] using this
  simpa using key ops [] {} tinv_empty

/-! ### the pinned (legacy) loop coincides with the repaired one away from the zero sentinels -/

/-- what links the zero sentinels of the pinned loop to the explicit flags of the repaired one -/
structure LegacyInv (st : InitSt) : Prop where
  sid : st.started = true ↔ st.sidPrev ≠ 0
  ts : st.cur = [] → st.tsPrev = 0

theorem initStepLegacy_eq_fixed (cfg : Cfg) (st : InitSt) (r : Row) (hi : InitInv st) (hl : LegacyInv st)
    (hs : r.sid ≠ 0) (ht : r.ts ≠ 0) :
    initStepLegacy cfg st r = initStepFixed cfg st r ∧ LegacyInv (initStepFixed cfg st r) := by
  have hsp : (if st.sidPrev = 0 then r.sid else st.sidPrev) = spOf st r := by
    unfold spOf
    by_cases h : st.started = true
    · have := hl.sid.1 h
      simp [h, this]
    · have h0 : st.sidPrev = 0 := by
        by_cases e : st.sidPrev = 0
        · exact e
        · exact absurd (hl.sid.2 e) h
      simp [h, h0]
  have hcond : (r.sid = spOf st r ∧ st.tsPrev = r.ts) ↔ (r.sid = spOf st r ∧ st.cur ≠ [] ∧ st.tsPrev = r.ts) := by
    constructor
    · rintro ⟨h1, h2⟩
      refine ⟨h1, ?_, h2⟩
      intro hc
      have := hl.ts hc
      rw [this] at h2
      exact ht h2.symm
    · rintro ⟨h1, _, h3⟩; exact ⟨h1, h3⟩
  have heq : initStepLegacy cfg st r = initStepFixed cfg st r := by
    unfold initStepLegacy initStepFixed
    simp only []
    rw [hsp]
    have : (if st.started = true then st.sidPrev else r.sid) = spOf st r := rfl
    rw [this]
    by_cases hc : r.sid = spOf st r ∧ st.tsPrev = r.ts
    · rw [if_pos hc, if_pos (hcond.1 hc)]
    · rw [if_neg hc, if_neg (fun h => hc (hcond.2 h))]
  refine ⟨heq, ?_⟩
  by_cases hskip : r.sid = spOf st r ∧ st.cur ≠ [] ∧ st.tsPrev = r.ts
  · rw [initStepFixed_skip cfg st r hskip]
    have hst := hi.started.2 hskip.2.1
    have : spOf st r = st.sidPrev := by simp [spOf, hst]
    refine ⟨?_, ?_⟩
    · simp only [this]; exact hl.sid
    · intro hc; exact absurd hc hskip.2.1
  · by_cases hsplit : st.size ≥ cfg.maxSize ∨ st.cur.length > cfg.maxLen ∨ r.sid ≠ spOf st r
    · rw [initStepFixed_split cfg st r hskip hsplit]
      unfold stSplit
      exact ⟨by simp [hs], by simp⟩
    · rw [initStepFixed_app cfg st r hskip hsplit]
      unfold stApp
      have hsid : r.sid = spOf st r := by
        by_cases h : r.sid = spOf st r
        · exact h
        · exact absurd (Or.inr (Or.inr h)) hsplit
      refine ⟨?_, by simp⟩
      simp only [true_iff]
      rw [← hsid]; exact hs

theorem initFold_legacy_eq (cfg : Cfg) : ∀ (rest : List Row) (st : InitSt), InitInv st → LegacyInv st →
    DpSorted rest → (∀ x ∈ st.cur, ∀ y ∈ rest, dpLess y x = false) → (∀ r ∈ rest, r.sid ≠ 0 ∧ r.ts ≠ 0) →
    rest.foldl (initStepLegacy cfg) st = rest.foldl (initStepFixed cfg) st := by
  intro rest
  induction rest with
  | nil => intros; rfl
  | cons r rest ih =>
    intro st hi hl hs hcur hnz
    simp only [List.foldl_cons]
    have hr := hnz r List.mem_cons_self
    obtain ⟨heq, hl'⟩ := initStepLegacy_eq_fixed cfg st r hi hl hr.1 hr.2
    rw [heq]
    unfold DpSorted at hs
    rw [List.pairwise_cons] at hs
    obtain ⟨hi', hcase⟩ := initStepFixed_spec cfg st r hi (fun x hx => hcur x hx r List.mem_cons_self)
    refine ih _ hi' hl' hs.2 ?_ (fun x hx => hnz x (List.mem_cons_of_mem _ hx))
    intro x hx y hy
    rcases hcase with ⟨l, _, _, hsame⟩ | ⟨_, _, hmem, _⟩
    · rw [hsame] at hx; exact hcur x hx y (List.mem_cons_of_mem _ hy)
    · rcases hmem x hx with rfl | hx
      · exact hs.1 y hy
      · exact hcur x hx y (List.mem_cons_of_mem _ hy)

/-- the pinned loop is correct as long as no series id and no timestamp is 0 -/
theorem initFromSorted_legacy_spec (cfg : Cfg) (hleg : cfg.fixedInit = false) (batch sorted : List Row)
    (hperm : sorted.Perm batch) (hs : DpSorted sorted) (hnz : ∀ r ∈ batch, r.sid ≠ 0 ∧ r.ts ≠ 0) :
    IsResolution batch (rowsOf (initFromSorted cfg sorted)) := by
  have hnz' : ∀ r ∈ sorted, r.sid ≠ 0 ∧ r.ts ≠ 0 := fun r hr => hnz r (hperm.mem_iff.1 hr)
  have hfold := initFold_legacy_eq cfg sorted {} initInv_init ⟨by simp, by simp⟩ hs (fun x hx => by simp at hx) hnz'
  have hstep : initStep cfg = initStepLegacy cfg := by unfold initStep; rw [hleg]; simp
  have h1 : initFromSorted cfg sorted = initFromSorted { cfg with fixedInit := true } sorted := by
    unfold initFromSorted
    rw [hstep]
    have : initStep { cfg with fixedInit := true } = initStepFixed cfg := by
      unfold initStep; simp only [if_true]; rfl
    rw [this, hfold]
  rw [h1]
  exact (initFromSorted_spec { cfg with fixedInit := true } rfl batch sorted hperm hs).1


end Banyan.Store
