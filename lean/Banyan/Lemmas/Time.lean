/-
Arithmetic lemmas for the Time layer (C06/C07): `floorDiv`, closed forms of
`IntervalRule.Standard/NextTime` in a fixed-offset zone.
-/
import Banyan.Model.Time

namespace Banyan.Time

theorem floorDiv_eq_ediv (a b : Int) (hb : 0 < b) : floorDiv a b = a / b := by
  unfold floorDiv
  have hbn : ¬ b < 0 := by omega
  by_cases h : 0 ≤ a ∨ b ∣ a
  · rw [Int.tdiv_eq_ediv, Int.tmod_eq_emod]
    simp only [h, if_true]
    rcases h with h | h
    · have : ¬ a < 0 := by omega
      simp [this, hbn]
    · have : a % b = 0 := Int.emod_eq_zero_of_dvd h
      simp [this]
  · rw [Int.tdiv_eq_ediv, Int.tmod_eq_emod]
    simp only [h, if_false]
    have ha : a < 0 := by omega
    have hs : b.sign = 1 := Int.sign_eq_one_of_pos hb
    have hlt : a % b < b := Int.emod_lt_of_pos a hb
    have hna : (b.natAbs : Int) = b := by omega
    have hne : a % b - (b.natAbs : Int) ≠ 0 := by omega
    simp [hne, ha, hbn, hs]

theorem ediv_eq_of_bounds (a b k : Int) (hb : 0 < b) (h1 : k * b ≤ a) (h2 : a < (k + 1) * b) :
    a / b = k := by
  have := (Int.le_ediv_iff_mul_le hb).2 h1
  have := (Int.ediv_lt_iff_lt_mul hb).2 h2
  omega

theorem IUnit.ns_pos (u : IUnit) : 0 < u.ns := by
  cases u <;> simp [IUnit.ns, hourNs, dayNs]

/-! ### fixed-offset zones -/

theorem dateInstant_const (c w : Int) : dateInstant (fun _ => c) w = w - c := by
  unfold dateInstant
  by_cases h : c = 0 <;> simp [h]

theorem wall_const (c t : Int) : wall (fun _ => c) t = t + c := rfl

theorem unitStandard_const (c : Int) (u : IUnit) (t : Int) :
    unitStandard (fun _ => c) u t = (t + c) / u.ns * u.ns - c := by
  simp [unitStandard, dateInstant_const, wall_const, truncTo]

/-- the bucket index computed by `Standard` (any unit): `m = ⌊(t+c)/u⌋`, bucket `⌊m/n⌋`. -/
theorem standard_const (c : Int) (u : IUnit) (n : Int) (hn : 1 ≤ n) (t : Int) :
    IntervalRule.standard (fun _ => c) ⟨u, n⟩ t = (t + c) / u.ns / n * n * u.ns - c := by
  unfold IntervalRule.standard
  by_cases h1 : n = 1
  · subst h1
    simp [unitStandard_const]
  · have hn0 : 0 < n := by omega
    simp only [h1, if_false, dateInstant_const, wall_const, truncTo]
    cases u with
    | day =>
      simp only [IUnit.ns]
      have e1 : (t + c) / dayNs * dayNs - c - (0 - c) + 12 * hourNs = hourNs * ((t + c) / dayNs * 24 + 12) := by
        simp only [dayNs, hourNs]; omega
      rw [e1, Int.mul_tdiv_cancel_left _ (by simp [hourNs] : hourNs ≠ 0),
        floorDiv_eq_ediv _ 24 (by omega), floorDiv_eq_ediv _ n hn0]
      have e2 : ((t + c) / dayNs * 24 + 12) / 24 = (t + c) / dayNs := by omega
      rw [e2]
    | hour =>
      simp only [IUnit.ns]
      have e1 : (t + c) / hourNs * hourNs - c - (0 - c) = (t + c) / hourNs * hourNs := by omega
      rw [e1, floorDiv_eq_ediv _ hourNs (by simp [hourNs]), Int.mul_ediv_cancel _ (by simp [hourNs] : hourNs ≠ 0),
        floorDiv_eq_ediv _ n hn0]

theorem nextTime_const (c : Int) (u : IUnit) (n t : Int) :
    IntervalRule.nextTime (fun _ => c) ⟨u, n⟩ t = t + n * u.ns := by
  unfold IntervalRule.nextTime
  cases u with
  | hour => simp [IUnit.ns, Int.mul_comm]
  | day => simp only [dateInstant_const, wall_const, IUnit.ns]; omega

theorem cell_bounds (a u n : Int) (hu : 0 < u) (hn : 0 < n) :
    a / u / n * n * u ≤ a ∧ a < (a / u / n + 1) * n * u := by
  have h1 : a / u * u ≤ a := Int.ediv_mul_le a (by omega)
  have h2 : a < (a / u + 1) * u := Int.lt_ediv_add_one_mul_self a hu
  have h3 : a / u / n * n ≤ a / u := Int.ediv_mul_le _ (by omega)
  have h4 : a / u < (a / u / n + 1) * n := Int.lt_ediv_add_one_mul_self _ hn
  constructor
  · exact Int.le_trans (Int.mul_le_mul_of_nonneg_right h3 (by omega)) h1
  · have h5 : (a / u + 1) * u ≤ (a / u / n + 1) * n * u :=
      Int.mul_le_mul_of_nonneg_right (by omega) (by omega)
    omega

theorem cell_unique (a u n k : Int) (hu : 0 < u) (hn : 0 < n)
    (h1 : k * n * u ≤ a) (h2 : a < (k + 1) * n * u) : a / u / n = k := by
  apply ediv_eq_of_bounds _ _ _ hn
  · exact (Int.le_ediv_iff_mul_le hu).2 h1
  · exact (Int.ediv_lt_iff_lt_mul hu).2 h2


/-- In a fixed-offset zone the cell of `t` is `[k·n·u − c, (k+1)·n·u − c)` with `k = ⌊⌊(t+c)/u⌋/n⌋`:
    it contains `t`, every instant of it is mapped to its start, and its end is the next cell's start. -/
theorem fixed_grid (c : Int) (u : IUnit) (n : Int) (hn : 1 ≤ n) (t : Int) :
    let z : Zone := fun _ => c
    let r : IntervalRule := ⟨u, n⟩
    r.standard z t ≤ t ∧ t < r.nextTime z (r.standard z t) ∧
    (∀ x, r.standard z t ≤ x → x < r.nextTime z (r.standard z t) → r.standard z x = r.standard z t) ∧
    r.standard z (r.nextTime z (r.standard z t)) = r.nextTime z (r.standard z t) := by
  intro z r
  have hu := u.ns_pos
  have hn0 : 0 < n := by omega
  simp only [z, r, standard_const c u n hn, nextTime_const]
  obtain ⟨b1, b2⟩ := cell_bounds (t + c) u.ns n hu hn0
  have e : ((t + c) / u.ns / n + 1) * n * u.ns = (t + c) / u.ns / n * n * u.ns + n * u.ns := by
    rw [Int.add_mul, Int.add_mul]; simp
  refine ⟨by omega, by omega, ?_, ?_⟩
  · intro x hx1 hx2
    have : (x + c) / u.ns / n = (t + c) / u.ns / n :=
      cell_unique _ _ _ _ hu hn0 (by omega) (by omega)
    rw [this]
  · have : ((t + c) / u.ns / n * n * u.ns - c + n * u.ns + c) / u.ns / n = (t + c) / u.ns / n + 1 := by
      apply cell_unique _ _ _ _ hu hn0
      · omega
      · have e2 : ((t + c) / u.ns / n + 1 + 1) * n * u.ns = ((t + c) / u.ns / n + 1) * n * u.ns + n * u.ns := by
          rw [Int.add_mul (_ + 1) 1, Int.add_mul _ _ u.ns]; simp
        have : 0 < n * u.ns := Int.mul_pos hn0 hu
        omega
    rw [this]; omega

end Banyan.Time
