/-
DAY rules in zones with DST: the hypothesis `DayRegular` ("local midnights exist, are found by
`time.Date`, delimit the calendar days, and the offset at midnight never differs from the 1970
offset by more than 11 h") and the grid facts that follow from it.
-/
import Banyan.Lemmas.Time

namespace Banyan.Time

/-- the instant `time.Date(y, m, d, 0, 0, 0, 0, loc)` yields for calendar day number `j`
    (days since 1970-01-01 on the zone's wall clock) -/
def midnight (z : Zone) (j : Int) : Int := dateInstant z (j * dayNs)

structure DayRegular (z : Zone) : Prop where
  /-- local midnight of every day exists and `time.Date` resolves to it -/
  wall_midnight : ∀ j, wall z (midnight z j) = j * dayNs
  /-- every instant lies between the midnight of its own calendar day and the next midnight -/
  day_cell : ∀ t, midnight z (wall z t / dayNs) ≤ t ∧ t < midnight z (wall z t / dayNs + 1)
  /-- the offset in force at any midnight is within 11 h of the offset at the 1970 anchor
      (this is what the `+12` in `IntervalRule.Standard` silently relies on) -/
  offset_bound : ∀ j, -(11 * hourNs) ≤ z (midnight z j) - z (midnight z 0) ∧
                      z (midnight z j) - z (midnight z 0) ≤ 11 * hourNs

namespace DayRegular
variable {z : Zone} (hz : DayRegular z)
include hz

theorem wall_div (j : Int) : wall z (midnight z j) / dayNs = j := by
  rw [hz.wall_midnight]; exact Int.mul_ediv_cancel _ (by simp [dayNs])

theorem lt_succ (j : Int) : midnight z j < midnight z (j + 1) := by
  have h := hz.day_cell (midnight z j)
  rw [hz.wall_div] at h
  omega

theorem lt_add_nat (j : Int) (k : Nat) : midnight z j < midnight z (j + (k + 1 : Nat)) := by
  induction k with
  | zero => simpa using hz.lt_succ j
  | succ k ih =>
    have := hz.lt_succ (j + (k + 1 : Nat))
    have e : j + ((k + 1 + 1 : Nat) : Int) = j + ((k + 1 : Nat) : Int) + 1 := by omega
    rw [e]; omega

theorem strictMono {a b : Int} (h : a < b) : midnight z a < midnight z b := by
  have e : b = a + (((b - a - 1).toNat + 1 : Nat) : Int) := by omega
  rw [e]; exact hz.lt_add_nat a _

theorem mono {a b : Int} (h : a ≤ b) : midnight z a ≤ midnight z b := by
  rcases Int.lt_or_eq_of_le h with h | h
  · exact Int.le_of_lt (hz.strictMono h)
  · rw [h]; exact Int.le_refl _

/-- an instant between two midnights has its calendar day between them -/
theorem day_between {a b t : Int} (h1 : midnight z a ≤ t) (h2 : t < midnight z b) :
    a ≤ wall z t / dayNs ∧ wall z t / dayNs < b := by
  have h := hz.day_cell t
  constructor
  · apply Int.not_lt.1
    intro hlt
    have := hz.mono (show wall z t / dayNs + 1 ≤ a by omega)
    omega
  · apply Int.not_le.1
    intro hle
    have := hz.mono hle
    omega

/-- `int64(todayMidnight.Sub(epochLocal).Hours()+12)` floor-divided by 24 is the day number -/
theorem days_eq (j : Int) :
    floorDiv (Int.tdiv (midnight z j - midnight z 0 + 12 * hourNs) hourNs) 24 = j := by
  have hj := hz.wall_midnight j
  have h0 := hz.wall_midnight 0
  have hb := hz.offset_bound j
  simp only [wall] at hj h0
  have key : ∀ v : Int, j * dayNs + hourNs ≤ v → v ≤ j * dayNs + 23 * hourNs →
      (v / hourNs + if 0 ≤ v ∨ hourNs ∣ v then 0 else 1) / 24 = j := by
    intro v h1 h2
    by_cases hc : 0 ≤ v ∨ hourNs ∣ v
    · rw [if_pos hc]; simp only [hourNs, dayNs] at *; omega
    · rw [if_neg hc]
      have hd : ¬ hourNs ∣ v := fun h => hc (Or.inr h)
      simp only [hourNs, dayNs] at *; omega
  rw [floorDiv_eq_ediv _ 24 (by omega), Int.tdiv_eq_ediv]
  have hs : hourNs.sign = 1 := by decide
  rw [hs]
  apply key
  · simp only [hourNs, dayNs] at *; omega
  · simp only [hourNs, dayNs] at *; omega

end DayRegular

/-! ### `IntervalRule.Standard/NextTime` for DAY rules in a regular zone -/

theorem standard_day {z : Zone} (hz : DayRegular z) (n : Int) (hn : 1 ≤ n) (t : Int) :
    IntervalRule.standard z ⟨.day, n⟩ t = midnight z (wall z t / dayNs / n * n) := by
  unfold IntervalRule.standard
  by_cases h1 : n = 1
  · subst h1
    simp [unitStandard, truncTo, IUnit.ns, midnight]
  · simp only [h1, if_false, truncTo]
    have e0 : dateInstant z 0 = midnight z 0 := by simp [midnight]
    have e1 : dateInstant z (wall z t / dayNs * dayNs) = midnight z (wall z t / dayNs) := rfl
    rw [e0, e1, hz.days_eq, floorDiv_eq_ediv _ n (by omega)]
    rfl

theorem nextTime_midnight {z : Zone} (hz : DayRegular z) (n j : Int) :
    IntervalRule.nextTime z ⟨.day, n⟩ (midnight z j) = midnight z (j + n) := by
  have h := hz.wall_midnight j
  simp only [IntervalRule.nextTime]
  rw [h, midnight, Int.add_mul]

/-- The grid facts for DAY rules of any `num ≥ 1` in a regular zone (days may be 23, 24, 25 h long). -/
theorem day_grid {z : Zone} (hz : DayRegular z) (n : Int) (hn : 1 ≤ n) (t : Int) :
    let r : IntervalRule := ⟨.day, n⟩
    r.standard z t ≤ t ∧ t < r.nextTime z (r.standard z t) ∧
    (∀ x, r.standard z t ≤ x → x < r.nextTime z (r.standard z t) → r.standard z x = r.standard z t) ∧
    r.standard z (r.nextTime z (r.standard z t)) = r.nextTime z (r.standard z t) := by
  intro r
  have hn0 : 0 < n := by omega
  simp only [r, standard_day hz n hn, nextTime_midnight hz]
  have hc := hz.day_cell t
  have k1 : wall z t / dayNs / n * n ≤ wall z t / dayNs := Int.ediv_mul_le _ (by omega)
  have k2 : wall z t / dayNs < (wall z t / dayNs / n + 1) * n := Int.lt_ediv_add_one_mul_self _ hn0
  have e : (wall z t / dayNs / n + 1) * n = wall z t / dayNs / n * n + n := by rw [Int.add_mul]; simp
  refine ⟨Int.le_trans (hz.mono k1) hc.1, ?_, ?_, ?_⟩
  · have := hz.mono (show wall z t / dayNs + 1 ≤ wall z t / dayNs / n * n + n by omega)
    omega
  · intro x hx1 hx2
    obtain ⟨d1, d2⟩ := hz.day_between hx1 hx2
    have : wall z x / dayNs / n = wall z t / dayNs / n :=
      ediv_eq_of_bounds _ _ _ hn0 d1 (by omega)
    rw [this]
  · rw [hz.wall_div]
    have : (wall z t / dayNs / n * n + n) / n = wall z t / dayNs / n + 1 :=
      ediv_eq_of_bounds _ _ _ hn0 (by omega) (by rw [Int.add_mul (_ + 1) 1]; omega)
    rw [this, e]

/-! ### instances -/

theorem dayRegular_const (c : Int) : DayRegular (fun _ => c) := by
  refine ⟨?_, ?_, ?_⟩
  · intro j; simp [midnight, dateInstant_const, wall_const]
  · intro t
    simp only [midnight, dateInstant_const, wall_const, dayNs]
    omega
  · intro j; simp [hourNs]

/-- A zone with the two 2024 transitions of America/New_York (EST −5 h until 2024-03-10T07:00Z,
    EDT −4 h until 2024-11-03T06:00Z, EST afterwards). -/
def nyLike : Zone := fun t =>
  if t < 1710054000000000000 then -18000000000000
  else if t < 1730613600000000000 then -14400000000000
  else -18000000000000

theorem nyLike_lt {t : Int} (h : t < 1710054000000000000) : nyLike t = -18000000000000 := by
  simp [nyLike, h]
theorem nyLike_mid {t : Int} (h1 : 1710054000000000000 ≤ t) (h2 : t < 1730613600000000000) : nyLike t = -14400000000000 := by
  have : ¬ t < 1710054000000000000 := by omega
  simp [nyLike, this, h2]
theorem nyLike_ge {t : Int} (h : 1730613600000000000 ≤ t) : nyLike t = -18000000000000 := by
  have h1 : ¬ t < 1710054000000000000 := by omega
  have h2 : ¬ t < 1730613600000000000 := by omega
  simp [nyLike, h1, h2]

/-- local midnight of day `j` in `nyLike`: EDT midnights are the days 19793 … 193030 -/
theorem nyLike_midnight (j : Int) :
    midnight nyLike j = if j ≤ 19792 then j * dayNs + 18000000000000
      else if j ≤ 20030 then j * dayNs + 14400000000000
      else j * dayNs + 18000000000000 := by
  unfold midnight dateInstant
  by_cases h1 : j ≤ 19792
  · rw [if_pos h1]
    have a : nyLike (j * dayNs) = -18000000000000 := nyLike_lt (by simp only [dayNs]; omega)
    have b : nyLike (j * dayNs - -18000000000000) = -18000000000000 := nyLike_lt (by simp only [dayNs]; omega)
    simp only [a, b]; simp
  · rw [if_neg h1]
    by_cases h2 : j ≤ 20030
    · rw [if_pos h2]
      have a : nyLike (j * dayNs) = -14400000000000 := nyLike_mid (by simp only [dayNs]; omega) (by simp only [dayNs]; omega)
      have b : nyLike (j * dayNs - -14400000000000) = -14400000000000 := nyLike_mid (by simp only [dayNs]; omega) (by simp only [dayNs]; omega)
      simp only [a, b]; simp
    · rw [if_neg h2]
      have a : nyLike (j * dayNs) = -18000000000000 := nyLike_ge (by simp only [dayNs]; omega)
      have b : nyLike (j * dayNs - -18000000000000) = -18000000000000 := nyLike_ge (by simp only [dayNs]; omega)
      simp only [a, b]; simp


theorem nyLike_at_midnight (j : Int) :
    nyLike (midnight nyLike j) = if j ≤ 19792 then -18000000000000 else if j ≤ 20030 then -14400000000000 else -18000000000000 := by
  rw [nyLike_midnight]
  by_cases h1 : j ≤ 19792
  · simp only [if_pos h1]; exact nyLike_lt (by simp only [dayNs]; omega)
  · simp only [if_neg h1]
    by_cases h2 : j ≤ 20030
    · simp only [if_pos h2]; exact nyLike_mid (by simp only [dayNs]; omega) (by simp only [dayNs]; omega)
    · simp only [if_neg h2]; exact nyLike_ge (by simp only [dayNs]; omega)

theorem dayRegular_nyLike : DayRegular nyLike := by
  refine ⟨?_, ?_, ?_⟩
  · intro j
    simp only [wall]
    rw [nyLike_at_midnight, nyLike_midnight]
    split <;> (try split) <;> omega
  · intro t
    have cell : ∀ off : Int, off = -18000000000000 ∨ off = -14400000000000 →
        ∀ q : Int, q * dayNs ≤ t + off → t + off < (q + 1) * dayNs →
        (off = -18000000000000 → t < 1710054000000000000 ∨ 1730613600000000000 ≤ t) →
        (off = -14400000000000 → 1710054000000000000 ≤ t ∧ t < 1730613600000000000) →
        midnight nyLike q ≤ t ∧ t < midnight nyLike (q + 1) := by
      intro off ho q b1 b2 r1 r2
      rw [nyLike_midnight, nyLike_midnight]
      constructor <;> split <;> (try split) <;> (simp only [dayNs] at *; omega)
    have hd : (0 : Int) < dayNs := by simp [dayNs]
    simp only [wall]
    by_cases h1 : t < 1710054000000000000
    · rw [nyLike_lt h1]
      exact cell _ (Or.inl rfl) _ (Int.ediv_mul_le _ (by omega)) (Int.lt_ediv_add_one_mul_self _ hd)
        (fun _ => Or.inl h1) (fun h => by omega)
    · by_cases h2 : t < 1730613600000000000
      · rw [nyLike_mid (by omega) h2]
        exact cell _ (Or.inr rfl) _ (Int.ediv_mul_le _ (by omega)) (Int.lt_ediv_add_one_mul_self _ hd)
          (fun h => by omega) (fun _ => ⟨by omega, h2⟩)
      · rw [nyLike_ge (by omega)]
        exact cell _ (Or.inl rfl) _ (Int.ediv_mul_le _ (by omega)) (Int.lt_ediv_add_one_mul_self _ hd)
          (fun _ => Or.inr (by omega)) (fun h => by omega)
  · intro j
    simp only [nyLike_at_midnight, hourNs]
    split <;> (try split) <;> simp

end Banyan.Time
