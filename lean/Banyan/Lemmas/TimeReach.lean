/-
Reachability machinery for C06 `partition_reachable`: the laws a family of grids (one per interval
number) must satisfy, the operation semantics, and the lemmas showing that `reopen` reproduces a
well-formed list.
-/
import Banyan.Lemmas.TimeSeg

namespace Banyan.C06
open Banyan.Time

/-- What the controller needs of the rules `G n = (Standard, NextTime, key)` for interval number `n`
    (the unit is fixed, `updateOptions` refuses to change it), of the set of unit-aligned instants and
    of `rp = parse ∘ format`. -/
structure GridLaws (G : Int → Grid) (aligned : Int → Prop) (rp : Int → Int) : Prop where
  std_le : ∀ n, 1 ≤ n → ∀ t, (G n).std t ≤ t
  lt_next : ∀ n, 1 ≤ n → ∀ t, t < (G n).next ((G n).std t)
  std_aligned : ∀ n, 1 ≤ n → ∀ t, aligned ((G n).std t)
  next_aligned : ∀ n, 1 ≤ n → ∀ t, aligned t → aligned ((G n).next t)
  key_lt : ∀ n a b, aligned a → aligned b → a < b → (G n).key a < (G n).key b
  rp_id : ∀ a, aligned a → rp a = a

/-- controller state: current interval number and the segment list -/
structure St where
  num : Int
  lst : List Seg

inductive Op where
  /-- `CreateSegmentIfNotExist(ts)` (also what the rotation tick does) -/
  | create (ts : Int)
  /-- `UpdateOptions` with a new interval number (same unit) -/
  | setInterval (n : Int)
  /-- close + `OpenTSDB` -/
  | reopen

def step (G : Int → Grid) (rp : Int → Int) (s : St) : Op → St
  | .create ts =>
    match create (G s.num) s.lst ts with
    | .created _ l => { s with lst := l }
    | _ => s
  | .setInterval n => if 1 ≤ n then { s with num := n } else s
  | .reopen => { s with lst := reopen (G s.num) rp s.lst }

def run (G : Int → Grid) (rp : Int → Int) (s : St) (ops : List Op) : St :=
  ops.foldl (step G rp) s

/-- sorted/disjoint, every boundary unit-aligned, end persisted, no pins, after the epoch -/
def Inv (aligned : Int → Prop) (s : St) : Prop :=
  1 ≤ s.num ∧ SegsOK s.lst ∧
  ∀ x ∈ s.lst, aligned x.start ∧ aligned x.end_ ∧ x.metaEnd = some x.end_ ∧ x.ref = 0 ∧ 0 < x.start

theorem segsOK_unique {lst : List Seg} (hok : SegsOK lst) {x y : Seg} (hx : x ∈ lst) (hy : y ∈ lst)
    {ts : Int} (hx1 : x.start ≤ ts) (hx2 : ts < x.end_) (hy1 : y.start ≤ ts) (hy2 : ts < y.end_) : y = x := by
  induction lst with
  | nil => cases hx
  | cons s rest ih =>
    have hp := List.pairwise_cons.1 hok.1
    rcases List.mem_cons.1 hx with rfl | hx' <;> rcases List.mem_cons.1 hy with rfl | hy'
    · rfl
    · have := hp.1 y hy'; omega
    · have := hp.1 x hx'; omega
    · exact ih ⟨hp.2, fun z hz => hok.2 z (List.mem_cons_of_mem _ hz)⟩ hx' hy'

/-! ### `reopen` reproduces a well-formed list -/

theorem insertByStart_head (x : Int × Option Int) (l : List (Int × Option Int))
    (h : ∀ y ∈ l, x.1 < y.1) : insertByStart x l = x :: l := by
  cases l with
  | nil => rfl
  | cons y r => simp [insertByStart, h y (List.mem_cons_self ..)]

theorem sortByStart_sorted (l : List (Int × Option Int)) (h : l.Pairwise (fun a b => a.1 < b.1)) :
    sortByStart l = l := by
  induction l with
  | nil => rfl
  | cons x r ih =>
    have hp := List.pairwise_cons.1 h
    simp only [sortByStart, List.foldr_cons] at ih ⊢
    rw [ih hp.2]
    exact insertByStart_head x r hp.1

theorem loadEnds_id (next : Int → Int) (lst : List Seg)
    (h : ∀ x ∈ lst, x.metaEnd = some x.end_ ∧ x.ref = 0 ∧ 0 < x.start) :
    loadEnds next (lst.map fun s => (s.start, s.metaEnd)) = lst := by
  induction lst with
  | nil => rfl
  | cons s rest ih =>
    obtain ⟨h1, h2, h3⟩ := h s (List.mem_cons_self ..)
    have hs : ¬ s.start ≤ 0 := by omega
    have es : ({ start := s.start, end_ := s.end_, metaEnd := s.metaEnd, ref := 0 } : Seg) = s := by
      cases s; simp_all
    cases rest with
    | nil =>
      simp only [List.map, loadEnds, hs, if_false, h1, Option.getD_some]
      rw [← h1, es]
    | cons s' rest' =>
      have ih' := ih (fun x hx => h x (List.mem_cons_of_mem _ hx))
      simp only [List.map] at ih' ⊢
      simp only [loadEnds, hs, if_false, h1, Option.getD_some]
      rw [ih', ← h1, es]

theorem insertSeg_append (g : Grid) (n : Seg) (acc : List Seg)
    (h : ∀ x ∈ acc, ¬ g.key n.start < g.key x.start) : insertSeg g n acc = acc ++ [n] := by
  induction acc with
  | nil => rfl
  | cons a r ih =>
    simp only [insertSeg, h a (List.mem_cons_self ..), if_false, List.cons_append]
    rw [ih (fun x hx => h x (List.mem_cons_of_mem _ hx))]

theorem foldl_insertSeg_sorted (g : Grid) (l : List Seg) :
    ∀ acc : List Seg, (acc ++ l).Pairwise (fun a b => g.key a.start < g.key b.start) →
    l.foldl (fun acc s => insertSeg g s acc) acc = acc ++ l := by
  induction l with
  | nil => intro acc _; simp
  | cons s rest ih =>
    intro acc hp
    simp only [List.foldl_cons]
    have hp' := List.pairwise_append.1 hp
    have hins : insertSeg g s acc = acc ++ [s] := by
      apply insertSeg_append
      intro x hx
      have := hp'.2.2 x hx s (List.mem_cons_self ..)
      omega
    rw [hins, ih (acc ++ [s]) (by simpa using hp)]
    simp

theorem reopen_id {G : Int → Grid} {aligned : Int → Prop} {rp : Int → Int}
    (laws : GridLaws G aligned rp) (s : St) (hinv : Inv aligned s) :
    reopen (G s.num) rp s.lst = s.lst := by
  obtain ⟨hn, hok, hal⟩ := hinv
  unfold reopen
  have e1 : (s.lst.map fun x => (rp x.start, x.metaEnd)) = s.lst.map fun x => (x.start, x.metaEnd) := by
    apply List.map_congr_left
    intro x hx
    rw [laws.rp_id _ (hal x hx).1]
  have hsorted : (s.lst.map fun x => (x.start, x.metaEnd)).Pairwise (fun a b => a.1 < b.1) := by
    rw [List.pairwise_map]
    apply List.Pairwise.imp_of_mem _ hok.1
    intro a b ha _ hab
    have := hok.2 a ha
    simp only
    omega
  simp only [e1, sortByStart_sorted _ hsorted]
  rw [loadEnds_id _ _ (fun x hx => ⟨(hal x hx).2.2.1, (hal x hx).2.2.2.1, (hal x hx).2.2.2.2⟩)]
  have := foldl_insertSeg_sorted (G s.num) s.lst [] (by
    simp only [List.nil_append]
    apply List.Pairwise.imp_of_mem _ hok.1
    intro a b ha hb hab
    have := hok.2 a ha
    exact laws.key_lt _ _ _ (hal a ha).1 (hal b hb).1 (by omega))
  simpa using this

end Banyan.C06
