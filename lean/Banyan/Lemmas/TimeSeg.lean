/-
Lemmas about the ordered segment list (C06/C07): `Contains` for half-open segments, the scans of
`create`, ordered insertion, `selectSegments`.
-/
import Banyan.Model.C06

namespace Banyan.C06
open Banyan.Time

/-- the list invariant: ascending, pairwise disjoint, non-empty half-open ranges -/
def SegsOK (lst : List Seg) : Prop :=
  lst.Pairwise (fun a b => a.end_ ≤ b.start) ∧ ∀ s ∈ lst, s.start < s.end_

theorem contains_iff (s : Seg) (h : s.start < s.end_) (x : Int) :
    s.range.contains x = true ↔ s.start ≤ x ∧ x < s.end_ := by
  simp only [Seg.range, TimeRange.contains]
  by_cases h1 : s.start = x
  · simp only [h1, if_true, true_iff]; omega
  · by_cases h2 : s.end_ = x
    · simp only [h1, h2, if_true, if_false]
      constructor
      · intro hf; cases hf
      · intro hf; omega
    · simp only [h1, h2, if_false]
      simp only [Bool.and_eq_true, Bool.not_eq_true']
      constructor
      · rintro ⟨h3, h4⟩
        have h3' := of_decide_eq_false h3
        have h4' := of_decide_eq_false h4
        omega
      · rintro ⟨h3, h4⟩; exact ⟨decide_eq_false (by omega), decide_eq_false (by omega)⟩

theorem findContaining_none {lst : List Seg} {ts : Int} (h : findContaining lst ts = none) :
    ∀ s ∈ lst, s.range.contains ts = false := by
  intro s hs
  have := List.find?_eq_none.1 h s (List.mem_reverse.2 hs)
  simpa using this

theorem findContaining_some {lst : List Seg} {ts : Int} {s : Seg} (h : findContaining lst ts = some s) :
    s ∈ lst ∧ s.range.contains ts = true :=
  ⟨List.mem_reverse.1 (List.mem_of_find?_eq_some h), by simpa using List.find?_some h⟩

theorem capScan_spec (ts : Int) (lst : List Seg) :
    ∀ (st en : Int), (∀ s ∈ lst, ts < s.end_ → ts < s.start) →
    st ≤ (capScan ts lst st en).1 ∧ (capScan ts lst st en).2 ≤ en ∧
    ((capScan ts lst st en).1 = st ∨ ∃ x ∈ lst, x.end_ = (capScan ts lst st en).1) ∧
    ((capScan ts lst st en).2 = en ∨ ∃ x ∈ lst, x.start = (capScan ts lst st en).2) ∧
    (∀ x ∈ lst, x.end_ ≤ ts → x.end_ ≤ (capScan ts lst st en).1) ∧
    (∀ x ∈ lst, ts < x.end_ → (capScan ts lst st en).2 ≤ x.start) ∧
    (st ≤ ts → (capScan ts lst st en).1 ≤ ts) ∧ (ts < en → ts < (capScan ts lst st en).2) := by
  induction lst with
  | nil => intro st en _; simp [capScan]
  | cons s rest ih =>
    intro st en hno
    have hrest : ∀ x ∈ rest, ts < x.end_ → ts < x.start := fun x hx => hno x (List.mem_cons_of_mem _ hx)
    have hs := hno s (List.mem_cons_self ..)
    simp only [capScan]
    by_cases hc : s.end_ > ts
    · -- `s` lies wholly after `ts`: cap the end
      simp only [hc, not_true, if_false]
      have hst := hs hc
      obtain ⟨e', he, e1, e2, e3⟩ : ∃ e', (if s.start < en then s.start else en) = e' ∧ e' ≤ en ∧ e' ≤ s.start ∧
          (e' = s.start ∨ e' = en) := by
        by_cases hlt : s.start < en
        · exact ⟨s.start, by simp [hlt], by omega, by omega, Or.inl rfl⟩
        · exact ⟨en, by simp [hlt], by omega, by omega, Or.inr rfl⟩
      rw [he]
      obtain ⟨a1, a2, a3, a4, a5, a6, a7, a8⟩ := ih st e' hrest
      refine ⟨a1, by omega, ?_, ?_, ?_, ?_, a7, ?_⟩
      · rcases a3 with h | ⟨x, hx, h⟩
        · exact Or.inl h
        · exact Or.inr ⟨x, List.mem_cons_of_mem _ hx, h⟩
      · rcases a4 with h | ⟨x, hx, h⟩
        · rcases e3 with e3 | e3
          · exact Or.inr ⟨s, List.mem_cons_self .., by omega⟩
          · exact Or.inl (by omega)
        · exact Or.inr ⟨x, List.mem_cons_of_mem _ hx, h⟩
      · intro x hx hxe
        rcases List.mem_cons.1 hx with rfl | hx
        · omega
        · exact a5 x hx hxe
      · intro x hx hxe
        rcases List.mem_cons.1 hx with rfl | hx
        · omega
        · exact a6 x hx hxe
      · intro hlt
        apply a8
        rcases e3 with e3 | e3 <;> omega
    · -- `s` lies wholly before `ts`: bump the start
      simp only [hc, not_false_eq_true, if_true]
      obtain ⟨b', hb, b1, b2, b3⟩ : ∃ b', (if s.end_ > st then s.end_ else st) = b' ∧ st ≤ b' ∧ s.end_ ≤ b' ∧
          (b' = s.end_ ∨ b' = st) := by
        by_cases hgt : s.end_ > st
        · exact ⟨s.end_, by simp [hgt], by omega, by omega, Or.inl rfl⟩
        · exact ⟨st, by simp [hgt], by omega, by omega, Or.inr rfl⟩
      rw [hb]
      obtain ⟨a1, a2, a3, a4, a5, a6, a7, a8⟩ := ih b' en hrest
      refine ⟨by omega, a2, ?_, ?_, ?_, ?_, ?_, a8⟩
      · rcases a3 with h | ⟨x, hx, h⟩
        · rcases b3 with b3 | b3
          · exact Or.inr ⟨s, List.mem_cons_self .., by omega⟩
          · exact Or.inl (by omega)
        · exact Or.inr ⟨x, List.mem_cons_of_mem _ hx, h⟩
      · rcases a4 with h | ⟨x, hx, h⟩
        · exact Or.inl h
        · exact Or.inr ⟨x, List.mem_cons_of_mem _ hx, h⟩
      · intro x hx hxe
        rcases List.mem_cons.1 hx with rfl | hx
        · omega
        · exact a5 x hx hxe
      · intro x hx hxe
        rcases List.mem_cons.1 hx with rfl | hx
        · omega
        · exact a6 x hx hxe
      · intro hle
        apply a7
        rcases b3 with b3 | b3 <;> omega

/-! ### ordered insertion -/

theorem mem_insertSeg (g : Grid) (n : Seg) (lst : List Seg) (x : Seg) :
    x ∈ insertSeg g n lst ↔ x = n ∨ x ∈ lst := by
  induction lst with
  | nil => simp [insertSeg]
  | cons s rest ih =>
    simp only [insertSeg]
    split
    · simp
    · simp only [List.mem_cons, ih]
      constructor
      · rintro (h | h | h)
        · exact Or.inr (Or.inl h)
        · exact Or.inl h
        · exact Or.inr (Or.inr h)
      · rintro (h | h | h)
        · exact Or.inr (Or.inl h)
        · exact Or.inl h
        · exact Or.inr (Or.inr h)

/-- the directory-name order agrees with the time order between the new start `y` and the list -/
def KeyOrd (g : Grid) (lst : List Seg) (y : Int) : Prop :=
  ∀ x ∈ lst, (x.end_ ≤ y → g.key x.start < g.key y) ∧ (y < x.start → g.key y < g.key x.start)

theorem insertSeg_ok (g : Grid) (n : Seg) (hn : n.start < n.end_) (lst : List Seg) (hok : SegsOK lst)
    (hdis : ∀ x ∈ lst, x.end_ ≤ n.start ∨ n.end_ ≤ x.start) (hk : KeyOrd g lst n.start) :
    SegsOK (insertSeg g n lst) := by
  induction lst with
  | nil =>
    refine ⟨by simp [insertSeg], ?_⟩
    intro s hs
    simp [insertSeg] at hs
    subst hs
    exact hn
  | cons s rest ih =>
    obtain ⟨hp, hne⟩ := hok
    have hp' := List.pairwise_cons.1 hp
    have hs_ne : s.start < s.end_ := hne s (List.mem_cons_self ..)
    have hks := hk s (List.mem_cons_self ..)
    have hds := hdis s (List.mem_cons_self ..)
    simp only [insertSeg]
    by_cases hlt : g.key n.start < g.key s.start
    · simp only [hlt, if_true]
      have hns : n.end_ ≤ s.start := by
        rcases hds with h | h
        · have := hks.1 h; omega
        · exact h
      refine ⟨List.pairwise_cons.2 ⟨?_, hp⟩, ?_⟩
      · intro x hx
        rcases List.mem_cons.1 hx with rfl | hx
        · exact hns
        · have := hp'.1 x hx; omega
      · intro x hx
        rcases List.mem_cons.1 hx with rfl | hx
        · exact hn
        · exact hne x hx
    · simp only [hlt, if_false]
      have hsn : s.end_ ≤ n.start := by
        rcases hds with h | h
        · exact h
        · have : n.start < s.start := by omega
          exact absurd (hks.2 this) hlt
      have ih' := ih ⟨hp'.2, fun x hx => hne x (List.mem_cons_of_mem _ hx)⟩
        (fun x hx => hdis x (List.mem_cons_of_mem _ hx)) (fun x hx => hk x (List.mem_cons_of_mem _ hx))
      refine ⟨List.pairwise_cons.2 ⟨?_, ih'.1⟩, ?_⟩
      · intro x hx
        rcases (mem_insertSeg g n rest x).1 hx with rfl | hx
        · exact hsn
        · exact hp'.1 x hx
      · intro x hx
        rcases List.mem_cons.1 hx with rfl | hx
        · exact hs_ne
        · exact ih'.2 x hx

end Banyan.C06
