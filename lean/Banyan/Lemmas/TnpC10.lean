/-
Helper lemmas for C10: the per-timestamp queue of the TopN post-processor (`topNPostProcessor.Put`).
-/
import Banyan.Model.C10
import Banyan.Lemmas.TopC10

namespace Banyan.C10

abbrev TnEntry.key (e : TnEntry) : String := e.2.1

/-- in-place update of the entry of entity `k`. -/
def tnUpd (k : String) (new : TnEntry) (l : List TnEntry) : List TnEntry :=
  l.map fun x => if x.2.1 == k then new else x

theorem tnUpd_length (k : String) (new : TnEntry) (l : List TnEntry) : (tnUpd k new l).length = l.length := by
  simp [tnUpd]

theorem tnUpd_keys (k : String) (new : TnEntry) (l : List TnEntry) (hk : new.2.1 = k) :
    (tnUpd k new l).map (·.2.1) = l.map (·.2.1) := by
  unfold tnUpd
  rw [List.map_map]
  apply List.map_congr_left
  intro x _
  by_cases c : x.2.1 = k
  · simp [c, hk]
  · simp [c]

theorem mem_tnUpd (k : String) (new : TnEntry) (l : List TnEntry) (x : TnEntry) :
    x ∈ tnUpd k new l ↔ (x = new ∧ ∃ y ∈ l, y.2.1 = k) ∨ (x ∈ l ∧ x.2.1 ≠ k) := by
  unfold tnUpd
  rw [List.mem_map]
  constructor
  · rintro ⟨y, hy, e⟩
    by_cases c : y.2.1 = k
    · simp [c] at e; exact Or.inl ⟨e.symm, y, hy, c⟩
    · simp [c] at e; subst e; exact Or.inr ⟨hy, c⟩
  · intro h
    cases h with
    | inl h => obtain ⟨rfl, y, hy, c⟩ := h; exact ⟨y, hy, by simp [c]⟩
    | inr h => exact ⟨x, h.1, by simp [h.2]⟩

/-- The latest-version entry of every entity seen so far (ghost state), updated by one arrival.
    `none`: the arrival is not *monotone* — a not-older version that makes the entity worse, or an older version
    that is better than the latest. (Smaller `okey` = better.) -/
def truthStep (asc : Bool) (T : List TnEntry) (k : String) (v ver : Int) : Option (List TnEntry) :=
  match T.find? (fun e => e.2.1 == k) with
  | none => some (T ++ [(v, (k, ver))])
  | some e =>
    if ver ≥ e.2.2 then
      if okey asc v ≤ okey asc e.1 then some (tnUpd k (v, (k, ver)) T) else none
    else
      if okey asc e.1 ≤ okey asc v then some T else none

/-- what `Put` maintains: every kept entry is the latest-version entry of its entity, entities are kept once,
    every entity that is not kept is no better than every kept one, and the queue is full unless it keeps all. -/
structure TnInv (n : Nat) (asc : Bool) (tl T : List TnEntry) : Prop where
  tnodup : (T.map (·.2.1)).Nodup
  sub : ∀ e ∈ tl, e ∈ T
  nodup : (tl.map (·.2.1)).Nodup
  dropped : ∀ t ∈ T, t ∉ tl → ∀ e ∈ tl, okey asc e.1 ≤ okey asc t.1
  len : tl.length ≤ n
  all : tl.length < n → ∀ t ∈ T, t ∈ tl

theorem tnInv_nil (n : Nat) (asc : Bool) : TnInv n asc [] [] :=
  ⟨by simp, by simp, by simp, by simp, by simp, by simp⟩

theorem key_inj_of_nodup (l : List TnEntry) (h : (l.map (·.2.1)).Nodup) (x y : TnEntry)
    (hx : x ∈ l) (hy : y ∈ l) (e : x.2.1 = y.2.1) : x = y := by
  induction l with
  | nil => simp at hx
  | cons a as ih =>
    rw [List.map_cons, List.nodup_cons] at h
    cases List.mem_cons.mp hx with
    | inl h1 =>
      cases List.mem_cons.mp hy with
      | inl h2 => rw [h1, h2]
      | inr h2 => subst h1; exact absurd (List.mem_map.mpr ⟨y, h2, e.symm⟩) h.1
    | inr h1 =>
      cases List.mem_cons.mp hy with
      | inl h2 => subst h2; exact absurd (List.mem_map.mpr ⟨x, h1, e⟩) h.1
      | inr h2 => exact ih h.2 h1 h2

theorem find_key_none (l : List TnEntry) (k : String) :
    l.find? (fun e => e.2.1 == k) = none ↔ ∀ x ∈ l, x.2.1 ≠ k := by
  rw [List.find?_eq_none]
  constructor
  · intro h x hx e; exact h x hx (by simp [e])
  · intro h x hx; simpa using h x hx

theorem find_key_some (l : List TnEntry) (k : String) (e : TnEntry)
    (h : l.find? (fun e => e.2.1 == k) = some e) : e ∈ l ∧ e.2.1 = k := by
  refine ⟨List.mem_of_find?_eq_some h, ?_⟩
  have := List.find?_some h
  simpa using this

/-- the branch of `Put` for an entity that is not in `items`. -/
def tnPutNew (n : Nat) (asc : Bool) (tl : List TnEntry) (new : TnEntry) : List TnEntry :=
  if tl.length < n then tl ++ [new]
  else
    match popRoot asc tl with
    | none => tl
    | some (low, rest) => if okey asc new.1 < okey asc low.1 then rest ++ [new] else tl

theorem tnPut_of_absent (n : Nat) (asc : Bool) (tl : List TnEntry) (k : String) (v ver : Int) (hn : 0 < n)
    (h : ∀ x ∈ tl, x.2.1 ≠ k) : tnPut n asc tl k v ver = tnPutNew n asc tl (v, (k, ver)) := by
  unfold tnPut tnPutNew
  rw [(find_key_none tl k).mpr h]
  simp only []
  have hc : (tl.isEmpty || decide (tl.length < n)) = decide (tl.length < n) := by
    cases tl with
    | nil => simp [hn]
    | cons a as => simp
  rw [hc]
  by_cases c : tl.length < n
  · simp [c]
  · simp only [c, decide_false, Bool.false_eq_true, if_false]
    cases hp : popRoot asc tl with
    | none => rfl
    | some p =>
      obtain ⟨low, rest⟩ := p
      simp only []
      have : (if asc then low.1 > v else low.1 < v) ↔ okey asc v < okey asc low.1 := by
        cases asc <;> simp [okey] <;> omega
      by_cases d : okey asc v < okey asc low.1
      · rw [if_pos (this.mpr d), if_pos d]
      · rw [if_neg (fun h => d (this.mp h)), if_neg d]

theorem tnInv_enqueue (n : Nat) (asc : Bool) (tl T T' : List TnEntry) (new : TnEntry) (hn : 0 < n)
    (inv : TnInv n asc tl T)
    (habs : ∀ x ∈ tl, x.2.1 ≠ new.2.1)
    (hT'nd : (T'.map (·.2.1)).Nodup)
    (hnew : new ∈ T')
    (hkeep : ∀ x ∈ T, x.2.1 ≠ new.2.1 → x ∈ T')
    (hT' : ∀ x ∈ T', x = new ∨ (x ∈ T ∧ x.2.1 ≠ new.2.1))
    (hfresh : tl.length < n → ∀ t ∈ T, t.2.1 ≠ new.2.1) :
    TnInv n asc (tnPutNew n asc tl new) T' := by
  have hnewtl : new ∉ tl := fun h => habs new h rfl
  unfold tnPutNew
  by_cases c : tl.length < n
  · rw [if_pos c]
    have hall := inv.all c
    refine ⟨hT'nd, ?_, ?_, ?_, ?_, ?_⟩
    · intro e he
      cases List.mem_append.mp he with
      | inl h => exact hkeep e (inv.sub e h) (habs e h)
      | inr h => simp at h; subst h; exact hnew
    · rw [List.map_append, List.nodup_append]
      refine ⟨inv.nodup, by simp, ?_⟩
      intro a ha b hb
      simp at hb; subst hb
      obtain ⟨x, hx, rfl⟩ := List.mem_map.mp ha
      exact habs x hx
    · intro t ht hnt e _
      exfalso
      apply hnt
      cases hT' t ht with
      | inl h => subst h; simp
      | inr h => exact List.mem_append_left _ (hall t h.1)
    · simp only [List.length_append, List.length_cons, List.length_nil]; omega
    · intro _ t ht
      cases hT' t ht with
      | inl h => subst h; simp
      | inr h => exact List.mem_append_left _ (hall t h.1)
  · rw [if_neg c]
    have hlen : tl.length = n := by have := inv.len; omega
    cases hp : popRoot asc tl with
    | none =>
      have : tl = [] := (popRoot_none asc tl).mp hp
      rw [this] at hlen; simp at hlen; omega
    | some p =>
      obtain ⟨low, rest⟩ := p
      simp only []
      have ⟨mperm, mmax⟩ := popRoot_spec asc tl low rest hp
      have hlow : low ∈ tl := mperm.mem_iff.mp (List.mem_cons_self ..)
      have hrl : rest.length + 1 = tl.length := by have := mperm.length_eq; simpa using this
      have hrest : ∀ x ∈ rest, x ∈ tl := fun x hx => mperm.mem_iff.mp (List.mem_cons_of_mem _ hx)
      by_cases d : okey asc new.1 < okey asc low.1
      · rw [if_pos d]
        have hknd : ((low :: rest).map (·.2.1)).Nodup := (mperm.map _).nodup_iff.mpr inv.nodup
        rw [List.map_cons, List.nodup_cons] at hknd
        refine ⟨hT'nd, ?_, ?_, ?_, ?_, ?_⟩
        · intro e he
          cases List.mem_append.mp he with
          | inl h => exact hkeep e (inv.sub e (hrest e h)) (habs e (hrest e h))
          | inr h => simp at h; subst h; exact hnew
        · rw [List.map_append, List.nodup_append]
          refine ⟨hknd.2, by simp, ?_⟩
          intro a ha b hb
          simp at hb; subst hb
          obtain ⟨x, hx, rfl⟩ := List.mem_map.mp ha
          exact habs x (hrest x hx)
        · intro t ht hnt e he
          have hte : t ≠ new := fun h => hnt (by rw [h]; simp)
          have htT : t ∈ T ∧ t.2.1 ≠ new.2.1 := by
            cases hT' t ht with
            | inl h => exact absurd h hte
            | inr h => exact h
          -- `t` is `low` or was dropped before
          have hbound : okey asc low.1 ≤ okey asc t.1 := by
            by_cases htl : t ∈ tl
            · have : t ∈ low :: rest := mperm.mem_iff.mpr htl
              cases List.mem_cons.mp this with
              | inl h => rw [h]; exact Int.le_refl _
              | inr h => exact absurd (List.mem_append_left _ h) hnt
            · exact inv.dropped t htT.1 htl low hlow
          cases List.mem_append.mp he with
          | inl h => have := mmax e (hrest e h); omega
          | inr h => simp at h; subst h; omega
        · simp only [List.length_append, List.length_cons, List.length_nil]; have := inv.len; omega
        · intro hlt
          simp only [List.length_append, List.length_cons, List.length_nil] at hlt; omega
      · rw [if_neg d]
        refine ⟨hT'nd, ?_, inv.nodup, ?_, inv.len, ?_⟩
        · intro e he; exact hkeep e (inv.sub e he) (habs e he)
        · intro t ht hnt e he
          cases hT' t ht with
          | inl h => subst h; have := mmax e he; omega
          | inr h => exact inv.dropped t h.1 hnt e he
        · intro hlt; omega

theorem tnInv_step (n : Nat) (asc : Bool) (tl T T' : List TnEntry) (k : String) (v ver : Int) (hn : 0 < n)
    (inv : TnInv n asc tl T) (hstep : truthStep asc T k v ver = some T') :
    TnInv n asc (tnPut n asc tl k v ver) T' := by
  unfold truthStep at hstep
  cases hf : T.find? (fun e => e.2.1 == k) with
  | none =>
    rw [hf] at hstep
    simp only [Option.some.injEq] at hstep
    subst hstep
    have hTk := (find_key_none T k).mp hf
    have habs : ∀ x ∈ tl, x.2.1 ≠ k := fun x hx => hTk x (inv.sub x hx)
    rw [tnPut_of_absent n asc tl k v ver hn habs]
    apply tnInv_enqueue n asc tl T _ (v, (k, ver)) hn inv habs
    · rw [List.map_append, List.nodup_append]
      refine ⟨inv.tnodup, by simp, ?_⟩
      intro a ha b hb
      simp at hb; subst hb
      obtain ⟨x, hx, rfl⟩ := List.mem_map.mp ha
      exact hTk x hx
    · simp
    · intro x hx _; exact List.mem_append_left _ hx
    · intro x hx
      cases List.mem_append.mp hx with
      | inl h => exact Or.inr ⟨h, hTk x h⟩
      | inr h => simp at h; exact Or.inl h
    · intro _ t ht; exact hTk t ht
  | some eT =>
    rw [hf] at hstep
    simp only [] at hstep
    obtain ⟨heT, heTk⟩ := find_key_some T k eT hf
    -- the entry of `k` in the queue, if any, is `eT`
    have inTl : ∀ e ∈ tl, e.2.1 = k → e = eT := fun e he hk =>
      key_inj_of_nodup T inv.tnodup e eT (inv.sub e he) heT (hk.trans heTk.symm)
    by_cases c : ver ≥ eT.2.2
    · rw [if_pos c] at hstep
      by_cases g : okey asc v ≤ okey asc eT.1
      · rw [if_pos g] at hstep
        simp only [Option.some.injEq] at hstep
        subst hstep
        have hT'nd : ((tnUpd k (v, (k, ver)) T).map (·.2.1)).Nodup := by
          rw [tnUpd_keys k _ T rfl]; exact inv.tnodup
        by_cases hk : ∃ e ∈ tl, e.2.1 = k
        · obtain ⟨e, he, hek⟩ := hk
          have := inTl e he hek; subst this
          have hput : tnPut n asc tl k v ver = tnUpd k (v, (k, ver)) tl := by
            unfold tnPut
            cases hft : tl.find? (fun e => e.2.1 == k) with
            | none => exact absurd hek ((find_key_none tl k).mp hft e he)
            | some e' =>
              obtain ⟨he', he'k⟩ := find_key_some tl k e' hft
              have := inTl e' he' he'k; subst this
              simp only [if_pos c]; rfl
          rw [hput]
          refine ⟨hT'nd, ?_, ?_, ?_, ?_, ?_⟩
          · intro x hx
            rw [mem_tnUpd] at hx ⊢
            cases hx with
            | inl h => exact Or.inl ⟨h.1, e, heT, heTk⟩
            | inr h => exact Or.inr ⟨inv.sub x h.1, h.2⟩
          · rw [tnUpd_keys k _ tl rfl]; exact inv.nodup
          · intro t ht hnt x hx
            rw [mem_tnUpd] at ht hnt hx
            have htT : t ∈ T ∧ t.2.1 ≠ k := by
              cases ht with
              | inl h => exact absurd (Or.inl ⟨h.1, e, he, hek⟩) hnt
              | inr h => exact h
            have htl : t ∉ tl := fun h => hnt (Or.inr ⟨h, htT.2⟩)
            cases hx with
            | inl h =>
              rw [h.1]
              have := inv.dropped t htT.1 htl e he
              show okey asc v ≤ okey asc t.1
              omega
            | inr h => exact inv.dropped t htT.1 htl x h.1
          · rw [tnUpd_length]; exact inv.len
          · rw [tnUpd_length]
            intro hlt t ht
            rw [mem_tnUpd] at ht ⊢
            cases ht with
            | inl h => exact Or.inl ⟨h.1, e, he, hek⟩
            | inr h => exact Or.inr ⟨inv.all hlt t h.1, h.2⟩
        · have habs : ∀ x ∈ tl, x.2.1 ≠ k := fun x hx hxk => hk ⟨x, hx, hxk⟩
          rw [tnPut_of_absent n asc tl k v ver hn habs]
          apply tnInv_enqueue n asc tl T _ (v, (k, ver)) hn inv habs hT'nd
          · rw [mem_tnUpd]; exact Or.inl ⟨rfl, eT, heT, heTk⟩
          · intro x hx hxk; rw [mem_tnUpd]; exact Or.inr ⟨hx, hxk⟩
          · intro x hx
            rw [mem_tnUpd] at hx
            cases hx with
            | inl h => exact Or.inl h.1
            | inr h => exact Or.inr h
          · intro hlt
            exact absurd heTk (habs eT (inv.all hlt eT heT))
      · rw [if_neg g] at hstep; exact absurd hstep (by simp)
    · rw [if_neg c] at hstep
      by_cases g : okey asc eT.1 ≤ okey asc v
      · rw [if_pos g] at hstep
        simp only [Option.some.injEq] at hstep
        subst hstep
        suffices h : tnPut n asc tl k v ver = tl by rw [h]; exact inv
        by_cases hk : ∃ e ∈ tl, e.2.1 = k
        · obtain ⟨e, he, hek⟩ := hk
          unfold tnPut
          cases hft : tl.find? (fun e => e.2.1 == k) with
          | none => exact absurd hek ((find_key_none tl k).mp hft e he)
          | some e' =>
            obtain ⟨he', he'k⟩ := find_key_some tl k e' hft
            have := inTl e' he' he'k; subst this
            simp only [if_neg c]
        · have habs : ∀ x ∈ tl, x.2.1 ≠ k := fun x hx hxk => hk ⟨x, hx, hxk⟩
          have heTtl : eT ∉ tl := fun h => habs eT h heTk
          rw [tnPut_of_absent n asc tl k v ver hn habs]
          unfold tnPutNew
          by_cases l : tl.length < n
          · exact absurd (inv.all l eT heT) heTtl
          · rw [if_neg l]
            cases hp : popRoot asc tl with
            | none => rfl
            | some p =>
              obtain ⟨low, rest⟩ := p
              simp only []
              have ⟨mperm, _⟩ := popRoot_spec asc tl low rest hp
              have hlow : low ∈ tl := mperm.mem_iff.mp (List.mem_cons_self ..)
              have := inv.dropped eT heT heTtl low hlow
              rw [if_neg (by show ¬ okey asc v < okey asc low.1; omega)]
      · rw [if_neg g] at hstep; exact absurd hstep (by simp)

end Banyan.C10
