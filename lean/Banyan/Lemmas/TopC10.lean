/-
Helper lemmas for C10: the bounded top-N queue of measure_top.go (TopQueue.Insert / Elements).
-/
import Banyan.Model.C10
namespace Banyan.C10

/-- position key: output order of `Elements` is ascending in `okey`. -/
def okey (rev : Bool) (v : Int) : Int := if rev then v else -v

theorem cond_before (rev : Bool) (a b : Int) :
    (if rev then a < b else a > b) ↔ okey rev a < okey rev b := by
  cases rev <;> simp [okey] <;> omega

variable {α : Type}

theorem popRoot_none (rev : Bool) (l : List (Int × α)) : popRoot rev l = none ↔ l = [] := by
  cases l with
  | nil => simp [popRoot]
  | cons x xs =>
    simp only [popRoot]
    cases h : popRoot rev xs with
    | none => simp
    | some p =>
      obtain ⟨m, rest⟩ := p
      simp only []
      by_cases c : (if rev then m.1 > x.1 else m.1 < x.1)
      · rw [if_pos c]; simp
      · rw [if_neg c]; simp

theorem popRoot_spec (rev : Bool) (l : List (Int × α)) (m : Int × α) (rest : List (Int × α))
    (h : popRoot rev l = some (m, rest)) :
    (m :: rest).Perm l ∧ ∀ x ∈ l, okey rev x.1 ≤ okey rev m.1 := by
  induction l generalizing m rest with
  | nil => simp [popRoot] at h
  | cons x xs ih =>
    simp only [popRoot] at h
    cases hp : popRoot rev xs with
    | none =>
      rw [hp] at h
      have hx : xs = [] := (popRoot_none rev xs).mp hp
      simp only [Option.some.injEq, Prod.mk.injEq] at h
      obtain ⟨rfl, rfl⟩ := h
      subst hx
      exact ⟨List.Perm.refl _, by intro y hy; simp at hy; subst hy; omega⟩
    | some p =>
      obtain ⟨m', rest'⟩ := p
      rw [hp] at h
      simp only [] at h
      have ⟨hperm, hmax⟩ := ih m' rest' hp
      by_cases c : (if rev then m'.1 > x.1 else m'.1 < x.1)
      · rw [if_pos c] at h
        simp only [Option.some.injEq, Prod.mk.injEq] at h
        obtain ⟨rfl, rfl⟩ := h
        have c' : okey rev x.1 < okey rev m'.1 := by
          cases rev <;> simp [okey] at c ⊢ <;> omega
        refine ⟨?_, ?_⟩
        · exact (List.Perm.swap x m' rest').trans (List.Perm.cons x hperm)
        · intro y hy
          cases List.mem_cons.mp hy with
          | inl e => subst e; omega
          | inr e => exact hmax y e
      · rw [if_neg c] at h
        simp only [Option.some.injEq, Prod.mk.injEq] at h
        obtain ⟨rfl, rfl⟩ := h
        have c' : okey rev m'.1 ≤ okey rev x.1 := by
          cases rev <;> simp [okey] at c ⊢ <;> omega
        refine ⟨List.Perm.refl _, ?_⟩
        intro y hy
        cases List.mem_cons.mp hy with
        | inl e => subst e; omega
        | inr e => have := hmax y e; omega

/-! ### `Elements`: insertion sort by `topSortedList.Less` -/

theorem insertSorted_perm (rev : Bool) (e : Int × α) (l : List (Int × α)) :
    (insertSorted rev e l).Perm (e :: l) := by
  induction l with
  | nil => exact List.Perm.refl _
  | cons x xs ih =>
    simp only [insertSorted]
    by_cases c : (if rev then e.1 < x.1 else e.1 > x.1)
    · rw [if_pos c]
    · rw [if_neg c]
      exact (List.Perm.cons x ih).trans (List.Perm.swap e x xs)

/-- ascending in `okey`: descending values for top-N, ascending values for bottom-N. -/
def SortedK (rev : Bool) (l : List (Int × α)) : Prop :=
  l.Pairwise fun a b => okey rev a.1 ≤ okey rev b.1

theorem insertSorted_sorted (rev : Bool) (e : Int × α) (l : List (Int × α)) (h : SortedK rev l) :
    SortedK rev (insertSorted rev e l) := by
  induction l with
  | nil => simp [insertSorted, SortedK]
  | cons x xs ih =>
    unfold SortedK at h ⊢
    rw [List.pairwise_cons] at h
    simp only [insertSorted]
    by_cases c : (if rev then e.1 < x.1 else e.1 > x.1)
    · rw [if_pos c]
      have c' := (cond_before rev e.1 x.1).mp c
      rw [List.pairwise_cons]
      refine ⟨?_, List.pairwise_cons.mpr h⟩
      intro y hy
      cases List.mem_cons.mp hy with
      | inl e1 => subst e1; omega
      | inr e1 => have := h.1 y e1; omega
    · rw [if_neg c]
      have c' : okey rev x.1 ≤ okey rev e.1 := by
        have := mt (cond_before rev e.1 x.1).mpr c; omega
      rw [List.pairwise_cons]
      refine ⟨?_, ih h.2⟩
      intro y hy
      have hy' := (insertSorted_perm rev e xs).mem_iff.mp hy
      cases List.mem_cons.mp hy' with
      | inl e1 => subst e1; exact c'
      | inr e1 => exact h.1 y e1

theorem sortElems_perm (rev : Bool) (l : List (Int × α)) : (sortElems rev l).Perm l := by
  induction l with
  | nil => exact List.Perm.refl _
  | cons x xs ih =>
    show (insertSorted rev x (sortElems rev xs)).Perm (x :: xs)
    exact (insertSorted_perm rev x _).trans (List.Perm.cons x ih)

theorem sortElems_sorted (rev : Bool) (l : List (Int × α)) : SortedK rev (sortElems rev l) := by
  induction l with
  | nil => simp [sortElems, SortedK]
  | cons x xs ih => exact insertSorted_sorted rev x _ ih

/-! ### the queue invariant -/

/-- `q` holds the `n` best of `seen`: the rest `D` is no better than anything kept. -/
def TopInv (q : TopQ α) (seen : List (Int × α)) : Prop :=
  ∃ D : List (Int × α), (q.elems ++ D).Perm seen ∧
    (∀ x ∈ q.elems, ∀ y ∈ D, okey q.reverted x.1 ≤ okey q.reverted y.1) ∧
    q.elems.length = min q.n seen.length

theorem topInv_new (n : Nat) (rev : Bool) : TopInv (TopQ.new n rev : TopQ α) [] :=
  ⟨[], by simp [TopQ.new], by simp [TopQ.new], by simp [TopQ.new]⟩

theorem insert_keeps (q : TopQ α) (e : Int × α) (q' : TopQ α) (b : Bool)
    (h : q.insert e = some (q', b)) : q'.n = q.n ∧ q'.reverted = q.reverted := by
  unfold TopQ.insert at h
  split at h
  · simp only [Option.some.injEq, Prod.mk.injEq] at h; obtain ⟨rfl, _⟩ := h; exact ⟨rfl, rfl⟩
  · split at h
    · exact absurd h (by simp)
    · split at h <;> split at h <;>
        (simp only [Option.some.injEq, Prod.mk.injEq] at h; obtain ⟨rfl, _⟩ := h; exact ⟨rfl, rfl⟩)

theorem topInv_insert (q : TopQ α) (seen : List (Int × α)) (e : Int × α) (q' : TopQ α) (b : Bool)
    (inv : TopInv q seen) (h : q.insert e = some (q', b)) : TopInv q' (seen ++ [e]) := by
  obtain ⟨D, hperm, hord, hlen⟩ := inv
  have hl : q.elems.length + D.length = seen.length := by
    have := hperm.length_eq; simpa using this
  unfold TopQ.insert at h
  by_cases c : q.elems.length < q.n
  · rw [if_pos c] at h
    simp only [Option.some.injEq, Prod.mk.injEq] at h
    obtain ⟨rfl, _⟩ := h
    have hD : D = [] := by
      apply List.eq_nil_of_length_eq_zero; omega
    subst hD
    refine ⟨[], ?_, by simp, ?_⟩
    · simp only [List.append_nil] at hperm ⊢
      exact List.Perm.append_right [e] hperm
    · simp only [List.length_append, List.length_cons, List.length_nil]; omega
  · rw [if_neg c] at h
    cases hp : popRoot q.reverted q.elems with
    | none => rw [hp] at h; exact absurd h (by simp)
    | some p =>
      obtain ⟨m, rest⟩ := p
      rw [hp] at h
      simp only [] at h
      have ⟨mperm, mmax⟩ := popRoot_spec q.reverted q.elems m rest hp
      have hmem : m ∈ q.elems := mperm.mem_iff.mp (List.mem_cons_self ..)
      have hrl : rest.length + 1 = q.elems.length := by
        have := mperm.length_eq; simpa using this
      -- strict "m before e" test
      have key : (if q.reverted then (if m.1 < e.1 then some (q, false) else some ({ q with elems := rest ++ [e] }, true))
                  else (if m.1 > e.1 then some (q, false) else some ({ q with elems := rest ++ [e] }, true)))
                 = (if okey q.reverted m.1 < okey q.reverted e.1 then some (q, false)
                    else some ({ q with elems := rest ++ [e] }, true)) := by
        cases hr : q.reverted <;> simp [okey] <;> congr 1 <;> (apply propext; omega)
      rw [key] at h
      by_cases r : okey q.reverted m.1 < okey q.reverted e.1
      · rw [if_pos r] at h
        simp only [Option.some.injEq, Prod.mk.injEq] at h
        obtain ⟨rfl, _⟩ := h
        refine ⟨D ++ [e], ?_, ?_, ?_⟩
        · rw [← List.append_assoc]; exact List.Perm.append_right [e] hperm
        · intro x hx y hy
          cases List.mem_append.mp hy with
          | inl hy => exact hord x hx y hy
          | inr hy =>
            simp at hy; subst hy
            have := mmax x hx; omega
        · simp only [List.length_append, List.length_cons, List.length_nil]; omega
      · rw [if_neg r] at h
        simp only [Option.some.injEq, Prod.mk.injEq] at h
        obtain ⟨rfl, _⟩ := h
        refine ⟨m :: D, ?_, ?_, ?_⟩
        · show ((rest ++ [e]) ++ m :: D).Perm (seen ++ [e])
          have h1 : ((rest ++ [e]) ++ m :: D).Perm ((m :: rest) ++ D ++ [e]) := by
            simp only [List.append_assoc, List.cons_append, List.nil_append]
            exact List.Perm.trans (List.Perm.append_left rest
                (by
                  show (e :: m :: D).Perm (m :: (D ++ [e]))
                  exact (List.Perm.swap m e D).trans (List.Perm.cons m (List.perm_append_singleton e D).symm)))
                List.perm_middle
          exact h1.trans (List.Perm.append_right [e] ((List.Perm.append_right D mperm).trans hperm))
        · intro x hx y hy
          show okey q.reverted x.1 ≤ okey q.reverted y.1
          have hx' : x ∈ rest ∨ x = e := by
            cases List.mem_append.mp hx with
            | inl h => exact Or.inl h
            | inr h => simp at h; exact Or.inr h
          have hy' : y = m ∨ y ∈ D := List.mem_cons.mp hy
          have hme : okey q.reverted e.1 ≤ okey q.reverted m.1 := by omega
          cases hx' with
          | inl hx1 =>
            have hxq : x ∈ q.elems := mperm.mem_iff.mp (List.mem_cons_of_mem _ hx1)
            cases hy' with
            | inl e1 => subst e1; exact mmax x hxq
            | inr e1 => exact hord x hxq y e1
          | inr hx1 =>
            subst hx1
            cases hy' with
            | inl e1 => subst e1; exact hme
            | inr e1 => have := hord m hmem y e1; omega
        · simp only [List.length_append, List.length_cons, List.length_nil]; omega

theorem insertAll_inv (q : TopQ α) (seen es : List (Int × α)) (q' : TopQ α) (acc : List Bool)
    (inv : TopInv q seen) (h : q.insertAll es = some (q', acc)) :
    TopInv q' (seen ++ es) ∧ q'.n = q.n ∧ q'.reverted = q.reverted ∧ acc.length = es.length := by
  induction es generalizing q seen acc with
  | nil =>
    simp only [TopQ.insertAll, Option.some.injEq, Prod.mk.injEq] at h
    obtain ⟨rfl, rfl⟩ := h
    simpa using inv
  | cons e es ih =>
    simp only [TopQ.insertAll] at h
    cases h1 : q.insert e with
    | none => rw [h1] at h; exact absurd h (by simp)
    | some p =>
      obtain ⟨q1, b⟩ := p
      rw [h1] at h
      simp only [] at h
      cases h2 : q1.insertAll es with
      | none => rw [h2] at h; exact absurd h (by simp)
      | some p2 =>
        obtain ⟨q2, bs⟩ := p2
        rw [h2] at h
        simp only [Option.some.injEq, Prod.mk.injEq] at h
        obtain ⟨rfl, rfl⟩ := h
        have inv1 := topInv_insert q seen e q1 b inv h1
        have k1 := insert_keeps q e q1 b h1
        have ⟨i2, n2, r2, l2⟩ := ih q1 (seen ++ [e]) bs inv1 h2
        refine ⟨by simpa using i2, by omega, by rw [r2, k1.2], by simp [l2]⟩

/-- with `n ≥ 1` `Insert` never hits the empty-heap `Pop`. -/
theorem insert_ne_none (q : TopQ α) (e : Int × α) (hn : 0 < q.n) : q.insert e ≠ none := by
  unfold TopQ.insert
  by_cases c : q.elems.length < q.n
  · rw [if_pos c]; simp
  · rw [if_neg c]
    cases hp : popRoot q.reverted q.elems with
    | none =>
      have : q.elems = [] := (popRoot_none _ _).mp hp
      rw [this] at c; simp at c; omega
    | some p =>
      obtain ⟨m, rest⟩ := p
      simp only []
      split <;> split <;> simp

theorem insertAll_ne_none (q : TopQ α) (es : List (Int × α)) (hn : 0 < q.n) : q.insertAll es ≠ none := by
  induction es generalizing q with
  | nil => simp [TopQ.insertAll]
  | cons e es ih =>
    simp only [TopQ.insertAll]
    cases h1 : q.insert e with
    | none => exact absurd h1 (insert_ne_none q e hn)
    | some p =>
      obtain ⟨q1, b⟩ := p
      simp only []
      have k1 := insert_keeps q e q1 b h1
      cases h2 : q1.insertAll es with
      | none => exact absurd h2 (ih q1 (by omega))
      | some p2 => simp

theorem okey_le (rev : Bool) (a b : Int) : okey rev a ≤ okey rev b ↔ (if rev then a ≤ b else b ≤ a) := by
  cases rev <;> simp [okey]

end Banyan.C10
