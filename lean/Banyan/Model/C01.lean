/-
C01 — Acknowledged writes are returned exactly as written. The executable model is the shared Store
layer; this file names the value path of one column: what `encodeTagValue`/`encodeFieldValue` +
`nameValue.marshal` store, and what `mustDecodeTagValue`/`mustDecodeFieldValue` read back.
-/
import Banyan.Model.Store

namespace Banyan.C01
open Banyan.Store

def cfg : Cfg := defaultCfg
def cfgLegacy : Cfg := { defaultCfg with fixedInit := false }

/-- bytes stored in a tag column of type `ty` for the written value `v` (`none` = nil) -/
def storeTag (ty : Ty) (v : Val) : Option (List Byte) := (encodeTag ty v).marshal ty
def storeField (ty : Ty) (v : Val) : Option (List Byte) := (encodeField ty v).marshal ty

/-- value a reader gets from the stored bytes; outer `none` = decoder panic -/
def readTag (ty : Ty) (stored : Option (List Byte)) : Option Val := decodeTag ty stored
def readField (ty : Ty) (stored : Option (List Byte)) : Option Val := decodeField ty stored

/-- a column codec (pkg/encoding + banyand/measure/column.go, property C11): parameter of the
    composition theorem – what is written to a part and read back is the same list of column values -/
structure ColumnCodec where
  enc : List (Option (List Byte)) → List Byte
  dec : List Byte → Nat → List (Option (List Byte))
  roundtrip : ∀ col, dec (enc col) col.length = col

/-- the values of one column of a block, through the codec and back -/
def recode (k : ColumnCodec) (col : List (Option (List Byte))) : List (Option (List Byte)) :=
  k.dec (k.enc col) col.length

end Banyan.C01
