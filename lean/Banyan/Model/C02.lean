/-
C02 — Highest version wins. The executable model is the shared Store layer
(`Banyan/Model/Store.lean`); this file only fixes the configuration the C02 driver runs with.
-/
import Banyan.Model.Store

namespace Banyan.C02
open Banyan.Store

/-- the model the correspondence check executes: block limits of /repo (tied in `Tie/C02.lean`),
    `mustInitFromDataPoints` as repaired by fixes/F8.diff -/
def cfg : Cfg := defaultCfg

/-- the same with the zero sentinels of the pinned commit -/
def cfgLegacy : Cfg := { defaultCfg with fixedInit := false }

end Banyan.C02
