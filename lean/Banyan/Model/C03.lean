/-
C03 — Flush and merge never change what queries return. The executable model is the shared Store
layer; this file adds the model of the conflicting-tag-type renaming of `mergeParts`
(`collectConflictColumns`, `renameConflictColumns`, `encodeTypedColumn`, `decodeTypedColumn`).
-/
import Banyan.Model.Store

namespace Banyan.C03
open Banyan.Store

def cfg : Cfg := defaultCfg
def cfgLegacy : Cfg := { defaultCfg with fixedInit := false }

/-- maintenance steps: everything but the introduction of a batch -/
def Op.isMaintenance : Op → Bool
  | .batch _ => false
  | _ => true

/-! ### typed column names (`banyand/measure/column.go`); names are character lists -/

abbrev Name := List Char

def sep : Char := '#'

/-- `valueTypeToSuffix` for the tag types; `none` = no suffix (unknown type) -/
def suffixOf (ty : Ty) : Option Name :=
  if ty = 's' then some "str".toList else if ty = 'i' then some "int".toList else if ty = 'b' then some "bin".toList
  else if ty = 'A' then some "str_arr".toList else if ty = 'I' then some "int_arr".toList else none

/-- `encodeTypedColumn(name, vt)` = `name + "#" + suffix` -/
def encodeTypedColumn (name : Name) (ty : Ty) : Name :=
  match suffixOf ty with
  | some s => name ++ sep :: s
  | none => name

/-- a tag column of a part: family, name, type -/
structure TagCol where
  fam : Name
  name : Name
  ty : Ty
deriving DecidableEq, Repr

/-- `collectConflictColumns`: a column is in conflict when the parts to merge hold the same
    (family, name) with another type -/
def inConflict (cols : List TagCol) (c : TagCol) : Bool :=
  cols.any fun d => d.fam == c.fam && d.name == c.name && d.ty != c.ty

/-- `renameConflictColumns`: the column name under which a tag column appears in the merged part -/
def renamed (cols : List TagCol) (c : TagCol) : Name :=
  if inConflict cols c then encodeTypedColumn c.name c.ty else c.name

end Banyan.C03
