/-
C03 — Flush and merge never change what queries return. The executable model is the shared Store
layer; this file adds the model of the conflicting-tag-type renaming of `mergeParts`
(`collectConflictColumns`, `renameConflictColumns`, `encodeTypedColumn`, `decodeTypedColumn`).
-/
import Banyan.Model.Store

namespace Banyan.C03
open Banyan.Store

def cfg : Cfg := defaultCfg
def cfgLegacy : Cfg := { defaultCfg with fixedInit := false }

/-- maintenance steps: everything but the introduction of a batch -/
def Op.isMaintenance : Op → Bool
  | .batch _ => false
  | _ => true

/-! ### typed column names (`banyand/measure/column.go`); names are character lists -/

abbrev Name := List Char

def sep : Char := '#'

/-- `valueTypeToSuffix` for the tag types; `none` = no suffix (unknown type) -/
def suffixOf (ty : Ty) : Option Name :=
  if ty = 's' then some "str".toList else if ty = 'i' then some "int".toList else if ty = 'b' then some "bin".toList
  else if ty = 'A' then some "str_arr".toList else if ty = 'I' then some "int_arr".toList else none

/-- `encodeTypedColumn(name, vt)` = `name + "#" + suffix` -/
def encodeTypedColumn (name : Name) (ty : Ty) : Name :=
  match suffixOf ty with
  | some s => name ++ sep :: s
  | none => name

/-- a tag column of a part: family, name, type -/
structure TagCol where
  fam : Name
  name : Name
  ty : Ty
deriving DecidableEq, Repr

/-- `collectConflictColumns`: a column is in conflict when the parts to merge hold the same
    (family, name) with another type -/
def inConflict (cols : List TagCol) (c : TagCol) : Bool :=
  cols.any fun d => d.fam == c.fam && d.name == c.name && d.ty != c.ty

/-- `renameConflictColumns`: the column name under which a tag column appears in the merged part -/
def renamed (cols : List TagCol) (c : TagCol) : Name :=
  if inConflict cols c then encodeTypedColumn c.name c.ty else c.name

/-! ### ordered secondary index (`banyand/internal/sidx`): a thin multiset model

A part is a bag of elements (series, key, opaque data) plus the optional timestamp range the writer
supplied (`ConvertToMemPart(reqs, segmentID, minTimestamp, maxTimestamp)`); each element has a
timestamp of its own that only the caller knows. A query selects parts whose range overlaps the
requested timestamp range (`partWrapper.overlapsTimestampRange`; a part without a range always
qualifies) and from them the elements of the requested series whose key lies in the key range.
Block layout, tags and ordering inside equal keys are not modelled (tied by correspondence only). -/

structure SElem where
  sid : Nat
  key : Int
  data : String
  ts : Int          -- the element's own timestamp (oracle side; sidx never sees it)
deriving DecidableEq, Repr

structure SPart where
  id : Nat
  elems : List SElem
  range : Option (Int × Int)
deriving Repr

structure SQuery where
  sids : List Nat
  minKey : Option Int
  maxKey : Option Int
  minTs : Option Int
  maxTs : Option Int
  desc : Bool
deriving Repr

def SQuery.keyIn (q : SQuery) (e : SElem) : Bool :=
  q.sids.contains e.sid && (match q.minKey with | some m => decide (m ≤ e.key) | none => true) &&
    (match q.maxKey with | some m => decide (e.key ≤ m) | none => true)

/-- the element's own timestamp lies in the requested range -/
def SQuery.tsIn (q : SQuery) (t : Int) : Bool :=
  (match q.minTs with | some m => decide (m ≤ t) | none => true) &&
    (match q.maxTs with | some m => decide (t ≤ m) | none => true)

/-- `overlapsTimestampRange` as called by the query (missing query bounds = open) -/
def SQuery.overlaps (q : SQuery) (r : Option (Int × Int)) : Bool :=
  match r with
  | none => true
  | some (lo, hi) =>
    !((match q.minTs with | some m => decide (hi < m) | none => false) ||
      (match q.maxTs with | some m => decide (lo > m) | none => false))

/-- the elements a query returns (as a bag, in part order) -/
def sQuery (parts : List SPart) (q : SQuery) : List SElem :=
  (parts.filter fun p => q.overlaps p.range).flatMap fun p => p.elems.filter q.keyIn

/-- what the caller is entitled to: every element of the series/key range whose own timestamp is in range -/
def sExact (parts : List SPart) (q : SQuery) : List SElem :=
  parts.flatMap fun p => p.elems.filter fun e => q.keyIn e && q.tsIn e.ts

/-- range of a merged part (repaired, fixes/F56.diff): the hull, and no range at all as soon as one
    input has none (its elements may lie anywhere) -/
def hull : List (Option (Int × Int)) → Option (Int × Int)
  | [] => none
  | [r] => r
  | r :: rest =>
    match r, hull rest with
    | some (a, b), some (c, d) => some (min a c, max b d)
    | _, _ => none

/-- the pinned aggregation: minimum / maximum over the inputs that HAVE a bound (finding F56) -/
def hullLegacy (rs : List (Option (Int × Int))) : Option (Int × Int) :=
  match rs.filterMap id with
  | [] => none
  | (a, b) :: rest => some (rest.foldl (fun m x => min m x.1) a, rest.foldl (fun m x => max m x.2) b)

/-- `Merge` + `IntroduceMerged`: the chosen parts are replaced by one part holding all their elements -/
def sMerge (legacy : Bool) (parts : List SPart) (ids : List Nat) (newId : Nat) : List SPart :=
  let chosen := parts.filter fun p => ids.contains p.id
  if chosen = [] then parts
  else
    parts.filter (fun p => !ids.contains p.id) ++
      [{ id := newId, elems := chosen.flatMap (·.elems),
         range := (if legacy then hullLegacy else hull) (chosen.map (·.range)) }]

/-- a part's range, when present, covers the timestamps of its elements (what an honest writer supplies) -/
def SPart.wf (p : SPart) : Prop :=
  ∀ lo hi, p.range = some (lo, hi) → ∀ e ∈ p.elems, lo ≤ e.ts ∧ e.ts ≤ hi

/-! line protocol of the sidx stream (hooks/banyand/internal/verifdrv/mrw/sidx.go) -/

def optI (s : String) : Option (Option Int) := if s = "*" then some none else s.toInt?.map some

def parseSElem (s : String) : Option SElem :=
  match s.splitOn ":" with
  | [sid, key, data] => do pure ⟨← sid.toNat?, ← key.toInt?, data, 0⟩
  | [sid, key, data, ts] => do pure ⟨← sid.toNat?, ← key.toInt?, data, ← ts.toInt?⟩
  | _ => none

def insertByKey (desc : Bool) (e : SElem) : List SElem → List SElem
  | [] => [e]
  | x :: xs => if (if desc then decide (x.key < e.key) else decide (e.key < x.key)) then e :: x :: xs else x :: insertByKey desc e xs

def sortByKey (desc : Bool) (l : List SElem) : List SElem := l.foldl (fun acc e => insertByKey desc e acc) []

def sidxOp (legacy : Bool) (parts : List SPart) (op : List String) : List SPart × String :=
  match op with
  | ["F", _] => (parts, "ok")
  | ["Q", ord, k1, k2, t1, t2, sids] =>
    match optI k1, optI k2, optI t1, optI t2, (sids.splitOn ",").mapM String.toNat? with
    | some k1, some k2, some t1, some t2, some sids =>
      let q : SQuery := { sids := sids, minKey := k1, maxKey := k2, minTs := t1, maxTs := t2, desc := ord = "desc" }
      (parts, " ".intercalate ("R" :: (sortByKey q.desc (sQuery parts q)).map fun e => s!"{e.key}:{e.data}:{e.sid}"))
    | _, _, _, _, _ => (parts, "bad-op")
  | name :: rest =>
    match name.toList with
    | 'W' :: pid =>
      match (String.ofList pid).toNat?, rest with
      | some pid, t1 :: t2 :: elems =>
        match optI t1, optI t2, elems.mapM parseSElem with
        | some t1, some t2, some es =>
          let range := match t1, t2 with | some a, some b => some (a, b) | _, _ => none
          (parts ++ [{ id := pid, elems := es, range := range }], "ok")
        | _, _, _ => (parts, "bad-op")
      | _, _ => (parts, "bad-op")
    | 'M' :: nid =>
      match (String.ofList nid).toNat?, rest with
      | some nid, [ids] =>
        match (ids.splitOn ",").mapM String.toNat? with
        | some ids => (sMerge legacy parts ids nid, "ok")
        | none => (parts, "bad-op")
      | _, _ => (parts, "bad-op")
    | _ => (parts, "bad-op")
  | [] => (parts, "bad-op")

def sidxHandle (legacy : Bool) (line : String) : String :=
  match Store.Proto.splitSegs ((words line).drop 1) with
  | _ :: ops =>
    let (_, outs) := ops.foldl (fun (acc : List SPart × List String) op =>
      let (p', o) := sidxOp legacy acc.1 op
      (p', acc.2 ++ [o])) (([] : List SPart), [])
    " ; ".intercalate outs
  | [] => "bad-op"

end Banyan.C03
