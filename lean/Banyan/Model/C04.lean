/-
C04 — crash recovery of the measure `tsTable`.  L1 models mirroring the system-call order of

  /repo/pkg/fs/local_file_system.go     WriteAtomic (open tmp, write, fsync, close, rename, fsync parent dir),
                                        Write (open, write, fsync, close), mkdir (+ SyncPath(parent)),
                                        seqWriter.Close (flush, fdatasync) / LocalFile.Close, MustRMAll
  /repo/pkg/fs/file_system.go           CleanupLeftoverTmp
  /repo/banyand/measure/part.go         memPart.mustFlush, mustOpenFilePart, partWrapper.decRef (removal)
  /repo/banyand/measure/block_writer.go writers.mustInitForFilePart / MustClose (merge output)
  /repo/banyand/measure/merger.go       mergeParts
  /repo/banyand/measure/part_metadata.go mustWriteMetadata / validatePartMetadata / tagType
  /repo/banyand/measure/flusher.go      flush, persistSnapshot
  /repo/banyand/measure/introducer.go   introducePart / introduceFlushed / introduceMerged / replaceSnapshot
  /repo/banyand/measure/gc.go           registerSnapshot / clean / removePart
  /repo/banyand/measure/tstable.go      initTSTable / loadSnapshot / mustWriteSnapshot / readSnapshot

The content of a part is abstracted to the list of batch ids it covers (C01/C03 identify bytes with rows).
File contents are token lists; `encList` is self-delimiting, so — like JSON objects/arrays and the framed,
zstd-compressed `meta.bin` — no proper prefix of a written file decodes.
-/
import Banyan.Model.FS

namespace Banyan.C04
open Banyan.FS

/-! ### names -/

/-- files of a part directory (one tag family `tf1`; `smeta.bin` is not written by the driven histories) -/
inductive PFile where
  | mt | primary | timestamps | fv | tf | tfm | tagType | metadata
  deriving DecidableEq, Repr

inductive Name where
  | part (id : Nat)        -- "%016x"
  | snp (epoch : Nat)      -- "%016x.snp"
  | pf (f : PFile)
  | tmp (n : Name)         -- n ++ ".tmp"
  | junk (k : Nat)         -- a name that is neither hex nor "*.snp"
  | junkSnp (k : Nat)      -- "*.snp" whose stem is not hex
  | failedParts            -- storage.FailedPartsDirName
  deriving DecidableEq, Repr

/-- the file names on disk (one tag family `tf1`) -/
def PFile.fileName : PFile → String
  | .mt => "meta.bin" | .primary => "primary.bin" | .timestamps => "timestamps.bin" | .fv => "fv.bin"
  | .tf => "tf1.tf" | .tfm => "tf1.tfm" | .tagType => "tag.type" | .metadata => "metadata.json"

def snapshotSuffix : String := ".snp"
def tmpSuffix : String := ".tmp"

abbrev Path := List Name
abbrev Step := FS.Step Name
abbrev St := FS.St Name
abbrev Tree := FS.Tree Name

/-! ### contents -/

def encList (xs : List Nat) : Content := xs.length :: xs

def decList : Content → Option (List Nat)
  | [] => none
  | n :: xs => if xs.length = n then some xs else none

def PFile.tag : PFile → Nat
  | .mt => 1 | .primary => 2 | .timestamps => 3 | .fv => 4 | .tf => 5 | .tfm => 6 | .tagType => 7 | .metadata => 8

/-- a data file of a part covering batches `bs` -/
def dataContent (f : PFile) (bs : List Nat) : Content := f.tag :: encList bs

def decData (f : PFile) : Content → Option (List Nat)
  | [] => none
  | t :: rest => if t = f.tag then decList rest else none

def tagTypeContent : Content := [7, 1]

/-- content written to file `f` of a part covering `bs` -/
def fileContent (f : PFile) (bs : List Nat) : Content :=
  match f with
  | .metadata => encList bs
  | .tagType => tagTypeContent
  | f => dataContent f bs

/-! ### protocol step lists -/

/-- `localFileSystem.WriteAtomic` -/
def writeAtomic (name : Path) (c : Content) : List Step :=
  let tmp := name.dropLast ++ (name.getLast?.map Name.tmp).toList
  [.create tmp, .write tmp c, .fsync tmp, .close tmp, .rename tmp name, .fsyncdir name.dropLast]

/-- `localFileSystem.Write` (`fs.MustFlush`) -/
def writeSync (name : Path) (c : Content) : List Step :=
  [.create name, .write name c, .fsync name, .close name]

/-- `MkdirPanicIfExist`: mkdir + `SyncPath(parent)` -/
def mkdirSync (p : Path) : List Step := [.mkdir p, .fsyncdir p.dropLast]

def pfile (id : Nat) (f : PFile) : Path := [.part id, .pf f]

/-- `memPart.mustFlush` -/
def flushPart (id : Nat) (bs : List Nat) : List Step :=
  mkdirSync [.part id]
  ++ [PFile.mt, .primary, .timestamps, .fv, .tf, .tfm].flatMap (fun f => writeSync (pfile id f) (dataContent f bs))
  ++ writeAtomic (pfile id .tagType) tagTypeContent
  ++ writeAtomic (pfile id .metadata) (encList bs)

/-- `mergeParts`: block writer output (files created up front / lazily, written and fdatasynced at close),
    then tag.type and metadata.json -/
def mergeOut (id : Nat) (bs : List Nat) : List Step :=
  mkdirSync [.part id]
  ++ [PFile.mt, .primary, .timestamps, .fv, .tfm, .tf].map (fun f => Step.create (pfile id f))
  ++ [PFile.mt, .primary, .timestamps, .fv, .tfm, .tf].flatMap
      (fun f => [Step.write (pfile id f) (dataContent f bs), .fsync (pfile id f), .close (pfile id f)])
  ++ writeAtomic (pfile id .tagType) tagTypeContent
  ++ writeAtomic (pfile id .metadata) (encList bs)

/-- `mustWriteSnapshot` -/
def persist (epoch : Nat) (ids : List Nat) : List Step := writeAtomic [.snp epoch] (encList ids)

/-- `gc.clean` -/
def cleanSteps (ds : List Nat) : List Step := ds.map (fun d => Step.unlink [.snp d])

/-- all files of a complete part, in the (sorted) order `os.RemoveAll` is normalised to -/
def partFiles : List PFile := [.fv, .mt, .metadata, .primary, .tagType, .tf, .tfm, .timestamps]

/-- `MustRMAll(partPath)` of a complete part -/
def rmPart (id : Nat) : List Step := partFiles.map (fun f => Step.unlink (pfile id f)) ++ [.rmdir [.part id]]

/-! ### the table (control state + ghost state) and histories -/

structure PartG where
  id : Nat
  batches : List Nat
  mem : Bool
  deriving DecidableEq, Repr

inductive Op where
  | batch (b : Nat)
  | flush
  | mergeMem
  | merge (sel : List Nat) (hold : Bool)
  | release
  deriving DecidableEq, Repr

structure Tbl where
  parts : List PartG := []       -- current snapshot
  epoch : Nat                    -- epoch of the last introduction
  curPartID : Nat := 0
  liveEpoch : Nat := 0           -- garbageCleaner
  deletable : List Nat := []
  held : List (List Nat) := []   -- file-part ids of snapshots still referenced by a reader (a memory part's
                                 -- wrapper is replaced at flush, so holding it does not pin the file part)
  zombies : List Nat := []       -- removable file parts whose directory still exists
  acked : List Nat := []         -- ghost: batches acknowledged so far
  deriving Repr

def Tbl.ids (t : Tbl) : List Nat := t.parts.map (·.id)

/-- `persistSnapshot` + `gc.registerSnapshot`, then the introducer loop's `gc.clean` -/
def publish (t : Tbl) : List Step × Tbl :=
  let del := if t.liveEpoch > 0 then t.deletable ++ [t.liveEpoch] else t.deletable
  (persist t.epoch t.ids ++ cleanSteps del, { t with liveEpoch := t.epoch, deletable := [] })

def insertSorted (x : Nat) : List Nat → List Nat
  | [] => [x]
  | y :: ys => if x ≤ y then x :: y :: ys else y :: insertSorted x ys

def sortAsc (xs : List Nat) : List Nat := xs.foldr insertSorted []

/-- removal of removable parts no snapshot references any more (`partWrapper.decRef` → `MustRMAll`) -/
def reap (t : Tbl) : List Step × Tbl :=
  let dead := sortAsc (t.zombies.filter (fun id => t.held.all (fun h => !h.contains id)))
  (dead.flatMap rmPart, { t with zombies := t.zombies.filter (fun id => !dead.contains id) })

def selectParts (fileParts : List PartG) (sel : List Nat) : List PartG :=
  (sel.filterMap (fun i => fileParts[i]?)).eraseDups

def opSteps (t : Tbl) : Op → List Step × Tbl
  | .batch b =>
    let id := t.curPartID + 1
    ([], { t with parts := t.parts ++ [⟨id, [b], true⟩], curPartID := id, epoch := t.epoch + 1,
                  acked := t.acked ++ [b] })
  | .flush =>
    let mems := t.parts.filter (·.mem)
    if mems.isEmpty then ([], t) else
    let t1 := { t with parts := t.parts.map (fun p => { p with mem := false }), epoch := t.epoch + 1 }
    let (s2, t2) := publish t1
    (mems.flatMap (fun p => flushPart p.id p.batches) ++ s2, t2)
  | .mergeMem =>
    let mems := t.parts.filter (·.mem)
    if mems.length < 2 then ([], t) else
    let id := t.curPartID + 1
    let bs := mems.flatMap (·.batches)
    let t1 := { t with parts := t.parts.filter (fun p => !p.mem) ++ [⟨id, bs, false⟩], curPartID := id,
                       epoch := t.epoch + 1 }
    let (s2, t2) := publish t1
    (mergeOut id bs ++ s2, t2)
  | .merge sel hold =>
    let chosen := selectParts (t.parts.filter (fun p => !p.mem)) sel
    if chosen.length < 2 then ([], t) else
    let id := t.curPartID + 1
    let bs := chosen.flatMap (·.batches)
    let gone := chosen.map (·.id)
    let t1 := { t with parts := t.parts.filter (fun p => !gone.contains p.id) ++ [⟨id, bs, false⟩],
                       curPartID := id, epoch := t.epoch + 1,
                       held := if hold then t.held ++ [(t.parts.filter (fun p => !p.mem)).map (·.id)] else t.held,
                       zombies := t.zombies ++ gone }
    let (s2, t2) := publish t1
    let (s3, t3) := reap t2
    (mergeOut id bs ++ s2 ++ s3, t3)
  | .release =>
    reap { t with held := [] }

/-- step list of a history, one segment per op -/
def histSegments : Tbl → List Op → List (List Step)
  | _, [] => []
  | t, o :: os => let (s, t') := opSteps t o; s :: histSegments t' os

def histSteps (t : Tbl) (h : List Op) : List Step := (histSegments t h).flatten

def histTbl : Tbl → List Op → Tbl
  | t, [] => t
  | t, o :: os => histTbl (opSteps t o).2 os

/-! ### startup recovery: `initTSTable` -/

/-- `validatePartMetadata` -/
def validMeta (t : Tree) (id : Nat) : Bool :=
  match readFile t (pfile id .metadata) with
  | some c => (decList c).isSome
  | none => false

/-- the entries `fs.CleanupLeftoverTmp(partPath)` removes: `<file>.tmp` (a regular file) when `<file>` exists -/
def tmpVictim (t : Tree) (id : Nat) (q : Path) : Bool :=
  match q with
  | [.part i, .tmp n] => (i == id && isFile t q && exists_ t [.part i, n])
  | _ => false

/-- `fs.CleanupLeftoverTmp(partPath)` -/
def cleanupTmp (t : Tree) (id : Nat) : Tree := Map.filterKeys t (fun q => !tmpVictim t id q)

inductive Opened where
  | ok (batches : List Nat)
  | panic (why : String)
  deriving DecidableEq, Repr

/-- `mustOpenFilePart` followed by a complete read of every block and column (the driver's `Dump`).
    Open time: `metadata.json` must parse; `tag.type` may be absent or empty, otherwise it must parse;
    `meta.bin` must exist and is decoded — an *empty* `meta.bin` is accepted as "no blocks" (the part then
    serves no rows, whatever `metadata.json` says); `primary.bin`, `timestamps.bin`, `fv.bin` must exist, and a
    tag-family file `tf1.tf` needs its `tf1.tfm` (`seqReaders.init` dereferences the missing reader).
    Read time: with a non-empty `meta.bin` every column file must be intact. -/
def openPart (t : Tree) (id : Nat) : Opened :=
  match (readFile t (pfile id .metadata)).bind decList with
  | none => .panic "metadata"
  | some bs =>
    match readFile t (pfile id .tagType) with
    | some c => if c = [] ∨ c = tagTypeContent then go bs else .panic "tag.type"
    | none => if exists_ t (pfile id .tagType) then .panic "tag.type" else go bs
where
  go (bs : List Nat) : Opened :=
    match readFile t (pfile id .mt) with
    | none => .panic "meta.bin"
    | some [] =>
      if [PFile.primary, .timestamps, .fv].all (fun f => isFile t (pfile id f)) &&
          (!isFile t (pfile id .tf) || isFile t (pfile id .tfm))
      then .ok [] else .panic "data file"
    | some c =>
      if decData .mt c == some bs ∧ [PFile.primary, .timestamps, .fv, .tf, .tfm].all
          (fun f => (readFile t (pfile id f)).bind (decData f) == some bs)
      then .ok bs else .panic "data"

structure Rec where
  epoch : Option Nat              -- `none`: the table came back empty (a fresh epoch is chosen)
  parts : List (Nat × List Nat)   -- the recovered snapshot: part id, batches
  tree : Tree                     -- the directory after startup cleanup
  deriving Repr

inductive RecResult where
  | ok (r : Rec)
  | panic (why : String)
  deriving Repr

/-- `initTSTable`'s classification of one `ReadDir(root)` entry -/
def partOf (t : Tree) : Name → Option Nat
  | .part id => if isDir t [.part id] && validMeta t id then some id else none
  | _ => none

def snapOf (t : Tree) : Name → Option Nat
  | .snp e => if isDir t [.snp e] then none else some e
  | _ => none

/-- entries put on `needToDelete`.  `fixed`: also `<epoch>.snp.tmp` files (proposed repair). -/
def toDelete (fixed : Bool) (t : Tree) (n : Name) : Bool :=
  if isDir t [n] then
    match n with
    | .failedParts => false
    | .part id => !validMeta t id
    | _ => true
  else
    match n with
    | .junkSnp _ => true
    | .tmp (.snp _) => fixed
    | .tmp (.junkSnp _) => fixed
    | _ => false

structure Scan where
  parts : List Nat
  snaps : List Nat
  del : List Name

/-- the classification loop of `initTSTable` over `ReadDir(root)` -/
def scan (fixed : Bool) (t : Tree) : Scan :=
  let ee := children t []
  { parts := ee.filterMap (partOf t), snaps := ee.filterMap (snapOf t), del := ee.filter (toDelete fixed t) }

def rmMany (t : Tree) (ps : List Path) : Tree := ps.foldl rmAll t

/-- `loadSnapshot`: `none` = the manifest cannot be read/parsed -/
def loadSnapshot (t : Tree) (epoch : Nat) (loaded : List Nat) : Option RecResult :=
  match (readFile t [.snp epoch]).bind decList with
  | none => none
  | some ids =>
    let orphans := loaded.filter (fun id => !ids.contains id)
    let keep := loaded.filter (fun id => ids.contains id)
    let t1 := rmMany t (orphans.map (fun id => [Name.part id]))
    let t2 := keep.foldl cleanupTmp t1
    let opened := keep.map (fun id => (id, openPart t2 id))
    match opened.find? (fun x => match x.2 with | .panic _ => true | .ok _ => false) with
    | some (id, .panic why) => some (.panic s!"part {id}: {why}")
    | _ =>
      let parts := opened.filterMap (fun x => match x.2 with | .ok bs => some (x.1, bs) | .panic _ => none)
      some (.ok { epoch := if parts.isEmpty then none else some epoch, parts := parts, tree := t2 })

/-- the loop over the manifests, newest first: the first one that can be read and parsed wins.
    Returns the result, the epochs that failed before it, and the epoch that loaded. -/
def loadFirst (t : Tree) (loaded : List Nat) : List Nat → List Nat → Option (RecResult × List Nat × Nat)
  | [], _ => none
  | e :: es, failed =>
    match loadSnapshot t e loaded with
    | none => loadFirst t loaded es (failed ++ [e])
    | some r => some (r, failed, e)

/-- `initTSTable`.  `fixed = false` is the function as written at the pinned commit; `fixed = true` adds the
    proposed repair (fixes/F14.diff): `<epoch>.snp.tmp` files and manifests older than the loaded one are
    deleted at startup. -/
def recoverWith (fixed : Bool) (t : Tree) : RecResult :=
  if (children t []).isEmpty then .ok { epoch := none, parts := [], tree := t } else
  let s := scan fixed t
  let t1 := rmMany t (s.del.map (fun n => [n]))
  let parts := sortAsc s.parts
  if parts.isEmpty ∨ s.snaps.isEmpty then
    .ok { epoch := none, parts := [],
          tree := rmMany t1 (s.snaps.map (fun e => [Name.snp e]) ++ parts.map (fun id => [Name.part id])) }
  else
    match loadFirst t1 parts (sortAsc s.snaps).reverse [] with
    | some (.ok r, failed, e) =>
      let stale := if fixed then s.snaps.filter (fun x => decide (x < e)) else []
      .ok { r with tree := rmMany r.tree ((failed ++ stale).map (fun x => [Name.snp x])) }
    | some (.panic w, _, _) => .panic w
    | none => .ok { epoch := none, parts := [], tree := rmMany t1 (parts.map (fun id => [Name.part id])) }

def recoverLegacy (t : Tree) : RecResult := recoverWith false t

/-- `initTSTable` with the proposed repair -/
def recover (t : Tree) : RecResult := recoverWith true t

/-- keep only entries all of whose ancestors are directories (what a directory walk sees) -/
def reachable (t : Tree) : Tree :=
  Map.filterKeys t (fun q => (List.range q.length).all (fun k => k == 0 || isDir t (q.take k)))

end Banyan.C04
