/-
C04, segment level — model of `segmentController.create` (banyand/internal/storage/segment.go) and of the
classification `segmentController.open` performs at start-up, on the file-system model of `Model/FS.lean`.

`create` as written at the pinned commit (`atomic = false`):
    MkdirPanicIfExist(seg)            = mkdir seg; fsync(parent)
    CreateLockFile(seg/metadata)      = open(O_CREAT|O_TRUNC)        (flock: no file-system effect)
    lf.Write(json)                    = write                        — **no fsync of the file, none of `seg`**
then the segment is loaded and tables are created in it: `shard-<n>` is `mkdir + fsync(seg)` — which makes the
*entry* `seg/metadata` durable, not its content — and the table writes and fsyncs its data.
`atomic = true` is the proposed repair (finding F04s): the metadata goes through `WriteAtomic`.

`openSegs` is `open()`: a segment directory whose `metadata` is missing or empty is "half-born" and removed with
everything in it; a non-empty `metadata` that does not parse makes `OpenTSDB` fail; the others are loaded.
The series index directories that `initialize` creates inside a segment are not modelled (they are re-created
when missing).
-/
import Banyan.Model.FS

namespace Banyan.C04Seg
open Banyan.FS

inductive SName where
  | seg (i : Nat)
  | metadata
  | metadataTmp
  | shard
  | data
  deriving DecidableEq, Repr

abbrev Path := List SName
abbrev Step := FS.Step SName
abbrev St := FS.St SName
abbrev Tree := FS.Tree SName

/-- the JSON of segment `i` (version, end time), as two tokens: a proper non-empty prefix exists -/
def metaContent (i : Nat) : Content := [1, i + 2]

/-- what the table makes durable in its shard directory -/
def rowsContent : Content := [7]

/-- `segmentController.create` up to the point where the segment is loaded -/
def createSeg (atomic : Bool) (i : Nat) : List Step :=
  [.mkdir [.seg i], .fsyncdir []] ++
  (if atomic then
    [.create [.seg i, .metadataTmp], .write [.seg i, .metadataTmp] (metaContent i), .fsync [.seg i, .metadataTmp],
     .close [.seg i, .metadataTmp], .rename [.seg i, .metadataTmp] [.seg i, .metadata], .fsyncdir [.seg i]]
   else
    [.create [.seg i, .metadata], .write [.seg i, .metadata] (metaContent i)])

/-- `CreateTSTableIfNotExist(shard)` with a table that makes one file durable -/
def createTable (i : Nat) : List Step :=
  [.mkdir [.seg i, .shard], .fsyncdir [.seg i],
   .create [.seg i, .shard, .data], .write [.seg i, .shard, .data] rowsContent, .fsync [.seg i, .shard, .data],
   .close [.seg i, .shard, .data], .fsyncdir [.seg i, .shard]]

/-- `k` segments, one after the other, each with its table -/
def history (atomic : Bool) (k : Nat) : List Step :=
  (List.range k).flatMap (fun i => createSeg atomic i ++ createTable i)

/-! ### start-up -/

inductive SegRec where
  | ok (loaded : List Nat) (tree : Tree)
  | err (why : String)
  deriving Repr

inductive Cls where
  | valid | halfBorn | unparsable
  deriving DecidableEq, Repr

/-- `open()`'s verdict on one segment directory -/
def classify (t : Tree) (i : Nat) : Cls :=
  match readFile t [.seg i, .metadata] with
  | none => .halfBorn              -- fs.ErrNotExist
  | some [] => .halfBorn           -- len(rawMeta) == 0
  | some c => if c = metaContent i then .valid else .unparsable

def insertSorted (x : Nat) : List Nat → List Nat
  | [] => [x]
  | y :: ys => if x ≤ y then x :: y :: ys else y :: insertSorted x ys

def segDirs (t : Tree) : List Nat :=
  ((children t []).filterMap (fun n => match n with
    | .seg i => if isDir t [.seg i] then some i else none
    | _ => none)).foldr insertSorted []

/-- `segmentController.open` -/
def openSegs (t : Tree) : SegRec :=
  let ids := segDirs t
  if ids.any (fun i => classify t i == .unparsable) then .err "metadata does not parse"
  else
    let bad := ids.filter (fun i => classify t i == .halfBorn)
    .ok (ids.filter (fun i => classify t i == .valid)) (bad.foldl (fun t i => rmAll t [.seg i]) t)

/-! ### every crash outcome of a state (executable form of `crashKill` / `crashPower`) -/

def sublists {α : Type} : List α → List (List α)
  | [] => [[]]
  | a :: l => (sublists l).map (a :: ·) ++ sublists l

/-- the contents `c` with `d ≤ c ≤ v` in the prefix order (for `d` a prefix of `v`) -/
def between (d v : Content) : List Content :=
  (List.range (v.length + 1)).filterMap (fun n => if d.length ≤ n then some (v.take n) else none)

def dataChoices (s : St) : List Nat → List (Map Nat Content)
  | [] => [[]]
  | i :: is => (between (s.ddataOf i) (s.vdataOf i)).flatMap (fun c => (dataChoices s is).map (fun m => (i, c) :: m))

/-- all power-loss outcomes: every sublist of the pending operations, every admissible data -/
def powerTrees (s : St) : List Tree :=
  (sublists s.pend).flatMap (fun sub =>
    (dataChoices s (List.range s.next)).map (fun dm => resolve (applyOps sub s.dur) (fun i => (Map.get dm i).getD [])))

def cutState (atomic : Bool) (k cut : Nat) : St := run ({} : St) ((history atomic k).take cut)

def crashTrees (atomic : Bool) (k cut : Nat) : List Tree :=
  crashKill (cutState atomic k cut) :: powerTrees (cutState atomic k cut)

/-! ### the property of one crash outcome -/

/-- the table of segment `i` holds durable rows in the crash tree -/
def hasRows (t : Tree) (i : Nat) : Bool := readFile t [.seg i, .shard, .data] == some rowsContent

/-- start-up opens; a segment whose table holds rows survives with them; no half-born directory is left -/
def recoversOK (t : Tree) : Bool :=
  match openSegs t with
  | .err _ => false
  | .ok loaded t' =>
    (segDirs t).all (fun i => !hasRows t i || (loaded.contains i && hasRows t' i)) &&
    (segDirs t').all (fun i => loaded.contains i)

end Banyan.C04Seg
