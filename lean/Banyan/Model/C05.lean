/-
C05 — Queries see one consistent snapshot while maintenance runs.

Executable op-level model (core Lean only) of

  * banyand/measure/{snapshot.go, part.go, introducer.go, tstable.go}  (stream/ and trace/ carry the same code,
    tied by the extractor): `snapshot{parts, epoch, ref}`, `partWrapper{ref, removable}`, `currentSnapshot`,
    `snapshot.decRef`, `partWrapper.decRef`, `copyAllTo / merge / remove`, `replaceSnapshot`,
    `introducePart / introduceFlushed / introduceMerged / introduceSync`, `Close`;
  * banyand/internal/snapshot/snapshot.go: `Transition`, `Transaction` (namespace `Txn`);
  * banyand/trace/introducer.go `commitSnapshotTransaction` publication fence (namespace `Pub`).

Granularity: one transition = one whole Go call that runs under `tsTable.RWMutex` / inside the single introducer
goroutine.  Interleavings *inside* one call are not represented (see checks/C05.design.md).
-/
import Banyan.Model.Util

namespace Banyan.C05

/-! ## Objects -/

/-- `partWrapper` (measure/part.go).  One wrapper = one Lean `Part`; a flushed mem part and the file part that replaces
it are two wrappers with the same `pid`. -/
structure Part where
  /-- `pw.p.partMetadata.ID` = directory name of the part -/
  pid : Nat
  /-- `pw.mp != nil` -/
  mem : Bool
  ref : Int
  /-- `pw.removable` (mustBeDeleted) -/
  removable : Bool
  /-- `decRef` has reached `n <= 0`: file handles closed / memPart handed back to the pool -/
  closed : Bool
  /-- how many times `MustRMAll(pw.p.path)` has been issued for this wrapper -/
  delCount : Nat
  /-- ghost: ordinals of the write batches whose rows this part holds -/
  src : List Nat
deriving Repr, Inhabited

/-- `snapshot` (measure/snapshot.go); `parts` are wrapper indices. -/
structure Snap where
  epoch : Nat
  parts : List Nat
  ref : Int
deriving Repr, Inhabited

def upd {α : Type} (f : Nat → α) (i : Nat) (v : α) : Nat → α := fun j => if j = i then v else f j

/-- The table plus everything that can still point into it.
`holders` is the multiset of readers: `(key, snapshot)`; key `0` is reserved for the temporary pins taken by the
maintenance code itself (`cur := tst.currentSnapshot(); defer cur.decRef()`), reader `k` uses key `k+1`. -/
structure State where
  P : Nat → Part
  nP : Nat
  S : Nat → Snap
  nS : Nat
  /-- `tst.snapshot` -/
  cur : Option Nat
  holders : List (Nat × Nat)
  /-- epoch the introducer loop will hand to the next introduction -/
  epoch : Nat
  /-- `tst.curPartID` -/
  curPid : Nat
  /-- ghost: number of batches written so far -/
  nBatch : Nat
  /-- `Close` has run (loops stopped: no further introductions) -/
  tblClosed : Bool

def init : State :=
  { P := fun _ => default, nP := 0, S := fun _ => default, nS := 0, cur := none, holders := [],
    epoch := 1, curPid := 0, nBatch := 0, tblClosed := false }

/-! ## part.go -/

/-- `partWrapper.incRef` -/
def partIncRef (p : Part) : Part := { p with ref := p.ref + 1 }

/-- `partWrapper.decRef`: `n := atomic.AddInt32(&pw.ref, -1); if n > 0 return; if mp != nil {release; return};
p.close(); if removable { go MustRMAll(path) }` -/
def partDecRef (p : Part) : Part :=
  let n := p.ref - 1
  if n > 0 then { p with ref := n }
  else if p.mem then { p with ref := n, closed := true }
  else { p with ref := n, closed := true, delCount := p.delCount + (if p.removable then 1 else 0) }

/-- `for i := range parts { f(parts[i]) }` on the wrapper store, written as the loop it is.
(Reference definition: the executable model uses the pointwise form `applyAll`; `applyLoop_eq_applyAll` shows the two
agree whenever `parts` has no duplicates, which the invariant guarantees for every snapshot.) -/
def applyLoop (f : Nat → Part → Part) : List Nat → (Nat → Part) → (Nat → Part)
  | [], P => P
  | w :: l, P => applyLoop f l (upd P w (f w (P w)))

/-- Pointwise effect of `for i := range parts { f(parts[i]) }`: every listed wrapper is transformed once.
(A function-valued loop would be re-run on every lookup by compiled Lean: functions returning functions are
eta-expanded.) -/
def applyAll (f : Nat → Part → Part) (l : List Nat) (P : Nat → Part) : Nat → Part :=
  fun j => if l.contains j then f j (P j) else P j

/-! ## snapshot.go -/

/-- `tst.currentSnapshot()` by holder `k`: under RLock, `s.incRef()`; nil table ⇒ nil. -/
def pin (k : Nat) (st : State) : State :=
  match st.cur with
  | none => st
  | some c =>
    { st with S := upd st.S c { st.S c with ref := (st.S c).ref + 1 }, holders := (k, c) :: st.holders }

/-- `snapshot.decRef`: `n := AddInt32(&s.ref,-1); if n > 0 return; for parts: decRef; s.parts = s.parts[:0]` -/
def snapDecRef (s : Nat) (st : State) : State :=
  let sn := st.S s
  let n := sn.ref - 1
  if n > 0 then { st with S := upd st.S s { sn with ref := n } }
  else { st with S := upd st.S s { sn with ref := n, parts := [] },
                 P := applyAll (fun _ p => partDecRef p) sn.parts st.P }

def findHolder (k : Nat) : List (Nat × Nat) → Option Nat
  | [] => none
  | e :: h => if e.1 = k then some e.2 else findHolder k h

def eraseHolder (k : Nat) : List (Nat × Nat) → List (Nat × Nat)
  | [] => []
  | e :: h => if e.1 = k then h else e :: eraseHolder k h

/-- holder `k` drops its (most recent) pin: `s.decRef()`. -/
def unpin (k : Nat) (st : State) : State :=
  match findHolder k st.holders with
  | none => st
  | some s => snapDecRef s { st with holders := eraseHolder k st.holders }

def curParts (st : State) : List Nat :=
  match st.cur with
  | some c => (st.S c).parts
  | none => []

/-- Build-and-publish: the next snapshot (`ref = 1`, epoch from the introducer) with part list `parts` over the
wrapper store `P'` left behind by `copyAllTo/merge/remove`, then `replaceSnapshot`: under Lock
`if tst.snapshot != nil { tst.snapshot.decRef() }; tst.snapshot = next`. -/
def publish (st : State) (P' : Nat → Part) (nP' : Nat) (parts : List Nat) (curPid' : Nat) : State :=
  let n := st.nS
  let st1 : State :=
    { st with P := P', nP := nP', curPid := curPid',
              S := upd st.S n { epoch := st.epoch, parts := parts, ref := 1 },
              nS := n + 1, cur := some n, epoch := st.epoch + 1 }
  match st.cur with
  | none => st1
  | some c => snapDecRef c st1

/-! ## introducer.go (+ the producer side: tstable.go mustAddMemPart, flusher.go flush, merger.go) -/

def pidOf (st : State) (w : Nat) : Nat := (st.P w).pid

/-- `mustAddMemPart` → `introducePart`:
`cur := currentSnapshot(); defer cur.decRef()` (or `new(snapshot)` when nil); `next := cur.copyAllTo(epoch)`;
`next.parts = append(next.parts, part)`; `replaceSnapshot`. -/
def introducePart (st0 : State) : State :=
  let st := pin 0 st0
  let cp := curParts st
  let ord := st.nBatch + 1
  let pid := st.curPid + 1
  let w := st.nP
  let fresh : Part :=
    { pid := pid, mem := true, ref := 1, removable := false, closed := false, delCount := 0, src := [ord] }
  let P' := upd (applyAll (fun _ p => partIncRef p) cp st.P) w fresh
  let st := publish { st with nBatch := ord } P' (w + 1) (cp ++ [w]) pid
  match st0.cur with
  | none => st
  | some _ => unpin 0 st

/-- file part produced by flushing mem part `p` (`mustFlush` + `mustOpenFilePart` + `newPartWrapper(nil, p)`). -/
def mkFlushed (p : Part) : Part :=
  { pid := p.pid, mem := false, ref := 1, removable := false, closed := false, delCount := 0, src := p.src }

/-- which mem parts a flush covers: `none` = all of them -/
def idSel (ids : Option (List Nat)) (pid : Nat) : Bool :=
  match ids with
  | none => true
  | some l => l.contains pid

/-- mem parts of the current snapshot that the flusher writes out -/
def flushSel (ids : Option (List Nat)) (st : State) : List Nat :=
  (curParts st).filter fun w => (st.P w).mem && idSel ids (pidOf st w)

/-- `ind.flushed[newPW.ID()] = newPW`: the new file wrappers are allocated at `st.nP, st.nP+1, …` -/
def flushMap (st : State) (sel : List Nat) : List (Nat × Nat) :=
  (sel.zipIdx st.nP).map fun e => (pidOf st e.1, e.2)

/-- `snapshot.merge(epoch, flushed)`, store side: listed in `flushed` ⇒ no incRef (the new wrapper takes the slot);
otherwise incRef and keep.  The new wrappers are the file parts of the selected mem parts. -/
def flushStore (st : State) (sel : List Nat) (flushed : List (Nat × Nat)) : Nat → Part :=
  let P1 := applyAll (fun _ p => if (flushed.lookup p.pid).isSome then p else partIncRef p) (curParts st) st.P
  fun j => if st.nP ≤ j ∧ j < st.nP + sel.length then mkFlushed (st.P (sel.getD (j - st.nP) 0)) else P1 j

/-- `snapshot.merge(epoch, flushed)`, list side -/
def flushParts (st : State) (flushed : List (Nat × Nat)) : List Nat :=
  (curParts st).map fun w => (flushed.lookup (pidOf st w)).getD w

/-- `flusherLoop`: pin current; `tst.flush` builds `flushed[id] = new file wrapper` for the selected mem parts
(`ids = none`: every mem part, as in production); `introduceFlushed`: pin, `cur.merge(epoch, flushed)`,
`replaceSnapshot`, unpin; flusher unpins. -/
def flushOp (ids : Option (List Nat)) (st0 : State) : State :=
  match st0.cur with
  | none => st0
  | some _ =>
    let st1 := pin 0 st0
    let sel := flushSel ids st1
    if sel.isEmpty then unpin 0 st1
    else
      let st2 := pin 0 st1
      let flushed := flushMap st2 sel
      let st3 := publish st2 (flushStore st2 sel flushed) (st2.nP + sel.length) (flushParts st2 flushed) st2.curPid
      unpin 0 (unpin 0 st3)

/-- `mergeLoop` / `mergeMemParts`: pin current; merge the chosen parts into a new file part
(`atomic.AddUint64(&tst.curPartID, 1)`); `introduceMerged`: pin, `cur.remove(epoch, merged)` (marks the inputs
removable, incRefs the others), append the new part, `replaceSnapshot`, unpin; merger unpins. -/
def mergeOp (ids : List Nat) (st0 : State) : State :=
  match st0.cur with
  | none => st0
  | some _ =>
    let st := pin 0 st0
    let cp := curParts st
    let sel := cp.filter fun w => ids.contains (pidOf st w)
    if sel.isEmpty then unpin 0 st
    else
      let merged := sel.map (pidOf st)
      let newPid := st.curPid + 1
      let w := st.nP
      let fresh : Part :=
        { pid := newPid, mem := false, ref := 1, removable := false, closed := false, delCount := 0,
          src := sel.flatMap fun x => (st.P x).src }
      let st := pin 0 st
      let pidf := pidOf st
      -- snapshot.remove: `if _, ok := merged[s.parts[i].ID()]; !ok { incRef; keep } else { removable.Store(true) }`
      let P1 := applyAll (fun _ p => if merged.contains p.pid then { p with removable := true } else partIncRef p) cp st.P
      let parts := (cp.filter fun x => !merged.contains (pidf x)) ++ [w]
      let st := publish st (upd P1 w fresh) (w + 1) parts newPid
      unpin 0 (unpin 0 st)

/-- `introduceSync`: pin, `cur.remove(epoch, synced)`, `replaceSnapshot`, unpin. -/
def syncOp (ids : List Nat) (st0 : State) : State :=
  match st0.cur with
  | none => st0
  | some _ =>
    let st := pin 0 st0
    let cp := curParts st
    let pidf := pidOf st
    let P1 := applyAll (fun _ p => if ids.contains p.pid then { p with removable := true } else partIncRef p) cp st.P
    let parts := cp.filter fun x => !ids.contains (pidf x)
    let st := publish st P1 st.nP parts st.curPid
    unpin 0 st

/-- `tsTable.Close`: loops stopped; under Lock `tst.snapshot.decRef(); tst.snapshot = nil`. -/
def closeOp (st : State) : State :=
  match st.cur with
  | none => { st with tblClosed := true }
  | some c => snapDecRef c { st with cur := none, tblClosed := true }

/-! ## Ops -/

inductive Op where
  | batch
  | acquire (k : Nat)
  | release (k : Nat)
  | flush (ids : Option (List Nat))
  | merge (ids : List Nat)
  | syncRemove (ids : List Nat)
  | close
deriving Repr, DecidableEq

def step (st : State) : Op → State
  | .batch => if st.tblClosed then st else introducePart st
  | .acquire k => if (findHolder (k + 1) st.holders).isSome then st else pin (k + 1) st
  | .release k => unpin (k + 1) st
  | .flush ids => if st.tblClosed then st else flushOp ids st
  | .merge ids => if st.tblClosed then st else mergeOp ids st
  | .syncRemove ids => if st.tblClosed then st else syncOp ids st
  | .close => if st.tblClosed then st else closeOp st

def run (st : State) : List Op → State
  | [] => st
  | o :: os => run (step st o) os

/-- batches visible through snapshot `s` -/
def view (st : State) (s : Nat) : List Nat := (st.S s).parts.flatMap fun w => (st.P w).src

/-- The parts a query evaluates: the *pinned list* of the snapshot it holds (measure `snapshot.getParts`,
sidx `selectPartsForQuery`: `for _, pw := range snap.parts`).  In particular NOT a function of the shared, mutable
`removable` flag of the wrappers. -/
def queryParts (st : State) (s : Nat) : List Nat := (st.S s).parts

/-- the variant that additionally skips wrappers whose `removable` flag is set (what `Snapshot.getPartsAll` does for
statistics) — unsound for queries, see `flag_reading_query_counterexample` -/
def queryPartsSkippingRemovable (st : State) (s : Nat) : List Nat :=
  (st.S s).parts.filter fun w => !(st.P w).removable

def viewSkippingRemovable (st : State) (s : Nat) : List Nat :=
  (queryPartsSkippingRemovable st s).flatMap fun w => (st.P w).src

/-- PREPARE side effect of `Snapshot.remove` (run by `PrepareMerged/PrepareSynced` inside `NewTransition`, before the
transaction commits): the inputs are flagged `removable`, nothing is published yet. -/
def markRemovable (ids : List Nat) (st : State) : State :=
  { st with P := applyAll (fun _ p => if ids.contains p.pid then { p with removable := true } else p) (curParts st) st.P }

/-- part directories present on disk: a file wrapper whose `MustRMAll` has not been issued -/
def dirExists (st : State) (w : Nat) : Bool := !(st.P w).mem && (st.P w).delCount == 0

/-! ## banyand/internal/snapshot: Transition / Transaction -/
namespace Txn

/-- world: toy snapshots with a reference count; managers with a current snapshot (`none` = nil). -/
structure World where
  ref : Nat → Int
  nSnap : Nat
  cur : Nat → Option Nat

/-- `Transition[S]` after `NewTransition`: `current` (pinned) and prepared `next` (ref 1).
`rolledBack` is a ghost flag (the Go struct has none: only `Transaction.finalized` guards a second rollback). -/
structure Transition where
  mgr : Nat
  current : Option Nat
  next : Option Nat
  committed : Bool
  rolledBack : Bool
deriving Repr, DecidableEq

def incRef (w : World) (s : Nat) : World := { w with ref := fun j => if j = s then w.ref j + 1 else w.ref j }
def decRef (w : World) (s : Nat) : World := { w with ref := fun j => if j = s then w.ref j - 1 else w.ref j }
def decOpt (w : World) : Option Nat → World
  | none => w
  | some s => decRef w s

/-- `Manager.CurrentSnapshot` -/
def currentSnapshot (w : World) (m : Nat) : World × Option Nat :=
  match w.cur m with
  | none => (w, none)
  | some s => (incRef w s, some s)

/-- `Manager.ReplaceSnapshot(next)`: `if m.snapshot != nil { DecRef }; m.snapshot = next` -/
def replaceSnapshot (w : World) (m : Nat) (next : Option Nat) : World :=
  let w1 := decOpt w (w.cur m)
  { w1 with cur := fun j => if j = m then next else w1.cur j }

/-- `NewTransition(manager, prepareNext)` with `prepareNext` = "allocate a fresh snapshot with ref 1"
(`mkNil = true`: prepareNext returns nil). -/
def newTransition (w : World) (m : Nat) (mkNil : Bool) : World × Transition :=
  let r := currentSnapshot w m
  if mkNil then (r.1, { mgr := m, current := r.2, next := none, committed := false, rolledBack := false })
  else
    let n := r.1.nSnap
    ({ r.1 with ref := fun j => if j = n then 1 else r.1.ref j, nSnap := n + 1 },
     { mgr := m, current := r.2, next := some n, committed := false, rolledBack := false })

/-- `Transition.Commit` -/
def tCommit (w : World) (t : Transition) : World × Transition :=
  if t.committed then (w, t) else (replaceSnapshot w t.mgr t.next, { t with committed := true })

/-- `Transition.Rollback` (not idempotent on its own: only `Transaction.finalized` guards it) -/
def tRollback (w : World) (t : Transition) : World × Transition :=
  if t.committed then (w, t) else (decOpt (decOpt w t.next) t.current, { t with rolledBack := true })

/-- `Transition.Release` → `reset`: a committed transition drops the pin taken in `NewTransition`; all fields are
cleared before the object goes back to the pool. -/
def tRelease (w : World) (t : Transition) : World × Transition :=
  (if t.committed then decOpt w t.current else w,
   { t with current := none, next := none, committed := false })

structure Transaction where
  ts : List Transition
  finalized : Bool
deriving Repr

/-- `for _, commit := range txn.commits { commit() }` -/
def commitAll (w : World) : List Transition → World × List Transition
  | [] => (w, [])
  | t :: ts =>
    let r1 := tCommit w t
    let r2 := commitAll r1.1 ts
    (r2.1, r1.2 :: r2.2)

/-- `Transaction.Commit` -/
def commit (w : World) (x : Transaction) : World × Transaction :=
  if x.finalized then (w, x)
  else
    let r := commitAll w x.ts
    (r.1, { ts := r.2, finalized := true })

/-- `for i := len(txn.rollbacks)-1; i >= 0; i-- { txn.rollbacks[i]() }` (LIFO) -/
def rollbackAll (w : World) : List Transition → World × List Transition
  | [] => (w, [])
  | t :: ts =>
    let r2 := rollbackAll w ts
    let r1 := tRollback r2.1 t
    (r1.1, r1.2 :: r2.2)

/-- `Transaction.Rollback` -/
def rollback (w : World) (x : Transaction) : World × Transaction :=
  if x.finalized then (w, x)
  else
    let r := rollbackAll w x.ts
    (r.1, { ts := r.2, finalized := true })

/-- caller side: `for _, t := range transitions { t.Release() }` -/
def releaseAll (w : World) : List Transition → World × List Transition
  | [] => (w, [])
  | t :: ts =>
    let r1 := tRelease w t
    let r2 := releaseAll r1.1 ts
    (r2.1, r1.2 :: r2.2)

/-- `AddTransition(txn, NewTransition(mgr, prepare))` -/
def addTransition (w : World) (x : Transaction) (m : Nat) (mkNil : Bool) : World × Transaction :=
  let r := newTransition w m mkNil
  (r.1, { x with ts := x.ts ++ [r.2] })

end Txn

/-! ## trace/introducer.go commitSnapshotTransaction: publication fence -/
namespace Pub

/-- What the two snapshot managers of one trace table currently publish:
`core` = trace ids whose spans are reachable through the core snapshot,
`sidx` = trace ids listed by the ordered secondary index snapshot. -/
structure View where
  core : List Nat
  sidx : List Nat
deriving Repr, DecidableEq

/-- one prepared transaction: the pair of next snapshots (either side may be unchanged) and the order in which
`Transaction.Commit` runs the two `ReplaceSnapshot`s (`sidxFirst`, as in introduceFlushedForSync / introduceSync). -/
structure Prepared where
  next : View
  sidxFirst : Bool
deriving Repr, DecidableEq

/-- `index entry visible → spans visible` -/
def Consistent (v : View) : Prop := ∀ t, t ∈ v.sidx → t ∈ v.core

/-- the two `ReplaceSnapshot` calls of one `txn.Commit()`, as seen WITHOUT the fence: intermediate view first -/
def commitSteps (v : View) (p : Prepared) : List View :=
  if p.sidxFirst then [{ v with sidx := p.next.sidx }, p.next] else [{ v with core := p.next.core }, p.next]

/-- with `snapshotPublicationMu` held (Lock) the whole commit is one step for a reader that holds RLock while it
pins the sidx view and then the core view. -/
def commitFenced (_v : View) (p : Prepared) : View := p.next

def runFenced (v : View) : List Prepared → View
  | [] => v
  | p :: ps => runFenced (commitFenced v p) ps

/-- every view a fenced reader can pin while the transactions `ps` are committed one after another -/
def fencedViews (v : View) : List Prepared → List View
  | [] => [v]
  | p :: ps => v :: fencedViews (commitFenced v p) ps

/-- a reader WITHOUT the fence pins sidx at one micro-state and core at a later-or-equal micro-state -/
def microStates (v : View) : List Prepared → List View
  | [] => [v]
  | p :: ps => v :: (commitSteps v p).dropLast ++ microStates p.next ps

end Pub

end Banyan.C05
