/-
C06 — time segments partition the timeline. L1 model mirroring
  /repo/banyand/internal/storage/segment.go   segmentController.create / load+sortLst / selectSegments /
                                              open+loadSegments (reopen)
The list is `segmentController.lst`; mutation is modelled by returning the new list.
`create` is the function *after* the repair proposed in /verif/fixes/F5.diff; `create_legacy` is the
function as written at the pinned commit.
-/
import Banyan.Model.Time

namespace Banyan.C06
open Banyan.Time

/-- `for i := range sc.lst { s := sc.lst[last-i]; if s.Contains(ts) { return s } }` -/
def findContaining (lst : List Seg) (ts : Int) : Option Seg :=
  lst.reverse.find? fun s => s.range.contains ts

/-- `load`: `sc.lst = append(sc.lst, seg); sc.sortLst()` – the list is already ordered by id and the
    new id is fresh (an existing directory of the same name makes `MkdirPanicIfExist` panic before),
    so the sort is an ordered insertion. -/
def insertSeg (g : Grid) (n : Seg) : List Seg → List Seg
  | [] => [n]
  | s :: rest => if g.key n.start < g.key s.start then n :: s :: rest else s :: insertSeg g n rest

inductive CreateResult where
  /-- `ErrInvalidSegmentTimestamp` -/
  | invalid
  /-- an existing segment already contains `ts` -/
  | existing (s : Seg)
  /-- a new segment was created -/
  | created (s : Seg) (lst : List Seg)
  /-- `MkdirPanicIfExist`: the directory name of the new start is already taken -/
  | panic
  deriving Repr

/-- the single pass of the repaired `create`: no existing segment contains `ts`, so each lies wholly
    before it (bump `start` to the latest such end) or wholly after it (cap `end` at the earliest
    such start). -/
def capScan (ts : Int) : List Seg → Int → Int → Int × Int
  | [], st, en => (st, en)
  | s :: rest, st, en =>
    if ¬ (s.end_ > ts) then
      capScan ts rest (if s.end_ > st then s.end_ else st) en
    else
      capScan ts rest st (if s.start < en then s.start else en)

def finishCreate (g : Grid) (lst : List Seg) (start end_ : Int) : CreateResult :=
  if lst.any (fun s => g.key s.start = g.key start) then .panic
  else
    let n : Seg := { start := start, end_ := end_, metaEnd := some end_, ref := 0 }
    .created n (insertSeg g n lst)

/-- `segmentController.create` (repaired, F5). -/
def create (g : Grid) (lst : List Seg) (ts : Int) : CreateResult :=
  if ts ≤ 0 then .invalid
  else match findContaining lst ts with
    | some s => .existing s
    | none =>
      let alignedStart := g.std ts
      let stdEnd := g.next alignedStart
      let (start, end_) := capScan ts lst alignedStart stdEnd
      finishCreate g lst start end_

/-- the single pass of `create` as written at the pinned commit: bump `start` past every segment
    that swallows it, remember the first segment that starts after it. -/
def bumpScan : List Seg → Int → Option Seg → Int × Option Seg
  | [], start, next => (start, next)
  | s :: rest, start, next =>
    if s.range.contains start then bumpScan rest s.end_ next
    else if next.isNone && decide (s.start > start) then bumpScan rest start (some s)
    else bumpScan rest start next

/-- `segmentController.create` as written at the pinned commit (finding F5). -/
def create_legacy (g : Grid) (lst : List Seg) (ts : Int) : CreateResult :=
  if ts ≤ 0 then .invalid
  else match findContaining lst ts with
    | some s => .existing s
    | none =>
      let alignedStart := g.std ts
      let stdEnd := g.next alignedStart
      let (start, next) := bumpScan lst alignedStart none
      let end_ := match next with
        | some n => if n.start < stdEnd then n.start else stdEnd
        | none => stdEnd
      finishCreate g lst start end_

/-- the loop of `selectSegments` over the reversed list, with its early `break`. -/
def selectLoop (r : TimeRange) : List Seg → List Seg
  | [] => []
  | s :: rest =>
    if s.end_ < r.start then []
    else if s.range.overlapping r then s :: selectLoop r rest
    else selectLoop r rest

/-- `segmentController.selectSegments` (result order = newest first, as in the code). -/
def selectSegments (lst : List Seg) (r : TimeRange) : List Seg := selectLoop r lst.reverse

/-! ### reopen: `open` + `loadSegments` -/

/-- ordered insertion by start time: `sort.Slice(startTimeLst, Before)` -/
def insertByStart (x : Int × Option Int) : List (Int × Option Int) → List (Int × Option Int)
  | [] => [x]
  | y :: rest => if x.1 < y.1 then x :: y :: rest else y :: insertByStart x rest

def sortByStart (l : List (Int × Option Int)) : List (Int × Option Int) :=
  l.foldr insertByStart []

/-- `loadSegments`: end of each directory = start of the next one, the last one gets
    `intervalRule.NextTime(start)`; `open`'s callback then prefers the persisted `endTime`.
    Directories whose start is not after the epoch are dropped (and removed) by `open`. -/
def loadEnds (next : Int → Int) : List (Int × Option Int) → List Seg
  | [] => []
  | [(st, me)] =>
    if st ≤ 0 then [] else [{ start := st, end_ := me.getD (next st), metaEnd := me, ref := 0 }]
  | (st, me) :: (st', me') :: rest =>
    let tail := loadEnds next ((st', me') :: rest)
    if st ≤ 0 then tail else { start := st, end_ := me.getD st', metaEnd := me, ref := 0 } :: tail

/-- close + `OpenTSDB`: every directory name is parsed back to a start time, the list is rebuilt
    (each `load` = ordered insertion by id). -/
def reopen (g : Grid) (rp : Int → Int) (lst : List Seg) : List Seg :=
  let dirs := sortByStart (lst.map fun s => (rp s.start, s.metaEnd))
  (loadEnds g.next dirs).foldl (fun acc s => insertSeg g s acc) []

end Banyan.C06
