/-
C07 — retention removes only fully expired segments and hides them at once. L1 model mirroring
  /repo/banyand/internal/storage/segment.go   remove / removeOldest / getRetentionDeadline
  /repo/banyand/internal/storage/tsdb.go      database.SelectSegments / DeleteOldestSegment /
                                              UpdateOptions / OpenTSDB (what it captures)
  /repo/banyand/internal/storage/rotation.go  Tick, the rotation goroutine's event handler,
                                              retentionTask.run
`retentionRun` is `retentionTask.run` *after* the repair proposed in /verif/fixes/F7.diff (deadline
from the current TTL option); `retentionRun_legacy` uses the duration captured when the task was
created by `OpenTSDB`. `tick` is the event handler as written (retention deadline from the tick's
event time, finding F71, known); `tick_repaired` is the proposed repair of /verif/fixes/F71.diff.
-/
import Banyan.Model.C06

namespace Banyan.C07
open Banyan.Time Banyan.C06

/-- `segmentController.remove(deadline)`: every segment whose range is `Before(deadline)` is deleted
    and taken out of the list (the sequential driver holds no pins, so deletion is immediate). -/
def remove (lst : List Seg) (deadline : Int) : List Seg :=
  lst.filter fun s => !s.range.before deadline

/-- segments deleted by `remove` -/
def removed (lst : List Seg) (deadline : Int) : List Seg :=
  lst.filter fun s => s.range.before deadline

/-- `segmentController.removeOldest`: keep-one rule, else drop `sc.lst[0]`. -/
def removeOldest : List Seg → Bool × List Seg
  | [] => (false, [])
  | [s] => (false, [s])
  | _ :: s :: rest => (true, s :: rest)

/-- `DeleteOldestSegment` behind the retention gate (`select { case d.retentionGate <- struct{}{}: … default: return false }`):
    when the gate is held by a retention run the forced cleanup does nothing. -/
def gatedDeleteOldest (gateBusy : Bool) (lst : List Seg) : Bool × List Seg :=
  if gateBusy then (false, lst) else removeOldest lst

/-- `segmentController.removeSeg` on the ids of the list: drop the first entry whose id equals `segID`
    (`for i, b := range sc.lst { if b.id == segID { … break } }`). -/
def removeSeg (segID : Nat) : List Nat → List Nat
  | [] => []
  | b :: rest => if b = segID then rest else b :: removeSeg segID rest

/-- `getRetentionDeadline`: `clock.Now().Add(-TTL.estimatedDuration())` -/
def retentionDeadline (now : Int) (ttl : IntervalRule) : Int := now - ttl.estimatedDuration

def pin (sel : List Seg) (s : Seg) : Seg :=
  if sel.any (fun x => x.start = s.start) then { s with ref := s.ref + 1 } else s

def unpin (drop : List Seg) (s : Seg) : Seg :=
  if drop.any (fun x => x.start = s.start) then { s with ref := s.ref - 1 } else s

/-- `database.SelectSegments`: `selectSegments` pins every overlapping segment, then the segments
    wholly before the retention deadline are released (`DecRef`) and dropped from the result.
    Returns the result and the list with the pins the caller now holds. -/
def dbSelect (lst : List Seg) (r : TimeRange) (deadline : Int) : List Seg × List Seg :=
  let sel := selectSegments lst r
  let pinned := lst.map (pin sel)
  let dropped := sel.filter fun s => s.range.before deadline
  let kept := sel.filter fun s => !s.range.before deadline
  (kept.map (pin sel), pinned.map (unpin dropped))

/-! ### the database as driven by histories -/

structure DB where
  unit : IUnit
  /-- current `SegmentInterval.Num` option -/
  num : Int
  /-- current `TTL` option -/
  ttl : IntervalRule
  /-- `retentionTask.duration`: captured from the TTL option by `OpenTSDB` -/
  taskDuration : Int
  /-- mock clock -/
  clock : Int
  /-- `latestTickTime` -/
  latestTick : Int
  /-- the rotation goroutine has died from a panic -/
  rotationDead : Bool
  lst : List Seg
  deriving Repr

def DB.rule (d : DB) : IntervalRule := ⟨d.unit, d.num⟩
def DB.grid (z : Zone) (d : DB) : Grid := gridOf z d.rule

/-- `retentionTask.run(now)` after the repair: deadline from the *current* TTL. -/
def retentionRun (d : DB) (now : Int) : DB :=
  { d with lst := remove d.lst (now - d.ttl.estimatedDuration) }

/-- `retentionTask.run` behind the same gate: skipped while a forced cleanup holds it. -/
def gatedRetentionRun (gateBusy : Bool) (d : DB) (now : Int) : DB :=
  if gateBusy then d else retentionRun d now

/-- `retentionTask.run(now)` as written at the pinned commit (finding F7). -/
def retentionRun_legacy (d : DB) (now : Int) : DB :=
  { d with lst := remove d.lst (now - d.taskDuration) }

/-- `OpenTSDB` on the directories of `d` with the current options. -/
def DB.reopen (z : Zone) (d : DB) : DB :=
  { d with lst := C06.reopen (d.grid z) (reparse z d.unit) d.lst,
           taskDuration := d.ttl.estimatedDuration, latestTick := 0, rotationDead := false }

def timeEventSnapDuration : Int := 600 * nsPerSec
def newSegmentTimeGap : Int := hourNs

inductive TickResult where
  | skip
  | ok
  | dead
  deriving Repr, DecidableEq

/-- `Tick(ts)` followed by the rotation goroutine's handling of the event: a retention run with
    `retNow` as its `now`, then pre-creation of the next segment when the newest one ends within
    `newSegmentTimeGap` of the event time. -/
def tickWith (z : Zone) (d : DB) (ts retNow : Int) : TickResult × DB :=
  if ts ≤ 0 then (.skip, d)
  else if ts - timeEventSnapDuration < d.latestTick then (.skip, d)
  else
    let d := { d with latestTick := ts }
    if d.rotationDead then (.dead, d)
    else
      let d := retentionRun d retNow
      match d.lst.getLast? with
      | none => (.ok, d)
      | some latest =>
        let gap := latest.end_ - ts
        if gap ≤ 0 ∨ gap > newSegmentTimeGap then (.ok, d)
        else
          let start := d.rule.nextTime z ts
          match create (d.grid z) d.lst start with
          | .created _ lst' => (.ok, { d with lst := lst' })
          | .panic => (.ok, { d with rotationDead := true })
          | _ => (.ok, d)

/-- the event handler **as written**: the *event* time of the write batch (the largest timestamp of
    the batch, whatever the clock says) is handed to the retention run as `now` (finding F71, known). -/
def tick (z : Zone) (d : DB) (ts : Int) : TickResult × DB := tickWith z d ts ts

/-- PROPOSED REPAIR (/verif/fixes/F71.diff, not applied to /repo: upstream tests that ingest old-dated
    data rely on event-time retention): retention judges expiry by the clock, as the cron trigger and
    the query path do. -/
def tick_repaired (z : Zone) (d : DB) (ts : Int) : TickResult × DB := tickWith z d ts d.clock

/-! ### operations of a history (what the correspondence drivers execute) -/

inductive Op where
  /-- mock clock set -/
  | clock (t : Int)
  /-- `UpdateOptions` with a new TTL -/
  | ttl (r : IntervalRule)
  /-- `UpdateOptions` with a new segment interval number (same unit) -/
  | interval (n : Int)
  /-- `CreateSegmentIfNotExist(ts)` (the pin it takes is released at once) -/
  | create (ts : Int)
  /-- the registered retention action fired at the current clock time -/
  | retention
  /-- `Tick(ts)` and the rotation goroutine's handling of it -/
  | tick (ts : Int)
  /-- `DeleteOldestSegment` -/
  | delold
  /-- close + `OpenTSDB` -/
  | reopen
  /-- `SelectSegments(r, true)` followed by `DecRef` of the result -/
  | select (r : TimeRange)

/-- the database after one operation, for a given tick handler -/
def applyOpWith (tk : DB → Int → TickResult × DB) (z : Zone) (d : DB) : Op → DB
  | .clock t => { d with clock := t }
  | .ttl r => { d with ttl := r }
  | .interval n => { d with num := n }
  | .create ts =>
    match create (d.grid z) d.lst ts with
    | .created _ l => { d with lst := l }
    | _ => d
  | .retention => retentionRun d d.clock
  | .tick ts => (tk d ts).2
  | .delold => { d with lst := (removeOldest d.lst).2 }
  | .reopen => d.reopen z
  | .select _ => d

/-- the database after one operation — the code as written (what the correspondence drivers run) -/
def applyOp (z : Zone) (d : DB) (op : Op) : DB := applyOpWith (tick z) z d op

/-- PROPOSED REPAIR: the same with the repaired tick handler -/
def applyOpRepaired (z : Zone) (d : DB) (op : Op) : DB := applyOpWith (tick_repaired z) z d op

end Banyan.C07
