/-
Line protocol of the `seg` drivers (C06 and C07 share it): parsing, the history interpreter over
the C06/C07 models, printing. Counterpart of /verif/hooks/banyand/internal/verifdrv/seg/main.go.
-/
import Banyan.Model.C07

namespace Banyan.SegWire
open Banyan Banyan.Time Banyan.C06 Banyan.C07

def splitOnChar (c : Char) (s : String) : List String := s.splitOn (String.singleton c)

/-- `B,at:off,at:off` in seconds → zone in ns -/
def parseZone (s : String) : Option Zone :=
  match splitOnChar ',' s with
  | [] => none
  | b :: rest => do
    let base ← b.toInt?
    let tbl ← rest.mapM fun e =>
      match splitOnChar ':' e with
      | [a, o] => do
        let a ← a.toInt?
        let o ← o.toInt?
        pure (a * nsPerSec, o * nsPerSec)
      | _ => none
    pure (tableOffset (base * nsPerSec) tbl)

def parseUnit : String → Option IUnit
  | "H" => some .hour
  | "D" => some .day
  | _ => none

/-- civil date of a day number (days since 1970-01-01), proleptic Gregorian -/
def civilOfDays (days : Int) : Int × Int × Int :=
  let z := days + 719468
  let era := z / 146097
  let doe := z - era * 146097
  let yoe := (doe - doe / 1460 + doe / 36524 - doe / 146096) / 365
  let y := yoe + era * 400
  let doy := doe - (365 * yoe + yoe / 4 - yoe / 100)
  let mp := (5 * doy + 2) / 153
  let d := doy - (153 * mp + 2) / 5 + 1
  let m := if mp < 10 then mp + 3 else mp - 9
  (if m ≤ 2 then y + 1 else y, m, d)

def pad (n : Nat) (v : Int) : String :=
  let s := toString v.toNat
  String.ofList (List.replicate (n - s.length) '0') ++ s

/-- `FormatSegmentTime`: `20060102` / `2006010215` of the start in the zone -/
def suffix (z : Zone) (u : IUnit) (start : Int) : String :=
  let w := wall z start
  let (y, m, d) := civilOfDays (w / dayNs)
  match u with
  | .day => pad 4 y ++ pad 2 m ++ pad 2 d
  | .hour => pad 4 y ++ pad 2 m ++ pad 2 d ++ pad 2 ((w % dayNs) / hourNs)

def insertStr (x : String) : List String → List String
  | [] => [x]
  | y :: r => if x < y then x :: y :: r else y :: insertStr x r

def showState (z : Zone) (d : DB) : String :=
  let segs := d.lst.map fun s => s!"{s.start},{s.end_},{suffix z d.unit s.start}"
  let dirs := (d.lst.map fun s => suffix z d.unit s.start).foldr insertStr []
  "[" ++ ";".intercalate segs ++ "] {" ++ ",".intercalate dirs ++ "}"

def parseLegacy (s : String) : Option (List (Int × Option Int)) :=
  if s == "-" then some []
  else (splitOnChar ',' s).mapM fun e =>
    match splitOnChar ':' e with
    | [a, b] => do
      let a ← a.toInt?
      if b == "-" then pure (a, none) else do
        let b ← b.toInt?
        pure (a, some b)
    | _ => none

def parseOp : List String → Option Op
  | ["create", ts] => ts.toInt?.map .create
  | ["select", a, b, ia, ib] => do
    let a ← a.toInt?
    let b ← b.toInt?
    pure (.select ⟨a, b, ia == "1", ib == "1"⟩)
  | ["interval", n] => do
    let n ← n.toInt?
    if n < 1 then none else pure (.interval n)
  | ["ttl", u, n] => do
    let u ← parseUnit u
    let n ← n.toInt?
    if n < 1 then none else pure (.ttl ⟨u, n⟩)
  | ["reopen"] => some .reopen
  | ["clock", t] => t.toInt?.map .clock
  | ["tick", ts] => ts.toInt?.map .tick
  | ["retention"] => some .retention
  | ["delold"] => some .delold
  | _ => none

/-- what the implementation driver prints as the result of one operation applied in state `d` -/
def resultToken (z : Zone) (d : DB) : Op → String
  | .create ts =>
    match create (d.grid z) d.lst ts with
    | .invalid => "c:EINVAL"
    | .existing s => s!"c:{s.start},{s.end_},{suffix z d.unit s.start}"
    | .created s _ => s!"c:{s.start},{s.end_},{suffix z d.unit s.start}"
    | .panic => "PANIC"
  | .select r =>
    let (res, pinned) := dbSelect d.lst r (retentionDeadline d.clock d.ttl)
    let starts := "+".intercalate (res.map fun s => toString s.start)
    let refs := ",".intercalate (pinned.map fun s => toString s.ref)
    s!"s:{starts};r:{refs}"
  | .interval _ | .ttl _ => "u:ok"
  | .reopen => "o:ok"
  | .clock _ => "k:ok"
  | .tick ts =>
    match (tick z d ts).1 with
    | .skip => "t:skip"
    | .ok => "t:ok"
    | .dead => "t:dead"
  | .retention => "r:ok"
  | .delold => if (removeOldest d.lst).1 then "d:1" else "d:0"

/-- one operation: result token and new state (`peekold` is a pure observation) -/
def step (z : Zone) (d : DB) (ws : List String) : Option (String × DB) :=
  match ws with
  | ["retcreate", ts] =>
    -- a retention run with a create issued while its first physical delete is in progress: the
    -- create sees the list before the removals, the removals then take the expired segments out
    (parseOp ["create", ts]).map fun op =>
      (resultToken z d op, applyOp z (applyOp z d op) .retention)
  | ["delrace"] =>
    -- lifecycle deleteExpiredSegments(oldest) racing DeleteOldestSegment on the same segment:
    -- exactly the oldest segment goes (forced cleanup reports it unless it is the last one)
    match d.lst with
    | [] => some ("x:-", d)
    | [_] => some ("x:1,0", { d with lst := [] })
    | _ :: rest => some ("x:1,1", { d with lst := rest })
  | ["peekold"] =>
    match d.lst with
    | s :: _ :: _ => some (s!"p:{s.end_}", d)
    | _ => some ("p:-", d)
  | _ => (parseOp ws).map fun op => (resultToken z d op, applyOp z d op)

/-- split the op list at the `|` tokens -/
def splitOps : List String → List String → List (List String)
  | [], cur => [cur.reverse]
  | "|" :: rest, cur => cur.reverse :: splitOps rest []
  | w :: rest, cur => splitOps rest (w :: cur)

def runOps (z : Zone) : DB → List (List String) → List String → Option (List String)
  | _, [], acc => some acc.reverse
  | d, op :: rest, acc =>
    match step z d op with
    | none => none
    | some (tok, d') => runOps z d' rest ((tok ++ " " ++ showState z d') :: acc)

/-- the first token may carry a case-kind tag after a dot (`std.dst`, `hist.legacy`) -/
def kindOf (w : String) : String := (splitOnChar '.' w).headD ""

def handle (line : String) : String :=
  match (match words line with | w :: r => kindOf w :: r | [] => []) with
  | ["rms", t, ids] =>
    match t.toNat?, (if ids == "-" then some [] else (splitOnChar ',' ids).mapM String.toNat?) with
    | some t, some l =>
      let r := removeSeg t l
      if r.isEmpty then "-" else ",".intercalate (r.map toString)
    | _, _ => "bad-op"
  | ["std", _, zt, u, n, t] =>
    match parseZone zt, parseUnit u, n.toInt?, t.toInt? with
    | some z, some u, some n, some t =>
      if n < 1 then "bad-op" else
      let r : IntervalRule := ⟨u, n⟩
      let s := r.standard z t
      let n := r.nextTime z s
      s!"{s} {n} {r.standard z s} {r.nextTime z t} {r.standard z n} {r.standard z (n - 1)}"
    | _, _, _, _ => "bad-op"
  | "hist" :: _ :: zt :: u :: n :: tu :: tn :: clk :: leg :: rest =>
    match parseZone zt, parseUnit u, n.toInt?, parseUnit tu, tn.toInt?, clk.toInt?, parseLegacy leg with
    | some z, some u, some n, some tu, some tn, some clk, some leg =>
      if n < 1 ∨ tn < 1 then "bad-op" else
      let d0 : DB := { unit := u, num := n, ttl := ⟨tu, tn⟩, taskDuration := 0, clock := clk,
                       latestTick := 0, rotationDead := false,
                       lst := leg.map fun (st, me) => { start := st, end_ := st, metaEnd := me, ref := 0 } }
      let d := d0.reopen z
      let ops := match rest with
        | [] => []
        | "|" :: r => splitOps r []
        | _ => [["?"]]
      match runOps z d ops ["o:ok " ++ showState z d] with
      | some out => " | ".intercalate out
      | none => "bad-op"
    | _, _, _, _, _, _, _ => "bad-op"
  | _ => "bad-op"

end Banyan.SegWire
