/-
C08 — criteria mean the same with or without indexes and pruning. L1 models mirroring

  /repo/pkg/query/logical/tag_filter.go, expr_literal.go   (BuildTagFilter / Match: `eval`)
  /repo/pkg/filter/bloom_filter.go                          (`Bloom`: NewBloomFilter, Add, MightContain, ContainsAll)
  /repo/pkg/filter/dictionary_filter.go                     (`Dict`: MightContain, ContainsAll, extractElements)
  /repo/pkg/encoding/vararray/vararray.go                   (UnmarshalVarArray, in-place, for the legacy dictionary)
  /repo/banyand/stream/tag_filter.go                        (tagFamilyFilters.Eq / Range / Having)
  /repo/banyand/internal/sidx/tag_filter_op.go              (tagFilterOp.Eq / Range / Having)
  /repo/pkg/query/logical/stream/index_filter.go            (buildLocalFilter, ShouldSkip, Execute)
  /repo/pkg/query/logical/trace/index_filter.go             (buildFilter, ShouldSkip)
  /repo/banyand/stream/part_iter.go                         (findBlock: series / time / block-filter pruning)

The models are of the *repaired* functions (fixes F9, F21–F25, F27, F29 in /verif/fixes); every repaired
function has a `_legacy` twin that mirrors the code at the pinned commit, used for the counterexample theorems.
Core Lean only.
-/
import Banyan.Model.Util
import Banyan.Model.C12

namespace Banyan.C08
open Banyan

abbrev Bytes := List Byte
abbrev I64 := BitVec 64

/-! ## 1. typed tag values, criteria trees, the scan predicate (`pkg/query/logical/tag_filter.go`) -/

/-- A tag value as the tag filter sees it (`parseExpr` of a `modelv1.TagValue`). -/
inductive Val where
  | null
  | str (s : Bytes)
  | int (v : I64)
  | strArr (a : List Bytes)
  | intArr (a : List I64)
  deriving DecidableEq, Repr

inductive Op where
  | eq | ne | lt | le | gt | ge | in_ | notIn | having | notHaving | match_
  deriving DecidableEq, Repr

/-- `modelv1.Criteria`: a condition `(op, tag index, literal)` or a binary AND / OR. -/
inductive Criteria where
  | leaf (op : Op) (tag : Nat) (lit : Val)
  | and (l r : Criteria)
  | or (l r : Criteria)
  deriving Repr

/-- Type of a tag in the schema (`databasev1.TagType`). -/
inductive TagType where
  | str | int | strArr | intArr
  deriving DecidableEq, Repr

def TagType.isArray : TagType → Bool
  | .strArr => true | .intArr => true | _ => false

/-- A row: one optional value per schema tag; `none` = the accessor returns a nil `*TagValue`
    (row shorter than the schema) which makes `Match` fail with `ErrTagNotDefined`. -/
abbrev Row := List (Option Val)

/-- Three-way comparison of the repaired `int64Literal.Compare` (`compareInt64`). -/
def cmpI64 (a b : I64) : Int := if a.slt b then -1 else if a = b then 0 else 1

/-- `int64Literal.Compare` at the pinned commit: `int(i.int64 - o.int64)`, two's-complement wrap. -/
def cmpI64_legacy (a b : I64) : Int := (a - b).toInt

/-- `strings.Compare`. -/
def cmpBytes (a b : Bytes) : Int := if lexLt a b then -1 else if a = b then 0 else 1

/-- `lit.Compare(v)`: `some c` when comparable (`(c, true)`), `none` for `(0, false)`. -/
def litCompare (cmpInt : I64 → I64 → Int) : Val → Val → Option Int
  | .int a, .int b => some (cmpInt a b)
  | .str a, .str b => some (cmpBytes a b)
  | .strArr a, .strArr b => if a = b then some 0 else none
  | .intArr a, .intArr b => if a = b then some 0 else none
  | _, _ => none

/-- `lit.Equal(v)`. -/
def litEqual : Val → Val → Bool
  | .int a, .int b => a == b
  | .str a, .str b => a == b
  | .strArr a, .strArr b => a == b
  | .intArr a, .intArr b => a == b
  | _, _ => false

/-- `v.Contains(lit)` (receiver = the row's tag value). Same-type scalar pairs compare *pointers*
    of two distinct literal objects in the Go code and are therefore always false. -/
def valContains : Val → Val → Bool
  | .int v, .intArr l => l.length == 1 && l.head? == some v
  | .intArr v, .int l => v.contains l
  | .intArr v, .intArr l => l.all (fun x => v.contains x)
  | .str v, .strArr l => l.length == 1 && l.head? == some v
  | .strArr v, .str l => v.contains l
  | .strArr v, .strArr l => l.all (fun x => v.contains x)
  | _, _ => false

/-- `v.BelongTo(lit)`. -/
def valBelongTo : Val → Val → Bool
  | .int v, .intArr l => l.contains v
  | .intArr v, .int l => v.length == 1 && v.head? == some l
  | .intArr v, .intArr l => v.all (fun x => l.contains x)
  | .str v, .strArr l => l.contains v
  | .strArr v, .str l => v.length == 1 && v.head? == some l
  | .strArr v, .strArr l => v.all (fun x => l.contains x)
  | _, _ => false

/-- `rangeTag.Match` with one bound. `lower = true`: the literal is `Opts.Lower`. -/
def rangeMatch (cmpInt : I64 → I64 → Int) (lower incl : Bool) (lit v : Val) : Bool :=
  match litCompare cmpInt lit v with
  | none => false
  | some c =>
    if lower then (if incl then !(c > 0) else !(c ≥ 0))
    else (if incl then !(c < 0) else !(c ≤ 0))

/-- A leaf predicate on a present tag value. `mt` is the MATCH semantics (opaque: analyzer-dependent). -/
def leafEval (cmpInt : I64 → I64 → Int) (mt : Val → Val → Bool) (op : Op) (lit v : Val) : Bool :=
  match op with
  | .eq => litEqual lit v
  | .ne => !litEqual lit v
  | .gt => rangeMatch cmpInt true false lit v
  | .ge => rangeMatch cmpInt true true lit v
  | .lt => rangeMatch cmpInt false false lit v
  | .le => rangeMatch cmpInt false true lit v
  | .in_ => valBelongTo v lit
  | .notIn => !valBelongTo v lit
  | .having => valContains v lit
  | .notHaving => !valContains v lit
  | .match_ => mt v lit

def Row.get (r : Row) (tag : Nat) : Option Val := (r[tag]?).join

/-- `TagFilter.Match`: `none` = error (missing tag value); AND/OR evaluate both sides (no short cut on
    values; the first error wins). -/
def evalWith (cmpInt : I64 → I64 → Int) (mt : Val → Val → Bool) : Criteria → Row → Option Bool
  | .leaf op tag lit, r => (r.get tag).map (leafEval cmpInt mt op lit)
  | .and a b, r => do
    let x ← evalWith cmpInt mt a r
    let y ← evalWith cmpInt mt b r
    pure (x && y)
  | .or a b, r => do
    let x ← evalWith cmpInt mt a r
    let y ← evalWith cmpInt mt b r
    pure (x || y)

def eval := evalWith cmpI64
def eval_legacy := evalWith cmpI64_legacy

/-- The brute-force answer: rows for which the predicate is true. -/
def holds (mt : Val → Val → Bool) (c : Criteria) (r : Row) : Bool := eval mt c r == some true

/-- Build-time outcome of `BuildTagFilter` against a schema. -/
inductive BuildErr where
  | tag   -- unknown tag
  | op    -- IN / NOT IN on an array-typed tag
  deriving DecidableEq, Repr

def buildCheck (schema : List TagType) : Criteria → Option BuildErr
  | .leaf op tag _ =>
    match schema[tag]? with
    | none => some .tag
    | some t => if (op = .in_ ∨ op = .notIn) ∧ t.isArray then some .op else none
  | .and a b => (buildCheck schema a).orElse fun _ => buildCheck schema b
  | .or a b => (buildCheck schema a).orElse fun _ => buildCheck schema b

/-! ## 2. xxhash64 (seed 0) — executable, used by the driver only; theorems quantify over the hash -/

namespace XX
def p1 : UInt64 := 11400714785074694791
def p2 : UInt64 := 14029467366897019727
def p3 : UInt64 := 1609587929392839161
def p4 : UInt64 := 9650029242287828579
def p5 : UInt64 := 2870177450012600261

def rotl (x : UInt64) (r : UInt64) : UInt64 := (x <<< r) ||| (x >>> (64 - r))
def round (acc input : UInt64) : UInt64 := rotl (acc + input * p2) 31 * p1
def mergeRound (acc v : UInt64) : UInt64 := (acc ^^^ round 0 v) * p1 + p4

def le (bs : List Byte) : UInt64 := (bs.foldr (fun b acc => acc * 256 + b) 0 : Nat).toUInt64

def stripes : Nat → List Byte → UInt64 × UInt64 × UInt64 × UInt64 → (UInt64 × UInt64 × UInt64 × UInt64) × List Byte
  | 0, bs, v => (v, bs)
  | f + 1, bs, (v1, v2, v3, v4) =>
    if bs.length < 32 then ((v1, v2, v3, v4), bs)
    else
      let v1 := round v1 (le (bs.take 8))
      let v2 := round v2 (le ((bs.drop 8).take 8))
      let v3 := round v3 (le ((bs.drop 16).take 8))
      let v4 := round v4 (le ((bs.drop 24).take 8))
      stripes f (bs.drop 32) (v1, v2, v3, v4)

def tail8 : Nat → List Byte → UInt64 → UInt64 × List Byte
  | 0, bs, h => (h, bs)
  | f + 1, bs, h =>
    if bs.length < 8 then (h, bs)
    else tail8 f (bs.drop 8) (rotl (h ^^^ round 0 (le (bs.take 8))) 27 * p1 + p4)

def sum64 (bs : List Byte) : UInt64 :=
  let n := bs.length
  let (h, rest) :=
    if n ≥ 32 then
      let ((v1, v2, v3, v4), rest) := stripes (n / 32 + 1) bs (p1 + p2, p2, 0, 0 - p1)
      let h := rotl v1 1 + rotl v2 7 + rotl v3 12 + rotl v4 18
      (mergeRound (mergeRound (mergeRound (mergeRound h v1) v2) v3) v4, rest)
    else (p5, bs)
  let h := h + n.toUInt64
  let (h, rest) := tail8 4 rest h
  let (h, rest) :=
    if rest.length ≥ 4 then (rotl (h ^^^ (le (rest.take 4) * p1)) 23 * p2 + p3, rest.drop 4) else (h, rest)
  let h := rest.foldl (fun h b => rotl (h ^^^ (b.toUInt64 * p5)) 11 * p1) h
  let h := h ^^^ (h >>> 33)
  let h := h * p2
  let h := h ^^^ (h >>> 29)
  let h := h * p3
  h ^^^ (h >>> 32)

def leBytes8 (u : UInt64) : List Byte := (List.range 8).map fun i => (u.toNat / 256 ^ i) % 256
end XX

/-- The real hash: `xxhash.Sum64`, as a `Nat`. -/
def xxh64 (bs : Bytes) : Nat := (XX.sum64 bs).toNat

/-! ## 3. Bloom filter (`pkg/filter/bloom_filter.go`) -/

/-- number of hash functions -/
def bloomK : Nat := 10

/-- `bits []uint64` flattened: bit `64*i + j` is bit `j` of word `i`. -/
structure Bloom where
  bits : List Bool
  deriving DecidableEq, Repr

/-- `NewBloomFilter(n)` / `ResizeBits(OptimalBitsSize(n))`: `n >> 2` words, at least one. -/
def bloomWords (n : Nat) : Nat := if n / 4 = 0 then 1 else n / 4

def Bloom.new (n : Nat) : Bloom := ⟨List.replicate (64 * bloomWords n) false⟩

/-- The `k` probe positions of an item: `hi = H(le8(H(item) + i))`, `idx = hi % maxBits`. `H` is a parameter. -/
def bloomIdxs (H : Bytes → Nat) (m : Nat) (item : Bytes) : List Nat :=
  (List.range bloomK).map fun i => H (XX.leBytes8 ((H item + i) % 2 ^ 64).toUInt64) % m

def Bloom.setAll (bf : Bloom) : List Nat → Bloom
  | [] => bf
  | i :: is => Bloom.setAll ⟨bf.bits.set i true⟩ is

/-- `Add`. -/
def Bloom.add (H : Bytes → Nat) (bf : Bloom) (item : Bytes) : Bloom :=
  bf.setAll (bloomIdxs H bf.bits.length item)

/-- `Add`'s return value: some probed bit was 0. -/
def Bloom.addIsNew (H : Bytes → Nat) (bf : Bloom) (item : Bytes) : Bool :=
  (bloomIdxs H bf.bits.length item).any fun i => bf.bits[i]? != some true

/-- `MightContain`. -/
def Bloom.mightContain (H : Bytes → Nat) (bf : Bloom) (item : Bytes) : Bool :=
  (bloomIdxs H bf.bits.length item).all fun i => bf.bits[i]? == some true

/-- `ContainsAll`. -/
def Bloom.containsAll (H : Bytes → Nat) (bf : Bloom) (items : List Bytes) : Bool :=
  items.all (bf.mightContain H)

def Bloom.addAll (H : Bytes → Nat) (bf : Bloom) (items : List Bytes) : Bloom :=
  items.foldl (Bloom.add H) bf

/-! ## 4. var-array codec and the dictionary filter (`pkg/filter/dictionary_filter.go`) -/

/-- `MarshalVarArray` appended for every element (same escaping as C12's entity values). -/
def marshalStrArr : List Bytes → Bytes
  | [] => []
  | e :: es => C12.marshalEntityValue e ++ marshalStrArr es

/-- The repaired element matcher `matchVarArrayElement(src, idx, v)` on the suffix `src[idx:]`:
    `some (equal, rest)`; `none` = malformed (dangling escape / no delimiter). `j` walks `v`. -/
def matchElem : Bytes → Bytes → Bool → Option (Bool × Bytes)
  | [], _, _ => none
  | b :: rest, v, m =>
    if b = C12.delim then some (m && v.isEmpty, rest)
    else if b = C12.esc then
      match rest with
      | [] => none
      | c :: rest' =>
        match v with
        | [] => matchElem rest' [] false
        | x :: v' => matchElem rest' v' (m && x == c)
    else
      match v with
      | [] => matchElem rest [] false
      | x :: v' => matchElem rest v' (m && x == b)

/-- inner loop of `extractElements` for one query value: scan the elements of the serialized array. -/
def findElem : Nat → Bytes → Bytes → Option Bool
  | 0, _, _ => some false
  | fuel + 1, ser, v =>
    match ser with
    | [] => some false
    | _ =>
      match matchElem ser v true with
      | none => none                       -- malformed: extractElements returns false
      | some (true, _) => some true
      | some (false, rest) => findElem fuel rest v

/-- `extractElements` for `ValueTypeStrArr` (repaired: no mutation). -/
def extractStrArr (ser : Bytes) : List Bytes → Bool
  | [] => true
  | v :: vs =>
    match findElem (ser.length + 1) ser v with
    | some true => extractStrArr ser vs
    | _ => false

/-- 8-byte chunks of a serialized int array (`for i := 0; i+8 <= len; i += 8`). -/
def chunks8 : Nat → Bytes → List Bytes
  | 0, _ => []
  | fuel + 1, bs => if bs.length < 8 then [] else bs.take 8 :: chunks8 fuel (bs.drop 8)

/-- `extractElements` for `ValueTypeInt64Arr`. -/
def extractIntArr (ser : Bytes) (vs : List Bytes) : Bool :=
  vs.all fun v => (chunks8 (ser.length + 1) ser).contains v

/-- `pbv1.ValueType` of a stored tag: the same four shapes as the schema's tag type. -/
abbrev VT := TagType

/-- `DictionaryFilter{values, valueType}`. -/
structure Dict where
  vt : VT
  values : List Bytes
  deriving DecidableEq, Repr

/-- `MightContain`. Array types: always false (asserted by the upstream tests). -/
def Dict.mightContain (d : Dict) (item : Bytes) : Bool :=
  if d.vt.isArray then false else d.values.contains item

/-- `ContainsAll` (repaired, pure). -/
def Dict.containsAll (d : Dict) (items : List Bytes) : Bool :=
  if items.isEmpty then true
  else match d.vt with
    | .strArr => d.values.any fun ser => extractStrArr ser items
    | .intArr => d.values.any fun ser => extractIntArr ser items
    | _ => items.all fun it => d.values.contains it

/-! ### legacy: `UnmarshalVarArray` decodes in place, `extractElements` calls it on the stored value -/

/-- slow path loop of `UnmarshalVarArray`: read index `r`, write index `w`; returns `(end, next, src')`. -/
def uvaLoop : Nat → Bytes → Nat → Nat → Option (Nat × Nat × Bytes)
  | 0, _, _, _ => none
  | fuel + 1, src, r, w =>
    match src[r]? with
    | none => none                                             -- "invalid variable array"
    | some b =>
      if b = C12.esc then
        match src[r + 1]? with
        | none => none                                         -- "invalid escape character"
        | some c => uvaLoop fuel (src.set w c) (r + 2) (w + 1)
      else if b = C12.delim then some (w, r + 1, src)
      else uvaLoop fuel (src.set w b) (r + 1) (w + 1)

def indexOf (x : Byte) : Bytes → Option Nat
  | [] => none
  | b :: bs => if b = x then some 0 else (indexOf x bs).map (· + 1)

/-- `UnmarshalVarArray(src, idx)` with its fast path; returns `(end, next, mutated src)`. -/
def unmarshalVarArrayInPlace (src : Bytes) (idx : Nat) : Option (Nat × Nat × Bytes) :=
  match src[idx]? with
  | none => none
  | some b0 =>
    if b0 = C12.delim then some (idx, idx + 1, src)
    else
      match indexOf C12.delim (src.drop idx) with
      | some rel =>
        match indexOf C12.esc ((src.drop idx).take rel) with
        | none => some (idx + rel, idx + rel + 1, src)
        | some e => uvaLoop (src.length + 1) src (idx + e) (idx + e)
      | none => uvaLoop (src.length + 1) src idx idx

/-- legacy inner loop for one query value; threads the mutated buffer. -/
def findElemLegacy : Nat → Bytes → Nat → Bytes → Option Bool × Bytes
  | 0, ser, _, _ => (some false, ser)
  | fuel + 1, ser, idx, v =>
    if idx ≥ ser.length then (some false, ser)
    else match unmarshalVarArrayInPlace ser idx with
      | none => (none, ser)
      | some (e, next, ser') =>
        if (ser'.drop idx).take (e - idx) = v then (some true, ser')
        else findElemLegacy fuel ser' next v

def extractStrArrLegacy (ser : Bytes) : List Bytes → Bool × Bytes
  | [] => (true, ser)
  | v :: vs =>
    match findElemLegacy (ser.length + 1) ser 0 v with
    | (some true, ser') => extractStrArrLegacy ser' vs
    | (_, ser') => (false, ser')

/-- legacy `ContainsAll` on string-array dictionaries: returns the answer and the (mutated) stored values. -/
def containsAllStrArrLegacy : List Bytes → List Bytes → Bool × List Bytes
  | [], _ => (false, [])
  | ser :: rest, items =>
    match extractStrArrLegacy ser items with
    | (true, ser') => (true, ser' :: rest)
    | (false, ser') =>
      let (r, rest') := containsAllStrArrLegacy rest items
      (r, ser' :: rest')

/-! ## 5. block summaries and the skipping filters -/

inductive FilterS where
  | none
  | bloom (bf : Bloom)
  | dict (d : Dict)
  deriving Repr

/-- the `Filter` interface as the engines use it -/
def FilterS.mightContain (H : Bytes → Nat) : FilterS → Bytes → Bool
  | .none, _ => true
  | .bloom bf, x => bf.mightContain H x
  | .dict d, x => d.mightContain x

def FilterS.containsAll (H : Bytes → Nat) : FilterS → List Bytes → Bool
  | .none, _ => true
  | .bloom bf, xs => bf.containsAll H xs
  | .dict d, xs => d.containsAll xs

/-- per-tag pruning summary of one block (`tagFilter` / `tagFilterCache`) -/
structure TagSummary where
  filter : FilterS
  min : Bytes
  max : Bytes
  vt : VT
  deriving Repr

/-- `tagFamilyFilters` / `tagFilterOp` of one block: summaries by tag index; a missing entry = tag not in the block. -/
abbrev BlockSummary := List (Nat × TagSummary)

def BlockSummary.find (s : BlockSummary) (tag : Nat) : Option TagSummary :=
  (s.find? fun p => p.1 == tag).map (·.2)

/-- `convert.Int64ToBytes` (ordered encoding, C12). -/
def encI64 (v : I64) : Bytes := C12.int64ToBytes v

/-- stored bytes of a literal: `LiteralExpr.Bytes()`. -/
def litBytes : Val → List Bytes
  | .null => []
  | .str s => [s]
  | .int v => [encI64 v]
  | .strArr a => a
  | .intArr a => a.map encI64

/-- `LiteralExpr.String()` of an int literal (decimal), used by the legacy skipping EQ. -/
def decimalBytes (v : I64) : Bytes := (toString v.toInt).toList.map (·.toNat)

/-- One-sided int range `index.RangeOpts` produced by `int64Literal.RangeOpts` (repaired: the implicit bound is
    inclusive). `lo`/`hi` are the bounds; a missing side is represented by MinInt64/MaxInt64. -/
structure IntRange where
  lo : I64
  hi : I64
  inclLo : Bool
  inclHi : Bool
  deriving Repr, DecidableEq

def minI64 : I64 := BitVec.intMin 64
def maxI64 : I64 := BitVec.intMax 64

/-- `expr.RangeOpts(isUpper, includeLower, includeUpper)` for an int literal, as the callers invoke it:
    GT `(false,false,false)`, GE `(false,true,false)`, LT `(true,false,false)`, LE `(true,false,true)`. -/
def intRangeOf (op : Op) (v : I64) : Option IntRange :=
  match op with
  | .gt => some ⟨v, maxI64, false, true⟩
  | .ge => some ⟨v, maxI64, true, true⟩
  | .lt => some ⟨minI64, v, true, false⟩
  | .le => some ⟨minI64, v, true, true⟩
  | _ => none

/-- the same at the pinned commit (implicit bound exclusive). -/
def intRangeOf_legacy (op : Op) (v : I64) : Option IntRange :=
  match op with
  | .gt => some ⟨v, maxI64, false, false⟩
  | .ge => some ⟨v, maxI64, true, false⟩
  | .lt => some ⟨minI64, v, false, false⟩
  | .le => some ⟨minI64, v, false, true⟩
  | _ => none

/-- the min/max test shared by `tagFamilyFilters.Range` and `tagFilterOp.Range` (both bounds present). -/
def rangeSkip (mn mx : Bytes) (r : IntRange) : Bool :=
  let lo := encI64 r.lo
  let hi := encI64 r.hi
  (lexLt mx lo || (!r.inclLo && mx == lo)) || (lexLt hi mn || (!r.inclHi && mn == hi))

/-- skipping-filter tree shared by both engines (`index.Filter` restricted to `ShouldSkip`). -/
inductive SFilter where
  | never                                  -- ENode (stream) / traceFilter, traceMatchFilter (trace): never skips
  | noskip                                 -- stream `not` node: never skips, but is not the ENode singleton
  | eq (tag : Nat) (probe : List Bytes)    -- probes = `Expr.Bytes()`
  | range (tag : Nat) (r : Option IntRange) (floatBounds : Bool)
  | having (tag : Nat) (probes : List Bytes)
  | and (l r : SFilter)
  | or (l r : SFilter)
  | traceAnd (l r : SFilter)               -- trace: AND also needs both sides to skip
  deriving Repr

inductive Engine where
  | stream | trace
  deriving DecidableEq, Repr

/-- `FilterOp.Eq`. stream (repaired F24): tag absent → true; no filter → true; else `ContainsAll([v])`.
    sidx (repaired F24): tag absent → false. -/
def opEq (H : Bytes → Nat) (e : Engine) (s : BlockSummary) (tag : Nat) (v : Bytes) : Bool :=
  match s.find tag with
  | none => e == .stream
  | some ts => ts.filter.containsAll H [v]

/-- `FilterOp.Eq` at the pinned commit: `MightContain`. -/
def opEq_legacy (H : Bytes → Nat) (e : Engine) (s : BlockSummary) (tag : Nat) (v : Bytes) : Bool :=
  match s.find tag with
  | none => e == .stream
  | some ts => ts.filter.mightContain H v

/-- `FilterOp.Having` (sidx): arrays → `ContainsAll`, scalars → any `MightContain`. -/
def opHaving (H : Bytes → Nat) (s : BlockSummary) (tag : Nat) (vs : List Bytes) : Bool :=
  match s.find tag with
  | none => false
  | some ts =>
    match ts.filter with
    | .none => true
    | f => if ts.vt.isArray then f.containsAll H vs else vs.any (f.mightContain H)

/-- `FilterOp.Range`: `some skip` or `none` (error: bound is not a float term). -/
def opRange (e : Engine) (s : BlockSummary) (tag : Nat) (r : Option IntRange) (floatBounds : Bool) : Option Bool :=
  match s.find tag with
  | none => some false
  | some ts =>
    match e with
    | .stream =>
      -- repaired (F62): a block without recorded bounds is never pruned
      if ts.min.isEmpty || ts.max.isEmpty then some false
      else match r with
        | none => if floatBounds then some false else none
        | some r => some (rangeSkip ts.min ts.max r)
    | .trace =>
      if ts.vt != .int || ts.min.isEmpty || ts.max.isEmpty then some false
      else match r with
        | none => if floatBounds then some false else none
        | some r => some (rangeSkip ts.min ts.max r)

/-- `ShouldSkip`: `none` = error. -/
def shouldSkip (H : Bytes → Nat) (e : Engine) (s : BlockSummary) : SFilter → Option Bool
  | .never => some false
  | .noskip => some false
  | .eq tag probe =>
    match probe with
    | [v] => some (!opEq H e s tag v)
    | _ => some false
  | .range tag r fb => opRange e s tag r fb
  | .having tag vs => some (!opHaving H s tag vs)
  | .and l r => do
    -- andNode.ShouldSkip: first sub-node that skips (or fails) decides
    let a ← shouldSkip H e s l
    if a then pure true else shouldSkip H e s r
  | .or l r => do
    let a ← shouldSkip H e s l
    if !a then pure false else shouldSkip H e s r
  | .traceAnd l r => do
    let a ← shouldSkip H e s l
    let b ← shouldSkip H e s r
    pure (a && b)

/-- index-rule configuration of a tag -/
inductive Cfg where
  | none | inverted | skipping
  deriving DecidableEq, Repr

/-- compile outcome -/
inductive Compiled (α : Type) where
  | ok (f : α)
  | err (e : BuildErr)
  | panic
  deriving Repr

def rangeOfLit (op : Op) (lit : Val) : Option (Option IntRange × Bool) :=
  -- `some (r, floatBounds)`; `none` = `RangeOpts` panics (array literals)
  match lit with
  | .int v => some (intRangeOf op v, true)
  | .str _ => some (none, false)            -- BytesTermValue bounds
  | .null => some (none, true)              -- empty RangeOpts: no bound is checked
  | _ => none

def isRangeOp : Op → Bool
  | .lt | .le | .gt | .ge => true
  | _ => false

/-- `SubExprs()`: `none` = panic (null literal). -/
def subExprs : Val → Option (List Val)
  | .null => none
  | .str s => some [.str s]
  | .int v => some [.int v]
  | .strArr a => some (a.map .str)
  | .intArr a => some (a.map .int)

/-- stream `parseConditionToFilter` restricted to `ShouldSkip` (rule type = SKIPPING). -/
def compileStreamLeaf (schema : List TagType) (op : Op) (tag : Nat) (lit : Val) : Compiled SFilter :=
  match op with
  | .gt | .ge | .lt | .le =>
    match rangeOfLit op lit with
    | none => .panic
    | some (r, fb) => .ok (.range tag r fb)
  | .eq => .ok (.eq tag (litBytes lit))
  | .ne => .ok .noskip
  | .match_ => .err .op
  | .having =>
    match subExprs lit with
    | none => .panic
    | some [] => .ok .never
    | some (e :: es) => .ok ((es.map fun x => SFilter.eq tag (litBytes x)).foldl SFilter.and (.eq tag (litBytes e)))
  | .notHaving =>
    match subExprs lit with
    | none => .panic
    | some [] => .ok .never
    | some _ => .ok .noskip
  | .in_ =>
    if ((schema[tag]?).map TagType.isArray).getD false then .err .op
    else match subExprs lit with
      | none => .panic
      | some [] => .ok .never
      | some (e :: es) => .ok ((es.map fun x => SFilter.eq tag (litBytes x)).foldl SFilter.or (.eq tag (litBytes e)))
  | .notIn =>
    if ((schema[tag]?).map TagType.isArray).getD false then .err .op
    else match subExprs lit with
      | none => .panic
      | some [] => .ok .never
      | some _ => .ok .noskip

def SFilter.isNever : SFilter → Bool
  | .never => true
  | _ => false

/-- stream `buildLocalFilter(criteria, schema, …, TYPE_SKIPPING)`. -/
def compileStream (schema : List TagType) (cfg : List Cfg) : Criteria → Compiled SFilter
  | .leaf op tag lit =>
    match schema[tag]? with
    | none => .err .tag
    | some _ =>
      if cfg[tag]? = some .skipping then compileStreamLeaf schema op tag lit else .ok .never
  | .and a b =>
    match compileStream schema cfg a with
    | .ok l =>
      match compileStream schema cfg b with
      | .ok r => if l.isNever && r.isNever then .ok .never else .ok (.and l r)
      | x => x
    | x => x
  | .or a b =>
    match compileStream schema cfg a with
    | .ok l =>
      match compileStream schema cfg b with
      | .ok r => if l.isNever || r.isNever then .ok .never else .ok (.or l r)
      | x => x
    | x => x

/-- trace `parseConditionToFilter` / `buildFilter` (every non-entity tag has a skipping index). -/
def compileTrace (schema : List TagType) : Criteria → Compiled SFilter
  | .leaf op tag lit =>
    match schema[tag]? with
    | none => .err .tag
    | some t =>
      match op with
      | .gt | .ge | .lt | .le =>
        match rangeOfLit op lit with
        | none => .panic                      -- RangeOpts panics when ShouldSkip runs
        | some (r, fb) => .ok (.range tag r fb)
      | .eq => .ok (.eq tag (litBytes lit))
      | .having => .ok (.having tag (litBytes lit))
      | .in_ | .notIn => if t.isArray then .err .op else .ok .never
      | _ => .ok .never
  | .and a b =>
    match compileTrace schema a with
    | .ok l =>
      match compileTrace schema b with
      | .ok r => .ok (.traceAnd l r)
      | x => x
    | x => x
  | .or a b =>
    match compileTrace schema a with
    | .ok l =>
      match compileTrace schema b with
      | .ok r => .ok (.traceAnd l r)          -- traceOrFilter: `leftSkip && rightSkip`, same shape
      | x => x
    | x => x

/-! ### what a writer puts into a summary (specification used by `pruning_sound`) -/

/-- stored byte values of a tag value: scalar → itself, array → its elements, null → nothing
    (`tagValue.value` / `valueArr` after `encodeTagValue`); the same bytes a literal is probed with. -/
abbrev valItems : Val → List Bytes := litBytes

def Val.hasType : Val → TagType → Bool
  | .str _, .str => true
  | .int _, .int => true
  | .strArr _, .strArr => true
  | .intArr _, .intArr => true
  | _, _ => false

/-- serialized dictionary value of a tag value (`tagValue.marshal`). -/
def valMarshal : Val → Option Bytes
  | .null => none
  | .str s => some s
  | .int v => some (encI64 v)
  | .strArr a => some (marshalStrArr a)
  | .intArr a => some ((a.map encI64).flatten)

/-! ### the writer's min/max accumulation (`banyand/stream/block.go` processTags) -/

/-- one step of the min update for a stored int value (`nil` = null). Repaired (F27): null values are ignored. -/
def minStep (mn : Bytes) : Option Bytes → Bytes
  | none => mn
  | some v => if mn.isEmpty then v else if lexLt v mn then v else mn

/-- the step at the pinned commit: a nil value compares below everything and empties `min`. -/
def minStep_legacy (mn : Bytes) (v : Option Bytes) : Bytes :=
  let x := v.getD []
  if mn.isEmpty then x else if lexLt x mn then x else mn

def maxStep (mx : Bytes) : Option Bytes → Bytes
  | none => mx
  | some v => if mx.isEmpty then v else if lexLt mx v then v else mx

def blockMin (vs : List (Option Bytes)) : Bytes := vs.foldl minStep []
def blockMin_legacy (vs : List (Option Bytes)) : Bytes := vs.foldl minStep_legacy []
def blockMax (vs : List (Option Bytes)) : Bytes := vs.foldl maxStep []

/-! ## 6. inverted index (abstract) and `Execute` of the compiled tree
   (`pkg/query/logical/stream/index_filter.go`, searcher = `pkg/index/inverted`) -/

/-- index terms of a tag value (`appendField`): scalars one term, arrays one per element, null none. -/
inductive Term where
  | bytes (b : Bytes)
  | num (v : I64)
  deriving DecidableEq, Repr

def valTerms : Val → List Term
  | .null => []
  | .str s => [.bytes s]
  | .int v => [.num v]
  | .strArr a => a.map .bytes
  | .intArr a => a.map .num

/-- a document: doc id and its row -/
abbrev Doc := Nat × Row

def docTerms (cfg : List Cfg) (tag : Nat) (d : Doc) : List Term :=
  if cfg[tag]? = some .inverted then ((d.2.get tag).map valTerms).getD [] else []

/-- A document is reachable through the index only if it carries at least one indexed field: the series-id
    keyword every query starts from is attached together with the first field (`store.Batch`, `if i == 0`). -/
def docVisible (cfg : List Cfg) (d : Doc) : Bool :=
  (List.range cfg.length).any fun t => !(docTerms cfg t d).isEmpty

/-- posting list; `bypass` = `bypassList` ("all items should be fetched"). -/
inductive PL where
  | bypass
  | ids (l : List Nat)
  deriving DecidableEq, Repr

def PL.contains : PL → Nat → Bool
  | .bypass, _ => true
  | .ids l, x => l.contains x

def zeros8 : Bytes := List.replicate 8 0
def ff8 : Bytes := List.replicate 8 255

/-- `index.RangeOpts` as the inverted searcher interprets it. -/
inductive IRange where
  | int (r : IntRange)
  | bytes (lo hi : Bytes) (inclLo inclHi : Bool)
  | all                                     -- empty RangeOpts (null literal) = `MatchField`
  deriving Repr, DecidableEq

/-- bluge `NewNumericRangeInclusiveQuery`: an exclusive bound is turned into an inclusive one by ±1, except at the
    ends of the int64 range, where it stays as it is (so `< MinInt64` still admits `MinInt64`). -/
def inIntRange (r : IntRange) (v : I64) : Bool :=
  (if r.inclLo || r.lo == maxI64 then r.lo.sle v else r.lo.slt v) &&
  (if r.inclHi || r.hi == minI64 then v.sle r.hi else v.slt r.hi)

def inBytesRange (lo hi : Bytes) (il ih : Bool) (b : Bytes) : Bool :=
  (if il then !lexLt b lo else lexLt lo b) && (if ih then !lexLt hi b else lexLt b hi)

def termInRange : IRange → Term → Bool
  | .int r, .num v => inIntRange r v
  | .bytes lo hi il ih, .bytes b => !lexLt hi lo && inBytesRange lo hi il ih b   -- `Valid()`: lower ≤ upper
  | _, _ => false

/-- `strLiteral.RangeOpts` → `NewStringRangeOpts`: an empty bound is replaced by 8×00 / 8×FF. -/
def strRangeOf (op : Op) (s : Bytes) : Option IRange :=
  let lo := if s.isEmpty then zeros8 else s
  let hi := if s.isEmpty then ff8 else s
  match op with
  | .gt => some (.bytes lo ff8 false false)
  | .ge => some (.bytes lo ff8 true false)
  | .lt => some (.bytes zeros8 hi false false)
  | .le => some (.bytes zeros8 hi false true)
  | _ => none

/-- inverted filter tree (`index.Filter` restricted to `Execute`). -/
inductive IFilter where
  | enode
  | eq (tag : Nat) (t : Option Term)        -- `none`: null literal → `DummyPostingList`
  | range (tag : Nat) (r : IRange)
  | not (tag : Nat) (inner : IFilter)
  | and (l r : IFilter)
  | or (l r : IFilter)
  deriving Repr

def IFilter.isEnode : IFilter → Bool
  | .enode => true
  | _ => false

def litTerm : Val → Option (Option Term)
  -- `Field()`: `none` = panic (array literal)
  | .null => some none
  | .str s => some (some (.bytes s))
  | .int v => some (some (.num v))
  | _ => none

def eqOfSub (tag : Nat) (v : Val) : IFilter :=
  match v with
  | .str s => .eq tag (some (.bytes s))
  | .int i => .eq tag (some (.num i))
  | _ => .eq tag none

/-- stream `parseConditionToFilter` for an INVERTED rule. -/
def compileInvLeaf (schema : List TagType) (op : Op) (tag : Nat) (lit : Val) : Compiled IFilter :=
  match op with
  | .gt | .ge | .lt | .le =>
    match lit with
    | .int v => match intRangeOf op v with
      | some r => .ok (.range tag (.int r))
      | none => .panic
    | .str s => match strRangeOf op s with
      | some r => .ok (.range tag r)
      | none => .panic
    | .null => .ok (.range tag .all)
    | _ => .panic
  | .eq => match litTerm lit with
    | some t => .ok (.eq tag t)
    | none => .panic
  | .ne => match litTerm lit with
    | some t => .ok (.not tag (.eq tag t))
    | none => .panic
  | .match_ => .err .op                      -- MATCH is not modelled (analyzer-dependent)
  | .having =>
    match subExprs lit with
    | none => .panic
    | some [] => .ok .enode
    | some (e :: es) => .ok ((es.map (eqOfSub tag)).foldl IFilter.and (eqOfSub tag e))
  | .notHaving =>
    match subExprs lit with
    | none => .panic
    | some [] => .ok .enode
    | some (e :: es) => .ok (.not tag ((es.map (eqOfSub tag)).foldl IFilter.and (eqOfSub tag e)))
  | .in_ =>
    if ((schema[tag]?).map TagType.isArray).getD false then .err .op
    else match subExprs lit with
      | none => .panic
      | some [] => .ok .enode
      | some (e :: es) => .ok ((es.map (eqOfSub tag)).foldl IFilter.or (eqOfSub tag e))
  | .notIn =>
    if ((schema[tag]?).map TagType.isArray).getD false then .err .op
    else match subExprs lit with
      | none => .panic
      | some [] => .ok .enode
      | some (e :: es) => .ok (.not tag ((es.map (eqOfSub tag)).foldl IFilter.or (eqOfSub tag e)))

/-- stream `buildLocalFilter(criteria, schema, …, TYPE_INVERTED)`. -/
def compileInv (schema : List TagType) (cfg : List Cfg) : Criteria → Compiled IFilter
  | .leaf op tag lit =>
    match schema[tag]? with
    | none => .err .tag
    | some _ =>
      if cfg[tag]? = some .inverted then compileInvLeaf schema op tag lit else .ok .enode
  | .and a b =>
    match compileInv schema cfg a with
    | .ok l =>
      match compileInv schema cfg b with
      | .ok r => if l.isEnode && r.isEnode then .ok .enode else .ok (.and l r)
      | x => x
    | x => x
  | .or a b =>
    match compileInv schema cfg a with
    | .ok l =>
      match compileInv schema cfg b with
      | .ok r => if l.isEnode || r.isEnode then .ok .enode else .ok (.or l r)
      | x => x
    | x => x

def visibleIds (cfg : List Cfg) (docs : List Doc) : List Nat :=
  (docs.filter (docVisible cfg)).map (·.1)

/-- `Filter.Execute` against the abstract index built from `docs` (doc ids in input order). -/
def exec (cfg : List Cfg) (docs : List Doc) : IFilter → PL
  | .enode => .bypass
  | .eq _ none => .ids []
  | .eq tag (some t) => .ids ((docs.filter fun d => (docTerms cfg tag d).contains t).map (·.1))
  | .range _ .all => .ids (visibleIds cfg docs)
  | .range tag r => .ids ((docs.filter fun d => (docTerms cfg tag d).any (termInRange r)).map (·.1))
  | .not _ f =>
    match exec cfg docs f with
    | .ids l => .ids ((visibleIds cfg docs).filter fun i => !l.contains i)
    | .bypass => .bypass                   -- `Difference(bypassList)` panics; unreachable for compiled trees
  | .and l r =>
    match exec cfg docs l, exec cfg docs r with
    | .bypass, .bypass => .ids []          -- `andNode.merge` returns nil; `Search` then yields nothing (unreachable)
    | .bypass, x => x
    | x, .bypass => x
    | .ids a, .ids b => .ids (a.filter fun i => b.contains i)
  | .or l r =>
    match exec cfg docs l, exec cfg docs r with
    | .ids a, .ids b => .ids ((docs.map (·.1)).filter fun i => a.contains i || b.contains i)
    | _, _ => .bypass

/-! ## 7. block iteration of one part (`banyand/stream/part_iter.go` findBlock, repaired F25) -/

structure BlockMeta where
  sid : Nat
  minTs : Int
  maxTs : Int
  deriving DecidableEq, Repr

/-- `searchTargetSeriesID(sid)` on the remaining wanted series: first wanted id `≥ sid`. -/
def seekSid (sids : List Nat) (sid : Nat) : List Nat := sids.dropWhile (· < sid)

/-- `findBlock`/`nextBlock` over the block headers of a part (sorted by series, then time).
    `sids` = current series followed by the remaining wanted ones. `legacy` selects the pinned behaviour
    (a pruned block makes the iterator jump to the next series). -/
def scanBlocks (legacy : Bool) (lo hi : Int) (skip : BlockMeta → Bool) : Nat → List BlockMeta → List Nat → List BlockMeta
  | 0, _, _ => []
  | _, [], _ => []
  | _, _, [] => []
  | fuel + 1, bm :: bhs, cur :: rest =>
    if bm.sid < cur then scanBlocks legacy lo hi skip fuel ((bm :: bhs).dropWhile (·.sid < cur)) (cur :: rest)
    else if bm.sid ≠ cur then scanBlocks legacy lo hi skip fuel (bm :: bhs) (seekSid (cur :: rest) bm.sid)
    else if bm.maxTs < lo then scanBlocks legacy lo hi skip fuel bhs (cur :: rest)
    else if bm.minTs > hi then scanBlocks legacy lo hi skip fuel (bm :: bhs) rest
    else if skip bm then
      (if legacy then scanBlocks legacy lo hi skip fuel (bm :: bhs) rest
       else scanBlocks legacy lo hi skip fuel bhs (cur :: rest))
    else bm :: scanBlocks legacy lo hi skip fuel bhs (cur :: rest)

def scanPart (legacy : Bool) (lo hi : Int) (skip : BlockMeta → Bool) (blocks : List BlockMeta) (sids : List Nat) : List BlockMeta :=
  scanBlocks legacy lo hi skip (2 * (blocks.length + sids.length) + 2) blocks sids

/-! ## 8. trace: the sidx key range derived for the order-by tag (`trace/index_filter.go` buildFilter minVal/maxVal)

Conditions on the order-by tag are not re-checked by the row filter (they are in `skippedTagNames`), so this range is
their only evaluation: it must contain the key of every row that satisfies the criteria. -/

def iMin : Int := minI64.toInt
def iMax : Int := maxI64.toInt

/-- `buildFilterFromCondition` + `extractBoundsFromCondition`: `math.MaxInt64` / `math.MinInt64` double as "no bound"
    sentinels, so a computed bound that happens to equal the sentinel is dropped (the range only gets wider). -/
def leafBounds (orderTag : Nat) (op : Op) (tag : Nat) (lit : Val) : Int × Int :=
  if tag ≠ orderTag then (iMin, iMax)
  else match lit with
    | .int v =>
      match op with
      | .gt => if v.toInt < iMax then (if v.toInt + 1 = iMax then iMin else v.toInt + 1, iMax) else (iMin, iMax)
      | .ge => (if v.toInt = iMax then iMin else v.toInt, iMax)
      | .lt => if iMin < v.toInt then (iMin, if v.toInt - 1 = iMin then iMax else v.toInt - 1) else (iMin, iMax)
      | .le => (iMin, if v.toInt = iMin then iMax else v.toInt)
      | _ => (iMin, iMax)
    | _ => (iMin, iMax)

/-- `mergeMinMaxBounds`: AND = intersection, OR = convex hull of the union. -/
def keyBounds (orderTag : Nat) : Criteria → Int × Int
  | .leaf op tag lit => leafBounds orderTag op tag lit
  | .and a b =>
    let l := keyBounds orderTag a
    let r := keyBounds orderTag b
    (max l.1 r.1, min l.2 r.2)
  | .or a b =>
    let l := keyBounds orderTag a
    let r := keyBounds orderTag b
    (min l.1 r.1, max l.2 r.2)

end Banyan.C08
