/-
C09 — ordered results are globally sorted; limit/offset is a window of them. L1 models mirroring
  /repo/pkg/iter/sort/sort.go                  (containerHeap, itemIter.initialize/Next/pushIterator)
  /repo/banyand/internal/sidx/part_key_iter.go (lessByKey, seriesCursor, partKeyIter.init/nextBlock)
  /repo/banyand/internal/sidx/iter.go          (iter.init/nextBlock, partKeyIterHeap.Less)
  /repo/banyand/internal/sidx/block_scanner.go (scan/scanSync: scanner batches, threshold)
  /repo/banyand/internal/sidx/sidx.go          (loadBlockCursor/processWithoutFilter, blockCursorHeap.Less,
                                                merge, mergeSync, distinctDataCounter)
  /repo/banyand/internal/sidx/query.go         (selectPartsForQuery, processStreamingLoop, processSyncLoop)
  /repo/banyand/internal/sidx/part.go          (mustInitFromElements: one block per series, split at maxBlockLength)
  /repo/pkg/query/logical/measure/measure_plan.go              (limitIterator)
  /repo/pkg/query/logical/measure/measure_plan_distributed.go  (sortedMIterator.loadOneGroup, hashDataPoint)
  /repo/pkg/query/logical/measure/measure_top.go               (TopQueue.Insert / Elements)
  /repo/banyand/measure/query.go                               (queryResult.Less/Pull/merge), part.go (mustInitFromDataPoints)

`container/heap` is trusted: `heap.Pop` removes *some* `Less`-minimal element. The relation `Merge`
allows every such choice; the executable `kmerge` takes the first minimal one.
-/
import Banyan.Model.Util

namespace Banyan.C09

/-! ### 1. heap-based k-way merge (`pkg/iter/sort`, and every `container/heap` merge loop in scope) -/

section KWay
variable {α : Type}

/-- A heap entry (`container[T]`): the current item and what its iterator still yields. -/
abbrev Cursor (α : Type) := α × List α

/-- Everything a heap entry will still deliver. -/
def Cursor.all (c : Cursor α) : List α := c.1 :: c.2

/-- `itemIter.initialize`: every iterator whose first `Next()` succeeds is pushed. -/
def initHeap : List (List α) → List (Cursor α)
  | [] => []
  | [] :: r => initHeap r
  | (x :: xs) :: r => (x, xs) :: initHeap r

/-- `itemIter.pushIterator`: re-push the iterator if it has a next item. -/
def pushIter (rest : List α) (h : List (Cursor α)) : List (Cursor α) :=
  match rest with
  | [] => h
  | y :: ys => h ++ [(y, ys)]

/-- A deterministic `heap.Pop`: the first entry such that no entry is `Less` than it,
    together with the other entries. -/
def pickMin (lt : α → α → Bool) : List (Cursor α) → Option (Cursor α × List (Cursor α))
  | [] => none
  | c :: cs =>
    match pickMin lt cs with
    | none => some (c, [])
    | some (m, others) => if lt m.1 c.1 then some (m, c :: others) else some (c, cs)

/-- Number of items the heap will still deliver (fuel of the merge loop). -/
def heapSize (h : List (Cursor α)) : Nat := (h.map fun c => c.2.length + 1).sum

/-- `for it.Next() { out = append(out, it.Val()) }` with the deterministic `Pop`. -/
def mergeFuel (lt : α → α → Bool) : Nat → List (Cursor α) → List α
  | 0, _ => []
  | n + 1, h =>
    match pickMin lt h with
    | none => []
    | some (m, o) => m.1 :: mergeFuel lt n (pushIter m.2 o)

def mergeHeap (lt : α → α → Bool) (h : List (Cursor α)) : List α := mergeFuel lt (heapSize h) h

/-- `NewItemIter(iters, desc)` drained. -/
def kmerge (lt : α → α → Bool) (iters : List (List α)) : List α := mergeHeap lt (initHeap iters)

/-- All runs of the merge loop when `heap.Pop` may return *any* `Less`-minimal entry. -/
inductive Merge (lt : α → α → Bool) : List (Cursor α) → List α → Prop
  | done : Merge lt [] []
  | step {h : List (Cursor α)} {m : Cursor α} {o : List (Cursor α)} {out : List α} :
      h.Perm (m :: o) → (∀ c ∈ h, lt c.1 m.1 = false) →
      Merge lt (pushIter m.2 o) out → Merge lt h (m.1 :: out)

/-- `l` is in merge order: no later element is `Less` than an earlier one. -/
def Sorted (lt : α → α → Bool) (l : List α) : Prop := l.Pairwise (fun a b => lt b a = false)

/-- The comparison is a strict weak order (what `container/heap` and `sort` require of `Less`). -/
structure StrictWeak (lt : α → α → Bool) : Prop where
  irrefl : ∀ a, lt a a = false
  trans : ∀ a b c, lt a b = true → lt b c = true → lt a c = true
  ntrans : ∀ a b c, lt a c = true → lt a b = true ∨ lt b c = true

/-- limit/offset as a window. -/
def window (offset limit : Nat) (l : List α) : List α := (l.drop offset).take limit

/-- Split into chunks of `n` (the last one may be shorter); `n = 0` means one chunk. -/
def chunkFuel (n : Nat) : Nat → List α → List (List α)
  | 0, _ => []
  | f + 1, l =>
    if l.isEmpty then []
    else if n = 0 then [l]
    else l.take n :: chunkFuel n f (l.drop n)

def chunk (n : Nat) (l : List α) : List (List α) := chunkFuel n l.length l

end KWay

/-- `bytes.Compare(a, b) < 0` / `> 0` of `containerHeap.Less`. -/
def bytesLt (desc : Bool) (a b : List Byte) : Bool := if desc then lexLt b a else lexLt a b

/-! ### 2. `limitIterator` (row-path limit/offset) -/

structure LimitIt (α : Type) where
  inner : List α
  index : Nat
  offset : Nat
  limit : Nat

/-- the skip loop `for ; l.index < l.offset; l.index++ { if !l.inner.Next() { return false } }` -/
def LimitIt.skip {α : Type} (s : LimitIt α) : Nat → Option (LimitIt α)
  | 0 => some s
  | f + 1 =>
    if s.index < s.offset then
      match s.inner with
      | [] => none
      | _ :: r => LimitIt.skip { s with inner := r, index := s.index + 1 } f
    else some s

/-- `limitIterator.Next` + `Current`. -/
def LimitIt.next {α : Type} (s : LimitIt α) : Option (α × LimitIt α) :=
  match s.skip (s.offset - s.index) with
  | none => none
  | some s' =>
    if s'.index - s'.offset ≥ s'.limit then none
    else match s'.inner with
      | [] => none
      | x :: r => some (x, { s' with inner := r, index := s'.index + 1 })

def LimitIt.drain {α : Type} : Nat → LimitIt α → List α
  | 0, _ => []
  | f + 1, s => match s.next with
    | none => []
    | some (x, s') => x :: LimitIt.drain f s'

def limitAll {α : Type} (offset limit : Nat) (l : List α) : List α :=
  LimitIt.drain (l.length + 1) { inner := l, index := 0, offset := offset, limit := limit }

/-! ### 3. sidx: parts, blocks, block iterator, scanner batches, heap drain -/

structure Elem where
  sid : Nat
  key : Int
  data : String
deriving DecidableEq, Repr, Inhabited

/-- A block: elements of one series in one part, ascending by key; `lo`/`hi` is its metadata key range. -/
structure Block where
  sid : Nat
  lo : Int
  hi : Int
  elems : List Elem
deriving DecidableEq, Repr, Inhabited

structure Part where
  id : Nat
  blocks : List Block
deriving Repr, Inhabited

structure Req where
  sids : List Nat
  minKey : Option Int
  maxKey : Option Int
  asc : Bool
  maxBatch : Nat
deriving Repr

def maxBlockLength : Nat := 8 * 1024
/-- `blockScannerBatchSize` -/
def scannerBatch : Nat := 32

def geMin (r : Req) (k : Int) : Bool := match r.minKey with | none => true | some m => decide (m ≤ k)
def leMax (r : Req) (k : Int) : Bool := match r.maxKey with | none => true | some m => decide (k ≤ m)
def inRange (r : Req) (k : Int) : Bool := geMin r k && leMax r k

/-- `bm.maxKey < minKey || bm.minKey > maxKey` negated. -/
def rangeOverlaps (r : Req) (lo hi : Int) : Bool := geMin r hi && leMax r lo

/-- element order inside a mem part: `sort.Sort(es)` by (seriesID, userKey) -/
def elemLe (a b : Elem) : Bool := decide (a.sid < b.sid) || (a.sid == b.sid && decide (a.key ≤ b.key))

def mkBlock (es : List Elem) : Option Block :=
  match es with
  | [] => none
  | e :: _ => some { sid := e.sid, lo := e.key, hi := (es.getLast?.getD e).key, elems := es }

/-- `mustInitFromElements`: walk the sorted elements, cut a block when the series changes or the block
    is longer than `maxBlockLength` (the size limit of 2 MiB is outside the modelled input space). -/
def cutBlocks : List Elem → List Elem → List Block
  | [], cur => (mkBlock cur.reverse).toList
  | e :: rest, [] => cutBlocks rest [e]
  | e :: rest, c :: cur =>
    if c.sid ≠ e.sid ∨ (c :: cur).length > maxBlockLength then
      (mkBlock (c :: cur).reverse).toList ++ cutBlocks rest [e]
    else cutBlocks rest (e :: c :: cur)

def buildBlocks (es : List Elem) : List Block := cutBlocks (es.mergeSort elemLe) []

def Part.elems (p : Part) : List Elem := p.blocks.flatMap (·.elems)
def Part.lo (p : Part) : Int := (p.blocks.map (·.lo)).foldl min ((p.blocks.head?.map (·.lo)).getD 0)
def Part.hi (p : Part) : Int := (p.blocks.map (·.hi)).foldl max ((p.blocks.head?.map (·.hi)).getD 0)

/-- write/flush/merge history -/
inductive Op where
  | write (pid : Nat) (es : List Elem)
  | flush (pids : List Nat)
  | merge (newId : Nat) (pids : List Nat)
deriving Repr

/-- snapshot after an operation (parts in snapshot order) -/
def applyOp (snap : List Part) : Op → List Part
  | .write pid es => if es.isEmpty then snap else snap ++ [{ id := pid, blocks := buildBlocks es }]
  | .flush _ => snap
  | .merge nid pids =>
    let (m, keep) := snap.partition (fun p => pids.contains p.id)
    if m.isEmpty then snap else keep ++ [{ id := nid, blocks := buildBlocks (m.flatMap Part.elems) }]

def applyOps (ops : List Op) : List Part := ops.foldl applyOp []

/-- `blockMetadata.lessByKey` without the final data-offset comparison (offsets are not modelled:
    blocks of different parts that agree on (minKey, maxKey, seriesID) are tied). -/
def lessByKey (a b : Block) : Bool :=
  if a.lo ≠ b.lo then decide (a.lo < b.lo)
  else if a.hi ≠ b.hi then decide (a.hi < b.hi)
  else decide (a.sid < b.sid)

/-- `seriesCursor.less` / `partKeyIterHeap.Less` -/
def blockLt (asc : Bool) (a b : Block) : Bool := if asc then lessByKey a b else lessByKey b a

/-- insertion of a series id into the sorted `pki.sids` -/
def insertNat (x : Nat) : List Nat → List Nat
  | [] => [x]
  | y :: ys => if x ≤ y then x :: y :: ys else y :: insertNat x ys

def sortNat (l : List Nat) : List Nat := l.foldr insertNat []

/-- `partKeyIter`: one cursor per requested series (ascending series id) over the part's blocks of that
    series that overlap the key range (reversed for descending order), merged by `seriesCursorHeap`. -/
def partBlocks (r : Req) (p : Part) : List Block :=
  let curs := (sortNat r.sids).map fun sid =>
    let refs := p.blocks.filter fun b => b.sid == sid && rangeOverlaps r b.lo b.hi
    if r.asc then refs else refs.reverse
  kmerge (blockLt r.asc) curs

/-- `selectPartsForQuery` -/
def selectParts (r : Req) (snap : List Part) : List Part :=
  snap.filter fun p => rangeOverlaps r p.lo p.hi

/-- `iter`: the per-part block streams merged by `partKeyIterHeap`. -/
def iterBlocks (r : Req) (snap : List Part) : List Block :=
  kmerge (blockLt r.asc) ((selectParts r snap).map (partBlocks r))

/-- scanner batch threshold: `batchSize` (or 32 when ≤ 0), capped by the batch capacity 32 -/
def threshold (r : Req) : Nat := if r.maxBatch = 0 then scannerBatch else min r.maxBatch scannerBatch

/-- `blockScanner.scan`: scanner batches -/
def scanBatches (r : Req) (snap : List Part) : List (List Block) := chunk (threshold r) (iterBlocks r snap)

/-- data-level de-duplication keeping the first occurrence (`seenData`, `blockCursorBuilder.seen`) -/
def dedupData : List String → List Elem → List Elem
  | _, [] => []
  | seen, e :: es => if seen.contains e.data then dedupData seen es else e :: dedupData (e.data :: seen) es

/-- `loadBlockCursor` + `processWithoutFilter`: in-range elements, de-duplicated by data inside the block
    (first occurrence in block order), oriented for the traversal direction; `none` when nothing is left. -/
def loadCursor (r : Req) (b : Block) : Option (Cursor Elem) :=
  let es := dedupData [] (b.elems.filter fun e => inRange r e.key)
  match (if r.asc then es else es.reverse) with
  | [] => none
  | x :: xs => some (x, xs)

/-- `blockCursorHeap.Less` -/
def elemLt (asc : Bool) (a b : Elem) : Bool := if asc then decide (a.key < b.key) else decide (a.key > b.key)

/-- `blockCursorHeap.merge` / `mergeSync` for one scanner batch: complete drain of the heap, data-level
    de-duplication across the drain, response batches of `MaxBatchSize`. -/
def drainBatch (r : Req) (bs : List Block) : List Elem :=
  dedupData [] ((mergeHeap (elemLt r.asc) (bs.filterMap (loadCursor r))).filter fun e => inRange r e.key)

def mergeCall (r : Req) (bs : List Block) : List (List Elem) := chunk r.maxBatch (drainBatch r bs)

/-- `StreamingQuery`: one heap drain per scanner batch. -/
def streamingQuery (r : Req) (snap : List Part) : List (List Elem) :=
  (scanBatches r snap).flatMap (mergeCall r)

/-- `distinctDataCounter.add` over chunks -/
def countDistinct (seen : List String) : List Elem → List String
  | [] => seen
  | e :: es => if seen.contains e.data then countDistinct seen es else countDistinct (e.data :: seen) es

/-- `processSyncLoop`: as streaming, but stop after the scanner batch at which the number of distinct data
    values collected so far reaches `MaxBatchSize` (> 0). -/
def syncLoop (r : Req) : List String → List (List Block) → List (List Elem)
  | _, [] => []
  | seen, b :: bs =>
    let chunks := mergeCall r b
    let seen' := countDistinct seen chunks.flatten
    if r.maxBatch > 0 ∧ seen'.length ≥ r.maxBatch then chunks else chunks ++ syncLoop r seen' bs

def querySync (r : Req) (snap : List Part) : List (List Elem) := syncLoop r [] (scanBatches r snap)

/-- The elements a request matches (reference for the specification). -/
def matching (r : Req) (snap : List Part) : List Elem :=
  (snap.flatMap Part.elems).filter fun e => r.sids.contains e.sid && inRange r e.key

/-! ### 4. `sortedMIterator`: de-duplication of (sid, timestamp) by version over the merged stream -/

structure DP where
  ts : Nat
  sid : Nat
  ver : Int
  val : Int
deriving DecidableEq, Repr, Inhabited

/-- `uniqueData[hashDataPoint(dp)]` update: keep the entry unless the new version is strictly greater.
    (`hashDataPoint` = fnv of (sid, seconds, nanos); collision-freedom is an assumption.) -/
def upsert (d : DP) : List DP → List DP
  | [] => [d]
  | e :: es => if e.sid = d.sid ∧ e.ts = d.ts then (if d.ver > e.ver then d :: es else e :: es) else e :: upsert d es

/-- `loadOneGroup` over a maximal run of equal sort fields (timestamps). -/
def dedupGroups : List DP → List DP → List DP
  | grp, [] => grp
  | [], d :: ds => dedupGroups [d] ds
  | g :: grp, d :: ds =>
    if g.ts = d.ts then dedupGroups (upsert d (g :: grp)) ds
    else (g :: grp) ++ dedupGroups [d] ds

def dpLt (desc : Bool) (a b : DP) : Bool := if desc then decide (a.ts > b.ts) else decide (a.ts < b.ts)

/-- `MergeGroupMIterators` (non index mode), then the row-path limit. -/
def mmerge (desc : Bool) (offset limit : Nat) (nodes : List (List DP)) : List DP :=
  limitAll offset limit (dedupGroups [] (kmerge (dpLt desc) nodes))

/-! ### 5. `TopQueue` -/

/-- `topHeap.Less` -/
def topLt (reverted : Bool) (a b : Int) : Bool := if reverted then decide (a > b) else decide (a < b)

/-- remove the first `Less`-minimal value (deterministic `heap.Pop`) -/
def popMin (reverted : Bool) : List Int → Option (Int × List Int)
  | [] => none
  | c :: cs =>
    match popMin reverted cs with
    | none => some (c, [])
    | some (m, others) => if topLt reverted m c then some (m, c :: others) else some (c, cs)

/-- the eviction test of `TopQueue.Insert`: the popped extreme `m` outranks the new value `x` -/
def topRejects (reverted : Bool) (m x : Int) : Bool := if reverted then decide (m < x) else decide (m > x)

/-- `TopQueue.Insert`: returns (accepted, heap); `none` = Go runtime panic (`heap.Pop` on an empty heap,
    reachable only with `n = 0`). -/
def topInsert (n : Nat) (reverted : Bool) (h : List Int) (x : Int) : Option (Bool × List Int) :=
  if h.length < n then some (true, h ++ [x])
  else match popMin reverted h with
    | none => none
    | some (m, o) =>
      if topRejects reverted m x then some (false, o ++ [m]) else some (true, o ++ [x])

/-- `Elements`: `sort.Sort(topSortedList)` – descending for top, ascending for bottom. -/
def topElements (reverted : Bool) (h : List Int) : List Int :=
  h.mergeSort fun a b => if reverted then decide (a ≤ b) else decide (a ≥ b)

def topRun (n : Nat) (reverted : Bool) : List Int → List Bool × List Int → Option (List Bool × List Int)
  | [], st => some st
  | x :: xs, st =>
    match topInsert n reverted st.2 x with
    | none => none
    | some (a, h) => topRun n reverted xs (st.1 ++ [a], h)

/-! ### 6. measure `queryResult` (banyand/measure/query.go): heap of block cursors, one series per `Pull` -/

structure MRow where
  sid : Nat
  ts : Int
  ver : Int
  val : Int
deriving DecidableEq, Repr, Inhabited

/-- `dataPoints.Less`: (seriesID, timestamp, version descending) -/
def mrowLe (a b : MRow) : Bool :=
  decide (a.sid < b.sid) || (a.sid == b.sid && (decide (a.ts < b.ts) || (a.ts == b.ts && decide (a.ver ≥ b.ver))))

/-- `mustInitFromDataPoints`: inside a part only the first (newest) row of a (series, timestamp) survives -/
def dropDupTs : List MRow → List MRow
  | a :: b :: r => if a.sid = b.sid ∧ a.ts = b.ts then dropDupTs (a :: r) else a :: dropDupTs (b :: r)
  | l => l
termination_by l => l.length

/-- one block per series of the part (at most `maxBlockLength` rows per series in the modelled input space) -/
def groupBySid : List MRow → List MRow → List (List MRow)
  | [], cur => if cur.isEmpty then [] else [cur.reverse]
  | e :: rest, [] => groupBySid rest [e]
  | e :: rest, c :: cur => if c.sid ≠ e.sid then (c :: cur).reverse :: groupBySid rest [e] else groupBySid rest (e :: c :: cur)

def measureBlocks (rows : List MRow) : List (List MRow) := groupBySid (dropDupTs (rows.mergeSort mrowLe)) []

/-- `queryResult.Less` on the current rows of two cursors -/
def qrLt (byTS asc : Bool) (sids : List Nat) (a b : MRow) : Bool :=
  if byTS then
    if a.ts == b.ts then
      if a.sid == b.sid then decide (a.ver > b.ver) else decide (a.sid < b.sid)
    else if asc then decide (a.ts < b.ts) else decide (a.ts > b.ts)
  else
    let ia := sids.idxOf a.sid
    let ib := sids.idxOf b.sid
    if ia == ib then
      if a.ts == b.ts then decide (a.ver > b.ver) else decide (a.ts < b.ts)
    else decide (ia < ib)

/-- `queryResult.merge`: rows of one series until the top of the heap belongs to another series; a row
    with the timestamp of the last copied one only replaces it when its version is greater than `lastVersion`
    (which is the version of the last *copied* row). Returns the result and the remaining heap. -/
def qrMerge (lt : MRow → MRow → Bool) : Nat → List (Cursor MRow) → List MRow → Option Nat → Int →
    List MRow × List (Cursor MRow)
  | 0, h, res, _, _ => (res.reverse, h)
  | f + 1, h, res, lastSid, lastVer =>
    match pickMin lt h with
    | none => (res.reverse, [])
    | some (m, o) =>
      let top := m.1
      if lastSid.isSome ∧ lastSid ≠ some top.sid then (res.reverse, h)
      else
        let h' := pushIter m.2 o
        match res with
        | last :: before =>
          if top.ts = last.ts then
            if top.ver > lastVer then qrMerge lt f h' ({ last with ver := top.ver, val := top.val } :: before) (some top.sid) lastVer
            else qrMerge lt f h' res (some top.sid) lastVer
          else qrMerge lt f h' (top :: res) (some top.sid) top.ver
        | [] => qrMerge lt f h' [top] (some top.sid) top.ver

/-- `Pull` until nil: a single remaining cursor is copied wholesale (`copyAllTo`). -/
def qrPullAll (lt : MRow → MRow → Bool) : Nat → List (Cursor MRow) → List (List MRow)
  | 0, _ => []
  | f + 1, h =>
    match h with
    | [] => []
    | [c] => [c.all]
    | _ =>
      let (res, h') := qrMerge lt (heapSize h + 1) h [] none 0
      res :: qrPullAll lt f h'

/-- the real query path: parts → blocks → cursors restricted to the time range → `queryResult` -/
def measureQuery (parts : List (List MRow)) (sids : List Nat) (minTS maxTS : Int) (byTS asc : Bool) : List (List MRow) :=
  let blocks := (parts.flatMap measureBlocks).filter fun b => b.head?.any fun e => sids.contains e.sid
  let curs := blocks.map fun b =>
    let rows := b.filter fun e => decide (minTS ≤ e.ts) && decide (e.ts ≤ maxTS)
    if byTS && !asc then rows.reverse else rows
  let h := initHeap curs
  qrPullAll (qrLt byTS asc sids) (heapSize h + 1) h



/-! ### 7. trace: merge of the ordered streams of several sidx instances (`banyand/trace/streaming_pipeline.go`) -/

/-- `req.Order` of a trace sidx request: nil, or `Sort` ∈ {UNSPECIFIED, ASC, DESC}. -/
inductive SortDir where
  | none | unspec | asc | desc
deriving DecidableEq, Repr

/-- `sidx.extractOrdering` and `newSIDXStreamRunner` agree: everything except DESC is ascending. -/
def SortDir.ascending : SortDir → Bool
  | .desc => false
  | _ => true

def defaultTraceBatchSize : Nat := 64

/-- `newSIDXStreamRunner`: batch size of the merged stream -/
def traceBatchSize (maxBatch maxTrace : Nat) : Nat :=
  if maxBatch > 0 then maxBatch else if maxTrace > 0 then maxTrace else defaultTraceBatchSize

/-- `sidxStreamRunner.run` on already opened shard streams: pop the shard whose current key is `Less`-minimal,
    take its current (key, trace id) unless the id was seen, advance, push back; batches of `batchSize`. -/
def traceMergeStreams (asc : Bool) (batchSize : Nat) (streams : List (List Elem)) : List (List Elem) :=
  chunk batchSize (dedupData [] (kmerge (elemLt asc) streams))

/-- `streamSIDXTraceBatches`: one `StreamingQuery` per sidx instance (series 1; one mem part per element list). -/
def traceStreamSIDX (dir : SortDir) (maxBatch maxTrace : Nat) (instances : List (List (List Elem))) : List (List Elem) :=
  let req : Req := { sids := [1], minKey := none, maxKey := none, asc := dir.ascending, maxBatch := maxBatch }
  let streams := instances.map fun parts =>
    (streamingQuery req (applyOps ((parts.zipIdx).map fun (es, i) => Op.write (i + 1) es))).flatten
  traceMergeStreams dir.ascending (traceBatchSize maxBatch maxTrace) streams

/-! ### 8. stream row-path `limit.Execute` over a paged source (`pkg/query/logical/stream/stream_analyzer.go`) -/

/-- the accumulation loop `for len(all) < limit+offset { page := Execute(); if empty break; all += page[:needed] }`
    (`pages` = what successive `Execute` calls of the input plan return) -/
def limitLoop {α : Type} (target : Nat) : List (List α) → List α → List α
  | [], acc => acc
  | p :: ps, acc =>
    if acc.length < target then
      if p.isEmpty then acc else limitLoop target ps (acc ++ p.take (target - acc.length))
    else acc

/-- `limit.Execute` over `localIndexScan`: every storage pull is capped at `MaxElementSize = limit+offset`
    (`PushDownMaxSize`), empty pulls are skipped by `BuildElementsFromStreamResult`. -/
def streamLimit {α : Type} (offset limit : Nat) (pulls : List (List α)) : List α :=
  let pages := (pulls.map fun p => if offset + limit > 0 then p.take (limit + offset) else p).filter fun p => !p.isEmpty
  let all := limitLoop (limit + offset) pages []
  if all.length ≤ offset then [] else (all.take (min (offset + limit) all.length)).drop offset


/-! ### 9. stream: `getDisjointParts` (banyand/stream/snapshot.go, copy in banyand/trace/snapshot.go) and the
    time-ordered scan of one segment (`blockScanner.scan` + `tsResult`) -/

/-- a part as far as grouping is concerned: id and metadata time range -/
structure TRange where
  id : Nat
  lo : Int
  hi : Int
deriving DecidableEq, Repr, Inhabited

section Groups
variable {α : Type}

def insertByLo (rg : α → Int × Int) (p : α) : List α → List α
  | [] => [p]
  | q :: qs => if (rg p).1 ≤ (rg q).1 then p :: q :: qs else q :: insertByLo rg p qs

/-- `sort.Slice(parts, MinTimestamp <)` (any sort; ties do not influence the groups) -/
def sortByLo (rg : α → Int × Int) (l : List α) : List α := l.foldr (insertByLo rg) []

/-- the grouping loop: a part joins the current group iff it starts at or before the group's boundary
    (= the largest max timestamp in the group) -/
def groupParts (rg : α → Int × Int) : List α → List α → Int → List (List α)
  | [], cur, _ => if cur.isEmpty then [] else [cur]
  | p :: ps, [], _ => groupParts rg ps [p] (rg p).2
  | p :: ps, c :: cur, b =>
    if (rg p).1 ≤ b then groupParts rg ps (c :: cur ++ [p]) (if (rg p).2 > b then (rg p).2 else b)
    else (c :: cur) :: groupParts rg ps [p] (rg p).2

/-- `getDisjointParts(parts, asc)`: groups in time order, reversed for descending scans
    (`rg` = the part's metadata (MinTimestamp, MaxTimestamp)) -/
def disjointGroups (rg : α → Int × Int) (parts : List α) (asc : Bool) : List (List α) :=
  let gs := groupParts rg (sortByLo rg parts) [] 0
  if asc then gs else gs.reverse

end Groups

def TRange.rg (r : TRange) : Int × Int := (r.lo, r.hi)

def intLe (asc : Bool) (x y : Int) : Bool := if asc then decide (x ≤ y) else decide (y ≤ x)

def insertInt (asc : Bool) (x : Int) : List Int → List Int
  | [] => [x]
  | y :: ys => if intLe asc x y then x :: y :: ys else y :: insertInt asc x ys

def sortInts (asc : Bool) (l : List Int) : List Int := l.foldr (insertInt asc) []

/-- a stream mem part: its rows (series, timestamp); metadata range = min/max timestamp of all rows -/
structure SPart where
  id : Nat
  rows : List (Nat × Int)
deriving Repr, Inhabited

def SPart.rg (p : SPart) : Int × Int :=
  let ts := p.rows.map (·.2)
  (ts.foldl min (ts.head?.getD 0), ts.foldl max (ts.head?.getD 0))

/-- The time-ordered scan of one segment: parts overlapping the time range are grouped by `getDisjointParts`;
    groups are scanned one after another, **always from the front of the group list** (this models the proposed fix F91;
    see `streamTsQuery_legacy`); inside a group all matching rows are heap-merged by timestamp
    (`blockCursorHeap.merge`, abstracted as "sorted" – tied by correspondence only). -/
def streamScan (legacy : Bool) (parts : List SPart) (sids : List Nat) (minTS maxTS : Int) (asc : Bool) : List Int :=
  let sel := parts.filter fun p => !(decide (maxTS < p.rg.1) || decide (minTS > p.rg.2))
  let gs := disjointGroups SPart.rg sel asc
  let order := if legacy && !asc then gs.reverse else gs
  order.flatMap fun g =>
    sortInts asc (g.flatMap fun p =>
      (p.rows.filter fun r => sids.contains r.1 && decide (minTS ≤ r.2) && decide (r.2 ≤ maxTS)).map (·.2))

def streamTsQuery := streamScan false
/-- `blockScanner.scan` as found: for descending scans it takes the *last* group of a list that `getDisjointParts`
    has already reversed, i.e. the earliest group first (finding F91). -/
def streamTsQuery_legacy := streamScan true

/-! ### 10. measure index-mode ordered query across segments (`buildIndexQueryResult`, `segResult.remove`,
    `segResultHeap`, `indexSortResult.Pull`) -/

def insertKV (desc : Bool) (x : String × Int) : List (String × Int) → List (String × Int)
  | [] => [x]
  | y :: ys => if intLe (!desc) x.2 y.2 then x :: y :: ys else y :: insertKV desc x ys

/-- `SearchWithoutSeries` of one segment with `Order`: the segment's series sorted by the indexed value -/
def sortKV (desc : Bool) (l : List (String × Int)) : List (String × Int) := l.foldr (insertKV desc) []

/-- one segment result after `segResult.remove` of every series already delivered by an earlier segment
    (series, timestamps, versions, fields **and sort value** are removed together); returns the kept entries and
    the updated series filter -/
def keepUnseen : List String → List (String × Int) → List (String × Int) × List String
  | seen, [] => ([], seen)
  | seen, x :: xs =>
    if seen.contains x.1 then keepUnseen seen xs
    else ((x :: (keepUnseen (x.1 :: seen) xs).1), (keepUnseen (x.1 :: seen) xs).2)

/-- the loop over the segments of `buildIndexQueryResult` -/
def dropSeen : List String → List (List (String × Int)) → List (List (String × Int))
  | _, [] => []
  | seen, seg :: rest => (keepUnseen seen seg).1 :: dropSeen (keepUnseen seen seg).2 rest

def kvLt (desc : Bool) (a b : String × Int) : Bool := if desc then decide (a.2 > b.2) else decide (a.2 < b.2)

/-- `indexSortResult.Pull` until nil: k-way merge of the per-segment lists on the sort value -/
def indexSortQuery (desc : Bool) (segs : List (List (String × Int))) : List (String × Int) :=
  kmerge (kvLt desc) (dropSeen [] (segs.map (sortKV desc)))


/-! ### 11. stream index-ordered query (`banyand/stream/query_by_idx.go idxResult`) -/

structure IElem where
  sid : Nat
  ts : Int
  id : Nat
deriving DecidableEq, Repr, Inhabited

/-- `loadSortingData`: the running [minTimestamp, maxTimestamp] of the drained index entries – two independent
    updates per entry (0 is the "unset" value of the minimum) -/
def idxWindow (batch : List IElem) : Int × Int :=
  batch.foldl (fun (w : Int × Int) e =>
    (if decide (e.ts < w.1) || decide (w.1 = 0) then e.ts else w.1, if e.ts > w.2 then e.ts else w.2)) (0, 0)

def partRange (p : List IElem) : Int × Int :=
  let ts := p.map (·.ts)
  (ts.foldl min (ts.head?.getD 0), ts.foldl max (ts.head?.getD 0))

/-- one `Pull`: parts overlapping the window (`snapshot.getParts`), their elements inside the window whose id is in the
    batch filter and whose series was seen in the batch (`scanParts`/`loadBlockCursor`), handed out in index order
    (`mergeByTagValue`) -/
def idxPage (parts : List (List IElem)) (batch : List IElem) : List Nat :=
  let w := idxWindow batch
  let sel := parts.filter fun p => !(decide (w.2 < (partRange p).1) || decide (w.1 > (partRange p).2))
  let found := sel.flatten.filter fun e =>
    decide (w.1 ≤ e.ts) && decide (e.ts ≤ w.2) && batch.any (fun d => d.id == e.id) && batch.any (fun d => d.sid == e.sid)
  (batch.filter fun d => found.any fun e => e.id == d.id).map (·.id)

def dedupIds : List Nat → List IElem → List IElem
  | _, [] => []
  | seen, e :: es => if seen.contains e.id then dedupIds seen es else e :: dedupIds (e.id :: seen) es

/-- `Pull` until nil: batches of `MaxElementSize` index entries; an empty page ends the result -/
def idxPages (parts : List (List IElem)) : List (List IElem) → List (List Nat)
  | [] => []
  | b :: bs => let pg := idxPage parts b; if pg.isEmpty then [] else pg :: idxPages parts bs

def idxQuery (maxElem : Nat) (parts : List (List IElem)) (iter : List IElem) : List (List Nat) :=
  idxPages parts ((chunk (max maxElem 1) iter).map (dedupIds []))

/-! ### 12. distributed plans (trace, measure): limit/offset push-down to the data nodes and the liaison window -/

/-- `unresolvedTraceDistributed.Analyze` / measure `unresolvedDistributed.Analyze`: the request sent to every data node
    asks for `limit' + offset` rows (`limit'` = limit, or the default when unset) and carries no offset -/
def pushedLimit (dflt limit offset : Nat) : Nat := (if limit = 0 then dflt else limit) + offset

/-- liaison side: k-way merge of the node responses (`sort.NewItemIter`), then offset / limit' -/
def distributedWindow (dflt limit offset : Nat) (desc : Bool) (nodes : List (List Int)) : List Int :=
  let resp := nodes.map fun rows => (sortInts (!desc) rows).take (pushedLimit dflt limit offset)
  window offset (if limit = 0 then dflt else limit) (kmerge (fun a b => if desc then decide (a > b) else decide (a < b)) resp)

end Banyan.C09
