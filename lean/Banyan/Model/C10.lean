/-
C10 — aggregates, group-by, top-N and map/reduce composition. L1 models mirroring
  /repo/pkg/query/aggregation/function.go      (meanFunc, countFunc, sumFunc, maxFunc, minFunc and the
                                                five *ReduceFunc accumulators)
  /repo/pkg/query/aggregation/aggregation.go   (NewMap, NewReduce, Partial, PartialToFieldValues,
                                                FieldValuesToPartial)
  /repo/pkg/query/logical/measure/measure_top.go              (TopQueue.Insert / Elements)
  /repo/pkg/query/logical/measure/measure_plan_groupby.go     (groupBy.hash, groupSortIterator, formatGroupByKey)
  /repo/pkg/query/logical/measure/measure_plan_aggregation.go (aggGroupIterator, aggAllIterator, map/reduce accumulators)
  /repo/pkg/query/logical/measure/measure_plan_distributed.go (deduplicateAggregatedDataPointsWithShard)
  /repo/pkg/query/logical/measure/measure_plan_top.go         (topOp.Execute)
  /repo/pkg/query/vectorized/measure/aggregation.go, aggregation_reduce.go, reduce.go
                                                (BatchAggregation in AggModeAll / AggModeMap / AggModeReduce)
Integer fields only: `int64` is `BitVec 64`, `+` wraps, `/` is Go's truncated division (`BitVec.sdiv`),
comparisons are signed.
-/
import Banyan.Model.Util

namespace Banyan.C10

abbrev I64 := BitVec 64

/-- `math.MaxInt64` / `math.MinInt64` (`maxOf[int64]`, `minOf[int64]`). -/
def maxInt64 : I64 := BitVec.intMax 64
def minInt64 : I64 := BitVec.intMin 64

inductive Fn where
  | mean | count | max | min | sum
  deriving DecidableEq, Repr

/-- `aggregation.Partial[int64]`. -/
structure Partial where
  value : I64
  count : I64
  deriving DecidableEq, Repr

/-! ### Map side (`function.go`) -/

/-- The five Map accumulators (after `Reset`, the `zero/min/max` configuration fields are constants). -/
inductive MapAcc where
  | mean (sum count : I64)
  | count (count : I64)
  | max (val : I64)
  | min (val : I64)
  | sum (sum : I64)
  deriving DecidableEq, Repr

/-- `NewMap` followed by its `Reset()`. -/
def newMap : Fn → MapAcc
  | .mean => .mean 0 0
  | .count => .count 0
  | .max => .max minInt64
  | .min => .min maxInt64
  | .sum => .sum 0

/-- `In(val)`. -/
def MapAcc.feed : MapAcc → I64 → MapAcc
  | .mean s c, v => .mean (s + v) (c + 1)
  | .count c, _ => .count (c + 1)
  | .max m, v => .max (if m.slt v then v else m)      -- `if val > m.val`
  | .min m, v => .min (if v.slt m then v else m)      -- `if val < m.val`
  | .sum s, v => .sum (s + v)

/-- the two literals of `if v < 1 { return 1 }` in `meanFunc.Val` / `meanReduceFunc.Val` (tied to the source
    by Banyan/Tie/C10.lean). -/
abbrev meanClampBelow : I64 := 1
abbrev meanClampTo : I64 := 1

/-- `meanFunc.Val` / `meanReduceFunc.Val`: zero when nothing was counted, otherwise the truncated quotient,
    replaced by 1 whenever it is `< 1` (finding F13). -/
def meanVal (sum count : I64) : I64 :=
  if count = 0 then 0
  else
    let v := sum.sdiv count
    if v.slt meanClampBelow then meanClampTo else v

def MapAcc.val : MapAcc → I64
  | .mean s c => meanVal s c
  | .count c => c
  | .max m => m
  | .min m => m
  | .sum s => s

/-- `Partial()`. -/
def MapAcc.partial : MapAcc → Partial
  | .mean s c => ⟨s, c⟩
  | .count c => ⟨c, 0⟩
  | .max m => ⟨m, 0⟩
  | .min m => ⟨m, 0⟩
  | .sum s => ⟨s, 0⟩

/-- which Go struct serves a function, in the order of the `switch` of `NewMap` (tie obligation). -/
def MapAcc.goName : MapAcc → String
  | .mean .. => "meanFunc" | .count .. => "countFunc" | .max .. => "maxFunc" | .min .. => "minFunc" | .sum .. => "sumFunc"

def mapCtorShape : List String :=
  [("MEAN", Fn.mean), ("COUNT", .count), ("MAX", .max), ("MIN", .min), ("SUM", .sum)].map
    fun (n, fn) => n ++ ":" ++ (newMap fn).goName

/-- a fresh accumulator fed with a list, in order. -/
def mapAll (fn : Fn) (l : List I64) : MapAcc := l.foldl MapAcc.feed (newMap fn)

/-! ### Reduce side -/

inductive RedAcc where
  | mean (sum count : I64)
  | count (sum : I64)
  | max (val : I64)
  | min (val : I64)
  | sum (sum : I64)
  deriving DecidableEq, Repr

def newReduce : Fn → RedAcc
  | .mean => .mean 0 0
  | .count => .count 0
  | .max => .max minInt64
  | .min => .min maxInt64
  | .sum => .sum 0

/-- `Combine(p)`. `minReduceFunc` also overwrites while its value still is the `MaxInt64` sentinel. -/
def RedAcc.combine : RedAcc → Partial → RedAcc
  | .mean s c, p => .mean (s + p.value) (c + p.count)
  | .count s, p => .count (s + p.value)
  | .max m, p => .max (if m.slt p.value then p.value else m)
  | .min m, p => .min (if m = maxInt64 ∨ p.value.slt m then p.value else m)
  | .sum s, p => .sum (s + p.value)

def RedAcc.val : RedAcc → I64
  | .mean s c => meanVal s c
  | .count s => s
  | .max m => m
  | .min m => m
  | .sum s => s

def RedAcc.goName : RedAcc → String
  | .mean .. => "meanReduceFunc" | .count .. => "countReduceFunc" | .max .. => "maxReduceFunc"
  | .min .. => "minReduceFunc" | .sum .. => "sumReduceFunc"

def reduceCtorShape : List String :=
  [("MEAN", Fn.mean), ("COUNT", .count), ("MAX", .max), ("MIN", .min), ("SUM", .sum)].map
    fun (n, fn) => n ++ ":" ++ (newReduce fn).goName

def reduceAll (fn : Fn) (ps : List Partial) : RedAcc := ps.foldl RedAcc.combine (newReduce fn)

/-! ### wire form (`aggregation.go`), int fields -/

/-- `PartialToFieldValues`: MEAN sends (sum, count), the others one value. -/
def partialToFieldValues (fn : Fn) (p : Partial) : List I64 :=
  if fn = .mean then [p.value, p.count] else [p.value]

/-- `FieldValuesToPartial`: an empty field list decodes to the zero partial (F12). -/
def fieldValuesToPartial (fn : Fn) : List I64 → Partial
  | [] => ⟨0, 0⟩
  | v :: rest =>
    match rest with
    | c :: _ => if fn = .mean then ⟨v, c⟩ else ⟨v, 0⟩
    | [] => ⟨v, 0⟩

/-! ### TopQueue (`measure_top.go`)

`container/heap` is abstracted to a priority queue: `heap.Pop` removes *an* extreme element (the least
value, or the greatest when `reverted`). Which of several equal extremes is removed, and how
`sort.Sort` (not stable) orders equal values in `Elements`, is not modelled; the payload `α` is therefore
only compared through values. Values are compared, never added, so they are mathematical integers. -/

structure TopQ (α : Type) where
  n : Nat
  reverted : Bool
  elems : List (Int × α)

def TopQ.new (n : Nat) (reverted : Bool) : TopQ α := ⟨n, reverted, []⟩

/-- the root of the heap: `topHeap.Less` is `<` (min-heap), or `>` when reverted (max-heap).
    Returns the first extreme element and the others in order. -/
def popRoot (reverted : Bool) : List (Int × α) → Option ((Int × α) × List (Int × α))
  | [] => none
  | x :: xs =>
    match popRoot reverted xs with
    | none => some (x, [])
    | some (m, rest) =>
      if (if reverted then m.1 > x.1 else m.1 < x.1) then some (m, x :: rest) else some (x, xs)

/-- `Insert`. `none` is the Go panic of `heap.Pop` on an empty heap (only possible when `n = 0`). -/
def TopQ.insert (q : TopQ α) (e : Int × α) : Option (TopQ α × Bool) :=
  if q.elems.length < q.n then some ({ q with elems := q.elems ++ [e] }, true)
  else
    match popRoot q.reverted q.elems with
    | none => none
    | some (m, rest) =>
      if q.reverted then
        if m.1 < e.1 then some (q, false) else some ({ q with elems := rest ++ [e] }, true)
      else
        if m.1 > e.1 then some (q, false) else some ({ q with elems := rest ++ [e] }, true)

/-- insertion into a list ordered by `topSortedList.Less` (descending, ascending when reverted). -/
def insertSorted (reverted : Bool) (e : Int × α) : List (Int × α) → List (Int × α)
  | [] => [e]
  | x :: xs =>
    if (if reverted then e.1 < x.1 else e.1 > x.1) then e :: x :: xs else x :: insertSorted reverted e xs

def sortElems (reverted : Bool) (l : List (Int × α)) : List (Int × α) :=
  l.foldr (insertSorted reverted) []

/-- `Elements()`. -/
def TopQ.elements (q : TopQ α) : List (Int × α) := sortElems q.reverted q.elems

/-- feed a list; collects the accept flags. -/
def TopQ.insertAll (q : TopQ α) : List (Int × α) → Option (TopQ α × List Bool)
  | [] => some (q, [])
  | e :: es =>
    match q.insert e with
    | none => none
    | some (q', b) =>
      match q'.insertAll es with
      | none => none
      | some (q'', bs) => some (q'', b :: bs)

/-! ### group-by (`measure_plan_groupby.go`) -/

/-- one step of `groupBy.hash`: append to the group of `k`, creating it at the end of `groupLst`. -/
def groupInsert [DecidableEq κ] (k : κ) (x : α) : List (κ × List α) → List (κ × List α)
  | [] => [(k, [x])]
  | (k', xs) :: rest => if k' = k then (k', xs ++ [x]) :: rest else (k', xs) :: groupInsert k x rest

/-- `groupBy.hash`: groups in first-seen order, members in arrival order. -/
def groupByKey [DecidableEq κ] (key : α → κ) (l : List α) : List (κ × List α) :=
  l.foldl (fun acc x => groupInsert (key x) x acc) []

/-- `groupSortIterator`: maximal runs of consecutive rows with equal key.
    (The iterator's "key = 0 means unset" shortcut is outside the model: a zero xxhash is not assumed.) -/
def chunkByKey [DecidableEq κ] (key : α → κ) : List α → List (κ × List α)
  | [] => []
  | x :: xs =>
    match chunkByKey key xs with
    | (k, g) :: rest => if k = key x then (k, x :: g) :: rest else (key x, [x]) :: (k, g) :: rest
    | [] => [(key x, [x])]

/-- replica de-duplication (`deduplicateAggregatedDataPointsWithShard`, `markDedupSeen`): keep the first
    element of every key; `seen` is the Go map. -/
def dedupBy [DecidableEq κ] (key : α → κ) : List α → List κ → List α
  | [], _ => []
  | x :: xs, seen =>
    if key x ∈ seen then dedupBy key xs seen else x :: dedupBy key xs (key x :: seen)

/-! ### data points, node and liaison plans -/

/-- a raw point: shard, the three projected tags `t1 t2 t3`, the int field. -/
structure Row where
  shard : Nat
  tags : List String
  val : I64
  deriving DecidableEq, Repr

/-- an aggregated `InternalDataPoint`: shard id, tag families of the first point of the group, fields. -/
structure Resp where
  shard : Nat
  tags : List String
  fields : List I64
  deriving DecidableEq, Repr

/-- values of the group-by tags, in schema order. -/
def selectTags : List Bool → List String → List String
  | b :: bs, t :: ts => if b then t :: selectTags bs ts else selectTags bs ts
  | _, _ => []

/-- What `formatGroupByKey` feeds to xxhash. `exact`: every component delimited (the repaired function,
    and `appendKeyComponent` of the vectorized path); `concat`: the pinned row path, which writes the raw
    bytes of consecutive string tags with nothing in between (finding F22).
    xxhash itself is assumed collision-free on the keys of one query. -/
inductive KeyMode where
  | exact | concat
  deriving DecidableEq, Repr

def groupKey (mode : KeyMode) (mask : List Bool) (tags : List String) : List String :=
  match mode with
  | .exact => selectTags mask tags
  | .concat => [String.join (selectTags mask tags)]

def isGroup (mask : List Bool) : Bool := mask.any id

/-- `Analyze`: group-by on exactly the entity (`t1`) uses the sort iterator over a series-ordered scan. -/
def groupByEntity (mask : List Bool) : Bool := mask == [true, false, false]

/-- the series-ordered scan of the test storage: rows of one series (one `t1`) contiguous, series in
    first-appearance order. -/
def seriesOrder (rows : List Row) : List Row :=
  (groupByKey (fun r => r.tags.head?) rows).flatMap (·.2)

/-- result fields of a map accumulator (`mapAccumulator.Result`). -/
def mapFields (fn : Fn) (emitPartial : Bool) (vals : List I64) : List I64 :=
  if emitPartial then partialToFieldValues fn (mapAll fn vals).partial else [(mapAll fn vals).val]

def firstShard (g : List Row) : Nat := (g.head?.map (·.shard)).getD 0
def firstTags (g : List Row) : List String := (g.head?.map (·.tags)).getD []

/-- the shard id of the only answer of a node without group-by: `aggAllIterator.Current` hard-codes
    `ShardId: 0`, `BatchAggregation.newGroup` leaves it zero (tied to the source by Banyan/Tie/C10.lean). -/
abbrev scalarShardId : Nat := 0

/-- which engine: the row-path plans or the vectorized operators. -/
inductive Path where
  | row | vec
  deriving DecidableEq, Repr

/-- What one node answers (`Analyze(...).Execute` + `collectInternalDataPoints`, resp. `BuildOperators` in
    `AggModeAll`/`AggModeMap`): one aggregated point per group over *all* local rows; the shard id is that
    of the first row of the group, and 0 without group-by. Nothing is sent for an empty input. -/
def nodeAnswer (path : Path) (mode : KeyMode) (fn : Fn) (mask : List Bool) (emitPartial : Bool)
    (rows : List Row) : List Resp :=
  if isGroup mask then
    let groups :=
      if path = .row ∧ groupByEntity mask then chunkByKey (fun r => groupKey mode mask r.tags) (seriesOrder rows)
      else groupByKey (fun r => groupKey mode mask r.tags) rows
    groups.map fun (_, g) => ⟨firstShard g, firstTags g, mapFields fn emitPartial (g.map (·.val))⟩
  else
    match rows with
    | [] => []
    | r :: _ => [⟨scalarShardId, r.tags, mapFields fn emitPartial (rows.map (·.val))⟩]

def firstRespTags (g : List Resp) : List String := (g.head?.map (·.tags)).getD []

/-- reduce of the partials carried by aggregated points (`reduceAccumulator.Feed` / `combinePartial`). -/
def reduceFields (fn : Fn) (g : List Resp) : I64 :=
  (reduceAll fn (g.map fun r => fieldValuesToPartial fn r.fields)).val

/-- The liaison: concatenate the node answers in arrival order, drop replica duplicates — per shard without
    group-by, per (shard, group key) with it —, group by key and reduce. -/
def liaison (mode : KeyMode) (fn : Fn) (mask : List Bool) (answers : List (List Resp)) : List Resp :=
  let all := answers.flatten
  if isGroup mask then
    let kept := dedupBy (fun r => (r.shard, groupKey mode mask r.tags)) all []
    (groupByKey (fun r => groupKey mode mask r.tags) kept).map fun (_, g) =>
      ⟨0, firstRespTags g, [reduceFields fn g]⟩
  else
    let kept := dedupBy (fun r => r.shard) all []
    match kept with
    | [] => []
    | r :: _ => [⟨0, r.tags, [reduceFields fn kept]⟩]

/-- `topOp.Execute` / `ApplyTopToReduce` on single-field aggregated points. `none` = Go panic. -/
def topOf (top : Option (Nat × Bool)) (rs : List Resp) : Option (List Resp) :=
  match top with
  | none => some rs
  | some (n, asc) =>
    match (TopQ.new n asc).insertAll (rs.map fun r => ((r.fields.headD 0).toInt, r)) with
    | none => none
    | some (q, _) => some (q.elements.map (·.2))

/-- `limitPlan` with offset 0 on the final (liaison / standalone) plan. The limit sent to the data nodes of an
    aggregation is unbounded (`PushDownMaxSize(math.MaxInt)` → `distributedPlan.Limit`), so node answers are complete. -/
def limitOf (limit : Option Nat) (rs : List Resp) : List Resp :=
  match limit with
  | none => rs
  | some n => rs.take n

structure Scenario where
  fn : Fn
  mask : List Bool
  top : Option (Nat × Bool)
  nodes : List (List Nat)
  rows : List Row

def Scenario.nodeRows (sc : Scenario) (shards : List Nat) : List Row :=
  sc.rows.filter fun r => shards.contains r.shard

/-- everything in one place: one node holding every row, final values. -/
def Scenario.local (path : Path) (mode : KeyMode) (sc : Scenario) : Option (List Resp) :=
  topOf sc.top (nodeAnswer path mode sc.fn sc.mask false sc.rows)

def Scenario.answers (path : Path) (mode : KeyMode) (sc : Scenario) : List (List Resp) :=
  sc.nodes.map fun shards => nodeAnswer path mode sc.fn sc.mask true (sc.nodeRows shards)

/-- map on every node, de-duplicate and reduce on the liaison, then top. -/
def Scenario.distributed (path : Path) (mode : KeyMode) (sc : Scenario) : Option (List Resp) :=
  topOf sc.top (liaison mode sc.fn sc.mask (sc.answers path mode))

/-! ### TopN post-processor (`banyand/measure/topn_post_processor.go`, reducer of `banyand/dquery/topn.go`)

Per timestamp a bounded queue of `(value, (entity key, version))` plus the `items` map (here: lookup by key in
the same list). `flow.DedupPriorityQueue` + `container/heap` are abstracted to a priority queue whose root is the
extreme element *by the value registered at the last `Push`/`Fix`*; with the `heap.Fix` after an in-place update
the registered value is the value, and the queue is `popRoot` on the values (ties: not modelled). -/

abbrev TnEntry := Int × (String × Int)

/-- `topNPostProcessor.Put` for one timeline. `asc` = `sort != SORT_DESC`. The first `Put` of a timeline pushes
    unconditionally; an entity already in `items` is updated in place when the version is not older (and the queue
    re-ordered); a new entity enters while the queue is short, or replaces the lowest when strictly better. -/
def tnPut (n : Nat) (asc : Bool) (tl : List TnEntry) (k : String) (v ver : Int) : List TnEntry :=
  match tl.find? (fun e => e.2.1 == k) with
  | some e =>
    if ver ≥ e.2.2 then tl.map (fun x => if x.2.1 == k then (v, (k, ver)) else x) else tl
  | none =>
    if tl.isEmpty || tl.length < n then tl ++ [(v, (k, ver))]
    else
      match popRoot asc tl with
      | none => tl
      | some (low, rest) =>
        if (if asc then low.1 > v else low.1 < v) then rest ++ [(v, (k, ver))] else tl

/-- the pinned-minus-`Fix` variant (seeded change n1): entries remember the value the heap was last ordered by. -/
abbrev TnEntryR := Int × ((String × Int) × Int)     -- (registered value, ((key, version), actual value))

def tnPutNoFix (n : Nat) (asc : Bool) (tl : List TnEntryR) (k : String) (v ver : Int) : List TnEntryR :=
  match tl.find? (fun e => e.2.1.1 == k) with
  | some e =>
    if ver ≥ e.2.1.2 then tl.map (fun x => if x.2.1.1 == k then (x.1, ((k, ver), v)) else x) else tl
  | none =>
    if tl.isEmpty || tl.length < n then tl ++ [(v, ((k, ver), v))]
    else
      match popRoot asc tl with
      | none => tl
      | some (low, rest) =>
        if (if asc then low.2.2 > v else low.2.2 < v) then rest ++ [(v, ((k, ver), v))] else tl

/-- one arriving item: timestamp (ms), entity key, value, version. -/
structure TnItem where
  ts : Nat
  key : String
  val : Int
  ver : Int
  deriving DecidableEq, Repr

/-- the `timelines` map as an association list in first-seen order. -/
def tnPutAll (n : Nat) (asc : Bool) (tls : List (Nat × List TnEntry)) (it : TnItem) : List (Nat × List TnEntry) :=
  match tls with
  | [] => [(it.ts, tnPut n asc [] it.key it.val it.ver)]
  | (t, tl) :: rest =>
    if t = it.ts then (t, tnPut n asc tl it.key it.val it.ver) :: rest
    else (t, tl) :: tnPutAll n asc rest it

def tnRun (n : Nat) (asc : Bool) (items : List TnItem) : List (Nat × List TnEntry) :=
  items.foldl (tnPutAll n asc) []

/-- `valWithoutAggregation`: every timeline best-first (`queue.Values()`), timelines by timestamp. -/
def insertTs (x : Nat × List TnEntry) : List (Nat × List TnEntry) → List (Nat × List TnEntry)
  | [] => [x]
  | y :: ys => if x.1 < y.1 then x :: y :: ys else y :: insertTs x ys

def tnVal (asc : Bool) (tls : List (Nat × List TnEntry)) : List (Nat × List TnEntry) :=
  (tls.foldr insertTs []).map fun (t, tl) => (t, sortElems asc tl)

/-- `Flush` with an aggregation function, timelines and their items visited in the order given (Go visits two
    maps in unspecified order; the result depends on it once more than `n` entities compete — finding F43). -/
def tnFlushStep (fn : Fn) (n : Nat) (asc : Bool) (st : List (String × MapAcc)) (e : TnEntry) : List (String × MapAcc) :=
  let v : I64 := BitVec.ofInt 64 e.1
  match st.find? (fun x => x.1 == e.2.1) with
  | some _ => st.map fun x => if x.1 == e.2.1 then (x.1, x.2.feed v) else x
  | none =>
    let item := (e.2.1, (newMap fn).feed v)
    if st.length < n then st ++ [item]
    else
      match popRoot asc (st.map fun x => (x.2.val.toInt, x)) with
      | none => st
      | some (low, rest) =>
        if (if asc then low.1 > item.2.val.toInt else low.1 < item.2.val.toInt) then rest.map (·.2) ++ [item] else st

def tnFlush (fn : Fn) (n : Nat) (asc : Bool) (tls : List (Nat × List TnEntry)) : List (Int × String) :=
  let st := (tls.flatMap (·.2)).foldl (tnFlushStep fn n asc) []
  (sortElems asc (st.map fun x => (x.2.val.toInt, x.1)))

end Banyan.C10
