/-
C11 — storage codecs. L1 models (wrap-around int64 = `BitVec 64`, bytes = `List Nat`, explicit
`ok / err / panic` outcome) mirroring

  /repo/pkg/encoding/int.go           VarInt64ListToBytes, BytesToVarInt64List, VarUint64ToBytes,
                                      VarUint64sToBytes, BytesToVarUint64, BytesToVarUint64s
  /repo/pkg/encoding/int_list.go      Int64ListToBytes, BytesToInt64List, isConst, isDelta, isIncremental
  /repo/pkg/encoding/delta.go         int64ListDeltaToBytes, bytesDeltaToInt64List,
                                      int64sDeltaOfDeltaToBytes, bytesDeltaOfDeltaToInt64s
  /repo/pkg/encoding/bytes.go         EncodeBytes, DecodeBytes, EncodeBytesBlock, BytesBlockDecoder.Decode,
                                      DecodeWithTail, EncodeUint64Block, DecodeUint64Block,
                                      compressBlock, decompressBlock (zstd = parameter pair)
  /repo/pkg/encoding/dictionary.go    Dictionary.Add/Encode/Decode, encodeRLE/decodeRLE, bit packing
  /repo/pkg/encoding/{reader,writer}.go   bit reader / writer (as an MSB-first bit stream)
  /repo/pkg/encoding/vararray         MarshalVarArray, UnmarshalVarArray
  /repo/pkg/encoding/float.go         Float64ListToDecimalIntList, DecimalIntListToFloat64List, mulPow10*
                                      (float <-> decimal conversion = parameter pair)
  /repo/banyand/internal/encoding/tag_encoder.go   EncodeTagValues, DecodeTagValues

Definitions without suffix model the code with the proposed repairs F1 (float.go) and F3
(dictionary.go) applied; `…_legacy` definitions model the pinned code.
-/
import Banyan.Model.Util
import Banyan.Model.C12

namespace Banyan.C11
open Banyan

/-- Outcome of a Go function that returns `(value, error)` and may fault. -/
inductive Res (α : Type) where
  | ok (a : α)
  | err
  | panic
  deriving DecidableEq, Repr

namespace Res
@[inline] def bind {α β : Type} (r : Res α) (f : α → Res β) : Res β :=
  match r with
  | .ok a => f a
  | .err => .err
  | .panic => .panic

instance : Monad Res where
  pure := .ok
  bind := Res.bind

def isPanic {α : Type} : Res α → Bool
  | .panic => true
  | _ => false
end Res

abbrev I64 := BitVec 64

/-- `1 << 64`. -/
def W64 : Nat := 2 ^ 64

/-! ## 1. variable-length integers (`int.go`) -/

/-- `for u > 0x7f { dst = append(dst, 0x80|byte(u)); u >>= 7 }; dst = append(dst, byte(u))`. -/
def varU (u : Nat) : List Byte :=
  if _h : 127 < u then (128 + u % 128) :: varU (u / 128) else [u]
termination_by u
decreasing_by omega

/-- 8-bit zig-zag of the single-byte fast path: `c := int8(v); (c << 1) ^ (c >> 7)`. -/
def zz8 (c : BitVec 8) : BitVec 8 := (c <<< 1) ^^^ (c.sshiftRight 7)

/-- `int8(c>>1) ^ (int8(c<<7) >> 7)`. -/
def unzz8 (c : BitVec 8) : BitVec 8 := (c >>> 1) ^^^ ((c <<< 7).sshiftRight 7)

/-- one iteration of the `VarInt64ListToBytes` loop. -/
def varInt64ToBytes (v : I64) : List Byte :=
  if v.slt 0x40#64 && (BitVec.ofInt 64 (-0x40)).slt v then [(zz8 (v.setWidth 8)).toNat]
  else varU (C12.zigzag v).toNat

def varInt64ListToBytes (vs : List I64) : List Byte := vs.flatMap varInt64ToBytes

/-- one iteration of the `VarUint64sToBytes` loop (`u < 0x80` fast path included). -/
def varUint64sElem (u : Nat) : List Byte := if u < 128 then [u] else varU u

def varUint64sToBytes (us : List Nat) : List Byte := us.flatMap varUint64sElem

/-- `VarUint64ToBytes` with its three unrolled fast paths. -/
def varUint64ToBytes (u : Nat) : List Byte :=
  if u < 2 ^ 7 then [u]
  else if u < 2 ^ 14 then [128 + u % 128, u / 128]
  else if u < 2 ^ 21 then [128 + u % 128, 128 + u / 128 % 128, u / 16384]
  else varUint64sElem u

/-- The inner `for c >= 0x80 { … }` loop of `BytesToVarInt64List` / `BytesToVarUint64s`:
    `k = idx - startIdx`, `u` the accumulated `uint64`. -/
def varLoop : List Byte → Nat → Nat → Nat → Res (Nat × List Byte)
  | [], _, _, _ => .err                              -- "unexpected end of encoded varint"
  | c :: rest, k, shift, u =>
    if k > 9 then .err                               -- "too long encoded varint"
    else
      let u' := u ||| ((c % 128) <<< (shift + 7)) % W64
      if c ≥ 128 then varLoop rest (k + 1) (shift + 7) u' else .ok (u', rest)

/-- one iteration of `BytesToVarUint64s`: value and remaining bytes. -/
def readVarU64 : List Byte → Res (Nat × List Byte)
  | [] => .err                                       -- "cannot decode varuint from empty data"
  | c :: rest => if c < 128 then .ok (c, rest) else varLoop rest 1 0 (c % 128)

/-- one iteration of `BytesToVarInt64List`. -/
def readVarI64 : List Byte → Res (I64 × List Byte)
  | [] => .err
  | c :: rest =>
    if c < 128 then .ok ((unzz8 (BitVec.ofNat 8 c)).signExtend 64, rest)
    else
      match varLoop rest 1 0 (c % 128) with
      | .ok (u, r) => .ok (C12.unzigzag (BitVec.ofNat 64 u), r)
      | .err => .err
      | .panic => .panic

/-- `BytesToVarInt64List(dst, src)` with `len(dst) = n`: the decoded values and the tail. -/
def bytesToVarInt64List : Nat → List Byte → Res (List I64 × List Byte)
  | 0, src => .ok ([], src)
  | n + 1, src =>
    match readVarI64 src with
    | .ok (v, r) =>
      match bytesToVarInt64List n r with
      | .ok (vs, t) => .ok (v :: vs, t)
      | .err => .err
      | .panic => .panic
    | .err => .err
    | .panic => .panic

def bytesToVarUint64s : Nat → List Byte → Res (List Nat × List Byte)
  | 0, src => .ok ([], src)
  | n + 1, src =>
    match readVarU64 src with
    | .ok (v, r) =>
      match bytesToVarUint64s n r with
      | .ok (vs, t) => .ok (v :: vs, t)
      | .err => .err
      | .panic => .panic
    | .err => .err
    | .panic => .panic

/-- `binary.Uvarint` (Go standard library): `none` stands for `o <= 0`. -/
def uvarintLoop : List Byte → Nat → Nat → Nat → Option (Nat × List Byte)
  | [], _, _, _ => none
  | b :: rest, i, s, x =>
    if i = 10 then none
    else if b < 128 then
      if i = 9 ∧ b > 1 then none else some ((x ||| (b <<< s)) % W64, rest)
    else uvarintLoop rest (i + 1) (s + 7) ((x ||| ((b % 128) <<< s)) % W64)

/-- `BytesToVarUint64`: `(value, tail)`; malformed input yields `(0, src)` – no error is reported. -/
def bytesToVarUint64 (src : List Byte) : Nat × List Byte :=
  match src with
  | [] => (0, [])
  | [b0] => if b0 < 128 then (b0, []) else (0, src)
  | b0 :: b1 :: rest =>
    if b0 < 128 then (b0, b1 :: rest)
    else if b1 < 128 then ((b0 % 128) ||| (b1 <<< 7), rest)
    else
      match uvarintLoop src 0 0 0 with
      | none => (0, src)
      | some r => r

/-! ## 2. int64 lists (`int_list.go`, `delta.go`) -/

def mtConst : Nat := 1
def mtDeltaConst : Nat := 2
def mtDelta : Nat := 3
def mtDeltaOfDelta : Nat := 4
def mtPlain : Nat := 9
def mtDictionary : Nat := 10

def isConst : List I64 → Bool
  | [] => false
  | v1 :: rest => rest.all (· == v1)

/-- `getSignBit(n) = n >> 63 & 1`. -/
def signBit (n : I64) : Bool := n.msb

/-- loop of `isDelta` over `a[2:]`; `none` = early `return false, false`, `some ct` otherwise. -/
def isDeltaLoop (d1 : I64) (asc : Bool) : I64 → List I64 → Bool → Option Bool
  | _, [], ct => some ct
  | prev, next :: rest, ct =>
    let d := next - prev
    if signBit d != asc then none
    else isDeltaLoop d1 asc next rest (ct && d == d1)

def isDelta : List I64 → Bool × Bool
  | a0 :: a1 :: rest =>
    match isDeltaLoop (a1 - a0) (signBit (a1 - a0)) a1 rest true with
    | none => (false, false)
    | some ct => (true, ct)
  | _ => (false, false)

/-- loop of `isIncremental` over `a[1:]`; `none` = early `return false`, `some resets` otherwise. -/
def isIncLoop : I64 → List I64 → Nat → Option Nat
  | _, [], r => some r
  | vPrev, v :: rest, r =>
    if v.slt vPrev then
      if v.slt 0#64 then none
      else if (vPrev.sshiftRight 3).slt v then none
      else isIncLoop v rest (r + 1)
    else isIncLoop v rest r

def isIncremental (a : List I64) : Bool :=
  match a with
  | a0 :: a1 :: rest =>
    if a0.slt 0#64 then true
    else
      match isIncLoop a0 (a1 :: rest) 0 with
      | none => false
      | some r => r ≤ 2 || r < a.length / 8
  | _ => false

/-- `for i, next := range src { d := next - v; v += d; is.L[i] = d }`. -/
def deltas : I64 → List I64 → List I64
  | _, [] => []
  | v, next :: rest =>
    let d := next - v
    d :: deltas (v + d) rest

def int64ListDeltaToBytes : List I64 → Res (List Byte × I64)
  | [] => .panic
  | a0 :: rest => .ok (varInt64ListToBytes (deltas a0 rest), a0)

/-- `for i, next := range src { d2 := next - v - d1; d1 += d2; v += d1; is.L[i] = d2 }`. -/
def dods : I64 → I64 → List I64 → List I64
  | _, _, [] => []
  | v, d1, next :: rest =>
    let d2 := next - v - d1
    let d1' := d1 + d2
    d2 :: dods (v + d1') d1' rest

def int64sDeltaOfDeltaToBytes : List I64 → Res (List Byte × I64)
  | a0 :: a1 :: rest =>
    .ok (varInt64ToBytes (a1 - a0) ++ varInt64ListToBytes (dods a1 (a1 - a0) rest), a0)
  | _ => .panic

/-- `Int64ListToBytes`: `(bytes, encode type, first value)`. -/
def int64ListToBytes (a : List I64) : Res (List Byte × Nat × I64) :=
  match a with
  | [] => .panic
  | a0 :: tl =>
    if isConst a then .ok ([], mtConst, a0)
    else
      let (isD, isDC) := isDelta a
      if isDC then
        match tl with
        | a1 :: _ => .ok (varInt64ToBytes (a1 - a0), mtDeltaConst, a0)
        | [] => .panic
      else if isD then
        match int64sDeltaOfDeltaToBytes a with
        | .ok (bs, fv) => .ok (bs, mtDeltaOfDelta, fv)
        | .err => .err
        | .panic => .panic
      else if isIncremental a then
        match int64sDeltaOfDeltaToBytes a with
        | .ok (bs, fv) => .ok (bs, mtDeltaOfDelta, fv)
        | .err => .err
        | .panic => .panic
      else
        match int64ListDeltaToBytes a with
        | .ok (bs, fv) => .ok (bs, mtDelta, fv)
        | .err => .err
        | .panic => .panic

/-- `for _, d := range is.L { v += d; dst = append(dst, v) }`. -/
def prefixSums : I64 → List I64 → List I64
  | _, [] => []
  | v, d :: rest => (v + d) :: prefixSums (v + d) rest

def bytesDeltaToInt64List (src : List Byte) (first : I64) (n : Nat) : Res (List I64) :=
  if n < 1 then .panic                                -- logger.Panicf("BUG: itemsCount must be greater than 0")
  else
    match bytesToVarInt64List (n - 1) src with
    | .ok (ds, tail) => if tail ≠ [] then .err else .ok (first :: prefixSums first ds)
    | .err => .err
    | .panic => .panic

/-- `for _, d2 := range is.L[1:] { d1 += d2; v += d1; dst = append(dst, v) }`. -/
def dodSums : I64 → I64 → List I64 → List I64
  | _, _, [] => []
  | v, d1, d2 :: rest =>
    let d1' := d1 + d2
    (v + d1') :: dodSums (v + d1') d1' rest

def bytesDeltaOfDeltaToInt64s (src : List Byte) (first : I64) (n : Nat) : Res (List I64) :=
  if n < 2 then .panic                                -- logger.Panicf("itemsCount must be greater than 1")
  else
    match bytesToVarInt64List (n - 1) src with
    | .ok (ds, tail) =>
      if tail ≠ [] then .err
      else
        match ds with
        | d1 :: rest => .ok (first :: (first + d1) :: dodSums (first + d1) d1 rest)
        | [] => .panic
    | .err => .err
    | .panic => .panic

/-- `for itemsCount > 0 { dst = append(dst, v); itemsCount--; v += d }`. -/
def arith : I64 → I64 → Nat → List I64
  | _, _, 0 => []
  | v, d, n + 1 => v :: arith (v + d) d n

/-- `BytesToInt64List(dst, src, mt, firstValue, itemsCount)`. -/
def bytesToInt64List (src : List Byte) (mt : Nat) (first : I64) (n : Nat) : Res (List I64) :=
  if mt = mtDelta then bytesDeltaToInt64List src first n
  else if mt = mtDeltaOfDelta then bytesDeltaOfDeltaToInt64s src first n
  else if mt = mtConst then
    if src ≠ [] then .err else .ok (List.replicate n first)
  else if mt = mtDeltaConst then
    match readVarI64 src with
    | .ok (d, tail) => if tail ≠ [] then .err else .ok (arith first d n)
    | .err => .err
    | .panic => .panic
  else .err

/-! ## 3. uint64 blocks, compressed blocks, byte blocks (`bytes.go`) -/

/-- zstd as a parameter pair. -/
structure Zstd where
  comp : List Byte → List Byte
  decomp : List Byte → Option (List Byte)

def compressBlock (z : Zstd) (src : List Byte) : List Byte :=
  if src.length < 128 then 0 :: src.length :: src
  else
    let c := z.comp src
    1 :: (varUint64ToBytes c.length ++ c)

/-- `decompressBlock`: `(appended bytes, tail)`. -/
def decompressBlock (z : Zstd) (src : List Byte) : Res (List Byte × List Byte) :=
  match src with
  | [] => .err
  | 0 :: rest =>
    match rest with
    | [] => .err
    | l :: rest' => if rest'.length < l then .err else .ok (rest'.take l, rest'.drop l)
  | 1 :: rest =>
    let (bl, tail) := bytesToVarUint64 rest
    if tail.length < bl then .err
    else
      match z.decomp (tail.take bl) with
      | none => .err
      | some d => .ok (d, tail.drop bl)
  | _ :: _ => .err

def encodeUint64List (a : List Nat) : List Byte :=
  let nMax := a.foldl (fun m n => if n > m then n else m) 0
  if nMax < 2 ^ 8 then 0 :: a.flatMap (fun n => [n % 256])
  else if nMax < 2 ^ 16 then 1 :: a.flatMap (beBytes 2)
  else if nMax < 2 ^ 32 then 2 :: a.flatMap (beBytes 4)
  else 3 :: a.flatMap (beBytes 8)

/-- `for len(src) > 0 { v := BytesToUintK(src); src = src[k:]; dst = append(dst, v) }`, `m` iterations. -/
def readFixed (k : Nat) : Nat → List Byte → List Nat
  | 0, _ => []
  | m + 1, src => ofBE (src.take k) :: readFixed k m (src.drop k)

def decodeUint64List (src : List Byte) (n : Nat) : Res (List Nat) :=
  match src with
  | [] => .err
  | t :: body =>
    if t = 0 then (if body.length ≠ n then .err else .ok body)
    else if t = 1 then (if body.length ≠ 2 * n % W64 then .err else .ok (readFixed 2 (body.length / 2) body))
    else if t = 2 then (if body.length ≠ 4 * n % W64 then .err else .ok (readFixed 4 (body.length / 4) body))
    else if t = 3 then (if body.length ≠ 8 * n % W64 then .err else .ok (readFixed 8 (body.length / 8) body))
    else .err

def encodeUint64Block (z : Zstd) (a : List Nat) : List Byte := compressBlock z (encodeUint64List a)

def decodeUint64Block (z : Zstd) (src : List Byte) (n : Nat) : Res (List Nat × List Byte) :=
  match decompressBlock z src with
  | .ok (buf, tail) =>
    match decodeUint64List buf n with
    | .ok vs => .ok (vs, tail)
    | .err => .err
    | .panic => .panic
  | .err => .err
  | .panic => .panic

def encodeBytes (b : List Byte) : List Byte := varUint64ToBytes b.length ++ b

/-- `DecodeBytes`: `(tail, value)`. -/
def decodeBytes (src : List Byte) : Res (List Byte × List Byte) :=
  let (n, rest) := bytesToVarUint64 src
  if rest.length < n then .err else .ok (rest.drop n, rest.take n)

/-- A `[]byte` value: `none` is `nil`, `some []` the empty non-nil slice. -/
abbrev Item := Option (List Byte)

def itemLen : Item → Nat
  | none => 0
  | some s => s.length + 1

def itemBytes : Item → List Byte
  | none => []
  | some s => s

def encodeBytesBlock (z : Zstd) (a : List Item) : List Byte :=
  encodeUint64Block z (a.map itemLen) ++ compressBlock z (a.flatMap itemBytes)

/-- the slicing loop shared by `Decode`, `DecodeWithTail`, `decodeBytesBlockWithTail`, `DecodeDictionaryValues`. -/
def sliceItems : List Nat → List Byte → Res (List Item)
  | [], _ => .ok []
  | 0 :: ls, data =>
    match sliceItems ls data with
    | .ok r => .ok (none :: r)
    | .err => .err
    | .panic => .panic
  | (l + 1) :: ls, data =>
    let hd := data.take l
    if hd.length < l then .err                       -- `uint64(len(data)) < actualLen`
    else
      match sliceItems ls (data.drop l) with
      | .ok r => .ok (some hd :: r)
      | .err => .err
      | .panic => .panic

/-- `BytesBlockDecoder.DecodeWithTail` / `Dictionary.decodeBytesBlockWithTail`. -/
def decodeBytesBlockWithTail (z : Zstd) (src : List Byte) (n : Nat) : Res (List Item × List Byte) :=
  match decodeUint64Block z src n with
  | .ok (lens, tail) =>
    match decompressBlock z tail with
    | .ok (data, tail') =>
      match sliceItems lens data with
      | .ok its => .ok (its, tail')
      | .err => .err
      | .panic => .panic
    | .err => .err
    | .panic => .panic
  | .err => .err
  | .panic => .panic

/-- `BytesBlockDecoder.Decode`. -/
def decodeBytesBlock (z : Zstd) (src : List Byte) (n : Nat) : Res (List Item) :=
  match decodeUint64Block z src n with
  | .ok (lens, tail) =>
    match decompressBlock z tail with
    | .ok (data, tail') => if tail' ≠ [] then .err else sliceItems lens data
    | .err => .err
    | .panic => .panic
  | .err => .err
  | .panic => .panic

/-! ## 4. bit stream, bit packing, RLE, dictionary (`writer.go`, `reader.go`, `dictionary.go`) -/

/-- `WriteBits(u, n)`: the low `n` bits of `u`, most significant first. -/
def bitsOf : Nat → Nat → List Bool
  | 0, _ => []
  | n + 1, u => u.testBit n :: bitsOf n u

def bitsToNat (bs : List Bool) : Nat := bs.foldl (fun a b => 2 * a + b.toNat) 0

/-- bytes written by the bit writer, including the zero-padded last byte of `Flush`. -/
def packBits : Nat → List Bool → List Byte
  | 0, _ => []
  | fuel + 1, bs =>
    match bs with
    | [] => []
    | _ :: _ =>
      let chunk := bs.take 8
      bitsToNat (chunk ++ List.replicate (8 - chunk.length) false) :: packBits fuel (bs.drop 8)

def unpackBits (bytes : List Byte) : List Bool := bytes.flatMap (bitsOf 8)

/-- `Reader.ReadBits(n)` on the remaining bit stream: error iff fewer than `n` bits are left. -/
def readBits (n : Nat) (bits : List Bool) : Res (Nat × List Bool) :=
  let hd := bits.take n
  if hd.length < n then .err else .ok (bitsToNat hd % W64, bits.drop n)

/-- `bits.Len32`. -/
def len32 (v : Nat) : Nat := if v = 0 then 0 else Nat.log2 v + 1

def bitPackingBits (src : List Nat) : List Bool :=
  match src with
  | [] => bitsOf 32 0
  | _ :: _ =>
    let maxValue := src.foldl (fun m v => if v > m then v else m) 0
    let width := if maxValue > 0 then len32 maxValue else 1
    bitsOf 32 src.length ++ bitsOf 8 width ++ src.flatMap (bitsOf width)

def encodeBitPacking (src : List Nat) : List Byte :=
  let bits := bitPackingBits src
  packBits bits.length bits

/-- the `for i := 0; i < length; i++ { ReadBits(width) }` loop. -/
def readValues (width : Nat) : Nat → List Bool → Res (List Nat)
  | 0, _ => .ok []
  | m + 1, bits =>
    match readBits width bits with
    | .ok (v, rest) =>
      match readValues width m rest with
      | .ok vs => .ok (v % 2 ^ 32 :: vs)
      | .err => .err
      | .panic => .panic
    | .err => .err
    | .panic => .panic

/-- `decodeBitPacking` as written at the pinned commit: neither `length` nor `bitsWidth` is checked
    (width 0 consumes nothing, so `length` – up to 2^32-1 – values are produced from 5 bytes). -/
def decodeBitPacking_legacy (src : List Byte) : Res (List Nat) :=
  match readBits 32 (unpackBits src) with
  | .ok (length, r1) =>
    if length = 0 then .ok []
    else
      match readBits 8 r1 with
      | .ok (width, r2) => readValues width length r2
      | .err => .err
      | .panic => .panic
  | .err => .err
  | .panic => .panic

/-- `decodeBitPacking` after repair F3: width must be 1..32 and `length` values must fit in the
    remaining input. -/
def decodeBitPacking (src : List Byte) : Res (List Nat) :=
  match readBits 32 (unpackBits src) with
  | .ok (length, r1) =>
    if length = 0 then .ok []
    else
      match readBits 8 r1 with
      | .ok (width, r2) =>
        if width = 0 ∨ width > 32 then .err
        else if length > r2.length / width then .err
        else readValues width length r2
      | .err => .err
      | .panic => .panic
  | .err => .err
  | .panic => .panic

/-- loop of `encodeRLE` from index 1. -/
def rleLoop : Nat → Nat → List Nat → List Nat
  | cur, cnt, [] => [cur, cnt]
  | cur, cnt, x :: xs => if x = cur then rleLoop cur (cnt + 1) xs else cur :: cnt :: rleLoop x 1 xs

def encodeRLE : List Nat → List Nat
  | [] => []
  | x :: xs => rleLoop x 1 xs

/-- `decodeRLE` as written: `src[i+1]` faults on odd length; expansion is unbounded. -/
def decodeRLE_legacy : List Nat → Res (List Nat)
  | [] => .ok []
  | [_] => .panic                                       -- index out of range
  | v :: c :: rest =>
    match decodeRLE_legacy rest with
    | .ok r => .ok (List.replicate c v ++ r)
    | .err => .err
    | .panic => .panic

/-- sum of the run lengths of a well-formed (even length) RLE list. -/
def rleTotal : List Nat → Option Nat
  | [] => some 0
  | [_] => none
  | _ :: c :: rest => (rleTotal rest).map (c + ·)

def rleExpand : List Nat → List Nat
  | v :: c :: rest => List.replicate c v ++ rleExpand rest
  | _ => []

/-- `validateRLE` + `decodeRLE` as called by `Dictionary.Decode` after repair F3: odd length and a
    total different from `itemsCount` are errors, checked before anything is expanded. -/
def decodeRLE (src : List Nat) (n : Nat) : Res (List Nat) :=
  match src with
  | [] => .ok []
  | _ :: _ =>
    match rleTotal src with
    | none => .err
    | some t => if t ≠ n then .err else .ok (rleExpand src)

structure Dict where
  values : List Item
  indices : List Nat
  deriving Repr

def Dict.empty : Dict := ⟨[], []⟩

def maxUniqueValues : Nat := 256

/-- `Dictionary.Add`: `none` = `false` (the 257th distinct value is refused). -/
def Dict.add (d : Dict) (v : Item) : Option Dict :=
  match d.values.findIdx? (· == v) with
  | some i => some { d with indices := d.indices ++ [i] }
  | none =>
    if d.values.length = maxUniqueValues then none
    else some { values := d.values ++ [v], indices := d.indices ++ [d.values.length] }

def Dict.addAll : Dict → List Item → Option Dict
  | d, [] => some d
  | d, v :: vs =>
    match d.add v with
    | some d' => Dict.addAll d' vs
    | none => none

def Dict.encode (z : Zstd) (d : Dict) : List Byte :=
  varUint64ToBytes d.values.length ++ encodeBytesBlock z d.values ++ encodeBitPacking (encodeRLE d.indices)

/-- `for _, index := range d.indices { dst = append(dst, d.values[index]) }` with a bounds check. -/
def lookupAll (values : List Item) : List Nat → Res (List Item)
  | [] => .ok []
  | i :: is =>
    match values[i]? with
    | none => .err
    | some v =>
      match lookupAll values is with
      | .ok r => .ok (v :: r)
      | .err => .err
      | .panic => .panic

def lookupAll_legacy (values : List Item) : List Nat → Res (List Item)
  | [] => .ok []
  | i :: is =>
    match values[i]? with
    | none => .panic                                   -- index out of range
    | some v =>
      match lookupAll_legacy values is with
      | .ok r => .ok (v :: r)
      | .err => .err
      | .panic => .panic

/-- `Dictionary.Decode` after repair F3. -/
def Dict.decode (z : Zstd) (src : List Byte) (n : Nat) : Res (List Item) :=
  let (count, src1) := bytesToVarUint64 src
  if count = 0 then .ok []
  else
    match decodeBytesBlockWithTail z src1 count with
    | .ok (values, tail) =>
      match decodeBitPacking tail with
      | .ok rl =>
        match decodeRLE rl n with
        | .ok idx => if idx.length ≠ n then .err else lookupAll values idx
        | .err => .err
        | .panic => .panic
      | .err => .err
      | .panic => .panic
    | .err => .err
    | .panic => .panic

/-- `Dictionary.Decode` as written at the pinned commit (finding F3). -/
def Dict.decode_legacy (z : Zstd) (src : List Byte) (n : Nat) : Res (List Item) :=
  let (count, src1) := bytesToVarUint64 src
  if count = 0 then .ok []
  else
    match decodeBytesBlockWithTail z src1 count with
    | .ok (values, tail) =>
      match decodeBitPacking_legacy tail with
      | .ok rl =>
        match decodeRLE_legacy rl with
        | .ok idx => if idx.length ≠ n then .err else lookupAll_legacy values idx
        | .err => .err
        | .panic => .panic
      | .err => .err
      | .panic => .panic
    | .err => .err
    | .panic => .panic

/-- `DecodeDictionaryValues`. -/
def decodeDictionaryValues (z : Zstd) (src : List Byte) : Res (List Item) :=
  match src with
  | [] => .ok []
  | _ :: _ =>
    let (count, src1) := bytesToVarUint64 src
    if count = 0 then .ok []
    else
      match decodeUint64Block z src1 count with
      | .ok (lens, tail) =>
        match decompressBlock z tail with
        | .ok (data, _) => sliceItems lens data
        | .err => .err
        | .panic => .panic
      | .err => .err
      | .panic => .panic

/-! ## 5. variable-length arrays (`vararray.go`) -/

def delim : Byte := 124   -- '|'
def esc : Byte := 92      -- '\\'

def escapeBody : List Byte → List Byte
  | [] => []
  | b :: bs => if b = delim ∨ b = esc then esc :: b :: escapeBody bs else b :: escapeBody bs

/-- `MarshalVarArray(dest, src)`: bytes appended (fast path for sources without special bytes). -/
def marshalVarArray (src : List Byte) : List Byte :=
  if ¬ src.contains delim ∧ ¬ src.contains esc then src ++ [delim]
  else escapeBody src ++ [delim]

/-- the in-place decode loop: `(decoded value so far, bytes consumed)`. -/
def unescapeLoop : List Byte → List Byte → Nat → Res (List Byte × Nat)
  | [], _, _ => .err                                  -- "invalid variable array"
  | b :: rest, acc, used =>
    if b = esc then
      match rest with
      | [] => .err                                    -- "invalid escape character"
      | c :: rest' => unescapeLoop rest' (acc ++ [c]) (used + 2)
    else if b = delim then .ok (acc, used + 1)
    else unescapeLoop rest (acc ++ [b]) (used + 1)

/-- `UnmarshalVarArray(src, idx)`: `(decoded value src[idx:end], next)`. -/
def unmarshalVarArray (src : List Byte) (idx : Nat) : Res (List Byte × Nat) :=
  let s := src.drop idx
  match s with
  | [] => .err                                        -- "empty entity value"
  | b :: _ =>
    if b = delim then .ok ([], idx + 1)
    else
      -- fast path: delimiter found and no escape before it
      let pre := s.takeWhile (· ≠ delim)
      if pre.length < s.length ∧ ¬ pre.contains esc then .ok (pre, idx + pre.length + 1)
      else
        match unescapeLoop s [] 0 with
        | .ok (v, used) => .ok (v, idx + used)
        | .err => .err
        | .panic => .panic

/-! ## 6. decimal-scaled floats (`float.go`) -/

/-- float ↔ decimal conversion as a parameter pair on IEEE-754 bit patterns:
    `toDec` is `floatToDecimal`, `fromDec v e` the value `DecimalIntListToFloat64List` computes
    for the integer `v` at exponent `e`. -/
structure FloatDec where
  toDec : BitVec 64 → Option (I64 × BitVec 16)
  fromDec : I64 → BitVec 16 → BitVec 64

def maxInt64 : Int := 9223372036854775807
def minInt64 : Int := -9223372036854775808

/-- one guarded multiplication `v * 10^k` (`0 ≤ k ≤ 18`, table lookup). -/
def mulPow10Step (v : I64) (k : Nat) : Option I64 :=
  let p : Int := 10 ^ k
  if v.toInt > Int.tdiv maxInt64 p ∨ v.toInt < Int.tdiv minInt64 p then none
  else some (BitVec.ofInt 64 (v.toInt * p))

/-- `mulPow10Large`: `for n >= 19 { …; v *= 1e18; n -= 18 }; if n > 0 { … }`. -/
def mulPow10Large : Nat → I64 → Nat → Option I64
  | 0, _, _ => none
  | fuel + 1, v, n =>
    if n ≥ 19 then
      match mulPow10Step v 18 with
      | none => none
      | some v' => mulPow10Large fuel v' (n - 18)
    else if n > 0 then mulPow10Step v n
    else some v

/-- `mulPow10Fast(v, n)`. -/
def mulPow10Fast (v : I64) (n : BitVec 16) : Option I64 :=
  if n.toInt < 0 then none
  else if n.toInt ≤ 18 then mulPow10Step v n.toNat
  else mulPow10Large n.toNat v n.toNat

/-- first loop of `Float64ListToDecimalIntList`: decimals, exponents, running minimum. -/
def toDecimals (fd : FloatDec) : List (BitVec 64) → BitVec 16 → Option (List (I64 × BitVec 16) × BitVec 16)
  | [], m => some ([], m)
  | f :: fs, m =>
    match fd.toDec f with
    | none => none
    | some (d, e) =>
      match toDecimals fd fs (if e.slt m then e else m) with
      | none => none
      | some (r, m') => some ((d, e) :: r, m')

/-- second loop: bring every decimal to the common exponent. -/
def scaleAll (minExp : BitVec 16) : List (I64 × BitVec 16) → Option (List I64)
  | [] => some []
  | (d, e) :: rest =>
    let diff := e - minExp
    let s := if diff = 0 then some d else mulPow10Fast d diff
    match s with
    | none => none
    | some d' =>
      match scaleAll minExp rest with
      | none => none
      | some r => some (d' :: r)

/-- `DecimalIntListToFloat64List` (never fails). -/
def decimalIntListToFloat64List (fd : FloatDec) (values : List I64) (exp : BitVec 16) : List (BitVec 64) :=
  values.map (fun v => fd.fromDec v exp)

/-- `Float64ListToDecimalIntList` as written at the pinned commit (finding F1): `.err` is
    `errCannotEncodeLossless`. -/
def float64ListToDecimalIntList_legacy (fd : FloatDec) (src : List (BitVec 64)) : Res (List I64 × BitVec 16) :=
  match src with
  | [] => .ok ([], 0)
  | _ :: _ =>
    match toDecimals fd src 32767#16 with
    | none => .err
    | some (des, minExp) =>
      match scaleAll minExp des with
      | none => .err
      | some ds => .ok (ds, minExp)

/-- Go's `a == b` on float64, on bit patterns: false if either is NaN, true for equal bits and for
    two zeros of either sign. -/
def isZero64 (b : BitVec 64) : Bool := b == 0#64 || b == 0x8000000000000000#64

def fEq (a b : BitVec 64) : Bool :=
  !C12.isNaN a && !C12.isNaN b && (a == b || (isZero64 a && isZero64 b))

/-- `len(decoded) == len(src)` and `decoded[i] == src[i]` for all `i`. -/
def fEqList : List (BitVec 64) → List (BitVec 64) → Bool
  | [], [] => true
  | a :: as, b :: bs => fEq a b && fEqList as bs
  | _, _ => false

/-- … after repair F1: the encoder decodes its own result and refuses unless every value comes
    back equal *as a float64* (`decoded[i] != f`): one-ulp losses are refused, while the sign of
    zero is not significant (upstream's tests pin `-0.0` ↦ `+0.0`, known finding F1z). -/
def float64ListToDecimalIntList (fd : FloatDec) (src : List (BitVec 64)) : Res (List I64 × BitVec 16) :=
  match float64ListToDecimalIntList_legacy fd src with
  | .ok (ds, e) => if fEqList (decimalIntListToFloat64List fd ds e) src then .ok (ds, e) else .err
  | .err => .err
  | .panic => .panic

/-! ## 7. tag values (`banyand/internal/encoding/tag_encoder.go`) -/

inductive VType where
  | int64 | float64 | other
  deriving DecidableEq, Repr

def nullLit : List Byte := [110, 117, 108, 108]    -- "null"

/-- scan of the int64/float64 encoders: `.ok none` = fall back to the plain block (nil / "null"
    seen first), `.panic` = value of a wrong length seen first. -/
def scan8 : List Item → Res (Option (List (List Byte)))
  | [] => .ok (some [])
  | none :: _ => .ok none
  | some v :: rest =>
    if v = nullLit then .ok none
    else if v.length ≠ 8 then .panic
    else
      match scan8 rest with
      | .ok (some r) => .ok (some (v :: r))
      | .ok none => .ok none
      | .err => .err
      | .panic => .panic

def plainBlock (z : Zstd) (values : List Item) : List Byte × Nat :=
  (mtPlain :: encodeBytesBlock z values, mtPlain)

def encodeInt64TagValues (z : Zstd) (values : List Item) : Res (List Byte × Nat) :=
  match scan8 values with
  | .ok none => .ok (plainBlock z values)
  | .ok (some vs) =>
    match int64ListToBytes (vs.map C12.bytesToInt64) with
    | .ok (bs, mt, first) => .ok (mt :: (C12.int64ToBytes first ++ bs), mt)
    | .err => .err
    | .panic => .panic
  | .err => .err
  | .panic => .panic

def encodeFloat64TagValues (z : Zstd) (fd : FloatDec) (values : List Item) : Res (List Byte × Nat) :=
  match scan8 values with
  | .ok none => .ok (plainBlock z values)
  | .ok (some vs) =>
    match float64ListToDecimalIntList fd (vs.map fun v => BitVec.ofNat 64 (ofBE v)) with
    | .err => .ok (plainBlock z values)
    | .panic => .panic
    | .ok (ds, exp) =>
      match int64ListToBytes ds with
      | .ok (bs, mt, first) => .ok (mt :: (beBytes 2 exp.toNat ++ C12.int64ToBytes first ++ bs), mt)
      | .err => .err
      | .panic => .panic
  | .err => .err
  | .panic => .panic

def encodeDefaultTagValues (z : Zstd) (values : List Item) : List Byte × Nat :=
  match Dict.addAll Dict.empty values with
  | none => plainBlock z values
  | some d => (mtDictionary :: d.encode z, mtDictionary)

/-- `EncodeTagValues`: `(bb.Buf, encode type)`. -/
def encodeTagValues (z : Zstd) (fd : FloatDec) (values : List Item) (vt : VType) : Res (List Byte × Nat) :=
  match values with
  | [] => .ok ([], 0)
  | _ :: _ =>
    match vt with
    | .int64 => encodeInt64TagValues z values
    | .float64 => encodeFloat64TagValues z fd values
    | .other => .ok (encodeDefaultTagValues z values)

/-- a decoder error inside `DecodeTagValues` is escalated with `logger.Panicf`. -/
def orPanic {α : Type} : Res α → Res α
  | .ok a => .ok a
  | .err => .panic
  | .panic => .panic

def decodeInt64TagValues (z : Zstd) (buf : List Byte) (n : Nat) : Res (List Item) :=
  match buf with
  | [] => .panic
  | t :: body =>
    if t = mtPlain then orPanic (decodeBytesBlock z body n)
    else if buf.length < 9 then .panic
    else
      match orPanic (bytesToInt64List (buf.drop 9) t (C12.bytesToInt64 (body.take 8)) n) with
      | .ok vs => .ok (vs.map fun v => some (C12.int64ToBytes v))
      | .err => .err
      | .panic => .panic

def decodeFloat64TagValues (z : Zstd) (fd : FloatDec) (buf : List Byte) (n : Nat) : Res (List Item) :=
  match buf with
  | [] => .panic
  | t :: body =>
    if t = mtPlain then orPanic (decodeBytesBlock z body n)
    else if buf.length < 11 then .panic
    else
      let exp := BitVec.ofNat 16 (ofBE (body.take 2))
      let first := C12.bytesToInt64 ((buf.drop 3).take 8)
      match orPanic (bytesToInt64List (buf.drop 11) t first n) with
      | .ok vs =>
        let fs := decimalIntListToFloat64List fd vs exp
        if fs.length ≠ n then .panic
        else .ok (fs.map fun f => some (beBytes 8 f.toNat))
      | .err => .err
      | .panic => .panic

def decodeDefaultTagValues (z : Zstd) (buf : List Byte) (n : Nat) : Res (List Item) :=
  match buf with
  | [] => .ok []
  | t :: body =>
    if t = mtDictionary then orPanic (Dict.decode z body n)
    else orPanic (decodeBytesBlock z body n)

/-- `DecodeTagValues`. -/
def decodeTagValues (z : Zstd) (fd : FloatDec) (buf : List Byte) (vt : VType) (n : Nat) : Res (List Item) :=
  match buf with
  | [] => .ok []
  | _ :: _ =>
    match vt with
    | .int64 => decodeInt64TagValues z buf n
    | .float64 => decodeFloat64TagValues z fd buf n
    | .other => decodeDefaultTagValues z buf n

/-! ## 8. per-engine tag value marshalling (`banyand/{measure,stream,trace}`)

Each engine carries its own copy of `encodeTagValue` / `marshal` / `mustDecodeTagValue`; measure and
stream also carry private copies of `marshalVarArray` / `unmarshalVarArray` (slice-returning loop form),
trace uses `pkg/encoding`. One model, two decoder variants. -/

inductive TagVal where
  | null
  | str (s : List Byte)
  | bin (b : List Byte)
  | int (v : I64)
  | strArr (l : List (List Byte))
  | intArr (l : List I64)
  | ts (sec nanos : Int)
  deriving DecidableEq, Repr

inductive TVType where
  | str | bin | int | strArr | intArr | ts
  deriving DecidableEq, Repr

def TagVal.type? : TagVal → Option TVType
  | .null => none
  | .str _ => some .str
  | .bin _ => some .bin
  | .int _ => some .int
  | .strArr _ => some .strArr
  | .intArr _ => some .intArr
  | .ts _ _ => some .ts

/-- `encodeTagValue(...).marshal()`; `none` is a nil slice (null value, and also an array without
    elements: `var dst []byte` is returned untouched). -/
def engineMarshal : TagVal → Option (List Byte)
  | .null => none
  | .str s => some s
  | .bin b => some b
  | .int v => some (C12.int64ToBytes v)
  | .strArr [] => none
  | .strArr l => some (l.flatMap marshalVarArray)
  | .intArr [] => none
  | .intArr l => some (l.flatMap C12.int64ToBytes)
  | .ts sec nanos => some (C12.int64ToBytes (BitVec.ofInt 64 (sec * 1000000000 + nanos)))

/-- the private `unmarshalVarArray(dest, src)` of measure/stream: `(value, rest)`. -/
def ownUnmarshalVarArray (src : List Byte) : Res (List Byte × List Byte) :=
  match src with
  | [] => .err
  | _ :: _ =>
    match unescapeLoop src [] 0 with
    | .ok (v, used) => .ok (v, src.drop used)
    | .err => .err
    | .panic => .panic

/-- `for len(value) > 0 { bb.Buf, value, err = unmarshalVarArray(bb.Buf[:0], value); … }` -/
def ownDecodeStrArr : Nat → List Byte → Res (List (List Byte))
  | 0, _ => .err
  | fuel + 1, src =>
    match src with
    | [] => .ok []
    | _ :: _ =>
      match ownUnmarshalVarArray src with
      | .ok (v, rest) =>
        match ownDecodeStrArr fuel rest with
        | .ok vs => .ok (v :: vs)
        | .err => .err
        | .panic => .panic
      | .err => .err
      | .panic => .panic

/-- trace: `for idx := 0; idx < len(value); idx = next { end, next, err = encoding.UnmarshalVarArray(value, idx) … }` -/
def idxDecodeStrArr : Nat → List Byte → Nat → Res (List (List Byte))
  | 0, _, _ => .err
  | fuel + 1, src, idx =>
    if idx < src.length then
      match unmarshalVarArray src idx with
      | .ok (v, next) =>
        match idxDecodeStrArr fuel src next with
        | .ok vs => .ok (v :: vs)
        | .err => .err
        | .panic => .panic
      | .err => .err
      | .panic => .panic
    else .ok []

/-- `for i := 0; i < len(value); i += 8 { convert.BytesToInt64(value[i:i+8]) }` (faults on a ragged tail). -/
def decodeIntArr : Nat → List Byte → Res (List I64)
  | 0, _ => .err
  | fuel + 1, src =>
    match src with
    | [] => .ok []
    | _ :: _ =>
      if src.length < 8 then .panic
      else
        match decodeIntArr fuel (src.drop 8) with
        | .ok vs => .ok (C12.bytesToInt64 (src.take 8) :: vs)
        | .err => .err
        | .panic => .panic

/-- `mustDecodeTagValue(valueType, value)`; `own` selects the private var-array copy (measure, stream)
    or `pkg/encoding` (trace). Decoder errors are escalated with `logger.Panicf`. -/
def engineDecode (own : Bool) (vt : TVType) (raw : Option (List Byte)) : Res TagVal :=
  match raw with
  | none => .ok .null
  | some b =>
    match vt with
    | .str => .ok (.str b)
    | .bin => .ok (.bin b)
    | .int => if b.length < 8 then .panic else .ok (.int (C12.bytesToInt64 b))
    | .strArr =>
      match orPanic (if own then ownDecodeStrArr (b.length + 1) b else idxDecodeStrArr (b.length + 1) b 0) with
      | .ok l => .ok (.strArr l)
      | .err => .err
      | .panic => .panic
    | .intArr =>
      match orPanic (decodeIntArr (b.length + 1) b) with
      | .ok l => .ok (.intArr l)
      | .err => .err
      | .panic => .panic
    | .ts =>
      if b.length < 8 then .panic
      else
        let n := (C12.bytesToInt64 b).toInt
        .ok (.ts (Int.tdiv n 1000000000) (Int.tmod n 1000000000))

/-! ## 9. measure column values (`banyand/measure/column.go`)

Same building blocks as the tag encoder, but the fallback carries two header bytes:
`[EncodeTypePlain][EncodeTypeDictionary | EncodeTypePlain] …` (`doEncodeDefault` = `encodeDefault` + prefix). -/

def encodeInt64Column (z : Zstd) (values : List Item) : Res (List Byte) :=
  match scan8 values with
  | .ok none => .ok (mtPlain :: (encodeDefaultTagValues z values).1)
  | .ok (some vs) =>
    match int64ListToBytes (vs.map C12.bytesToInt64) with
    | .ok (bs, mt, first) => .ok (mt :: (C12.int64ToBytes first ++ bs))
    | .err => .err
    | .panic => .panic
  | .err => .err
  | .panic => .panic

def encodeFloat64Column (z : Zstd) (fd : FloatDec) (values : List Item) : Res (List Byte) :=
  match scan8 values with
  | .ok none => .ok (mtPlain :: (encodeDefaultTagValues z values).1)
  | .ok (some vs) =>
    match float64ListToDecimalIntList fd (vs.map fun v => BitVec.ofNat 64 (ofBE v)) with
    | .err => .ok (mtPlain :: (encodeDefaultTagValues z values).1)
    | .panic => .panic
    | .ok (ds, exp) =>
      match int64ListToBytes ds with
      | .ok (bs, mt, first) => .ok (mt :: (beBytes 2 exp.toNat ++ C12.int64ToBytes first ++ bs))
      | .err => .err
      | .panic => .panic
  | .err => .err
  | .panic => .panic

def encodeColumn (z : Zstd) (fd : FloatDec) (values : List Item) (vt : VType) : Res (List Byte) :=
  match vt with
  | .int64 => encodeInt64Column z values
  | .float64 => encodeFloat64Column z fd values
  | .other => .ok (encodeDefaultTagValues z values).1

/-- `decodeDefault`: `bb.Buf[0]` faults on an empty buffer. -/
def decodeDefaultColumn (z : Zstd) (buf : List Byte) (n : Nat) : Res (List Item) :=
  match buf with
  | [] => .panic
  | _ :: _ => decodeDefaultTagValues z buf n

def decodeColumn (z : Zstd) (fd : FloatDec) (buf : List Byte) (vt : VType) (n : Nat) : Res (List Item) :=
  match vt with
  | .other => decodeDefaultColumn z buf n
  | .int64 =>
    match buf with
    | [] => .panic
    | t :: body => if t = mtPlain then decodeDefaultColumn z body n else decodeInt64TagValues z buf n
  | .float64 =>
    match buf with
    | [] => .panic
    | t :: body => if t = mtPlain then decodeDefaultColumn z body n else decodeFloat64TagValues z fd buf n

end Banyan.C11
