/-
C12 — sort-key encodings and series identity. L1 models mirroring
  /repo/pkg/convert/number.go      (Int64ToBytes, BytesToInt64, Int32ToBytes, BytesToInt32,
                                    Float64ToOrderedBytes, OrderedBytesToFloat64)
  /repo/pkg/encoding/int.go        (Int64ToBytes/BytesToInt64: zig-zag fixed width)
  /repo/pkg/pb/v1/value.go         (marshalEntityValue, unmarshalEntityValue, marshalTagValue,
                                    unmarshalTagValue)
  /repo/pkg/pb/v1/series.go        (Series.Marshal / Unmarshal)
-/
import Banyan.Model.Util

namespace Banyan.C12

/-! ### ordered integers (`pkg/convert/number.go`) -/

/-- `Int64ToBytes`: the uint64 that is written big-endian. Mirrors the Go control flow
    (`abs`, two branches) on wrap-around 64-bit arithmetic. -/
def int64ToU (i : BitVec 64) : BitVec 64 :=
  let abs := if i.slt 0#64 then -i else i
  if ¬ i.slt 0#64 then abs ||| (1#64 <<< 63) else (1#64 <<< 63) - abs

def int64ToBytes (i : BitVec 64) : List Byte := beBytes 8 (int64ToU i).toNat

/-- `BytesToInt64` on the uint64 read big-endian (`b[0] >= 128` is the top bit of `u`). -/
def uToInt64 (u : BitVec 64) : BitVec 64 :=
  let top := u.msb
  let u' := if top then u ^^^ (1#64 <<< 63) else (1#64 <<< 63) - u
  if ¬ top then -u' else u'

def bytesToInt64 (bs : List Byte) : BitVec 64 := uToInt64 (BitVec.ofNat 64 (ofBE (bs.take 8)))

def int32ToU (i : BitVec 32) : BitVec 32 :=
  let abs := if i.slt 0#32 then -i else i
  if ¬ i.slt 0#32 then abs ||| (1#32 <<< 31) else (1#32 <<< 31) - abs

def int32ToBytes (i : BitVec 32) : List Byte := beBytes 4 (int32ToU i).toNat

def uToInt32 (u : BitVec 32) : BitVec 32 :=
  if (u >>> 31) == 1#32 then u &&& ~~~(1#32 <<< 31) else -((1#32 <<< 31) - u)

/-- `Int16ToBytes` / `BytesToInt16`: plain big-endian two's complement (used for the decimal
    exponent of float columns; round trip only, not an ordered encoding). -/
def int16ToBytes (i : BitVec 16) : List Byte := beBytes 2 i.toNat
def bytesToInt16 (bs : List Byte) : BitVec 16 := BitVec.ofNat 16 (ofBE (bs.take 2))

/-- Sort key of a timestamp tag value (`pkg/pb/v1/write.go ParseTagValue`, used by the distributed
    stream/measure merges through `MarshalTagValue`): ordered bytes of `Seconds*1e9 + Nanos`
    (protobuf timestamps count nanos forward for every sign of `Seconds`). -/
def timestampSortKey (sec nanos : Int) : List Byte :=
  int64ToBytes (BitVec.ofInt 64 (sec * 1000000000 + nanos))

/-! ### ordered floats -/

/-- IEEE-754 binary64 `NaN` test on the bit pattern. -/
def isNaN (b : BitVec 64) : Bool :=
  ((b >>> 52) &&& 0x7ff#64) == 0x7ff#64 && (b &&& 0xfffffffffffff#64) != 0#64

/-- Go's `f >= 0` on the bit pattern of `f`: false for NaN, true for `+x` and for `-0.0`. -/
def geZero (b : BitVec 64) : Bool :=
  !isNaN b && (!b.msb || b == 0x8000000000000000#64)

/-- `Float64ToOrderedBytes` as written at the pinned commit (`if f >= 0`). -/
def floatToOrderedU_legacy (b : BitVec 64) : BitVec 64 :=
  if geZero b then b ^^^ 0x8000000000000000#64 else b ^^^ 0xFFFFFFFFFFFFFFFF#64

/-- `Float64ToOrderedBytes` after the repair (sign-bit test). -/
def floatToOrderedU (b : BitVec 64) : BitVec 64 :=
  if !b.msb then b ^^^ 0x8000000000000000#64 else b ^^^ 0xFFFFFFFFFFFFFFFF#64

def orderedUToFloat (u : BitVec 64) : BitVec 64 :=
  if u.msb then u ^^^ 0x8000000000000000#64 else u ^^^ 0xFFFFFFFFFFFFFFFF#64

def floatToOrderedBytes (b : BitVec 64) : List Byte := beBytes 8 (floatToOrderedU b).toNat

/-- IEEE "less than" on non-NaN bit patterns (sign-magnitude; `-0 = +0`). -/
def fLt (a b : BitVec 64) : Bool :=
  let ma := a &&& 0x7FFFFFFFFFFFFFFF#64
  let mb := b &&& 0x7FFFFFFFFFFFFFFF#64
  match a.msb, b.msb with
  | false, false => ma.ult mb
  | true, true => mb.ult ma
  | true, false => !(ma == 0#64 && mb == 0#64)
  | false, true => false

/-! ### zig-zag fixed width (`pkg/encoding/int.go`) -/

def zigzag (v : BitVec 64) : BitVec 64 := (v <<< 1) ^^^ (v.sshiftRight 63)
def unzigzag (u : BitVec 64) : BitVec 64 := (u >>> 1) ^^^ ((u <<< 63).sshiftRight 63)

def encInt64ToBytes (v : BitVec 64) : List Byte := beBytes 8 (zigzag v).toNat
def encBytesToInt64 (bs : List Byte) : BitVec 64 := unzigzag (BitVec.ofNat 64 (ofBE (bs.take 8)))

/-! ### entity values -/

def delim : Byte := 124   -- '|'
def esc : Byte := 92      -- '\\'

def escapeBody : List Byte → List Byte
  | [] => []
  | b :: bs => if b = delim ∨ b = esc then esc :: b :: escapeBody bs else b :: escapeBody bs

/-- `marshalEntityValue(dest, src)`: returns the bytes appended to `dest`.
    (`nil` and empty `src` give the same output, so `src` is a plain list.) -/
def marshalEntityValue (src : List Byte) : List Byte := escapeBody src ++ [delim]

/-- `unmarshalEntityValue`: `some (value, rest)` or `none` on error. -/
def unescapeLoop : List Byte → List Byte → Option (List Byte × List Byte)
  | [], _ => none                                   -- "invalid entity value"
  | b :: rest, acc =>
    if b = esc then
      match rest with
      | [] => none                                  -- "invalid escape character"
      | c :: rest' => unescapeLoop rest' (acc ++ [c])
    else if b = delim then some (acc, rest)
    else unescapeLoop rest (acc ++ [b])

def unmarshalEntityValue (src : List Byte) : Option (List Byte × List Byte) :=
  match src with
  | [] => none                                      -- "empty entity value"
  | _ => unescapeLoop src []

/-- Entity tag values that `marshalTagValue` supports (timestamps are stored as their int64
    nanosecond count and are covered by `int` at this level). -/
inductive TagValue where
  | null
  | str (s : List Byte)
  | int (v : BitVec 64)
  | bin (b : List Byte)
  deriving DecidableEq, Repr

def TagValue.typeByte : TagValue → Byte
  | .null => 0 | .str _ => 1 | .int _ => 2 | .bin _ => 4

def marshalTagValue : TagValue → List Byte
  | .null => [0] ++ marshalEntityValue []
  | .str s => [1] ++ marshalEntityValue s
  | .int v => [2] ++ marshalEntityValue (encInt64ToBytes v)
  | .bin b => [4] ++ marshalEntityValue b

structure Series where
  subject : List Byte
  values : List TagValue
  deriving DecidableEq, Repr

def marshalTagValues : List TagValue → List Byte
  | [] => []
  | t :: ts => marshalTagValue t ++ marshalTagValues ts

def Series.marshal (s : Series) : List Byte :=
  marshalEntityValue s.subject ++ marshalTagValues s.values

/-- What `unmarshalTagValue` reads back: empty strings / binaries become null. -/
def TagValue.normalise : TagValue → TagValue
  | .str [] => .null
  | .bin [] => .null
  | t => t

def Series.normalise (s : Series) : Series := { s with values := s.values.map TagValue.normalise }

/-- `unmarshalTagValue` (panics of the Go code on short inputs are reported as `none` here and are
    outside C12, which is about round trips; fuzzing of this decoder is not claimed). -/
def unmarshalTagValue (src : List Byte) : Option (TagValue × List Byte) :=
  match src with
  | [] => none
  | 0 :: rest => match rest with
      | _ :: rest' => some (.null, rest')
      | [] => none
  | 1 :: rest => do
      let (v, r) ← unmarshalEntityValue rest
      pure (if v.isEmpty then .null else .str v, r)
  | 2 :: rest => do
      let (v, r) ← unmarshalEntityValue rest
      if v.length < 8 then none else pure (.int (encBytesToInt64 v), r)
  | 4 :: rest => do
      let (v, r) ← unmarshalEntityValue rest
      pure (if v.isEmpty then .null else .bin v, r)
  | _ => none

def unmarshalTagValues : Nat → List Byte → Option (List TagValue)
  | 0, _ => none
  | fuel + 1, src =>
    match src with
    | [] => some []
    | _ => do
      let (t, r) ← unmarshalTagValue src
      let ts ← unmarshalTagValues fuel r
      pure (t :: ts)

def Series.unmarshal (src : List Byte) : Option Series := do
  let (subj, rest) ← unmarshalEntityValue src
  let vs ← unmarshalTagValues (rest.length + 1) rest
  pure { subject := subj, values := vs }

end Banyan.C12
