/-
C13 — a trace is stored, returned and sampled as a whole. Executable models mirroring
  /repo/banyand/trace/fragment_guard.go          (Resolve, RevalidateDrops, Close, helpers)
  /repo/banyand/trace/fragment_guard_runtime.go  (catalogue construction, revalidate request)
  /repo/banyand/trace/drop_set.go                (droppedTraceIDs, dropTracker, pricing)
  /repo/pkg/pipeline/sdk/chain.go                (EvaluateChainInto: per-link fail-open)
  /repo/banyand/trace/pipeline_chain.go          (mergeChain.Execute: timeout / circuit breaker)
  /repo/banyand/trace/merger.go, introducer.go, finalizer.go, flusher.go, snapshot.go,
  /repo/banyand/internal/sidx/merge.go           (table level: parts as span multisets,
                                                  merge = filter by the drop set, publication)
Mutation is modelled by returned values, loops by structural recursion, `ctx.Err()` polling
by an explicit poll counter, Go `panic` by an explicit outcome.  Span order inside a part is
not modelled: every observation is a sorted multiset.
-/
import Banyan.Model.Util

namespace Banyan.C13

/-! ## 1. int64 saturating arithmetic (`traceFragmentSaturatingSub/Add`) -/

def minI64 : Int := -9223372036854775808
def maxI64 : Int := 9223372036854775807

def satSub (value delta : Int) : Int :=
  if delta > 0 ∧ value < minI64 + delta then minI64 else value - delta

def satAdd (value delta : Int) : Int :=
  if delta > 0 ∧ value > maxI64 - delta then maxI64 else value + delta

/-! ## 2. fragment guard -/

/-- `traceFragmentMembership`; `other` is any value outside the declared enum. -/
inductive Membership | unknown | absent | maybe | other
  deriving DecidableEq, Repr

/-- result of `traceFragmentMembershipFilter.Lookup`. -/
inductive Lookup | ok (m : Membership) | err
  deriving DecidableEq, Repr

/-- `traceFragmentSamplerAction`. -/
inductive SamplerAction | unknown | keep | drop | other
  deriving DecidableEq, Repr

/-- `traceFragmentGuardAction` (iota order: Defer, Keep, Drop). -/
inductive GuardAction | defer | keep | drop
  deriving DecidableEq, Repr

def GuardAction.code : GuardAction → Nat
  | .defer => 0 | .keep => 1 | .drop => 2

/-- `traceFragmentGuardReason`; `none` is the empty string. -/
inductive Reason
  | none | samplerKeep | samplerActionInvalid | configInvalid | temporalSafetyUnknown
  | noCandidate | allCandidatesNegative | filterPositive | traceIncomplete | traceBoundsInvalid
  | catalogIncomplete | catalogUnpinned | partBoundsInvalid | filterUnavailable | filterError
  | budgetExhausted | canceled | segmentBoundary | snapshotUnchanged | snapshotDeltaClear
  | snapshotDeltaPositive | snapshotRegressed | snapshotChanged | ownershipChanged
  | selectedInputsChanged | publicationFenceMissing
  deriving DecidableEq, Repr

def Reason.str : Reason → String
  | .none => "none"
  | .samplerKeep => "sampler_keep"
  | .samplerActionInvalid => "sampler_action_invalid"
  | .configInvalid => "config_invalid"
  | .temporalSafetyUnknown => "temporal_safety_unknown"
  | .noCandidate => "no_candidate"
  | .allCandidatesNegative => "all_candidates_negative"
  | .filterPositive => "filter_positive"
  | .traceIncomplete => "trace_incomplete"
  | .traceBoundsInvalid => "trace_bounds_invalid"
  | .catalogIncomplete => "catalog_incomplete"
  | .catalogUnpinned => "catalog_unpinned"
  | .partBoundsInvalid => "part_bounds_invalid"
  | .filterUnavailable => "filter_unavailable"
  | .filterError => "filter_error"
  | .budgetExhausted => "budget_exhausted"
  | .canceled => "canceled"
  | .segmentBoundary => "segment_boundary"
  | .snapshotUnchanged => "snapshot_unchanged"
  | .snapshotDeltaClear => "snapshot_delta_clear"
  | .snapshotDeltaPositive => "snapshot_delta_positive"
  | .snapshotRegressed => "snapshot_regressed"
  | .snapshotChanged => "snapshot_changed_after_revalidation"
  | .ownershipChanged => "ownership_changed"
  | .selectedInputsChanged => "selected_inputs_changed"
  | .publicationFenceMissing => "publication_fence_missing"

/-- every reason except the empty one, in the declaration order of fragment_guard.go. -/
def allReasons : List Reason :=
  [.samplerKeep, .samplerActionInvalid, .configInvalid, .temporalSafetyUnknown, .noCandidate,
   .allCandidatesNegative, .filterPositive, .traceIncomplete, .traceBoundsInvalid,
   .catalogIncomplete, .catalogUnpinned, .partBoundsInvalid, .filterUnavailable, .filterError,
   .budgetExhausted, .canceled, .segmentBoundary, .snapshotUnchanged, .snapshotDeltaClear,
   .snapshotDeltaPositive, .snapshotRegressed, .snapshotChanged, .ownershipChanged,
   .selectedInputsChanged, .publicationFenceMissing]

/-- `traceFragmentGuardBlock`. -/
structure GBlock where
  min : Int
  max : Int
  known : Bool
  deriving DecidableEq, Repr

/-- `traceFragmentGuardTrace` (`id = ""` is the empty trace id). -/
structure GTrace where
  id : String
  blocks : List GBlock
  complete : Bool

/-- `traceFragmentGuardPart`; `filter = none` is a nil `Filter`. -/
structure GPart where
  min : Int
  max : Int
  known : Bool
  filter : Option (String → Lookup)

/-- `traceFragmentGuardConfig`. -/
structure GConfig where
  grace : Int
  maxProbes : Int
  maxDrops : Int

/-- `traceFragmentGuardCatalog` (`temporal`: 0 unknown, 1 max-gap enforced, other = unknown). -/
structure GCatalog where
  pinned : Bool
  parts : List GPart
  baseEpoch : Nat
  covMin : Int
  covMax : Int
  gap : Int
  complete : Bool
  covKnown : Bool
  temporal : Nat

/-- `traceFragmentGuardConfirmedDrop`. -/
structure ConfirmedDrop where
  id : String
  min : Int
  max : Int
  known : Bool
  deriving DecidableEq, Repr

/-- mutable part of `defaultTraceFragmentGuard`. -/
structure GState where
  probes : Nat := 0
  drops : List ConfirmedDrop := []
  closed : Bool := false
  pinned : Bool
  releases : Nat := 0

/-- `traceFragmentGuardDecision`. -/
structure Decision where
  action : GuardAction
  reason : Reason
  candidates : Nat
  probes : Nat
  confirmed : Option ConfirmedDrop
  baseEpoch : Nat

/-- a context whose `Err()` becomes non-nil after `cancelAt` successful polls. -/
structure Ctx where
  polls : Nat
  cancelAt : Option Nat

/-- one `ctx.Err() != nil` test. -/
def Ctx.poll (c : Ctx) : Bool × Ctx :=
  let c' := { c with polls := c.polls + 1 }
  match c.cancelAt with
  | some k => (decide (c'.polls > k), c')
  | none => (false, c')

/-- `baseValidationReason`. -/
def baseValidation (cfg : GConfig) (cat : GCatalog) (pinned : Bool) : Option Reason :=
  if cfg.grace < 0 ∨ cfg.maxProbes < 0 ∨ cfg.maxDrops < 0 then some .configInvalid
  else if cat.temporal = 1 then
    if cat.gap < 0 ∨ cfg.grace < cat.gap then some .temporalSafetyUnknown
    else if !pinned then some .catalogUnpinned
    else none
  else some .temporalSafetyUnknown

def boundsLoop : List GBlock → Int → Int → Option (Int × Int)
  | [], lo, hi => some (lo, hi)
  | b :: bs, lo, hi =>
    if !b.known || decide (b.min > b.max) then none
    else boundsLoop bs (if b.min < lo then b.min else lo) (if b.max > hi then b.max else hi)

/-- `traceFragmentBounds`. -/
def traceBounds (blocks : List GBlock) : Option (Int × Int) :=
  if blocks.isEmpty then none else boundsLoop blocks maxI64 minI64

/-- `traceFragmentPartsValidationReason`. -/
def partsValidation : List GPart → Option Reason
  | [] => none
  | p :: ps => if !p.known || decide (p.min > p.max) then some .partBoundsInvalid else partsValidation ps

/-- the candidate test of `Resolve` / `traceFragmentCandidateCount`. -/
def overlaps (p : GPart) (gmin gmax : Int) : Bool :=
  decide (p.max ≥ gmin) && decide (p.min ≤ gmax)

def candidateCount (parts : List GPart) (gmin gmax : Int) : Nat :=
  (parts.filter (overlaps · gmin gmax)).length

/-- `recordConfirmedDrop`. -/
def recordDrop (cfg : GConfig) (st : GState) (d : ConfirmedDrop) : Option GState :=
  if cfg.maxDrops > 0 ∧ (st.drops.length : Int) ≥ cfg.maxDrops then none
  else some { st with drops := st.drops ++ [d] }

/-- result of walking the candidate parts for one trace id. -/
inductive ProbeResult
  | clear (stProbes : Nat) (ctx : Ctx) (callProbes : Nat)
  | stop (reason : Reason) (stProbes : Nat) (ctx : Ctx) (callProbes : Nat)

/-- the candidate loop shared by `Resolve` and `RevalidateDrops`; `positive` is the reason
    reported for a `MaybePresent` answer. -/
def probeLoop (cfg : GConfig) (tid : String) (gmin gmax : Int) (positive : Reason) :
    List GPart → Nat → Ctx → Nat → ProbeResult
  | [], sp, ctx, cp => .clear sp ctx cp
  | p :: ps, sp, ctx, cp =>
    if !overlaps p gmin gmax then probeLoop cfg tid gmin gmax positive ps sp ctx cp
    else match p.filter with
      | none => .stop .filterUnavailable sp ctx cp
      | some f =>
        if (sp : Int) ≥ cfg.maxProbes then .stop .budgetExhausted sp ctx cp
        else
          let sp := sp + 1
          let (c1, ctx) := ctx.poll
          if c1 then .stop .canceled sp ctx cp
          else
            let cp := cp + 1
            match f tid with
            | .err => .stop .filterError sp ctx cp
            | .ok m =>
              let (c2, ctx) := ctx.poll
              if c2 then .stop .canceled sp ctx cp
              else match m with
                | .absent => probeLoop cfg tid gmin gmax positive ps sp ctx cp
                | .maybe => .stop positive sp ctx cp
                | _ => .stop .filterUnavailable sp ctx cp

/-- `defaultTraceFragmentGuard.Resolve`. -/
def resolve (cfg : GConfig) (cat : GCatalog) (st : GState) (tr : GTrace) (act : SamplerAction)
    (cancelAt : Option Nat) : Decision × GState :=
  let dec (a : GuardAction) (r : Reason) (c p : Nat) (cd : Option ConfirmedDrop) : Decision :=
    { action := a, reason := r, candidates := c, probes := p, confirmed := cd, baseEpoch := cat.baseEpoch }
  match act with
  | .keep => (dec .keep .samplerKeep 0 0 none, st)
  | .unknown => (dec .defer .samplerActionInvalid 0 0 none, st)
  | .other => (dec .defer .samplerActionInvalid 0 0 none, st)
  | .drop =>
    if st.closed then (dec .defer .catalogUnpinned 0 0 none, st)
    else match baseValidation cfg cat st.pinned with
      | some r => (dec .defer r 0 0 none, st)
      | none =>
        let (c1, ctx1) := (Ctx.mk 0 cancelAt).poll
        if c1 then (dec .defer .canceled 0 0 none, st)
        else if !tr.complete || tr.id == "" then (dec .defer .traceIncomplete 0 0 none, st)
        else match traceBounds tr.blocks with
          | none => (dec .defer .traceBoundsInvalid 0 0 none, st)
          | some (tmin, tmax) =>
            if !cat.complete then (dec .defer .catalogIncomplete 0 0 none, st)
            else
              let gmin := satSub tmin cfg.grace
              let gmax := satAdd tmax cfg.grace
              if !cat.covKnown || decide (gmin < cat.covMin) || decide (gmax > cat.covMax) then
                (dec .defer .segmentBoundary 0 0 none, st)
              else match partsValidation cat.parts with
                | some r => (dec .defer r 0 0 none, st)
                | none =>
                  let cc := candidateCount cat.parts gmin gmax
                  let (c2, ctx2) := ctx1.poll
                  if c2 then (dec .defer .canceled cc 0 none, st)
                  else
                    let cd : ConfirmedDrop := { id := tr.id, min := tmin, max := tmax, known := true }
                    if cc = 0 then
                      match recordDrop cfg st cd with
                      | none => (dec .defer .budgetExhausted 0 0 none, st)
                      | some st' => (dec .drop .noCandidate 0 0 (some cd), st')
                    else match probeLoop cfg tr.id gmin gmax .filterPositive cat.parts st.probes ctx2 0 with
                      | .stop r sp _ cp => (dec .defer r cc cp none, { st with probes := sp })
                      | .clear sp _ cp =>
                        let st1 := { st with probes := sp }
                        match recordDrop cfg st1 cd with
                        | none => (dec .defer .budgetExhausted cc cp none, st1)
                        | some st2 => (dec .drop .allCandidatesNegative cc cp (some cd), st2)

/-- `traceFragmentGuardRevalidationRequest`. -/
structure RevalReq where
  delta : List GPart
  epoch : Nat
  deltaComplete : Bool
  owner : Bool
  selected : Bool
  fence : Bool

/-- `traceFragmentGuardRevalidation`. -/
structure Revalidation where
  publish : Bool
  reason : Reason
  epoch : Nat
  rechecked : Nat
  probes : Nat

/-- `traceFragmentConfirmedDropsValidationReason`. -/
def dropsValidation : List ConfirmedDrop → Option Reason
  | [] => none
  | d :: ds =>
    if d.id == "" then some .traceIncomplete
    else if !d.known || decide (d.min > d.max) then some .traceBoundsInvalid
    else dropsValidation ds

/-- the per-confirmed-drop loop of `RevalidateDrops`: `(reason, rechecked, probes, stProbes)`;
    reason `none` means every drop was cleared. -/
def revalLoop (cfg : GConfig) (delta : List GPart) :
    List ConfirmedDrop → Nat → Ctx → Nat → Nat → Reason × Nat × Nat × Nat
  | [], sp, _, rechecked, probes => (.none, rechecked, probes, sp)
  | d :: ds, sp, ctx, rechecked, probes =>
    let (c, ctx) := ctx.poll
    if c then (.canceled, rechecked, probes, sp)
    else
      let rechecked := rechecked + 1
      let gmin := satSub d.min cfg.grace
      let gmax := satAdd d.max cfg.grace
      match probeLoop cfg d.id gmin gmax .snapshotDeltaPositive delta sp ctx probes with
      | .stop r sp _ cp => (r, rechecked, cp, sp)
      | .clear sp ctx cp => revalLoop cfg delta ds sp ctx rechecked cp

/-- `defaultTraceFragmentGuard.RevalidateDrops`. -/
def revalidate (cfg : GConfig) (cat : GCatalog) (st : GState) (req : RevalReq)
    (cancelAt : Option Nat) : Revalidation × GState :=
  let res (pub : Bool) (r : Reason) (rc p : Nat) : Revalidation :=
    { publish := pub, reason := r, epoch := req.epoch, rechecked := rc, probes := p }
  if st.closed then (res false .catalogUnpinned 0 0, st)
  else match baseValidation cfg cat st.pinned with
    | some r => (res false r 0 0, st)
    | none =>
      if !cat.complete then (res false .catalogIncomplete 0 0, st)
      else if !req.fence then (res false .publicationFenceMissing 0 0, st)
      else if !req.owner then (res false .ownershipChanged 0 0, st)
      else if !req.selected then (res false .selectedInputsChanged 0 0, st)
      else if req.epoch < cat.baseEpoch then (res false .snapshotRegressed 0 0, st)
      else
        let (c1, ctx1) := (Ctx.mk 0 cancelAt).poll
        if c1 then (res false .canceled 0 0, st)
        else if req.epoch = cat.baseEpoch then (res true .snapshotUnchanged 0 0, st)
        else if !req.deltaComplete then (res false .catalogIncomplete 0 0, st)
        else match dropsValidation st.drops with
          | some r => (res false r 0 0, st)
          | none => match partsValidation req.delta with
            | some r => (res false r 0 0, st)
            | none =>
              match revalLoop cfg req.delta st.drops st.probes ctx1 0 0 with
              | (.none, rc, p, sp) => (res true .snapshotDeltaClear rc p, { st with probes := sp })
              | (r, rc, p, sp) => (res false r rc p, { st with probes := sp })

/-- `defaultTraceFragmentGuard.Close`. -/
def closeGuard (st : GState) : GState :=
  if st.closed then st
  else { st with closed := true, drops := [], pinned := false,
                 releases := st.releases + (if st.pinned then 1 else 0) }

/-! ## 3. drop set (`drop_set.go`) -/

/-- `droppedTraceIDs`: ascending ids; `built` = the lookup index exists (`len(slots) > 0`). -/
structure DropSet where
  ids : List (List Byte) := []
  built : Bool := false

inductive AddResult
  | ok (s : DropSet)
  | panic (msg : String)

/-- `droppedTraceIDs.add`. -/
def DropSet.add (s : DropSet) (id : List Byte) : AddResult :=
  if s.built then .panic "cannot add a dropped trace ID after building the lookup index"
  else match s.ids.getLast? with
    | some last =>
      if id = last then .ok s
      else if lexLt id last then .panic "dropped trace IDs must be added in ascending order"
      else .ok { s with ids := s.ids ++ [id] }
    | none => .ok { s with ids := s.ids ++ [id] }

def idFormatV1 : Nat := 1

/-- `droppedTraceIDs.keepEncoded` (the open-addressing index is a membership test). -/
def DropSet.keepEncoded (s : DropSet) (data : List Byte) : Bool × DropSet :=
  match data with
  | [] => (true, s)
  | fmt :: id =>
    if fmt ≠ idFormatV1 || s.ids.isEmpty then (true, s)
    else (!s.ids.contains id, { s with built := true })

def dropSetEntryHeaderBytes : Nat := 20
def dropSetEntrySlotBytes : Nat := 32
def allocClassGranularity : Nat := 16
def allocClassGranularityAbove : Nat := 32
def allocClassLargeThreshold : Nat := 256

/-- `allocClassBytes`. -/
def allocClassBytes (n : Nat) : Nat :=
  let stride := if n > allocClassLargeThreshold then allocClassGranularityAbove else allocClassGranularity
  (n + stride - 1) / stride * stride

/-- `dropSetBytesPerEntry`. -/
def dropSetBytesPerEntry (idLen : Nat) : Nat :=
  dropSetEntryHeaderBytes + allocClassBytes idLen + dropSetEntrySlotBytes

/-- `maxIDsForBudget`. -/
def maxIDsForBudget (budget idLen : Nat) : Nat :=
  if budget = 0 then 0 else Nat.max 1 (budget / dropSetBytesPerEntry idLen)

/-- `dropTracker`. -/
structure Tracker where
  exact : DropSet := {}
  budget : Nat
  maxIDs : Nat := 0
  sampledLen : Nat := 0
  full : Bool := false

/-- `dropTracker.canAccept`. -/
def Tracker.canAccept (t : Tracker) : Bool × Tracker :=
  if t.full then (false, t)
  else if t.budget = 0 then (true, t)
  else if t.maxIDs > 0 ∧ t.exact.ids.length ≥ t.maxIDs then (false, { t with full := true })
  else (true, t)

/-- `dropTracker.record`; `none` = the underlying `add` panicked. -/
def Tracker.record (t : Tracker) (id : List Byte) : Option Tracker :=
  match t.exact.add id with
  | .panic _ => none
  | .ok s =>
    let t := { t with exact := s }
    if t.budget = 0 || decide (id.length ≤ t.sampledLen) then some t
    else some { t with sampledLen := id.length, maxIDs := maxIDsForBudget t.budget id.length }

/-! ## 4. sampler chain (`sdk.EvaluateChainInto`, `mergeChain.Execute`) -/

/-- what one `Sampler.Decide` call did. A mask of the wrong length is a length mismatch. -/
inductive LinkOutcome
  | mask (keep : List Bool)
  | err
  | panic
  | block          -- never returns within the host's timeout
  deriving DecidableEq, Repr

/-- `evaluateChainLink`: a valid keep mask, or a bypass reason. -/
def evalLink (n : Nat) : LinkOutcome → Except String (List Bool)
  | .mask k => if k.length = n then .ok k else .error "length_mismatch"
  | .err => .error "decide_error"
  | .panic => .error "panic"
  | .block => .error "panic"

def andMask : List Bool → List Bool → List Bool
  | a :: as, b :: bs => (a && b) :: andMask as bs
  | _, _ => []

/-- multi-link path of `EvaluateChainInto`: (mask, bypass log). -/
def chainLoop (n : Nat) : List (Option LinkOutcome) → Nat → List Bool → List (Nat × String) →
    List Bool × List (Nat × String)
  | [], _, m, log => (m, log)
  | none :: ls, i, m, log => chainLoop n ls (i + 1) m log
  | some o :: ls, i, m, log =>
    match evalLink n o with
    | .ok k => chainLoop n ls (i + 1) (andMask m k) log
    | .error r => chainLoop n ls (i + 1) m (log ++ [(i, r)])

/-- `sdk.EvaluateChainInto` over `n` traces; `none` is a nil sampler. -/
def evaluateChain (n : Nat) (links : List (Option LinkOutcome)) : List Bool × List (Nat × String) :=
  match links with
  | [l] =>
    match l with
    | some o =>
      match evalLink n o with
      | .ok k => (k, [])
      | .error r => (List.replicate n true, [(0, r)])
    | none => (List.replicate n true, [])
  | _ => chainLoop n links 0 (List.replicate n true) []

/-- circuit-breaker state of `mergeChain`. -/
structure ChainState where
  consecutiveTOs : Nat := 0
  circuitOpen : Bool := false

/-- one `mergeChain.Execute` call: (mask, error text, state). Nil samplers were dropped by
    `newNamedMergeChain`. A blocking link makes the whole call time out. -/
def executeChain (n : Nat) (circuitBreakN : Nat) (links : List LinkOutcome) (st : ChainState) :
    List Bool × String × ChainState :=
  if links.isEmpty then (List.replicate n true, "ok", st)
  else if st.circuitOpen then (List.replicate n true, "ok", st)
  else if links.contains .block then
    let tos := st.consecutiveTOs + 1
    if circuitBreakN > 0 ∧ tos ≥ circuitBreakN then
      (List.replicate n true, "circuit_open", { consecutiveTOs := tos, circuitOpen := true })
    else (List.replicate n true, "timeout", { st with consecutiveTOs := tos })
  else ((evaluateChain n (links.map some)).1, "ok", { st with consecutiveTOs := 0 })

/-! ## 5. table level -/

structure Span where
  tid : String
  sid : String
  ts : Int
  deriving DecidableEq, Repr

/-- one trace part: trace-id keyed span multiset + metadata. `mem` = memory part. The trace-id
    filter is modelled as exact membership (Bloom false positives make the driver abstain). -/
structure Part where
  id : Nat
  mem : Bool
  min : Int
  max : Int
  gen : Nat
  spans : List Span
  deriving DecidableEq, Repr

/-- one secondary-index row: key, trace id (the `data` payload), series. -/
structure SEntry where
  key : Int
  tid : String
  series : Nat
  deriving DecidableEq, Repr

structure Table where
  parts : List Part := []                 -- current snapshot, introduction order
  sidx : List (Nat × List SEntry) := []   -- secondary-index parts by part id
  epoch : Nat := 0                        -- epoch of the current snapshot
  nextEpoch : Nat := 1                    -- the introducer's epoch counter
  curPartID : Nat := 0
  finalizeGen : Nat := 0
  segMin : Int
  segMax : Int
  inclStart : Bool := true     -- `segmentTimeRange.IncludeStart` / `IncludeEnd`; production segments are [start, end)
  inclEnd : Bool := true
  grace : Int

def Part.count (p : Part) : Nat := p.spans.length

/-- `traceIDFilter.MightContain` under the exact-filter abstraction. -/
def Part.mightContain (p : Part) (tid : String) : Bool := p.spans.any (·.tid == tid)

def spansOfTid (spans : List Span) (tid : String) : List Span := spans.filter (·.tid == tid)

/-- every span of `tid` physically present in the listed parts. -/
def partsSpansOf (parts : List Part) (tid : String) : List Span :=
  parts.flatMap fun p => spansOfTid p.spans tid

/-- the per-part trace-id filter (`traceIDFilter.MightContain`) as an oracle. The driver runs the
    model with `exactFilter`; the theorems only assume "no false negatives". -/
abbrev FilterOracle := Part → String → Bool

def exactFilter : FilterOracle := Part.mightContain

/-- `snapshot.getParts` + block scan for one trace id: time-range pruning on part bounds and
    trace-id-filter pruning, then every block of the trace. -/
def queryById (mc : FilterOracle) (parts : List Part) (qmin qmax : Int) (tid : String) : List Span :=
  (parts.filter fun p => !(decide (qmax < p.min) || decide (qmin > p.max)) && mc p tid).flatMap
    fun p => spansOfTid p.spans tid

def minOfInts : List Int → Int
  | [] => 0
  | x :: xs => xs.foldl (fun a b => if b < a then b else a) x

def maxOfInts : List Int → Int
  | [] => 0
  | x :: xs => xs.foldl (fun a b => if b > a then b else a) x

def entryOf (s : Span) : SEntry := { key := s.ts, tid := s.tid, series := 1 + s.sid.length % 2 }

/-- `mustAddMemPart` + `introducePart`: a new memory part and its secondary-index part. -/
def Table.write (t : Table) (spans : List Span) : Table :=
  let id := t.curPartID + 1
  let p : Part := { id := id, mem := true, min := minOfInts (spans.map (·.ts)), max := maxOfInts (spans.map (·.ts)),
                    gen := 0, spans := spans }
  { t with parts := t.parts ++ [p], sidx := t.sidx ++ [(id, spans.map entryOf)], curPartID := id,
           epoch := t.nextEpoch, nextEpoch := t.nextEpoch + 1 }

/-- `flush` + `introduceFlushed`: every non-empty memory part becomes a file part (same id). -/
def Table.flush (t : Table) : Table :=
  if t.parts.any (fun p => p.mem && decide (p.count ≥ 1)) then
    { t with parts := t.parts.map (fun p => if p.mem && decide (p.count ≥ 1) then { p with mem := false } else p),
             epoch := t.nextEpoch, nextEpoch := t.nextEpoch + 1 }
  else t

def insertSorted (s : String) : List String → List String
  | [] => [s]
  | x :: xs => if s < x then s :: x :: xs else if s = x then x :: xs else x :: insertSorted s xs

/-- distinct trace ids of the spans, ascending (the merge's block order). -/
def sortedTids (spans : List Span) : List String :=
  spans.foldl (fun acc s => insertSorted s.tid acc) []

/-- wrapper identity of a part: flushing creates a new `partWrapper` with the same id. -/
def Part.ident (p : Part) : Nat × Bool := (p.id, p.mem)

def gpartOf (mc : FilterOracle) (p : Part) : GPart :=
  { min := p.min, max := p.max, known := decide (p.count > 0) && decide (p.min ≤ p.max),
    filter := some fun tid => if mc p tid then .ok .maybe else .ok .absent }

def guardMaxBloomProbes : Int := 1048576
def guardMaxConfirmedDrops : Int := 262144

/-- non-empty parts of the pinned snapshot that are not selected (wrapper identity). -/
def outsideParts (parts sel : List Part) : List Part :=
  parts.filter fun p => decide (p.count > 0) && !(sel.any fun q => q.ident == p.ident)

/-- `timestamp.TimeRange` as the guard sees it (`Start.IsZero()` / `End.IsZero()` as flags). -/
structure SegRange where
  start : Int
  end_ : Int
  inclStart : Bool
  inclEnd : Bool
  startZero : Bool := false
  endZero : Bool := false

/-- `traceFragmentCoverage`: first and last instant the segment can hold, and whether that is known. -/
def coverageOf (r : SegRange) : Int × Int × Bool :=
  if r.startZero || r.endZero || !decide (r.start < r.end_) then (0, 0, false)
  else
    let mn := if !r.inclStart then satAdd r.start 1 else r.start
    let mx := if !r.inclEnd then satSub r.end_ 1 else r.end_
    (mn, mx, decide (mn ≤ mx))

/-- `traceFragmentCoverageHasInterior`. -/
def coverageHasInterior (mn mx grace : Int) : Bool :=
  if grace < 0 ∨ mn > mx then false else decide (satAdd mn grace ≤ satSub mx grace)

def Table.segRange (t : Table) : SegRange :=
  { start := t.segMin, end_ := t.segMax, inclStart := t.inclStart, inclEnd := t.inclEnd }

/-- what `newTraceFragmentGuardSession` builds: config + catalogue, or `none` (session nil). -/
def guardSession (mc : FilterOracle) (t : Table) (sel : List Part) : Option (GConfig × GCatalog) :=
  let selectedComplete := !sel.isEmpty && sel.all fun p => (gpartOf mc p).known
  let outside := (outsideParts t.parts sel).map (gpartOf mc)
  let cov := coverageOf t.segRange
  if !selectedComplete || !cov.2.2 || !coverageHasInterior cov.1 cov.2.1 t.grace || (partsValidation outside).isSome then none
  else some (
    { grace := t.grace, maxProbes := guardMaxBloomProbes, maxDrops := guardMaxConfirmedDrops },
    { pinned := true, parts := outside, baseEpoch := t.epoch, covMin := cov.1, covMax := cov.2.1,
      gap := t.grace, complete := true, covKnown := true, temporal := 1 })

/-- sampler decision table entry for one trace id: K keep, D drop, E error, P panic, L length mismatch. -/
abbrev SamplerTable := String → Char

/-- worst outcome in a batch (P > E > L > K): what the test sampler's `Decide` does. -/
def batchWorst (tab : SamplerTable) (ids : List String) : Char :=
  if ids.any (fun i => tab i == 'P') then 'P'
  else if ids.any (fun i => tab i == 'E') then 'E'
  else if ids.any (fun i => tab i == 'L') then 'L'
  else 'K'

/-- the link outcome of one `Decide` call over `ids`. -/
def batchOutcome (tab : SamplerTable) (ids : List String) : LinkOutcome :=
  let w := batchWorst tab ids
  if w = 'P' then .panic
  else if w = 'E' then .err
  else if w = 'L' then .mask (List.replicate (ids.length + 1) false)
  else .mask (ids.map fun i => tab i != 'D')

/-- a part introduced while the merge runs. -/
structure Late where
  atDecide : Bool        -- true: inside the first Decide call; false: at the publication fence
  flush : Bool           -- flush right after the write
  spans : List Span

structure MergeReq where
  mode : Char            -- 'N' no sampler, 'H' hot merge, 'Z' finalize round
  now : Int
  eachBatch : Bool       -- true: one trace per Decide call; false: all eligible traces in one call
  dropSetBudget : Nat    -- testDropSetBudgetOverride (0 = default)
  tab : SamplerTable
  late : Option Late
  finalizeGrace : Int

def defaultDropSetBudget : Nat := 16777216

/-- mutable state of one filtered merge attempt. -/
structure AttemptState where
  table : Table
  gst : GState
  tracker : Tracker
  log : List String
  lateDone : Bool

/-- the UTF-8 bytes of a Go string. -/
def stringBytes (s : String) : List Byte := s.toList.flatMap fun c => (String.utf8EncodeChar c).map (·.toNat)

def gtraceOf (sel : List Part) (tid : String) : GTrace :=
  let ss := spansOfTid (sel.flatMap (·.spans)) tid
  { id := tid, complete := true,
    blocks := [{ min := minOfInts (ss.map (·.ts)), max := maxOfInts (ss.map (·.ts)), known := true }] }

/-- `resolveStagedDrops` for the proposed drops of one batch (ascending ids): ceiling first, then the guard. -/
def resolveDrops (cfg : GConfig) (cat : GCatalog) (sel : List Part) :
    List String → GState → Tracker → List String → List String × GState × Tracker
  | [], gst, tr, dropped => (dropped, gst, tr)
  | tid :: rest, gst, tr, dropped =>
    let (ok, tr) := tr.canAccept
    if !ok then resolveDrops cfg cat sel rest gst tr dropped
    else
      let (d, gst) := resolve cfg cat gst (gtraceOf sel tid) .drop none
      if d.action == .drop && d.confirmed.isSome then
        match tr.record (stringBytes tid) with
        | some tr => resolveDrops cfg cat sel rest gst tr (dropped ++ [tid])
        | none => resolveDrops cfg cat sel rest gst tr dropped
      else resolveDrops cfg cat sel rest gst tr dropped

def applyLate (t : Table) (l : Late) (selMem : Bool) : Table :=
  let t := t.write l.spans
  if l.flush && !selMem then t.flush else t

/-- trace ids for which a keep mask says DROP. -/
def proposedOf (ids : List String) (mask : List Bool) : List String :=
  (ids.zip mask).filterMap fun (i, k) => if k then none else some i

/-- the part written inside the first Decide call, if the case asks for one. -/
def lateAtDecide (req : MergeReq) (selMem : Bool) (st : AttemptState) : AttemptState :=
  match req.late with
  | some l =>
    if l.atDecide && !st.lateDone then { st with table := applyLate st.table l selMem, lateDone := true } else st
  | none => st

/-- one `flushStaged`: a Decide call over `ids` (with its fail-open), then ceiling and guard for
    every proposed drop. -/
def batchStep (cfg : GConfig) (cat : GCatalog) (sel : List Part) (req : MergeReq) (selMem : Bool)
    (ids : List String) (st : AttemptState) (dropped : List String) : List String × AttemptState :=
  let st1 := lateAtDecide req selMem
    { st with log := st.log ++ ["+".intercalate ids ++ "=" ++ (batchWorst req.tab ids).toString] }
  let proposed := proposedOf ids (evaluateChain ids.length [some (batchOutcome req.tab ids)]).1
  let r := resolveDrops cfg cat sel proposed st1.gst st1.tracker dropped
  (r.1, { st1 with gst := r.2.1, tracker := r.2.2 })

/-- `flushStaged` over the batches of one merge. A batch without eligible traces makes no Decide call. -/
def runBatches (cfg : GConfig) (cat : GCatalog) (sel : List Part) (req : MergeReq) (selMem : Bool) :
    List (List String) → AttemptState → List String → List String × AttemptState
  | [], st, dropped => (dropped, st)
  | ids :: rest, st, dropped =>
    if ids.isEmpty then runBatches cfg cat sel req selMem rest st dropped
    else
      runBatches cfg cat sel req selMem rest (batchStep cfg cat sel req selMem ids st dropped).2
        (batchStep cfg cat sel req selMem ids st dropped).1

def minGen : List Part → Nat
  | [] => 0
  | p :: ps => ps.foldl (fun a q => if q.gen < a then q.gen else a) p.gen

/-- `mergeParts` output for a given drop set: spans of the selected parts whose trace id is not
    dropped; bounds are the union of the input parts' bounds, not recomputed. -/
def mergedPart (sel : List Part) (dropped : List String) (id gen : Nat) : Part :=
  { id := id, mem := false, min := minOfInts (sel.map (·.min)), max := maxOfInts (sel.map (·.max)), gen := gen,
    spans := (sel.flatMap (·.spans)).filter fun s => !dropped.contains s.tid }

/-- `sidx.Merge(keep := id ∉ dropSet)`: rows of the selected parts' index parts, minus dropped ids. -/
def mergedSidx (sidx : List (Nat × List SEntry)) (selIds : List Nat) (dropped : List String) : List SEntry :=
  ((sidx.filter fun e => selIds.contains e.1).flatMap (·.2)).filter fun e => !dropped.contains e.tid

/-- `introduceMerged` (publication part): replace the selected ids by the new part, in the
    trace snapshot and in the secondary index. -/
def Table.publish (t : Table) (selIds : List Nat) (out : Part) (outSidx : Option (List SEntry)) : Table :=
  { t with parts := (t.parts.filter fun p => !selIds.contains p.id) ++ [out],
           sidx := (t.sidx.filter fun e => !selIds.contains e.1) ++ (match outSidx with | some es => [(out.id, es)] | none => []),
           epoch := t.nextEpoch, nextEpoch := t.nextEpoch + 1 }

/-- the lossless merge attempt: no filter, nothing dropped, published unconditionally. -/
def losslessAttempt (t : Table) (sel : List Part) (gen : Nat) (late : Option Late) (lateDone : Bool) (selMem : Bool) :
    Table :=
  let id := t.curPartID + 1
  let t := { t with curPartID := id }
  let selIds := sel.map (·.id)
  let out := mergedPart sel [] id gen
  let osx := if (t.sidx.any fun e => selIds.contains e.1) then some (mergedSidx t.sidx selIds []) else none
  let t := match late with
    | some l => if !l.atDecide && !lateDone then applyLate t l selMem else t
    | none => t
  t.publish selIds out osx

structure MergeResult where
  table : Table
  text : String

def renderResult (res : String) (log : List String) (sent rej : Nat) : String :=
  "M(" ++ res ++ " dec=" ++ (if log.isEmpty then "-" else ";".intercalate log) ++
    " sent=" ++ toString sent ++ " rej=" ++ toString rej ++ ")"

/-- group ids of the selected parts that are eligible for evaluation. -/
def eligibleTids (sel : List Part) (filterImmature : Bool) (frontier : Int) : List String :=
  (sortedTids (sel.flatMap (·.spans))).filter fun tid =>
    !filterImmature || decide (maxOfInts ((spansOfTid (sel.flatMap (·.spans)) tid).map (·.ts)) ≤ frontier)

/-- are the selected parts memory parts (the flusher's own merge)? -/
def selMemOf (sel : List Part) : Bool :=
  match sel with
  | p :: _ => p.mem
  | [] => false

/-- how the staging budget groups the eligible traces into Decide calls (an input: all in one
    call, or one trace per call). -/
def batchesOf (sel : List Part) (req : MergeReq) (filterImmature : Bool) (frontier : Int) : List (List String) :=
  if req.eachBatch then (eligibleTids sel filterImmature frontier).map (fun x => [x])
  else [eligibleTids sel filterImmature frontier]

/-- the filtered attempt (`mergeParts` with the filter): which trace ids end up in the drop set,
    and the attempt state afterwards (table possibly extended by a part written inside Decide). -/
def firstAttempt (t : Table) (sel : List Part) (req : MergeReq) (cfg : GConfig) (cat : GCatalog)
    (filterImmature : Bool) (frontier : Int) : List String × AttemptState :=
  runBatches cfg cat sel req (selMemOf sel) (batchesOf sel req filterImmature frontier)
    { table := { t with curPartID := t.curPartID + 1 }, gst := { pinned := true },
      tracker := { budget := if req.dropSetBudget = 0 then defaultDropSetBudget else req.dropSetBudget },
      log := [], lateDone := false } []

/-- `traceFragmentGuardSession.revalidate`: the request built from the current snapshot `cur`
    against the pinned base snapshot `base`. -/
def preRevalidation (mc : FilterOracle) (base cur : Table) (sel : List Part) (cfg : GConfig) (cat : GCatalog)
    (gst : GState) : Revalidation :=
  (revalidate cfg cat gst
    { delta := (outsideParts cur.parts base.parts).map (gpartOf mc), epoch := cur.epoch, deltaComplete := true,
      owner := true, selected := sel.all fun p => cur.parts.any fun q => q.ident == p.ident, fence := true } none).1

/-- a part written at the publication fence (between the merger's send and `introduceMerged`). -/
def fenceLate (t : Table) (late : Option Late) (selMem : Bool) : Table :=
  match late with
  | some l => if !l.atDecide then applyLate t l selMem else t
  | none => t

/-- `mergePartsThenSendIntroductionObserved` with a filter (`cfg`,`cat` = the guard session):
    filtered attempt, pre-publication revalidation, introducer epoch check, lossless retry. -/
def filteredMerge (mc : FilterOracle) (t : Table) (sel : List Part) (req : MergeReq) (cfg : GConfig) (cat : GCatalog)
    (filterImmature : Bool) (frontier : Int) (gen : Nat) : MergeResult :=
  let selMem := selMemOf sel
  let selIds := sel.map (·.id)
  let id := t.curPartID + 1
  let att := firstAttempt t sel req cfg cat filterImmature frontier
  let dropped := att.1
  let st := att.2
  let t2 := st.table
  let out := mergedPart sel dropped id gen
  let osx := if (t2.sidx.any fun e => selIds.contains e.1) then some (mergedSidx t2.sidx selIds dropped) else none
  if dropped.isEmpty then
    -- no revalidation, the introduction carries no guard: published whatever happened meanwhile
    { table := (fenceLate t2 req.late selMem).publish selIds out osx, text := renderResult "ok" st.log 1 0 }
  else
    let rv := preRevalidation mc t t2 sel cfg cat st.gst
    if !rv.publish then
      -- rejected before the introducer saw it: lossless retry
      { table := losslessAttempt t2 sel gen req.late st.lateDone selMem, text := renderResult "ok" st.log 1 0 }
    else
      let t3 := fenceLate t2 req.late selMem
      if t3.epoch ≠ rv.epoch then
        -- `introduceMerged`: snapshot changed after revalidation -> rejected, epoch counter advances
        { table := losslessAttempt { t3 with nextEpoch := t3.nextEpoch + 1 } sel gen none true selMem,
          text := renderResult "ok" st.log 2 1 }
      else
        { table := t3.publish selIds out osx, text := renderResult "ok" st.log 1 0 }

/-- a merge with no filter at all (no sampler, immature selection, guard session unavailable). -/
def unfilteredMerge (t : Table) (sel : List Part) (req : MergeReq) (gen : Nat) : MergeResult :=
  let selMem := selMemOf sel
  -- a late part "inside Decide" never happens (no Decide call); one at the fence does
  let late := match req.late with
    | some l => if l.atDecide then none else some l
    | none => none
  { table := losslessAttempt t sel gen late false selMem, text := renderResult "ok" [] 1 0 }

/-- `buildHotMergeFilterDecisionAt` + merge for the hot path. -/
def hotMerge (mc : FilterOracle) (t : Table) (sel : List Part) (req : MergeReq) : MergeResult :=
  let gen := minGen sel
  let frontier := satSub req.now t.grace
  if req.mode == 'N' then unfilteredMerge t sel req gen
  else if !(sel.any fun p => decide (p.min ≤ frontier)) then unfilteredMerge t sel req gen
  else match guardSession mc t sel with
    | none => unfilteredMerge t sel req gen
    | some (cfg, cat) => filteredMerge mc t sel req cfg cat true frontier gen

/-- `runFinalizeRoundNamed`: engine-side selection of cooled, not yet finalized file parts. -/
def finalizeSelection (t : Table) (req : MergeReq) : List Part :=
  t.parts.filter fun p =>
    !p.mem && decide (p.count ≥ 1) && decide (p.gen < t.finalizeGen + 1) &&
      decide (p.max ≤ satSub req.now (if req.finalizeGrace > t.grace then req.finalizeGrace else t.grace))

/-- `runFinalizeRoundNamed`: one finalize round (filter without the maturity test, output
    stamped with the next finalize generation). -/
def finalizeRound (mc : FilterOracle) (t : Table) (req : MergeReq) : MergeResult :=
  if req.finalizeGrace < 0 ∨ t.grace ≤ 0 ∨ (finalizeSelection t req).isEmpty then
    { table := t, text := renderResult "noop" [] 0 0 }
  else match guardSession mc t (finalizeSelection t req) with
    | none => { table := t, text := renderResult "noop" [] 0 0 }
    | some (cfg, cat) =>
      { table := { (filteredMerge mc t (finalizeSelection t req) req cfg cat false 0 (t.finalizeGen + 1)).table with
                   finalizeGen := t.finalizeGen + 1 },
        text := (filteredMerge mc t (finalizeSelection t req) req cfg cat false 0 (t.finalizeGen + 1)).text }

/-- resolve a selection token list against the snapshot in part-id order; a mixed selection is
    reduced to its file parts. -/
def insertById (p : Part) : List Part → List Part
  | [] => [p]
  | q :: qs => if p.id ≤ q.id then p :: q :: qs else q :: insertById p qs

def sortPartsById (ps : List Part) : List Part := ps.foldr insertById []

inductive Sel | all | files | mems | idx (is : List Nat)

def selectParts (t : Table) (s : Sel) : List Part :=
  let all := sortPartsById t.parts
  let chosen := match s with
    | .all => all
    | .files => all.filter (!·.mem)
    | .mems => all.filter (·.mem)
    | .idx is => is.filterMap fun i => all[i]?
  if chosen.any (!·.mem) then chosen.filter (!·.mem) else chosen

def mergeOp (mc : FilterOracle) (t : Table) (s : Sel) (req : MergeReq) : MergeResult :=
  if req.mode == 'Z' then finalizeRound mc t req
  else
    let sel := selectParts t s
    if sel.isEmpty then { table := t, text := "M(none)" }
    else
      -- the engine's snapshot order matters for the catalogue; keep `sel` in snapshot order
      let selSnap := t.parts.filter fun p => sel.any fun q => q.ident == p.ident
      hotMerge mc t selSnap req

/-! ## 5b. reading a part by trace id (`part_iter.go`) -/

/-- `sort.Search(n, f)` by its contract: the smallest index in `[0, n)` at which `f` holds, `n` if
    none (Go's standard library binary search, trusted). -/
def sortSearch {α : Type} (l : List α) (f : α → Bool) : Nat := l.findIdx f

/-- `searchPBM` over the first trace ids of the primary blocks: the index at which reading
    starts, or a panic (`none`). Trace ids are numbers here (the driver renders them zero padded). -/
def searchPBM (ids : List Nat) (tid : Nat) : Option Nat :=
  match ids with
  | [] => none
  | first :: _ =>
    if tid < first then none
    else if tid = first then some 0
    else
      let n := sortSearch ids (fun x => decide (tid ≤ x))
      if n = 0 then none else some (n - 1)

/-- a physical block: trace id and span count. -/
abbrev PBlock := Nat × Nat

/-- `partIter` state. `pbms`: remaining primary blocks (first id is the first block's id). -/
structure PIter where
  tids : List Nat
  tidIdx : Nat
  cur : Nat
  pbms : List (List PBlock)
  bms : List PBlock
  eof : Bool := false
  panicked : Bool := false

def PIter.nextTid (s : PIter) : Bool × PIter :=
  match s.tids[s.tidIdx]? with
  | none => (false, { s with eof := true })
  | some t => (true, { s with cur := t, tidIdx := s.tidIdx + 1 })

/-- `searchTargetTraceID` / `searchTargetTID`. -/
def PIter.searchTarget (s : PIter) (t : Nat) : Bool × PIter :=
  if s.cur ≥ t then (true, s)
  else
    let (ok, s) := s.nextTid
    if !ok then (false, s)
    else if s.cur ≥ t then (true, s)
    else
      let rest := s.tids.drop s.tidIdx
      let idx := s.tidIdx + sortSearch rest (fun x => decide (t ≤ x))
      match s.tids[idx]? with
      | none => (false, { s with tidIdx := s.tids.length, eof := true })
      | some c => (true, { s with cur := c, tidIdx := idx + 1 })

/-- `loadNextBlockMetadata`. -/
def PIter.loadNext (s : PIter) : Bool × PIter :=
  match s.pbms with
  | [] => (false, { s with eof := true })
  | pb0 :: _ =>
    let first := fun (pb : List PBlock) => match pb with | b :: _ => b.1 | [] => 0
    let (ok, s) := s.searchTarget (first pb0)
    if !ok then (false, s)
    else match searchPBM (s.pbms.map first) s.cur with
      | none => (false, { s with panicked := true })
      | some k =>
        match s.pbms.drop k with
        | [] => (false, { s with panicked := true })
        | pbm :: rest =>
          if s.cur < first pbm then (false, { s with panicked := true })
          else (true, { s with pbms := rest, bms := pbm.filter fun b => s.tids.contains b.1 })

/-- `findBlock`: `(found, state)`; on success `cur` is the found block's trace id and the block is
    returned. -/
def PIter.findBlock (fuel : Nat) (s : PIter) (bhs : List PBlock) : Option PBlock × PIter :=
  match fuel with
  | 0 => (none, { s with bms := [] })
  | fuel + 1 =>
    match bhs with
    | [] => (none, { s with bms := [] })
    | b0 :: _ =>
      let n := if b0.1 < s.cur then sortSearch bhs (fun b => decide (s.cur ≤ b.1)) else 0
      match bhs.drop n with
      | [] => (none, { s with bms := [] })
      | bm :: rest =>
        if bm.1 ≠ s.cur then
          let (ok, s') := s.searchTarget bm.1
          if !ok then (none, s') else PIter.findBlock fuel s' (bm :: rest)
        else (some bm, { s with bms := rest })

/-- `nextBlock` until exhaustion: every block the iterator yields, in order. -/
def PIter.run (fuel : Nat) (s : PIter) (acc : List PBlock) : List PBlock × PIter :=
  match fuel with
  | 0 => (acc, s)
  | fuel + 1 =>
    if s.eof || s.panicked then (acc, s)
    else if s.bms.isEmpty then
      let (ok, s) := s.loadNext
      if !ok then (acc, s) else
      match PIter.findBlock (s.bms.length + s.tids.length + 2) s s.bms with
      | (some b, s) => PIter.run fuel s (acc ++ [b])
      | (none, s) => PIter.run fuel s acc
    else
      match PIter.findBlock (s.bms.length + s.tids.length + 2) s s.bms with
      | (some b, s) => PIter.run fuel s (acc ++ [b])
      | (none, s) => PIter.run fuel s acc

/-- `partIter.init` + `nextBlock` loop over a part given as its primary blocks, for the wanted ids. -/
def readPart (pbms : List (List PBlock)) (tids : List Nat) : List PBlock × Bool :=
  let s0 : PIter := { tids := tids, tidIdx := 0, cur := 0, pbms := pbms, bms := [] }
  let (_, s1) := s0.nextTid
  let fuel := 4 * ((pbms.map List.length).sum + pbms.length + tids.length) + 8
  let (out, s) := PIter.run fuel s1 []
  (out, s.panicked)

/-! ## 5c. staging: per-trace bounds of the blocks a merge stages (`traceEvaluationStager.stage`) -/

/-- timestamp metadata of one staged physical block. -/
structure SBlock where
  tid : Nat
  min : Int
  max : Int
  known : Bool

/-- `stagedTraceGroup` (the fields the maturity test and the sampler see). `count` = `end - start`. -/
structure SGroup where
  tid : Nat
  minTS : Int := 0
  maxTS : Int := 0
  count : Nat := 0
  valid : Bool := true

/-- the bounds update of `stage` for one more block of the group. -/
def SGroup.add (g : SGroup) (b : SBlock) : SGroup :=
  let g := { g with count := g.count + 1 }
  if !b.known || decide (b.min > b.max) then { g with valid := false }
  else if g.count = 1 then { g with minTS := b.min, maxTS := b.max }
  else { g with minTS := if b.min < g.minTS then b.min else g.minTS,
                maxTS := if b.max > g.maxTS then b.max else g.maxTS }

/-- stager state: groups (newest first), invalid-order and invalid-metadata flags. -/
structure StagerState where
  groups : List SGroup := []
  invalidOrder : Bool := false
  invalidMetadata : Bool := false

/-- `traceEvaluationStager.stage` (grouping and bounds; byte accounting is not modelled). -/
def StagerState.stage (s : StagerState) (b : SBlock) : StagerState :=
  match s.groups with
  | g :: gs =>
    if b.tid = g.tid then
      let g' := g.add b
      { s with groups := g' :: gs, invalidMetadata := s.invalidMetadata || !g'.valid }
    else
      let g' := ({ tid := b.tid } : SGroup).add b
      { groups := g' :: g :: gs, invalidOrder := s.invalidOrder || decide (b.tid ≤ g.tid),
        invalidMetadata := s.invalidMetadata || !g'.valid }
  | [] =>
    let g' := ({ tid := b.tid } : SGroup).add b
    { s with groups := [g'], invalidMetadata := s.invalidMetadata || !g'.valid }

/-- `stagedTraceGroupEligible` with `filterImmature`: the whole trace is older than the frontier. -/
def SGroup.eligible (g : SGroup) (frontier : Int) : Bool := decide (g.maxTS ≤ frontier)

/-! ## 6. observations used by the property statements -/

/-- every span physically stored for `tid` (what a complete query by trace id must return). -/
def Table.spansOf (t : Table) (tid : String) : List Span := partsSpansOf t.parts tid

/-- every secondary-index row carrying `tid`. -/
def Table.entriesOf (t : Table) (tid : String) : List SEntry :=
  (t.sidx.flatMap (·.2)).filter (·.tid == tid)

/-- distinct part ids. -/
def IdsDistinct (ps : List Part) : Prop := ps.Pairwise fun a b => a.id ≠ b.id

/-- structural invariant of a table (part ids are unique and below the id counter; the
    introducer's epoch counter is ahead of the published snapshot). -/
structure Table.WF (t : Table) : Prop where
  distinct : IdsDistinct t.parts
  bound : ∀ p ∈ t.parts, p.id ≤ t.curPartID
  epoch : t.epoch < t.nextEpoch

/-- part time bounds cover every span of the part. -/
def BoundsSound (ps : List Part) : Prop := ∀ p ∈ ps, ∀ s ∈ p.spans, p.min ≤ s.ts ∧ s.ts ≤ p.max

/-- the trace-id filter has no false negatives (property C08 for the Bloom filter). -/
def NoFalseNegatives (mc : FilterOracle) : Prop := ∀ (p : Part) (s : Span), s ∈ p.spans → mc p s.tid = true

/-- the deployment contract the guard relies on (docs/design/trace-fragment-sampling-guard.md):
    fragments of one trace are never farther apart than the merge grace, in event time. -/
def GapBounded (grace : Int) (spans : List Span) : Prop :=
  ∀ s ∈ spans, ∀ s' ∈ spans, s.tid = s'.tid → s'.ts ≤ s.ts + grace

/-- the instants a segment can hold, per its `IncludeStart` / `IncludeEnd` flags. -/
def SegRange.holds (r : SegRange) (ts : Int) : Prop :=
  (if r.inclStart then r.start ≤ ts else r.start < ts) ∧ (if r.inclEnd then ts ≤ r.end_ else ts < r.end_)

def Int64Spans (spans : List Span) : Prop := ∀ s ∈ spans, minI64 ≤ s.ts ∧ s.ts ≤ maxI64

end Banyan.C13
