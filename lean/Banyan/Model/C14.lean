/-
C14 — model of the segment dormant-reference protocol of
`banyand/internal/storage/segment.go` (incRef / acquire / DecRef / closeIfIdle / performDelete /
delete / snapshotInto / the "pin only if active" loop / controller close / RLock readers).

Layer Ref (b): an ATOMIC-STEP transition system.  One `PC` constructor = one atomic shared-memory
action of the Go source (atomic load, CAS, atomic add/store, mutex lock/unlock, a plain field access
made under the mutex).  The shared state is that of ONE segment; a thread is a "most general
client": when idle it may call any procedure, restricted only by the caller contract
"DecRef what you own" (`Proc.decRef` needs `holds > 0`).  `Proc.decRefStray` is the contract
violation that the *unrepaired* callers commit (DecRef after a pin that did not happen); it is only
enabled in the legacy system.

Core Lean only (the driver links against this file).
-/
namespace Banyan.C14

abbrev Tid := Nat

/-- result of the last `incRef` of a thread -/
inductive Res
  | none | ok | closedErr | initErr
  deriving DecidableEq, Repr, Inhabited

/-- shared state of one `segment` -/
structure Shared where
  /-- `segment.refCount` (int32 in Go; never wraps for < 2^31 threads) -/
  rc : Int
  /-- `segment.index != nil` (series index + shards open) -/
  isOpen : Bool
  /-- `segment.mustBeDeleted != 0` -/
  mbd : Bool
  /-- the segment directory exists -/
  dir : Bool
  /-- `segment.lastAccessed` -/
  la : Int
  /-- writer side of `segment.mu`: who holds `mu.Lock()` -/
  mu : Option Tid
  /-- reader side of `segment.mu`: number of `mu.RLock()` holders -/
  readers : Nat
  /-- ghost: `segmentController.close()` has processed this segment (database shutdown) -/
  down : Bool
  deriving DecidableEq, Repr, Inhabited

/-- procedures an idle thread may call -/
inductive Proc
  /-- `segment.incRef` (falls into `acquire`) -/
  | incRef
  /-- `segment.DecRef` by the owner of a reference -/
  | decRef
  /-- `segment.DecRef` by a caller that owns nothing (legacy callers only) -/
  | decRefStray
  /-- the "pin only if refCount>0" CAS loop of `selectSegments(reopen=false)` / `segments(false)` -/
  | peek
  /-- `s.lastAccessed.Store(now)` by a holder (`selectSegments`, `createSegment`) -/
  | touch (now : Int)
  /-- `segment.closeIfIdle(threshold)` -/
  | closeIfIdle (thr : Int)
  /-- `segment.delete` (→ `performDelete`) -/
  | delete
  /-- `segment.snapshotInto` -/
  | snapshot
  /-- an `RLock` reader: `collectOpenMetrics` / `resetIndex` / `SeriesIndexStats` / `peekOldest…` -/
  | read
  /-- the body of `segmentController.close()` for this segment -/
  | close
  deriving DecidableEq, Repr, Inhabited

/-- program counter = the next atomic action of the thread -/
inductive PC
  | idle
  -- incRef
  | irLoad                    -- current := atomic.LoadInt32(&s.refCount)
  | irCas (cur : Int)         -- atomic.CompareAndSwapInt32(&s.refCount, current, current+1)
  -- acquire
  | aqLock                    -- s.mu.Lock()
  | aqRc                      -- if atomic.LoadInt32(&s.refCount) > 0
  | aqAdd                     --   atomic.AddInt32(&s.refCount, 1)
  | aqMbd                     -- if atomic.LoadUint32(&s.mustBeDeleted) != 0  → ErrSegmentClosed
  | aqInit                    -- s.initialize(ctx)   (plain access to s.index under mu)
  | aqStore                   -- atomic.StoreInt32(&s.refCount, 1)
  | aqUnlock (r : Res)        -- deferred s.mu.Unlock()
  -- DecRef
  | drLoad (own : Bool)       -- current := atomic.LoadInt32(&s.refCount)
  | drCas (cur : Int) (own : Bool) -- CompareAndSwapInt32(&s.refCount, current, current-1)
  | drMbd                     -- current == 1 && atomic.LoadUint32(&s.mustBeDeleted) != 0
  -- performDelete
  | pdLock | pdRc | pdClose | pdRm | pdUnlock
  -- delete
  | dlStore                   -- atomic.StoreUint32(&s.mustBeDeleted, 1)
  | dlRc                      -- if atomic.LoadInt32(&s.refCount) == 0 → performDelete
  -- closeIfIdle
  | ciLock (thr : Int) | ciIdx (thr : Int) | ciRc (thr : Int) | ciMbd (thr : Int) | ciLa (thr : Int)
  | ciClose | ciUnlock (closed : Bool)
  -- snapshotInto
  | snLock | snMbd | snIdx | snAdd | snUnlockOpen | snWork | snLink | snUnlock (wrote : Bool)
  -- pin only if active
  | pkLoad | pkCas (cur : Int)
  -- segmentController.close, per segment
  | clLock | clClose | clMbd | clRm | clUnlock
  -- RLock readers
  | rdLock | rdChk | rdUse | rdUnlock (saw : Bool)
  deriving DecidableEq, Repr, Inhabited

/-- per-thread state; `holds`, `base` are ghost -/
structure Th where
  pc : PC
  /-- ghost: number of references on this segment owned by the thread -/
  holds : Nat
  /-- ghost: `holds` at the moment the running `incRef`/`peek` was called -/
  base : Nat
  /-- result of the last `incRef` -/
  res : Res
  /-- boolean result of the last closeIfIdle / snapshot / peek / read -/
  flag : Bool
  deriving DecidableEq, Repr, Inhabited

def Th.init : Th := { pc := .idle, holds := 0, base := 0, res := .none, flag := false }

/-- can `mu.Lock()` succeed now -/
def Shared.lockFree (sh : Shared) : Bool := sh.mu.isNone && sh.readers == 0

/-- One atomic step of thread `t`.  `p` is consulted only when the thread is idle (which procedure
it calls), `initOk` only at `aqInit` (does `initialize` succeed).  `none` = not enabled
(blocked on the mutex, or a call that violates the caller contract). -/
def tstep (t : Tid) (sh : Shared) (th : Th) (p : Proc) (initOk : Bool) : Option (Shared × Th) :=
  match th.pc with
  | .idle =>
    match p with
    | .incRef => some (sh, { th with pc := .irLoad, base := th.holds, res := .none })
    | .decRef => if th.holds > 0 then some (sh, { th with pc := .drLoad true, res := .none }) else none
    | .decRefStray => some (sh, { th with pc := .drLoad false, res := .none })
    | .peek => some (sh, { th with pc := .pkLoad, base := th.holds, res := .none, flag := false })
    | .touch now => if th.holds > 0 then some ({ sh with la := now }, { th with res := .none }) else none
    | .closeIfIdle thr => some (sh, { th with pc := .ciLock thr, res := .none })
    | .delete => some (sh, { th with pc := .dlStore, res := .none })
    | .snapshot => some (sh, { th with pc := .snLock, res := .none })
    | .read => some (sh, { th with pc := .rdLock, res := .none })
    | .close => some (sh, { th with pc := .clLock, res := .none })
  -- incRef ------------------------------------------------------------------------------------
  | .irLoad =>
    if sh.rc ≤ 0 then some (sh, { th with pc := .aqLock })
    else some (sh, { th with pc := .irCas sh.rc })
  | .irCas cur =>
    if sh.rc = cur then
      some ({ sh with rc := cur + 1 }, { th with pc := .idle, holds := th.holds + 1, res := .ok })
    else some (sh, { th with pc := .irLoad })
  -- acquire -----------------------------------------------------------------------------------
  | .aqLock => if sh.lockFree then some ({ sh with mu := some t }, { th with pc := .aqRc }) else none
  | .aqRc =>
    if sh.rc > 0 then some (sh, { th with pc := .aqAdd }) else some (sh, { th with pc := .aqMbd })
  | .aqAdd => some ({ sh with rc := sh.rc + 1 }, { th with pc := .aqUnlock .ok, holds := th.holds + 1 })
  | .aqMbd =>
    if sh.mbd then some (sh, { th with pc := .aqUnlock .closedErr })
    else some (sh, { th with pc := .aqInit })
  | .aqInit =>
    if sh.isOpen then some (sh, { th with pc := .aqStore })
    else if initOk then some ({ sh with isOpen := true }, { th with pc := .aqStore })
    else some (sh, { th with pc := .aqUnlock .initErr })
  | .aqStore => some ({ sh with rc := 1 }, { th with pc := .aqUnlock .ok, holds := th.holds + 1 })
  | .aqUnlock r => some ({ sh with mu := none }, { th with pc := .idle, res := r })
  -- DecRef ------------------------------------------------------------------------------------
  | .drLoad own =>
    if sh.rc ≤ 0 then some (sh, { th with pc := .idle })
    else some (sh, { th with pc := .drCas sh.rc own })
  | .drCas cur own =>
    if sh.rc = cur then
      some ({ sh with rc := cur - 1 },
            { th with pc := if cur = 1 then .drMbd else .idle,
                      holds := if own then th.holds - 1 else th.holds })
    else some (sh, { th with pc := .drLoad own })
  | .drMbd => if sh.mbd then some (sh, { th with pc := .pdLock }) else some (sh, { th with pc := .idle })
  -- performDelete -----------------------------------------------------------------------------
  | .pdLock => if sh.lockFree then some ({ sh with mu := some t }, { th with pc := .pdRc }) else none
  | .pdRc =>
    if sh.rc > 0 then some (sh, { th with pc := .pdUnlock }) else some (sh, { th with pc := .pdClose })
  | .pdClose => some ({ sh with isOpen := false }, { th with pc := .pdRm })
  | .pdRm => some ({ sh with dir := false }, { th with pc := .pdUnlock })
  | .pdUnlock => some ({ sh with mu := none }, { th with pc := .idle })
  -- delete ------------------------------------------------------------------------------------
  | .dlStore => some ({ sh with mbd := true }, { th with pc := .dlRc })
  | .dlRc => if sh.rc = 0 then some (sh, { th with pc := .pdLock }) else some (sh, { th with pc := .idle })
  -- closeIfIdle -------------------------------------------------------------------------------
  | .ciLock thr => if sh.lockFree then some ({ sh with mu := some t }, { th with pc := .ciIdx thr }) else none
  | .ciIdx thr =>
    if sh.isOpen then some (sh, { th with pc := .ciRc thr }) else some (sh, { th with pc := .ciUnlock false })
  | .ciRc thr =>
    if sh.rc ≠ 0 then some (sh, { th with pc := .ciUnlock false }) else some (sh, { th with pc := .ciMbd thr })
  | .ciMbd thr =>
    if sh.mbd then some (sh, { th with pc := .ciUnlock false }) else some (sh, { th with pc := .ciLa thr })
  | .ciLa thr =>
    if sh.la ≥ thr then some (sh, { th with pc := .ciUnlock false }) else some (sh, { th with pc := .ciClose })
  | .ciClose => some ({ sh with isOpen := false }, { th with pc := .ciUnlock true })
  | .ciUnlock b => some ({ sh with mu := none }, { th with pc := .idle, flag := b })
  -- snapshotInto ------------------------------------------------------------------------------
  | .snLock => if sh.lockFree then some ({ sh with mu := some t }, { th with pc := .snMbd }) else none
  | .snMbd =>
    if sh.mbd then some (sh, { th with pc := .snUnlock false }) else some (sh, { th with pc := .snIdx })
  | .snIdx => if sh.isOpen then some (sh, { th with pc := .snAdd }) else some (sh, { th with pc := .snLink })
  | .snAdd => some ({ sh with rc := sh.rc + 1 }, { th with pc := .snUnlockOpen, holds := th.holds + 1 })
  | .snUnlockOpen => some ({ sh with mu := none }, { th with pc := .snWork })
  | .snWork => some (sh, { th with pc := .drLoad true, flag := true })
  | .snLink => some (sh, { th with pc := .snUnlock true })
  | .snUnlock b => some ({ sh with mu := none }, { th with pc := .idle, flag := b })
  -- pin only if active ------------------------------------------------------------------------
  | .pkLoad =>
    if sh.rc ≤ 0 then some (sh, { th with pc := .idle, flag := false })
    else some (sh, { th with pc := .pkCas sh.rc })
  | .pkCas cur =>
    if sh.rc = cur then
      some ({ sh with rc := cur + 1 }, { th with pc := .idle, holds := th.holds + 1, flag := true })
    else some (sh, { th with pc := .pkLoad })
  -- controller close --------------------------------------------------------------------------
  | .clLock => if sh.lockFree then some ({ sh with mu := some t }, { th with pc := .clClose }) else none
  | .clClose => some ({ sh with isOpen := false, down := true }, { th with pc := .clMbd })
  | .clMbd => if sh.mbd then some (sh, { th with pc := .clRm }) else some (sh, { th with pc := .clUnlock })
  | .clRm => some ({ sh with dir := false }, { th with pc := .clUnlock })
  | .clUnlock => some ({ sh with mu := none }, { th with pc := .idle })
  -- readers -----------------------------------------------------------------------------------
  | .rdLock => if sh.mu.isNone then some ({ sh with readers := sh.readers + 1 }, { th with pc := .rdChk }) else none
  | .rdChk =>
    if sh.isOpen then some (sh, { th with pc := .rdUse }) else some (sh, { th with pc := .rdUnlock false })
  | .rdUse => some (sh, { th with pc := .rdUnlock true })
  | .rdUnlock b => some ({ sh with readers := sh.readers - 1 }, { th with pc := .idle, flag := b })

/-- whole system: one segment, any number of threads -/
structure State where
  sh : Shared
  ts : List Th
  deriving DecidableEq, Repr, Inhabited

/-- a freshly created segment (`openSegment`): dormant – open, unreferenced, directory present -/
def Shared.init : Shared :=
  { rc := 0, isOpen := true, mbd := false, dir := true, la := 0, mu := none, readers := 0, down := false }

def State.init : State := { sh := Shared.init, ts := [] }

/-- scheduler labels: create a thread, or let thread `t` take its next atomic step -/
inductive Label
  | spawn
  | step (t : Tid) (p : Proc) (initOk : Bool)
  deriving DecidableEq, Repr, Inhabited

def State.step (s : State) : Label → Option State
  | .spawn => some { s with ts := s.ts ++ [Th.init] }
  | .step t p ok =>
    match s.ts[t]? with
    | none => none
    | some th =>
      match tstep t s.sh th p ok with
      | none => none
      | some (sh', th') => some { sh := sh', ts := s.ts.set t th' }

def run (s : State) : List Label → Option State
  | [] => some s
  | l :: ls => match s.step l with
    | none => none
    | some s' => run s' ls

/-- the label respects the caller contract (no stray DecRef) -/
def Label.fair : Label → Bool
  | .step _ .decRefStray _ => false
  | _ => true

/-- States reachable under any scheduler.  `legacy = true` additionally admits stray DecRefs
(the unrepaired `segments(false)` / `selectSegments(false)` callers). -/
inductive Reach (legacy : Bool) : State → Prop
  | init : Reach legacy State.init
  | step {s s' : State} (l : Label) : Reach legacy s → (legacy = true ∨ l.fair = true) →
      s.step l = some s' → Reach legacy s'

abbrev Reachable := Reach false

/-! ## running one procedure to completion (op granularity; used by the driver and the op-level theorems) -/

/-- iterate `tstep` for one thread on its own until it is idle again -/
def solo (t : Tid) (initOk : Bool) : Nat → Shared → Th → Shared × Th
  | 0, sh, th => (sh, th)
  | n + 1, sh, th =>
    if th.pc = .idle then (sh, th)
    else match tstep t sh th .incRef initOk with
      | none => (sh, th)
      | some (sh', th') => solo t initOk n sh' th'

/-- call `p` and run it to completion without interference -/
def callTh (t : Tid) (p : Proc) (initOk : Bool) (sh : Shared) (th : Th) : Option (Shared × Th) :=
  if th.pc = .idle then
    match tstep t sh th p initOk with
    | none => none
    | some (sh', th') => some (solo t initOk 24 sh' th')
  else none

/-- same on a whole state (thread `t` must exist and be idle) -/
def State.call (s : State) (t : Tid) (p : Proc) (initOk : Bool := true) : Option State :=
  match s.ts[t]? with
  | none => none
  | some th =>
    match callTh t p initOk s.sh th with
    | none => none
    | some (sh', th') => some { sh := sh', ts := s.ts.set t th' }

/-! ## controller procedures over several segments (control flow only; generic in the world `σ`) -/

/-- `selectSegments(…, reopenClosed = true)`: loop over the overlapping segments in the code's
iteration order; on a failing `incRef` release what was pinned so far. -/
def selectLoop {σ : Type} (incRef : σ → Nat → σ × Bool) (decRef touch : σ → Nat → σ) :
    σ → List Nat → List Nat → σ × Option (List Nat)
  | w, [], tt => (w, some tt)
  | w, i :: rest, tt =>
    let r := incRef w i
    if r.2 then selectLoop incRef decRef touch (touch r.1 i) rest (tt ++ [i])
    else (tt.foldl decRef r.1, none)

/-- `segments(ctx, reopenClosed = true)` with the proposed repair (unwind on failure). -/
def segmentsLoop {σ : Type} (incRef : σ → Nat → σ × Bool) (decRef : σ → Nat → σ) :
    σ → List Nat → List Nat → σ × Option (List Nat)
  | w, [], tt => (w, some tt)
  | w, i :: rest, tt =>
    let r := incRef w i
    if r.2 then segmentsLoop incRef decRef r.1 rest (tt ++ [i])
    else (tt.foldl decRef r.1, none)

/-- `segments(ctx, true)` as written in the unrepaired source: returns on the first error and
leaves the earlier pins in place. -/
def segmentsLoop_legacy {σ : Type} (incRef : σ → Nat → σ × Bool) :
    σ → List Nat → List Nat → σ × Option (List Nat)
  | w, [], tt => (w, some tt)
  | w, i :: rest, tt =>
    let r := incRef w i
    if r.2 then segmentsLoop_legacy incRef r.1 rest (tt ++ [i])
    else (r.1, none)

/-- `database.SelectSegments` (tsdb.go), the retention filter after `selectSegments`: every returned
segment whose whole range lies before the TTL deadline is DecRef'ed and dropped, the others are kept
in order. -/
def filterLoop {σ : Type} (decRef : σ → Nat → σ) (expired : Nat → Bool) : σ → List Nat → List Nat → σ × List Nat
  | w, [], kept => (w, kept)
  | w, i :: rest, kept =>
    if expired i then filterLoop decRef expired (decRef w i) rest kept
    else filterLoop decRef expired w rest (kept ++ [i])

end Banyan.C14
