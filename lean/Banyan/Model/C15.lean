/-
C15 — executable model of

  * the shared columnar frame codec `pkg/query/vectorized/frame/{encode,decode,validate}.go` with the measure and
    stream bindings (`measure/frame/frame.go`, `stream/frame/frame.go`), byte exact;
  * the accept / reject / fall-through decision of `pkg/query/vectorized/measure/plan/{dispatch,analyzer}.go`
    (+ `plan/top.go`, `plan.go:BuildOperators`) as a function of the request shape and the schema.

Core Lean only.  Go runtime faults are an explicit `panic` outcome: every slice expression of the decoder goes through
`slice`, which panics exactly when Go would, and the guards are the ones the Go code has.
-/
import Banyan.Model.Util

namespace Banyan.C15

/-! ## outcomes -/

/-- error classes of the codec (`frame.go` sentinel errors; `proto` = a cell failed `proto.Unmarshal`) -/
inductive Err | trunc | magic | version | type | role | proto | nilBatch
  deriving DecidableEq, Repr

inductive Res (α : Type) where
  | ok (a : α)
  | err (e : Err)
  | panic
  deriving Repr, DecidableEq

def Res.bind {α β} (r : Res α) (f : α → Res β) : Res β :=
  match r with
  | .ok a => f a
  | .err e => .err e
  | .panic => .panic

instance : Monad Res where
  pure := .ok
  bind := Res.bind

/-- `2^64`; kept behind a name so that proofs never unfold the literal. -/
def W64 : Nat := 18446744073709551616

/-! ## `encoding/binary` primitives -/

/-- `binary.AppendUvarint` -/
def putUvarint (x : Nat) : List Byte :=
  if x < 128 then [x] else (x % 128 + 128) :: putUvarint (x / 128)
termination_by x
decreasing_by omega

/-- `binary.Uvarint` loop; `none` stands for the `n <= 0` results (buffer too small, or overflow after
`MaxVarintLen64 = 10` bytes).  `i` is the byte index, `x` the accumulator; the shift is `7*i`, and since every
earlier chunk is `< 2^7` placed at a lower position, Go's `x | uint64(b)<<s` equals `x + b * 2^(7*i)`. -/
def uvarintLoop : List Byte → Nat → Nat → Option (Nat × List Byte)
  | [], _, _ => none
  | b :: rest, i, x =>
    if i = 10 then none
    else if b < 128 then
      if i = 9 ∧ b > 1 then none else some (x + b * 2 ^ (7 * i), rest)
    else uvarintLoop rest (i + 1) (x + (b % 128) * 2 ^ (7 * i))

def uvarint (bs : List Byte) : Option (Nat × List Byte) := uvarintLoop bs 0 0

/-- `binary.LittleEndian.AppendUint64` -/
def le64 (u : Nat) : List Byte := (beBytes 8 u).reverse

/-- `binary.LittleEndian.Uint64` on exactly eight bytes -/
def ofLE64 (bs : List Byte) : Nat := ofBE bs.reverse

/-- `b[:n]`, `b[n:]` with Go's bounds check -/
def slice (bs : List Byte) (n : Nat) : Res (List Byte × List Byte) :=
  if bs.length < n then .panic else .ok (bs.take n, bs.drop n)

/-! ## batches -/

/-- `vectorized.ColumnType`, iota order -/
inductive ColType | int64 | float64 | string | bytes | int64Array | strArray | tagValue | fieldValue
  deriving DecidableEq, Repr

def ColType.toCode : ColType → Nat
  | .int64 => 0 | .float64 => 1 | .string => 2 | .bytes => 3 | .int64Array => 4 | .strArray => 5 | .tagValue => 6 | .fieldValue => 7

def ColType.ofCode : Nat → Option ColType
  | 0 => some .int64 | 1 => some .float64 | 2 => some .string | 3 => some .bytes
  | 4 => some .int64Array | 5 => some .strArray | 6 => some .tagValue | 7 => some .fieldValue | _ => none

/-- `vectorized.ColumnRole`, iota order -/
inductive Role | timestamp | version | seriesID | shardID | tag | field | elementID | orderKey
  deriving DecidableEq, Repr

def Role.toCode : Role → Nat
  | .timestamp => 0 | .version => 1 | .seriesID => 2 | .shardID => 3 | .tag => 4 | .field => 5 | .elementID => 6 | .orderKey => 7

def Role.ofCode : Nat → Option Role
  | 0 => some .timestamp | 1 => some .version | 2 => some .seriesID | 3 => some .shardID
  | 4 => some .tag | 5 => some .field | 6 => some .elementID | 7 => some .orderKey | _ => none

/-- how a column type stores a cell -/
inductive Kind | fixed | var | ptr | array
  deriving DecidableEq, Repr

def ColType.kind : ColType → Kind
  | .int64 | .float64 => .fixed
  | .string | .bytes => .var
  | .tagValue | .fieldValue => .ptr
  | .int64Array | .strArray => .array

/-- a cell value: a 64-bit pattern (int64 / float64), a byte string (string / []byte), or a message pointer
(`none` = nil pointer, `some bs` = the message whose marshalled form is `bs`) -/
inductive Val
  | fixed (bits : Nat)
  | var (bs : List Byte)
  | ptr (m : Option (List Byte))
  deriving DecidableEq, Repr

structure Cell where
  null : Bool
  val : Val
  deriving DecidableEq, Repr

/-- a `vectorized.Column`: runtime type + data slice with its validity bits -/
structure Column where
  typ : ColType
  cells : List Cell
  deriving DecidableEq, Repr

structure ColDef where
  role : Role
  typ : ColType
  name : List Byte
  family : List Byte
  deriving DecidableEq, Repr

/-- `vectorized.RecordBatch` (`defs` = `Schema.Columns`) -/
structure Batch where
  defs : List ColDef
  cols : List Column
  sel : Option (List Nat)
  len : Nat
  deriving DecidableEq, Repr

/-- `frame.Codec` -/
structure Codec where
  magic : List Byte
  version : Byte
  roleToWire : Role → Option Byte
  wireToRole : Byte → Option Role
  typeToWire : ColType → Option Byte
  wireToType : Byte → Option ColType

def measureCodec : Codec where
  magic := [0, 86, 70, 82]
  version := 3
  roleToWire
    | .timestamp => some 1 | .version => some 2 | .seriesID => some 3 | .shardID => some 4 | .tag => some 5 | .field => some 6
    | _ => none
  wireToRole
    | 1 => some .timestamp | 2 => some .version | 3 => some .seriesID | 4 => some .shardID | 5 => some .tag | 6 => some .field
    | _ => none
  typeToWire
    | .int64 => some 1 | .float64 => some 2 | .string => some 3 | .bytes => some 4 | .tagValue => some 5 | .fieldValue => some 6
    | _ => none
  wireToType
    | 1 => some .int64 | 2 => some .float64 | 3 => some .string | 4 => some .bytes | 5 => some .tagValue | 6 => some .fieldValue
    | _ => none

def streamCodec : Codec where
  magic := [0, 86, 70, 82]
  version := 1
  roleToWire
    | .timestamp => some 1 | .elementID => some 2 | .seriesID => some 3 | .tag => some 4 | .orderKey => some 5
    | _ => none
  wireToRole
    | 1 => some .timestamp | 2 => some .elementID | 3 => some .seriesID | 4 => some .tag | 5 => some .orderKey
    | _ => none
  typeToWire
    | .int64 => some 1 | .string => some 2 | .bytes => some 3 | .tagValue => some 4
    | _ => none
  wireToType
    | 1 => some .int64 | 2 => some .string | 3 => some .bytes | 4 => some .tagValue
    | _ => none

/-! ## encode (`encode.go`) -/

/-- `activeRowIndices` -/
def activeRows (b : Batch) : List Nat :=
  match b.sel with
  | none => List.range b.len
  | some s => s

/-- `col.IsNull(i)`: rows past the data are never null -/
def Column.isNull (c : Column) (i : Nat) : Bool :=
  match c.cells[i]? with
  | some x => x.null
  | none => false

/-- least-significant-bit-first byte of up to eight validity bits -/
def byteOf : List Bool → Nat
  | [] => 0
  | b :: bs => (if b then 1 else 0) + 2 * byteOf bs

/-- `appendValidityBitmap`: `⌈n/8⌉` bytes, bit `j%8` of byte `j/8` set iff row `j` is null -/
def packBits (bs : List Bool) : List Byte :=
  match bs with
  | [] => []
  | b :: t => byteOf ((b :: t).take 8) :: packBits ((b :: t).drop 8)
termination_by bs.length
decreasing_by simp; omega

def fixedBits (c : Column) (i : Nat) : Nat :=
  match c.cells[i]? with
  | some ⟨_, .fixed u⟩ => u
  | _ => 0

def varBytes (c : Column) (i : Nat) : List Byte :=
  match c.cells[i]? with
  | some ⟨false, .var bs⟩ => bs
  | _ => []

def ptrBytes (c : Column) (i : Nat) : List Byte :=
  match c.cells[i]? with
  | some ⟨false, .ptr (some bs)⟩ => bs
  | _ => []

def lenPrefixed (v : List Byte) : List Byte := putUvarint v.length ++ v

/-- `appendColumnData`; `none` = `ErrUnsupportedColumnType` (runtime column type differs from the declared one) -/
def encodeData (t : ColType) (c : Column) (active : List Nat) : Option (List Byte) :=
  if c.typ ≠ t then none else
  match t.kind with
  | .fixed => some (active.flatMap fun i => le64 (fixedBits c i))
  | .var => some (active.flatMap fun i => lenPrefixed (varBytes c i))
  | .ptr => some (active.flatMap fun i => lenPrefixed (ptrBytes c i))
  | .array => none

def encodeCol (cd : Codec) (d : ColDef) (c : Column) (active : List Nat) : Res (List Byte) :=
  match cd.roleToWire d.role with
  | none => .err .role
  | some r =>
    match cd.typeToWire d.typ with
    | none => .err .type
    | some t =>
      match encodeData d.typ c active with
      | none => .err .type
      | some data =>
        .ok ([r, t] ++ lenPrefixed d.name ++ lenPrefixed d.family ++ packBits (active.map c.isNull) ++ data)

/-- the column loop of `Encode`; `b.Columns[colIdx]` panics when the schema has more columns than the batch -/
def encodeCols (cd : Codec) (active : List Nat) : List ColDef → List Column → Res (List Byte)
  | [], _ => .ok []
  | _ :: _, [] => .panic
  | d :: ds, c :: cs =>
    match encodeCol cd d c active with
    | .ok x =>
      match encodeCols cd active ds cs with
      | .ok y => .ok (x ++ y)
      | e => e
    | e => e

def header (cd : Codec) (nrows ncols : Nat) : List Byte :=
  cd.magic ++ [cd.version] ++ putUvarint nrows ++ putUvarint ncols

/-- `Codec.Encode` (a nil batch/schema is not representable here) -/
def encode (cd : Codec) (b : Batch) : Res (List Byte) :=
  let active := activeRows b
  match encodeCols cd active b.defs b.cols with
  | .ok body => .ok (header cd active.length b.defs.length ++ body)
  | e => e

/-! ## decode (`validate.go`, `decode.go`) -/

structure Header where
  nrows : Nat
  ncols : Nat
  deriving DecidableEq, Repr

/-- `ValidateHeader`; returns the header and the bytes after it -/
def validateHeader (cd : Codec) (b : List Byte) : Res (Header × List Byte) :=
  if b.length < 7 then .err .trunc else
  match slice b 4 with
  | .ok (m, r1) =>
    if m ≠ cd.magic then .err .magic else
    match r1 with
    | [] => .panic
    | v :: r2 =>
      if v ≠ cd.version then .err .version else
      match uvarint r2 with
      | none => .err .trunc
      | some (nrows, r3) =>
        match uvarint r3 with
        | none => .err .trunc
        | some (ncols, r4) =>
          if nrows > b.length then .err .trunc
          else if ncols > r4.length then .err .trunc
          else .ok (⟨nrows, ncols⟩, r4)
  | .err e => .err e
  | .panic => .panic

def bitsOf : Nat → Nat → List Bool
  | _, 0 => []
  | x, k + 1 => (x % 2 == 1) :: bitsOf (x / 2) k

/-- the bit loop of `readValidityBitmap` over `⌈n/8⌉` bytes already known to be present -/
def unpackBits : Nat → List Byte → List Bool
  | 0, _ => []
  | _ + 1, [] => []
  | n + 1, b :: rest => bitsOf b (min (n + 1) 8) ++ unpackBits (n + 1 - 8) rest

/-- `readValidityBitmap` -/
def readValidity (b : List Byte) (nrows : Nat) : Res (List Bool × List Byte) :=
  if nrows = 0 then .ok ([], b) else
  let nbytes := (nrows + 7) / 8
  if b.length < nbytes then .err .trunc else
  match slice b nbytes with
  | .ok (bits, rest) => .ok (unpackBits nrows bits, rest)
  | .err e => .err e
  | .panic => .panic

/-- `uvarint(len) + len bytes` with the decoder's two guards -/
def readLenPrefixed (b : List Byte) : Res (List Byte × List Byte) :=
  match uvarint b with
  | none => .err .trunc
  | some (n, rest) =>
    if rest.length < n then .err .trunc else slice rest n

def zeroVal : Kind → Val
  | .fixed => .fixed 0
  | .var => .var []
  | _ => .ptr none

def nullCell (k : Kind) : Cell := ⟨true, zeroVal k⟩

/-- fixed-width rows: `b[i*8 : i*8+8]` for each row -/
def readFixed : List Bool → List Byte → Res (List Cell × List Byte)
  | [], b => .ok ([], b)
  | nl :: nulls, b =>
    match slice b 8 with
    | .ok (w, rest) =>
      match readFixed nulls rest with
      | .ok (cs, r) => .ok ((if nl then nullCell .fixed else ⟨false, .fixed (ofLE64 w)⟩) :: cs, r)
      | .err e => .err e
      | .panic => .panic
    | .err e => .err e
    | .panic => .panic

def readVar : List Bool → List Byte → Res (List Cell × List Byte)
  | [], b => .ok ([], b)
  | nl :: nulls, b =>
    match readLenPrefixed b with
    | .ok (v, rest) =>
      match readVar nulls rest with
      | .ok (cs, r) => .ok ((if nl then nullCell .var else ⟨false, .var v⟩) :: cs, r)
      | .err e => .err e
      | .panic => .panic
    | .err e => .err e
    | .panic => .panic

/-- proto pass-through rows; `protoOk` = `proto.Unmarshal` accepts the bytes (only asked for non-null, non-empty cells) -/
def readPtr (protoOk : List Byte → Bool) : List Bool → List Byte → Res (List Cell × List Byte)
  | [], b => .ok ([], b)
  | nl :: nulls, b =>
    match readLenPrefixed b with
    | .ok (v, rest) =>
      if !nl && !v.isEmpty && !protoOk v then .err .proto else
      match readPtr protoOk nulls rest with
      | .ok (cs, r) => .ok ((if nl then nullCell .ptr else ⟨false, .ptr (some v)⟩) :: cs, r)
      | .err e => .err e
      | .panic => .panic
    | .err e => .err e
    | .panic => .panic

/-- `readColumnData`; `nulls` has one entry per row -/
def readData (protoOk : List Byte → Bool) (t : ColType) (nrows : Nat) (nulls : List Bool) (b : List Byte) :
    Res (List Cell × List Byte) :=
  match t.kind with
  | .fixed => if b.length < nrows * 8 then .err .trunc else readFixed nulls b
  | .var => readVar nulls b
  | .ptr => readPtr protoOk nulls b
  | .array => .err .type

/-- the validity vector the row loops consult (`i < len(nulls) && nulls[i]`): all-valid when `nrows = 0` -/
def padNulls (nrows : Nat) (nulls : List Bool) : List Bool :=
  nulls ++ List.replicate (nrows - nulls.length) false

/-- `decodeColumn` -/
def decodeColumn (cd : Codec) (protoOk : List Byte → Bool) (b : List Byte) (nrows : Nat) :
    Res ((ColDef × Column) × List Byte) :=
  if b.length < 2 then .err .trunc else
  match b with
  | rb :: tb :: r0 =>
    match cd.wireToRole rb with
    | none => .err .role
    | some role =>
      match cd.wireToType tb with
      | none => .err .type
      | some typ =>
        match readLenPrefixed r0 with
        | .ok (name, r1) =>
          match readLenPrefixed r1 with
          | .ok (fam, r2) =>
            match readValidity r2 nrows with
            | .ok (nulls, r3) =>
              match readData protoOk typ nrows (padNulls nrows nulls) r3 with
              | .ok (cells, r4) => .ok ((⟨role, typ, name, fam⟩, ⟨typ, cells⟩), r4)
              | .err e => .err e
              | .panic => .panic
            | .err e => .err e
            | .panic => .panic
          | .err e => .err e
          | .panic => .panic
        | .err e => .err e
        | .panic => .panic
  | _ => .panic

/-- the column loop of `Decode`.  The second component counts the elements of every `make`/constructor capacity the
Go code requests on the way (`nulls` and the data slice of each column that gets that far). -/
def decodeCols (cd : Codec) (protoOk : List Byte → Bool) (nrows : Nat) :
    Nat → List Byte → Res (List (ColDef × Column) × List Byte) × Nat
  | 0, b => (.ok ([], b), 0)
  | k + 1, b =>
    match decodeColumn cd protoOk b nrows with
    | .ok (dc, rest) =>
      let (r, a) := decodeCols cd protoOk nrows k rest
      (match r with
       | .ok (l, r') => .ok (dc :: l, r')
       | .err e => .err e
       | .panic => .panic, a + 2 * nrows)
    | .err e => (.err e, 2 * nrows)
    | .panic => (.panic, 2 * nrows)

/-- `Codec.Decode` with its allocation count (`defs`, `cols` capacities = `NumCols` each) -/
def decodeFull (cd : Codec) (protoOk : List Byte → Bool) (b : List Byte) : Res Batch × Nat :=
  match validateHeader cd b with
  | .ok (h, rest) =>
    let (r, a) := decodeCols cd protoOk h.nrows h.ncols rest
    (match r with
     | .ok (l, tail) =>
       if tail ≠ [] then .err .trunc
       else .ok ⟨l.map (·.1), l.map (·.2), none, h.nrows⟩
     | .err e => .err e
     | .panic => .panic, a + 2 * h.ncols)
  | .err e => (.err e, 0)
  | .panic => (.panic, 0)

def decode (cd : Codec) (protoOk : List Byte → Bool) (b : List Byte) : Res Batch := (decodeFull cd protoOk b).1

/-! ## what a round trip is expected to return -/

/-- the cell the decoder rebuilds for source row `i` of column `c` declared with type `t` -/
def normCell (c : Column) (i : Nat) : Cell :=
  if c.isNull i then nullCell c.typ.kind else
  match c.typ.kind with
  | .fixed => ⟨false, .fixed (fixedBits c i)⟩
  | .var => ⟨false, .var (varBytes c i)⟩
  | _ => ⟨false, .ptr (some (ptrBytes c i))⟩

/-- the batch `Decode (Encode b)` must be: the active rows in selection order, no selection vector, null slots
cleared, nil message pointers replaced by empty messages -/
def normalize (b : Batch) : Batch :=
  let active := activeRows b
  ⟨b.defs, b.cols.map fun c => ⟨c.typ, active.map (normCell c)⟩, none, active.length⟩

/-! ## dispatch decision (`plan/dispatch.go`, `plan/analyzer.go`, `plan.go`, `plan/top.go`) -/

/-- the part of a measure schema the decision reads -/
structure DSchema where
  families : List (String × List String)
  fields : List String
  rules : List (String × Bool)          -- index rule name, NoSort
  deriving Repr

inductive AggFn | sum | count | min | max | mean | unspecified
  deriving DecidableEq, Repr

/-- the shape of a `measurev1.QueryRequest` the decision reads (criteria and storage are shared with the row path and
enter as the two booleans of `Env`) -/
structure Shape where
  tp : Option (List (String × List String))
  fp : Option (List String)
  ob : Option String                     -- order_by present: index rule name ("" = time)
  gb : Option (List (String × List String))
  agg : Option (AggFn × String)
  top : Option String                    -- top.field_name
  deriving Repr

structure Env where
  enabled : Bool
  ctxOk : Bool                           -- measureSchema, logicalSchema, ec, metadata all non-nil
  critOk : Bool                          -- inverted.BuildQuery accepts the criteria
  storageOk : Bool                       -- ec.Query returns no error
  deriving Repr

inductive Reject
  | ctx | tag (name : String) | field (name : String) | order | crit
  | gbNoFamily | gbMultiFamily | gbNoTags | gbFamily | gbTag | aggField | storage | aggFn | topField
  deriving DecidableEq, Repr

inductive Decision | fallthrough | reject (r : Reject) | accept
  deriving DecidableEq, Repr

def DSchema.hasTag (s : DSchema) (n : String) : Bool := s.families.any fun f => f.2.contains n

/-- `validateProjectionParity`: first projected tag unknown schema-wide, then first unknown field -/
def projCheck (s : DSchema) (r : Shape) : Option Reject :=
  let tags := (r.tp.getD []).flatMap (·.2)
  match tags.find? (fun n => !s.hasTag n) with
  | some n => some (.tag n)
  | none =>
    match (r.fp.getD []).find? (fun n => !s.fields.contains n) with
    | some n => some (.field n)
    | none => none

/-- `resolveOrderBy` / `logical.ParseOrderBy` -/
def orderCheck (s : DSchema) (r : Shape) : Option Reject :=
  match r.ob with
  | none => none
  | some rule =>
    if rule = "" then none else
    match s.rules.find? (·.1 == rule) with
    | none => some .order
    | some (_, nosort) => if nosort then some .order else none

/-- `translateGroupBy` + `validateGroupByTags` -/
def gbCheck (s : DSchema) (r : Shape) : Option Reject :=
  match r.gb with
  | none => none
  | some [] => some .gbNoFamily
  | some [(fam, tags)] =>
    if tags.isEmpty then some .gbNoTags else
    match s.families.find? (·.1 == fam) with
    | none => some .gbFamily
    | some (_, known) => if tags.all known.contains then none else some .gbTag
  | some _ => some .gbMultiFamily

/-- `translateAgg` + `validateAggField` -/
def aggCheck (s : DSchema) (r : Shape) : Option Reject :=
  match r.agg with
  | none => none
  | some (_, f) => if s.fields.contains f then none else some .aggField

/-- `BuildOperators`: a concrete aggregation function is required -/
def aggFnCheck (r : Shape) : Option Reject :=
  match r.agg with
  | some (.unspecified, _) => some .aggFn
  | _ => none

/-- `plan.Top.Build`: the top field must be a field column of the schema below it — the aggregate's single output
field when there is an aggregation, else the (agg-extended) field projection -/
def topCheck (r : Shape) : Option Reject :=
  match r.top with
  | none => none
  | some f =>
    match r.agg with
    | some (_, af) => if f == af then none else some .topField
    | none => if (r.fp.getD []).contains f then none else some .topField

def firstSome : List (Option Reject) → Option Reject
  | [] => none
  | some r :: _ => some r
  | none :: t => firstSome t

/-- `plan.Dispatch` -/
def dispatch (e : Env) (s : DSchema) (r : Shape) : Decision :=
  if !e.enabled then .fallthrough
  else if !e.ctxOk then .reject .ctx
  else
    match firstSome [projCheck s r, orderCheck s r, (if e.critOk then none else some .crit),
                     gbCheck s r, aggCheck s r, (if e.storageOk then none else some .storage),
                     aggFnCheck r, topCheck r] with
    | some x => .reject x
    | none => .accept

/-- the support predicate stated in the analyzer's / dispatcher's doc comments -/
def supported (s : DSchema) (r : Shape) : Prop :=
  (∀ n ∈ (r.tp.getD []).flatMap (·.2), s.hasTag n = true) ∧
  (∀ n ∈ r.fp.getD [], n ∈ s.fields) ∧
  (∀ rule, r.ob = some rule → rule ≠ "" → ∃ x, s.rules.find? (·.1 == rule) = some x ∧ x.2 = false) ∧
  (∀ g, r.gb = some g → ∃ fam tags known, g = [(fam, tags)] ∧ tags ≠ [] ∧
      s.families.find? (·.1 == fam) = some (fam, known) ∧ ∀ t ∈ tags, t ∈ known) ∧
  (∀ fn f, r.agg = some (fn, f) → f ∈ s.fields ∧ fn ≠ .unspecified) ∧
  (∀ f, r.top = some f → (∀ fn af, r.agg = some (fn, af) → f = af) ∧ (r.agg = none → f ∈ r.fp.getD []))

end Banyan.C15
