/-
C16 — shard and node placement. L1 models mirroring
  /repo/pkg/partition/route.go     (ShardID, TraceShardID, ApplyLocators)
  /repo/pkg/partition/entity.go    (Locator.Locate: hash of the concatenated entity entries)
  /repo/pkg/pb/v1/write.go         (MarshalTagValue/ParseTagValue for the value kinds an entity may hold)
  /repo/pkg/convert/hash.go        (xxhash64, seed 0 – executable so that the driver can be compared; every
                                    theorem takes the hash as an opaque parameter)
  /repo/pkg/node/round_robin.go    (roundRobinSelector: OnAddOrUpdate, removeGroup, OnDelete, OnInit, AddNode,
                                    RemoveNode, Pick (sort.Search), sortEntries, selectNode, String)
  /repo/banyand/queue/pub/selector.go  only as the Boolean "labels match" carried by the addNode event
  /repo/banyand/liaison/grpc/node.go   LocateAll (distinct nodes of the first `copies` replicas)

`AddNode` is modelled AFTER the repair proposed in /verif/fixes/F4.diff (an add of a node that is already present is
ignored); the function as written at the pinned commit is kept as `addNode_legacy`.
-/
import Banyan.Model.Util
import Banyan.Model.C12

namespace Banyan.C16

/-- Go strings (group and node names) are byte strings; `strings.Compare`/`<`/`sort.Strings` order them like
    `bytes.Compare`, i.e. `lexLt`. -/
abbrev Name := List Byte

/-! ## 1. xxhash64 (github.com/cespare/xxhash/v2 `Sum64`, seed 0) -/

def prime1 : UInt64 := 11400714785074694791
def prime2 : UInt64 := 14029467366897019727
def prime3 : UInt64 := 1609587929392839161
def prime4 : UInt64 := 9650029242287828579
def prime5 : UInt64 := 2870177450012600261

def rotl (x : UInt64) (r : UInt64) : UInt64 := (x <<< r) ||| (x >>> (64 - r))

/-- little-endian read of (at most) the first `n` bytes -/
def leRead : Nat → List Byte → Nat
  | 0, _ => 0
  | _, [] => 0
  | n + 1, b :: bs => b % 256 + 256 * leRead n bs

def u64le (bs : List Byte) : UInt64 := UInt64.ofNat (leRead 8 bs)
def u32le (bs : List Byte) : UInt64 := UInt64.ofNat (leRead 4 bs)

def xxRound (acc inp : UInt64) : UInt64 := rotl (acc + inp * prime2) 31 * prime1
def xxMerge (acc v : UInt64) : UInt64 := (acc ^^^ xxRound 0 v) * prime1 + prime4

structure Lanes where
  v1 : UInt64
  v2 : UInt64
  v3 : UInt64
  v4 : UInt64

/-- the 32-byte stripe loop; returns the lanes and the unconsumed tail -/
def stripes : Nat → List Byte → Lanes → Lanes × List Byte
  | 0, bs, v => (v, bs)
  | fuel + 1, bs, v =>
    if bs.length < 32 then (v, bs)
    else
      stripes fuel (bs.drop 32)
        { v1 := xxRound v.v1 (u64le bs), v2 := xxRound v.v2 (u64le (bs.drop 8)),
          v3 := xxRound v.v3 (u64le (bs.drop 16)), v4 := xxRound v.v4 (u64le (bs.drop 24)) }

def tail8 : Nat → List Byte → UInt64 → UInt64 × List Byte
  | 0, bs, h => (h, bs)
  | fuel + 1, bs, h =>
    if bs.length < 8 then (h, bs)
    else tail8 fuel (bs.drop 8) (rotl (h ^^^ xxRound 0 (u64le bs)) 27 * prime1 + prime4)

def tail1 : List Byte → UInt64 → UInt64
  | [], h => h
  | b :: bs, h => tail1 bs (rotl (h ^^^ (UInt64.ofNat (b % 256) * prime5)) 11 * prime1)

def xxhash64 (bs : List Byte) : Nat :=
  let n := bs.length
  let (h0, rest) :=
    if n ≥ 32 then
      let (v, rest) := stripes n bs { v1 := prime1 + prime2, v2 := prime2, v3 := 0, v4 := 0 - prime1 }
      let h := rotl v.v1 1 + rotl v.v2 7 + rotl v.v3 12 + rotl v.v4 18
      (xxMerge (xxMerge (xxMerge (xxMerge h v.v1) v.v2) v.v3) v.v4, rest)
    else (prime5, bs)
  let h1 := h0 + UInt64.ofNat n
  let (h2, rest) := tail8 n rest h1
  let (h3, rest) :=
    if rest.length ≥ 4 then (rotl (h2 ^^^ (u32le rest * prime1)) 23 * prime2 + prime3, rest.drop 4) else (h2, rest)
  let h4 := tail1 rest h3
  let h5 := (h4 ^^^ (h4 >>> 33)) * prime2
  let h6 := (h5 ^^^ (h5 >>> 29)) * prime3
  (h6 ^^^ (h6 >>> 32)).toNat

/-! ## 2. shard of a write (`pkg/partition`) -/

/-- `ShardID(key, shardNum)` given `hash = convert.Hash(key)`: `none` is the "invalid shardNum" error. -/
def shardNumMin : Nat := 1

def shardID (hash : Nat) (shardNum : Nat) : Option Nat :=
  if shardNum < shardNumMin then none else some (hash % shardNum)

/-- `TraceShardID`: a zero shard count answers shard 0 instead of an error. -/
def traceShardOnZero : Nat := 0

def traceShardID (hash : Nat) (shardNum : Nat) : Nat :=
  if shardNum = 0 then traceShardOnZero else hash % shardNum

/-- `MarshalTagValue` (pkg/pb/v1/write.go) for the value kinds an entity may hold: raw bytes, no delimiter. -/
def tvBytes : C12.TagValue → List Byte
  | .null => []
  | .str s => s
  | .int v => C12.int64ToBytes v
  | .bin b => b

/-- `Entity.Marshal` of `[subject] ++ values` (`Locator.Find` prepends the subject): plain concatenation. -/
def entityKey (subject : List Byte) (vals : List C12.TagValue) : List Byte :=
  subject ++ vals.flatMap tvBytes

/-- `Locator.Locate`: the shard depends on `(subject, entity values, shardNum)` only. -/
def locate (hash : List Byte → Nat) (subject : List Byte) (vals : List C12.TagValue) (shardNum : Nat) : Option Nat :=
  shardID (hash (entityKey subject vals)) shardNum

/-- `ApplyLocators`: the optional sharding-key locator (here: the first `k` entity tags) overrides the shard. -/
def applyLocators (hash : List Byte → Nat) (subject : List Byte) (vals : List C12.TagValue) (shardingKey : Option Nat)
    (shardNum : Nat) : Option Nat :=
  match locate hash subject vals shardNum with
  | none => none
  | some s =>
    match shardingKey with
    | none => some s
    | some k => locate hash subject (vals.take k) shardNum

/-! ### writes that carry their own tag layout (`banyand/liaison/grpc/locator.go`, `pkg/pb/v1/metadata.go`) -/

/-- a tag family of the schema (`databasev1.TagFamilySpec`) or of a client-supplied write spec
    (`streamv1/measurev1.TagFamilySpec`): a name and tag names in order -/
structure FamSpec where
  name : Name
  tags : List Name
  deriving DecidableEq, Repr

/-- first index of `x` (a `for … { if name == x { return i } }` loop) -/
def firstIdx : List Name → Name → Option Nat
  | [], _ => none
  | y :: ys, x => if y = x then some 0 else (firstIdx ys x).map (· + 1)

/-- index stored in a Go map filled by `for i, y := range l { m[y] = i }`: the LAST occurrence -/
def lastIdx : List Name → Name → Option Nat
  | [], _ => none
  | y :: ys, x =>
    match lastIdx ys x with
    | some i => some (i + 1)
    | none => if y = x then some 0 else none

/-- `pbv1.FindTagByName`: (family offset, tag offset) of the first schema tag with that name -/
def findTagByName : List FamSpec → Name → Option (Nat × Nat)
  | [], _ => none
  | f :: fs, t =>
    match firstIdx f.tags t with
    | some ti => some (0, ti)
    | none => (findTagByName fs t).map fun p => (p.1 + 1, p.2)

/-- the schema loop of `findTagInSpec`: name of the first schema family that has the tag -/
def schemaFamilyOf : List FamSpec → Name → Option Name
  | [], _ => none
  | f :: fs, t => if f.tags.contains t then some f.name else schemaFamilyOf fs t

/-- `findTagInSpec` + `buildSpecMaps`: where the client's layout carries schema tag `t`; `none` is the `(-1, -1)`
    locator (family not in the spec, or tag not listed in that family, or tag not in the schema) -/
def findTagInSpec (schema spec : List FamSpec) (t : Name) : Option (Nat × Nat) :=
  match schemaFamilyOf schema t with
  | none => none
  | some fam =>
    match lastIdx (spec.map (·.name)) fam with
    | none => none
    | some fi =>
      match lastIdx ((spec.getD fi ⟨[], []⟩).tags) t with
      | none => none
      | some ti => some (fi, ti)

/-- `partition.GetTagByOffset`; `none` = "tag family/tag offset is invalid" -/
def getTagByOffset (write : List (List C12.TagValue)) (fi ti : Nat) : Option C12.TagValue :=
  match write[fi]? with
  | none => none
  | some fam => fam[ti]?

/-- `newSpecLocator`: one locator per entity (or sharding-key) tag name -/
def specLocators (schema spec : List FamSpec) (tagNames : List Name) : List (Option (Nat × Nat)) :=
  tagNames.map (findTagInSpec schema spec)

/-- one entity value of `specLocator.Find`: a `(-1,-1)` locator yields a null entity value -/
def locValue (write : List (List C12.TagValue)) : Option (Nat × Nat) → Option C12.TagValue
  | none => some .null
  | some (fi, ti) => getTagByOffset write fi ti

/-- `specLocator.Find` (without the subject) -/
def specFind (locs : List (Option (Nat × Nat))) (write : List (List C12.TagValue)) : Option (List C12.TagValue) :=
  locs.mapM (locValue write)

/-- `partition.NewEntityLocator` / `NewShardingKeyLocator`: names that the schema lacks are skipped -/
def schemaLocators (schema : List FamSpec) (tagNames : List Name) : List (Nat × Nat) :=
  tagNames.filterMap (findTagByName schema)

/-- `partition.Locator.Find` (without the subject) -/
def schemaFind (locs : List (Nat × Nat)) (write : List (List C12.TagValue)) : Option (List C12.TagValue) :=
  locs.mapM fun p => getTagByOffset write p.1 p.2

/-- `Locate` of either locator once the entity values are found -/
def locateVals (hash : List Byte → Nat) (subject : List Byte) (shardNum : Nat) :
    Option (List C12.TagValue) → Option (List C12.TagValue × Nat)
  | none => none
  | some vals => (shardID (hash (entityKey subject vals)) shardNum).map fun s => (vals, s)

/-- `navigateByLocator` → `ApplyLocators` for a write with a spec: entity values from the entity locator, shard from
    the sharding-key locator when the resource has a sharding key -/
def specNavigate (hash : List Byte → Nat) (schema spec : List FamSpec) (entity : List Name) (shardingKey : Option (List Name))
    (subject : List Byte) (write : List (List C12.TagValue)) (shardNum : Nat) : Option (List C12.TagValue × Nat) :=
  match locateVals hash subject shardNum (specFind (specLocators schema spec entity) write) with
  | none => none
  | some (evs, s) =>
    match shardingKey with
    | none => some (evs, s)
    | some sk => (locateVals hash subject shardNum (specFind (specLocators schema spec sk) write)).map fun p => (evs, p.2)

/-- the same for a write without a spec (locators cached from the schema) -/
def schemaNavigate (hash : List Byte → Nat) (schema : List FamSpec) (entity : List Name) (shardingKey : Option (List Name))
    (subject : List Byte) (write : List (List C12.TagValue)) (shardNum : Nat) : Option (List C12.TagValue × Nat) :=
  match locateVals hash subject shardNum (schemaFind (schemaLocators schema entity) write) with
  | none => none
  | some (evs, s) =>
    match shardingKey with
    | none => some (evs, s)
    | some sk => (locateVals hash subject shardNum (schemaFind (schemaLocators schema sk) write)).map fun p => (evs, p.2)

/-! specification side for layouts: one logical series, as a spec'd write and as a spec-less write -/

/-- what the client sends: for every family of its spec, the values of the listed tags in that order -/
def specWrite (spec : List FamSpec) (v : Name → Name → C12.TagValue) : List (List C12.TagValue) :=
  spec.map fun f => f.tags.map (v f.name)

/-- the value of schema tag `t` of family `fam` that such a write carries: null unless the spec has the family and lists the tag -/
def carried (spec : List FamSpec) (v : Name → Name → C12.TagValue) (fam t : Name) : C12.TagValue :=
  match spec.find? (fun f => f.name == fam) with
  | some f => if f.tags.contains t then v fam t else .null
  | none => .null

/-- the same series written without a spec, in schema layout -/
def refWrite (schema spec : List FamSpec) (v : Name → Name → C12.TagValue) : List (List C12.TagValue) :=
  schema.map fun f => f.tags.map (carried spec v f.name)

/-- the value of tag `t` that the series has after the spec is taken into account -/
def effValue (schema spec : List FamSpec) (v : Name → Name → C12.TagValue) (t : Name) : C12.TagValue :=
  carried spec v ((schemaFamilyOf schema t).getD []) t

/-! ## 3. the round-robin selector (`pkg/node/round_robin.go`) -/

structure Key where
  group : Name
  shard : Nat
  replicas : Nat
  deriving DecidableEq, Repr

structure Sel where
  lookup : List Key
  nodes : List Name
  deriving DecidableEq, Repr

def Sel.empty : Sel := { lookup := [], nodes := [] }

/-- `sortEntries` comparison `< 0`: `strings.Compare(a.group, b.group)`, then `a.shardID - b.shardID`
    (`replicas` does not take part). -/
def keyLt (a b : Key) : Bool :=
  lexLt a.group b.group || (a.group == b.group && decide (a.shard < b.shard))

/-- Sorting is specified as insertion sort. (`slices.SortFunc`/`sort.Sort` are pattern-defeating quicksorts; the
    result of any correct sort is the same whenever elements that compare equal are indistinguishable to `Pick`,
    which `Props.C16` shows to be the case for every reachable state.) -/
def insertBy {α : Type} (lt : α → α → Bool) (x : α) : List α → List α
  | [] => [x]
  | y :: ys => if lt x y then x :: y :: ys else y :: insertBy lt x ys

def sortBy {α : Type} (lt : α → α → Bool) (l : List α) : List α := l.foldr (insertBy lt) []

/-- `removeGroup`: the in-place deletion loop. -/
def removeGroup (g : Name) : List Key → List Key
  | [] => []
  | k :: ks => if k.group = g then removeGroup g ks else k :: removeGroup g ks

/-- `for i := 0; i < ShardNum; i++ { append(newKey(name, i, replicas)) }` -/
def newKeys (g : Name) (shardNum replicas : Nat) : List Key :=
  (List.range shardNum).map fun i => { group := g, shard := i, replicas := replicas }

/-- `OnAddOrUpdate`. `valid` = the event's kind is "group" ∧ the spec is a group ∧ `validateGroup` (catalog
    specified, `ResourceOpts` present); an invalid event is dropped before anything is touched. -/
def onAddOrUpdate (st : Sel) (g : Name) (valid : Bool) (shardNum replicas : Nat) : Sel :=
  if valid then
    { st with lookup := sortBy keyLt (removeGroup g st.lookup ++ newKeys g shardNum replicas) }
  else st

/-- `OnDelete` (no `validateGroup` here; only the kind is checked). -/
def onDelete (st : Sel) (g : Name) (kindGroup : Bool) : Sel :=
  if kindGroup then { st with lookup := removeGroup g st.lookup } else st

structure GroupSpec where
  name : Name
  valid : Bool
  shardNum : Nat
  replicas : Nat
  deriving DecidableEq, Repr

/-- `OnInit([group])`: the table is rebuilt from the registry's listing. -/
def onInit (st : Sel) (gs : List GroupSpec) : Sel :=
  let keys := (gs.filter fun g => g.valid).flatMap fun g => newKeys g.name g.shardNum g.replicas
  { st with lookup := sortBy keyLt keys }

/-- `AddNode` after repair F4: a node that is already present is not added again. `labelsMatch` is
    `nodeSelector == nil || nodeSelector.Matches(node.Labels)`. -/
def addNode (st : Sel) (n : Name) (labelsMatch : Bool) : Sel :=
  if labelsMatch then
    if st.nodes.contains n then st
    else { st with nodes := sortBy lexLt (st.nodes ++ [n]) }
  else st

/-- `AddNode` as written at the pinned commit: appends unconditionally. -/
def addNode_legacy (st : Sel) (n : Name) (labelsMatch : Bool) : Sel :=
  if labelsMatch then { st with nodes := sortBy lexLt (st.nodes ++ [n]) } else st

/-- `RemoveNode`: deletes the first occurrence only (`break`); not filtered by labels. -/
def removeNode (st : Sel) (n : Name) : Sel := { st with nodes := st.nodes.erase n }

/-- `sort.Search(n, f)`: the binary search as written in the Go standard library. -/
def bsearch (f : Nat → Bool) : Nat → Nat → Nat → Nat
  | 0, i, _ => i
  | fuel + 1, i, j =>
    if i < j then
      let h := (i + j) / 2
      if !f h then bsearch f fuel (h + 1) j else bsearch f fuel i h
    else i

def search (n : Nat) (f : Nat → Bool) : Nat := bsearch f n 0 n

def Key.dflt : Key := { group := [], shard := 0, replicas := 0 }

/-- the predicate handed to `sort.Search` in `Pick` -/
def pickPred (lookup : List Key) (g : Name) (s : Nat) (i : Nat) : Bool :=
  let k := lookup.getD i Key.dflt
  if k.group = g then decide (k.shard ≥ s) else lexLt g k.group

inductive PickResult where
  | node (n : Name)
  | noNodes          -- "no nodes available"
  | unknown          -- "<group>-<shard> is a unknown shard"
  deriving DecidableEq, Repr

/-- `Pick(group, _, shardID, replicaID)` with `selectNode` inlined. -/
def pick (st : Sel) (g : Name) (s r : Nat) : PickResult :=
  if st.nodes.length = 0 then .noNodes
  else
    let i := search st.lookup.length (pickPred st.lookup g s)
    let k := st.lookup.getD i Key.dflt
    if i < st.lookup.length ∧ k.group = g ∧ k.shard = s then
      .node (st.nodes.getD ((i + r) % st.nodes.length) [])
    else .unknown

/-- `String()`: one entry per lookup key and copy `0..replicas` (before JSON rendering). -/
def copiesExtra : Nat := 1

def describe (st : Sel) : List (Name × Nat × Nat × PickResult) :=
  st.lookup.flatMap fun k =>
    (List.range (k.replicas + copiesExtra)).map fun i => (k.group, k.shard, i, pick st k.group k.shard i)

/-! ## 4. event sequences -/

inductive Event where
  | addOrUpdate (g : Name) (valid : Bool) (shardNum replicas : Nat)
  | delete (g : Name) (kindGroup : Bool)
  | init (gs : List GroupSpec)
  | addNode (n : Name) (labelsMatch : Bool)
  | removeNode (n : Name)
  deriving DecidableEq, Repr

def step (st : Sel) : Event → Sel
  | .addOrUpdate g v n r => onAddOrUpdate st g v n r
  | .delete g k => onDelete st g k
  | .init gs => onInit st gs
  | .addNode n m => addNode st n m
  | .removeNode n => removeNode st n

def step_legacy (st : Sel) : Event → Sel
  | .addNode n m => addNode_legacy st n m
  | e => step st e

def run (es : List Event) : Sel := es.foldl step Sel.empty
def run_legacy (es : List Event) : Sel := es.foldl step_legacy Sel.empty

/-! ### `clusterNodeService` (banyand/liaison/grpc/node.go) in front of the selector -/

/-- `OnAddOrUpdate`/`OnDelete` for `KindNode`: an event for a node without a name never reaches the selector. -/
def svcEvent : Event → List Event
  | .addNode n m => if n = [] then [] else [.addNode n m]
  | .removeNode n => if n = [] then [] else [.removeNode n]
  | e => [e]

def dedup : List Name → List Name
  | [] => []
  | x :: xs => if xs.contains x then dedup xs else x :: dedup xs

def PickResult.node? : PickResult → Option Name
  | .node n => some n
  | _ => none

/-- `LocateAll(group, shard, copies)`: the distinct nodes of replicas `0..copies-1`, sorted; the first failing
    `Locate` aborts with its error. (`copies < 1` is rejected by the caller-facing check and not modelled.) -/
def locateAll (st : Sel) (g : Name) (s copies : Nat) : Except PickResult (List Name) :=
  let rs := (List.range copies).map (pick st g s)
  match rs.find? (fun p => p.node?.isNone) with
  | some e => .error e
  | none => .ok (sortBy lexLt (dedup (rs.filterMap PickResult.node?)))

/-! ## 5. specification side: the topology a coordinator has been told about

Independent of lists and sorting: which groups exist with how many shards/replicas, which nodes are live. -/

structure Topo where
  shards : Name → Nat          -- 0 = group unknown (or known with no shard)
  replicas : Name → Nat
  node : Name → Bool

def Topo.empty : Topo := { shards := fun _ => 0, replicas := fun _ => 0, node := fun _ => false }

def upd {β : Type} (f : Name → β) (g : Name) (v : β) : Name → β := fun x => if x = g then v else f x

/-- the listing entry that describes group `g` (the registry is keyed by name) -/
def specOf (gs : List GroupSpec) (g : Name) : Option GroupSpec := gs.find? fun sp => sp.valid && sp.name == g

def Topo.step (T : Topo) : Event → Topo
  | .addOrUpdate g true n r => { T with shards := upd T.shards g n, replicas := upd T.replicas g r }
  | .addOrUpdate _ false _ _ => T
  | .delete g true => { T with shards := upd T.shards g 0 }
  | .delete _ false => T
  | .init gs =>
    { T with shards := fun g => ((specOf gs g).map (·.shardNum)).getD 0,
             replicas := fun g => ((specOf gs g).map (·.replicas)).getD 0 }
  | .addNode n true => { T with node := upd T.node n true }
  | .addNode _ false => T
  | .removeNode n => { T with node := upd T.node n false }

def topoOf (es : List Event) : Topo := es.foldl Topo.step Topo.empty

/-- `(g, s, r)` is a shard of the topology -/
def Topo.hasKey (T : Topo) (k : Key) : Prop := k.shard < T.shards k.group ∧ k.replicas = T.replicas k.group

/-- two topologies are the same: same shards (with replica counts), same live nodes -/
def Topo.Same (T₁ T₂ : Topo) : Prop := (∀ k, T₁.hasKey k ↔ T₂.hasKey k) ∧ (∀ n, T₁.node n = T₂.node n)

/-- the registry never lists two (valid) groups with the same name -/
def Event.WF : Event → Prop
  | .init gs => ((gs.filter fun g => g.valid).map (·.name)).Nodup
  | _ => True

/-- The canonical state for a topology: both tables strictly sorted, containing exactly the topology. -/
structure Canon (T : Topo) (st : Sel) : Prop where
  lookup_sorted : st.lookup.Pairwise (fun a b => keyLt a b = true)
  lookup_mem : ∀ k, k ∈ st.lookup ↔ T.hasKey k
  nodes_sorted : st.nodes.Pairwise (fun a b => lexLt a b = true)
  nodes_mem : ∀ n, n ∈ st.nodes ↔ T.node n = true

/-- The canonical state computed from any listing of a topology (groups in any order, nodes in any order). -/
def canonOf (gs : List GroupSpec) (ns : List Name) : Sel :=
  { lookup := sortBy keyLt ((gs.filter fun g => g.valid).flatMap fun g => newKeys g.name g.shardNum g.replicas),
    nodes := sortBy lexLt ns }

end Banyan.C16
