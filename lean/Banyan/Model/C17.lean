/-
C17 — part transfer between nodes. L1 models mirroring

  /repo/banyand/queue/pub/chunked_sync.go   streamPartsAsChunks / sendChunk (sender chunking)
  /repo/banyand/queue/sub/chunked_sync.go   SyncPart, startOrSwitchSession, cleanupPreviousSession,
                                            processChunk{Sequential,WithReordering}, processExpectedChunk,
                                            processBufferedChunks, processPart, handleCompletion
  /repo/banyand/queue/queue.go              ChunkedSyncPartContext.Close, PartHandler / ChunkedSyncHandler
  /repo/banyand/measure/syncer.go (+ stream/trace twins), internal/storage/failed_parts_handler.go
                                            executeSyncWithRetry / RetryFailedParts / sendSyncIntroduction
  /repo/banyand/measure/introducer.go       introduceSync, snapshot.remove

The receiver is modelled twice, selected by `Cfg.legacy`: `legacy := true` is the code as written at the
pinned commit, `legacy := false` is the code after fixes/F17A.diff (the theorems are about the latter; the
former has `decide`d counterexamples in Props/C17.lean).
Core Lean only.
-/
import Banyan.Model.Util

namespace Banyan.C17

/-! ### CRC-32 (IEEE), `fmt.Sprintf("%x", crc32.ChecksumIEEE(data))` -/

def crcStep (c : Nat) : Nat := if c % 2 = 1 then (c >>> 1) ^^^ 0xEDB88320 else c >>> 1

def crcByte (c b : Nat) : Nat :=
  crcStep (crcStep (crcStep (crcStep (crcStep (crcStep (crcStep (crcStep (c ^^^ b))))))))

def crc32 (bs : List Byte) : Nat := (bs.foldl crcByte 0xFFFFFFFF) ^^^ 0xFFFFFFFF

/-- `%x`: lower-case hex without leading zeros. -/
def hexLower (n : Nat) : String := String.ofList (Nat.toDigits 16 n)

/-- The checksum string carried by a chunk. The proofs never unfold it. -/
def checksumOf (bs : List Byte) : String := hexLower (crc32 bs)

/-! ### wire types (`api/proto/banyandb/cluster/v1/rpc.proto`) -/

structure FileInfo where
  name : String
  offset : Nat
  size : Nat
  deriving DecidableEq, Repr

structure PartInfo where
  id : Nat
  ptype : String
  files : List FileInfo
  deriving DecidableEq, Repr

/-- `SyncPartRequest` carrying chunk data. `hasMeta` = the `Metadata` oneof is set (first chunk),
    `versionOk` = `checkSyncVersionCompatibility` accepts `VersionInfo`. -/
structure Chunk where
  index : Nat
  data : List Byte
  checksum : String
  parts : List PartInfo
  hasMeta : Bool
  versionOk : Bool := true
  deriving DecidableEq, Repr

inductive Msg where
  | chunk (c : Chunk)
  /-- `SyncCompletion{TotalChunks, TotalBytesSent}` -/
  | completion (totalChunks totalBytes : Nat)
  deriving DecidableEq, Repr

/-! ### sender (`pub/chunked_sync.go streamPartsAsChunks`) -/

structure SFile where
  name : String
  content : List Byte
  deriving DecidableEq, Repr

structure SPart where
  id : Nat
  ptype : String
  files : List SFile
  deriving DecidableEq, Repr

/-- A legal `io.Reader` behaviour of `fs.SeqReader`: at most `k` bytes per call (`k = 0`: unlimited);
    `io.EOF` together with a short final read (`eager`, pkg/bytes.Buffer) or only with a later empty read
    (bufio over os.File). -/
structure Reader where
  k : Nat
  eager : Bool
  deriving DecidableEq, Repr

def readLen (r : Reader) (avail remLen : Nat) : Nat :=
  let n := min avail remLen
  if 0 < r.k ∧ r.k < n then r.k else n

def readEOF (r : Reader) (avail remLen n : Nat) : Bool :=
  n == remLen && ((r.eager && decide (n < avail)) || n == 0)

/-- `fileState`: part index (with the id / part type of `parts[partIndex]`), file name, bytes not yet read. -/
structure FState where
  pidx : Nat
  id : Nat
  ptype : String
  name : String
  rem : List Byte
  deriving DecidableEq, Repr

/-- `chunkFileInfo`. -/
structure PInfo where
  pidx : Nat
  id : Nat
  ptype : String
  name : String
  offset : Nat
  size : Nat
  deriving DecidableEq, Repr

/-- The `for _, chunkFile := range chunkFileInfos` grouping loop (`currentPartIdx`, `currentPartInfo`). -/
def groupGo : Option (Nat × PartInfo) → List PInfo → List PartInfo
  | none, [] => []
  | some (_, p), [] => [p]
  | none, i :: is => groupGo (some (i.pidx, ⟨i.id, i.ptype, [⟨i.name, i.offset, i.size⟩]⟩)) is
  | some (ci, p), i :: is =>
    if i.pidx = ci then
      groupGo (some (ci, { p with files := p.files ++ [⟨i.name, i.offset, i.size⟩] })) is
    else p :: groupGo (some (i.pidx, ⟨i.id, i.ptype, [⟨i.name, i.offset, i.size⟩]⟩)) is

/-- `sendChunk` request (acknowledged with CHUNK_RECEIVED: `chunkIndex` = chunks sent so far). -/
def mkChunk (idx : Nat) (buf : List Byte) (infos : List PInfo) : Chunk :=
  { index := idx, data := buf, checksum := checksumOf buf, parts := groupGo none infos,
    hasMeta := idx == 0, versionOk := true }

/-- `if len(buffer) > 0 { sendChunk }` -/
def flush (idx : Nat) (buf : List Byte) (infos : List PInfo) : List Chunk :=
  if buf.isEmpty then [] else [mkChunk idx buf infos]

/-- One `Read` into the free space of the buffer: new buffer, file infos and file list. -/
def readStep (cap : Nat) (r : Reader) (buf : List Byte) (infos : List PInfo) (f : FState) (rest : List FState) :
    List Byte × List PInfo × List FState :=
  let avail := cap - buf.length
  let n := readLen r avail f.rem.length
  let eof := readEOF r avail f.rem.length n
  (buf ++ f.rem.take n,
   if 0 < n then infos ++ [⟨f.pidx, f.id, f.ptype, f.name, buf.length, n⟩] else infos,
   if eof then rest else { f with rem := f.rem.drop n } :: rest)

/-- The two nested loops of `streamPartsAsChunks`, one `Read` call per step (a full buffer is sent at the
    beginning of the step that follows). `idx` = `chunkIndex`; `fuel` bounds the number of `Read` calls. -/
def sendLoop (cap : Nat) (r : Reader) : Nat → Nat → List Byte → List PInfo → List FState → List Chunk
  | 0, idx, buf, infos, _ => flush idx buf infos
  | _ + 1, idx, buf, infos, [] => flush idx buf infos
  | fuel + 1, idx, buf, infos, f :: rest =>
    if cap ≤ buf.length then
      let s := readStep cap r [] [] f rest
      mkChunk idx buf infos :: sendLoop cap r fuel (idx + 1) s.1 s.2.1 s.2.2
    else
      let s := readStep cap r buf infos f rest
      sendLoop cap r fuel idx s.1 s.2.1 s.2.2

def fileStatesFrom : Nat → List SPart → List FState
  | _, [] => []
  | i, p :: ps => p.files.map (fun f => ⟨i, p.id, p.ptype, f.name, f.content⟩) ++ fileStatesFrom (i + 1) ps

def fileStates (parts : List SPart) : List FState := fileStatesFrom 0 parts

/-- Enough `Read` calls for every file: each call consumes a byte or finishes a file. -/
def sendFuel : List FState → Nat
  | [] => 0
  | f :: fs => f.rem.length + 1 + sendFuel fs

/-- The data chunks `streamPartsAsChunks` sends for `parts` with `chunkSize = cap`. -/
def senderChunks (cap : Nat) (r : Reader) (parts : List SPart) : List Chunk :=
  sendLoop cap r (sendFuel (fileStates parts)) 0 [] [] (fileStates parts)

def totalBytes (cs : List Chunk) : Nat := (cs.map (·.data.length)).sum

/-- Everything the sender puts on the stream: data chunks, then (`if totalChunks > 0`) the completion. -/
def senderMsgs (cap : Nat) (r : Reader) (parts : List SPart) : List Msg :=
  let cs := senderChunks cap r parts
  cs.map Msg.chunk ++ (if cs.isEmpty then [] else [Msg.completion cs.length (totalBytes cs)])

/-! ### receiver: the handler side (recording `ChunkedSyncHandler`; "the shard") -/

abbrev Key := String × String     -- (part type, file name)

/-- `HandleFileChunk`: append to the file `(PartType, FileName)` of the open part. -/
def writeKey (k : Key) (bs : List Byte) : List (Key × List Byte) → List (Key × List Byte)
  | [] => [(k, bs)]
  | (k', v) :: rest => if k' = k then (k', v ++ bs) :: rest else (k', v) :: writeKey k bs rest

structure IPart where
  id : Nat
  files : List (Key × List Byte)
  deriving DecidableEq, Repr

/-- `session.partCtx` together with its `Handler`. -/
structure OpenPart where
  id : Nat
  ptype : String
  files : List (Key × List Byte)
  deriving DecidableEq, Repr

structure Core where
  /-- parts made visible by `FinishSync` (`tsTable.mustAddFilePart`) -/
  installed : List IPart := []
  cur : Option OpenPart := none
  /-- open parts removed by `Close` (`MustRMAll(partPath)`) -/
  discarded : Nat := 0
  deriving DecidableEq, Repr

/-- What the part loop of `processExpectedChunk` does before `processPart`: a new id finishes the current
    part and creates a handler; same id with another part type calls `NewPartType`. -/
def enter (h : Core) (id : Nat) (pt : String) : Core :=
  match h.cur with
  | none => { h with cur := some ⟨id, pt, []⟩ }
  | some o =>
    if o.id = id then { h with cur := some { o with ptype := pt } }
    else { h with installed := h.installed ++ [⟨o.id, o.files⟩], cur := some ⟨id, pt, []⟩ }

def write (h : Core) (name : String) (bs : List Byte) : Core :=
  match h.cur with
  | none => h
  | some o => { h with cur := some { o with files := writeKey (o.ptype, name) bs o.files } }

/-- `Handler.FinishSync()` -/
def finish (h : Core) : Core :=
  match h.cur with
  | none => h
  | some o => { h with installed := h.installed ++ [⟨o.id, o.files⟩], cur := none }

/-- `partCtx.Close()` on a part that was not finished. -/
def close (h : Core) : Core :=
  match h.cur with
  | none => h
  | some _ => { h with cur := none, discarded := h.discarded + 1 }

/-- `processPart`: the slice of the chunk that belongs to a file (`none`: "file data not in this chunk"). -/
def sliceFile (data : List Byte) (fi : FileInfo) : Option (List Byte) :=
  if data.length ≤ fi.offset then none
  else some ((data.drop fi.offset).take (min fi.size (data.length - fi.offset)))

def applyFiles (data : List Byte) (h : Core) : List FileInfo → Core
  | [] => h
  | fi :: fis =>
    match sliceFile data fi with
    | none => applyFiles data h fis
    | some bs => applyFiles data (write h fi.name bs) fis

def applyParts (data : List Byte) (h : Core) : List PartInfo → Core
  | [] => h
  | p :: ps => applyParts data (applyFiles data (enter h p.id p.ptype) p.files) ps

/-- Effect of an accepted chunk on the shard. -/
def applyChunk (h : Core) (c : Chunk) : Core := applyParts c.data h c.parts

/-! ### receiver: event log of handler calls (observed by the driver's recording handler) -/

def logEnter (h : Core) (id : Nat) (pt : String) : List String :=
  match h.cur with
  | none => [s!"N{id}.{pt}"]
  | some o =>
    if o.id = id then (if o.ptype = pt then [] else [s!"T{pt}"])
    else ["F", s!"N{id}.{pt}"]

def logFiles (data : List Byte) (pt : String) : List FileInfo → List String
  | [] => []
  | fi :: fis =>
    match sliceFile data fi with
    | none => logFiles data pt fis
    | some bs => s!"W{pt}/{fi.name}:{bs.length}" :: logFiles data pt fis

def logParts (data : List Byte) (h : Core) : List PartInfo → List String
  | [] => []
  | p :: ps =>
    logEnter h p.id p.ptype ++ logFiles data p.ptype p.files ++
      logParts data (applyFiles data (enter h p.id p.ptype) p.files) ps

/-! ### receiver: per-part progress (`partsProgress`, keyed by the position inside `PartsInfo`) -/

structure Progress where
  total : Nat
  received : Nat
  completed : Bool
  deriving DecidableEq, Repr

def partSizes (data : List Byte) (p : PartInfo) : Nat × Nat :=
  ((p.files.map (·.size)).sum,
   (p.files.map (fun fi => match sliceFile data fi with | none => 0 | some bs => bs.length)).sum)

def updProgress (data : List Byte) : List PartInfo → List Progress → List Progress
  | [], pr => pr
  | p :: ps, [] =>
    let (t, r) := partSizes data p
    ⟨t, r, r == t⟩ :: updProgress data ps []
  | p :: ps, q :: qs =>
    let (t, r) := partSizes data p
    ⟨q.total + t, q.received + r, q.received + r == q.total + t⟩ :: updProgress data ps qs

/-! ### receiver: the session machine -/

structure Cfg where
  reorder : Bool := true
  maxBuf : Nat := 10
  maxGap : Nat := 5
  /-- `true`: the code at the pinned commit; `false`: after fixes/F17A.diff -/
  legacy : Bool := false
  deriving DecidableEq, Repr

structure Session where
  expected : Nat := 0
  /-- `chunkBuffer.chunks` (a map: one entry per index) -/
  buffer : List Chunk := []
  chunksReceived : Nat := 0
  totalReceived : Nat := 0
  progress : List Progress := []
  deriving DecidableEq, Repr

structure RState where
  sess : Option Session := none
  core : Core := {}
  acks : List Nat := []
  log : List String := []
  deriving DecidableEq, Repr

structure SyncResult where
  success : Bool
  totalBytes : Nat
  chunks : Nat
  parts : Nat
  deriving DecidableEq, Repr

structure Outcome where
  acks : List Nat
  /-- `SyncPart` returned nil -/
  ok : Bool
  result : Option SyncResult
  core : Core
  log : List String
  deriving DecidableEq, Repr

def stReceived : Nat := 1
def stMismatch : Nat := 2
def stOutOfOrder : Nat := 3
def stNoSession : Nat := 4
def stComplete : Nat := 5
def stVersion : Nat := 6

def ack (st : RState) (code : Nat) : RState := { st with acks := st.acks ++ [code] }

/-- `processExpectedChunk`: `(accepted, state, session)`. -/
def processExpected (st : RState) (s : Session) (c : Chunk) : Bool × RState × Session :=
  if checksumOf c.data ≠ c.checksum then (false, ack st stMismatch, s)
  else
    let s' := { s with totalReceived := s.totalReceived + c.data.length,
                       chunksReceived := s.chunksReceived + 1,
                       progress := updProgress c.data c.parts s.progress }
    let st' := { st with core := applyChunk st.core c, log := st.log ++ logParts c.data st.core c.parts }
    (true, ack st' stReceived, s')

def bufFind (buf : List Chunk) (i : Nat) : Option Chunk := buf.find? (·.index == i)
def bufErase (buf : List Chunk) (i : Nat) : List Chunk := buf.filter (·.index != i)

/-- `processBufferedChunks` (at most one iteration per buffered chunk). -/
def processBuffered (cfg : Cfg) : Nat → RState → Session → RState × Session
  | 0, st, s => (st, s)
  | fuel + 1, st, s =>
    match bufFind s.buffer s.expected with
    | none => (st, s)
    | some c =>
      let s1 := { s with buffer := bufErase s.buffer s.expected }
      let (accepted, st2, s2) := processExpected st s1 c
      if !accepted && !cfg.legacy then (st2, s2)
      else processBuffered cfg fuel st2 { s2 with expected := s2.expected + 1 }

/-- `processChunkWithReordering` -/
def processReorder (cfg : Cfg) (st : RState) (s : Session) (c : Chunk) : RState × Session :=
  if c.index = s.expected then
    let (accepted, st1, s1) := processExpected st s c
    if !accepted && !cfg.legacy then (st1, s1)
    else processBuffered cfg s1.buffer.length st1 { s1 with expected := s1.expected + 1 }
  else if s.expected < c.index then
    if cfg.maxGap < c.index - s.expected then (ack st stOutOfOrder, s)
    else if cfg.maxBuf ≤ s.buffer.length then (ack st stOutOfOrder, s)
    else (ack st stReceived, { s with buffer := c :: bufErase s.buffer c.index })
  else (ack st stReceived, s)

/-- `processChunkSequential` -/
def processSequential (st : RState) (s : Session) (c : Chunk) : RState × Session :=
  if c.index ≠ s.chunksReceived then (ack st stOutOfOrder, s)
  else
    let (_, st1, s1) := processExpected st s c
    (st1, s1)

/-- `processChunk` -/
def processChunk (cfg : Cfg) (st : RState) (s : Session) (c : Chunk) : RState × Session :=
  if !c.versionOk then (ack st stVersion, s)
  else if cfg.reorder then processReorder cfg st s c
  else processSequential st s c

/-- `startOrSwitchSession` / `cleanupPreviousSession` -/
def startSession (cfg : Cfg) (st : RState) : RState :=
  match st.sess with
  | none => { st with sess := some {} }
  | some _ =>
    match st.core.cur with
    | none => { st with sess := some {} }
    | some _ =>
      if cfg.legacy then
        { st with sess := some {}, core := finish st.core, log := st.log ++ ["F", "X"] }
      else
        { st with sess := some {}, core := close st.core, log := st.log ++ ["X"] }

/-- The deferred cleanup of `SyncPart`. -/
def finalize (st : RState) (ok : Bool) (res : Option SyncResult) : Outcome :=
  match st.sess, st.core.cur with
  | some _, some _ => ⟨st.acks, ok, res, close st.core, st.log ++ ["X"]⟩
  | _, _ => ⟨st.acks, ok, res, st.core, st.log⟩

/-- `handleCompletion` -/
def handleCompletion (cfg : Cfg) (st : RState) (s : Session) (totalChunks totalBytes : Nat) : Outcome :=
  -- fixes/F17A.diff: chunks still buffered always fail the completion; the sender's totals are compared only
  -- when the completion announces them (a completion without totals keeps the old behaviour)
  if !cfg.legacy && (!s.buffer.isEmpty ||
      ((totalChunks != 0 || totalBytes != 0) && (totalChunks != s.chunksReceived || totalBytes != s.totalReceived))) then
    finalize st false none
  else
    let st1 := match st.core.cur with
      | none => st
      | some _ => { st with core := finish st.core, log := st.log ++ ["F"] }
    let res : SyncResult := ⟨s.progress.all (·.completed), s.totalReceived, s.chunksReceived, s.progress.length⟩
    finalize (ack st1 stComplete) true (some res)

/-- The receive loop of `SyncPart`; the end of the list is `io.EOF`. -/
def recvLoop (cfg : Cfg) : RState → List Msg → Outcome
  | st, [] => finalize st true none
  | st, Msg.completion tc tb :: _ =>
    match st.sess with
    | none => finalize (ack st stNoSession) true none
    | some s => handleCompletion cfg st s tc tb
  | st, Msg.chunk c :: ms =>
    let st := if c.hasMeta then startSession cfg st else st
    match st.sess with
    | none => finalize (ack st stNoSession) true none
    | some s =>
      let (st', s') := processChunk cfg st s c
      recvLoop cfg { st' with sess := some s' } ms

/-- `SyncPart` on a shard that already holds `installed0`. -/
def recvFrom (cfg : Cfg) (installed0 : List IPart) (ms : List Msg) : Outcome :=
  recvLoop cfg { core := { installed := installed0 } } ms

def recv (cfg : Cfg) (ms : List Msg) : Outcome := recvFrom cfg [] ms

/-! ### what the receiver should end up with -/

/-- Whole-file events of a part list: `(id, ptype, name, content)` for every non-empty file
    (the sender never announces an empty file). -/
def wholeEvents (parts : List SPart) : List (Nat × String × String × List Byte) :=
  parts.flatMap fun p => (p.files.filter (fun f => !f.content.isEmpty)).map fun f => (p.id, p.ptype, f.name, f.content)

def applyEvent (h : Core) (e : Nat × String × String × List Byte) : Core :=
  write (enter h e.1 e.2.1) e.2.2.1 e.2.2.2

/-- The shard after an exact transfer of `parts`: consecutive parts with the same id form one installed
    part (trace: sidx parts + core part), files keyed by (part type, name) with the sender's bytes. -/
def installWhole (installed0 : List IPart) (parts : List SPart) : List IPart :=
  (finish ((wholeEvents parts).foldl applyEvent { installed := installed0 })).installed

/-! ### sender side of the queue (`syncer.go`, `failed_parts_handler.go`, `introducer.go`) -/

/-- One `syncPartsToNodesHelper` call for one node: `err` (stream/transport error: every part counts as
    failed) or the ids the sender itself reports in `FailedParts`. -/
inductive SyncAttempt where
  | err
  | done (failed : List Nat)
  deriving DecidableEq, Repr

def attemptFailed (ids : List Nat) : SyncAttempt → List Nat
  | .err => ids
  | .done failed => failed

/-- The environment of one `syncSnapshot` run: for every node the outcome of the initial sync and, for each
    part id, the outcomes of the (at most `DefaultMaxRetries`) retries; and whether hard-linking a part into
    `failed-parts/` succeeds. -/
structure SyncEnv where
  nodes : List String
  initial : String → SyncAttempt
  /-- `retry node partId attempt` (attempt = 1..3): does the part fail again on that node -/
  retryFails : String → Nat → Nat → Bool
  copyOk : Nat → Bool

def maxRetries : Nat := 3

/-- `performInitialSync`: per node the failed ids (`perNodeFailures`, nodes without failures omitted). -/
def perNodeFailures (env : SyncEnv) (ids : List Nat) : List (String × List Nat) :=
  (env.nodes.map fun n => (n, attemptFailed ids (env.initial n))).filter fun x => !x.2.isEmpty

/-- `createRetrySyncFunc` for one id and attempt: the part is resent to every node that had it failed;
    the attempt fails if it fails on one of them. -/
def retryAttemptFails (env : SyncEnv) (pnf : List (String × List Nat)) (id attempt : Nat) : Bool :=
  pnf.any fun x => x.2.contains id && env.retryFails x.1 id attempt

/-- `retryPartWithBackoff`: `true` when some attempt ≤ `maxRetries` succeeds. -/
def retrySucceeds (env : SyncEnv) (pnf : List (String × List Nat)) (id : Nat) : Nat → Nat → Bool
  | 0, _ => false
  | fuel + 1, attempt =>
    if !retryAttemptFails env pnf id attempt then true else retrySucceeds env pnf id fuel (attempt + 1)

inductive PartFate where
  /-- every node acknowledged it (initially or on a retry) -/
  | delivered
  /-- retries exhausted, part hard-linked into `failed-parts/` -/
  | preserved
  /-- retries exhausted and the copy failed -/
  | lost
  deriving DecidableEq, Repr

def partFate (env : SyncEnv) (ids : List Nat) (id : Nat) : PartFate :=
  let pnf := perNodeFailures env ids
  if !(pnf.any fun x => x.2.contains id) then .delivered
  else if retrySucceeds env pnf id maxRetries 1 then .delivered
  else if env.copyOk id then .preserved else .lost

/-- Liaison shard: parts in the current snapshot and the `failed-parts/` directory. -/
structure Liaison where
  snapshot : List Nat
  failedDir : List Nat
  deriving DecidableEq, Repr

/-- `syncSnapshot`: `none` = returned an error before `sendSyncIntroduction` (no nodes): snapshot untouched.
    Otherwise every part of the batch is removed by `introduceSync` (`snapshot.remove`). -/
def syncSnapshot (env : SyncEnv) (l : Liaison) (batch : List Nat) : Option Liaison :=
  if batch.isEmpty then some l
  else if env.nodes.isEmpty then none
  else some { snapshot := l.snapshot.filter (fun p => !batch.contains p),
              failedDir := l.failedDir ++ batch.filter (fun p => partFate env batch p == .preserved) }

end Banyan.C17
