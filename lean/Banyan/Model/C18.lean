/-
C18 — properties are last-writer-wins and replicas converge. Executable model mirroring
  /repo/banyand/property/db/shard.go        (update, deleteFromTime, search, repair, buildNotDeletedDocIDList)
  /repo/banyand/property/db/db.go           (Update / Delete / Query / Repair: route to the shard)
  /repo/banyand/property/db/repair_gossip.go (queryProperty, processPropertySync, processPropertyMissing and the
                                             client's handling of a PropertySync: one leaf of one exchange)
  /repo/banyand/property/listener.go        (update / delete / query / repair listeners: time.Now() per node)
  /repo/banyand/liaison/grpc/property.go    (Apply, findPrevAndOlderProperties, mergeProperty, replaceProperty,
                                             Delete, Query, simpleDedupWithoutSort, sortedQueryWithDedup,
                                             repairPropertyIfNeed, repairQueue.processTask, remove)
  /repo/pkg/index/inverted/inverted_series.go (UpdateSeriesBatch: bluge `Update(id, doc)` = replace by id)

The model is of the code WITH fix F18a (`shard.repair`: on the same revision a tombstone is newer than the
live document and the later tombstone wins — `>=` instead of `==`; the liaison's `newerThan` uses the same order).
The behaviour at the pinned commit is kept as `repairLegacy` / `simpleDedupLegacy…` for the counterexample theorems.

Storage level: a shard is the LIST of its bluge documents in document-number order (= the order `AllMatches`
delivers them). One bluge batch = `batchUpdate`: every stored document whose id occurs in the batch is removed, then
ALL documents of the batch are appended — two documents of one batch with the same id are both stored. This happens
when `shard.repair` puts a tombstone onto the live document of the same revision (the live one is re-written as
deleted AND the incoming one inserted; upstream `TestRepair/repair deleted version property with same data` asserts
the two documents). `buildDeleteFromTimeDocuments` looks the listed ids up with limit `len(ids)` (`hits`).

Time: `time.Now()` of `Apply` is the argument `now`; the delete times taken by the data nodes
(`deleteListener.Rev`, `shard.repair`) are drawn from a logical counter `clk` in the order in which the real
code draws them (only their relative order is ever compared).
-/
import Banyan.Model.Util

namespace Banyan.C18

abbrev Tags := List (String × String)

/-- every search the model abstracts (`Apply`'s and `Query`'s default limit, `shard.repair`, `queryProperty`) is
    limited to this many documents; the model assumes fewer stored revisions per key (tied in Tie/C18.lean). -/
def searchLimit : Nat := 100

/-- shape facts of the code the model mirrors (tied to the source text in Tie/C18.lean). -/
def repairKeepsLaterTombstone : Bool := true     -- `…deleteTime >= deleteTime` in `shard.repair` (fix F18a)
def repairSkipsReplacedDoc : Bool := false       -- `buildNotDeletedDocIDList` does NOT skip the id being replaced
def liaisonUsesNewerThan : Bool := true          -- `newerThan` in `findPrevAndOlderProperties` and both de-dups (fix F18a)

/-- One bluge document = one revision of one property. `key` stands for `group/name/id` (group and name are
    fixed in the driver), the document id is `(key, rev)` (`GetPropertyID`), `del = 0` means not deleted. -/
structure Doc where
  key : String
  rev : Nat
  created : Nat
  tags : Tags
  del : Nat
  deriving DecidableEq, Repr, Inhabited

abbrev Shard := List Doc

abbrev DocId := String × Nat

def Doc.id (d : Doc) : DocId := (d.key, d.rev)

/-- `UpdateSeriesBatch` with one document: bluge `batch.Update(id, doc)` deletes every document with that id
    and inserts the new one. -/
def upsert (s : Shard) (d : Doc) : Shard := s.filter (fun x => x.id != d.id) ++ [d]

/-- `shard.search` with the query built for one entity (all revisions, deleted ones included). -/
def docsOf (s : Shard) (k : String) : List Doc := s.filter (fun d => d.key == k)

/-- one bluge batch of `Update(id, doc)` operations. -/
def batchUpdate (s : Shard) (docs : List Doc) : Shard :=
  s.filter (fun x => !(docs.any fun y => y.id == x.id)) ++ docs

/-- `buildDeleteFromTimeDocuments`: exact-id search with limit `len(docID)`: the first `ids.length` stored documents
    (document-number order) whose id is listed. -/
def hits (s : Shard) (ids : List DocId) : List Doc := (s.filter fun x => ids.contains x.id).take ids.length

def tomb (t : Nat) (x : Doc) : Doc := { x with del := t }

/-- `shard.deleteFromTime`: the documents found for the listed ids are rewritten with `deleteTime = t`
    (also when they already carried a delete time), in one batch. -/
def markDeleted (s : Shard) (ids : List DocId) (t : Nat) : Shard := batchUpdate s ((hits s ids).map (tomb t))

/-- the `latestProperty` loop in `repairGossipBase.queryProperty`: the document with the highest revision, the
    FIRST one in search order among equals (`queried.timestamp > latestProperty.timestamp`). -/
def latestOf : List Doc → Option Doc
  | [] => none
  | d :: ds =>
    match latestOf ds with
    | none => some d
    | some e => if e.rev > d.rev then some e else some d

def top (s : Shard) (k : String) : Option Doc := latestOf (docsOf s k)

/-- `sort.Sort(queryPropertySlice)` + last element in `shard.repair`: among documents of the highest revision the
    LAST one in search order (the sort is an insertion sort, hence stable, for up to 12 documents). -/
def latestLast : List Doc → Option Doc
  | [] => none
  | d :: ds =>
    match latestLast ds with
    | none => some d
    | some e => if e.rev ≥ d.rev then some e else some d

def topLast (s : Shard) (k : String) : Option Doc := latestLast (docsOf s k)

/-- `newerThan` (fix F18a): revision first; on the same revision the greater delete time. -/
def newer (p q : Doc) : Bool := p.rev > q.rev || (p.rev == q.rev && p.del > q.del)

/-! ### shard.repair -/

/-- `buildNotDeletedDocIDList`: ids of the live documents of the entity. -/
def liveIds (docs : List Doc) : List DocId := (docs.filter fun d => d.del == 0).map Doc.id

/-- the batch `shard.repair` writes when it accepts: the live documents found are rewritten as deleted at `t`, then
    the incoming document. -/
def repairBatch (s : Shard) (d : Doc) (t : Nat) : List Doc :=
  (hits s (liveIds (docsOf s d.key))).map (tomb t) ++ [d]

/-- `shard.repair(id, property, deleteTime)` (fixed); `t` is the `time.Now()` used to tombstone older documents.
    Returns the new shard, `updated`, and `selfNewer`. -/
def repair (s : Shard) (d : Doc) (t : Nat) : Shard × Bool × Option Doc :=
  match topLast s d.key with
  | none => (upsert s d, true, none)
  | some l =>
    if l.rev > d.rev || (l.rev == d.rev && l.del ≥ d.del) then (s, false, some l)
    else (batchUpdate s (repairBatch s d t), true, none)

/-- `shard.repair` at the pinned commit: refuses only an equal `(rev, deleteTime)`; otherwise the incoming
    document overwrites — a live document overwrites a tombstone of the same revision. -/
def repairLegacy (s : Shard) (d : Doc) (t : Nat) : Shard × Bool × Option Doc :=
  match topLast s d.key with
  | none => (upsert s d, true, none)
  | some l =>
    if l.rev > d.rev || (l.rev == d.rev && l.del == d.del) then (s, false, some l)
    else (batchUpdate s (repairBatch s d t), true, none)

/-! ### one leaf of one gossip exchange (`repair_gossip.go`) -/

/-- Message flow for the leaf `k` between client shard `cl` and server shard `sv` once the tree comparison has
    singled it out. Returns both shards, the trace (who repaired, whether it changed) and the new clock. -/
def gossipLeaf (cl sv : Shard) (k : String) (clk : Nat) : Shard × Shard × String × Nat :=
  match top cl k, top sv k with
  | none, none => (cl, sv, "-", clk)
  | none, some sd =>
    -- sendPropertyMissing → processPropertyMissing → client repairs (From = MISSING: nothing is sent back)
    let (cl', u, _) := repair cl sd clk
    (cl', sv, "mC" ++ (if u then "1" else "0"), clk + 1)
  | some cd, _ =>
    if topLast sv k == topLast cl k then (cl, sv, "=", clk)     -- equal leaf hash (built from the last newest document): not selected
    else
      -- queryPropertyAndSendToServer → processPropertySync
      let (sv', u, nw) := repair sv cd clk
      match u, nw with
      | false, some n =>
        -- server answers with its newer document; the client repairs
        let (cl', u', nw') := repair cl n (clk + 1)
        match u', nw' with
        | false, some n' =>
          -- client sends its newer one again; if the server refuses again the two messages repeat for ever ("~")
          let (sv'', u'', _) := repair sv' n' (clk + 2)
          (cl', sv'', "S0C0S" ++ (if u'' then "1" else "0~"), clk + 3)
        | _, _ => (cl', sv', "S0C" ++ (if u' then "1" else "0"), clk + 2)
      | _, _ => (cl, sv', "S" ++ (if u then "1" else "0"), clk + 1)

/-! ### liaison: Apply -/

/-- `mergeProperty`: the request's tags, then the previous tags whose key the request does not carry, in the
    previous order. -/
def mergeTags (cur prev : Tags) : Tags := cur ++ prev.filter fun t => !(cur.any fun c => c.1 == t.1)

/-- `findPrevAndOlderProperties`, first result: the newest document over all nodes' answers. -/
def findPrev : List Doc → Option Doc
  | [] => none
  | d :: ds =>
    match findPrev ds with
    | none => some d
    | some e => if newer d e then some d else some e

inductive Strategy where
  | merge
  | replace
  deriving DecidableEq, Repr

structure Cluster where
  reps : List Shard
  clk : Nat
  deriving Repr

/-- answers of the reachable data nodes to a property query for the given keys
    (`queryProperties`: Broadcast + `queryListener`), tagged with the node index. -/
def gatherFrom (reps : List Shard) (up : Nat → Bool) (keys : List String) (i : Nat) : List (Nat × Doc) :=
  match reps with
  | [] => []
  | s :: rest =>
    (if up i then (s.filter fun d => keys.contains d.key).map (fun d => (i, d)) else []) ++
      gatherFrom rest up keys (i + 1)

def gather (c : Cluster) (up : Nat → Bool) (keys : List String) : List (Nat × Doc) :=
  gatherFrom c.reps up keys 0

def anyUp (n : Nat) (up : Nat → Bool) : Bool := (List.range n).any up

/-- apply `f i s` to every reachable replica. -/
def mapUp (reps : List Shard) (up : Nat → Bool) (f : Nat → Shard → Shard) (i : Nat) : List Shard :=
  match reps with
  | [] => []
  | s :: rest => (if up i then f i s else s) :: mapUp rest up f (i + 1)

/-- `remove(ids)`: Broadcast of an `InternalDeleteRequest`; node `i` uses its own `time.Now()` (`clk + i`). -/
def removeIds (c : Cluster) (up : Nat → Bool) (ids : List DocId) : Cluster :=
  { reps := mapUp c.reps up (fun i s => markDeleted s ids (c.clk + i)) 0, clk := c.clk + c.reps.length }

/-- `if prevPropertyWithMetadata != nil && prevPropertyWithMetadata.deletedTime <= 0 { prev = … }` -/
def liveOnly : Option Doc → Option Doc
  | some p => if p.del == 0 then some p else none
  | none => none

inductive ApplyResult where
  | err
  | ok (created : Bool) (tagsNum : Nat)
  deriving DecidableEq, Repr

/-- the document `replaceProperty` writes. -/
def newDoc (k : String) (strat : Strategy) (tags : Tags) (now : Nat) (prevLive : Option Doc) : Doc :=
  match prevLive with
  | none => { key := k, rev := now, created := now, tags := tags, del := 0 }
  | some p =>
    { key := k, rev := now, created := p.created,
      tags := (match strat with | .merge => mergeTags tags p.tags | .replace => tags), del := 0 }

/-- `propertyServer.Apply` with `start = now` (fields of the request validated by the caller). -/
def applyOp (c : Cluster) (up : Nat → Bool) (k : String) (strat : Strategy) (tags : Tags) (now : Nat) :
    Cluster × ApplyResult :=
  if tags.isEmpty then (c, .err)                                   -- validatePropertyRequest
  else
    let items := (gather c up [k]).map Prod.snd
    let prev := findPrev items
    let older := (items.filter fun d => d.del == 0).map Doc.id
    let prevLive := liveOnly prev
    if !anyUp c.reps.length up then (c, .err)                       -- "failed to publish property update to any node"
    else
      let d := newDoc k strat tags now prevLive
      let c1 : Cluster := { c with reps := mapUp c.reps up (fun _ s => upsert s d) 0 }
      -- deferred clean-up of the older properties
      let c2 := if older.isEmpty then c1 else removeIds c1 up older
      (c2, .ok prevLive.isNone d.tags.length)

/-! ### liaison: Delete -/

inductive DeleteResult where
  | err
  | ok (deleted : Bool)
  deriving DecidableEq, Repr

def deleteOp (c : Cluster) (up : Nat → Bool) (k : String) : Cluster × DeleteResult :=
  if !anyUp c.reps.length up then (c, .ok false)                    -- len(nodeProperties) == 0
  else
    let items := (gather c up [k]).map Prod.snd
    let ids := (items.filter fun d => d.del == 0).map Doc.id
    if ids.isEmpty then (c, .err)                                    -- deleteListener: "id is empty"
    else (removeIds c up ids, .ok true)

/-! ### liaison: Query and the two de-duplications -/

/-- `propertyWithCount`: the winning document and the nodes that hold this revision. -/
structure Entry where
  doc : Doc
  nodes : List Nat
  sorted : Option String := none
  deriving DecidableEq, Repr

def lookupE (es : List Entry) (k : String) : Option Entry := es.find? fun e => e.doc.key == k

def replaceE (es : List Entry) (e : Entry) : List Entry :=
  es.map fun x => if x.doc.key == e.doc.key then e else x

def addNode (ns : List Nat) (n : Nat) : List Nat := if ns.contains n then ns else ns ++ [n]

/-- one iteration of the loop body of `simpleDedupWithoutSort` (fixed). -/
def simpleStep (seen : List Entry) (it : Nat × Doc) : List Entry :=
  let (n, p) := it
  match lookupE seen p.key with
  | none => seen ++ [{ doc := p, nodes := [n] }]
  | some e =>
    if e.doc.rev < p.rev then replaceE seen { doc := p, nodes := [n] }
    else if e.doc.rev == p.rev then
      replaceE seen { doc := (if newer p e.doc then { e.doc with del := p.del } else e.doc), nodes := addNode e.nodes n }
    else seen

def simpleDedup (items : List (Nat × Doc)) : List Entry := items.foldl simpleStep []

/-- the loop body at the pinned commit: on an equal revision the first one seen stays, whatever its delete time. -/
def simpleStepLegacy (seen : List Entry) (it : Nat × Doc) : List Entry :=
  let (n, p) := it
  match lookupE seen p.key with
  | none => seen ++ [{ doc := p, nodes := [n] }]
  | some e =>
    if e.doc.rev < p.rev then replaceE seen { doc := p, nodes := [n] }
    else if e.doc.rev == p.rev then replaceE seen { e with nodes := addNode e.nodes n }
    else seen

def simpleDedupLegacy (items : List (Nat × Doc)) : List Entry := items.foldl simpleStepLegacy []

/-- `bytes.Compare` on the sort values; a document without the sort tag sorts after every value in both
    directions (what the data nodes deliver). `lt a b` = "a is delivered before b". -/
def svBefore (desc : Bool) (a b : Option String) : Bool :=
  match a, b with
  | some x, some y => if desc then y < x else x < y
  | some _, none => true
  | none, _ => false

/-- `findInsertPosition`: `sort.Search` for the first index whose element is not before the new value. -/
def insertPos (desc : Bool) (buf : List Entry) (v : Option String) : Nat :=
  match buf with
  | [] => 0
  | e :: rest => if svBefore desc e.sorted v then 1 + insertPos desc rest v else 0

def insertAt (buf : List Entry) (e : Entry) (pos : Nat) : List Entry := buf.take pos ++ [e] ++ buf.drop pos

/-- `findPropertyInBuffer` + removal: drop the entry of this entity. -/
def removeKey (buf : List Entry) (k : String) : List Entry := buf.filter fun e => e.doc.key != k

/-- one iteration of the merge loop of `sortedQueryWithDedup` (fixed): state = (seenIDs, resultBuffer). -/
def sortedStep (desc : Bool) (st : List Entry × List Entry) (it : Nat × Doc × Option String) : List Entry × List Entry :=
  let (seen, buf) := st
  let (n, p, sv) := it
  match lookupE seen p.key with
  | some e =>
    if p.rev == e.doc.rev then
      let e' : Entry := { e with doc := (if newer p e.doc then { e.doc with del := p.del } else e.doc), nodes := addNode e.nodes n }
      (replaceE seen e', replaceE buf e')
    else if p.rev < e.doc.rev then (seen, buf)
    else
      let ne : Entry := { doc := p, nodes := [n], sorted := sv }
      let buf' := removeKey buf p.key
      (replaceE seen ne, insertAt buf' ne (insertPos desc buf' sv))
  | none =>
    let ne : Entry := { doc := p, nodes := [n], sorted := sv }
    (seen ++ [ne], insertAt buf ne (insertPos desc buf sv))

def sortedDedup (desc : Bool) (items : List (Nat × Doc × Option String)) : List Entry :=
  (items.foldl (sortedStep desc) ([], [])).2

/-- read repair queued by `repairPropertyIfNeed`: the winner goes to every replica that does not hold its revision. -/
def missingNodes (n : Nat) (e : Entry) : List Nat := (List.range n).filter fun i => !e.nodes.contains i

/-- `repairQueue.processTask` for all queued tasks: Publish of an `InternalRepairRequest` → `repairListener` →
    `shard.repair` on every missing node that is reachable. -/
def readRepairOne (c : Cluster) (up : Nat → Bool) (e : Entry) : Cluster :=
  (missingNodes c.reps.length e).foldl (fun c i =>
    if up i then
      match c.reps[i]? with
      | some s => { reps := c.reps.set i (repair s e.doc c.clk).1, clk := c.clk + 1 }
      | none => c
    else c) c

def tasksOf (n : Nat) (winners : List Entry) : List Entry :=
  winners.filter fun e => e.nodes.length != n

structure QueryResult where
  props : List Doc          -- not deleted winners
  tasks : Nat
  deriving Repr

/-- `propertyServer.Query` without order (`simpleDedupWithoutSort`), followed by the read repairs when `rr`. -/
def queryOp (c : Cluster) (up : Nat → Bool) (keys : List String) (rr : Bool) : Cluster × QueryResult :=
  if !anyUp c.reps.length up then (c, { props := [], tasks := 0 })
  else
    let winners := simpleDedup (gather c up keys)
    let tasks := tasksOf c.reps.length winners
    let c' := if rr then tasks.foldl (fun c e => readRepairOne c up e) c else c
    (c', { props := (winners.filter fun e => e.doc.del == 0).map Entry.doc, tasks := tasks.length })

def tagValue (d : Doc) (tag : String) : Option String := (d.tags.find? fun t => t.1 == tag).map Prod.snd

/-- insertion of one delivered item into the arrival order of the k-way merge (any order of equal values is
    possible in the real merge; the driver only uses pairwise distinct values across keys). -/
def mergeInsert (desc : Bool) (x : Nat × Doc × Option String) : List (Nat × Doc × Option String) → List (Nat × Doc × Option String)
  | [] => [x]
  | y :: ys => if svBefore desc y.2.2 x.2.2 then y :: mergeInsert desc x ys else x :: y :: ys

def arrival (desc : Bool) (items : List (Nat × Doc × Option String)) : List (Nat × Doc × Option String) :=
  items.foldl (fun acc x => mergeInsert desc x acc) []

/-- `propertyServer.Query` with `order_by` (`sortedQueryWithDedup`); read repairs are run. -/
def queryOrderedOp (c : Cluster) (up : Nat → Bool) (keys : List String) (tag : String) (desc : Bool) :
    Cluster × QueryResult :=
  if !anyUp c.reps.length up then (c, { props := [], tasks := 0 })
  else
    let items := (gather c up keys).map fun (n, d) => (n, d, tagValue d tag)
    let winners := sortedDedup desc (arrival desc items)
    let tasks := tasksOf c.reps.length winners
    let c' := tasks.foldl (fun c e => readRepairOne c up e) c
    (c', { props := (winners.filter fun e => e.doc.del == 0).map Entry.doc, tasks := tasks.length })

/-! ### direct repair (`R src dst k`) and gossip (`G cl sv k`) on a cluster -/

def repairFrom (c : Cluster) (src dst : Nat) (k : String) : Cluster × Option (Bool × Option Doc) :=
  match c.reps[src]?, c.reps[dst]? with
  | some s, some t =>
    match top s k with
    | none => (c, none)
    | some d =>
      let (t', u, nw) := repair t d c.clk
      ({ reps := c.reps.set dst t', clk := c.clk + 1 }, some (u, nw))
  | _, _ => (c, none)

def gossipOp (c : Cluster) (cl sv : Nat) (k : String) : Cluster × String :=
  match c.reps[cl]?, c.reps[sv]? with
  | some a, some b =>
    if cl == sv then (c, "=") else
    let (a', b', tr, clk') := gossipLeaf a b k c.clk
    ({ reps := (c.reps.set cl a').set sv b', clk := clk' }, tr)
  | _, _ => (c, "bad")

/-! ### Merkle leaf names (`repair.go buildLeafNodeEntity` / `parseLeafNodeEntity`) -/

/-- `'/'` -/
def leafSep : Byte := 47

/-- `strings.SplitN(entity, "/", leafParts)` -/
def leafParts : Nat := 3

/-- `fmt.Sprintf("%s/%s/%s", group, name, entityID)` on UTF-8 bytes. -/
def buildLeaf (g n id : List Byte) : List Byte := g ++ [leafSep] ++ n ++ [leafSep] ++ id

/-- split at the first separator. -/
def splitFirst : List Byte → Option (List Byte × List Byte)
  | [] => none
  | c :: cs =>
    if c = leafSep then some ([], cs)
    else match splitFirst cs with
      | some (a, b) => some (c :: a, b)
      | none => none

/-- `parseLeafNodeEntity`: `strings.SplitN(entity, "/", 3)` must give three parts — the third part keeps every
    further separator. -/
def parseLeaf (e : List Byte) : Option (List Byte × List Byte × List Byte) :=
  match splitFirst e with
  | none => none
  | some (g, r) =>
    match splitFirst r with
    | none => none
    | some (n, id) => some (g, n, id)

/-- `strings.Split(entity, "/")` (all separators) — what a parse that demands exactly three parts of it would see. -/
def splitAll : List Byte → List (List Byte)
  | [] => [[]]
  | c :: cs =>
    match splitAll cs with
    | [] => [[]]
    | p :: ps => if c = leafSep then [] :: p :: ps else (c :: p) :: ps

def parseLeafSplitAll (e : List Byte) : Option (List Byte × List Byte × List Byte) :=
  match splitAll e with
  | [g, n, id] => some (g, n, id)
  | _ => none

end Banyan.C18
