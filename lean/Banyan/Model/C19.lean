/-
C19 — a file snapshot is a consistent, openable point-in-time copy.

L1 model (op level) mirroring
  /repo/banyand/measure/snapshot.go     tsTable.TakeFileSnapshot / createMetadata / currentSnapshot,
                                        snapshot.{incRef,decRef,copyAllTo,merge,remove}
                                        (stream/trace snapshot.go have the same shape)
  /repo/banyand/measure/introducer.go   introducePart / introduceFlushed / introduceMerged / replaceSnapshot
  /repo/banyand/measure/flusher.go      flush, persistSnapshot
  /repo/banyand/measure/part.go         partWrapper.decRef (directory removed at ref 0 when removable)
  /repo/banyand/measure/tstable.go      initTSTable / loadSnapshot (what opening a copy yields)
  /repo/banyand/internal/storage/segment.go   snapshotInto / snapshotOpen / snapshotClosed, incRef/DecRef,
                                        closeIfIdle, delete/performDelete
  /repo/banyand/internal/storage/tsdb.go      database.TakeFileSnapshot

Abstraction: the content of a part is the list of batch ids it covers (C01/C03 identify bytes with rows; a batch
is atomic). A part directory on disk is immutable and complete once it exists (flush/merge publish atomically at
op level; partial directories after a crash are C04's subject), so a hard link of it is the same `DiskPart`.
Reference counts are modelled by counting: `ref p = #{live snapshots containing p}` (C05's invariant (i); the
correspondence check compares this count with the real `partWrapper.ref` at every observation point), and a
directory is deleted exactly when a removable part's count reaches 0 (`gc`).
-/
import Banyan.Model.Util

namespace Banyan.C19

/-- a `partWrapper`: `mem = true` is an in-memory part (`pw.mp != nil`). A flush creates a *new* wrapper with
    the same id and `mem = false`. -/
structure PW where
  id : Nat
  mem : Bool
  batches : List Nat
  deriving DecidableEq, Repr, Inhabited

/-- a part directory. -/
structure DiskPart where
  id : Nat
  batches : List Nat
  complete : Bool
  deriving DecidableEq, Repr, Inhabited

/-- the directory a flush of `pw` writes / the directory of the file part `pw`. -/
def PW.toDisk (pw : PW) : DiskPart := ⟨pw.id, pw.batches, true⟩

structure Snap where
  epoch : Nat
  parts : List PW
  deriving DecidableEq, Repr, Inhabited

/-- one `tsTable` plus its directory. `log`/`mark` are ghost fields (introduction order of batches and the
    length of the log at the last flush) used only to state the prefix property. -/
structure Table where
  cur : Option Snap := none
  epoch : Nat := 0
  nextId : Nat := 0
  pins : List Snap := []
  removable : List Nat := []
  disk : List DiskPart := []
  manifest : Option (List Nat) := none
  manifestEpoch : Nat := 0
  log : List Nat := []
  mark : Nat := 0
  deriving Repr, Inhabited

def Snap.ids (s : Snap) : List Nat := s.parts.map (·.id)
def Snap.diskParts (s : Snap) : List PW := s.parts.filter (fun pw => !pw.mem)
def Snap.memParts (s : Snap) : List PW := s.parts.filter (·.mem)

/-- snapshots with a positive reference count: the current one and every pinned one. -/
def Table.live (t : Table) : List Snap := t.cur.toList ++ t.pins

def Snap.holdsFile (s : Snap) (id : Nat) : Bool := s.parts.any (fun pw => !pw.mem && pw.id == id)

/-- distinct snapshot *objects* with a positive count (a pin of the current snapshot is the same object). -/
def Table.liveObjs (t : Table) : List Snap := t.live.eraseDups

/-- `partWrapper.ref` of an arbitrary wrapper, by counting: every live snapshot object holds one reference on
    each of its parts, however often the snapshot itself is pinned. -/
def Table.refPW (t : Table) (pw : PW) : Nat := t.liveObjs.countP (fun s => s.parts.contains pw)

/-- `snapshot.ref` of the current snapshot object. -/
def Table.refCur (t : Table) : Nat :=
  match t.cur with
  | none => 0
  | some s => 1 + t.pins.countP (· == s)

/-- the directory of `id` goes away when the part is removable and nobody references it
    (`partWrapper.decRef`: `n <= 0 ∧ removable → go MustRMAll`). -/
def Table.dead (t : Table) (id : Nat) : Bool := t.removable.contains id && !(t.live.any (·.holdsFile id))

def Table.gc (t : Table) : Table := { t with disk := t.disk.filter (fun d => !t.dead d.id) }

/-- `replaceSnapshot(next, persisted)` followed by the release of the previous snapshot. -/
def Table.replaceSnapshot (t : Table) (parts : List PW) (persist : Bool) : Table :=
  Table.gc { t with cur := some ⟨t.epoch + 1, parts⟩, epoch := t.epoch + 1,
                    manifest := if persist then some (parts.map (·.id)) else t.manifest,
                    manifestEpoch := if persist then t.epoch + 1 else t.manifestEpoch }

/-- `mustAddMemPart` + `introducePart`. -/
def Table.introduce (t : Table) (k : Nat) : Table :=
  let id := t.nextId + 1
  let old := match t.cur with | some s => s.parts | none => []
  Table.replaceSnapshot { t with nextId := id, log := t.log ++ [k] } (old ++ [⟨id, true, [k]⟩]) false

/-- `flush` + `introduceFlushed`: every mem part of the current snapshot becomes a file part with the same id. -/
def Table.flush (t : Table) : Table :=
  match t.cur with
  | none => t
  | some s =>
    if s.memParts.isEmpty then t else
    Table.replaceSnapshot
      { t with disk := t.disk ++ s.memParts.map PW.toDisk, mark := t.log.length }
      (s.parts.map fun pw => { pw with mem := false }) true

/-- elements at the given positions, in list order, each at most once. -/
def pickAux {α : Type} (pos : List Nat) : Nat → List α → List α
  | _, [] => []
  | i, a :: as => if pos.contains i then a :: pickAux pos (i + 1) as else pickAux pos (i + 1) as

def pick {α : Type} (l : List α) (pos : List Nat) : List α := pickAux pos 0 l

/-- `mergeParts` + `introduceMerged` on the file parts at positions `pos` of the current snapshot. -/
def Table.merge (t : Table) (pos : List Nat) : Table :=
  match t.cur with
  | none => t
  | some s =>
    let sel := pick s.diskParts pos
    if sel.length < 2 then t else
    let id := t.nextId + 1
    let bs := sel.flatMap (·.batches)
    let gone := sel.map (·.id)
    Table.replaceSnapshot
      { t with nextId := id, disk := t.disk ++ [PW.toDisk ⟨id, false, bs⟩], removable := t.removable ++ gone }
      (s.parts.filter (fun pw => !gone.contains pw.id) ++ [⟨id, false, bs⟩]) true

/-- maintenance operations that may interleave with a snapshot. -/
inductive MOp where
  | introduce (k : Nat)
  | flush
  | merge (pos : List Nat)
  deriving Repr, DecidableEq

def Table.step (t : Table) : MOp → Table
  | .introduce k => t.introduce k
  | .flush => t.flush
  | .merge pos => t.merge pos

def Table.run (t : Table) (ops : List MOp) : Table := ops.foldl Table.step t

/-! ### TakeFileSnapshot, decomposed -/

/-- sub-step 1: `currentSnapshot()` (incRef under RLock). -/
def Table.pin (t : Table) (s : Snap) : Table := { t with pins := s :: t.pins }

/-- last sub-step: `defer snapshot.decRef()`. -/
def Table.unpin (t : Table) (s : Snap) : Table := Table.gc { t with pins := t.pins.erase s }

/-- a destination table directory. -/
structure Dst where
  parts : List DiskPart := []
  manifest : Option (List Nat) := none
  deriving Repr, DecidableEq, Inhabited

inductive Status where
  | noSnapshot                -- (false, ErrNoCurrentSnapshot); destination untouched
  | noDisk                    -- (false, nil): nothing linked, no manifest
  | err                       -- (false, err)
  | ok                        -- (true, nil)
  deriving Repr, DecidableEq, Inhabited

/-- result of `TakeFileSnapshot`: the status and the destination directory as it is afterwards
    (`none` = it does not exist). -/
structure Ret where
  status : Status
  dst : Option Dst
  deriving Repr, DecidableEq, Inhabited

/-- the table seen through a larger state `σ` (the table itself, or a database). -/
structure Lens (σ : Type) where
  get : σ → Table
  set : σ → Table → σ

def Lens.id : Lens Table := ⟨fun t => t, fun _ t => t⟩

/-- sub-steps 2..n+1: `CreateHardLink(part.path, dst/<name>)` for every file part of the pinned snapshot.
    `hook p` is whatever the rest of the system does immediately before the p-th file-system call of the
    procedure; `failAt = some p` makes that call fail. `CreateHardLink` fails when the source is absent.
    Result: state, parts linked so far, whether a link failed, index after the last call. -/
def linkLoop {σ : Type} (L : Lens σ) (hook : Nat → σ → σ) (failAt : Option Nat) :
    List PW → Nat → σ → List DiskPart → σ × List DiskPart × Bool × Nat
  | [], p, st, acc => (st, acc, false, p)
  | pw :: rest, p, st, acc =>
    let st := hook p st
    if failAt = some p then (st, acc, true, p + 1) else
    match (L.get st).disk.find? (fun d => d.id == pw.id) with
    | none => (st, acc, true, p + 1)
    | some d => linkLoop L hook failAt rest (p + 1) st (acc ++ [d])

/-- `createMetadata`: the manifest names every part of the pinned snapshot (also its in-memory parts,
    exactly as `persistSnapshot` does for live manifests). -/
def manifestOf (s : Snap) : List Nat := s.ids

/-- `tsTable.TakeFileSnapshot(dst)`. `dst0` is the destination directory beforehand (`none` when it does not
    exist yet, `some {}` for the empty shard directory a segment snapshot pre-creates). `p0` is the index of the
    first file-system call (0 for a stand-alone table; a database numbers the calls of all its tables
    consecutively); the last component of the result is the index after the last call issued. -/
def takeFileSnapshot {σ : Type} (L : Lens σ) (hook : Nat → σ → σ) (failAt : Option Nat) (dst0 : Option Dst)
    (p0 : Nat) (st : σ) : σ × Ret × Nat :=
  match (L.get st).cur with
  | none => (st, ⟨.noSnapshot, dst0⟩, p0)
  | some s =>
    let st1 := L.set st ((L.get st).pin s)                                   -- currentSnapshot()
    if s.diskParts.isEmpty then (L.set st1 ((L.get st1).unpin s), ⟨.noDisk, dst0⟩, p0) else
    match linkLoop L hook failAt s.diskParts p0 st1 [] with
    | (st2, _, true, p) =>
      -- `defer if err != nil { MustRMAll(dst) }`, `defer snapshot.decRef()`
      (L.set st2 ((L.get st2).unpin s), ⟨.err, none⟩, p)
    | (st2, parts, false, p) =>
      let st3 := hook p st2                                                  -- before CreateFile(<epoch>.snp)
      (L.set st3 ((L.get st3).unpin s), ⟨.ok, some ⟨parts, some (manifestOf s)⟩⟩, p + 1)

/-- what `initTSTable` makes of a table directory: the parts named by the manifest that are present and
    pass `validatePartMetadata`; a directory without manifest or without parts is an empty table. -/
def recover (d : Dst) : List DiskPart :=
  match d.manifest with
  | none => []
  | some m => d.parts.filter (fun p => m.contains p.id && p.complete)

def content (ps : List DiskPart) : List Nat := ps.flatMap (·.batches)

/-- batches held by the file parts of the current snapshot: the flushed data. -/
def Table.flushed (t : Table) : List Nat :=
  match t.cur with
  | none => []
  | some s => s.diskParts.flatMap (·.batches)

def Table.unflushed (t : Table) : List Nat :=
  match t.cur with
  | none => []
  | some s => s.memParts.flatMap (·.batches)

/-! ### trace tables: core parts + secondary index (`banyand/trace/snapshot.go`, `banyand/internal/sidx`)

Every flush/merge publishes the core snapshot and the secondary-index (sidx) snapshot in one transaction, and an
index part carries the id of the core part it belongs to; so "the index snapshot" of a published state is the id
list of its file parts. When a copy is opened, `loadSidxMap(availablePartIDs)` deletes every index part whose id the
core manifest does not name. -/

structure TraceDst where
  core : Dst
  index : List Nat            -- ids of the index part directories in the copy
  deriving Repr, DecidableEq, Inhabited

/-- index parts that survive opening the copy. -/
def TraceDst.openIndex (d : TraceDst) : List Nat := d.index.filter fun id => (d.core.manifest.getD []).contains id

def Table.indexIds (t : Table) : List Nat :=
  match t.cur with
  | none => []
  | some s => s.diskParts.map (·.id)

/-- the repaired procedure (fixes/F19): the core snapshot is pinned and the index is hard-linked inside one
    publication critical section, so no publication can fall between the two pins; environment operations that
    arrive meanwhile (`early`) run when the section ends, before the first core link. -/
def takeTraceSnapshot (t : Table) (early : List MOp) (hooks : Nat → List MOp) (failAt : Option Nat) :
    Table × Status × Option TraceDst :=
  let idx := t.indexIds
  let (t', r, _) := takeFileSnapshot Lens.id (fun p u => u.run ((if p = 0 then early else []) ++ hooks p)) failAt none 0 t
  (t', r.status, r.dst.map fun d => ⟨d, idx⟩)

/-- the procedure as written at the pinned commit: the index pins *its own* current snapshot after the
    environment had a chance to publish (`early`, at `MkdirPanicIfExist(<dst>/sidx/<name>)`). -/
def takeTraceSnapshot_legacy (t : Table) (early : List MOp) (hooks : Nat → List MOp) (failAt : Option Nat) :
    Table × Status × Option TraceDst :=
  match t.cur with
  | none => (t, .noSnapshot, none)
  | some s =>
    let t1 := (t.pin s).run early                     -- core pinned; the environment publishes; then the index pins
    let idx := t1.indexIds
    if s.diskParts.isEmpty then (t1.unpin s, .noDisk, none) else
    match linkLoop Lens.id (fun p u => u.run (hooks p)) failAt s.diskParts 0 t1 [] with
    | (t2, _, true, _) => (t2.unpin s, .err, none)
    | (t2, parts, false, p) =>
      ((t2.run (hooks p)).unpin s, .ok, some ⟨⟨parts, some (manifestOf s)⟩, idx⟩)

/-! ### segments and the database (`banyand/internal/storage`) -/

/-- `tsTable.Close()`: the current snapshot is released; in-memory parts are gone. -/
def Table.close (t : Table) : Table := Table.gc { t with cur := none }

def maxId (l : List DiskPart) : Nat := l.foldl (fun m d => max m d.id) 0

/-- `initTSTable` on the table directory (segment reopen, or opening a copy in place). -/
def Table.reopen (t : Table) : Table :=
  match t.manifest with
  | none => { log := t.log, mark := t.mark }
  | some m =>
    let keep := t.disk.filter (fun d => m.contains d.id && d.complete)
    if keep.isEmpty then { log := t.log, mark := t.mark } else
    { t with cur := some ⟨t.manifestEpoch, keep.map fun d => ⟨d.id, false, d.batches⟩⟩, epoch := t.manifestEpoch,
             nextId := maxId keep, pins := [], removable := [], disk := keep }

/-- a segment object plus its directory. `order` is `sLst` (creation order of the shards) while the segment is
    open and the shard directories while it is closed; `tab` maps a shard id to its table. `holders` is a ghost
    counter: the number of callers that acquired the segment with `incRef` and have not yet called `DecRef`
    (a caller only releases what it holds). -/
structure Seg where
  isOpen : Bool := true          -- index != nil
  ref : Nat := 0                 -- refCount
  del : Bool := false            -- mustBeDeleted
  dirExists : Bool := true
  listed : Bool := true          -- still in segmentController.lst
  holders : Nat := 0
  order : List Nat := []
  tab : Nat → Option Table := fun _ => none

/-- `days` lists every segment ever created, ascending (segmentController.lst is sorted by id; unlisted
    segments stay reachable for callers that still hold them). -/
structure DB where
  days : List Nat := []
  seg : Nat → Option Seg := fun _ => none

instance : Inhabited Seg := ⟨{}⟩
instance : Inhabited DB := ⟨{}⟩

def insertNat (a : Nat) : List Nat → List Nat
  | [] => [a]
  | b :: r => if a == b then b :: r else if a < b then a :: b :: r else b :: insertNat a r

def sortNats (l : List Nat) : List Nat := l.foldr insertNat []

def Seg.mapTables (s : Seg) (f : Table → Table) : Seg := { s with tab := fun h => (s.tab h).map f }

/-- `initialize`: series index + `loadShards` (directory order). No-op when already open. -/
def Seg.reopen (s : Seg) : Seg :=
  if s.isOpen then s else { s.mapTables Table.reopen with isOpen := true, order := sortNats s.order }

/-- `closeResourcesLocked`. -/
def Seg.closeRes (s : Seg) : Seg := { s.mapTables Table.close with isOpen := false }

/-- `performDelete`. -/
def Seg.performDelete (s : Seg) : Seg :=
  if s.ref > 0 then s else { s with isOpen := false, dirExists := false, order := [], tab := fun _ => none }

/-- `incRef` (fast path / `acquire`). The flag is false for `ErrSegmentClosed`. -/
def Seg.incRef (s : Seg) : Seg × Bool :=
  if s.ref > 0 then ({ s with ref := s.ref + 1 }, true)
  else if s.del then (s, false)
  else ({ s.reopen with ref := 1 }, true)

/-- `DecRef`. -/
def Seg.decRef (s : Seg) : Seg :=
  if s.ref = 0 then s else
  let s' := { s with ref := s.ref - 1 }
  if s.ref = 1 ∧ s.del then s'.performDelete else s'

/-- `delete`. -/
def Seg.delete (s : Seg) : Seg :=
  let s' := { s with del := true }
  if s'.ref = 0 then s'.performDelete else s'

/-- `closeIfIdle` with every segment past the idle threshold. -/
def Seg.closeIfIdle (s : Seg) : Seg :=
  if s.isOpen ∧ s.ref = 0 ∧ ¬ s.del then s.closeRes else s

def DB.put (db : DB) (d : Nat) (s : Seg) : DB :=
  { days := insertNat d db.days, seg := fun d' => if d' = d then some s else db.seg d' }

def DB.modify (db : DB) (d : Nat) (f : Seg → Seg) : DB :=
  match db.seg d with
  | none => db
  | some s => db.put d (f s)

def Seg.putTable (s : Seg) (h : Nat) (t : Table) : Seg :=
  { s with order := if s.order.contains h then s.order else s.order ++ [h],
           tab := fun h' => if h' = h then some t else s.tab h' }

/-- apply `f` to the live table (day, shard) if the segment is open and the shard exists. -/
def DB.modifyTable (db : DB) (d h : Nat) (f : Table → Table) : DB :=
  db.modify d fun s => if s.isOpen then (match s.tab h with | some t => s.putTable h (f t) | none => s) else s

/-- a caller acquires the segment (query / write path). -/
def Seg.hold (s : Seg) : Seg :=
  let (s', ok) := s.incRef
  if ok then { s' with holders := s'.holders + 1 } else s

/-- a caller that holds the segment releases it. -/
def Seg.release (s : Seg) : Seg :=
  if s.holders = 0 then s else { s with holders := s.holders - 1 }.decRef

inductive DbOp where
  | write (d h k : Nat)      -- CreateSegmentIfNotExist + CreateTSTableIfNotExist + introduce + DecRef
  | flush (d h : Nat)
  | mergeAll (d h : Nat)
  | closeIdle (d : Nat)
  | hold (d : Nat)
  | release (d : Nat)
  | remove (d : Nat)         -- retention: delete() then unlist
  | deleteFlag (d : Nat)     -- delete() only
  deriving Repr, DecidableEq

def DB.step (db : DB) : DbOp → DB
  | .write d h k =>
    let s := (db.seg d).getD {}
    if !s.listed || s.del then db else
    db.put d ((s.hold.putTable h (((s.hold.tab h).getD {}).introduce k)).release)
  | .flush d h => db.modifyTable d h Table.flush
  | .mergeAll d h => db.modifyTable d h fun t =>
      t.merge (List.range (match t.cur with | some s => s.diskParts.length | none => 0))
  | .closeIdle d => db.modify d Seg.closeIfIdle
  | .hold d => db.modify d Seg.hold
  | .release d => db.modify d Seg.release
  | .remove d => db.modify d fun s => { s.delete with listed := false }
  | .deleteFlag d => db.modify d Seg.delete

def DB.run (db : DB) (ops : List DbOp) : DB := ops.foldl DB.step db

/-- a segment directory in a snapshot. -/
structure SegDst where
  shards : List (Nat × Dst) := []
  deriving Repr, Inhabited, DecidableEq

structure DLens (σ : Type) where
  get : σ → DB
  set : σ → DB → σ

def DLens.id : DLens DB := ⟨fun d => d, fun _ d => d⟩

/-- the live table (day, shard) seen through the database. -/
def DLens.table {σ : Type} (L : DLens σ) (d h : Nat) : Lens σ :=
  ⟨fun st => (((L.get st).seg d).bind (·.tab h)).getD {},
   fun st t => L.set st ((L.get st).modify d fun s => s.putTable h t)⟩

inductive SegStatus where
  | skipped                    -- being deleted: (false, nil), nothing written
  | err
  | ok
  deriving Repr, DecidableEq, Inhabited

/-- the shard loop of `snapshotOpen`: `MkdirIfNotExist(shardPath)`, `table.TakeFileSnapshot(shardPath)`;
    `ErrNoCurrentSnapshot` is skipped, any other error aborts. -/
def shardLoop {σ : Type} (L : DLens σ) (hook : Nat → σ → σ) (failAt : Option Nat) (d : Nat) :
    List Nat → Nat → σ → List (Nat × Dst) → σ × List (Nat × Dst) × Bool × Nat
  | [], p, st, acc => (st, acc, false, p)
  | h :: rest, p, st, acc =>
    match takeFileSnapshot (L.table d h) hook failAt (some {}) p st with
    | (st', ⟨.err, _⟩, p') => (st', acc, true, p')
    | (st', ⟨_, dst⟩, p') => shardLoop L hook failAt d rest p' st' (acc ++ [(h, dst.getD {})])

/-- artifacts `includeInClosedSnapshot` keeps out of a closed-segment hard link (bluge lock file, external-segment
    temp directory, failed-parts directory) and the excluded extension: the closed copy below therefore consists of
    part directories and manifests only, like the copy of an open segment. -/
def closedExcludes : List String := ["bluge.pid", "external-segment-temp", "failed-parts", ".tmp"]

/-- `segment.snapshotInto`: decided under the segment lock. Result: state, status, the segment directory written
    (if any), next call index. -/
def snapshotInto {σ : Type} (L : DLens σ) (hook : Nat → σ → σ) (failAt : Option Nat) (d : Nat) (p : Nat) (st : σ) :
    σ × SegStatus × Option SegDst × Nat :=
  match (L.get st).seg d with
  | none => (st, .skipped, none, p)
  | some s =>
    if s.del then (st, .skipped, none, p)
    else if s.isOpen then
      -- open: pin (never reopens), snapshot through the live state, unpin
      let st1 := L.set st ((L.get st).put d { s with ref := s.ref + 1 })
      match shardLoop L hook failAt d s.order p st1 [] with
      | (st2, sh, true, p') => (L.set st2 ((L.get st2).modify d Seg.decRef), .err, some ⟨sh⟩, p')
      | (st2, sh, false, p') => (L.set st2 ((L.get st2).modify d Seg.decRef), .ok, some ⟨sh⟩, p')
    else
      -- closed and quiescent: hard-link the directory under the lock; nothing is reopened
      (st, .ok, some ⟨s.order.filterMap fun h => (s.tab h).map fun t => (h, (⟨t.disk, t.manifest⟩ : Dst))⟩, p)

inductive DbStatus where
  | nothing                                  -- (false, nil)
  | err
  | ok
  deriving Repr, DecidableEq, Inhabited

/-- result of `database.TakeFileSnapshot`: status and the destination afterwards (`none` = does not exist). -/
structure DbRet where
  status : DbStatus
  dst : Option (List (Nat × SegDst))
  deriving Repr, Inhabited, DecidableEq

def segLoop {σ : Type} (L : DLens σ) (hook : Nat → σ → σ) (failAt : Option Nat) :
    List Nat → Nat → σ → List (Nat × SegDst) → σ × List (Nat × SegDst) × Bool
  | [], _, st, acc => (st, acc, false)
  | d :: rest, p, st, acc =>
    match snapshotInto L hook failAt d p st with
    | (st', .err, sd, _) => (st', acc ++ (sd.map fun x => (d, x)).toList, true)
    | (st', .skipped, _, p') => segLoop L hook failAt rest p' st' acc
    | (st', .ok, sd, p') => segLoop L hook failAt rest p' st' (acc ++ (sd.map fun x => (d, x)).toList)

/-- `segmentController.copySegments()`: the segments currently listed, without touching any of them. -/
def DB.listedDays (db : DB) : List Nat :=
  db.days.filter fun d => match db.seg d with | some s => s.listed | none => false

/-- `database.TakeFileSnapshot`. -/
def snapshotDb {σ : Type} (L : DLens σ) (hook : Nat → σ → σ) (failAt : Option Nat) (st : σ) : σ × DbRet :=
  let days := (L.get st).listedDays
  if days.isEmpty then (st, ⟨.nothing, none⟩) else
  match segLoop L hook failAt days 0 st [] with
  | (st', _, true) => (st', ⟨.err, none⟩)                          -- `defer if err != nil { MustRMAll(dst) }`
  | (st', [], false) => (st', ⟨.nothing, none⟩)
  | (st', segs, false) => (st', ⟨.ok, some segs⟩)

/-- opening a copied segment directory: every shard directory is loaded with `initTSTable`. -/
def openSeg (sd : SegDst) : List (Nat × List DiskPart) := sd.shards.map fun x => (x.1, recover x.2)

end Banyan.C19
