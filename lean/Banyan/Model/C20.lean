/-
C20 — bound BydbQL parameters are data, never syntax.  L1 model mirroring
  /repo/pkg/bydbql/grammar.go   (the statement forms as far as a placeholder can occur in them)
  /repo/pkg/bydbql/binder.go    (BindParams, binder.collect*, bind*Value, expandLists, resolve*Param,
                                 validateCountValue, validateGrammarCounts, countUnboundParams)
  /repo/pkg/bydbql/prepared.go  (Prepare / preparer.walk*, PreparedStatement.Bind)
  /repo/pkg/bydbql/transformer.go (transformRun.resolveValue / resolveValues / resolveTimeString / resolveCount,
                                 the unbound-placeholder guard and the literal count guard of `transform`)

How the Go control flow is mirrored.  `binder.collect` walks the grammar once, in textual order, and records one
closure per `?` (a *slot*) plus one list container per IN/MATCH/HAVING list; `BindParams` then runs the slots by
index against `params` and finally rebuilds the lists (`expandLists`).  `preparer.walkGrammar` does the same walk
and numbers the placeholders; `Bind` runs the same `resolve*Param` functions by index into a per-request overlay
which the transformer reads through `ParamIndex`.  The model separates exactly these two concerns:

  * `holes` / `plug` — the walk: the value-bearing positions of a statement in textual order (`holes`) and the
    write-back into those positions (`plug`).  One position per *container*: a comparison value, a whole IN list,
    a MATCH/HAVING single-or-array container, a TIME value, a count.
  * everything the binder decides (`slots`, `resolve`, `resolveAll`, `fillLeaves`, array splicing, the
    single-vs-list rule of `collectSingleOrArray`) is list-level code over those positions.

Strings are byte lists (`Str`); int parameters are `Int` (the driver only ever feeds int64 values); `int(bound)` on
a 64-bit platform is the identity.  Identifiers, operators, projection, FROM, GROUP BY, ORDER BY … are never touched
by the binder and are carried as opaque strings (`hdr`, `mid`, `tail`, `ident`, `op`).
-/
import Banyan.Model.Util

namespace Banyan.C20

abbrev Str := List Nat

/-! ### grammar (grammar.go) -/

/-- `GrammarValue`: exactly one of String / Integer / Null / Param is set by the parser. `param` carries `ParamIndex`
    (0 until `Prepare` numbers it). -/
inductive Value where
  | str (s : Str)
  | int (i : Int)
  | null
  | param (idx : Nat)
  deriving DecidableEq, Repr, Inhabited

/-- `GrammarTimeValue`. -/
inductive TimeValue where
  | str (s : Str)
  | int (i : Int)
  | param (idx : Nat)
  deriving DecidableEq, Repr, Inhabited

/-- a count position `(Value int, Param bool, ParamIndex int)`: LIMIT, OFFSET, TOP N. -/
inductive Count where
  | lit (n : Int)
  | param (idx : Nat)
  deriving DecidableEq, Repr, Inhabited

/-- `GrammarMatchValues` / `GrammarHavingValues`: a single value or a parenthesised list. -/
inductive Multi where
  | single (v : Value)
  | array (vs : List Value)
  deriving DecidableEq, Repr, Inhabited

/-- `GrammarTimeClause`: comparator + value, or BETWEEN begin AND end. -/
inductive TimeClause where
  | cmp (op : Str) (v : TimeValue)
  | between (b e : TimeValue)
  deriving DecidableEq, Repr, Inhabited

mutual
/-- `GrammarPredicate` (Binary splits into compare / MATCH). -/
inductive Pred where
  | paren (e : OrExpr)
  | compare (ident op : Str) (v : Value)
  | matchP (ident : Str) (vals : Multi) (analyzer operator : Option Str)
  | inP (ident : Str) (neg : Bool) (vals : List Value)
  | having (ident : Str) (neg : Bool) (vals : Multi)
/-- `GrammarAndExpr{Left, Right []}` as a non-empty list. -/
inductive AndExpr where
  | one (p : Pred)
  | cons (p : Pred) (rest : AndExpr)
/-- `GrammarOrExpr{Left, Right []}` as a non-empty list. -/
inductive OrExpr where
  | one (a : AndExpr)
  | cons (a : AndExpr) (rest : OrExpr)
end

/-- `GrammarSelectStatement` (placeholder-bearing fields in textual order; the rest opaque). -/
structure SelectStmt where
  hdr : Str                      -- projection (without the TOP N count) and FROM clause
  topN : Option Count            -- SELECT TOP n …
  time : Option TimeClause
  where_ : Option OrExpr
  mid : Str                      -- GROUP BY, ORDER BY, WITH QUERY_TRACE
  limit : Option Count
  offset : Option Count

/-- `GrammarTopNStatement`. -/
structure TopNStmt where
  hdr : Str
  n : Count
  time : Option TimeClause
  where_ : Option AndExpr
  tail : Str

inductive Stmt where
  | select (s : SelectStmt)
  | topN (t : TopNStmt)

/-- `Grammar` with its unexported `paramsBound` flag. -/
structure Grammar where
  stmt : Stmt
  bound : Bool

/-! ### positions: the walk shared by `binder.collect`, `preparer.walkGrammar` and the transformer -/

def maxI32 : Int := 2147483647
def maxU32 : Int := 4294967295

/-- one value-bearing position (with its current content). -/
inductive Leaf where
  | scalar (v : Value)              -- comparison value                     (collectScalarValue)
  | vlist (vs : List Value)         -- IN / NOT IN list                      (collectValueList)
  | multi (m : Multi)               -- MATCH / HAVING container              (collectSingleOrArray)
  | time (t : TimeValue)            -- TIME value / BETWEEN boundary         (collectTimeValue)
  | count (max : Int) (c : Count)   -- LIMIT / OFFSET / TOP N with its bound (collectIntSlot)
  deriving DecidableEq, Repr, Inhabited

def TimeClause.holes : TimeClause → List Leaf
  | .cmp _ v => [.time v]
  | .between b e => [.time b, .time e]

def TimeClause.plug : TimeClause → List Leaf → TimeClause
  | .cmp op _, [.time w] => .cmp op w
  | .between _ _, [.time b, .time e] => .between b e
  | t, _ => t

mutual
def Pred.holes : Pred → List Leaf
  | .paren e => e.holes
  | .compare _ _ v => [.scalar v]
  | .matchP _ m _ _ => [.multi m]
  | .inP _ _ vs => [.vlist vs]
  | .having _ _ m => [.multi m]
def AndExpr.holes : AndExpr → List Leaf
  | .one p => p.holes
  | .cons p r => p.holes ++ r.holes
def OrExpr.holes : OrExpr → List Leaf
  | .one a => a.holes
  | .cons a r => a.holes ++ r.holes
end

mutual
def Pred.plug : Pred → List Leaf → Pred
  | .paren e, fs => .paren (e.plug fs)
  | .compare i o _, [.scalar w] => .compare i o w
  | .matchP i _ a o, [.multi m] => .matchP i m a o
  | .inP i n _, [.vlist ws] => .inP i n ws
  | .having i n _, [.multi m] => .having i n m
  | p, _ => p
def AndExpr.plug : AndExpr → List Leaf → AndExpr
  | .one p, fs => .one (p.plug fs)
  | .cons p r, fs => .cons (p.plug (fs.take p.holes.length)) (r.plug (fs.drop p.holes.length))
def OrExpr.plug : OrExpr → List Leaf → OrExpr
  | .one a, fs => .one (a.plug fs)
  | .cons a r, fs => .cons (a.plug (fs.take a.holes.length)) (r.plug (fs.drop a.holes.length))
end

def countHoles (max : Int) : Option Count → List Leaf
  | none => []
  | some c => [.count max c]

def countPlug (max : Int) : Option Count → List Leaf → Option Count
  | some c, [.count m w] => if m = max then some w else some c
  | c, _ => c

def optTimeHoles : Option TimeClause → List Leaf
  | none => []
  | some t => t.holes

def optTimePlug : Option TimeClause → List Leaf → Option TimeClause
  | none, _ => none
  | some t, fs => some (t.plug fs)

def optOrHoles : Option OrExpr → List Leaf
  | none => []
  | some e => e.holes

def optOrPlug : Option OrExpr → List Leaf → Option OrExpr
  | none, _ => none
  | some e, fs => some (e.plug fs)

def optAndHoles : Option AndExpr → List Leaf
  | none => []
  | some e => e.holes

def optAndPlug : Option AndExpr → List Leaf → Option AndExpr
  | none, _ => none
  | some e, fs => some (e.plug fs)

/-- textual order of `binder.collect` for SELECT: TOP N count, TIME, WHERE, LIMIT, OFFSET. -/
def SelectStmt.holes (s : SelectStmt) : List Leaf :=
  countHoles maxI32 s.topN ++ (optTimeHoles s.time ++ (optOrHoles s.where_ ++
    (countHoles maxU32 s.limit ++ countHoles maxU32 s.offset)))

def SelectStmt.plug (s : SelectStmt) (fs : List Leaf) : SelectStmt :=
  let n1 := (countHoles maxI32 s.topN).length
  let n2 := (optTimeHoles s.time).length
  let n3 := (optOrHoles s.where_).length
  let n4 := (countHoles maxU32 s.limit).length
  let f1 := fs.drop n1
  let f2 := f1.drop n2
  let f3 := f2.drop n3
  { s with
    topN := countPlug maxI32 s.topN (fs.take n1)
    time := optTimePlug s.time (f1.take n2)
    where_ := optOrPlug s.where_ (f2.take n3)
    limit := countPlug maxU32 s.limit (f3.take n4)
    offset := countPlug maxU32 s.offset (f3.drop n4) }

/-- textual order for SHOW TOP N: count, TIME, WHERE (an AND expression). -/
def TopNStmt.holes (t : TopNStmt) : List Leaf :=
  [.count maxI32 t.n] ++ (optTimeHoles t.time ++ optAndHoles t.where_)

def TopNStmt.plug (t : TopNStmt) (fs : List Leaf) : TopNStmt :=
  let n2 := (optTimeHoles t.time).length
  let f1 := fs.drop 1
  { t with
    n := (match fs.take 1 with
          | [.count m w] => if m = maxI32 then w else t.n
          | _ => t.n)
    time := optTimePlug t.time (f1.take n2)
    where_ := optAndPlug t.where_ (f1.drop n2) }

def Stmt.holes : Stmt → List Leaf
  | .select s => s.holes
  | .topN t => t.holes

def Stmt.plug : Stmt → List Leaf → Stmt
  | .select s, fs => .select (s.plug fs)
  | .topN t, fs => .topN (t.plug fs)

/-! ### placeholder kinds (prepared.go `placeholderKind`, and the slot closures of binder.go) -/

inductive SlotKind where
  | scalar
  | list
  | time
  | count (max : Int)
  deriving DecidableEq, Repr, Inhabited

def valSlots (k : SlotKind) : List Value → List SlotKind
  | [] => []
  | .param _ :: vs => k :: valSlots k vs
  | _ :: vs => valSlots k vs

def Multi.values : Multi → List Value
  | .single v => [v]
  | .array vs => vs

/-- the placeholders of one position, in order. -/
def Leaf.slots : Leaf → List SlotKind
  | .scalar (.param _) => [.scalar]
  | .scalar _ => []
  | .vlist vs => valSlots .list vs
  | .multi m => valSlots .list m.values
  | .time (.param _) => [.time]
  | .time _ => []
  | .count max (.param _) => [.count max]
  | .count _ _ => []

/-- `binder.slots` / `PreparedStatement.specs`. -/
def slotsOf (hs : List Leaf) : List SlotKind := hs.flatMap Leaf.slots

/-- `countUnboundParams`. -/
def Stmt.nParams (s : Stmt) : Nat := (slotsOf s.holes).length

/-! ### parameters and their resolution (binder.go resolve*Param) -/

/-- a `*modelv1.TagValue` as the binder sees it. `none_` = nil entry or a TagValue without a value. Nil inner
    messages read through the nil-safe getters (`Str{nil}` = `""`, `Int{nil}` = 0, `StrArray{nil}` = empty) are
    normalised by the drivers; a Timestamp with a nil inner message is `tsNil`. -/
inductive ParamVal where
  | none_
  | null
  | str (s : Str)
  | int (i : Int)
  | strArr (l : List Str)
  | intArr (l : List Int)
  | ts (sec nanos : Int)
  | tsNil
  | bin (b : Str)
  deriving DecidableEq, Repr, Inhabited

inductive BindErrKind where
  | type | range | empty | ts
  deriving DecidableEq, Repr, Inhabited

inductive Err where
  | rebind
  | count
  | noValue (pos : Nat)              -- 1-based
  | bind (pos : Nat) (k : BindErrKind)
  deriving DecidableEq, Repr, Inhabited

/-- one entry of the per-request overlay (`resolvedParam`), also what a slot closure writes in place. -/
inductive Resolved where
  | vals (vs : List Value)
  | time (s : Str)
  | count (n : Int)
  deriving DecidableEq, Repr, Inhabited

def resolveScalar : ParamVal → Except BindErrKind Value
  | .str s => .ok (.str s)
  | .int i => .ok (.int i)
  | .null => .ok .null
  | _ => .error .type

def resolveArray : ParamVal → Except BindErrKind (List Value)
  | .strArr [] => .error .empty
  | .strArr l => .ok (l.map .str)
  | .intArr [] => .error .empty
  | .intArr l => .ok (l.map .int)
  | _ => .error .type

/-- `resolveListParam` / `bindListValue`: scalar-vs-array split. -/
def resolveList : ParamVal → Except BindErrKind (List Value)
  | .str s => .ok [.str s]
  | .int i => .ok [.int i]
  | .null => .ok [.null]
  | p => resolveArray p

/-! RFC3339Nano rendering of a valid `timestamppb.Timestamp` (UTC): `Timestamp.AsTime().Format(time.RFC3339Nano)` -/

def minTsSec : Int := -62135596800   -- 0001-01-01T00:00:00Z
def maxTsSec : Int := 253402300799   -- 9999-12-31T23:59:59Z

/-- `Timestamp.CheckValid` for a non-nil message. -/
def tsValid (sec nanos : Int) : Bool :=
  decide (minTsSec ≤ sec) && decide (sec ≤ maxTsSec) && decide (0 ≤ nanos) && decide (nanos < 1000000000)

def padNat (width n : Nat) : String :=
  let s := toString n
  String.ofList (List.replicate (width - s.length) '0') ++ s

/-- civil date from days since 1970-01-01 (proleptic Gregorian). -/
def civilFromDays (z0 : Int) : Int × Nat × Nat :=
  let z := z0 + 719468
  let era := z / 146097
  let doe := (z % 146097).toNat
  let yoe := (doe - doe / 1460 + doe / 36524 - doe / 146096) / 365
  let doy := doe - (365 * yoe + yoe / 4 - yoe / 100)
  let mp := (5 * doy + 2) / 153
  let d := doy - (153 * mp + 2) / 5 + 1
  let m := if mp < 10 then mp + 3 else mp - 9
  let y : Int := (yoe : Int) + era * 400 + (if m ≤ 2 then 1 else 0)
  (y, m, d)

def trimZeros (cs : List Char) : List Char := (cs.reverse.dropWhile (· == '0')).reverse

def fmtTsString (sec nanos : Int) : String :=
  let days := sec / 86400
  let sod := (sec % 86400).toNat
  let (y, m, d) := civilFromDays days
  let frac := if nanos = 0 then "" else "." ++ String.ofList (trimZeros (padNat 9 nanos.toNat).toList)
  padNat 4 y.toNat ++ "-" ++ padNat 2 m ++ "-" ++ padNat 2 d ++ "T" ++ padNat 2 (sod / 3600) ++ ":" ++
    padNat 2 (sod / 60 % 60) ++ ":" ++ padNat 2 (sod % 60) ++ frac ++ "Z"

def strBytes (s : String) : Str := s.toUTF8.toList.map (·.toNat)

def fmtTs (sec nanos : Int) : Str := strBytes (fmtTsString sec nanos)

def resolveTime : ParamVal → Except BindErrKind Str
  | .str s => .ok s
  | .ts sec nanos => if tsValid sec nanos then .ok (fmtTs sec nanos) else .error .ts
  | .tsNil => .error .ts
  | _ => .error .type

/-- `validateCountValue`: shared by the bound path (`resolveCountParam`) and the literal path
    (`validateGrammarCounts`). -/
def validateCount (value max : Int) : Bool := !(decide (value < 0) || decide (value > max))

def resolveCount (max : Int) : ParamVal → Except BindErrKind Int
  | .int i => if validateCount i max then .ok i else .error .range
  | _ => .error .type

/-- the slot closure / the `switch spec.kind` of `Bind`. -/
def resolve : SlotKind → ParamVal → Except BindErrKind Resolved
  | .scalar, p => (resolveScalar p).map fun v => .vals [v]
  | .list, p => (resolveList p).map .vals
  | .time, p => (resolveTime p).map .time
  | .count max, p => (resolveCount max p).map .count

/-- one iteration of the loop of `BindParams` / `(*PreparedStatement).Bind`: nil check, then the slot.
    `pos` is the 1-based parameter position used in error messages. -/
def resolveOne (k : SlotKind) (p : ParamVal) (pos : Nat) : Except Err Resolved :=
  match p with
  | .none_ => .error (.noValue pos)
  | p =>
    match resolve k p with
    | .error e => .error (.bind pos e)
    | .ok r => .ok r

/-- the loop after the count check; the first failure wins. `i` = number of parameters already consumed. -/
def resolveAll : List SlotKind → List ParamVal → Nat → Except Err (List Resolved)
  | [], _, _ => .ok []
  | _ :: _, [], _ => .ok []
  | k :: ks, p :: ps, i =>
    match resolveOne k p (i + 1) with
    | .error e => .error e
    | .ok r =>
      match resolveAll ks ps (i + 1) with
      | .error e => .error e
      | .ok rs => .ok (r :: rs)

/-! ### writing resolved values into positions (the slot closures + `expandLists`) -/

/-- a value list: a literal stays, a placeholder is replaced by its resolved value(s) spliced in place
    (`bindListValue` + `expandLists`). -/
def fillVals : List Value → List Resolved → List Value
  | [], _ => []
  | .param _ :: vs, .vals ws :: rs => ws ++ fillVals vs rs
  | .param i :: vs, _ :: rs => .param i :: fillVals vs rs
  | .param i :: vs, [] => .param i :: fillVals vs []
  | v :: vs, rs => v :: fillVals vs rs

/-- `collectSingleOrArray`'s assign closure: a single-value container stays single unless the splice produced a
    different number of values; a parenthesised list stays a list. -/
def regroup (wasSingle : Bool) (vs : List Value) : Multi :=
  match wasSingle, vs with
  | true, [w] => .single w
  | _, ws => .array ws

def fillMulti : Multi → List Resolved → Multi
  | .single v, rs => regroup true (fillVals [v] rs)
  | .array vs, rs => regroup false (fillVals vs rs)

def fillLeaf : Leaf → List Resolved → Leaf
  | .scalar (.param _), [.vals [w]] => .scalar w
  | .vlist vs, rs => .vlist (fillVals vs rs)
  | .multi m, rs => .multi (fillMulti m rs)
  | .time (.param _), [.time s] => .time (.str s)
  | .count max (.param _), [.count n] => .count max (.lit n)
  | h, _ => h

/-- every position takes as many resolved entries as it has placeholders. -/
def fillLeaves : List Leaf → List Resolved → List Leaf
  | [], _ => []
  | h :: hs, rs => fillLeaf h (rs.take h.slots.length) :: fillLeaves hs (rs.drop h.slots.length)

/-- `BindParams`. -/
def bind (g : Grammar) (ps : List ParamVal) : Except Err Grammar :=
  if g.bound then .error .rebind
  else
    let hs := g.stmt.holes
    let ks := slotsOf hs
    if ks.length ≠ ps.length then .error .count
    else
      match resolveAll ks ps 0 with
      | .error e => .error e
      | .ok rs => .ok { stmt := g.stmt.plug (fillLeaves hs rs), bound := true }

/-! ### literal substitution: the specification `bind` is compared against -/

/-- write one parameter as literal value(s) of its own type (no validation of any kind). -/
def litVals : ParamVal → Option (List Value)
  | .str s => some [.str s]
  | .int i => some [.int i]
  | .null => some [.null]
  | .strArr l => some (l.map .str)
  | .intArr l => some (l.map .int)
  | _ => none

def substVals : List Value → List ParamVal → List Value
  | [], _ => []
  | .param i :: vs, p :: ps =>
    (match litVals p with
     | some ws => ws
     | none => [.param i]) ++ substVals vs ps
  | .param i :: vs, [] => .param i :: substVals vs []
  | v :: vs, ps => v :: substVals vs ps

def substMulti : Multi → List ParamVal → Multi
  | .single v, ps => regroup true (substVals [v] ps)
  | .array vs, ps => regroup false (substVals vs ps)

def substLeaf : Leaf → List ParamVal → Leaf
  | .scalar (.param _), [.str s] => .scalar (.str s)
  | .scalar (.param _), [.int i] => .scalar (.int i)
  | .scalar (.param _), [.null] => .scalar .null
  | .vlist vs, ps => .vlist (substVals vs ps)
  | .multi m, ps => .multi (substMulti m ps)
  | .time (.param _), [.str s] => .time (.str s)
  | .time (.param _), [.ts sec nanos] => .time (.str (fmtTs sec nanos))
  | .count max (.param _), [.int i] => .count max (.lit i)
  | h, _ => h

def substLeaves : List Leaf → List ParamVal → List Leaf
  | [], _ => []
  | h :: hs, ps => substLeaf h (ps.take h.slots.length) :: substLeaves hs (ps.drop h.slots.length)

/-- the statement with every parameter written as a literal at its placeholder. -/
def substLit (g : Grammar) (ps : List ParamVal) : Grammar :=
  { g with stmt := g.stmt.plug (substLeaves g.stmt.holes ps) }

/-! ### shape -/

def eraseValue (_ : Value) : Value := .null

def Multi.skel : Multi → Multi
  | .single _ => .single .null
  | .array vs => .array (vs.map eraseValue)

def TimeClause.skel : TimeClause → TimeClause
  | .cmp op _ => .cmp op (.param 0)
  | .between _ _ => .between (.param 0) (.param 0)

mutual
def Pred.skel : Pred → Pred
  | .paren e => .paren e.skel
  | .compare i o _ => .compare i o .null
  | .matchP i m a o => .matchP i m.skel a o
  | .inP i n vs => .inP i n (vs.map eraseValue)
  | .having i n m => .having i n m.skel
def AndExpr.skel : AndExpr → AndExpr
  | .one p => .one p.skel
  | .cons p r => .cons p.skel r.skel
def OrExpr.skel : OrExpr → OrExpr
  | .one a => .one a.skel
  | .cons a r => .cons a.skel r.skel
end

def eraseCount (_ : Count) : Count := .param 0

/-- the statement with every leaf value erased: clauses, targets, identifiers, operators, NOT flags, MATCH options,
    the single-vs-list form of every container, the length of every list and the presence of every count remain. -/
def Stmt.skel : Stmt → Stmt
  | .select s => .select { s with topN := s.topN.map eraseCount, time := s.time.map TimeClause.skel,
                                   where_ := s.where_.map OrExpr.skel, limit := s.limit.map eraseCount,
                                   offset := s.offset.map eraseCount }
  | .topN t => .topN { t with n := eraseCount t.n, time := t.time.map TimeClause.skel,
                               where_ := t.where_.map AndExpr.skel }

/-- the length an array parameter expands to (`none` for everything that is not an array). -/
def ParamVal.arrLen : ParamVal → Option Nat
  | .strArr l => some l.length
  | .intArr l => some l.length
  | _ => none

/-- the documented in-place expansion on the *template*: a placeholder in a value list that receives an array of
    length `n` becomes `n` placeholders; nothing else changes. Only lengths are consulted. -/
def expandVals : List Value → List (Option Nat) → List Value
  | [], _ => []
  | .param i :: vs, some n :: ls => List.replicate n (.param i) ++ expandVals vs ls
  | .param i :: vs, _ :: ls => .param i :: expandVals vs ls
  | .param i :: vs, [] => .param i :: expandVals vs []
  | v :: vs, ls => v :: expandVals vs ls

def expandLeaf : Leaf → List (Option Nat) → Leaf
  | .vlist vs, ls => .vlist (expandVals vs ls)
  | .multi (.single v), ls => .multi (regroup true (expandVals [v] ls))
  | .multi (.array vs), ls => .multi (regroup false (expandVals vs ls))
  | h, _ => h

def expandLeaves : List Leaf → List (Option Nat) → List Leaf
  | [], _ => []
  | h :: hs, ls => expandLeaf h (ls.take h.slots.length) :: expandLeaves hs (ls.drop h.slots.length)

def expandArrays (g : Grammar) (lens : List (Option Nat)) : Grammar :=
  { g with stmt := g.stmt.plug (expandLeaves g.stmt.holes lens) }

/-! ### prepared statements (prepared.go) and the transformer's overlay reads -/

def numberVals : List Value → Nat → List Value
  | [], _ => []
  | .param _ :: vs, k => .param k :: numberVals vs (k + 1)
  | v :: vs, k => v :: numberVals vs k

def numberLeaf : Leaf → Nat → Leaf
  | .scalar (.param _), k => .scalar (.param k)
  | .vlist vs, k => .vlist (numberVals vs k)
  | .multi (.single (.param _)), k => .multi (.single (.param k))
  | .multi (.array vs), k => .multi (.array (numberVals vs k))
  | .time (.param _), k => .time (.param k)
  | .count max (.param _), k => .count max (.param k)
  | h, _ => h

/-- `preparer.walkGrammar`: `ParamIndex := len(specs)` at each placeholder, in the same walk. -/
def numberLeaves : List Leaf → Nat → List Leaf
  | [], _ => []
  | h :: hs, k => numberLeaf h k :: numberLeaves hs (k + h.slots.length)

structure Prepared where
  template : Grammar
  specs : List SlotKind

/-- `Prepare` (after the trusted parse). -/
def prepare (g : Grammar) : Prepared :=
  { template := { g with stmt := g.stmt.plug (numberLeaves g.stmt.holes 0) }
    specs := slotsOf g.stmt.holes }

/-- `(*PreparedStatement).Bind`: the per-request overlay; the statement is not an output. -/
def Prepared.bind (p : Prepared) (ps : List ParamVal) : Except Err (List Resolved) :=
  if ps.length ≠ p.specs.length then .error .count else resolveAll p.specs ps 0

/-- `transformRun.resolveValues`. -/
def overlayVals (ov : List Resolved) : List Value → List Value
  | [] => []
  | .param i :: vs =>
    (match ov[i]? with
     | some (.vals ws) => ws
     | _ => [.param i]) ++ overlayVals ov vs
  | v :: vs => v :: overlayVals ov vs

/-- what the transformer reads at one position of the template under an overlay
    (`resolveValue`, `resolveValues` + the single-vs-list rule of `convertHavingPredicate`,
    `resolveTimeString`, `resolveCount`). -/
def overlayLeaf (ov : List Resolved) : Leaf → Leaf
  | .scalar (.param i) =>
    (match ov[i]? with
     | some (.vals (w :: _)) => .scalar w
     | _ => .scalar (.param i))
  | .vlist vs => .vlist (overlayVals ov vs)
  | .multi (.single v) => .multi (regroup true (overlayVals ov [v]))
  | .multi (.array vs) => .multi (regroup false (overlayVals ov vs))
  | .time (.param i) =>
    (match ov[i]? with
     | some (.time s) => .time (.str s)
     | _ => .time (.param i))
  | .count max (.param i) =>
    (match ov[i]? with
     | some (.count n) => .count max (.lit n)
     | _ => .count max (.param i))
  | h => h

/-- the statement `TransformBound` effectively transforms: the template read through the overlay. -/
def effective (tmpl : Grammar) (ov : List Resolved) : Grammar :=
  { tmpl with stmt := tmpl.stmt.plug (tmpl.stmt.holes.map (overlayLeaf ov)) }

/-- one execution through a prepared statement, as the liaison does it: Bind, then read the template through the
    overlay. Returns the (unchanged) statement alongside, which is what makes "prepare once, bind many" a fold. -/
def Prepared.exec (p : Prepared) (ps : List ParamVal) : Prepared × Except Err Grammar :=
  (p, (p.bind ps).map fun ov => { effective p.template ov with bound := true })

def Prepared.run (p : Prepared) : List (List ParamVal) → Prepared × List (Except Err Grammar)
  | [] => (p, [])
  | ps :: rest =>
    let (p1, r) := p.exec ps
    let (p2, rs) := p1.run rest
    (p2, r :: rs)

/-! ### the transformer's two guards (transformer.go `transform`) -/

def countOk (max : Int) : Option Count → Bool
  | some (.lit n) => validateCount n max
  | _ => true

/-- `validateGrammarCounts` (a placeholder count holds `Value = 0`). -/
def validCounts : Stmt → Bool
  | .select s => countOk maxI32 s.topN && countOk maxU32 s.limit && countOk maxU32 s.offset
  | .topN t => countOk maxI32 (some t.n)

/-- `transform` accepts a grammar only if it is bound in place, carries an overlay, or has no placeholder,
    and its literal counts are in range. -/
def transformAccepts (g : Grammar) (hasOverlay : Bool) : Bool :=
  (g.bound || hasOverlay || g.stmt.nParams == 0) && validCounts g.stmt

end Banyan.C20
