/-
FS layer — a small executable model of a POSIX file system with a *volatile* and a *durable* view,
used by C04 (crash recovery of the measure tsTable).

## The crash model (stated explicitly; it is trusted, not verified against a kernel)

* The *volatile* view is what running processes observe.  `kill -9` loses nothing of it:
  `crashKill s = ` the volatile tree.
* A directory entry operation (`mkdir`, `create`, `rename`, `unlink`, `rmdir`, `link`) changes the volatile
  name space at once and is appended to the list `pend` of *pending* directory operations.  `fsyncdir d`
  applies all pending operations of directory `d` (in order) to the durable name space and removes them
  from `pend`.  `rename` is one atomic operation (it never yields "neither name").
* File data lives in inodes.  `write` appends to the volatile data of the inode, `fsync` copies the
  volatile data to the durable data.  `fsync` of a file does **not** make its directory entry durable.
* Power loss (`crashPower`): the surviving name space is the durable one with an **arbitrary subset** of the
  pending directory operations applied (in their original order; a chosen operation whose source is
  missing is a no-op) — i.e. each not-yet-fsynced directory entry change may or may not survive,
  independently of the others, even inside one directory.  This is weaker than what ext4 (data=ordered),
  xfs or any other journaling file system guarantees (those persist a *prefix* of the metadata operations),
  so every state reachable there is covered.  The surviving data of an inode is any `c` with
  `durable ≤ c ≤ volatile` in the prefix order: fsynced data is durable; un-fsynced appended data may be
  cut at any point (a torn `write` is "any prefix of the data").
* `crashPowerOrdered` is the stronger guarantee of journaling file systems restricted to one directory:
  per directory a *prefix* of its pending operations survives (directories independent of each other).
-/
import Banyan.Model.Util

namespace Banyan.FS

/-! ### association-list maps -/

abbrev Map (α : Type) (β : Type) := List (α × β)

namespace Map
variable {α β : Type} [DecidableEq α]

def get : Map α β → α → Option β
  | [], _ => none
  | (k, v) :: m, q => if q = k then some v else get m q

/-- keep the bindings whose key satisfies `f` -/
def filterKeys (m : Map α β) (f : α → Bool) : Map α β := List.filter (fun kv => f kv.1) m

def erase (m : Map α β) (k : α) : Map α β := filterKeys m (fun q => !decide (q = k))

def set (m : Map α β) (k : α) (v : β) : Map α β := (k, v) :: erase m k

def keys (m : Map α β) : List α := List.map (·.1) m

end Map

/-! ### names, nodes, state -/

abbrev Content := List Nat

/-- a name space: path ↦ node.  `Path = List Name`, the empty path is the root directory (always present). -/
inductive Node where
  | dir
  | file (ino : Nat)
  deriving DecidableEq, Repr

/-- a node of a resolved tree (what a process reads after a crash) -/
inductive TNode where
  | dir
  | file (c : Content)
  deriving DecidableEq, Repr

section
variable {Name : Type} [DecidableEq Name]

abbrev NS (Name : Type) := Map (List Name) Node
abbrev Tree (Name : Type) := Map (List Name) TNode

/-- pending directory-entry operations -/
inductive DOp (Name : Type) where
  | add (p : List Name) (n : Node)
  | del (p : List Name)                 -- removes `p` and everything below it
  | ren (a b : List Name)
  deriving DecidableEq, Repr

def parent (p : List Name) : List Name := p.dropLast

/-- the directory whose `fsync` makes the operation durable (same-directory renames only) -/
def DOp.dir : DOp Name → List Name
  | .add p _ => parent p
  | .del p => parent p
  | .ren a _ => parent a

def DOp.apply (o : DOp Name) (m : NS Name) : NS Name :=
  match o with
  | .add p n => Map.set m p n
  | .del p => Map.filterKeys m (fun q => !(p.isPrefixOf q))
  | .ren a b =>
    match Map.get m a with
    | some n => (b, n) :: Map.filterKeys m (fun q => !decide (q = a) && !decide (q = b))
    | none => m

def applyOps (ops : List (DOp Name)) (m : NS Name) : NS Name := ops.foldl (fun m o => o.apply m) m

structure St (Name : Type) where
  vol : NS Name := []
  dur : NS Name := []
  vdata : Map Nat Content := []
  ddata : Map Nat Content := []
  pend : List (DOp Name) := []
  next : Nat := 1

def St.vdataOf (s : St Name) (i : Nat) : Content := (Map.get s.vdata i).getD []
def St.ddataOf (s : St Name) (i : Nat) : Content := (Map.get s.ddata i).getD []

/-- the system calls the protocols issue (what `strace` sees, normalised) -/
inductive Step (Name : Type) where
  | mkdir (p : List Name)
  | create (p : List Name)              -- openat(O_CREAT|O_TRUNC)
  | write (p : List Name) (c : Content)
  | fsync (p : List Name)               -- fsync / fdatasync of a regular file
  | close (p : List Name)
  | rename (a b : List Name)
  | fsyncdir (d : List Name)            -- open(dir); fsync; close
  | unlink (p : List Name)
  | rmdir (p : List Name)
  | link (a b : List Name)
  deriving DecidableEq, Repr

def St.dirop (s : St Name) (o : DOp Name) : St Name :=
  { s with vol := o.apply s.vol, pend := s.pend ++ [o] }

def exec (s : St Name) : Step Name → St Name
  | .mkdir p => s.dirop (.add p .dir)
  | .create p =>
    -- a fresh inode; re-creating an existing name (O_TRUNC) is modelled as replacing the entry: after a
    -- crash the name shows either the old inode's content or a prefix of the new one
    let i := s.next
    { (s.dirop (.add p (.file i))) with
      vdata := Map.set s.vdata i [], ddata := Map.set s.ddata i [], next := i + 1 }
  | .write p c =>
    match Map.get s.vol p with
    | some (.file i) => { s with vdata := Map.set s.vdata i (s.vdataOf i ++ c) }
    | _ => s
  | .fsync p =>
    match Map.get s.vol p with
    | some (.file i) => { s with ddata := Map.set s.ddata i (s.vdataOf i) }
    | _ => s
  | .close _ => s
  | .rename a b => s.dirop (.ren a b)
  | .fsyncdir d =>
    { s with dur := applyOps (s.pend.filter (fun o => decide (o.dir = d))) s.dur,
             pend := s.pend.filter (fun o => !decide (o.dir = d)) }
  | .unlink p => s.dirop (.del p)
  | .rmdir p => s.dirop (.del p)
  | .link a b =>
    match Map.get s.vol a with
    | some n => s.dirop (.add b n)
    | none => s

def run (s : St Name) (steps : List (Step Name)) : St Name := steps.foldl exec s

/-! ### crash relations -/

def resolveNode (data : Nat → Content) : Node → TNode
  | .dir => .dir
  | .file i => .file (data i)

def resolve (ns : NS Name) (data : Nat → Content) : Tree Name :=
  List.map (fun kv => (kv.1, resolveNode data kv.2)) ns

/-- `kill -9`: the volatile tree. -/
def crashKill (s : St Name) : Tree Name := resolve s.vol s.vdataOf

/-- admissible surviving data: between durable and volatile in the prefix order -/
def DataOK (s : St Name) (data : Nat → Content) : Prop :=
  ∀ i, s.ddataOf i <+: data i ∧ data i <+: s.vdataOf i

/-- power loss: any subset of the pending directory operations, any admissible data. -/
def crashPower (s : St Name) (t : Tree Name) : Prop :=
  ∃ sub data, List.Sublist sub s.pend ∧ DataOK s data ∧ t = resolve (applyOps sub s.dur) data

/-- per directory a prefix of its pending operations (journaling file systems) -/
def OrderedSub (pend sub : List (DOp Name)) : Prop :=
  List.Sublist sub pend ∧ ∀ d, (sub.filter (fun o => decide (o.dir = d))) <+: (pend.filter (fun o => decide (o.dir = d)))

def crashPowerOrdered (s : St Name) (t : Tree Name) : Prop :=
  ∃ sub data, OrderedSub s.pend sub ∧ DataOK s data ∧ t = resolve (applyOps sub s.dur) data

/-! ### reading a tree -/

def readFile (t : Tree Name) (p : List Name) : Option Content :=
  match Map.get t p with
  | some (.file c) => some c
  | _ => none

def isDir (t : Tree Name) (p : List Name) : Bool :=
  match Map.get t p with
  | some .dir => true
  | _ => false

def isFile (t : Tree Name) (p : List Name) : Bool :=
  match Map.get t p with
  | some (.file _) => true
  | _ => false

def exists_ (t : Tree Name) (p : List Name) : Bool := (Map.get t p).isSome

/-- names of the entries of directory `d` (no order; callers sort) -/
def children (t : Tree Name) (d : List Name) : List Name :=
  ((Map.keys t).filterMap (fun q => if q.dropLast = d then q.getLast? else none)).eraseDups

/-- remove `p` and everything below (`os.RemoveAll`, final state) -/
def rmAll (t : Tree Name) (p : List Name) : Tree Name := Map.filterKeys t (fun q => !(p.isPrefixOf q))

/-- the sequence of system calls of `os.RemoveAll p` on the volatile view: unlink every child (in the given
    order), then rmdir; a plain file is one unlink. -/
def rmAllSteps (s : St Name) (p : List Name) (order : List Name → List Name) : List (Step Name) :=
  match Map.get s.vol p with
  | some .dir => (order (children (resolve s.vol s.vdataOf) p)).map (fun n => Step.unlink (p ++ [n])) ++ [.rmdir p]
  | some (.file _) => [.unlink p]
  | none => []

end

end Banyan.FS
