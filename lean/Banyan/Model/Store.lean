/-
Store layer — shared executable model of the measure storage engine (C01, C02, C03).

L1 definitions mirror
  /repo/banyand/measure/datapoints.go   dataPoints.Less, nameValue.marshal/size, marshalVarArray, unmarshalVarArray
  /repo/banyand/measure/part.go         memPart.mustInitFromDataPoints, uncompressedDataPointSizeBytes
  /repo/banyand/measure/block.go        block.uncompressedSizeBytes, blockPointer.append/appendAll/copyFrom/isFull/updateMetadata,
                                        blockCursor.loadData/copyTo/copyAllTo/replace
  /repo/banyand/measure/merger.go       mergeTwoBlocks, mergeBlocks (block stream, split at maxBlockLength / maxUncompressedBlockSize)
  /repo/banyand/measure/block_reader.go blockReader (heap of part iterators; `container/heap` mirrored below)
  /repo/banyand/measure/block_writer.go blockWriter.mustWriteBlock (ordering panics)
  /repo/banyand/measure/query.go        queryResult.Less / merge / Pull, mustDecodeTagValue, mustDecodeFieldValue
  /repo/banyand/measure/part_iter.go    block selection by series and time range
  /repo/banyand/measure/snapshot.go     getParts, copyAllTo/merge/remove
  /repo/banyand/measure/introducer.go   introducePart / introduceFlushed / introduceMerged
  /repo/banyand/measure/write_standalone.go  encodeTagValue, encodeFieldValue

L0 definitions: `resolve`, `IsResolution`.
Core Lean only.
-/
import Banyan.Model.Util
import Banyan.Model.C12

namespace Banyan.Store

/-! ## Values (write_standalone.go encodeTagValue/encodeFieldValue, datapoints.go nameValue, query.go mustDecode*) -/

/-- A typed tag or field value as carried by `modelv1.TagValue` / `modelv1.FieldValue`.
    Floats are their 64-bit patterns; strings/binaries are byte lists. -/
inductive Val where
  | null
  | int (v : BitVec 64)
  | flt (bits : BitVec 64)
  | str (b : List Byte)
  | bin (b : List Byte)
  | strArr (a : List (List Byte))
  | intArr (a : List (BitVec 64))
deriving DecidableEq, Repr, Inhabited

/-- Column type letters of the line protocol: tags `i s b A I`, fields `i f s b`. -/
abbrev Ty := Char

/-- `nameValue` after `encodeTagValue`/`encodeFieldValue` for a column of type `ty`:
    `value` (`none` = Go nil) and `valueArr` (`none` = Go nil). A value whose oneof case does not
    match the column type is coerced to nil (`tagValue.GetInt() != nil` fails). -/
structure NameValue where
  value : Option (List Byte)
  arr : Option (List (List Byte))
deriving DecidableEq, Repr

def encodeTag (ty : Ty) (v : Val) : NameValue :=
  if ty = 'i' then (match v with | .int x => ⟨some (C12.int64ToBytes x), none⟩ | _ => ⟨none, none⟩)
  else if ty = 's' then (match v with | .str s => ⟨some s, none⟩ | _ => ⟨none, none⟩)   -- convert.StringToBytes: "" ↦ non-nil empty
  else if ty = 'b' then (match v with | .bin s => ⟨some s, none⟩ | _ => ⟨none, none⟩)   -- bytes.Clone of a non-nil slice
  else if ty = 'I' then (match v with | .intArr a => ⟨none, some (a.map C12.int64ToBytes)⟩ | _ => ⟨none, none⟩)
  else if ty = 'A' then (match v with | .strArr a => ⟨none, some a⟩ | _ => ⟨none, none⟩)
  else ⟨none, none⟩

def encodeField (ty : Ty) (v : Val) : NameValue :=
  if ty = 'i' then (match v with | .int x => ⟨some (C12.int64ToBytes x), none⟩ | _ => ⟨none, none⟩)
  else if ty = 'f' then (match v with | .flt x => ⟨some (beBytes 8 x.toNat), none⟩ | _ => ⟨none, none⟩)  -- convert.Float64ToBytes
  else if ty = 's' then (match v with | .str s => ⟨some s, none⟩ | _ => ⟨none, none⟩)
  else if ty = 'b' then (match v with | .bin s => ⟨some s, none⟩ | _ => ⟨none, none⟩)
  else ⟨none, none⟩

/-- `marshalVarArray(dest, src)` appended part (same shape as `pbv1.marshalEntityValue`). -/
def marshalVarArray (src : List Byte) : List Byte := C12.marshalEntityValue src

/-- `unmarshalVarArray`: `some (elem, rest)` or `none` on error. -/
def unmarshalVarArray (src : List Byte) : Option (List Byte × List Byte) := C12.unmarshalEntityValue src

/-- `nameValue.marshal`: the bytes stored in the column; `none` = nil.
    An array with no elements marshals to nil (`var dst []byte` is never appended to). -/
def NameValue.marshal (ty : Ty) (n : NameValue) : Option (List Byte) :=
  match n.arr with
  | some a =>
    let dst := if ty = 'I' then a.flatten else a.flatMap marshalVarArray
    if a.isEmpty then none else some dst
  | none => n.value

/-- `nameValue.size()` without the name: `len(value) + Σ len(valueArr[i])`. -/
def NameValue.rawLen (n : NameValue) : Nat :=
  (match n.value with | some v => v.length | none => 0) +
  (match n.arr with | some a => (a.map List.length).sum | none => 0)

/-- loop of `mustDecodeTagValue` for `ValueTypeStrArr` (fuel = input length); `none` = panic. -/
def decodeStrArrLoop : Nat → List Byte → Option (List (List Byte))
  | _, [] => some []
  | 0, _ :: _ => none
  | fuel + 1, src =>
    match unmarshalVarArray src with
    | none => none
    | some (e, rest) => (decodeStrArrLoop fuel rest).map (e :: ·)

def chunks8 : Nat → List Byte → List (List Byte)
  | _, [] => []
  | 0, _ => []
  | fuel + 1, bs => bs.take 8 :: chunks8 fuel (bs.drop 8)

/-- `mustDecodeTagValue(valueType, value)`; outer `none` = Go panic. -/
def decodeTag (ty : Ty) (stored : Option (List Byte)) : Option Val :=
  match stored with
  | none => some .null
  | some v =>
    if ty = 'i' then some (.int (C12.bytesToInt64 v))
    else if ty = 's' then some (.str v)
    else if ty = 'b' then some (.bin v)
    else if ty = 'I' then some (.intArr ((chunks8 v.length v).map C12.bytesToInt64))
    else if ty = 'A' then (decodeStrArrLoop v.length v).map .strArr
    else none

/-- `mustDecodeFieldValue(valueType, value)`; nil string/binary fields read back as empty. -/
def decodeField (ty : Ty) (stored : Option (List Byte)) : Option Val :=
  match stored with
  | none => if ty = 's' then some (.str []) else if ty = 'b' then some (.bin []) else some .null
  | some v =>
    if ty = 'i' then some (.int (C12.bytesToInt64 v))
    else if ty = 'f' then some (.flt (BitVec.ofNat 64 (ofBE v)))
    else if ty = 's' then some (.str v)
    else if ty = 'b' then some (.bin v)
    else none

/-- What a reader sees for a tag written as `v` into a column of type `ty` (L0 of the value layer):
    the value itself, except that an array without elements comes back as null (finding F10) and a
    value of another kind than the column is dropped to null at write time. -/
def normTag (ty : Ty) (v : Val) : Val :=
  if ty = 'i' then (match v with | .int x => .int x | _ => .null)
  else if ty = 's' then (match v with | .str s => .str s | _ => .null)
  else if ty = 'b' then (match v with | .bin s => .bin s | _ => .null)
  else if ty = 'I' then (match v with | .intArr a => if a.isEmpty then .null else .intArr a | _ => .null)
  else if ty = 'A' then (match v with | .strArr a => if a.isEmpty then .null else .strArr a | _ => .null)
  else .null

/-- … and for a field: null string/binary fields come back as empty (finding F10) -/
def normField (ty : Ty) (v : Val) : Val :=
  if ty = 'i' then (match v with | .int x => .int x | _ => .null)
  else if ty = 'f' then (match v with | .flt x => .flt x | _ => .null)
  else if ty = 's' then (match v with | .str s => .str s | _ => .str [])
  else if ty = 'b' then (match v with | .bin s => .bin s | _ => .bin [])
  else .null

/-! ## Rows, payload cells -/

/-- One stored column value of a row: `tag = true` for tags. `stored` is the marshalled column
    value (`none` = nil). -/
structure Cell where
  tag : Bool
  fam : String
  name : String
  ty : Ty
  stored : Option (List Byte)
  rawLen : Nat
deriving DecidableEq, Repr

abbrev Payload := List Cell

structure Row where
  sid : Nat
  ts : Int
  ver : Int
  pay : Payload
deriving DecidableEq, Repr

instance : Inhabited Row := ⟨⟨0, 0, 0, []⟩⟩

def SameKey (a b : Row) : Prop := a.sid = b.sid ∧ a.ts = b.ts

instance (a b : Row) : Decidable (SameKey a b) := by unfold SameKey; exact inferInstance

/-! ## L0: resolution of a set of written rows -/

/-- `o` carries the key of `r` with a version at least `r`'s. -/
def Dominates (r o : Row) : Prop := o.sid = r.sid ∧ o.ts = r.ts ∧ r.ver ≤ o.ver

instance (a b : Row) : Decidable (Dominates a b) := by unfold Dominates; exact inferInstance

/-- `out` is a version resolution of `rows`: nothing invented, every written key present with a
    version ≥ every written version of that key, one row per key. (Hence each row of `out` is a
    written row of maximal version for its key; ties may be won by any of the tied rows.) -/
def IsResolution (rows out : List Row) : Prop :=
  (∀ o ∈ out, o ∈ rows) ∧ (∀ r ∈ rows, ∃ o ∈ out, Dominates r o) ∧ out.Pairwise (fun a b => ¬ SameKey a b)

/-- `b` may replace `a` as table content: nothing invented, every key of `a` still present with a
    version ≥ every version of it in `a` (duplicates allowed). -/
def Refines (a b : List Row) : Prop :=
  (∀ o ∈ b, o ∈ a) ∧ (∀ r ∈ a, ∃ o ∈ b, Dominates r o)

def upsert (r : Row) : List Row → List Row
  | [] => [r]
  | o :: rest =>
    if o.sid = r.sid ∧ o.ts = r.ts then (if o.ver < r.ver then r :: rest else o :: rest)
    else o :: upsert r rest

/-- Reference resolution: first written row of maximal version per key, in first-seen key order. -/
def resolve (rows : List Row) : List Row := rows.foldl (fun acc r => upsert r acc) []

/-! ## Configuration (regenerated from /repo, see Tie/C02.lean) -/

structure Cfg where
  maxLen : Nat       -- maxBlockLength
  maxSize : Nat      -- maxUncompressedBlockSize
  /-- the F8 repair of `mustInitFromDataPoints` (index test instead of zero sentinels) -/
  fixedInit : Bool := true
  /-- `mergeBatchMaxRows`: row cap of one `PullBatch` call -/
  batchRows : Nat := 4096
  /-- the F57 repair of `mergeBatch`: a full batch is cut only between data points -/
  batchFinishRun : Bool := true
deriving Repr

def defaultCfg : Cfg := { maxLen := 8192, maxSize := 2097152 }

/-! ## Batch → memory part (`memPart.mustInitFromDataPoints`) -/

/-- `dataPoints.Less`. -/
def dpLess (a b : Row) : Bool :=
  if a.sid ≠ b.sid then a.sid < b.sid
  else if a.ts ≠ b.ts then a.ts < b.ts
  else a.ver > b.ver

/-- order used by the model's own sort: `¬ Less b a`. -/
def dpLe (a b : Row) : Bool := !dpLess b a

/-- block metadata fields that the merger consults -/
structure Block where
  sid : Nat
  rows : List Row
  bmMin : Int := 0
  bmMax : Int := 0
  bmCount : Nat := 0
  bmSize : Nat := 0
deriving Repr, DecidableEq

instance : Inhabited Block := ⟨{ sid := 0, rows := [] }⟩

/-- `uncompressedDataPointSizeBytes`. -/
def dpSize (r : Row) : Nat :=
  let fams := (r.pay.filter (·.tag)).map (·.fam) |>.eraseDups
  16 + (r.pay.map fun c => c.name.utf8ByteSize + c.rawLen).sum + (fams.map String.utf8ByteSize).sum

def storedLen (c : Cell) : Nat := match c.stored with | some v => v.length | none => 0

/-- `block.uncompressedSizeBytes()` for a block holding `rows` (column set = union over rows). -/
def blockSize (rows : List Row) : Nat :=
  let cells := rows.flatMap (·.pay)
  let tagCells := cells.filter (·.tag)
  let fams := (tagCells.map (·.fam)).eraseDups
  let cols := (tagCells.map fun c => (c.fam, c.name)).eraseDups
  16 * rows.length + (fams.map String.utf8ByteSize).sum + (cols.map fun p => p.2.utf8ByteSize).sum +
    (tagCells.map storedLen).sum +
    ((cells.filter (!·.tag)).map fun c => if storedLen c > 0 then c.name.utf8ByteSize + storedLen c else 0).sum

/-- `blockWriter.mustWriteBlock` → the metadata a later reader sees. Empty blocks are not written. -/
def writeBlock (sid : Nat) (rows : List Row) : List Block :=
  match rows with
  | [] => []
  | r :: _ =>
    [{ sid := sid, rows := rows, bmMin := r.ts, bmMax := (rows.getLast?.map (·.ts)).getD r.ts,
       bmCount := rows.length, bmSize := blockSize rows }]

/-- rows inside a block carry no series id of their own: the block is written under `sidPrev`. -/
def relabel (sid : Nat) (rows : List Row) : List Row := rows.map fun r => { r with sid := sid }

/-- loop state of `mustInitFromDataPoints`: `cur` = rows `indexPrev .. i` (oldest first). -/
structure InitSt where
  sidPrev : Nat := 0
  tsPrev : Int := 0
  cur : List Row := []
  size : Nat := 0
  started : Bool := false      -- `i > 0` has been reached (some row was kept)
  out : List Block := []
deriving Repr

/-- one iteration for row `r` (the legacy code with the zero sentinels `sidPrev == 0`, `tsPrev`).
    A kept row always leaves `tsPrev = r.ts` (set by `tsPrev = dps.timestamps[i]` when the series
    continues, by `tsPrev = dps.timestamps[indexPrev]` when a new block starts). -/
def initStepLegacy (cfg : Cfg) (st : InitSt) (r : Row) : InitSt :=
  let sidPrev := if st.sidPrev = 0 then r.sid else st.sidPrev
  if r.sid = sidPrev ∧ st.tsPrev = r.ts then { st with sidPrev := sidPrev }   -- dps.skip(i)
  else if st.size ≥ cfg.maxSize ∨ st.cur.length > cfg.maxLen ∨ r.sid ≠ sidPrev then
    { sidPrev := r.sid, tsPrev := r.ts, cur := [r], size := dpSize r, started := true,
      out := st.out ++ writeBlock sidPrev (relabel sidPrev st.cur) }
  else
    { st with sidPrev := sidPrev, tsPrev := r.ts, cur := st.cur ++ [r], size := st.size + dpSize r, started := true }

/-- one iteration of the repaired loop: `if i == 0 { sidPrev = sid }`, duplicate test only when the
    current block already holds a row (`i > indexPrev`). -/
def initStepFixed (cfg : Cfg) (st : InitSt) (r : Row) : InitSt :=
  let sidPrev := if st.started then st.sidPrev else r.sid
  if r.sid = sidPrev ∧ st.cur ≠ [] ∧ st.tsPrev = r.ts then { st with sidPrev := sidPrev }
  else if st.size ≥ cfg.maxSize ∨ st.cur.length > cfg.maxLen ∨ r.sid ≠ sidPrev then
    { sidPrev := r.sid, tsPrev := r.ts, cur := [r], size := dpSize r, started := true,
      out := st.out ++ writeBlock sidPrev (relabel sidPrev st.cur) }
  else
    { st with sidPrev := sidPrev, tsPrev := r.ts, cur := st.cur ++ [r], size := st.size + dpSize r, started := true }

def initStep (cfg : Cfg) : InitSt → Row → InitSt :=
  if cfg.fixedInit then initStepFixed cfg else initStepLegacy cfg

/-- blocks of the memory part built from an already sorted batch. -/
def initFromSorted (cfg : Cfg) (sorted : List Row) : List Block :=
  let st := sorted.foldl (initStep cfg) {}
  st.out ++ writeBlock st.sidPrev (relabel st.sidPrev st.cur)

/-- `mustInitFromDataPoints` with the model's own (stable merge) sort standing for `sort.Sort`. -/
def memPartBlocks (cfg : Cfg) (batch : List Row) : List Block :=
  initFromSorted cfg (batch.mergeSort (fun a b => dpLe a b))

/-! ## `mergeTwoBlocks` -/

/-- `i` scan of the Go loop (`for i < len(left.timestamps) && left.timestamps[i] <= ts2`): the rows of
    `left` with `ts ≤ ts2`, and the rest. -/
def scanLe (ts2 : Int) : List Row → List Row × List Row
  | [] => ([], [])
  | x :: rest => if x.ts ≤ ts2 then ((x :: (scanLe ts2 rest).1), (scanLe ts2 rest).2) else ([], x :: rest)

/-- The `for { … left, right = right, left }` loop on the not yet consumed rows of both block
    pointers. Fuel bounds the number of iterations (see `mergeFuel`); `none` = fuel exhausted. -/
def mergeLoop : Nat → List Row → List Row → List Row → Option (List Row)
  | 0, _, _, _ => none
  | fuel + 1, left, right, acc =>
    match right with
    | [] => some (acc ++ left)                      -- unreachable from mergeTwoBlocks (guarded by appendIfEmpty)
    | r0 :: rt =>
      let pre := (scanLe r0.ts left).1
      let post := (scanLe r0.ts left).2
      match pre.getLast? with
      | some p =>
        if p.ts = r0.ts then
          let acc' := if p.ver ≥ r0.ver then acc ++ pre else acc ++ pre.dropLast ++ [r0]
          if rt = [] then some (acc' ++ post)           -- appendIfEmpty(right, left)
          else if post = [] then some (acc' ++ rt)      -- appendIfEmpty(left, right)
          else mergeLoop fuel rt post acc'
        else
          let acc' := acc ++ pre
          if post = [] then some (acc' ++ r0 :: rt)     -- appendIfEmpty(left, right)
          else mergeLoop fuel (r0 :: rt) post acc'
      | none =>
        if left = [] then some (acc ++ r0 :: rt) else mergeLoop fuel (r0 :: rt) left acc

/-- iterations needed: every iteration either consumes a row or is followed by one that does. -/
def mergeFuel (l r : List Row) : Nat := 2 * (l.length + r.length) + 2

/-- `mergeTwoBlocks(target, left, right)`: the rows appended to the (empty) target.
    `none` only if the loop ran out of fuel (shown impossible in `Props/C02`). -/
def mergeTwoBlocks (left right : Block) : Option (List Row) :=
  if left.bmMax < right.bmMin then some (left.rows ++ right.rows)
  else if right.bmMax < left.bmMin then some (right.rows ++ left.rows)
  else if left.rows = [] then some right.rows
  else if right.rows = [] then some left.rows
  else
    let swap := match left.rows.head?, right.rows.head? with
      | some a, some b => decide (b.ts < a.ts)
      | _, _ => false
    let (l, r) := if swap then (right.rows, left.rows) else (left.rows, right.rows)
    mergeLoop (mergeFuel l r) l r []

/-! ## `mergeBlocks`: the pending-block state machine over the block stream -/

structure MergeSt where
  pending : Option Block := none
  out : List Block := []
  stuck : Bool := false          -- mergeTwoBlocks ran out of fuel (never happens)
deriving Repr

def Block.isFull (cfg : Cfg) (b : Block) : Bool :=
  decide (b.bmCount ≥ cfg.maxLen) || decide (b.bmSize ≥ cfg.maxSize)

def tsMin (rows : List Row) : Int := (rows.head?.map (·.ts)).getD 0
def tsMax (rows : List Row) : Int := (rows.getLast?.map (·.ts)).getD 0

/-- one iteration of `for br.nextBlockMetadata()` for the loaded source block `b`. -/
def mergeStep (cfg : Cfg) (st : MergeSt) (b : Block) : MergeSt :=
  match st.pending with
  | none => { st with pending := some b }
  | some p =>
    if p.sid ≠ b.sid ∨ (p.isFull cfg ∧ p.bmMax ≤ b.bmMin) then
      { st with out := st.out ++ writeBlock p.sid p.rows, pending := some b }
    else
      match mergeTwoBlocks p b with
      | none => { st with stuck := true }
      | some tmp =>
        -- tmpBlock.bm: reset, seriesID set, updateMetadata sets min/max only
        let tb : Block := { sid := b.sid, rows := tmp, bmMin := tsMin tmp, bmMax := tsMax tmp }
        if tmp.length ≤ cfg.maxLen ∧ blockSize tmp ≤ cfg.maxSize then
          { st with pending := if tmp = [] then none else some tb }
        else if tmp.length ≤ cfg.maxLen then
          { st with out := st.out ++ writeBlock tb.sid tmp, pending := none }
        else
          -- tmpBlock.idx = maxBlockLength; pendingBlock.copyFrom(tmpBlock): rows from idx, bm copied as is
          { st with out := st.out ++ writeBlock tb.sid (tmp.take cfg.maxLen),
                    pending := some { tb with rows := tmp.drop cfg.maxLen } }

/-- `mergeBlocks` on a given block stream (the order in which `blockReader` yields blocks). -/
def mergeStream (cfg : Cfg) (stream : List Block) : MergeSt :=
  let st := stream.foldl (mergeStep cfg) {}
  match st.pending with
  | some p => { st with out := st.out ++ writeBlock p.sid p.rows, pending := none }
  | none => st

/-! ### `container/heap` (mirrored for the executable order only; the theorems quantify over every order) -/

section Heap
variable {α : Type} [Inhabited α] (less : α → α → Bool)

def heapDown : Nat → Array α → Nat → Nat → Array α
  | 0, a, _, _ => a
  | fuel + 1, a, i, n =>
    let j1 := 2 * i + 1
    if j1 ≥ n then a
    else
      let j := if j1 + 1 < n ∧ less a[j1 + 1]! a[j1]! then j1 + 1 else j1
      if !less a[j]! a[i]! then a
      else heapDown fuel (a.swapIfInBounds i j) j n

def heapInitLoop : Nat → Array α → Array α
  | 0, a => heapDown less a.size a 0 a.size
  | i + 1, a => heapInitLoop i (heapDown less a.size a (i + 1) a.size)

/-- `heap.Init` -/
def heapInit (a : Array α) : Array α :=
  if a.size < 2 then a else heapInitLoop less (a.size / 2 - 1) a

/-- `heap.Fix(h, 0)` (`up` is a no-op at the root) -/
def heapFix0 (a : Array α) : Array α := heapDown less a.size a 0 a.size

/-- `heap.Pop`: swap root with last, sift down on the prefix, drop the last -/
def heapPop (a : Array α) : Array α :=
  if a.size = 0 then a
  else
    let n := a.size - 1
    (heapDown less a.size (a.swapIfInBounds 0 n) 0 n).pop

end Heap

/-- `blockMetadata.less` on the heads of two part iterators -/
def blocksLess (a b : List Block) : Bool :=
  match a, b with
  | x :: _, y :: _ => if x.sid = y.sid then decide (x.bmMin < y.bmMin) else decide (x.sid < y.sid)
  | _, _ => false

/-- `blockReader`: the order in which the blocks of `parts` are handed to `mergeBlocks`. -/
def readerLoop : Nat → Array (List Block) → List Block → List Block
  | 0, _, acc => acc
  | fuel + 1, h, acc =>
    if h.size = 0 then acc
    else
      match h[0]! with
      | [] => acc
      | b :: rest =>
        let h' := if rest = [] then heapPop blocksLess (h.set! 0 rest) else heapFix0 blocksLess (h.set! 0 rest)
        readerLoop fuel h' (acc ++ [b])

def blockStream (parts : List (List Block)) : List Block :=
  let nonEmpty := (parts.filter (· ≠ [])).toArray
  readerLoop ((parts.map List.length).sum + 1) (heapInit blocksLess nonEmpty) []

/-- `mergeParts`: blocks of the output part. The order of the block stream comes from the mirrored
    `container/heap`; should that mirror ever fail to enumerate exactly the input blocks, they are taken
    in part order instead (never observed – the correspondence check would show it; the theorems hold
    for every order of the stream). -/
def mergeParts (cfg : Cfg) (parts : List (List Block)) : List Block :=
  let s := blockStream parts
  (mergeStream cfg (if s.isPerm parts.flatten then s else parts.flatten)).out

/-! ## Query (`partIter`, `blockCursor.loadData`, `queryResult`) -/

inductive Order where
  | timeAsc | timeDesc | series
deriving DecidableEq, Repr

structure Query where
  sids : List Nat
  tmin : Int
  tmax : Int
  order : Order
deriving Repr

/-- a cursor: the not yet consumed rows of one block, already restricted to the time range, in
    traversal order (reversed for descending time) -/
abbrev Cursor := List Row

/-- position of `s` in `l` (`l.length` when absent) -/
def idxOf (s : Nat) : List Nat → Nat
  | [] => 0
  | x :: xs => if x = s then 0 else idxOf s xs + 1

/-- `sidToIndex[sid]` (the series of a query are distinct) -/
def sidIndex (q : Query) (sid : Nat) : Nat := idxOf sid q.sids

/-- `queryResult.Less` on the current rows of two cursors -/
def rowLess (q : Query) (a b : Row) : Bool :=
  match q.order with
  | .series =>
    let ia := sidIndex q a.sid
    let ib := sidIndex q b.sid
    if ia = ib then (if a.ts = b.ts then decide (a.ver > b.ver) else decide (a.ts < b.ts))
    else decide (ia < ib)
  | .timeAsc =>
    if a.ts = b.ts then (if a.sid = b.sid then decide (a.ver > b.ver) else decide (a.sid < b.sid))
    else decide (a.ts < b.ts)
  | .timeDesc =>
    if a.ts = b.ts then (if a.sid = b.sid then decide (a.ver > b.ver) else decide (a.sid < b.sid))
    else decide (a.ts > b.ts)

/-- `loadData`: the rows of a block inside the query's time range (`timestamp.FindRange`) -/
def rangeRows (q : Query) (b : Block) : List Row :=
  b.rows.filter fun r => decide (q.tmin ≤ r.ts) && decide (r.ts ≤ q.tmax)

/-- traversal order of a cursor: `idx` runs backwards for descending time -/
def dirRows (q : Query) (b : Block) : List Row :=
  if q.order = .timeDesc then (rangeRows q b).reverse else rangeRows q b

/-- the cursor of one block: none when the series is not asked for or no row is in range -/
def blockCursor (q : Query) (b : Block) : Option Cursor :=
  if q.sids.contains b.sid then (if dirRows q b = [] then none else some (dirRows q b)) else none

/-- the cursors `searchBlocks` + `loadData` produce for a part list -/
def cursorsOf (q : Query) (parts : List (List Block)) : List Cursor :=
  parts.flatMap fun blocks => blocks.filterMap (blockCursor q)

/-- index of a `Less`-minimal cursor (first one on ties): stands for the heap root. -/
def minIdxFrom (q : Query) : List Cursor → Nat → Nat → Row → Nat
  | [], _, best, _ => best
  | c :: cs, i, best, bestRow =>
    match c with
    | [] => minIdxFrom q cs (i + 1) best bestRow
    | r :: _ => if rowLess q r bestRow then minIdxFrom q cs (i + 1) i r else minIdxFrom q cs (i + 1) best bestRow

def minIdx (q : Query) (cs : List Cursor) : Nat :=
  match cs with
  | (r :: _) :: rest => minIdxFrom q rest 1 0 r
  | _ => 0

/-- state of one `queryResult.merge` call -/
structure PullSt where
  result : List Row := []     -- rows of the MeasureResult being built (oldest first)
  lastVersion : Int := 0
  lastSid : Nat := 0
deriving Repr

/-- advance cursor `i`: drop its head, remove it when exhausted (`heap.Pop`) -/
def advance (cs : List Cursor) (i : Nat) : List Cursor :=
  match cs[i]? with
  | some (_ :: rest) => if rest = [] then cs.eraseIdx i else cs.set i rest
  | _ => cs.eraseIdx i

/-- `queryResult.merge`: one MeasureResult (rows of one series run) and the remaining cursors.
    `choose` returns the index of the heap root. -/
def mergePull (q : Query) (choose : List Cursor → Nat) : Nat → List Cursor → PullSt → List Row × List Cursor
  | 0, cs, st => (st.result, cs)
  | fuel + 1, cs, st =>
    if cs = [] then (st.result, cs)
    else
      let i := choose cs
      match cs[i]? with
      | some (top :: _) =>
        if st.lastSid ≠ 0 ∧ top.sid ≠ st.lastSid then (st.result, cs)
        else
          let st1 := { st with lastSid := top.sid }
          let st2 :=
            match st1.result.getLast? with
            | some l =>
              if top.ts = l.ts then
                (if top.ver > st1.lastVersion then { st1 with result := st1.result.dropLast ++ [top] } else st1)
              else { st1 with result := st1.result ++ [top], lastVersion := top.ver }
            | none => { st1 with result := st1.result ++ [top], lastVersion := top.ver }
          mergePull q choose fuel (advance cs i) st2
      | _ => (st.result, cs)

/-- all `Pull()` calls, flattened. One cursor left ⇒ `copyAllTo` (the rest of the block as is). -/
def pullAll (q : Query) (choose : List Cursor → Nat) : Nat → List Cursor → List Row
  | 0, _ => []
  | fuel + 1, cs =>
    match cs with
    | [] => []
    | [c] => c
    | _ =>
      let total := (cs.map List.length).sum
      let (res, cs') := mergePull q choose (total + 1) cs {}
      if res = [] then [] else res ++ pullAll q choose fuel cs'

def totalRows (cs : List Cursor) : Nat := (cs.map List.length).sum

/-- `b.RowCount() > 0 && topBC.timestamps[topBC.idx] == b.Timestamps[len(b.Timestamps)-1]` -/
def batchDup (res : List Row) (top : Row) : Bool :=
  match res.getLast? with
  | some l => decide (top.ts = l.ts)
  | none => false

/-- `queryResult.mergeBatch` (query_batch.go), the columnar counterpart of `merge`: one batch of at most
    `maxRows` rows of one series run. Pinned code (`finishRun = false`): the loop condition
    `b.RowCount() < mergeBatchMaxRows` cuts the batch wherever it fills up; repaired (F57): a full batch is
    cut only when the heap root is not another copy of the last emitted (series, timestamp).
    Unlike `merge`, `lastVersion` is updated on a replace. -/
def mergeBatchPull (q : Query) (choose : List Cursor → Nat) (maxRows : Nat) (finishRun : Bool) :
    Nat → List Cursor → PullSt → List Row × List Cursor
  | 0, cs, st => (st.result, cs)
  | fuel + 1, cs, st =>
    if cs = [] then (st.result, cs)
    else if finishRun = false ∧ st.result.length ≥ maxRows then (st.result, cs)
    else
      let i := choose cs
      match cs[i]? with
      | some (top :: _) =>
        if st.lastSid ≠ 0 ∧ top.sid ≠ st.lastSid then (st.result, cs)
        else
          let isDup := batchDup st.result top
          if finishRun = true ∧ st.result.length ≥ maxRows ∧ isDup = false then (st.result, cs)
          else
            let st1 := { st with lastSid := top.sid }
            let st2 :=
              if isDup then
                (if top.ver > st1.lastVersion then
                  { st1 with result := st1.result.dropLast ++ [top], lastVersion := top.ver } else st1)
              else { st1 with result := st1.result ++ [top], lastVersion := top.ver }
            mergeBatchPull q choose maxRows finishRun fuel (advance cs i) st2
      | _ => (st.result, cs)

/-- all `PullBatch()` calls, flattened. One cursor left ⇒ `copyAllToBatch` (the rest of the block as is). -/
def pullAllBatch (q : Query) (choose : List Cursor → Nat) (maxRows : Nat) (finishRun : Bool) : Nat → List Cursor → List Row
  | 0, _ => []
  | fuel + 1, cs =>
    match cs with
    | [] => []
    | [c] => c
    | _ =>
      let (res, cs') := mergeBatchPull q choose maxRows finishRun (totalRows cs + 1) cs {}
      if res = [] then [] else res ++ pullAllBatch q choose maxRows finishRun fuel cs'

/-- the rows the columnar read path returns for a list of parts -/
def queryPartsBatch (cfg : Cfg) (q : Query) (parts : List (List Block)) : List Row :=
  let cs := cursorsOf q parts
  pullAllBatch q (minIdx q) cfg.batchRows cfg.batchFinishRun (totalRows cs + 1) cs

/-- the rows a query returns for a list of parts (each a list of blocks) -/
def queryParts (q : Query) (parts : List (List Block)) : List Row :=
  let cs := cursorsOf q parts
  pullAll q (minIdx q) (totalRows cs + 1) cs

/-! ## Liaison-side merge of the data nodes' answers (cluster mode: the parts of a series live on several nodes) -/

/-- order of the merged stream: the sort field (timestamp) in the requested direction; the rows of one timestamp
    come out of a Go map (`for _, v := range s.uniqueData`) and are printed by series id -/
def nodeLe (desc : Bool) (a b : Row) : Bool :=
  if a.ts = b.ts then decide (a.sid ≤ b.sid) else if desc then decide (b.ts < a.ts) else decide (a.ts < b.ts)

/-- `distributedPlan.Execute` (pkg/query/logical/measure/measure_plan_distributed.go): `sort.NewItemIter` over the
    time-sorted node answers + `sortedMIterator.loadOneGroup`, which keeps per group of equal sort field one entry per
    `hashDataPoint` = (series, timestamp) and replaces the STORED entry iff the new copy's version is greater
    (`upsert`). For time-sorted answers all copies of a key are in one group. -/
def nodeMerge (desc : Bool) (nodes : List (List Row)) : List Row :=
  (resolve nodes.flatten).mergeSort (fun a b => nodeLe desc a b)

/-! ## Table state and transitions -/

structure Part where
  label : Nat
  mem : Bool
  blocks : List Block
deriving Repr

structure Table where
  parts : List Part := []       -- snapshot order
  next : Nat := 0               -- next creation label
deriving Repr

def partRows (p : Part) : List Row := p.blocks.flatMap (·.rows)
def Table.rows (t : Table) : List Row := t.parts.flatMap partRows

inductive Op where
  | batch (rows : List Row)
  | flush (labels : List Nat)
  | merge (labels : List Nat)
deriving Repr

/-- `mustAddDataPoints` + `introducePart`: an empty batch creates no part (the label is consumed). -/
def Table.introduce (cfg : Cfg) (t : Table) (batch : List Row) : Table :=
  if batch = [] then { t with next := t.next + 1 }
  else { parts := t.parts ++ [{ label := t.next, mem := true, blocks := memPartBlocks cfg batch }], next := t.next + 1 }

/-- `flush` + `introduceFlushed`: same blocks on another medium; empty parts are not flushed. -/
def Table.flush (t : Table) (labels : List Nat) : Table :=
  { t with parts := t.parts.map fun p =>
      if labels.contains p.label ∧ p.mem ∧ partRows p ≠ [] then { p with mem := false } else p }

/-- `mergeParts` + `introduceMerged`: inputs removed, output appended. -/
def Table.merge (cfg : Cfg) (t : Table) (labels : List Nat) : Table :=
  let chosen := labels.filterMap fun l => t.parts.find? (·.label = l)
  if chosen = [] then { t with next := t.next + 1 }
  else
    let np : Part := { label := t.next, mem := false, blocks := mergeParts cfg (chosen.map (·.blocks)) }
    { parts := t.parts.filter (fun p => !labels.contains p.label) ++ [np], next := t.next + 1 }

def Table.step (cfg : Cfg) (t : Table) : Op → Table
  | .batch rows => t.introduce cfg rows
  | .flush ls => t.flush ls
  | .merge ls => t.merge cfg ls

def partMinMax (p : Part) : Int × Int :=
  match p.blocks with
  | [] => (0, 0)
  | b :: bs => bs.foldl (fun (m : Int × Int) x => (min m.1 x.bmMin, max m.2 x.bmMax)) (b.bmMin, b.bmMax)

/-- `snapshot.getParts` + query -/
def Table.query (t : Table) (q : Query) : List Row :=
  let ps := t.parts.filter fun p =>
    let (mn, mx) := partMinMax p
    !(decide (q.tmax < mn) || decide (q.tmin > mx))
  queryParts q (ps.map (·.blocks))

/-- the same query through `PullBatch` -/
def Table.queryBatch (cfg : Cfg) (t : Table) (q : Query) : List Row :=
  let ps := t.parts.filter fun p =>
    let (mn, mx) := partMinMax p
    !(decide (q.tmax < mn) || decide (q.tmin > mx))
  queryPartsBatch cfg q (ps.map (·.blocks))

def Table.run (cfg : Cfg) (ops : List Op) : Table := ops.foldl (Table.step cfg) {}

def opRows : Op → List Row
  | .batch rows => rows
  | _ => []

/-- everything the batches of a history wrote -/
def written (ops : List Op) : List Row := ops.flatMap opRows

/-- the rows of `written` a query covers -/
def covered (q : Query) (rows : List Row) : List Row :=
  rows.filter fun r => q.sids.contains r.sid && decide (q.tmin ≤ r.ts) && decide (r.ts ≤ q.tmax)

end Banyan.Store

/-! ## Line protocol shared by the drivers of C01, C02, C03 (see hooks/banyand/internal/verifdrv/mrw/main.go) -/

namespace Banyan.Store.Proto
open Banyan Banyan.Store

structure Col where
  tag : Bool
  fam : String
  name : String
  ty : Ty
deriving Repr

abbrev Schema := List Col

def parseCol (s : String) : Option Col :=
  match s.splitOn "." with
  | ["t", fam, name, ty] => ty.toList.head?.map fun c => ⟨true, fam, name, c⟩
  | ["f", name, ty] => ty.toList.head?.map fun c => ⟨false, "", name, c⟩
  | _ => none

def parseSchema (s : String) : Option Schema :=
  if s = "-" ∨ s = "" then some [] else (s.splitOn ",").mapM parseCol

def parseI64 (s : String) : Option (BitVec 64) := s.toInt?.map (BitVec.ofInt 64)

def dropFirst (s : String) : String := String.ofList (s.toList.drop 1)

def parseVal (s : String) : Option Val :=
  match s.toList with
  | ['N'] => some .null
  | 'i' :: r => (parseI64 (String.ofList r)).map .int
  | 'f' :: r => (bytesOfHex (String.ofList r)).map fun bs => .flt (BitVec.ofNat 64 (ofBE bs))
  | 's' :: r => (bytesOfHex (String.ofList r)).map .str
  | 'b' :: r => (bytesOfHex (String.ofList r)).map .bin
  | 'A' :: r => if r = [] then some (.strArr []) else (((String.ofList r).splitOn ".").mapM bytesOfHex).map .strArr
  | 'I' :: r => if r = [] then some (.intArr []) else (((String.ofList r).splitOn ".").mapM parseI64).map .intArr
  | _ => none

def showVal : Val → String
  | .null => "N"
  | .int v => "i" ++ toString v.toInt
  | .flt b => "f" ++ hexOfBytes (beBytes 8 b.toNat)
  | .str s => "s" ++ hexOrDash s
  | .bin s => "b" ++ hexOrDash s
  | .strArr a => "A" ++ ".".intercalate (a.map hexOrDash)
  | .intArr a => "I" ++ ".".intercalate (a.map fun v => toString v.toInt)

def mkCell (c : Col) (v : Val) : Cell :=
  let nv := if c.tag then encodeTag c.ty v else encodeField c.ty v
  { tag := c.tag, fam := c.fam, name := c.name, ty := c.ty, stored := nv.marshal c.ty, rawLen := nv.rawLen }

def parseRow (sc : Schema) (s : String) : Option Row :=
  match s.splitOn ":" with
  | [sid, ts, ver, vals] => do
    let sid ← sid.toNat?
    let ts ← ts.toInt?
    let ver ← ver.toInt?
    let toks := if vals = "" then [] else vals.splitOn ","
    if toks.length ≠ sc.length then none
    let vs ← toks.mapM parseVal
    pure { sid := sid, ts := ts, ver := ver, pay := (sc.zip vs).map fun (c, v) => mkCell c v }
  | _ => none

/-- what `copyTo`/`copyAllTo` put into the MeasureResult for column `c` of the query projection;
    `?` marks a decoder panic. -/
def renderCol (r : Row) (c : Col) : String :=
  if c.tag then
    match r.pay.find? (fun x => x.tag && x.fam == c.fam && x.name == c.name && x.ty == c.ty) with
    | some x => match decodeTag x.ty x.stored with | some v => showVal v | none => "?"
    | none => "N"
  else
    match r.pay.find? (fun x => !x.tag && x.name == c.name) with
    | some x => match decodeField x.ty x.stored with | some v => showVal v | none => "?"
    | none => "N"

def renderRow (sc : Schema) (r : Row) : String :=
  s!"{r.sid}:{r.ts}:{r.ver}:" ++ ",".intercalate (sc.map (renderCol r))

def u64 (i : Int) : Nat := (i % 18446744073709551616).toNat

def blockSum (rows : List Row) : Nat :=
  rows.foldl (fun h r => (h * 1000003 + (u64 r.ts % 2147483647) * 7 + u64 r.ver % 2147483647) % 2147483647) 0

def showBlock (b : Block) : String :=
  s!"{b.sid}/{b.rows.length}/{b.bmMin}/{b.bmMax}/{blockSum b.rows}"

def showPart (p : Part) : String :=
  s!"P{p.label}{if p.mem then "m" else "f"}[" ++ ",".intercalate (p.blocks.map showBlock) ++ "]"

def insertByLabel (p : Part) : List Part → List Part
  | [] => [p]
  | q :: qs => if p.label < q.label then p :: q :: qs else q :: insertByLabel p qs

def dump (t : Table) : String :=
  if t.parts = [] then "-"
  else " ".intercalate ((t.parts.foldl (fun acc p => insertByLabel p acc) []).map showPart)

def parseLabels (s : String) : Option (List Nat) :=
  if s = "-" ∨ s = "" then some [] else (s.splitOn ",").mapM String.toNat?

def splitSegs (toks : List String) : List (List String) :=
  let (cur, segs) := toks.foldl (fun (acc : List String × List (List String)) t =>
    if t = ";" then ([], acc.2 ++ [acc.1]) else (acc.1 ++ [t], acc.2)) ([], [])
  segs ++ [cur]

def parseOrder (s : String) : Option Order :=
  if s = "ta" then some .timeAsc else if s = "td" then some .timeDesc else if s = "s" then some .series else none

/-- `timestamp.Check`: in int64 range (always, here) and millisecond precision. -/
def tsCheck (ns : Int) : Bool := ns % 1000000 = 0

/-- split at the separator token -/
def splitAt (sep : String) (toks : List String) : List (List String) :=
  toks.foldr (fun t acc => if t = sep then [] :: acc else match acc with | g :: gs => (t :: g) :: gs | [] => [[t]]) [[]]

def runOp (cfg : Cfg) (schemas : Array Schema) (t : Table) (op : List String) : Table × String :=
  match op with
  | ["fl", ls] =>
    match parseLabels ls with
    | some ls =>
      let hit := t.parts.any fun p => ls.contains p.label && p.mem && partRows p != []
      (t.flush ls, if hit then "ok" else "ok0")
    | none => (t, "bad-op")
  | ["mg", ls] =>
    match parseLabels ls with
    | some ls => (t.merge cfg ls, "ok")
    | none => (t, "bad-op")
  | ["d"] => (t, dump t)
  | ["new"] => ({}, "ok")
  | ["tc", ns] => (t, match ns.toInt? with | some n => if tsCheck n then "accepted" else "rejected" | none => "bad-op")
  | name :: rest =>
    match name.toList with
    | 'q' :: k =>
      match (String.ofList k).toNat?, rest with
      | some k, [sids, tmin, tmax, ord] =>
        match (sids.splitOn ",").mapM String.toNat?, tmin.toInt?, tmax.toInt?, parseOrder ord with
        | some sids, some tmin, some tmax, some ord =>
          let q : Query := { sids := sids, tmin := tmin, tmax := tmax, order := ord }
          let sc := schemas[k]!
          let rowRes := " ".intercalate ("R" :: (t.query q).map (renderRow sc))
          let batchRes := " ".intercalate ("R" :: (t.queryBatch cfg q).map (renderRow sc))
          (t, if batchRes = rowRes then rowRes else rowRes ++ " #B" ++ dropFirst batchRes)
        | _, _, _, _ => (t, "bad-op")
      | _, _ => (t, "bad-op")
    | 'n' :: 'm' :: k =>
      match (String.ofList k).toNat?, rest with
      | some k, ord :: toks =>
        let sc := schemas[k]!
        match (if ord = "ta" then some false else if ord = "td" then some true else none),
              (splitAt "|" toks).mapM (fun g => g.mapM (parseRow sc)) with
        | some desc, some nodes => (t, " ".intercalate ("R" :: (nodeMerge desc nodes).map (renderRow sc)))
        | _, _ => (t, "bad-op")
      | _, _ => (t, "bad-op")
    | c :: k =>
      if c = 'b' ∨ c = 'w' then
        match (String.ofList k).toNat? with
        | some k =>
          let sc := schemas[k]!
          match rest.mapM (parseRow sc) with
          | some rows => (t.introduce cfg rows, "ok")
          | none => (t, "bad-op")
        | none => (t, "bad-op")
      else (t, "bad-op")
    | [] => (t, "bad-op")
  | [] => (t, "bad-op")

def handleWith (cfg : Cfg) (line : String) : String :=
  match words line with
  | [] => "bad-op"
  | _ :: toks =>
    match splitSegs toks with
    | [] => "bad-op"
    | hdr :: ops =>
      match hdr.mapM (fun t => match t.splitOn "=" with | [_, cols] => parseSchema cols | _ => none) with
      | none => "bad-op"
      | some schemas =>
        let (_, outs) := ops.foldl (fun (acc : Table × List String) op =>
          let (t', o) := runOp cfg schemas.toArray acc.1 op
          (t', acc.2 ++ [o])) (({} : Table), [])
        " ; ".intercalate outs

end Banyan.Store.Proto
