/-
Time layer shared by C06 (segments partition the timeline) and C07 (retention).
L1 models mirroring
  /repo/banyand/internal/storage/storage.go   (IntervalUnit.Standard, IntervalRule.Standard / NextTime /
                                               estimatedDuration, floorDiv)
  /repo/pkg/timestamp/range.go                (TimeRange.Before / Contains / Overlapping)
  Go `time.Date` (reading → instant rule, src/time/time.go `Date`, the part after the civil
                                               normalisation), `Time.AddDate`, `Time.Add`

Instants are `Int` unix nanoseconds. A zone is a function `z : Int → Int` giving the offset (ns) in
effect at an instant; transitions are assumed to lie on whole seconds (true of the tz database), so
looking a zone up at a nanosecond instant or at its whole second (what Go does) is the same.
Core Lean only.
-/
import Banyan.Model.Util

namespace Banyan.Time

def nsPerSec : Int := 1000000000
def hourNs : Int := 3600000000000
def dayNs : Int := 86400000000000

/-- `floorDiv` of storage.go: Go's truncating `/` and `%` followed by the sign correction. -/
def floorDiv (a b : Int) : Int :=
  let q := Int.tdiv a b
  if Int.tmod a b ≠ 0 ∧ (decide (a < 0) ≠ decide (b < 0)) then q - 1 else q

/-- offset (ns) in effect at an instant (ns) -/
abbrev Zone := Int → Int

/-- wall-clock reading of instant `t` in zone `z`, as ns since 1970-01-01T00:00 on that wall clock -/
def wall (z : Zone) (t : Int) : Int := t + z t

/-- Go `time.Date(...)` for a (normalised) wall reading `w`:
    ```
    _, offset, start, end, _ := l.lookup(unix)        // the reading taken as if it were UTC
    if offset != 0 {
        utc := unix - int64(offset)
        if utc < start || utc >= end { _, offset, _, _, _ = l.lookup(utc) }
        unix -= int64(offset)
    }
    ```
    Inside `[start, end)` the zone's offset *is* `offset`, so both arms compute `unix - z utc`. -/
def dateInstant (z : Zone) (w : Int) : Int :=
  let off := z w
  if off ≠ 0 then
    let utc := w - off
    w - z utc
  else w

/-- truncation of a wall reading to a multiple of `u` (what `t.Year(), t.Month(), t.Day(), t.Hour()`
    followed by `time.Date(y, m, d, h, 0, 0, 0, loc)` keep of it); floor semantics as in Go's `absSec`. -/
def truncTo (u w : Int) : Int := w / u * u

inductive IUnit where
  | hour
  | day
  deriving DecidableEq, Repr

def IUnit.ns : IUnit → Int
  | .hour => hourNs
  | .day => dayNs

/-- `IntervalUnit.Standard` -/
def unitStandard (z : Zone) (u : IUnit) (t : Int) : Int :=
  dateInstant z (truncTo u.ns (wall z t))

structure IntervalRule where
  unit : IUnit
  num : Int
  deriving DecidableEq, Repr

/-- `IntervalRule.NextTime`: `current.Add(time.Hour * Num)` resp. `current.AddDate(0, 0, Num)`
    (= `time.Date` of the wall reading moved by `Num` calendar days, time of day kept). -/
def IntervalRule.nextTime (z : Zone) (r : IntervalRule) (t : Int) : Int :=
  match r.unit with
  | .hour => t + hourNs * r.num
  | .day => dateInstant z (wall z t + r.num * dayNs)

/-- `IntervalRule.Standard` for `Num ≥ 1` (`Num ≤ 0` panics in Go; histories never contain it).
    `int64(todayMidnight.Sub(epochLocal).Hours()+12)` is a float64 computation followed by truncation
    towards zero; with whole-second offsets the fraction is a multiple of 1/3600, far from the
    rounding granularity, so it is the exact `tdiv`. -/
def IntervalRule.standard (z : Zone) (r : IntervalRule) (t : Int) : Int :=
  if r.num = 1 then unitStandard z r.unit t
  else
    let epochLocal := dateInstant z 0
    match r.unit with
    | .day =>
      let todayMidnight := dateInstant z (truncTo dayNs (wall z t))
      let days := floorDiv (Int.tdiv (todayMidnight - epochLocal + 12 * hourNs) hourNs) 24
      let bucketIdx := floorDiv days r.num
      dateInstant z (bucketIdx * r.num * dayNs)
    | .hour =>
      let todayHour := dateInstant z (truncTo hourNs (wall z t))
      let hours := floorDiv (todayHour - epochLocal) hourNs
      let bucketIdx := floorDiv hours r.num
      dateInstant z (bucketIdx * r.num * hourNs)

/-- `IntervalRule.estimatedDuration` -/
def IntervalRule.estimatedDuration (r : IntervalRule) : Int :=
  match r.unit with
  | .hour => hourNs * r.num
  | .day => 24 * hourNs * r.num

/-! ### `timestamp.TimeRange` -/

structure TimeRange where
  start : Int
  end_ : Int
  incS : Bool
  incE : Bool
  deriving DecidableEq, Repr

/-- `TimeRange.Before` -/
def TimeRange.before (t : TimeRange) (other : Int) : Bool :=
  if t.incE then decide (t.end_ < other) else !decide (t.end_ > other)

/-- `TimeRange.Contains` -/
def TimeRange.contains (t : TimeRange) (x : Int) : Bool :=
  if t.start = x then t.incS
  else if t.end_ = x then t.incE
  else !decide (x < t.start) && !decide (x > t.end_)

/-- `TimeRange.Overlapping` -/
def TimeRange.overlapping (t other : TimeRange) : Bool :=
  if t.start = other.end_ then t.incS && other.incE
  else if other.start = t.end_ then t.incE && other.incS
  else !decide (t.start > other.end_) && !decide (other.start > t.end_)

/-! ### segments -/

/-- One entry of `segmentController.lst`: `timestamp.NewSectionTimeRange(start, end)` (half open),
    the `endTime` persisted in the segment's metadata file (absent for segments written by releases
    that did not record it) and the pin count (`refCount`). -/
structure Seg where
  start : Int
  end_ : Int
  metaEnd : Option Int
  ref : Nat
  deriving DecidableEq, Repr

def Seg.range (s : Seg) : TimeRange := ⟨s.start, s.end_, true, false⟩

/-- what the segment controller uses of the interval rule and of the directory-name format:
    `std`/`next` are `IntervalRule.Standard`/`NextTime`; `key` orders segments like `generateSegID`
    applied to the directory suffix (the wall reading of the start truncated to the unit, written in
    decimal `yyyymmdd[hh]` – monotone in that reading). -/
structure Grid where
  std : Int → Int
  next : Int → Int
  key : Int → Int

def segKey (z : Zone) (u : IUnit) (start : Int) : Int := truncTo u.ns (wall z start)

def gridOf (z : Zone) (r : IntervalRule) : Grid :=
  { std := r.standard z, next := r.nextTime z, key := segKey z r.unit }

/-- `parse(format(start))`: the start time recovered from the directory name on reopen. -/
def reparse (z : Zone) (u : IUnit) (start : Int) : Int := dateInstant z (segKey z u start)

/-! ### zones given by a transition table (executable) -/

/-- offset `base` before the first transition; entries `(instant, offset)` ascending -/
def tableOffset (base : Int) : List (Int × Int) → Int → Int
  | [], _ => base
  | (at_, off) :: rest, t => if t < at_ then base else tableOffset off rest t

end Banyan.Time
