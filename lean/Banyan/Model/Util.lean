/-
Shared helpers for the executable models and the line-protocol drivers.
Core Lean only (no Mathlib) so that drivers link as `lean_exe`.
-/
namespace Banyan

/-- Bytes are modelled as natural numbers `< 256`. -/
abbrev Byte := Nat

def hexDigit (n : Nat) : Char :=
  if n < 10 then Char.ofNat (48 + n) else Char.ofNat (87 + n)

def hexOfBytes (bs : List Byte) : String :=
  String.ofList (bs.flatMap fun b => [hexDigit (b / 16 % 16), hexDigit (b % 16)])

def hexVal (c : Char) : Option Nat :=
  if '0' ≤ c ∧ c ≤ '9' then some (c.toNat - 48)
  else if 'a' ≤ c ∧ c ≤ 'f' then some (c.toNat - 87)
  else if 'A' ≤ c ∧ c ≤ 'F' then some (c.toNat - 55)
  else none

def bytesOfHexChars : List Char → Option (List Byte)
  | [] => some []
  | [_] => none
  | a :: b :: rest => do
    let x ← hexVal a
    let y ← hexVal b
    let r ← bytesOfHexChars rest
    pure ((x * 16 + y) :: r)

/-- `-` denotes the empty byte string in the line protocol. -/
def bytesOfHex (s : String) : Option (List Byte) :=
  if s == "-" then some [] else bytesOfHexChars s.toList

def hexOrDash (bs : List Byte) : String :=
  if bs.isEmpty then "-" else hexOfBytes bs

/-- `n` big-endian bytes of `u`. -/
def beBytes : Nat → Nat → List Byte
  | 0, _ => []
  | n + 1, u => (u / 256 ^ n % 256) :: beBytes n u

def ofBE (bs : List Byte) : Nat := bs.foldl (fun acc b => acc * 256 + b) 0

/-- Lexicographic "less than" on byte strings: `bytes.Compare(a, b) < 0`. -/
def lexLt : List Byte → List Byte → Bool
  | [], [] => false
  | [], _ :: _ => true
  | _ :: _, [] => false
  | a :: as, b :: bs => if a < b then true else if b < a then false else lexLt as bs

def words (s : String) : List String :=
  (s.splitOn " ").filter (· ≠ "")

/-- Generic stdin→stdout line loop used by every driver. -/
partial def lineLoop (h : IO.FS.Stream) (out : IO.FS.Stream) (f : String → String) : IO Unit := do
  let line ← h.getLine
  if line.isEmpty then return ()
  let l := String.ofList (line.toList.reverse.dropWhile (fun c => c == '\n' || c == '\r')).reverse
  out.putStrLn (f l)
  lineLoop h out f

def runDriver (f : String → String) : IO Unit := do
  let i ← IO.getStdin
  let o ← IO.getStdout
  lineLoop i o f
  o.flush

end Banyan
