/-
C01 — Acknowledged writes are returned exactly as written (measure engine, standalone path).

Composition of
  1. the value layer: `encodeTagValue`/`encodeFieldValue` → `nameValue.marshal` → column → 
     `mustDecodeTagValue`/`mustDecodeFieldValue` (round trip, with the exact list of exceptions = F10),
  2. `memPart_content` (batch → memory part, C02 lemma; block splitting loses nothing),
  3. `query_eq_resolve` over any history of flushes and merges (C02/C03 theorem),
with the column codecs (C11) as a parameter.
-/
import Banyan.Props.C02
import Banyan.Props.C12
import Banyan.Lemmas.Entity
import Banyan.Model.C01

namespace Banyan.C01
open Banyan.Store

/-! ## value layer -/

/-- `unmarshalVarArray (marshalVarArray s ++ rest) = (s, rest)` for every byte string `s`
    (incl. `|` and `\`) -/
theorem varArray_roundtrip (s rest : List Byte) : unmarshalVarArray (marshalVarArray s ++ rest) = some (s, rest) :=
  C12.unmarshal_marshalEntityValue s rest

theorem marshalVarArray_ne_nil (s : List Byte) : marshalVarArray s ≠ [] := by
  unfold marshalVarArray C12.marshalEntityValue; simp

/-- the decode loop of string arrays inverts the marshalling of any list of byte strings -/
theorem strArr_roundtrip : ∀ (a : List (List Byte)) (fuel : Nat), a.length ≤ fuel →
    decodeStrArrLoop fuel (a.flatMap marshalVarArray) = some a := by
  intro a
  induction a with
  | nil => intro fuel _; cases fuel <;> simp [decodeStrArrLoop]
  | cons x xs ih =>
    intro fuel hf
    cases fuel with
    | zero => simp at hf
    | succ f =>
      simp only [List.flatMap_cons]
      cases hm : marshalVarArray x ++ xs.flatMap marshalVarArray with
      | nil =>
        exfalso
        have := marshalVarArray_ne_nil x
        cases hx : marshalVarArray x with
        | nil => exact this hx
        | cons _ _ => rw [hx] at hm; simp at hm
      | cons b bs =>
        have hstep : decodeStrArrLoop (f + 1) (b :: bs) =
            (match unmarshalVarArray (b :: bs) with
             | none => none
             | some (e, rest) => (decodeStrArrLoop f rest).map (e :: ·)) := by
          simp only [decodeStrArrLoop]
          rfl
        rw [hstep, ← hm, varArray_roundtrip]
        simp only []
        rw [ih f (by simp at hf; omega)]
        rfl

theorem flatMap_marshal_length_ge (a : List (List Byte)) : a.length ≤ (a.flatMap marshalVarArray).length := by
  induction a with
  | nil => simp
  | cons x xs ih =>
    simp only [List.flatMap_cons, List.length_append, List.length_cons]
    have : 1 ≤ (marshalVarArray x).length := by
      cases h : marshalVarArray x with
      | nil => exact absurd h (marshalVarArray_ne_nil x)
      | cons _ _ => simp
    omega

theorem chunks8_roundtrip : ∀ (a : List (BitVec 64)) (fuel : Nat), a.length ≤ fuel →
    (chunks8 fuel (a.map C12.int64ToBytes).flatten).map C12.bytesToInt64 = a := by
  intro a
  induction a with
  | nil => intro fuel _; cases fuel <;> simp [chunks8]
  | cons x xs ih =>
    intro fuel hf
    cases fuel with
    | zero => simp at hf
    | succ f =>
      have hlen : (C12.int64ToBytes x).length = 8 := by unfold C12.int64ToBytes; exact beBytes_length 8 _
      simp only [List.map_cons, List.flatten_cons]
      cases hm : C12.int64ToBytes x ++ (xs.map C12.int64ToBytes).flatten with
      | nil =>
        have := congrArg List.length hm
        simp [hlen] at this
      | cons b bs =>
        have hstep : chunks8 (f + 1) (b :: bs) = (b :: bs).take 8 :: chunks8 f ((b :: bs).drop 8) := by
          simp only [chunks8]
        rw [hstep, ← hm]
        simp only [List.map_cons]
        rw [List.take_left' hlen, List.drop_left' hlen, C12.int64_roundtrip, ih f (by simp at hf; omega)]

theorem flatten_int_length_ge (a : List (BitVec 64)) : a.length ≤ (a.map C12.int64ToBytes).flatten.length := by
  induction a with
  | nil => simp
  | cons x xs ih =>
    have hlen : (C12.int64ToBytes x).length = 8 := by unfold C12.int64ToBytes; exact beBytes_length 8 _
    simp only [List.map_cons, List.flatten_cons, List.length_append, List.length_cons, hlen]
    omega

/-- **tag values**: for every column type and every written value, what is read back is `normTag` of
    what was written – never a decoder panic – i.e. exactly the written value unless it is an array
    without elements (read back as null) or not of the column's kind (dropped to null at write time) -/
theorem tag_roundtrip (ty : Ty) (v : Val) : readTag ty (storeTag ty v) = some (normTag ty v) := by
  unfold readTag storeTag encodeTag normTag
  by_cases h1 : ty = 'i'
  · subst h1
    cases v <;> simp [NameValue.marshal, decodeTag, C12.int64_roundtrip]
  · by_cases h2 : ty = 's'
    · subst h2
      cases v <;> simp [NameValue.marshal, decodeTag]
    · by_cases h3 : ty = 'b'
      · subst h3
        cases v <;> simp [NameValue.marshal, decodeTag]
      · by_cases h4 : ty = 'I'
        · subst h4
          cases v with
          | intArr a =>
            simp only [if_neg (by decide : ¬ ('I' : Char) = 'i'), if_neg (by decide : ¬ ('I' : Char) = 's'),
              if_neg (by decide : ¬ ('I' : Char) = 'b'), if_true, NameValue.marshal]
            by_cases he : a = []
            · subst he; simp [decodeTag]
            · have hne : (a.map C12.int64ToBytes).isEmpty = false := by
                cases a with
                | nil => exact absurd rfl he
                | cons _ _ => rfl
              have hne' : a.isEmpty = false := by
                cases a with
                | nil => exact absurd rfl he
                | cons _ _ => rfl
              simp only [hne, hne', Bool.false_eq_true, if_false, decodeTag,
                if_neg (by decide : ¬ ('I' : Char) = 'i'), if_neg (by decide : ¬ ('I' : Char) = 's'),
                if_neg (by decide : ¬ ('I' : Char) = 'b'), if_true]
              rw [chunks8_roundtrip a _ (flatten_int_length_ge a)]
          | _ => simp [NameValue.marshal, decodeTag]
        · by_cases h5 : ty = 'A'
          · subst h5
            cases v with
            | strArr a =>
              simp only [if_neg (by decide : ¬ ('A' : Char) = 'i'), if_neg (by decide : ¬ ('A' : Char) = 's'),
                if_neg (by decide : ¬ ('A' : Char) = 'b'), if_neg (by decide : ¬ ('A' : Char) = 'I'), if_true,
                NameValue.marshal]
              by_cases he : a = []
              · subst he; simp [decodeTag]
              · have hne' : a.isEmpty = false := by
                  cases a with
                  | nil => exact absurd rfl he
                  | cons _ _ => rfl
                simp only [hne', Bool.false_eq_true, if_false, decodeTag,
                  if_neg (by decide : ¬ ('A' : Char) = 'i'), if_neg (by decide : ¬ ('A' : Char) = 's'),
                  if_neg (by decide : ¬ ('A' : Char) = 'b'), if_neg (by decide : ¬ ('A' : Char) = 'I'), if_true]
                rw [strArr_roundtrip a _ (flatMap_marshal_length_ge a)]
                rfl
            | _ => simp [NameValue.marshal, decodeTag]
          · simp [h1, h2, h3, h4, h5, NameValue.marshal, decodeTag]

/-- **field values**: read back = `normField` of what was written: exact for int64, float64 (bit
    pattern), string, bytes; a null string/binary field comes back as the empty string/bytes -/
theorem field_roundtrip (ty : Ty) (v : Val) : readField ty (storeField ty v) = some (normField ty v) := by
  unfold readField storeField encodeField normField
  by_cases h1 : ty = 'i'
  · subst h1
    cases v <;> simp [NameValue.marshal, decodeField, C12.int64_roundtrip]
  · by_cases h2 : ty = 'f'
    · subst h2
      cases v with
      | flt x =>
        simp only [if_neg (by decide : ¬ ('f' : Char) = 'i'), if_true, NameValue.marshal, decodeField]
        rw [ofBE_beBytes_of_lt 8 _ x.isLt]
        simp
      | _ => simp [NameValue.marshal, decodeField]
    · by_cases h3 : ty = 's'
      · subst h3
        cases v <;> simp [NameValue.marshal, decodeField]
      · by_cases h4 : ty = 'b'
        · subst h4
          cases v <;> simp [NameValue.marshal, decodeField]
        · simp [h1, h2, h3, h4, NameValue.marshal, decodeField]

/-- the only values that do not come back exactly (finding F10) – settled by running the real code:
    `[]` (string or int array) reads back as null, `[""]` and `[]` ARE distinguishable from each
    other; a null string/binary field reads back as empty -/
theorem f10_empty_array_is_null :
    normTag 'A' (.strArr []) = .null ∧ normTag 'I' (.intArr []) = .null ∧
    normTag 'A' (.strArr [[]]) = .strArr [[]] ∧ normField 's' .null = .str [] ∧ normField 'b' .null = .bin [] := by
  decide

/-- everything else is exact -/
theorem norm_exact (ty : Ty) :
    (∀ x, normTag 'i' (.int x) = .int x) ∧ (∀ s, normTag 's' (.str s) = .str s) ∧ (∀ s, normTag 'b' (.bin s) = .bin s) ∧
    (∀ a, a ≠ [] → normTag 'A' (.strArr a) = .strArr a) ∧ (∀ a, a ≠ [] → normTag 'I' (.intArr a) = .intArr a) ∧
    normTag ty .null = .null ∧
    (∀ x, normField 'i' (.int x) = .int x) ∧ (∀ x, normField 'f' (.flt x) = .flt x) ∧
    (∀ s, normField 's' (.str s) = .str s) ∧ (∀ s, normField 'b' (.bin s) = .bin s) ∧
    normField 'i' .null = .null ∧ normField 'f' .null = .null := by
  refine ⟨fun _ => rfl, fun _ => rfl, fun _ => rfl, ?_, ?_, ?_, fun _ => rfl, fun _ => rfl, fun _ => rfl, fun _ => rfl, rfl, rfl⟩
  · intro a ha; cases a with
    | nil => exact absurd rfl ha
    | cons _ _ => rfl
  · intro a ha; cases a with
    | nil => exact absurd rfl ha
    | cons _ _ => rfl
  · unfold normTag; split <;> (try rfl) <;> split <;> (try rfl) <;> split <;> (try rfl) <;> split <;> (try rfl) <;> split <;> rfl

/-- through any column codec that round-trips (C11) the stored column is unchanged -/
theorem column_codec_transparent (k : ColumnCodec) (col : List (Option (List Byte))) : recode k col = col :=
  k.roundtrip col

/-! ## table layer -/

/-- `memPart_content`: the memory part built from a batch holds, for every written key, one of the
    written rows of maximal version – the row itself, with the very bytes that were marshalled – and
    this does not depend on where blocks are split (`maxBlockLength`, `maxUncompressedBlockSize`) -/
theorem memPart_content (cfg : Cfg) (hfix : cfg.fixedInit = true) (batch : List Row) :
    IsResolution batch (rowsOf (memPartBlocks cfg batch)) ∧
    (∀ cfg' : Cfg, cfg'.fixedInit = true → rowsOf (memPartBlocks cfg' batch) = rowsOf (memPartBlocks cfg batch)) := by
  refine ⟨(memPartBlocks_spec cfg hfix batch).1, fun cfg' h' => ?_⟩
  have a := (initFromSorted_spec cfg hfix batch _ (List.mergeSort_perm batch _) (dpSorted_mergeSort batch)).2.2
  have b := (initFromSorted_spec cfg' h' batch _ (List.mergeSort_perm batch _) (dpSorted_mergeSort batch)).2.2
  unfold memPartBlocks
  rw [a, b]

/-- `query_eq_resolve`: over any snapshot reached by any history -/
theorem query_eq_resolve (cfg : Cfg) (hfix : cfg.fixedInit = true) (ops : List Op) (q : Query) (h0 : ¬ (0 ∈ q.sids)) :
    IsResolution (covered q (written ops)) ((Table.run cfg ops).query q) :=
  (C02.version_wins_any_history cfg hfix ops q h0).1

/-- **`write_read_exact`**: after any history (batches in any split/order, any flushes and merges),
    a covering query returns
    * nothing that was not written: every returned row IS a written row (series, timestamp, version
      and every stored column value identical),
    * nothing missing: every written row the query covers is represented by a returned row of its key
      with a version at least as high (the row itself when it is the only/highest version),
    * no key twice;
    and every column of a returned row decodes to `normTag`/`normField` of the value that was written
    into it (`tag_roundtrip`, `field_roundtrip`), the column codec being transparent
    (`column_codec_transparent`, hypothesis = C11). -/
theorem write_read_exact (cfg : Cfg) (hfix : cfg.fixedInit = true) (ops : List Op) (q : Query) (h0 : ¬ (0 ∈ q.sids)) :
    (∀ o ∈ (Table.run cfg ops).query q, o ∈ covered q (written ops)) ∧
    (∀ r ∈ covered q (written ops), ∃ o ∈ (Table.run cfg ops).query q, o.sid = r.sid ∧ o.ts = r.ts ∧ r.ver ≤ o.ver) ∧
    ((Table.run cfg ops).query q).Pairwise (fun a b => ¬ SameKey a b) ∧
    (∀ ty v, readTag ty (storeTag ty v) = some (normTag ty v)) ∧
    (∀ ty v, readField ty (storeField ty v) = some (normField ty v)) := by
  have h := query_eq_resolve cfg hfix ops q h0
  exact ⟨h.1, h.2.1, h.2.2, tag_roundtrip, field_roundtrip⟩

/-- a row written once (no other row with its key) is returned as is -/
theorem written_once_returned (cfg : Cfg) (hfix : cfg.fixedInit = true) (ops : List Op) (q : Query) (h0 : ¬ (0 ∈ q.sids))
    (r : Row) (hr : r ∈ covered q (written ops))
    (honly : ∀ x ∈ covered q (written ops), SameKey x r → x = r) : r ∈ (Table.run cfg ops).query q := by
  obtain ⟨o, ho, hd⟩ := (query_eq_resolve cfg hfix ops q h0).2.1 r hr
  have hmem := (query_eq_resolve cfg hfix ops q h0).1 o ho
  have : o = r := honly o hmem hd.sameKey.symm
  rw [← this]; exact ho

/-- the same on the columnar read path (`PullBatch`, batch cut as repaired by fixes/F57.diff) -/
theorem written_once_returned_batch (cfg : Cfg) (hfix : cfg.fixedInit = true) (hb : cfg.batchFinishRun = true)
    (hmr : 0 < cfg.batchRows) (ops : List Op) (q : Query) (h0 : ¬ (0 ∈ q.sids))
    (r : Row) (hr : r ∈ covered q (written ops))
    (honly : ∀ x ∈ covered q (written ops), SameKey x r → x = r) : r ∈ (Table.run cfg ops).queryBatch cfg q := by
  rw [C02.batch_path_eq_row_path cfg hfix hb hmr ops q h0]
  exact written_once_returned cfg hfix ops q h0 r hr honly

example : readTag 'A' (storeTag 'A' (.strArr [[124, 92], [], [65]])) = some (.strArr [[124, 92], [], [65]]) := by decide
example : readField 'f' (storeField 'f' (.flt 0x8000000000000000#64)) = some (.flt 0x8000000000000000#64) := by decide

end Banyan.C01
