/-
C02 — Highest version wins: one point per series and timestamp.

Theorems about the Store model (`Banyan/Model/Store.lean`, L1 mirrors of
`memPart.mustInitFromDataPoints`, `mergeTwoBlocks`, `mergeBlocks`, `queryResult.Less/merge/Pull`)
against the L0 specification `IsResolution` (one row per (series, timestamp), of maximal version,
any of the tied rows on a version tie).
-/
import Banyan.Lemmas.StoreTable
import Banyan.Model.C02

namespace Banyan.C02
open Banyan.Store

/-! ## L0 -/

/-- the reference resolution is a resolution -/
theorem resolve_isResolution (rows : List Row) : IsResolution rows (resolve rows) := by
  have := resolve_foldl rows [] (by simp)
  unfold resolve
  obtain ⟨h1, h2, h3⟩ := this
  exact ⟨fun o ho => (h1 o ho).elim (fun h => by simp at h) id, fun r hr => h2 r (Or.inr hr), h3⟩

/-- "being a resolution of" does not depend on the order (or multiplicity) in which rows were written -/
theorem isResolution_perm {rows rows' out : List Row} (h : rows'.Perm rows) :
    IsResolution rows out ↔ IsResolution rows' out := by
  simp only [isResolution_iff]
  constructor
  · rintro ⟨h1, h2⟩
    exact ⟨Refines.of_mem_iff (fun x => h.mem_iff.symm) (fun _ => Iff.rfl) h1, h2⟩
  · rintro ⟨h1, h2⟩
    exact ⟨Refines.of_mem_iff (fun x => h.mem_iff) (fun _ => Iff.rfl) h1, h2⟩

/-- without version ties the resolution is unique: two resolutions listed in the same strict key
    order are the same list -/
theorem isResolution_unique_of_tieFree {rows o1 o2 : List Row} (q : Query) (ht : TieFree rows)
    (h1 : IsResolution rows o1) (h2 : IsResolution rows o2)
    (s1 : o1.Pairwise (Kq q)) (s2 : o2.Pairwise (Kq q)) : o1 = o2 :=
  eq_of_pairwise_of_mem_iff (Kq_trans q) (Kq_irrefl q) o1 o2 s1 s2 (isResolution_mem_iff_of_tieFree ht h1 h2)

/-! ## batch → memory part -/

/-- `mustInitFromDataPoints` (with the F8 repair): for EVERY permutation `sorted` of the batch that
    `sort.Sort` may produce (any list in which no later element is `Less` than an earlier one), the
    rows of the memory part are a version resolution of the batch. No hypothesis on timestamps or
    series ids. -/
theorem dedupBatch_spec (cfg : Cfg) (hfix : cfg.fixedInit = true) (batch sorted : List Row)
    (hperm : sorted.Perm batch) (hs : DpSorted sorted) :
    IsResolution batch (rowsOf (initFromSorted cfg sorted)) :=
  (initFromSorted_spec cfg hfix batch sorted hperm hs).1

/-- … and every block of it satisfies the block invariant (one series, strictly increasing
    timestamps, sound min/max metadata). -/
theorem dedupBatch_blocks (cfg : Cfg) (hfix : cfg.fixedInit = true) (batch sorted : List Row)
    (hperm : sorted.Perm batch) (hs : DpSorted sorted) :
    ∀ b ∈ initFromSorted cfg sorted, ValidBlock b :=
  (initFromSorted_spec cfg hfix batch sorted hperm hs).2.1

def exRow (sid : Nat) (ts ver : Int) : Row := ⟨sid, ts, ver, []⟩

/-- non-vacuity: a sorted batch with a duplicate key, a version tie and timestamp 0 -/
example : DpSorted [exRow 1 0 5, exRow 1 0 5, exRow 1 0 2, exRow 1 7 1, exRow 2 0 1] := by
  unfold DpSorted; decide

example : (rowsOf (initFromSorted cfg [exRow 1 0 5, exRow 1 0 5, exRow 1 0 2, exRow 1 7 1, exRow 2 0 1])).length = 3 := by
  decide

/-- the pinned code (zero sentinels `sidPrev == 0`, `tsPrev == 0`): a batch whose first point has
    timestamp 0 loses it (finding F8) -/
theorem dedupBatch_legacy_counterexample :
    rowsOf (initFromSorted cfgLegacy [exRow 1 0 1, exRow 1 5 1]) = [exRow 1 5 1] ∧
    ¬ IsResolution [exRow 1 0 1, exRow 1 5 1] (rowsOf (initFromSorted cfgLegacy [exRow 1 0 1, exRow 1 5 1])) := by
  have h : rowsOf (initFromSorted cfgLegacy [exRow 1 0 1, exRow 1 5 1]) = [exRow 1 5 1] := by decide
  refine ⟨h, ?_⟩
  rw [h]
  intro hres
  obtain ⟨o, ho, hd⟩ := hres.2.1 (exRow 1 0 1) (by simp)
  simp at ho; subst ho
  exact absurd hd.2.1 (by decide)

/-- what the pinned loop does guarantee: correct for every batch in which no series id and no
    timestamp is 0 (it then coincides step by step with the repaired loop) -/
theorem dedupBatch_legacy_partial (cfg : Cfg) (hleg : cfg.fixedInit = false) (batch sorted : List Row)
    (hperm : sorted.Perm batch) (hs : DpSorted sorted) (hnz : ∀ r ∈ batch, r.sid ≠ 0 ∧ r.ts ≠ 0) :
    IsResolution batch (rowsOf (initFromSorted cfg sorted)) :=
  initFromSorted_legacy_spec cfg hleg batch sorted hperm hs hnz

example : ∀ r ∈ [exRow 1 5 5, exRow 1 5 2, exRow 2 (-3) 1], r.sid ≠ 0 ∧ r.ts ≠ 0 := by decide

/-! ## merge of two blocks -/

/-- the loop of `mergeTwoBlocks` (role swap on every iteration) terminates within the fuel the model
    gives it: the measure `2·(remaining rows) + [left head > right head]` decreases -/
theorem mergeLoop_terminates (l r acc : List Row) (hl : SInc l) (hr : SInc r) (hne : r ≠ []) :
    (mergeLoop (mergeFuel l r) l r acc).isSome = true := by
  obtain ⟨m, h, _⟩ := mergeLoop_spec (mergeFuel l r) l r acc hl hr hne (mergeMeasure_le_fuel l r)
  rw [h]; rfl

/-- `IsResolvedMerge`: `mergeTwoBlocks` on two valid blocks of one series yields strictly increasing
    timestamps, key set = union, at a common timestamp a row of the higher version (either row on a
    version tie – whichever currently plays `left`) -/
theorem mergeTwoBlocks_spec (p b : Block) (hp : ValidBlock p) (hb : ValidBlock b) (hs : p.sid = b.sid) :
    ∃ m, mergeTwoBlocks p b = some m ∧ SInc m ∧ IsResolution (p.rows ++ b.rows) m := by
  obtain ⟨m, h1, h2⟩ := mergeTwoBlocks_blocks p b hp hb
  refine ⟨m, h1, h2.inc, ?_⟩
  rw [isResolution_iff]
  refine ⟨h2.refines (fun x hx => (hp.sid x hx).trans hs) hb.sid, ?_⟩
  refine h2.inc.imp ?_
  intro a c hlt hk
  have := hk.2; omega

example : ValidBlock { sid := 3, rows := [exRow 3 1 1, exRow 3 4 2], bmMin := 1, bmMax := 4 } :=
  ⟨by simp, by decide, by decide, by decide, by decide⟩

example : mergeTwoBlocks { sid := 3, rows := [exRow 3 1 1, exRow 3 4 2], bmMin := 1, bmMax := 4 }
      { sid := 3, rows := [exRow 3 2 1, exRow 3 4 9, exRow 3 5 1], bmMin := 2, bmMax := 5 } =
    some [exRow 3 1 1, exRow 3 2 1, exRow 3 4 9, exRow 3 5 1] := by decide

/-! ## merge of parts -/

/-- `mergeBlocks` over ANY order of the block stream (the heap is a parameter): the loop never gets
    stuck, every written block satisfies the block invariant, and the content is refined – nothing
    invented, every key kept with a version ≥ every input version. Duplicated keys may remain in
    different blocks (`isFull ∧ max ≤ min`, split path); `queryMerge_spec` removes them. -/
theorem mergeStream_spec (cfg : Cfg) (stream : List Block) (hv : ∀ b ∈ stream, ValidBlock b) :
    (mergeStream cfg stream).stuck = false ∧ (∀ b ∈ (mergeStream cfg stream).out, ValidBlock b) ∧
      Refines (rowsOf stream) (rowsOf (mergeStream cfg stream).out) :=
  mergeStream_inv cfg stream hv

/-- `mergeParts` on any non-empty or empty list of parts -/
theorem mergeParts_spec (cfg : Cfg) (parts : List (List Block)) (hv : ∀ p ∈ parts, ∀ b ∈ p, ValidBlock b) :
    (∀ b ∈ mergeParts cfg parts, ValidBlock b) ∧ Refines (parts.flatMap rowsOf) (rowsOf (mergeParts cfg parts)) := by
  have hmem : ∀ b, b ∈ (if (blockStream parts).isPerm parts.flatten then blockStream parts else parts.flatten) ↔
      b ∈ parts.flatten := by
    intro b
    split
    · rename_i hperm; exact (List.isPerm_iff.1 hperm).mem_iff
    · exact Iff.rfl
  have hsv : ∀ b ∈ (if (blockStream parts).isPerm parts.flatten then blockStream parts else parts.flatten), ValidBlock b := by
    intro b hb
    obtain ⟨bl, hbl, hbb⟩ := List.mem_flatten.1 ((hmem b).1 hb)
    exact hv bl hbl b hbb
  obtain ⟨_, h2, h3⟩ := mergeStream_inv cfg _ hsv
  unfold mergeParts
  refine ⟨h2, Refines.of_mem_iff (fun x => ?_) (fun _ => Iff.rfl) h3⟩
  simp only [rowsOf, List.mem_flatMap]
  constructor
  · rintro ⟨b, hb, hx⟩
    obtain ⟨bl, hbl, hbb⟩ := List.mem_flatten.1 ((hmem b).1 hb)
    exact ⟨bl, hbl, b, hbb, hx⟩
  · rintro ⟨bl, hbl, b, hbb, hx⟩
    exact ⟨b, (hmem b).2 (List.mem_flatten.2 ⟨bl, hbl, hbb⟩), hx⟩

/-! ## query-side heap merge -/

/-- `queryResult.merge`/`Pull` over any set of valid cursors, for ANY choice of a `Less`-minimal
    cursor (the heap is a parameter): the flattened result is a version resolution of the cursor
    rows, strictly ordered by key in the requested order (series / time asc / time desc). -/
theorem queryMerge_spec (q : Query) (choose : List Cursor → Nat) (hc : MinChoice q choose)
    (cs : List Cursor) (hv : ValidCursors q cs) :
    IsResolution cs.flatten (pullAll q choose (totalRows cs + 1) cs) ∧
      (pullAll q choose (totalRows cs + 1) cs).Pairwise (Kq q) := by
  rw [pullAll_eq hc _ _ (totalRows cs) hv (by omega) (Nat.le_refl _)]
  have hsorted := popAll_sorted hc (totalRows cs) _ hv
  have hsub := popAll_subset (q := q) choose (totalRows cs) cs
  have hcomp := popAll_complete hc (totalRows cs) _ hv (Nat.le_refl _)
  have hsid : ∀ y ∈ popAll choose (totalRows cs) cs, y.sid ∈ q.sids := by
    intro y hy
    obtain ⟨c, hcm, hyc⟩ := List.mem_flatten.1 (hsub y hy)
    exact ((hv c hcm).sids y hyc).2
  have hks : KSorted (Kq q) (popAll choose (totalRows cs) cs) := by
    unfold KSorted
    refine List.Pairwise.imp_of_mem ?_ hsorted
    intro a b ha hb h
    exact not_rowLess q (hsid a ha) (hsid b hb) h
  obtain ⟨hres, hord⟩ := keepLoop_isResolution (Kq_trans q) (Kq_not_same q) _ hks
  refine ⟨?_, hord⟩
  rw [isResolution_iff] at hres ⊢
  exact ⟨Refines.of_mem_iff (fun x => ⟨fun h => hsub x h, fun h => hcomp x h⟩) (fun _ => Iff.rfl) hres.1, hres.2⟩

/-- the root the executable model picks (first minimal by linear scan) is an admissible heap root -/
theorem minIdx_isMinChoice (q : Query) : MinChoice q (minIdx q) := minIdx_minChoice q

def exQ : Query := { sids := [2, 1], tmin := 0, tmax := 9, order := .timeDesc }

example : ValidCursors exQ [[exRow 1 5 1, exRow 1 3 2], [exRow 1 5 7], [exRow 2 5 1]] := by
  intro c hc
  simp at hc
  rcases hc with rfl | rfl | rfl <;>
    exact ⟨by simp, by decide, by decide, by unfold Kq k1 k2; decide⟩

example : pullAll exQ (minIdx exQ) 5 [[exRow 1 5 1, exRow 1 3 2], [exRow 1 5 7], [exRow 2 5 1]] =
    [exRow 1 5 7, exRow 2 5 1, exRow 1 3 2] := by decide

/-- a query on a table whose blocks are valid: resolution of the covered table content -/
theorem query_isResolution (t : Table) (q : Query) (hv : ∀ p ∈ t.parts, ∀ b ∈ p.blocks, ValidBlock b)
    (h0 : ¬ (0 ∈ q.sids)) :
    IsResolution (covered q t.rows) (t.query q) ∧ (t.query q).Pairwise (Kq q) :=
  tableQuery_spec t q hv h0

/-! ## the property -/


/-- **Highest version wins, for every history.** For every list of operations (batches of any rows in
    any order, flushes and merges of any subsets of parts at any time) and every query over series
    ≠ 0: the result contains exactly the written keys the query covers, once each, each with a written
    row of the greatest version written for that key, in the requested order. -/
theorem version_wins_any_history (cfg : Cfg) (hfix : cfg.fixedInit = true) (ops : List Op) (q : Query)
    (h0 : ¬ (0 ∈ q.sids)) :
    IsResolution (covered q (written ops)) ((Table.run cfg ops).query q) ∧
      ((Table.run cfg ops).query q).Pairwise (Kq q) := by
  have hinv := tinv_run cfg hfix ops
  obtain ⟨h1, h2⟩ := tableQuery_spec (Table.run cfg ops) q hinv.valid h0
  refine ⟨IsResolution.of_refines ?_ h1, h2⟩
  exact Refines.filter (inQuery q) (inQuery_sameKey q) hinv.refines

/-- … hence the winner does not depend on arrival order, batch split or the flush/merge schedule:
    two histories that wrote the same multiset of rows return, for every query, the same keys with
    the same versions – and literally the same rows when no two different rows share
    (series, timestamp, version). -/
theorem version_wins_order_independent (cfg : Cfg) (hfix : cfg.fixedInit = true) (ops1 ops2 : List Op)
    (hw : (written ops1).Perm (written ops2)) (q : Query) (h0 : ¬ (0 ∈ q.sids)) :
    (∀ x ∈ (Table.run cfg ops1).query q, ∃ y ∈ (Table.run cfg ops2).query q, SameKey x y ∧ x.ver = y.ver) ∧
    (TieFree (written ops1) → (Table.run cfg ops1).query q = (Table.run cfg ops2).query q) := by
  obtain ⟨r1, s1⟩ := version_wins_any_history cfg hfix ops1 q h0
  obtain ⟨r2, s2⟩ := version_wins_any_history cfg hfix ops2 q h0
  have hc : (covered q (written ops1)).Perm (covered q (written ops2)) := hw.filter _
  have r2' : IsResolution (covered q (written ops1)) ((Table.run cfg ops2).query q) :=
    (isResolution_perm hc).1 r2
  refine ⟨fun x hx => ?_, fun ht => ?_⟩
  · obtain ⟨y, hy, hd⟩ := r2'.2.1 x (r1.1 x hx)
    refine ⟨y, hy, hd.sameKey, ?_⟩
    have := r1.max_version hx (r2'.1 y hy) hd.sameKey.symm
    have := hd.2.2
    omega
  · have ht' : TieFree (covered q (written ops1)) := by
      intro a ha b hb
      exact ht a (List.mem_filter.1 ha).1 b (List.mem_filter.1 hb).1
    exact isResolution_unique_of_tieFree q ht' r1 r2' s1 s2

/-! ## the columnar read path (`PullBatch` / `mergeBatch`) -/

/-- `queryResult.mergeBatch`/`PullBatch` (batch cut as repaired by fixes/F57.diff: a full batch ends only between
    data points) over any set of valid cursors, for ANY choice of a `Less`-minimal cursor and ANY positive batch
    size: the concatenated batches are a version resolution of the cursor rows, strictly ordered by key. -/
theorem queryMergeBatch_spec (q : Query) (choose : List Cursor → Nat) (hc : MinChoice q choose)
    (maxRows : Nat) (hm : 0 < maxRows) (cs : List Cursor) (hv : ValidCursors q cs) :
    IsResolution cs.flatten (pullAllBatch q choose maxRows true (totalRows cs + 1) cs) ∧
      (pullAllBatch q choose maxRows true (totalRows cs + 1) cs).Pairwise (Kq q) := by
  rw [pullAllBatch_eq_pullAll hc hm cs hv]
  exact queryMerge_spec q choose hc cs hv

/-- … and they are the rows of the row path, for every history -/
theorem batch_path_eq_row_path (cfg : Cfg) (hfix : cfg.fixedInit = true) (hb : cfg.batchFinishRun = true)
    (hm : 0 < cfg.batchRows) (ops : List Op) (q : Query) (h0 : ¬ (0 ∈ q.sids)) :
    (Table.run cfg ops).queryBatch cfg q = (Table.run cfg ops).query q :=
  tableQueryBatch_eq cfg hb hm _ q (tinv_run cfg hfix ops).valid h0

/-- highest version wins on the columnar path -/
theorem version_wins_any_history_batch (cfg : Cfg) (hfix : cfg.fixedInit = true) (hb : cfg.batchFinishRun = true)
    (hm : 0 < cfg.batchRows) (ops : List Op) (q : Query) (h0 : ¬ (0 ∈ q.sids)) :
    IsResolution (covered q (written ops)) ((Table.run cfg ops).queryBatch cfg q) ∧
      ((Table.run cfg ops).queryBatch cfg q).Pairwise (Kq q) := by
  rw [batch_path_eq_row_path cfg hfix hb hm ops q h0]
  exact version_wins_any_history cfg hfix ops q h0

def exQa : Query := { sids := [1], tmin := 0, tmax := 9, order := .timeAsc }

/-- the pinned `mergeBatch` (loop condition `b.RowCount() < mergeBatchMaxRows`, finding F57) cuts a batch inside a
    run of copies of one data point: with batches of 2 rows, the second copy of (series 1, timestamp 2) - the one
    with the lower version - starts the next batch as a row of its own. The repaired cut returns three rows. -/
theorem mergeBatch_legacy_counterexample :
    pullAllBatch exQa (minIdx exQa) 2 false 5 [[exRow 1 1 1, exRow 1 2 2], [exRow 1 2 1, exRow 1 3 1]] =
        [exRow 1 1 1, exRow 1 2 2, exRow 1 2 1, exRow 1 3 1] ∧
    ¬ IsResolution [exRow 1 1 1, exRow 1 2 2, exRow 1 2 1, exRow 1 3 1] [exRow 1 1 1, exRow 1 2 2, exRow 1 2 1, exRow 1 3 1] ∧
    pullAllBatch exQa (minIdx exQa) 2 true 5 [[exRow 1 1 1, exRow 1 2 2], [exRow 1 2 1, exRow 1 3 1]] =
        [exRow 1 1 1, exRow 1 2 2, exRow 1 3 1] := by
  refine ⟨by decide, ?_, by decide⟩
  intro h
  have := h.2.2
  revert this
  decide

example : cfg.batchFinishRun = true ∧ 0 < cfg.batchRows := by decide

/-! ## the liaison-side merge of node answers -/

theorem nodeLe_total (desc : Bool) (a b : Row) : (nodeLe desc a b || nodeLe desc b a) = true := by
  unfold nodeLe
  by_cases h : a.ts = b.ts
  · simp only [h, if_true]
    simp only [Bool.or_eq_true, decide_eq_true_eq]
    omega
  · have h' : ¬ b.ts = a.ts := fun e => h e.symm
    cases desc <;> simp only [h, h', if_false, if_true, Bool.false_eq_true, Bool.or_eq_true, decide_eq_true_eq] <;> omega

theorem nodeLe_trans (desc : Bool) (a b c : Row) (h1 : nodeLe desc a b = true) (h2 : nodeLe desc b c = true) :
    nodeLe desc a c = true := by
  unfold nodeLe at *
  cases desc <;> (split at h1 <;> split at h2 <;> split <;> simp at * <;> omega)

/-- **Highest version wins across nodes**: the merge of the data nodes' answers holds every (series, timestamp) of any
    answer exactly once, with a returned row of the greatest version any node returned for it, ordered by time in the
    requested direction. (C02's "no matter which parts they live in", the parts being nodes.) -/
theorem nodeMerge_spec (desc : Bool) (nodes : List (List Row)) :
    IsResolution nodes.flatten (nodeMerge desc nodes) ∧
      (nodeMerge desc nodes).Pairwise (fun a b => nodeLe desc a b = true) := by
  have hperm : (nodeMerge desc nodes).Perm (resolve nodes.flatten) := List.mergeSort_perm _ _
  obtain ⟨h1, h2, h3⟩ := resolve_isResolution nodes.flatten
  refine ⟨⟨fun o ho => h1 o (hperm.mem_iff.1 ho), fun r hr => ?_, ?_⟩, ?_⟩
  · obtain ⟨o, ho, hd⟩ := h2 r hr
    exact ⟨o, hperm.mem_iff.2 ho, hd⟩
  · exact (hperm.pairwise_iff (fun h hs => h ⟨hs.1.symm, hs.2.symm⟩)).2 h3
  · exact List.pairwise_mergeSort (nodeLe_trans desc) (nodeLe_total desc) _

example : resolve [[exRow 1 1 5, exRow 2 1 1], [exRow 1 1 5, exRow 2 1 3]].flatten = [exRow 1 1 5, exRow 2 1 3] := by decide

/-- non-vacuity of the hypotheses: the configuration the check runs (after the F8 repair) and a
    query over non-zero series; a tie-free multiset written in two different ways -/
example : cfg.fixedInit = true := rfl
example : ¬ (0 ∈ exQ.sids) := by decide
example : (written [.batch [exRow 1 0 1, exRow 1 0 3], .flush [0], .batch [exRow 1 4 1]]).Perm
    (written [.batch [exRow 1 4 1, exRow 1 0 3], .batch [exRow 1 0 1], .merge [0, 1]]) := by decide
example : TieFree (written [.batch [exRow 1 0 1, exRow 1 0 3], .flush [0], .batch [exRow 1 4 1]]) := by
  unfold TieFree; decide

end Banyan.C02
