/-
C03 — Flush and merge never change what queries return.

Theorems over the Store transition system `step ∈ {introduce b, flush P, merge P}` of
`Banyan/Model/Store.lean` (mirrors of `tsTable.flush`/`introduceFlushed`, `mergeParts`/`mergeBlocks`/
`introduceMerged`, `queryResult`).
-/
import Banyan.Props.C02
import Banyan.Model.C03

namespace Banyan.C03
open Banyan.Store

/-! ## flush -/

/-- `flush_content`: a flushed part holds the blocks of its memory part (the model's flush changes the
    medium only; that the column files decode to what was encoded is C11's theorem and is exercised by
    the correspondence check), so the table content and every query answer are unchanged -/
theorem flush_content (t : Table) (labels : List Nat) (q : Query) :
    (t.flush labels).rows = t.rows ∧ (t.flush labels).query q = t.query q := by
  refine ⟨flush_rows t labels, ?_⟩
  rw [flush_eq]
  unfold Table.query
  simp only []
  have hmm : ∀ p : Part, partMinMax (flushPart labels p) = partMinMax p := by
    intro p; unfold partMinMax; rw [flushPart_blocks]
  congr 1
  rw [List.filter_map, List.map_map]
  have hf : ((fun p => !(decide (q.tmax < (partMinMax p).1) || decide (q.tmin > (partMinMax p).2))) ∘ flushPart labels) =
      (fun p => !(decide (q.tmax < (partMinMax p).1) || decide (q.tmin > (partMinMax p).2))) := by
    funext p; simp [Function.comp, hmm]
  have hg : ((fun p : Part => p.blocks) ∘ flushPart labels) = (fun p : Part => p.blocks) := by
    funext p; simp [Function.comp, flushPart_blocks]
  rw [hf, hg]

/-! ## merge -/

/-- `mergeParts_spec`: for any list of parts with valid blocks, in any order of the block stream: the
    merged part's blocks satisfy the block invariant (one series, strictly increasing timestamps,
    sound metadata) and its rows refine the union of the inputs (nothing invented; every key kept
    with a version ≥ all input versions). NOT proved – because false for the code – is
    `rows (mergeParts ps) = resolve (⋃ rows)`: when a full pending block (`isFull`) ends at the
    timestamp the next block starts with (`max <= min`), or on the split path, a key can remain in
    two blocks of the output; the query merge resolves it (`merged_part_query`). -/
theorem mergeParts_spec (cfg : Cfg) (parts : List (List Block)) (hv : ∀ p ∈ parts, ∀ b ∈ p, ValidBlock b) :
    (∀ b ∈ mergeParts cfg parts, ValidBlock b) ∧ Refines (parts.flatMap rowsOf) (rowsOf (mergeParts cfg parts)) :=
  C02.mergeParts_spec cfg parts hv

/-- a query over the merged part alone = a resolution of what the input parts held -/
theorem merged_part_query (cfg : Cfg) (parts : List (List Block)) (hv : ∀ p ∈ parts, ∀ b ∈ p, ValidBlock b)
    (q : Query) (h0 : ¬ (0 ∈ q.sids)) :
    IsResolution (covered q (parts.flatMap rowsOf)) (queryParts q [mergeParts cfg parts]) := by
  obtain ⟨h1, h2⟩ := mergeParts_spec cfg parts hv
  have hq := (queryParts_spec q [mergeParts cfg parts] (by intro p hp b hb; simp at hp; subst hp; exact h1 b hb) h0).1
  refine IsResolution.of_refines ?_ hq
  have : [mergeParts cfg parts].flatMap rowsOf = rowsOf (mergeParts cfg parts) := by simp
  rw [this]
  exact Refines.filter (inQuery q) (inQuery_sameKey q) h2

/-- the duplicate the exact statement would forbid: a full block ending at t and a block starting at t -/
example : (let a : Block := { sid := 1, rows := [C02.exRow 1 1 1, C02.exRow 1 2 1], bmMin := 1, bmMax := 2, bmCount := 2, bmSize := 32 }
           let b : Block := { sid := 1, rows := [C02.exRow 1 2 5], bmMin := 2, bmMax := 2, bmCount := 1, bmSize := 16 }
           rowsOf (mergeStream { maxLen := 2, maxSize := 1000 } [a, b]).out) =
    [C02.exRow 1 1 1, C02.exRow 1 2 1, C02.exRow 1 2 5] := by decide

/-! ## the property -/

theorem run_append (cfg : Cfg) (ops ms : List Op) :
    Table.run cfg (ops ++ ms) = ms.foldl (Table.step cfg) (Table.run cfg ops) := by
  unfold Table.run; rw [List.foldl_append]

theorem written_append_maintenance (ops ms : List Op) (hm : ∀ m ∈ ms, Op.isMaintenance m = true) :
    written (ops ++ ms) = written ops := by
  unfold written
  rw [List.flatMap_append]
  have : ms.flatMap opRows = [] := by
    induction ms with
    | nil => rfl
    | cons m rest ih =>
      simp only [List.flatMap_cons]
      rw [ih fun x hx => hm x (List.mem_cons_of_mem _ hx)]
      have := hm m List.mem_cons_self
      cases m <;> simp_all [Op.isMaintenance, opRows]
  rw [this]; simp

/-- **Maintenance is invisible.** For every reachable table state `S = run ops`, every sequence `ms` of
    flush/merge steps over any subsets of parts, and every query over series ≠ 0:
    * the answer after the steps has the same (series, timestamp) keys with the same versions as before;
    * when no two different written rows share (series, timestamp, version), it is literally the same
      list of rows. (On a genuine version tie the winner is implementation-defined – C02 – and a merge
      may change which of the tied rows wins.) -/
theorem maintenance_invisible (cfg : Cfg) (hfix : cfg.fixedInit = true) (ops ms : List Op)
    (hm : ∀ m ∈ ms, Op.isMaintenance m = true) (q : Query) (h0 : ¬ (0 ∈ q.sids)) :
    let before := (Table.run cfg ops).query q
    let after := (ms.foldl (Table.step cfg) (Table.run cfg ops)).query q
    (∀ x ∈ after, ∃ y ∈ before, SameKey x y ∧ x.ver = y.ver) ∧
    (∀ y ∈ before, ∃ x ∈ after, SameKey y x ∧ y.ver = x.ver) ∧
    (TieFree (written ops) → after = before) := by
  intro before after
  have hw : (written (ops ++ ms)).Perm (written ops) := by
    rw [written_append_maintenance ops ms hm]
  have h1 := C02.version_wins_order_independent cfg hfix (ops ++ ms) ops hw q h0
  have h2 := C02.version_wins_order_independent cfg hfix ops (ops ++ ms) hw.symm q h0
  rw [run_append] at h1 h2
  refine ⟨h1.1, h2.1, fun ht => h1.2 ?_⟩
  rw [written_append_maintenance ops ms hm]; exact ht

/-- the same on the columnar read path (`PullBatch`, batch cut as repaired by fixes/F57.diff) -/
theorem maintenance_invisible_batch (cfg : Cfg) (hfix : cfg.fixedInit = true) (hb : cfg.batchFinishRun = true)
    (hmr : 0 < cfg.batchRows) (ops ms : List Op)
    (hm : ∀ m ∈ ms, Op.isMaintenance m = true) (q : Query) (h0 : ¬ (0 ∈ q.sids)) :
    let before := (Table.run cfg ops).queryBatch cfg q
    let after := (ms.foldl (Table.step cfg) (Table.run cfg ops)).queryBatch cfg q
    (∀ x ∈ after, ∃ y ∈ before, SameKey x y ∧ x.ver = y.ver) ∧
    (∀ y ∈ before, ∃ x ∈ after, SameKey y x ∧ y.ver = x.ver) ∧
    (TieFree (written ops) → after = before) := by
  intro before after
  have e1 : before = (Table.run cfg ops).query q := C02.batch_path_eq_row_path cfg hfix hb hmr ops q h0
  have e2 : after = (ms.foldl (Table.step cfg) (Table.run cfg ops)).query q := by
    show (ms.foldl (Table.step cfg) (Table.run cfg ops)).queryBatch cfg q = _
    rw [← run_append]
    exact C02.batch_path_eq_row_path cfg hfix hb hmr (ops ++ ms) q h0
  rw [e1, e2]
  exact maintenance_invisible cfg hfix ops ms hm q h0

/-- single step form -/
theorem maintenance_step_invisible (cfg : Cfg) (hfix : cfg.fixedInit = true) (ops : List Op) (m : Op)
    (hm : Op.isMaintenance m = true) (q : Query) (h0 : ¬ (0 ∈ q.sids)) (ht : TieFree (written ops)) :
    (Table.step cfg (Table.run cfg ops) m).query q = (Table.run cfg ops).query q := by
  have := (maintenance_invisible cfg hfix ops [m] (by intro x hx; simp at hx; subst hx; exact hm) q h0).2.2 ht
  simpa using this

/-- and every answer, before or after, is the resolution of what was written -/
theorem query_after_maintenance (cfg : Cfg) (hfix : cfg.fixedInit = true) (ops ms : List Op)
    (hm : ∀ m ∈ ms, Op.isMaintenance m = true) (q : Query) (h0 : ¬ (0 ∈ q.sids)) :
    IsResolution (covered q (written ops)) ((ms.foldl (Table.step cfg) (Table.run cfg ops)).query q) := by
  have := (C02.version_wins_any_history cfg hfix (ops ++ ms) q h0).1
  rw [run_append, written_append_maintenance ops ms hm] at this
  exact this

example : ∀ m ∈ [Op.flush [0, 1], Op.merge [0, 1], Op.merge [2]], Op.isMaintenance m = true := by decide

/-! ## conflicting tag types -/

theorem append_sep_inj {n1 n2 s1 s2 : Name} (h1 : sep ∉ n1) (h2 : sep ∉ n2)
    (h : n1 ++ sep :: s1 = n2 ++ sep :: s2) : n1 = n2 ∧ s1 = s2 := by
  induction n1 generalizing n2 with
  | nil =>
    cases n2 with
    | nil => simp at h; exact ⟨rfl, h⟩
    | cons b bs =>
      simp at h
      exact absurd (h.1 ▸ List.mem_cons_self) h2
  | cons a as ih =>
    cases n2 with
    | nil =>
      simp at h
      exact absurd (h.1.symm ▸ List.mem_cons_self) h1
    | cons b bs =>
      simp at h
      have := ih (n2 := bs) (fun hm => h1 (List.mem_cons_of_mem _ hm)) (fun hm => h2 (List.mem_cons_of_mem _ hm)) h.2
      exact ⟨by rw [h.1, this.1], this.2⟩

/-- `suffixToValueType` -/
def tyOfSuffix (s : Name) : Option Ty :=
  if s = "str".toList then some 's' else if s = "int".toList then some 'i' else if s = "bin".toList then some 'b'
  else if s = "str_arr".toList then some 'A' else if s = "int_arr".toList then some 'I' else none

theorem tyOfSuffix_suffixOf {t : Ty} {s : Name} (h : suffixOf t = some s) : tyOfSuffix s = some t := by
  unfold suffixOf at h
  split at h
  · rename_i e; simp at h; subst h; subst e; decide
  · split at h
    · rename_i e; simp at h; subst h; subst e; decide
    · split at h
      · rename_i e; simp at h; subst h; subst e; decide
      · split at h
        · rename_i e; simp at h; subst h; subst e; decide
        · split at h
          · rename_i e; simp at h; subst h; subst e; decide
          · simp at h

theorem suffixOf_inj {t1 t2 : Ty} {s : Name} (h1 : suffixOf t1 = some s) (h2 : suffixOf t2 = some s) : t1 = t2 := by
  have a := tyOfSuffix_suffixOf h1
  have b := tyOfSuffix_suffixOf h2
  rw [a] at b; simpa using b

/-- **`conflict_rename_total`**: with conflicting tag types across the inputs of a merge, every input
    column (family, name, type) keeps a column of its own in the output – under `name` when its name
    is used with one type only, under `encodeTypedColumn name type` otherwise; two different input
    columns of a family never land on the same output name, so none is dropped or overwritten.
    Hypotheses: tag names do not contain `#`; types are the five tag value types. -/
theorem conflict_rename_total (cols : List TagCol) (hn : ∀ c ∈ cols, sep ∉ c.name)
    (ht : ∀ c ∈ cols, (suffixOf c.ty).isSome = true) (c d : TagCol) (hc : c ∈ cols) (hd : d ∈ cols)
    (hf : c.fam = d.fam) (h : renamed cols c = renamed cols d) : c = d := by
  have hsc := ht c hc
  have hsd := ht d hd
  obtain ⟨sc, hsc⟩ := Option.isSome_iff_exists.1 hsc
  obtain ⟨sd, hsd⟩ := Option.isSome_iff_exists.1 hsd
  have key : c.name = d.name → c.ty = d.ty → c = d := by
    intro h1 h2; cases c; cases d; simp_all
  unfold renamed at h
  by_cases c1 : inConflict cols c = true <;> by_cases c2 : inConflict cols d = true
  · rw [if_pos c1, if_pos c2] at h
    unfold encodeTypedColumn at h
    rw [hsc, hsd] at h
    obtain ⟨hname, hsuf⟩ := append_sep_inj (hn c hc) (hn d hd) h
    exact key hname (suffixOf_inj hsc (hsuf ▸ hsd))
  · rw [if_pos c1, if_neg c2] at h
    unfold encodeTypedColumn at h
    rw [hsc] at h
    exfalso
    apply hn d hd
    rw [← h]; simp
  · rw [if_neg c1, if_pos c2] at h
    unfold encodeTypedColumn at h
    rw [hsd] at h
    exfalso
    apply hn c hc
    rw [h]; simp
  · rw [if_neg c1, if_neg c2] at h
    refine key h ?_
    -- same family and name, no conflict: the type is the same
    by_cases hty : c.ty = d.ty
    · exact hty
    · exfalso
      apply c1
      unfold inConflict
      rw [List.any_eq_true]
      refine ⟨d, hd, ?_⟩
      simp only [Bool.and_eq_true, beq_iff_eq, bne_iff_ne, ne_eq]
      exact ⟨⟨hf.symm, h.symm⟩, fun e => hty e.symm⟩

example : renamed [⟨"tf".toList, "a".toList, 's'⟩, ⟨"tf".toList, "a".toList, 'i'⟩, ⟨"tf".toList, "b".toList, 'i'⟩]
    ⟨"tf".toList, "a".toList, 'i'⟩ = "a#int".toList := by decide

/-! ## ordered secondary index (thin multiset model, `Banyan/Model/C03.lean`) -/

theorem hull_some : ∀ (rs : List (Option (Int × Int))) (lo hi : Int), hull rs = some (lo, hi) →
    ∀ r ∈ rs, ∃ a b, r = some (a, b) ∧ lo ≤ a ∧ b ≤ hi := by
  intro rs
  induction rs with
  | nil => intro lo hi h; simp [hull] at h
  | cons r rest ih =>
    intro lo hi h x hx
    cases rest with
    | nil =>
      simp at hx; subst hx
      simp only [hull] at h
      exact ⟨lo, hi, h, Int.le_refl _, Int.le_refl _⟩
    | cons r2 rest2 =>
      simp only [hull] at h
      cases hr : r with
      | none => rw [hr] at h; simp at h
      | some ab =>
        obtain ⟨a, b⟩ := ab
        cases hh : hull (r2 :: rest2) with
        | none => rw [hr, hh] at h; simp at h
        | some cd =>
          obtain ⟨c, d⟩ := cd
          rw [hr, hh] at h
          simp at h
          obtain ⟨h1, h2⟩ := h
          rcases List.mem_cons.1 hx with hx | hx
          · exact ⟨a, b, hx.trans hr, by omega, by omega⟩
          · obtain ⟨a', b', e, l1, l2⟩ := ih c d hh x hx
            exact ⟨a', b', e, by omega, by omega⟩

theorem overlaps_mono (q : SQuery) {a b lo hi : Int} (h1 : lo ≤ a) (h2 : b ≤ hi)
    (h : q.overlaps (some (a, b)) = true) : q.overlaps (some (lo, hi)) = true := by
  unfold SQuery.overlaps at *
  simp only [] at *
  cases hm : q.minTs <;> cases hM : q.maxTs <;> simp_all <;> omega

/-- a well-formed part (range covers its elements) is selected by every query whose timestamp range
    contains one of its elements: no false negatives from the part-level pruning -/
theorem sidx_exact_covered (parts : List SPart) (hwf : ∀ p ∈ parts, p.wf) (q : SQuery) :
    ∀ e ∈ sExact parts q, e ∈ sQuery parts q := by
  intro e he
  unfold sExact at he
  unfold sQuery
  rw [List.mem_flatMap] at he ⊢
  obtain ⟨p, hp, hep⟩ := he
  rw [List.mem_filter] at hep
  simp only [Bool.and_eq_true] at hep
  refine ⟨p, List.mem_filter.2 ⟨hp, ?_⟩, List.mem_filter.2 ⟨hep.1, hep.2.1⟩⟩
  cases hr : p.range with
  | none => rfl
  | some ab =>
    obtain ⟨lo, hi⟩ := ab
    have hb := hwf p hp lo hi hr e hep.1
    have ht := hep.2.2
    unfold SQuery.tsIn at ht
    unfold SQuery.overlaps
    simp only []
    cases hm : q.minTs <;> cases hM : q.maxTs <;> simp_all <;> omega

theorem sMerge_mem {parts : List SPart} {ids : List Nat} {n : Nat} {p : SPart} (hp : p ∈ sMerge false parts ids n) :
    (p ∈ parts ∧ ids.contains p.id = false) ∨
    (p.elems = (parts.filter fun x => ids.contains x.id).flatMap (·.elems) ∧
      p.range = hull ((parts.filter fun x => ids.contains x.id).map (·.range))) ∨ p ∈ parts := by
  unfold sMerge at hp
  simp only [Bool.false_eq_true, if_false] at hp
  split at hp
  · exact Or.inr (Or.inr hp)
  · rcases List.mem_append.1 hp with h | h
    · rw [List.mem_filter] at h
      exact Or.inl ⟨h.1, by simpa using h.2⟩
    · rw [List.mem_singleton] at h; subst h
      exact Or.inr (Or.inl ⟨rfl, rfl⟩)

/-- the repaired merge keeps every part well-formed -/
theorem sMerge_wf (parts : List SPart) (ids : List Nat) (n : Nat) (hwf : ∀ p ∈ parts, p.wf) :
    ∀ p ∈ sMerge false parts ids n, p.wf := by
  intro p hp
  rcases sMerge_mem hp with h | ⟨he, hr⟩ | h
  · exact hwf p h.1
  · intro lo hi hrange e hemem
    rw [he] at hemem
    rw [hr] at hrange
    obtain ⟨x, hx, hex⟩ := List.mem_flatMap.1 hemem
    obtain ⟨a, b, hab, l1, l2⟩ := hull_some _ lo hi hrange x.range (List.mem_map_of_mem hx)
    have := hwf x (List.mem_filter.1 hx).1 a b hab e hex
    omega
  · exact hwf p h

/-- **a merge never loses an answer**: every element a query returned before the merge of any chosen
    parts is returned after it – for every key range, series set and timestamp range (the merged part's
    range is the hull of the inputs', or absent as soon as one input has none) -/
theorem sidx_merge_monotone (parts : List SPart) (ids : List Nat) (n : Nat) (q : SQuery) :
    ∀ e ∈ sQuery parts q, e ∈ sQuery (sMerge false parts ids n) q := by
  intro e he
  unfold sQuery at he ⊢
  obtain ⟨p, hp, hep⟩ := List.mem_flatMap.1 he
  rw [List.mem_filter] at hp
  unfold sMerge
  simp only [Bool.false_eq_true, if_false]
  split
  · exact List.mem_flatMap.2 ⟨p, List.mem_filter.2 hp, hep⟩
  · rename_i hne
    by_cases hc : ids.contains p.id = true
    · -- p was merged: the new part holds its elements and its range is at least as wide
      refine List.mem_flatMap.2 ⟨_, List.mem_filter.2 ⟨List.mem_append.2 (Or.inr (List.mem_singleton.2 rfl)), ?_⟩, ?_⟩
      · simp only []
        cases hh : hull ((parts.filter fun x => ids.contains x.id).map (·.range)) with
        | none => rfl
        | some lh =>
          obtain ⟨lo, hi⟩ := lh
          have hpm : p ∈ parts.filter fun x => ids.contains x.id := List.mem_filter.2 ⟨hp.1, hc⟩
          obtain ⟨a, b, hab, l1, l2⟩ := hull_some _ lo hi hh p.range (List.mem_map_of_mem hpm)
          have := hp.2
          rw [hab] at this
          exact overlaps_mono q l1 l2 this
      · simp only []
        rw [List.mem_filter] at hep ⊢
        exact ⟨List.mem_flatMap.2 ⟨p, List.mem_filter.2 ⟨hp.1, hc⟩, hep.1⟩, hep.2⟩
    · refine List.mem_flatMap.2 ⟨p, List.mem_filter.2 ⟨List.mem_append.2 (Or.inl (List.mem_filter.2 ⟨hp.1, by simpa using hc⟩)), hp.2⟩, hep⟩

/-- the multiset of stored elements is unchanged by a merge, hence so is what every query is entitled
    to (`sExact`), and – for queries without a timestamp range – the answer itself -/
theorem sidx_merge_preserves (parts : List SPart) (ids : List Nat) (n : Nat) (q : SQuery) :
    (sExact (sMerge false parts ids n) q).Perm (sExact parts q) ∧
    (q.minTs = none → q.maxTs = none → (sQuery (sMerge false parts ids n) q).Perm (sQuery parts q)) := by
  have key : ∀ (f : SElem → Bool), ((sMerge false parts ids n).flatMap fun p => p.elems.filter f).Perm
      (parts.flatMap fun p => p.elems.filter f) := by
    intro f
    unfold sMerge
    simp only [Bool.false_eq_true, if_false]
    split
    · exact List.Perm.refl _
    · simp only [List.flatMap_append, List.flatMap_cons, List.flatMap_nil, List.append_nil]
      have h1 : ((parts.filter fun x => ids.contains x.id).flatMap (·.elems)).filter f =
          (parts.filter fun x => ids.contains x.id).flatMap fun p => p.elems.filter f := by
        rw [List.filter_flatMap]
      rw [h1, ← List.flatMap_append]
      refine List.Perm.flatMap_right _ ?_
      exact List.perm_append_comm.trans (List.filter_append_perm _ parts)
  refine ⟨key _, fun h1 h2 => ?_⟩
  have hall : ∀ r, q.overlaps r = true := by
    intro r; unfold SQuery.overlaps; cases r <;> simp [h1, h2]
  unfold sQuery
  have e1 : ∀ ps : List SPart, ps.filter (fun p => q.overlaps p.range) = ps := by
    intro ps; rw [List.filter_eq_self]; intro p _; exact hall p.range
  rw [e1, e1]
  exact key _

/-- the pinned aggregation (minimum/maximum over the inputs that have a bound): a part without a range,
    merged with a part that has one, inherits that range and its elements vanish from timestamp
    queries (finding F56) -/
theorem sidx_merge_legacy_counterexample :
    let parts : List SPart := [⟨1, [⟨1, 5, "a", 350⟩], none⟩, ⟨2, [⟨1, 6, "b", 150⟩], some (100, 200)⟩]
    let q : SQuery := { sids := [1], minKey := none, maxKey := none, minTs := some 300, maxTs := some 400, desc := false }
    sQuery parts q = [⟨1, 5, "a", 350⟩] ∧ sQuery (sMerge true parts [1, 2] 3) q = [] ∧
      sQuery (sMerge false parts [1, 2] 3) q = [⟨1, 5, "a", 350⟩, ⟨1, 6, "b", 150⟩] := by
  decide

example : (⟨2, [⟨1, 6, "b", 150⟩], some (100, 200)⟩ : SPart).wf := by
  intro lo hi h e he
  simp at h he
  obtain ⟨rfl, rfl⟩ := h
  subst he
  decide

end Banyan.C03
