import Banyan.Model.C04
namespace Banyan.C04
end Banyan.C04
