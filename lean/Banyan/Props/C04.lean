/-
C04 — A crash at any point recovers to a consistent durable prefix.

Theorems about the models `Banyan/Model/FS.lean` (file system with volatile/durable views, `kill -9` and
power-loss crash relations) and `Banyan/Model/C04.lean` (system-call order of `WriteAtomic`, `flushPart`,
`mergeParts`, `persistSnapshot`, `gc.clean`, part removal; the startup recovery `initTSTable`).
The correspondence of those models with the Go code is checked by `checks/C04.py` (trace tie, recovery tie).
-/
import Banyan.Lemmas.C04Inv12
import Banyan.Lemmas.C04Atomic
import Banyan.Lemmas.C04RecSpec
import Banyan.Lemmas.C04AccBridge
import Banyan.Lemmas.C04Pub
import Banyan.Lemmas.C04Trunc

namespace Banyan.C04
open Banyan.FS

/-! ## 1. `WriteAtomic` is atomic and durable (see `Lemmas/C04Atomic.lean`)

`writeAtomic_atomic`, `writeAtomic_durable` are re-exported from there. -/

/-! ## 2. `recovery_spec` (see `Lemmas/C04Recover.lean`) -/

/-! ## 3. every crash of every history recovers -/

/-- the state after the history `os` and the first `k` system calls of one more operation `o` -/
def cutState (e : Nat) (os : List Op) (o : Op) (k : Nat) : St :=
  run (run ({} : St) (histSteps { epoch := e } os)) (((opSteps (histTbl { epoch := e } os) o).1).take k)

/-- every cut point of the concatenated step list of a history is such a state -/
theorem cut_decomposition (e : Nat) (os : List Op) (o : Op) (k : Nat)
    (hk : k ≤ ((opSteps (histTbl { epoch := e } os) o).1).length) :
    cutState e os o k =
      run ({} : St) ((histSteps { epoch := e } os ++ (opSteps (histTbl { epoch := e } os) o).1).take
        ((histSteps { epoch := e } os).length + k)) := by
  unfold cutState
  rw [List.take_append, List.take_of_length_le (Nat.le_add_right _ _), run_append]
  simp

/-- What startup delivers after a crash: it opens; every served part is complete (all eight files with their
    full content, covering exactly the batches its `metadata.json` names); nothing but the loaded manifest and
    the served parts' files is left in the directory (`leftovers_removed`); and the served snapshot is the set
    of valid parts listed by a manifest. -/
structure RecoversOK (t : Tree) : Prop where
  opens : ∃ r, recover t = .ok r ∧ PartsComplete r ∧ ∃ live, NoLeftovers live r ∧ (r.parts ≠ [] → r.epoch = live)

theorem recoversOK_of_inv {G : Ghost} {s : St} (h : Inv G s) {m : NS Name} {data : Nat → Content}
    (hN : NSOK G m) (hd : DataOK s data) : RecoversOK (resolve m data) := by
  rcases treeOK_of_nsok h.gwf hN h.stable hd with ⟨ms, _, _, _, hT⟩ | ⟨_, _, hT0⟩
  · obtain ⟨r, hr, hparts, hep, hc, hl⟩ := recover_treeOK hT
    refine ⟨r, hr, hc, some ms.epoch, hl, ?_⟩
    intro hne
    rw [hep]
    by_cases hem : (served (resolve m data) ms.ids).isEmpty = true
    · exfalso; apply hne; rw [hparts, List.isEmpty_iff.1 hem]; rfl
    · simp [hem]
  · obtain ⟨r, hr, hparts, hep, hl⟩ := recover_treeOK0 hT0
    exact ⟨r, hr, by intro p hp; rw [hparts] at hp; simp at hp, none, hl, fun hne => absurd hparts hne⟩

/-- **kill -9** at any cut point of any history: startup recovers. -/
theorem crash_recovers_kill (e : Nat) (os : List Op) (o : Op) (k : Nat) :
    RecoversOK (crashKill (cutState e os o k)) := by
  obtain ⟨G, h⟩ := inv_at_cut e os o k
  obtain ⟨m, data, ht, hN, hd⟩ := inv_crashKill h
  rw [show crashKill (cutState e os o k) = resolve m data from ht]
  exact recoversOK_of_inv h hN hd

/-- **power loss** at any cut point of any history, whatever subset of the un-fsynced directory operations
    and whatever admissible file data survive: startup recovers. -/
theorem crash_recovers_power (e : Nat) (os : List Op) (o : Op) (k : Nat) (t : Tree)
    (hc : crashPower (cutState e os o k) t) : RecoversOK t := by
  obtain ⟨G, h⟩ := inv_at_cut e os o k
  obtain ⟨m, data, ht, hN, hd⟩ := inv_crashPower h t hc
  rw [ht]
  exact recoversOK_of_inv h hN hd

/-- both crash models at once (the structural part of `crash_recovers_prefix` below) -/
theorem crash_recovers_prefix_partial (e : Nat) (os : List Op) (o : Op) (k : Nat) (t : Tree)
    (hc : t = crashKill (cutState e os o k) ∨ crashPower (cutState e os o k) t) : RecoversOK t := by
  rcases hc with rfl | hc
  · exact crash_recovers_kill e os o k
  · exact crash_recovers_power e os o k t hc

/-- the batches acknowledged before the crash -/
def ackedAt (e : Nat) (os : List Op) : List Nat := (histTbl { epoch := e } os).acked

/-- the batches covered by file parts of a table state (what its last publication covers) -/
def coveredBy (tb : Tbl) : List Nat := (tb.parts.filter (fun p => !p.mem)).flatMap (·.batches)

/-- the batches a recovery result serves -/
def servedBatches (r : Rec) : List Nat := r.parts.flatMap (·.2)

theorem mem_take_of_le {l : List Nat} {m n : Nat} (h : m ≤ n) {b : Nat} (hb : b ∈ l.take m) : b ∈ l.take n := by
  have : l.take m = (l.take n).take m := by rw [List.take_take, Nat.min_eq_left h]
  rw [this] at hb
  exact List.mem_of_mem_take hb

/-- The batch part of the property, for `initTSTable` as written (`fixed = false`) and with the F14 repair
    (`fixed = true`): after a crash at any cut point, startup opens, every served part is complete, the served
    batches are a prefix of the acknowledged ones, contain what the last published manifest covers, and — once the
    `k` system calls include the operation's own manifest publication — what the new table state covers. -/
theorem crash_recovers_batches (fixed : Bool) (e : Nat) (os : List Op) (o : Op) (k : Nat) (t : Tree)
    (hc : t = crashKill (cutState e os o k) ∨ crashPower (cutState e os o k) t) :
    ∃ r, recoverWith fixed t = .ok r ∧ PartsComplete r ∧
      (∃ j, j ≤ (ackedAt e os).length ∧ (servedBatches r).Perm ((ackedAt e os).take j)) ∧
      (∀ b ∈ coveredBy (histTbl { epoch := e } os), b ∈ servedBatches r) ∧
      ((opPre (histTbl { epoch := e } os) o).length ≤ k →
        ∀ b ∈ coveredBy (opSteps (histTbl { epoch := e } os) o).2, b ∈ servedBatches r) := by
  obtain ⟨G, c, h, hq, h1, h2⟩ := acc_at_cut e os o k
  have hcrash : ∃ (m : NS Name) (data : Nat → Content), t = resolve m data ∧ NSOK G m ∧
      DataOK (cutState e os o k) data := by
    rcases hc with rfl | hc
    · exact inv_crashKill h
    · exact inv_crashPower h t hc
  obtain ⟨m, data, rfl, hN, hd⟩ := hcrash
  obtain ⟨r, hr, hcomp, k', hck, hkA, hperm⟩ := served_batches_of_acc fixed h.gwf hN h.stable hd hq.acc hq.zero
  refine ⟨r, hr, hcomp, ⟨k', hkA, hperm⟩, ?_, ?_⟩
  · intro b hb
    have htb := tb_at e os
    have hb' : b ∈ (histTbl { epoch := e } os).acked.take (fileBatches (histTbl { epoch := e } os)).length :=
      htb.file.mem_iff.1 hb
    exact hperm.mem_iff.2 (mem_take_of_le (Nat.le_trans h1 hck) hb')
  · intro hk b hb
    have htb := tb_after e os o
    have hb' := htb.file.mem_iff.1 hb
    obtain ⟨x, hx⟩ := opSteps_acked (histTbl { epoch := e } os) o
    have hn1 : (fileBatches (opSteps (histTbl { epoch := e } os) o).2).length ≤
        (histTbl { epoch := e } os).acked.length := Nat.le_trans (Nat.le_trans (h2 hk) hck) hkA
    rw [hx, List.take_append_of_le_length hn1] at hb'
    exact hperm.mem_iff.2 (mem_take_of_le (Nat.le_trans (h2 hk) hck) hb')

/-- **C04 on the model.**  Take any history `os`, one more operation `o`, any number `k` of its system calls,
    and crash there — `kill -9`, or power loss with whatever subset of the un-fsynced directory operations and
    whatever admissible file data survive.  Then startup (`recover` = `initTSTable` with the fix for F14)
    * opens, and every served part is complete (`PartsComplete`);
    * leaves nothing in the directory but the loaded manifest and the served parts (`NoLeftovers`);
    * serves a prefix of the acknowledged batches (as a set: a permutation of `acked.take j`);
    * which contains every batch covered by the file parts of the table before `o` — the last durably
      published manifest —
    * and, as soon as the `k` system calls include `o`'s own manifest publication (`opPre`, which ends with
      `rename(<epoch>.snp.tmp, <epoch>.snp); fsync(root)`), every batch covered by the table after `o`. -/
theorem crash_recovers_prefix (e : Nat) (os : List Op) (o : Op) (k : Nat) (t : Tree)
    (hc : t = crashKill (cutState e os o k) ∨ crashPower (cutState e os o k) t) :
    ∃ r, recover t = .ok r ∧ PartsComplete r ∧
      (∃ live, NoLeftovers live r ∧ (r.parts ≠ [] → r.epoch = live)) ∧
      (∃ j, j ≤ (ackedAt e os).length ∧ (servedBatches r).Perm ((ackedAt e os).take j)) ∧
      (∀ b ∈ coveredBy (histTbl { epoch := e } os), b ∈ servedBatches r) ∧
      ((opPre (histTbl { epoch := e } os) o).length ≤ k →
        ∀ b ∈ coveredBy (opSteps (histTbl { epoch := e } os) o).2, b ∈ servedBatches r) := by
  obtain ⟨r, hr, hcomp, h1, h2, h3⟩ := crash_recovers_batches true e os o k t hc
  obtain ⟨r', hr', _, hleft⟩ := (crash_recovers_prefix_partial e os o k t hc).opens
  have hrr : r' = r := by
    have hr2 : recover t = .ok r := hr
    rw [hr2] at hr'; cases hr'; rfl
  subst hrr
  exact ⟨r', hr, hcomp, hleft, h1, h2, h3⟩

/-- The function **as written** at the pinned commit (`recoverLegacy`, without the F14 repair) serves the same
    durable prefix; only `NoLeftovers` is lost (finding F14). -/
theorem crash_recovers_prefix_as_written (e : Nat) (os : List Op) (o : Op) (k : Nat) (t : Tree)
    (hc : t = crashKill (cutState e os o k) ∨ crashPower (cutState e os o k) t) :
    ∃ r, recoverLegacy t = .ok r ∧ PartsComplete r ∧
      (∃ j, j ≤ (ackedAt e os).length ∧ (servedBatches r).Perm ((ackedAt e os).take j)) ∧
      (∀ b ∈ coveredBy (histTbl { epoch := e } os), b ∈ servedBatches r) ∧
      ((opPre (histTbl { epoch := e } os) o).length ≤ k →
        ∀ b ∈ coveredBy (opSteps (histTbl { epoch := e } os) o).2, b ∈ servedBatches r) :=
  crash_recovers_batches false e os o k t hc

/-- Two crashes: after the repaired startup no temporary file is left, so the next publication of a manifest —
    of any epoch, in particular the one whose publication the crash interrupted — starts from the state
    `WriteAtomic` assumes (`Settled.tmpAbsent`).  (The function as written leaves `<epoch>.snp.tmp`:
    `recoverLegacy_leaves_tmp_manifest`; then only `O_TRUNC` protects the republication: `openWrite_trunc`,
    `openWrite_keep_manifest_torn`.) -/
theorem crash_recovers_no_tmp (e : Nat) (os : List Op) (o : Op) (k : Nat) (t : Tree)
    (hc : t = crashKill (cutState e os o k) ∨ crashPower (cutState e os o k) t) :
    ∃ r, recover t = .ok r ∧ ∀ n, exists_ r.tree [.tmp n] = false := by
  obtain ⟨r, hr, _, ⟨live, hl, _⟩, _⟩ := crash_recovers_prefix e os o k t hc
  exact ⟨r, hr, no_tmp_after_recover hl⟩

/-- The same with the publication recognised in the system calls themselves: once the `k` system calls contain
    `rename(<epoch>.snp.tmp, <epoch>.snp)` followed by `fsync(root)` (`pubDone`), every batch covered by the
    new table state is served after the crash. -/
theorem crash_recovers_published (e : Nat) (os : List Op) (o : Op) (k : Nat) (t : Tree)
    (hc : t = crashKill (cutState e os o k) ∨ crashPower (cutState e os o k) t)
    (hpub : pubDone (((opSteps (histTbl { epoch := e } os) o).1).take k) = true) :
    ∃ r, recover t = .ok r ∧
      ∀ b ∈ coveredBy (opSteps (histTbl { epoch := e } os) o).2, b ∈ servedBatches r := by
  obtain ⟨r, hr, _, _, _, _, h3⟩ := crash_recovers_prefix e os o k t hc
  exact ⟨r, hr, h3 (pubDone_take_opPre _ _ _ hpub)⟩

/-! ### non-vacuity: a concrete history, a concrete cut, a concrete power-loss outcome -/

/-- the durable tree itself (no pending operation survives, durable data) is a power-loss outcome -/
theorem crashPower_durable (s : St) (hp : ∀ i, s.ddataOf i <+: s.vdataOf i) :
    crashPower s (resolve s.dur s.ddataOf) :=
  ⟨[], s.ddataOf, List.nil_sublist _, fun i => ⟨List.prefix_refl _, hp i⟩, rfl⟩

example : RecoversOK (resolve (cutState 256 [.batch 1, .flush, .batch 2] .flush 30).dur
    (cutState 256 [.batch 1, .flush, .batch 2] .flush 30).ddataOf) := by
  obtain ⟨G, h⟩ := inv_at_cut 256 [.batch 1, .flush, .batch 2] .flush 30
  exact crash_recovers_power 256 _ _ 30 _ (crashPower_durable _ h.dataPrefix)

/-- the premises of `crash_recovers_prefix` are satisfiable and its conclusion has content: after batches 1 and 2,
    a crash right after the second flush's manifest publication (its first 44 system calls) serves both -/
example : ∃ r, recover (crashKill (cutState 256 [.batch 1, .flush, .batch 2] .flush 44)) = .ok r ∧
    1 ∈ servedBatches r ∧ 2 ∈ servedBatches r := by
  obtain ⟨r, hr, _, _, _, _, h3⟩ := crash_recovers_prefix 256 [.batch 1, .flush, .batch 2] .flush 44 _ (Or.inl rfl)
  exact ⟨r, hr, h3 (by decide) 1 (by decide), h3 (by decide) 2 (by decide)⟩

/-- … while one system call earlier (the root directory not yet fsynced) a power loss may lose the rename: only
    batch 1, covered by the previous manifest, is guaranteed -/
example : ∃ r, recover (resolve (cutState 256 [.batch 1, .flush, .batch 2] .flush 43).dur
    (cutState 256 [.batch 1, .flush, .batch 2] .flush 43).ddataOf) = .ok r ∧ 1 ∈ servedBatches r := by
  obtain ⟨G, h⟩ := inv_at_cut 256 [.batch 1, .flush, .batch 2] .flush 43
  obtain ⟨r, hr, _, _, _, h2, _⟩ := crash_recovers_prefix 256 [.batch 1, .flush, .batch 2] .flush 43 _
    (Or.inr (crashPower_durable _ h.dataPrefix))
  exact ⟨r, hr, h2 1 (by decide)⟩

/-! ## 4. the function as written leaves leftovers (finding F14) -/

/-- a crash between `rename(<epoch>.snp.tmp, <epoch>.snp)` and `gc.clean`: `initTSTable` as written keeps the
    older manifest for ever; the repaired function removes it. -/
def legacyTree : Tree :=
  [([.snp 1], .file (encList [1])), ([.snp 2], .file (encList [1])), ([.part 1], .dir)] ++
    [PFile.mt, .primary, .timestamps, .fv, .tf, .tfm, .tagType, .metadata].map
      (fun f => (pfile 1 f, TNode.file (fileContent f [7])))

theorem recoverLegacy_leaves_stale_manifest :
    (match recoverLegacy legacyTree with
      | .ok r => exists_ r.tree [.snp 1] && exists_ r.tree [.snp 2]
      | .panic _ => false) = true := by decide

theorem recover_removes_stale_manifest :
    (match recover legacyTree with
      | .ok r => !exists_ r.tree [.snp 1] && exists_ r.tree [.snp 2] && r.parts == [(1, [7])]
      | .panic _ => false) = true := by decide

/-- a crash before the rename leaves `<epoch>.snp.tmp`, which `initTSTable` as written never removes -/
theorem recoverLegacy_leaves_tmp_manifest :
    (match recoverLegacy (([.tmp (.snp 3)], .file [2]) :: legacyTree) with
      | .ok r => exists_ r.tree [.tmp (.snp 3)]
      | .panic _ => false) = true := by decide

theorem recover_removes_tmp_manifest :
    (match recover (([.tmp (.snp 3)], .file [2]) :: legacyTree) with
      | .ok r => !exists_ r.tree [.tmp (.snp 3)] && r.parts == [(1, [7])]
      | .panic _ => false) = true := by decide

end Banyan.C04
