/-
C04, segment level — theorems about `Model/C04Seg.lean` (`segmentController.create` / `open`).

`crashTrees atomic k cut` lists **every** crash outcome after the first `cut` system calls of `k` segment creations
(each followed by the creation of a table that makes one file durable): the `kill -9` tree and, for power loss,
every sublist of the pending directory operations with every admissible data (the executable form of
`FS.crashPower`).
`recoversOK`: start-up opens; every segment whose table holds rows survives with them; no half-born directory
is left.
-/
import Banyan.Model.C04Seg
import Banyan.Lemmas.C04SegEnum
import Banyan.Props.C04SegFirst

namespace Banyan.C04Seg
open Banyan.FS

/-- **With the metadata written through `WriteAtomic`** (repair F04s): three segments, every cut point, every
    crash outcome of either crash relation — start-up recovers. -/
theorem seg_crash_recovers_atomic :
    (List.range ((history true 3).length + 1)).all (fun cut => (crashTrees true 3 cut).all recoversOK) = true := by
  have h1 := seg_crash_recovers_atomic_first
  have h2 : ((List.range 22).map (· + 24)).all (fun cut => (crashTrees true 3 cut).all recoversOK) = true := by decide
  rw [List.all_eq_true] at h1 h2 ⊢
  intro cut hcut
  have hlen : (history true 3).length = 45 := by decide
  rw [hlen, List.mem_range] at hcut
  by_cases hlo : cut < 24
  · exact h1 cut (List.mem_range.2 hlo)
  · exact h2 cut (List.mem_map.2 ⟨cut - 24, List.mem_range.2 (by omega), by omega⟩)

/-! ### the same, about the crash relations themselves (`mem_crashTrees`: the enumeration is complete) -/

/-- **With the repair**: three segments, any number of system calls, `kill -9` or any power-loss outcome
    (`FS.crashPower`: any subset of the pending directory operations, any admissible data) — start-up opens, every
    segment whose table holds rows survives with them, no half-born directory is left. -/
theorem seg_crash_recovers (cut : Nat) (t : Tree)
    (h : t = crashKill (cutState true 3 cut) ∨ crashPower (cutState true 3 cut) t) : recoversOK t = true := by
  have hall := seg_crash_recovers_atomic
  rw [List.all_eq_true] at hall
  by_cases hc : cut ≤ (history true 3).length
  · have h1 := hall cut (List.mem_range.2 (by omega))
    rw [List.all_eq_true] at h1
    exact h1 t (mem_crashTrees true 3 cut t h)
  · have heq : cutState true 3 cut = cutState true 3 (history true 3).length := by
      unfold cutState
      rw [List.take_of_length_le (by omega), List.take_length]
    rw [heq] at h
    have h1 := hall (history true 3).length (List.mem_range.2 (by omega))
    rw [List.all_eq_true] at h1
    exact h1 t (mem_crashTrees true 3 _ t h)

end Banyan.C04Seg
