/-
C04, segment level — theorems about `Model/C04Seg.lean` (`segmentController.create` / `open`).

`crashTrees atomic k cut` lists **every** crash outcome after the first `cut` system calls of `k` segment creations
(each followed by the creation of a table that makes one file durable): the `kill -9` tree and, for power loss,
every sublist of the pending directory operations with every admissible data (the executable form of
`FS.crashPower`).
`recoversOK`: start-up opens; every segment whose table holds rows survives with them; no half-born directory
is left.
-/
import Banyan.Model.C04Seg

namespace Banyan.C04Seg
open Banyan.FS

/-- **With the metadata written through `WriteAtomic`** (repair F04s): three segments, every cut point, every
    crash outcome of either crash relation — start-up recovers. -/
theorem seg_crash_recovers_atomic :
    (List.range ((history true 3).length + 1)).all (fun cut => (crashTrees true 3 cut).all recoversOK) = true := by
  decide

/-- **As written** the property fails.  A power loss right after the first table of the first segment became
    durable (cut 9 = `create` … `fsync(data)`, before anything else): the directory entry `seg/metadata` is durable
    (the shard's `mkdir` fsynced `seg`), its content is not; start-up classifies the segment as half-born and
    removes it together with the table's rows. -/
theorem seg_as_written_loses_rows :
    (crashTrees false 1 ((createSeg false 0).length + 5)).any (fun t =>
      hasRows t 0 && isFile t [.seg 0, .metadata] && readFile t [.seg 0, .metadata] == some [] &&
      (match openSegs t with
        | .ok loaded t' => loaded == [] && !exists_ t' [.seg 0, .shard, .data]
        | .err _ => false)) = true := by decide

/-- … and a partially surviving `metadata` (the un-fsynced `write` cut in the middle) makes `OpenTSDB` fail for
    the whole group. -/
theorem seg_as_written_fails_to_open :
    (crashTrees false 1 (createSeg false 0).length).any (fun t =>
      readFile t [.seg 0, .metadata] == some [1] &&
      (match openSegs t with | .err _ => true | .ok _ _ => false)) = true := by decide

/-- as written, some outcome violates the property at every cut from the `write` of the first metadata on -/
theorem seg_as_written_violations :
    ((List.range ((history false 1).length + 1)).filter (fun cut =>
      (crashTrees false 1 cut).any (fun t => !recoversOK t))) = [4, 5, 6, 7, 8, 9, 10, 11] := by decide

end Banyan.C04Seg
