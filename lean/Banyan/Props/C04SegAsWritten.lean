/-
C04, segment level — `segmentController.create` **as written** (metadata not fsynced) violates the property:
kernel-evaluated counterexamples on the model of `Model/C04Seg.lean` (finding F04s).
-/
import Banyan.Model.C04Seg
import Banyan.Lemmas.C04SegEnum

namespace Banyan.C04Seg
open Banyan.FS

/-- **As written** the property fails.  A power loss right after the first table of the first segment became
    durable (cut 9 = `create` … `fsync(data)`, before anything else): the directory entry `seg/metadata` is durable
    (the shard's `mkdir` fsynced `seg`), its content is not; start-up classifies the segment as half-born and
    removes it together with the table's rows. -/
theorem seg_as_written_loses_rows :
    (crashTrees false 1 ((createSeg false 0).length + 5)).any (fun t =>
      hasRows t 0 && isFile t [.seg 0, .metadata] && readFile t [.seg 0, .metadata] == some [] &&
      (match openSegs t with
        | .ok loaded t' => loaded == [] && !exists_ t' [.seg 0, .shard, .data]
        | .err _ => false)) = true := by decide

/-- … and a partially surviving `metadata` (the un-fsynced `write` cut in the middle) makes `OpenTSDB` fail for
    the whole group. -/
theorem seg_as_written_fails_to_open :
    (crashTrees false 1 (createSeg false 0).length).any (fun t =>
      readFile t [.seg 0, .metadata] == some [1] &&
      (match openSegs t with | .err _ => true | .ok _ _ => false)) = true := by decide

/-- as written, some outcome violates the property at every cut from the `write` of the first metadata on -/
theorem seg_as_written_violations :
    ((List.range ((history false 1).length + 1)).filter (fun cut =>
      (crashTrees false 1 cut).any (fun t => !recoversOK t))) = [4, 5, 6, 7, 8, 9, 10, 11] := by decide

/-- **As written**: the power-loss outcome after the first nine system calls in which every pending directory
    entry survives and no un-fsynced data does (the zero-length `metadata` of delayed allocation) holds the table's
    rows, and start-up removes the segment with them. -/
theorem seg_as_written_loses_rows_power :
    ∃ t, crashPower (cutState false 1 9) t ∧ hasRows t 0 = true ∧
      (match openSegs t with
        | .ok loaded t' => loaded == [] && !exists_ t' [.seg 0, .shard, .data]
        | .err _ => false) = true :=
  ⟨_, crashPower_entries_without_data false 1 9, by decide, by decide⟩

end Banyan.C04Seg
