/-
C04, segment level — first half of the kernel evaluation behind `seg_crash_recovers_atomic` (cuts 0 … 23 of the
three-segment history; split over two files to keep each build short).
-/
import Banyan.Model.C04Seg

namespace Banyan.C04Seg
open Banyan.FS

theorem seg_crash_recovers_atomic_first :
    (List.range 24).all (fun cut => (crashTrees true 3 cut).all recoversOK) = true := by decide

end Banyan.C04Seg
