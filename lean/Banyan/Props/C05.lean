/-
C05 — Queries see one consistent snapshot while maintenance runs.

Theorems about the op-level model `Banyan.Model.C05` (every op sequence of any length, any number of holders).
Level: proof at op granularity; goroutine interleavings *inside* one op are outside the model (partial, see
checks/C05.design.md).
-/
import Banyan.Lemmas.C05View
import Banyan.Lemmas.C05Batch
import Banyan.Lemmas.C05Txn

namespace Banyan.C05

/-! ## 1. The reference-count invariant holds in every reachable state -/

theorem inv_step {st : State} (op : Op) (h : Inv st) : Inv (step st op) := by
  cases op with
  | batch => simp only [step]; split; exact h; exact introducePart_inv h
  | acquire k => simp only [step]; split; exact h; exact pin_inv _ h
  | release k => exact unpin_inv _ h
  | flush ids => simp only [step]; split; exact h; exact flushOp_inv ids h
  | merge ids => simp only [step]; split; exact h; exact mergeOp_inv ids h
  | syncRemove ids => simp only [step]; split; exact h; exact syncOp_inv ids h
  | close => simp only [step]; split; exact h; exact closeOp_inv h

theorem inv_run {st : State} (ops : List Op) (h : Inv st) : Inv (run st ops) := by
  induction ops generalizing st with
  | nil => exact h
  | cons o os ih => exact ih (inv_step o h)

/-- `Inv` after EVERY op sequence (any length, any number of holders, any subsets merged/flushed/synced,
close with holders outstanding). -/
theorem inv_reachable (ops : List Op) : Inv (run init ops) := inv_run ops inv_init

/-! The four clauses of the design, read off `Inv`. -/

/-- (i) part.ref = number of snapshots that list it (dead snapshots list nothing) -/
theorem part_ref_eq_listing_snapshots (ops : List Op) (w : Nat) (hw : w < (run init ops).nP) :
    ((run init ops).P w).ref = occN (run init ops).S w (run init ops).nS :=
  (inv_reachable ops).partRef w hw

/-- (ii) snap.ref = [snap = current] + number of holders -/
theorem snap_ref_eq_current_plus_holders (ops : List Op) (s : Nat) (hs : s < (run init ops).nS) :
    ((run init ops).S s).ref =
      (if (run init ops).cur = some s then 1 else 0) + hcount (run init ops).holders s := by
  have := (inv_reachable ops).snapRef s hs
  simpa using this

/-- reference counts never go negative -/
theorem refs_nonneg (ops : List Op) :
    (∀ w, w < (run init ops).nP → 0 ≤ ((run init ops).P w).ref) ∧
    (∀ s, s < (run init ops).nS → 0 ≤ ((run init ops).S s).ref) := by
  have h := inv_reachable ops
  constructor
  · intro w hw; rw [h.partRef w hw]; omega
  · intro s hs
    have := h.snapRef s hs
    have : (0 : Int) ≤ (if (run init ops).cur = some s then 1 else 0) := by split <;> omega
    simp at *; omega

/-- (iii) deleted p → p.ref = 0 ∧ removable p (∧ it is a file part) -/
theorem deleted_imp_unreferenced_removable {st : State} (h : Inv st) (w : Nat) (hw : w < st.nP)
    (hd : 0 < (st.P w).delCount) :
    (st.P w).ref = 0 ∧ (st.P w).removable = true ∧ (st.P w).mem = false := by
  have hdc := h.delCnt w hw
  by_cases hc : (st.P w).closed = true ∧ (st.P w).removable = true ∧ (st.P w).mem = false
  · have hr := (h.closedIff w hw).mp hc.1
    have := h.partRef w hw
    exact ⟨by omega, hc.2.1, hc.2.2⟩
  · rw [if_neg hc] at hdc; omega

/-- (iv) no snapshot lists a deleted (or closed) part -/
theorem listed_not_deleted {st : State} (h : Inv st) {s w : Nat} (hs : s < st.nS) (hw : w ∈ (st.S s).parts) :
    (st.P w).delCount = 0 ∧ (st.P w).closed = false ∧ dirExists st w = !(st.P w).mem := by
  obtain ⟨_, hc, hd⟩ := h.listed_alive hs hw
  refine ⟨hd, hc, ?_⟩
  simp [dirExists, hd]

/-! ## 2. A held snapshot is one frozen point-in-time view -/

theorem step_keeps {ok : Nat → Prop} {st : State} (op : Op) (h : Inv st) (hok0 : ∀ j, ok j → j ≠ 0)
    (hrel : ∀ k, op = .release k → ∀ j, ok j → j ≠ k + 1) : Keeps ok st (step st op) := by
  cases op with
  | batch => simp only [step]; split; exact Keeps.refl _ _; exact introducePart_keeps h hok0
  | acquire k => simp only [step]; split; exact Keeps.refl _ _; exact pin_keeps _ _ _
  | release k => exact unpin_keeps _ h (hrel k rfl)
  | flush ids => simp only [step]; split; exact Keeps.refl _ _; exact flushOp_keeps ids h hok0
  | merge ids => simp only [step]; split; exact Keeps.refl _ _; exact mergeOp_keeps ids h hok0
  | syncRemove ids => simp only [step]; split; exact Keeps.refl _ _; exact syncOp_keeps ids h hok0
  | close => simp only [step]; split; exact Keeps.refl _ _; exact closeOp_keeps h

theorem run_keeps {ok : Nat → Prop} {st : State} (ops : List Op) (h : Inv st) (hok0 : ∀ j, ok j → j ≠ 0)
    (hrel : ∀ k, Op.release k ∈ ops → ∀ j, ok j → j ≠ k + 1) : Keeps ok st (run st ops) := by
  induction ops generalizing st with
  | nil => exact Keeps.refl _ _
  | cons o os ih =>
    have k1 := step_keeps (ok := ok) o h hok0 (fun k hk => hrel k (by simp [hk]))
    exact k1.trans (ih (inv_step o h) (fun k hk => hrel k (List.mem_cons_of_mem _ hk)))

/-- **reader_view_stable.**  Reader `k` holds snapshot `s` in a reachable state.  Whatever maintenance ops run —
batches, flushes, merges, sync-removals, close, other readers coming and going — as long as reader `k` has not
released: it still holds `s`; the part list of `s` is literally unchanged; every part on it is still open
(`closed = false`: file handles open / memPart not handed back to the pool), none of them has been deleted
(`delCount = 0`, directory exists for file parts), each still carries the same rows (`src`), hence the set of batches
visible through `s` is the same as when it was pinned. -/
theorem reader_view_stable {st : State} (h : Inv st) (k s : Nat) (hheld : (k + 1, s) ∈ st.holders)
    (ops : List Op) (hnr : Op.release k ∉ ops) :
    (k + 1, s) ∈ (run st ops).holders ∧
    ((run st ops).S s).parts = (st.S s).parts ∧
    view (run st ops) s = view st s ∧
    ∀ w, w ∈ (st.S s).parts →
      ((run st ops).P w).pid = (st.P w).pid ∧ ((run st ops).P w).mem = (st.P w).mem ∧
      ((run st ops).P w).src = (st.P w).src ∧ ((run st ops).P w).closed = false ∧
      ((run st ops).P w).delCount = 0 ∧ 1 ≤ ((run st ops).P w).ref ∧
      dirExists (run st ops) w = !(st.P w).mem := by
  have hk : Keeps (fun j => j = k + 1) st (run st ops) := by
    apply run_keeps ops h
    · intro j hj; omega
    · intro k' hk' j hj e
      have : k' = k := by omega
      subst this; exact hnr hk'
  obtain ⟨hmem, hparts⟩ := hk.hold (k + 1, s) hheld rfl
  have h' := inv_run ops h
  have hs : s < st.nS := h.holdLt _ hheld
  have hs' : s < (run st ops).nS := h'.holdLt _ hmem
  have hsame : ∀ w, w ∈ (st.S s).parts →
      ((run st ops).P w).pid = (st.P w).pid ∧ ((run st ops).P w).mem = (st.P w).mem ∧
      ((run st ops).P w).src = (st.P w).src := fun w hw => hk.same w (h.partsLt s hs w hw)
  refine ⟨hmem, hparts, ?_, ?_⟩
  · unfold view
    dsimp only at hparts
    rw [hparts]
    exact flatMap_congr_mem _ (fun w hw => (hsame w hw).2.2)
  · intro w hw
    obtain ⟨a, b, c⟩ := hsame w hw
    have hw' : w ∈ ((run st ops).S s).parts := by dsimp only at hparts; rw [hparts]; exact hw
    obtain ⟨hr, hc, hd⟩ := h'.listed_alive hs' hw'
    refine ⟨a, b, c, hc, hd, hr, ?_⟩
    simp [dirExists, hd, b]

/-- non-vacuity: a reader pins after two batches; then flush-all, a merge of both parts, another batch, a sync-removal
and close run; its view is still parts #0,#1 (the two mem parts), both open. -/
example :
    let st := run init [.batch, .batch, .acquire 0]
    let st' := run st [.flush none, .merge [1, 2], .batch, .syncRemove [3], .close]
    (1, 1) ∈ st.holders ∧ (st.S 1).parts = [0, 1] ∧ (st'.S 1).parts = [0, 1] ∧
      (st'.P 0).closed = false ∧ (st'.P 1).closed = false ∧ view st' 1 = [1, 2] ∧
      -- … while the merged file parts (wrappers 2,3 = flushed #1,#2) are gone for everybody else
      (st'.P 2).delCount = 1 ∧ (st'.P 3).delCount = 1 := by
  decide

/-- the same, at the level of reachable states (what the driver exercises) -/
theorem reader_view_stable_reachable (pre : List Op) (k s : Nat)
    (hheld : (k + 1, s) ∈ (run init pre).holders) (ops : List Op) (hnr : Op.release k ∉ ops) :
    ((run (run init pre) ops).S s).parts = ((run init pre).S s).parts ∧
    view (run (run init pre) ops) s = view (run init pre) s :=
  let r := reader_view_stable (inv_reachable pre) k s hheld ops hnr
  ⟨r.2.1, r.2.2.1⟩

/-! ### a query reads the pinned list, never the shared `removable` flag -/

/-- what a query through a held snapshot evaluates is its pinned part list: unchanged by any later op -/
theorem query_reads_pinned_list {st : State} (h : Inv st) (k s : Nat) (hheld : (k + 1, s) ∈ st.holders)
    (ops : List Op) (hnr : Op.release k ∉ ops) :
    queryParts (run st ops) s = queryParts st s ∧ view (run st ops) s = view st s :=
  let r := reader_view_stable h k s hheld ops hnr
  ⟨r.2.1, r.2.2.1⟩

/-- … and is not affected by the PREPARE phase of a merge / sync publication, which already flags the inputs
`removable` (before anything is committed), for ANY snapshot `s` and ANY set of ids -/
theorem query_unaffected_by_prepare (st : State) (ids : List Nat) (s : Nat) :
    queryParts (markRemovable ids st) s = queryParts st s ∧ view (markRemovable ids st) s = view st s := by
  refine ⟨rfl, ?_⟩
  unfold view markRemovable
  dsimp only
  apply flatMap_congr_mem
  intro w _
  unfold applyAll
  dsimp only
  split
  · split <;> rfl
  · rfl

/-- A query that skipped `removable` wrappers would be wrong twice over (`decide`d witnesses):
(1) between prepare and commit of a merge of parts 1,2 the table's current snapshot would show NEITHER the merged part
nor its inputs; (2) a reader that pinned the pre-merge snapshot would lose both inputs once the merge is published,
although its pinned list still names them and they are still open and on disk. -/
theorem flag_reading_query_counterexample :
    let st := run init [.batch, .batch, .flush none, .acquire 0]
    let prepared := markRemovable [1, 2] st
    let merged := run st [.merge [1, 2]]
    (view st 2 = [1, 2] ∧ view prepared 2 = [1, 2] ∧ viewSkippingRemovable prepared 2 = []) ∧
    (view merged 2 = [1, 2] ∧ viewSkippingRemovable merged 2 = [] ∧
      (1, 2) ∈ merged.holders ∧ dirExists merged 2 = true ∧ dirExists merged 3 = true) := by
  decide

/-! ### a query sees a merged part XOR its inputs; a batch is entirely in or out

Every part carries the ordinals of the batches whose rows it holds (`src`; a batch lives in exactly one part when it
is written: `mustAddMemPart` turns one `dataPoints` batch into one memPart).  `BatchInv` (Lemmas/C05Batch):
in every snapshot, no batch ordinal occurs twice — so a view never contains both a merged part and one of its inputs —
and the published view changes exactly as the op says: -/

theorem batchInv_run {st : State} (ops : List Op) (h : Inv st) (hb : BatchInv st) : BatchInv (run st ops) := by
  induction ops generalizing st with
  | nil => exact hb
  | cons o os ih => exact ih (inv_step o h) (batchInv_step o h hb)

theorem batchInv_reachable (ops : List Op) : BatchInv (run init ops) := batchInv_run ops inv_init batchInv_init

/-- no snapshot of a reachable state shows a batch twice (never "merged part AND its inputs") -/
theorem view_nodup (ops : List Op) (s : Nat) (hs : s < (run init ops).nS) : (view (run init ops) s).Nodup :=
  (batchInv_reachable ops).viewNodup s hs

/-- … and publishing a flush or a merge does not lose a batch either (never "neither"): the current view is a
permutation of what it was; a batch appends exactly its own ordinal, whole. -/
theorem curView_step (st : State) (h : Inv st) (hb : BatchInv st) (op : Op) :
    match op with
    | .batch => st.tblClosed = false → curView (step st op) = curView st ++ [st.nBatch + 1]
    | .flush _ => curView (step st op) = curView st
    | .merge _ => (curView (step st op)).Perm (curView st)
    | .syncRemove _ => (curView (step st op)).Sublist (curView st)
    | .acquire _ => curView (step st op) = curView st
    | .release _ => curView (step st op) = curView st
    | .close => st.tblClosed = false → curView (step st op) = [] := curView_step_lemma st h hb op

/-! ## 3. Replaced parts are deleted exactly once, and only after the last reader -/

/-- **delete_exactly_once_after_last_reader.**  In every reachable state and for every part wrapper ever created:
`MustRMAll` has been issued at most once, and it has been issued *iff* the part is a file part that was replaced
(`removable`) and no snapshot — current or held by any reader — lists it any more.  So: never while somebody can
still read it, and promptly at the step where the last snapshot listing it dies. -/
theorem delete_exactly_once_after_last_reader {st : State} (h : Inv st) (w : Nat) (hw : w < st.nP) :
    (st.P w).delCount ≤ 1 ∧
    ((st.P w).delCount = 1 ↔
      (st.P w).mem = false ∧ (st.P w).removable = true ∧ ∀ s, s < st.nS → w ∉ (st.S s).parts) := by
  have hdc := h.delCnt w hw
  have hcl := h.closedIff w hw
  have hr := h.partRef w hw
  have hunl : (st.P w).closed = true ↔ ∀ s, s < st.nS → w ∉ (st.S s).parts := by
    rw [hcl, hr]
    constructor
    · intro h0 s hs hm
      have := occN_pos st.S w hs hm
      omega
    · intro hno
      rw [occN_zero st.S w st.nS hno]; simp
  constructor
  · rw [hdc]; split <;> omega
  · rw [hdc]
    constructor
    · intro h1
      by_cases hc : (st.P w).closed = true ∧ (st.P w).removable = true ∧ (st.P w).mem = false
      · exact ⟨hc.2.2, hc.2.1, hunl.mp hc.1⟩
      · rw [if_neg hc] at h1; omega
    · rintro ⟨hm, hrm, hno⟩
      rw [if_pos ⟨hunl.mpr hno, hrm, hm⟩]

/-- the deletion counter is cumulative: what has been issued is never taken back, so `≤ 1` in every reachable state
means "at most once ever". -/
theorem delCount_mono {st : State} (h : Inv st) (ops : List Op) (w : Nat) (hw : w < st.nP) :
    (st.P w).delCount ≤ ((run st ops).P w).delCount := by
  have hk : Keeps (fun _ => False) st (run st ops) :=
    run_keeps ops h (fun _ hj => hj.elim) (fun _ _ _ hj => hj.elim)
  exact hk.delMono w hw

theorem delete_at_most_once_ever (pre ops : List Op) (w : Nat) (hw : w < (run init pre).nP) :
    ((run init pre).P w).delCount ≤ ((run (run init pre) ops).P w).delCount ∧
    ((run (run init pre) ops).P w).delCount ≤ 1 := by
  have h := inv_reachable pre
  have hk : Keeps (fun _ => False) (run init pre) (run (run init pre) ops) :=
    run_keeps ops h (fun _ hj => hj.elim) (fun _ _ _ hj => hj.elim)
  exact ⟨hk.delMono w hw,
    (delete_exactly_once_after_last_reader (inv_run ops h) w (Nat.lt_of_lt_of_le hw hk.nP)).1⟩

/-- non-vacuity: part #1 (file wrapper 2) is merged away while reader 0 still holds a snapshot listing it:
not deleted; after the reader releases: deleted once; later ops do not delete it again. -/
example :
    let st := run init [.batch, .flush none, .acquire 0, .batch, .flush none, .merge [1, 2]]
    (st.P 1).removable = true ∧ (st.P 1).delCount = 0 ∧
    ((run st [.release 0]).P 1).delCount = 1 ∧
    ((run st [.release 0, .batch, .flush none, .close]).P 1).delCount = 1 := by
  decide

/-! ## 4. banyand/internal/snapshot: Transaction -/

open Txn in
/-- `Commit` is idempotent -/
theorem txn_commit_idempotent (w : World) (x : Transaction) :
    commit (commit w x).1 (commit w x).2 = commit w x := by
  unfold commit
  by_cases hf : x.finalized = true
  · simp [hf]
  · simp [hf]

open Txn in
/-- `Rollback` is idempotent -/
theorem txn_rollback_idempotent (w : World) (x : Transaction) :
    rollback (rollback w x).1 (rollback w x).2 = rollback w x := by
  unfold rollback
  by_cases hf : x.finalized = true
  · simp [hf]
  · simp [hf]

open Txn in
/-- commit after rollback is a no-op, and so is rollback after commit -/
theorem txn_commit_after_rollback_noop (w : World) (x : Transaction) :
    commit (rollback w x).1 (rollback w x).2 = rollback w x ∧
    rollback (commit w x).1 (commit w x).2 = commit w x := by
  unfold commit rollback
  by_cases hf : x.finalized = true
  · simp [hf]
  · simp [hf]

open Txn in
/-- `NewTransition` keeps the accounting `count = managers pointing here + pins owed by live transitions + frame`
(for an arbitrary frame `R`: other transactions, readers) -/
theorem txn_acct_newTransition {nM : Nat} {w : World} {ts : List Transition} {R : Nat → Int} (m : Nat)
    (mkNil : Bool) (h : Acct nM w ts R) (hts : ∀ t ∈ ts, ∀ s, pins t s ≠ 0 → s < w.nSnap) :
    Acct nM (newTransition w m mkNil).1 (ts ++ [(newTransition w m mkNil).2]) R :=
  (acct_newTransition m mkNil h hts).1

open Txn in
/-- **Commit applies all** (one transition per manager): every manager ends at its prepared `next`, nobody else
moves … -/
theorem txn_commit_applies_all (ts : List Transition) (w : World)
    (hf : ∀ t, t ∈ ts → t.committed = false) (hnd : (ts.map fun t => t.mgr).Nodup) :
    (∀ t, t ∈ ts → (commit w { ts := ts, finalized := false }).1.cur t.mgr = t.next) ∧
    (∀ m, (∀ t, t ∈ ts → t.mgr ≠ m) → (commit w { ts := ts, finalized := false }).1.cur m = w.cur m) := by
  have := commitAll_cur ts w hf hnd
  simpa [commit] using this

open Txn in
/-- **Commit applies the transitions in the order they were added** (not LIFO like `Rollback`): committing
`ts ++ [t]` = committing `ts`, then `t`; in particular for two transitions on one manager the last one added wins.
The publication orders of trace (core before index for introductions, index before core for sync) rest on this. -/
theorem txn_commit_in_order (w : World) (ts : List Transition) (t : Transition) :
    (commit w { ts := ts ++ [t], finalized := false }).1 = (tCommit (commitAll w ts).1 t).1 ∧
    (t.committed = false → (commit w { ts := ts ++ [t], finalized := false }).1.cur t.mgr = t.next) := by
  refine ⟨?_, fun ht => ?_⟩
  · simpa [commit] using (commitAll_append w ts t).1
  · simpa [commit] using commitAll_last_wins w ts t ht

open Txn in
/-- … and after the callers released their transitions every reference is accounted for: each count is exactly
*managers pointing at the snapshot + frame*.  For ANY list of freshly prepared transitions and ANY frame. -/
theorem txn_balanced_after_release (nM : Nat) (ts : List Transition) (w : World) (R : Nat → Int)
    (hf : ∀ t, t ∈ ts → Fresh nM t) (h : Shape nM w ts R) :
    let c := commit w { ts := ts, finalized := false }
    let r := releaseAll c.1 c.2.ts
    ∀ s, r.1.ref s = mcountN r.1.cur s nM + R s := commit_release_balanced nM ts w R hf h

open Txn in
/-- **Rollback applies none and restores every reference**: no manager moves; every count is back at
*managers pointing at the snapshot + frame* — what it was before `NewTransition` pinned anything — and the prepared
`next` snapshots are left unreferenced. -/
theorem txn_rollback_applies_none (nM : Nat) (ts : List Transition) (w : World) (R : Nat → Int)
    (hf : ∀ t, t ∈ ts → Fresh nM t) (h : Shape nM w ts R) :
    let c := rollback w { ts := ts, finalized := false }
    let r := releaseAll c.1 c.2.ts
    r.1.cur = w.cur ∧ ∀ s, r.1.ref s = mcountN w.cur s nM + R s := rollback_release_balanced nM ts w R hf h

/-- the pinned unit tests as instances (two managers at snapshots 0,1 with ref 1; one transaction with a transition
on each): commit+release leaves refs 0,0,1,1 and managers at 2,3; rollback+release leaves 1,1,0,0 and managers at 0,1;
a second commit / rollback / commit-after-rollback changes nothing. -/
example :
    let w0 : Txn.World := { ref := fun j => if j < 2 then 1 else 0, nSnap := 2,
                            cur := fun m => if m = 0 then some 0 else if m = 1 then some 1 else none }
    let a := Txn.addTransition w0 { ts := [], finalized := false } 0 false
    let b := Txn.addTransition a.1 a.2 1 false
    let c := Txn.commit b.1 b.2
    let c2 := Txn.rollback c.1 c.2
    let r := Txn.releaseAll c2.1 c2.2.ts
    let d := Txn.rollback b.1 b.2
    let d2 := Txn.commit d.1 d.2
    let q := Txn.releaseAll d2.1 d2.2.ts
    ((List.range 4).map r.1.ref = [0, 0, 1, 1] ∧ r.1.cur 0 = some 2 ∧ r.1.cur 1 = some 3) ∧
    ((List.range 4).map q.1.ref = [1, 1, 0, 0] ∧ q.1.cur 0 = some 0 ∧ q.1.cur 1 = some 1) ∧
    (List.range 4).map b.1.ref = [2, 2, 1, 1] := by
  decide

/-! ## 5. trace: two-phase publication (`commitSnapshotTransaction`) -/

open Pub in
/-- With the publication fence (`snapshotPublicationMu`: writer Lock around `txn.Commit()`, reader RLock around
"pin sidx view, then pin core view") a reader only ever pins views that exist between whole transactions; if every
prepared pair of snapshots is consistent (index entry ⇒ spans present), so is everything a reader can pin:
`ordered-index entry visible → spans visible`. -/
theorem pub_fenced_reader_consistent (v : View) (ps : List Prepared) (hv : Consistent v)
    (hps : ∀ p, p ∈ ps → Consistent p.next) : ∀ u, u ∈ fencedViews v ps → Consistent u := by
  induction ps generalizing v with
  | nil => intro u hu; simp [fencedViews] at hu; subst hu; exact hv
  | cons p ps ih =>
    intro u hu
    simp only [fencedViews, List.mem_cons] at hu
    rcases hu with rfl | hu
    · exact hv
    · exact ih (commitFenced v p) (hps p (by simp)) (fun q hq => hps q (List.mem_cons_of_mem _ hq)) u hu

open Pub in
/-- Without the fence a reader pins the index at one micro-state and the spans at a later one.  That is still safe
as long as every micro-state is consistent and the set of visible spans only grows (introduce / flush / merge, where
`Commit` replaces the core snapshot first). -/
theorem pub_unfenced_core_monotone (ms : List View) (hcons : ∀ u, u ∈ ms → Consistent u)
    (hmono : ms.Pairwise fun a b => ∀ t, t ∈ a.core → t ∈ b.core)
    (i j : Nat) (hij : i ≤ j) (hj : j < ms.length) (t : Nat) (ht : t ∈ (ms[i]'(by omega)).sidx) :
    t ∈ (ms[j]).core := by
  have hi : i < ms.length := by omega
  have hc := hcons ms[i] (List.getElem_mem hi) t ht
  by_cases he : i = j
  · subst he; exact hc
  · exact (List.pairwise_iff_getElem.mp hmono) i j hi hj (by omega) t hc

open Pub in
/-- … but NOT for transactions that take spans away (`introduceSync`, which replaces the sidx snapshots first and the
core snapshot second): an unfenced reader that pinned the index before and the spans after sees an index entry without
spans.  Every micro-state is consistent here, so only the fence (previous theorem) rules this reader out. -/
theorem pub_unfenced_counterexample :
    let v : View := { core := [1], sidx := [1] }
    let p : Prepared := { next := { core := [], sidx := [] }, sidxFirst := true }
    let ms := microStates v [p]
    ms.length = 3 ∧ (∀ u, u ∈ ms → ∀ t, t ∈ u.sidx → t ∈ u.core) ∧
    (1 ∈ ((ms[0]?).map (·.sidx)).getD [] ∧ 1 ∉ ((ms[2]?).map (·.core)).getD [0]) ∧
    (∀ u, u ∈ fencedViews v [p] → ∀ t, t ∈ u.sidx → t ∈ u.core) := by
  decide

end Banyan.C05
