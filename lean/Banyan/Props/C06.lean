/-
C06 — Time segments partition the timeline; each point lives in exactly one.
Property theorems about the models in Banyan/Model/{Time,C06}.lean; helper lemmas in
Banyan/Lemmas/Time*.lean.
-/
import Banyan.Model.C06
import Banyan.Lemmas.Time
import Banyan.Lemmas.TimeDay
import Banyan.Lemmas.TimeSeg
import Banyan.Lemmas.TimeReach

namespace Banyan.C06
open Banyan.Time

/-! ## 1. the grid -/

/-- `floorDiv` of storage.go is the mathematical floor division for a positive divisor. -/
theorem floorDiv_eq_ediv (a b : Int) (hb : 0 < b) : floorDiv a b = a / b := Time.floorDiv_eq_ediv a b hb

/-- The grid facts at instant `t` for rule `r` in zone `z` (the full-strength statement):
    the cell `[Standard t, NextTime (Standard t))` contains `t`, `Standard` maps every instant of the
    cell to its start (in particular it is idempotent), and the cell's end is the next cell's start
    (cells tile the line). -/
def GridAt (z : Zone) (r : IntervalRule) (t : Int) : Prop :=
  r.standard z (r.standard z t) = r.standard z t ∧
  r.standard z t ≤ t ∧ t < r.nextTime z (r.standard z t) ∧
  (∀ x, r.standard z t ≤ x → x < r.nextTime z (r.standard z t) → r.standard z x = r.standard z t) ∧
  r.standard z (r.nextTime z (r.standard z t)) = r.nextTime z (r.standard z t)

/-- the property C06 needs of a (zone, rule) pair -/
def GridStatement (z : Zone) (r : IntervalRule) : Prop := ∀ t, GridAt z r t

/-- Fixed-offset zones (UTC, +05:30, …): every rule (unit, num ≥ 1) has the grid facts everywhere. -/
theorem grid_fixed_offset (c : Int) (u : IUnit) (n : Int) (hn : 1 ≤ n) :
    GridStatement (fun _ => c) ⟨u, n⟩ := by
  intro t
  obtain ⟨h1, h2, h3, h4⟩ := fixed_grid c u n hn t
  exact ⟨h3 _ (Int.le_refl _) (by omega), h1, h2, h3, h4⟩

example : GridAt (fun _ => 19800000000000) ⟨.hour, 5⟩ 1715493600000000001 :=
  grid_fixed_offset _ _ _ (by decide) _

/-- DAY rules of any `num ≥ 1` in a zone with DST whose local midnights are regular (`DayRegular`:
    transitions do not hit local midnight, the offset stays within 11 h of the 1970 offset). -/
theorem grid_day_dst (z : Zone) (hz : DayRegular z) (n : Int) (hn : 1 ≤ n) :
    GridStatement z ⟨.day, n⟩ := by
  intro t
  obtain ⟨h1, h2, h3, h4⟩ := day_grid hz n hn t
  exact ⟨h3 _ (Int.le_refl _) (by omega), h1, h2, h3, h4⟩

/-- fixed-offset zones are regular … -/
theorem dayRegular_fixed (c : Int) : DayRegular (fun _ => c) := dayRegular_const c

/-- … and so is a zone with the two 2024 transitions of America/New_York (non-vacuity of
    `grid_day_dst` for a zone with 23 h and 25 h days). -/
theorem dayRegular_twoTransition : DayRegular nyLike := dayRegular_nyLike

example : GridAt nyLike ⟨.day, 3⟩ 1710054000000000000 :=
  grid_day_dst _ dayRegular_twoTransition _ (by decide) _

/-- F6: for HOUR rules with `num ≥ 2` the grid facts are false under a one-hour offset change.
    Witness: `{HOUR, 2}` at 2024-07-12T06:30Z in the two-transition zone: the cell computed for `t`
    ends before `t`, and `Standard` is not idempotent. -/
theorem grid_hour_dst_counterexample :
    ¬ GridAt nyLike ⟨.hour, 2⟩ 1720765800000000000 ∧
    ¬ ((1720765800000000000 : Int) <
        IntervalRule.nextTime nyLike ⟨.hour, 2⟩ (IntervalRule.standard nyLike ⟨.hour, 2⟩ 1720765800000000000)) ∧
    IntervalRule.standard nyLike ⟨.hour, 2⟩ (IntervalRule.standard nyLike ⟨.hour, 2⟩ 1720765800000000000) ≠
      IntervalRule.standard nyLike ⟨.hour, 2⟩ 1720765800000000000 := by
  have h2 : ¬ ((1720765800000000000 : Int) <
      IntervalRule.nextTime nyLike ⟨.hour, 2⟩ (IntervalRule.standard nyLike ⟨.hour, 2⟩ 1720765800000000000)) := by decide
  refine ⟨fun h => h2 h.2.2.1, h2, by decide⟩

/-- F6, `num = 1`: in the repeated hour of the fall-back day (01:30 EST, 2024-11-03T06:30Z) the hourly
    rule yields the cell before it (`time.Date` resolves the repeated reading to its first occurrence). -/
theorem grid_hour1_fallback_counterexample :
    ¬ GridAt nyLike ⟨.hour, 1⟩ 1730615400000000000 ∧
    IntervalRule.nextTime nyLike ⟨.hour, 1⟩ (IntervalRule.standard nyLike ⟨.hour, 1⟩ 1730615400000000000) ≤
      1730615400000000000 := by
  have h : IntervalRule.nextTime nyLike ⟨.hour, 1⟩ (IntervalRule.standard nyLike ⟨.hour, 1⟩ 1730615400000000000) ≤
      1730615400000000000 := by decide
  exact ⟨fun g => by have := g.2.2.1; omega, h⟩

/-- What remains true for HOUR rules (the hypothesis that F6's class negates): if the zone's offset
    is the constant `c` at the grid anchor and at every instant the computation looks at around the
    cell of `t`, `Standard t` is the fixed-offset cell start, hence `Standard t ≤ t < NextTime (Standard t)`. -/
theorem grid_hour_dst_partial (z : Zone) (c n t : Int) (hn : 1 ≤ n)
    (hanchor : z 0 = c ∧ z (0 - c) = c)
    (hcell : ∀ x, t - n * hourNs - c.natAbs ≤ x → x ≤ t + c.natAbs → z x = c) :
    IntervalRule.standard z ⟨.hour, n⟩ t = IntervalRule.standard (fun _ => c) ⟨.hour, n⟩ t ∧
    IntervalRule.standard z ⟨.hour, n⟩ t ≤ t ∧
    t < IntervalRule.nextTime z ⟨.hour, n⟩ (IntervalRule.standard z ⟨.hour, n⟩ t) := by
  have hn0 : 0 < n := by omega
  have hH : (0 : Int) < hourNs := by simp [hourNs]
  have hnH : 0 < n * hourNs := Int.mul_pos hn0 hH
  have h1H : hourNs ≤ n * hourNs := by
    have : 0 ≤ (n - 1) * hourNs := Int.mul_nonneg (by omega) (by omega)
    have e : n * hourNs = (n - 1) * hourNs + hourNs := by rw [Int.sub_mul]; omega
    omega
  -- dateInstant agrees with the fixed-offset one on readings whose two lookups fall in the window
  have hdate : ∀ w, t - n * hourNs - c.natAbs ≤ w → w ≤ t + c.natAbs →
      t - n * hourNs - c.natAbs ≤ w - c → w - c ≤ t + c.natAbs → dateInstant z w = w - c := by
    intro w a1 a2 a3 a4
    have e1 := hcell w a1 a2
    have e2 := hcell (w - c) a3 a4
    unfold dateInstant
    simp only [e1]
    by_cases hc : c = 0
    · simp [hc]
    · simp [hc, e2]
  have hzt : z t = c := hcell t (by omega) (by omega)
  have hwall : wall z t = t + c := by simp [wall, hzt]
  have hepoch : dateInstant z 0 = 0 - c := by
    unfold dateInstant
    simp only [hanchor.1]
    by_cases hc : c = 0
    · simp [hc]
    · simp only [hc, ne_eq, not_false_eq_true, if_true, hanchor.2]
  have q1 : (t + c) / hourNs * hourNs ≤ t + c := Int.ediv_mul_le _ (by omega)
  have q2 : t + c < ((t + c) / hourNs + 1) * hourNs := Int.lt_ediv_add_one_mul_self _ hH
  have q2' : ((t + c) / hourNs + 1) * hourNs = (t + c) / hourNs * hourNs + hourNs := by
    rw [Int.add_mul]; simp
  obtain ⟨b1, b2⟩ := cell_bounds (t + c) hourNs n hH hn0
  have b2' : ((t + c) / hourNs / n + 1) * n * hourNs = (t + c) / hourNs / n * n * hourNs + n * hourNs := by
    rw [Int.add_mul, Int.add_mul]; simp
  have hstd : IntervalRule.standard z ⟨.hour, n⟩ t = (t + c) / hourNs / n * n * hourNs - c := by
    unfold IntervalRule.standard
    by_cases h1 : n = 1
    · subst h1
      simp only [if_true, unitStandard, hwall, truncTo, IUnit.ns]
      rw [hdate _ (by omega) (by omega) (by omega) (by omega)]
      simp
    · simp only [h1, if_false, hwall, truncTo, hepoch]
      rw [hdate ((t + c) / hourNs * hourNs) (by omega) (by omega) (by omega) (by omega)]
      have e1 : (t + c) / hourNs * hourNs - c - (0 - c) = (t + c) / hourNs * hourNs := by omega
      rw [e1, Time.floorDiv_eq_ediv _ hourNs hH, Int.mul_ediv_cancel _ (by omega : hourNs ≠ 0),
        Time.floorDiv_eq_ediv _ n hn0]
      rw [hdate _ (by omega) (by omega) (by omega) (by omega)]
  have hconst := standard_const c .hour n hn t
  simp only [IUnit.ns] at hconst
  refine ⟨by rw [hstd, hconst], by rw [hstd]; omega, ?_⟩
  rw [hstd]
  simp only [IntervalRule.nextTime]
  have : hourNs * n = n * hourNs := Int.mul_comm _ _
  omega

example : (nyLike 0 = -18000000000000 ∧ nyLike (0 - -18000000000000) = -18000000000000) ∧
    ∀ x, (1705314600000000000 : Int) - 2 * hourNs - (-18000000000000 : Int).natAbs ≤ x →
      x ≤ 1705314600000000000 + (-18000000000000 : Int).natAbs → nyLike x = -18000000000000 := by
  refine ⟨by decide, ?_⟩
  intro x h1 h2
  exact nyLike_lt (by simp only [hourNs] at h1; omega)


/-! ## 2. the controller: `create` -/

/-- What `create` (repaired, F5) guarantees for a list that is sorted/disjoint when the grid facts
    `Standard ts ≤ ts < NextTime (Standard ts)` hold at `ts`:
    * the returned segment contains `ts`;
    * existing segments are kept unchanged (`lst'` = `lst` + the new one), the new one is disjoint
      from all of them;
    * the new segment starts on the grid unless bumped to the end of a legacy neighbour, and ends at
      the standard end unless capped at the start of one (so `end ≤ stdEnd`);
    * a panic can only be a directory-name clash (excluded by `create_sorted`). -/
theorem create_spec (g : Grid) (lst : List Seg) (ts : Int) (hok : SegsOK lst) (hts : 0 < ts)
    (hg1 : g.std ts ≤ ts) (hg2 : ts < g.next (g.std ts)) :
    match create g lst ts with
    | .invalid => False
    | .existing s => s ∈ lst ∧ s.start ≤ ts ∧ ts < s.end_
    | .created s lst' =>
        s.start ≤ ts ∧ ts < s.end_ ∧ (∀ x, x ∈ lst' ↔ x = s ∨ x ∈ lst) ∧
        (∀ x ∈ lst, x.end_ ≤ s.start ∨ s.end_ ≤ x.start) ∧
        (s.start = g.std ts ∨ (g.std ts < s.start ∧ ∃ x ∈ lst, x.end_ = s.start)) ∧
        (s.end_ = g.next (g.std ts) ∨ (s.end_ < g.next (g.std ts) ∧ ∃ x ∈ lst, x.start = s.end_)) ∧
        s.metaEnd = some s.end_ ∧ s.ref = 0
    | .panic => ∃ st, (st = g.std ts ∨ ∃ x ∈ lst, x.end_ = st) ∧ st ≤ ts ∧
        (∀ x ∈ lst, x.end_ ≤ st ∨ ts < x.start) ∧ ∃ x ∈ lst, g.key x.start = g.key st := by
  unfold create
  have h0 : ¬ ts ≤ 0 := by omega
  simp only [h0, if_false]
  cases hf : findContaining lst ts with
  | some s =>
    obtain ⟨hm, hc⟩ := findContaining_some hf
    have := (contains_iff s (hok.2 s hm) ts).1 hc
    exact ⟨hm, this.1, this.2⟩
  | none =>
    have hno : ∀ s ∈ lst, ts < s.end_ → ts < s.start := by
      intro s hs hlt
      have hc := findContaining_none hf s hs
      have hiff := contains_iff s (hok.2 s hs) ts
      apply Int.not_le.1
      intro hle
      have := hiff.2 ⟨hle, hlt⟩
      simp [hc] at this
    obtain ⟨a1, a2, a3, a4, a5, a6, a7, a8⟩ := capScan_spec ts lst (g.std ts) (g.next (g.std ts)) hno
    generalize hcs : capScan ts lst (g.std ts) (g.next (g.std ts)) = p at a1 a2 a3 a4 a5 a6 a7 a8
    obtain ⟨st, en⟩ := p
    simp only at a1 a2 a3 a4 a5 a6 a7 a8 ⊢
    have hst := a7 hg1
    have hen := a8 hg2
    have hdis : ∀ x ∈ lst, x.end_ ≤ st ∨ en ≤ x.start := by
      intro x hx
      by_cases h : x.end_ ≤ ts
      · exact Or.inl (a5 x hx h)
      · exact Or.inr (a6 x hx (by omega))
    unfold finishCreate
    by_cases hany : lst.any (fun s => g.key s.start = g.key st) = true
    · simp only [hany, if_true]
      obtain ⟨x, hx, hk⟩ := List.any_eq_true.1 hany
      refine ⟨st, ?_, hst, ?_, x, hx, by simpa using hk⟩
      · rcases a3 with h | h
        · exact Or.inl h
        · exact Or.inr h
      · intro x hx
        rcases hdis x hx with h | h
        · exact Or.inl h
        · exact Or.inr (by omega)
    · simp only [hany, Bool.false_eq_true, if_false]
      refine ⟨hst, hen, mem_insertSeg g _ lst, hdis, ?_, ?_⟩
      · by_cases he : st = g.std ts
        · exact Or.inl he
        · rcases a3 with h | h
          · exact absurd h he
          · exact Or.inr ⟨by omega, h⟩
      · refine ⟨?_, trivial, trivial⟩
        by_cases he : en = g.next (g.std ts)
        · exact Or.inl he
        · rcases a4 with h | h
          · exact absurd h he
          · exact Or.inr ⟨by omega, h⟩

/-- With a directory-name order that agrees with the time order (`KeyOrd`, true for unit-aligned
    boundaries, see `partition_reachable`), `create` never panics and the list stays sorted/disjoint. -/
theorem create_sorted (g : Grid) (lst : List Seg) (ts : Int) (hok : SegsOK lst) (hts : 0 < ts)
    (hg1 : g.std ts ≤ ts) (hg2 : ts < g.next (g.std ts))
    (hkey : ∀ y, (y = g.std ts ∨ ∃ x ∈ lst, x.end_ = y) → KeyOrd g lst y) :
    match create g lst ts with
    | .created _ lst' => SegsOK lst'
    | .panic => False
    | _ => True := by
  have hspec := create_spec g lst ts hok hts hg1 hg2
  cases hc : create g lst ts with
  | invalid => trivial
  | existing s => trivial
  | panic =>
    rw [hc] at hspec
    obtain ⟨st, hst, hle, hdis, x, hx, hk⟩ := hspec
    have ko := hkey st hst x hx
    rcases hdis x hx with h | h
    · have := ko.1 h; omega
    · have := ko.2 (by omega); omega
  | created s lst' =>
    rw [hc] at hspec
    obtain ⟨h1, h2, hmem, hdis, hs, _, _, _⟩ := hspec
    -- `lst'` is `insertSeg g s lst`
    have hins : lst' = insertSeg g s lst := by
      unfold create at hc
      have h0 : ¬ ts ≤ 0 := by omega
      simp only [h0, if_false] at hc
      cases hf : findContaining lst ts with
      | some s' => simp [hf] at hc
      | none =>
        simp only [hf] at hc
        generalize capScan ts lst (g.std ts) (g.next (g.std ts)) = p at hc
        obtain ⟨st, en⟩ := p
        simp only [finishCreate] at hc
        split at hc
        · cases hc
        · cases hc; rfl
    rw [hins]
    refine insertSeg_ok g s (by omega) lst hok hdis (hkey _ ?_)
    rcases hs with h | ⟨_, h⟩
    · exact Or.inl h
    · exact Or.inr h


/-- F5 witness: daily segments for 2024-05-09 and 2024-05-11 (UTC), interval changed to 4 days,
    `ts` = 2024-05-12T06:00Z. The list is sorted/disjoint and the grid facts hold at `ts`
    (`grid_fixed_offset`), yet `create` as written at the pinned commit returns the first gap of the
    bucket, `[05-10, 05-11)`, which does not contain `ts`; the repaired `create` returns
    `[05-12, 05-13)`. -/
def f5Lst : List Seg :=
  [⟨1715212800000000000, 1715299200000000000, some 1715299200000000000, 0⟩,
   ⟨1715385600000000000, 1715472000000000000, some 1715472000000000000, 0⟩]

theorem create_legacy_gap_counterexample :
    (match create_legacy (gridOf (fun _ => 0) ⟨.day, 4⟩) f5Lst 1715493600000000000 with
     | .created s _ => decide (s.start = 1715299200000000000 ∧ s.end_ = 1715385600000000000 ∧
                               ¬ (s.start ≤ 1715493600000000000 ∧ 1715493600000000000 < s.end_))
     | _ => false) = true ∧
    (match create (gridOf (fun _ => 0) ⟨.day, 4⟩) f5Lst 1715493600000000000 with
     | .created s _ => decide (s.start = 1715472000000000000 ∧ s.end_ = 1715558400000000000)
     | _ => false) = true := by
  decide

/-! ## 3. `selectSegments` -/

theorem overlapping_false_of_end_lt (s : Seg) (hs : s.start < s.end_) (r : TimeRange)
    (hr : r.start ≤ r.end_) (h : s.end_ < r.start) : s.range.overlapping r = false := by
  simp only [Seg.range, TimeRange.overlapping]
  have h1 : ¬ s.start = r.end_ := by omega
  have h2 : ¬ r.start = s.end_ := by omega
  simp only [h1, h2, if_false]
  have : r.start > s.end_ := h
  simp [this]

theorem selectLoop_eq_filter (r : TimeRange) (hr : r.start ≤ r.end_) (l : List Seg)
    (hp : l.Pairwise (fun a b => b.end_ ≤ a.start)) (hne : ∀ s ∈ l, s.start < s.end_) :
    selectLoop r l = l.filter (fun s => s.range.overlapping r) := by
  induction l with
  | nil => rfl
  | cons s rest ih =>
    have hp' := List.pairwise_cons.1 hp
    have ih' := ih hp'.2 (fun x hx => hne x (List.mem_cons_of_mem _ hx))
    have hs := hne s (List.mem_cons_self ..)
    simp only [selectLoop]
    by_cases hb : s.end_ < r.start
    · -- the early `break`: nothing older can overlap
      simp only [hb, if_true]
      symm
      apply List.filter_eq_nil_iff.2
      intro x hx
      rcases List.mem_cons.1 hx with rfl | hx
      · simp [overlapping_false_of_end_lt x hs r hr hb]
      · have := hp'.1 x hx
        have hxne := hne x (List.mem_cons_of_mem _ hx)
        simp [overlapping_false_of_end_lt x hxne r hr (by omega)]
    · simp only [hb, if_false]
      by_cases ho : s.range.overlapping r = true
      · simp [ho, ih']
      · simp [ho, ih']

/-- `selectSegments r` returns exactly the segments overlapping `r` (newest first): the early
    `break` loses nothing because the list is sorted and disjoint. -/
theorem select_exact (lst : List Seg) (hok : SegsOK lst) (r : TimeRange) (hr : r.start ≤ r.end_) :
    selectSegments lst r = lst.reverse.filter (fun s => s.range.overlapping r) := by
  unfold selectSegments
  apply selectLoop_eq_filter r hr
  · exact List.pairwise_reverse.2 hok.1
  · intro s hs; exact hok.2 s (List.mem_reverse.1 hs)

/-- No stored point is missed: a segment holding an instant `x` that the query range contains is
    selected (for a proper range or an inclusive point query). -/
theorem select_sound (lst : List Seg) (hok : SegsOK lst) (r : TimeRange)
    (hr : r.start < r.end_ ∨ (r.start = r.end_ ∧ r.incS = true ∧ r.incE = true))
    (s : Seg) (hs : s ∈ lst) (x : Int) (hx1 : s.start ≤ x) (hx2 : x < s.end_)
    (hrx : r.contains x = true) : s ∈ selectSegments lst r := by
  rw [select_exact lst hok r (by omega)]
  apply List.mem_filter.2
  refine ⟨List.mem_reverse.2 hs, ?_⟩
  simp only [TimeRange.contains] at hrx
  simp only [Seg.range, TimeRange.overlapping]
  by_cases h1 : s.start = r.end_
  · simp only [h1, if_true, Bool.true_and]
    by_cases e1 : r.start = x
    · simp only [e1, if_true] at hrx
      rcases hr with h | h
      · omega
      · exact h.2.2
    · simp only [e1, if_false] at hrx
      by_cases e2 : r.end_ = x
      · simpa [e2] using hrx
      · simp only [e2, if_false, Bool.and_eq_true, Bool.not_eq_true'] at hrx
        have := of_decide_eq_false hrx.2
        omega
  · simp only [h1, if_false]
    by_cases h2 : r.start = s.end_
    · exfalso
      by_cases e1 : r.start = x
      · omega
      · simp only [e1, if_false] at hrx
        by_cases e2 : r.end_ = x
        · omega
        · simp only [e2, if_false, Bool.and_eq_true, Bool.not_eq_true'] at hrx
          have := of_decide_eq_false hrx.1
          omega
    · simp only [h2, if_false, Bool.and_eq_true, Bool.not_eq_true']
      by_cases e1 : r.start = x
      · exact ⟨decide_eq_false (by omega), decide_eq_false (by omega)⟩
      · simp only [e1, if_false] at hrx
        by_cases e2 : r.end_ = x
        · exact ⟨decide_eq_false (by omega), decide_eq_false (by omega)⟩
        · simp only [e2, if_false, Bool.and_eq_true, Bool.not_eq_true'] at hrx
          have := of_decide_eq_false hrx.1
          have := of_decide_eq_false hrx.2
          exact ⟨decide_eq_false (by omega), decide_eq_false (by omega)⟩

/-- For the inclusive ranges queries use, `Overlapping` is exactly "shares an instant". -/
theorem overlapping_iff_common_point (s : Seg) (hs : s.start < s.end_) (r : TimeRange)
    (hi : r.incS = true ∧ r.incE = true) (hr : r.start ≤ r.end_) :
    s.range.overlapping r = true ↔ ∃ x, (s.start ≤ x ∧ x < s.end_) ∧ (r.start ≤ x ∧ x ≤ r.end_) := by
  simp only [Seg.range, TimeRange.overlapping, hi.1, hi.2]
  by_cases h1 : s.start = r.end_
  · simp only [h1, if_true, Bool.and_self, true_iff]
    exact ⟨r.end_, ⟨by omega, by omega⟩, by omega, by omega⟩
  · simp only [h1, if_false]
    by_cases h2 : r.start = s.end_
    · simp only [h2, if_true, Bool.false_and, Bool.false_eq_true, false_iff]
      rintro ⟨x, ⟨a, b⟩, c, d⟩; omega
    · simp only [h2, if_false, Bool.and_eq_true, Bool.not_eq_true']
      constructor
      · rintro ⟨a, b⟩
        have a' := of_decide_eq_false a
        have b' := of_decide_eq_false b
        by_cases hc : s.start ≤ r.start
        · exact ⟨r.start, ⟨hc, by omega⟩, by omega, by omega⟩
        · exact ⟨s.start, ⟨by omega, by omega⟩, by omega, by omega⟩
      · rintro ⟨x, ⟨a, b⟩, c, d⟩
        exact ⟨decide_eq_false (by omega), decide_eq_false (by omega)⟩

/-- No segment is returned twice, so a multi-segment query sees each stored point once. -/
theorem select_nodup (lst : List Seg) (hok : SegsOK lst) (r : TimeRange) (hr : r.start ≤ r.end_) :
    (selectSegments lst r).Nodup := by
  rw [select_exact lst hok r hr]
  have hnd : lst.Nodup := by
    apply List.Pairwise.imp_of_mem _ hok.1
    intro a b ha hb hab heq
    subst heq
    have := hok.2 a ha
    omega
  have hrev : lst.reverse.Nodup := List.pairwise_reverse.2 (List.Pairwise.imp (fun h => Ne.symm h) hnd)
  exact List.Pairwise.filter _ hrev


/-! ## 4. reachable states -/

theorem keyOrd_of_aligned {G : Int → Grid} {aligned : Int → Prop} {rp : Int → Int}
    (laws : GridLaws G aligned rp) (s : St) (hinv : Inv aligned s) (y : Int) (hy : aligned y) :
    KeyOrd (G s.num) s.lst y := by
  intro x hx
  obtain ⟨_, hok, hal⟩ := hinv
  have hne := hok.2 x hx
  exact ⟨fun h => laws.key_lt _ _ _ (hal x hx).1 hy (by omega), fun h => laws.key_lt _ _ _ hy (hal x hx).1 h⟩

/-- One `create`: the invariant is kept, no existing segment moves, and afterwards `ts` lies in
    exactly one segment of the list. -/
theorem create_partition {G : Int → Grid} {aligned : Int → Prop} {rp : Int → Int}
    (laws : GridLaws G aligned rp) (s : St) (hinv : Inv aligned s) (ts : Int) (h0 : 0 < ts)
    (hstd : 0 < (G s.num).std ts) :
    Inv aligned (step G rp s (.create ts)) ∧ (∀ x ∈ s.lst, x ∈ (step G rp s (.create ts)).lst) ∧
    ∃ x ∈ (step G rp s (.create ts)).lst, (x.start ≤ ts ∧ ts < x.end_) ∧
      ∀ y ∈ (step G rp s (.create ts)).lst, y.start ≤ ts → ts < y.end_ → y = x := by
  have hn := hinv.1
  have hok := hinv.2.1
  have hal := hinv.2.2
  have hg1 := laws.std_le s.num hn ts
  have hg2 := laws.lt_next s.num hn ts
  have hspec := create_spec (G s.num) s.lst ts hok h0 hg1 hg2
  have hsorted := create_sorted (G s.num) s.lst ts hok h0 hg1 hg2 (by
    intro y hy
    apply keyOrd_of_aligned laws s hinv
    rcases hy with rfl | ⟨x, hx, rfl⟩
    · exact laws.std_aligned _ hn _
    · exact (hal x hx).2.1)
  simp only [step]
  cases hc : create (G s.num) s.lst ts with
  | invalid => rw [hc] at hspec; exact absurd hspec id
  | panic => rw [hc] at hsorted; exact absurd hsorted id
  | existing x =>
    rw [hc] at hspec
    refine ⟨hinv, fun x hx => hx, x, hspec.1, ⟨hspec.2.1, hspec.2.2⟩, ?_⟩
    intro y hy hy1 hy2
    exact segsOK_unique hok hspec.1 hy hspec.2.1 hspec.2.2 hy1 hy2
  | created n l =>
    rw [hc] at hspec hsorted
    obtain ⟨c1, c2, hmem, hdis, hs, he, hme, hrf⟩ := hspec
    have hinv' : Inv aligned { s with lst := l } := by
      refine ⟨hn, hsorted, ?_⟩
      intro x hx
      rcases (hmem x).1 hx with rfl | hx
      · refine ⟨?_, ?_, hme, hrf, ?_⟩
        · rcases hs with h | ⟨_, y, hy, h⟩
          · rw [h]; exact laws.std_aligned _ hn _
          · rw [← h]; exact (hal y hy).2.1
        · rcases he with h | ⟨_, y, hy, h⟩
          · rw [h]; exact laws.next_aligned _ hn _ (laws.std_aligned _ hn _)
          · rw [← h]; exact (hal y hy).1
        · rcases hs with h | ⟨h, _⟩ <;> omega
      · exact hal x hx
    refine ⟨hinv', fun x hx => (hmem x).2 (Or.inr hx), n, (hmem n).2 (Or.inl rfl), ⟨c1, c2⟩, ?_⟩
    intro y hy hy1 hy2
    exact segsOK_unique hsorted ((hmem n).2 (Or.inl rfl)) hy c1 c2 hy1 hy2

theorem step_inv {G : Int → Grid} {aligned : Int → Prop} {rp : Int → Int}
    (laws : GridLaws G aligned rp) (s : St) (hinv : Inv aligned s) (op : Op)
    (hts : ∀ ts, op = .create ts → 0 < ts → 0 < (G s.num).std ts) :
    Inv aligned (step G rp s op) ∧ (∀ x ∈ s.lst, x ∈ (step G rp s op).lst) := by
  cases op with
  | create ts =>
    by_cases h0 : 0 < ts
    · have := create_partition laws s hinv ts h0 (hts ts rfl h0)
      exact ⟨this.1, this.2.1⟩
    · have : create (G s.num) s.lst ts = .invalid := by
        unfold create; simp [show ts ≤ 0 by omega]
      simp only [step, this]
      exact ⟨hinv, fun x hx => hx⟩
  | setInterval n =>
    simp only [step]
    by_cases h : 1 ≤ n
    · simp only [h, if_true]; exact ⟨⟨h, hinv.2.1, hinv.2.2⟩, fun x hx => hx⟩
    · simp only [h, if_false]; exact ⟨hinv, fun x hx => hx⟩
  | reopen =>
    simp only [step]
    rw [reopen_id laws s hinv]
    exact ⟨hinv, fun x hx => hx⟩

/-- **partition_reachable.** From any well-formed state (in particular the empty database), every
    sequence of `create` / interval change / close+reopen keeps the list sorted and disjoint with
    unit-aligned, persisted boundaries, and never moves or drops an existing segment.
    (`create_partition` adds: each accepted `ts` then lies in exactly one segment.)
    `N` bounds the interval numbers in play; timestamps must lie after the first grid cell of 1970
    for those numbers (`open` discards segments that start at or before the epoch). -/
theorem partition_reachable {G : Int → Grid} {aligned : Int → Prop} {rp : Int → Int}
    (laws : GridLaws G aligned rp) (N : Int) (ops : List Op) :
    ∀ (s : St), Inv aligned s → s.num ≤ N →
    (∀ n, Op.setInterval n ∈ ops → n ≤ N) →
    (∀ ts, Op.create ts ∈ ops → 0 < ts → ∀ n, 1 ≤ n → n ≤ N → 0 < (G n).std ts) →
    Inv aligned (run G rp s ops) ∧ (∀ x ∈ s.lst, x ∈ (run G rp s ops).lst) := by
  induction ops with
  | nil => intro s hinv _ _ _; exact ⟨hinv, fun x hx => hx⟩
  | cons op rest ih =>
    intro s hinv hN hset hts
    have h1 := step_inv laws s hinv op
      (fun ts h h0 => hts ts (by rw [h]; exact List.mem_cons_self ..) h0 _ hinv.1 hN)
    have hN' : (step G rp s op).num ≤ N := by
      cases op with
      | create ts => simp only [step]; split <;> exact hN
      | setInterval n =>
        simp only [step]
        split
        · exact hset n (List.mem_cons_self ..)
        · exact hN
      | reopen => exact hN
    have h2 := ih (step G rp s op) h1.1 hN' (fun n h => hset n (List.mem_cons_of_mem _ h))
      (fun ts h => hts ts (List.mem_cons_of_mem _ h))
    simp only [run, List.foldl_cons] at h2 ⊢
    exact ⟨h2.1, fun x hx => h2.2 x (h1.2 x hx)⟩

/-! ### the laws hold for fixed-offset zones (any unit) and for DAY rules in regular DST zones -/

theorem gridLaws_fixed (c : Int) (u : IUnit) :
    GridLaws (fun n => gridOf (fun _ => c) ⟨u, n⟩) (fun a => (a + c) % u.ns = 0) (reparse (fun _ => c) u) := by
  have hu := u.ns_pos
  refine ⟨?_, ?_, ?_, ?_, ?_, ?_⟩
  · intro n hn t; exact (fixed_grid c u n hn t).1
  · intro n hn t; exact (fixed_grid c u n hn t).2.1
  · intro n hn t
    simp only [gridOf, standard_const c u n hn]
    have : (t + c) / u.ns / n * n * u.ns - c + c = (t + c) / u.ns / n * n * u.ns := by omega
    rw [this]; exact Int.mul_emod_left _ _
  · intro n hn t ht
    simp only [gridOf, nextTime_const]
    have : t + n * u.ns + c = t + c + n * u.ns := by omega
    rw [this, Int.add_mul_emod_self_right]; exact ht
  · intro n a b ha hb hab
    simp only [gridOf, segKey, wall_const, truncTo]
    have ea : (a + c) / u.ns * u.ns = a + c := Int.ediv_mul_cancel (Int.dvd_of_emod_eq_zero ha)
    have eb : (b + c) / u.ns * u.ns = b + c := Int.ediv_mul_cancel (Int.dvd_of_emod_eq_zero hb)
    omega
  · intro a ha
    simp only [reparse, segKey, wall_const, truncTo, dateInstant_const]
    have ea : (a + c) / u.ns * u.ns = a + c := Int.ediv_mul_cancel (Int.dvd_of_emod_eq_zero ha)
    omega

/-- `partition_reachable` instantiated: fixed-offset zone, any unit, starting from the empty database. -/
theorem partition_reachable_fixed (c : Int) (u : IUnit) (n0 N : Int) (hn0 : 1 ≤ n0) (hN : n0 ≤ N) (ops : List Op)
    (hset : ∀ n, Op.setInterval n ∈ ops → n ≤ N)
    (hts : ∀ ts, Op.create ts ∈ ops → 0 < ts → ∀ n, 1 ≤ n → n ≤ N →
      0 < IntervalRule.standard (fun _ => c) ⟨u, n⟩ ts) :
    let G := fun n => gridOf (fun _ => c) ⟨u, n⟩
    let final := run G (reparse (fun _ => c) u) ⟨n0, []⟩ ops
    SegsOK final.lst ∧ ∀ x ∈ final.lst, (x.start + c) % u.ns = 0 ∧ (x.end_ + c) % u.ns = 0 := by
  intro G final
  have h := partition_reachable (gridLaws_fixed c u) N ops ⟨n0, []⟩
    ⟨hn0, ⟨List.Pairwise.nil, by simp⟩, by simp⟩ hN hset hts
  exact ⟨h.1.2.1, fun x hx => ⟨(h.1.2.2 x hx).1, (h.1.2.2 x hx).2.1⟩⟩

theorem gridLaws_day {z : Zone} (hz : DayRegular z) :
    GridLaws (fun n => gridOf z ⟨.day, n⟩) (fun a => ∃ j, a = midnight z j) (reparse z .day) := by
  have hkey : ∀ j, segKey z .day (midnight z j) = j * dayNs := by
    intro j
    simp only [segKey, truncTo, IUnit.ns, hz.wall_midnight]
    rw [Int.mul_ediv_cancel _ (by simp [dayNs] : dayNs ≠ 0)]
  refine ⟨?_, ?_, ?_, ?_, ?_, ?_⟩
  · intro n hn t; exact (day_grid hz n hn t).1
  · intro n hn t; exact (day_grid hz n hn t).2.1
  · intro n hn t; exact ⟨_, standard_day hz n hn t⟩
  · rintro n hn t ⟨j, rfl⟩; exact ⟨_, nextTime_midnight hz n j⟩
  · rintro n a b ⟨j, rfl⟩ ⟨j', rfl⟩ hab
    simp only [gridOf, hkey]
    have hjj : j < j' := by
      apply Int.not_le.1
      intro hle
      have := hz.mono hle
      omega
    have : (0 : Int) < dayNs := by simp [dayNs]
    exact Int.mul_lt_mul_of_pos_right hjj this
  · rintro a ⟨j, rfl⟩
    simp only [reparse, hkey]
    rfl

/-- `partition_reachable` instantiated: DAY rules in a regular DST zone (e.g. `nyLike`). -/
theorem partition_reachable_day {z : Zone} (hz : DayRegular z) (n0 N : Int) (hn0 : 1 ≤ n0) (hN : n0 ≤ N)
    (ops : List Op) (hset : ∀ n, Op.setInterval n ∈ ops → n ≤ N)
    (hts : ∀ ts, Op.create ts ∈ ops → 0 < ts → ∀ n, 1 ≤ n → n ≤ N →
      0 < IntervalRule.standard z ⟨.day, n⟩ ts) :
    SegsOK (run (fun n => gridOf z ⟨.day, n⟩) (reparse z .day) ⟨n0, []⟩ ops).lst := by
  have h := partition_reachable (gridLaws_day hz) N ops ⟨n0, []⟩
    ⟨hn0, ⟨List.Pairwise.nil, by simp⟩, by simp⟩ hN hset hts
  exact h.1.2.1

/-- non-vacuity: the F5 history (two daily segments, interval changed to 4 days, reopen, a point in
    the gap's bucket) satisfies every hypothesis of `partition_reachable_fixed`. -/
example : SegsOK (run (fun n => gridOf (fun _ => 0) ⟨.day, n⟩) (reparse (fun _ => 0) .day) ⟨1, []⟩
    [.create 1715234400000000000, .create 1715407200000000000, .setInterval 4, .reopen,
     .create 1715493600000000000]).lst :=
  (partition_reachable_fixed 0 .day 1 4 (by decide) (by decide) _
    (by
      intro n hn
      simp only [List.mem_cons, Op.setInterval.injEq, List.mem_nil_iff, or_false, reduceCtorEq, false_or] at hn
      omega)
    (by
      intro ts hts h0 n hn hn4
      rw [standard_const 0 .day n hn]
      simp only [List.mem_cons, Op.create.injEq, List.mem_nil_iff, or_false, reduceCtorEq, false_or] at hts
      have hd : (0 : Int) < dayNs := by simp [dayNs]
      have hts' : 15000 * dayNs ≤ ts + 0 := by
        rcases hts with h | h | h <;> subst h <;> simp [dayNs]
      have hq : 15000 ≤ (ts + 0) / dayNs := (Int.le_ediv_iff_mul_le hd).2 hts'
      have h3 : (ts + 0) / dayNs < ((ts + 0) / dayNs / n + 1) * n := Int.lt_ediv_add_one_mul_self _ (by omega)
      have h4 : ((ts + 0) / dayNs / n + 1) * n = (ts + 0) / dayNs / n * n + n := by rw [Int.add_mul]; simp
      have h5 : 0 < (ts + 0) / dayNs / n * n := by omega
      have := Int.mul_pos h5 hd
      simp only [IUnit.ns]
      omega)).1

end Banyan.C06
