/-
C07 — Retention removes only fully expired segments and hides them at once.
Property theorems about the models in Banyan/Model/{Time,C06,C07}.lean.
-/
import Banyan.Model.C07
import Banyan.Lemmas.TimeSeg
import Banyan.Lemmas.TimeReach
import Banyan.Props.C06

namespace Banyan.C07
open Banyan.Time Banyan.C06

/-! ## 1. `TimeRange.Before` and `remove` -/

/-- `Before` mirrored exactly, both `IncludeEnd` cases: an inclusive end must lie strictly before the
    instant, an exclusive end may coincide with it. -/
theorem before_cases (r : TimeRange) (d : Int) :
    r.before d = true ↔ (if r.incE = true then r.end_ < d else r.end_ ≤ d) := by
  unfold TimeRange.before
  by_cases h : r.incE = true
  · simp [h]
  · simp only [h, if_false, Bool.false_eq_true, Bool.not_eq_true', decide_eq_false_iff_not]
    omega

/-- for a segment (half-open range): wholly before `d` iff `end ≤ d` -/
theorem before_halfopen (s : Seg) (d : Int) : s.range.before d = true ↔ s.end_ ≤ d := by
  have := before_cases s.range d
  simpa [Seg.range] using this

/-- `remove deadline` deletes exactly the segments with `end ≤ deadline` and keeps exactly the others. -/
theorem remove_exact (lst : List Seg) (d : Int) (x : Seg) :
    (x ∈ removed lst d ↔ x ∈ lst ∧ x.end_ ≤ d) ∧ (x ∈ remove lst d ↔ x ∈ lst ∧ d < x.end_) := by
  have hb := before_halfopen x d
  constructor
  · simp only [removed, List.mem_filter, hb]
  · simp only [remove, List.mem_filter, Bool.not_eq_true']
    constructor
    · rintro ⟨h1, h2⟩
      refine ⟨h1, ?_⟩
      apply Int.not_le.1
      intro hle
      rw [hb.2 hle] at h2
      cases h2
    · rintro ⟨h1, h2⟩
      refine ⟨h1, ?_⟩
      cases hbv : x.range.before d with
      | false => rfl
      | true => have := hb.1 hbv; omega

/-- No point with `ts ≥ now − ttl` is deleted: a segment holding such a point survives `remove`. -/
theorem remove_only_expired (lst : List Seg) (now ttl : Int) (s : Seg) (hs : s ∈ lst)
    (p : Int) (hp : s.start ≤ p ∧ p < s.end_) (hlive : now - ttl ≤ p) :
    s ∈ remove lst (now - ttl) ∧ s ∉ removed lst (now - ttl) := by
  have h := remove_exact lst (now - ttl) s
  exact ⟨h.2.2 ⟨hs, by omega⟩, fun hm => by have := (h.1.1 hm).2; omega⟩

example : (⟨10, 20, some 20, 0⟩ : Seg) ∈ remove [⟨0, 10, some 10, 0⟩, ⟨10, 20, some 20, 0⟩] (25 - 10) ∧
    (⟨0, 10, some 10, 0⟩ : Seg) ∉ remove [⟨0, 10, some 10, 0⟩, ⟨10, 20, some 20, 0⟩] (25 - 10) := by decide

/-! ## 2. `database.SelectSegments` -/

theorem pin_start (sel : List Seg) (s : Seg) : (pin sel s).start = s.start ∧ (pin sel s).end_ = s.end_ := by
  unfold pin; split <;> simp

/-- The query path returns the overlapping segments minus those wholly before `now − ttl`: an
    expired segment is hidden from the instant the deadline passes its end, a segment that still
    reaches past the deadline is never hidden. -/
theorem select_hides_expired (lst : List Seg) (r : TimeRange) (d : Int) :
    ((dbSelect lst r d).1.map (fun s => (s.start, s.end_)) =
      ((selectSegments lst r).filter (fun s => !s.range.before d)).map (fun s => (s.start, s.end_))) ∧
    (∀ s ∈ (dbSelect lst r d).1, d < s.end_) ∧
    (∀ s ∈ selectSegments lst r, d < s.end_ → ∃ s' ∈ (dbSelect lst r d).1, s'.start = s.start ∧ s'.end_ = s.end_) ∧
    (∀ s ∈ selectSegments lst r, s.end_ ≤ d → ∀ s' ∈ (dbSelect lst r d).1, s'.start ≠ s.start ∨ s'.end_ ≠ s.end_) := by
  simp only [dbSelect]
  refine ⟨?_, ?_, ?_, ?_⟩
  · rw [List.map_map]
    apply List.map_congr_left
    intro s _
    simp [(pin_start _ s).1, (pin_start _ s).2]
  · intro s hs
    obtain ⟨x, hx, rfl⟩ := List.mem_map.1 hs
    have hx' := List.mem_filter.1 hx
    rw [(pin_start _ x).2]
    have := (remove_exact (selectSegments lst r) d x).2.1 (by simpa [remove] using hx)
    exact this.2
  · intro s hs hlive
    refine ⟨pin (selectSegments lst r) s, List.mem_map.2 ⟨s, ?_, rfl⟩, (pin_start _ s).1, (pin_start _ s).2⟩
    have := (remove_exact (selectSegments lst r) d s).2.2 ⟨hs, hlive⟩
    simpa [remove] using this
  · intro s hs hdead s' hs'
    obtain ⟨x, hx, rfl⟩ := List.mem_map.1 hs'
    have := (remove_exact (selectSegments lst r) d x).2.1 (by simpa [remove] using hx)
    rw [(pin_start _ x).2]
    exact Or.inr (by omega)

theorem any_start_iff {lst : List Seg} (hok : SegsOK lst) {sub : List Seg} (hsub : ∀ x ∈ sub, x ∈ lst)
    {s : Seg} (hs : s ∈ lst) : sub.any (fun x => x.start = s.start) = true ↔ s ∈ sub := by
  rw [List.any_eq_true]
  constructor
  · rintro ⟨x, hx, he⟩
    have he' : x.start = s.start := by simpa using he
    have hxl := hsub x hx
    have h1 := hok.2 x hxl
    have h2 := hok.2 s hs
    have : s = x := segsOK_unique hok hxl hs (ts := x.start) (by omega) (by omega) (by omega) (by omega)
    rw [this]; exact hx
  · intro h; exact ⟨s, h, by simp⟩

/-- Pins after `SelectSegments`: exactly the returned segments hold one more reference; the pins of
    the segments dropped as expired have been released (and nothing else was touched). -/
theorem select_pins (lst : List Seg) (hok : SegsOK lst) (r : TimeRange) (hr : r.start ≤ r.end_) (d : Int) :
    (dbSelect lst r d).2 =
      lst.map (fun s => if s.range.overlapping r && !s.range.before d then { s with ref := s.ref + 1 } else s) := by
  simp only [dbSelect, List.map_map]
  apply List.map_congr_left
  intro s hs
  have hsel : ∀ x, x ∈ selectSegments lst r ↔ x ∈ lst ∧ x.range.overlapping r = true := by
    intro x
    rw [select_exact lst hok r hr, List.mem_filter, List.mem_reverse]
  have h1 : (selectSegments lst r).any (fun x => x.start = s.start) = true ↔ s.range.overlapping r = true := by
    rw [any_start_iff hok (fun x hx => ((hsel x).1 hx).1) hs, hsel]
    exact ⟨fun h => h.2, fun h => ⟨hs, h⟩⟩
  have h2 : ((selectSegments lst r).filter (fun s => s.range.before d)).any (fun x => x.start = s.start) = true ↔
      (s.range.overlapping r = true ∧ s.range.before d = true) := by
    rw [any_start_iff hok (fun x hx => ((hsel x).1 (List.mem_filter.1 hx).1).1) hs, List.mem_filter, hsel]
    exact ⟨fun h => ⟨h.1.2, h.2⟩, fun h => ⟨⟨hs, h.1⟩, h.2⟩⟩
  simp only [Function.comp, pin, unpin]
  cases ho : s.range.overlapping r <;> cases hb : s.range.before d
  all_goals
    have e1 := h1
    have e2 := h2
    rw [ho] at e1 e2
    rw [hb] at e2
    simp only [Bool.false_eq_true, iff_false, iff_true, and_true, and_false, Bool.not_eq_true] at e1 e2
    simp [e1, e2]

/-! ## 3. forced cleanup -/

/-- `removeOldest` removes at most one segment, namely the first (oldest) of the sorted list, and
    never the last remaining one. -/
theorem forced_cleanup_bounds (lst : List Seg) :
    ((removeOldest lst).1 = true ↔ 2 ≤ lst.length) ∧
    (removeOldest lst).2 = (if (removeOldest lst).1 then lst.tail else lst) ∧
    lst.length ≤ (removeOldest lst).2.length + 1 ∧
    (lst ≠ [] → (removeOldest lst).2 ≠ []) ∧
    (∀ x ∈ (removeOldest lst).2, x ∈ lst) := by
  match lst with
  | [] => simp [removeOldest]
  | [s] => simp [removeOldest]
  | a :: b :: rest =>
    simp only [removeOldest, List.length_cons, List.tail_cons, if_true, true_iff, ne_eq, reduceCtorEq,
      not_false_eq_true, implies_true, true_and]
    refine ⟨by omega, by omega, ?_⟩
    intro x hx; exact List.mem_cons_of_mem _ hx

/-- the oldest segment is the one with the least start (sorted list) -/
theorem forced_cleanup_oldest (lst : List Seg) (hok : SegsOK lst) (h : (removeOldest lst).1 = true) :
    ∃ o, lst = o :: (removeOldest lst).2 ∧ ∀ x ∈ (removeOldest lst).2, o.end_ ≤ x.start := by
  match lst, hok with
  | [], _ => simp [removeOldest] at h
  | [s], _ => simp [removeOldest] at h
  | a :: b :: rest, hok =>
    refine ⟨a, rfl, ?_⟩
    have := (List.pairwise_cons.1 hok.1).1
    simpa [removeOldest] using this

/-- `removeSeg` with an id that is not in the list changes nothing (in particular it never takes the
    next-younger live segment instead) … -/
theorem removeSeg_absent_noop (id : Nat) (l : List Nat) (h : id ∉ l) : removeSeg id l = l := by
  induction l with
  | nil => rfl
  | cons b rest ih =>
    have hb : ¬ b = id := fun e => h (by rw [e]; exact List.mem_cons_self ..)
    simp only [removeSeg, hb, if_false]
    rw [ih (fun hm => h (List.mem_cons_of_mem _ hm))]

/-- … and with an id of the (duplicate-free) list it removes exactly that entry. -/
theorem removeSeg_exact (id : Nat) (l : List Nat) (hnd : l.Nodup) (x : Nat) :
    x ∈ removeSeg id l ↔ x ∈ l ∧ x ≠ id := by
  induction l with
  | nil => simp [removeSeg]
  | cons b rest ih =>
    have hp := List.pairwise_cons.1 hnd
    simp only [removeSeg]
    by_cases hb : b = id
    · simp only [hb, if_true, List.mem_cons]
      constructor
      · intro hx
        exact ⟨Or.inr hx, fun e => (hp.1 x hx) (by rw [hb, e])⟩
      · rintro ⟨h1 | h1, h2⟩
        · exact absurd h1 h2
        · exact h1
    · simp only [hb, if_false, List.mem_cons, ih hp.2]
      constructor
      · rintro (h1 | ⟨h1, h2⟩)
        · exact ⟨Or.inl h1, by rw [h1]; exact hb⟩
        · exact ⟨Or.inr h1, h2⟩
      · rintro ⟨h1 | h1, h2⟩
        · exact Or.inl h1
        · exact Or.inr ⟨h1, h2⟩

example : removeSeg 5 [1, 3, 7] = [1, 3, 7] ∧ removeSeg 3 [1, 3, 7] = [1, 7] := by decide

/-- two-state gate: while one side holds the retention gate the other does nothing -/
theorem retention_gate_exclusive (d : DB) (now : Int) :
    gatedDeleteOldest true d.lst = (false, d.lst) ∧ gatedRetentionRun true d now = d ∧
    gatedDeleteOldest false d.lst = removeOldest d.lst ∧ gatedRetentionRun false d now = retentionRun d now := by
  simp [gatedDeleteOldest, gatedRetentionRun]

/-! ## 4. every tick/clock sequence -/

theorem create_created_mem {g : Grid} {lst : List Seg} {ts : Int} {n : Seg} {l : List Seg}
    (hc : create g lst ts = .created n l) : ∀ x ∈ lst, x ∈ l := by
  have hins : l = insertSeg g n lst := by
    unfold create at hc
    split at hc
    · cases hc
    · cases hf : findContaining lst ts with
      | some s' => simp [hf] at hc
      | none =>
        simp only [hf] at hc
        generalize capScan ts lst (g.std ts) (g.next (g.std ts)) = p at hc
        obtain ⟨st, en⟩ := p
        simp only [finishCreate] at hc
        split at hc
        · cases hc
        · cases hc; rfl
  intro x hx
  rw [hins]
  exact (mem_insertSeg g n lst x).2 (Or.inr hx)

/-- What must hold of one step `d → ap d op`; the deadline is `clock − current TTL`.
    `tickHyp = true` restricts the tick clause to ticks whose event time is not ahead of the clock. -/
def StepOKGen (ap : DB → Op → DB) (tickHyp : Bool) (d : DB) (op : Op) : Prop :=
  match op with
  | .retention =>
    -- (a) a scheduled retention run deletes nothing that reaches past now − ttl
    ∀ s ∈ d.lst, retentionDeadline d.clock d.ttl < s.end_ → s ∈ (ap d op).lst
  | .tick ts =>
    -- (a) … nor does the retention run started by a tick
    (tickHyp = true → ts ≤ d.clock) →
    ∀ s ∈ d.lst, retentionDeadline d.clock d.ttl < s.end_ → s ∈ (ap d op).lst
  | .select r =>
    -- (b) a query never sees a segment wholly before now − ttl, and sees every other overlapping one
    (∀ s ∈ (dbSelect d.lst r (retentionDeadline d.clock d.ttl)).1, retentionDeadline d.clock d.ttl < s.end_) ∧
    (∀ s ∈ selectSegments d.lst r, retentionDeadline d.clock d.ttl < s.end_ →
      ∃ s' ∈ (dbSelect d.lst r (retentionDeadline d.clock d.ttl)).1, s'.start = s.start ∧ s'.end_ = s.end_)
  | .delold =>
    -- forced cleanup: at most one segment, the oldest, never the last
    d.lst.length ≤ (ap d op).lst.length + 1 ∧ (d.lst ≠ [] → (ap d op).lst ≠ []) ∧
    (ap d op).lst = (if 2 ≤ d.lst.length then d.lst.tail else d.lst)
  | .clock _ | .ttl _ | .interval _ | .create _ =>
    -- nothing else removes a segment
    ∀ s ∈ d.lst, s ∈ (ap d op).lst
  | .reopen => True

def TraceOKGen (ap : DB → Op → DB) (tickHyp : Bool) : DB → List Op → Prop
  | _, [] => True
  | d, op :: rest => StepOKGen ap tickHyp d op ∧ TraceOKGen ap tickHyp (ap d op) rest

/-- **The full statement of C07 for the code as written**: every step of every history satisfies
    `StepOKGen` with *no* restriction on tick event times. It is FALSE for the code as written
    (`retention_statement_fails`, finding F71); what is proved of the code as written is
    `retention_property_partial`, and of the proposed repair `retention_property_repaired`. -/
def RetentionStatement (z : Zone) : Prop := ∀ (d : DB) (ops : List Op), TraceOKGen (applyOp z) false d ops

/-- a retention run whose `now` is not ahead of the clock keeps every segment that reaches past
    `clock − ttl`; so does the rest of the tick handler -/
theorem tickWith_keeps (z : Zone) (d : DB) (ts retNow : Int) (h : retNow ≤ d.clock) :
    ∀ s ∈ d.lst, retentionDeadline d.clock d.ttl < s.end_ → s ∈ (tickWith z d ts retNow).2.lst := by
  intro s hs hlive
  have hkeep : s ∈ remove d.lst (retNow - d.ttl.estimatedDuration) :=
    (remove_exact d.lst _ s).2.2 ⟨hs, by simp only [retentionDeadline] at hlive; omega⟩
  simp only [tickWith]
  split
  · exact hs
  · split
    · exact hs
    · split
      · exact hs
      · simp only [retentionRun]
        split
        · exact hkeep
        · split
          · exact hkeep
          · split
            · rename_i hc; exact create_created_mem hc s hkeep
            · exact hkeep
            · exact hkeep

theorem step_ok_gen (tk : DB → Int → TickResult × DB) (tickHyp : Bool) (z : Zone)
    (htk : ∀ d ts, (tickHyp = true → ts ≤ d.clock) →
      ∀ s ∈ d.lst, retentionDeadline d.clock d.ttl < s.end_ → s ∈ (tk d ts).2.lst)
    (d : DB) (op : Op) : StepOKGen (applyOpWith tk z) tickHyp d op := by
  cases op with
  | clock t => intro s hs; exact hs
  | ttl r => intro s hs; exact hs
  | interval n => intro s hs; exact hs
  | create ts =>
    intro s hs
    simp only [applyOpWith]
    cases hc : create (d.grid z) d.lst ts with
    | created n l => exact create_created_mem hc s hs
    | invalid => exact hs
    | existing x => exact hs
    | panic => exact hs
  | retention =>
    intro s hs hlive
    simp only [applyOpWith, retentionRun]
    exact (remove_exact d.lst _ s).2.2 ⟨hs, hlive⟩
  | tick ts =>
    intro hh s hs hlive
    simp only [applyOpWith]
    exact htk d ts hh s hs hlive
  | delold =>
    have h := forced_cleanup_bounds d.lst
    simp only [StepOKGen, applyOpWith]
    refine ⟨h.2.2.1, h.2.2.2.1, ?_⟩
    rw [h.2.1]
    by_cases h2 : 2 ≤ d.lst.length
    · simp [h.1.2 h2, h2]
    · have : (removeOldest d.lst).1 = false := by
        cases hb : (removeOldest d.lst).1 with
        | false => rfl
        | true => exact absurd (h.1.1 hb) h2
      simp [this, h2]
  | reopen => trivial
  | select r =>
    have h := select_hides_expired d.lst r (retentionDeadline d.clock d.ttl)
    exact ⟨h.2.1, h.2.2.1⟩

theorem trace_ok_gen (tk : DB → Int → TickResult × DB) (tickHyp : Bool) (z : Zone)
    (htk : ∀ d ts, (tickHyp = true → ts ≤ d.clock) →
      ∀ s ∈ d.lst, retentionDeadline d.clock d.ttl < s.end_ → s ∈ (tk d ts).2.lst)
    (ops : List Op) : ∀ d : DB, TraceOKGen (applyOpWith tk z) tickHyp d ops := by
  induction ops with
  | nil => intro d; trivial
  | cons op rest ih => intro d; exact ⟨step_ok_gen tk tickHyp z htk d op, ih _⟩

/-- **retention_property (code as written), `_partial`**: for every initial database, zone, and every
    sequence of clock moves, TTL / interval updates, writes, scheduled retention runs, ticks, forced
    cleanups, reopen cycles and queries, each step satisfies: (a) data with `ts ≥ now − ttl` is never
    deleted by a scheduled retention run, nor by the run a tick starts **provided the tick's event
    time is not ahead of the clock** (only forced cleanup of the single oldest segment may take such
    data), (b) a segment wholly before the deadline is invisible to queries from the instant that
    holds, and every other overlapping segment is visible. The gap to `RetentionStatement` is exactly
    F71 (ticks with event time > clock). -/
theorem retention_property_partial (z : Zone) (ops : List Op) (d : DB) :
    TraceOKGen (applyOp z) true d ops :=
  trace_ok_gen (tick z) true z
    (fun d ts hh => tickWith_keeps z d ts ts (hh rfl)) ops d

/-- PROPOSED REPAIR (`tick_repaired`, /verif/fixes/F71.diff, not in /repo): with the clock handed to the
    tick-driven retention run the full statement holds, for every history. -/
theorem retention_property_repaired (z : Zone) (ops : List Op) (d : DB) :
    TraceOKGen (applyOpRepaired z) false d ops :=
  trace_ok_gen (tick_repaired z) false z
    (fun d ts _ => tickWith_keeps z d ts d.clock (Int.le_refl _)) ops d

/-- **ttl_update**: after `UpdateOptions` changed the TTL (in either direction), the next retention
    run — whatever duration the task captured when it was created — deletes only segments wholly
    before `now − current TTL`, i.e. it agrees with what queries hide. -/
theorem ttl_update (d : DB) (r : IntervalRule) (captured now : Int) (s : Seg) (hs : s ∈ d.lst)
    (hgone : s ∉ (retentionRun { d with ttl := r, taskDuration := captured } now).lst) :
    s.end_ ≤ now - r.estimatedDuration ∧ s.range.before (retentionDeadline now r) = true := by
  have h : s.end_ ≤ now - r.estimatedDuration := by
    apply Int.not_lt.1
    intro hlt
    exact hgone ((remove_exact d.lst _ s).2.2 ⟨hs, hlt⟩)
  exact ⟨h, (before_halfopen s _).2 h⟩

/-- F7 witness: daily segments for 2024-05-01 and 2024-05-08, task created with TTL 3 d, TTL then
    raised to 30 d; at 2024-05-10 the run as written at the pinned commit deletes the 05-01 segment,
    which the current TTL protects (and queries show); the repaired run keeps it. -/
def f7DB : DB :=
  { unit := .day, num := 1, ttl := ⟨.day, 30⟩, taskDuration := 3 * dayNs, clock := 1715320800000000000,
    latestTick := 0, rotationDead := false,
    lst := [⟨1714521600000000000, 1714608000000000000, some 1714608000000000000, 0⟩,
            ⟨1715126400000000000, 1715212800000000000, some 1715212800000000000, 0⟩] }

theorem ttl_update_legacy_counterexample :
    ((retentionRun_legacy f7DB f7DB.clock).lst.map Seg.start = [1715126400000000000]) ∧
    ((retentionRun f7DB f7DB.clock).lst.map Seg.start = [1714521600000000000, 1715126400000000000]) ∧
    ((dbSelect f7DB.lst ⟨1714521600000000000, 1715320800000000000, true, true⟩
        (retentionDeadline f7DB.clock f7DB.ttl)).1.map Seg.start = [1715126400000000000, 1714521600000000000]) := by
  decide

/-- F71 witness: TTL 5 d, clock 2024-05-10T06:00Z, segments 05-05 and 05-10 (both inside the TTL by
    the clock); a write stamped 2024-05-20 ticks the database: the handler as written runs retention
    with the *event* time and deletes everything before 05-15; the proposed repair (clock time)
    deletes nothing. -/
def f71DB : DB :=
  { unit := .day, num := 1, ttl := ⟨.day, 5⟩, taskDuration := 5 * dayNs, clock := 1715320800000000000,
    latestTick := 0, rotationDead := false,
    lst := [⟨1714867200000000000, 1714953600000000000, some 1714953600000000000, 0⟩,
            ⟨1715299200000000000, 1715385600000000000, some 1715385600000000000, 0⟩] }

theorem tick_event_time_legacy_counterexample :
    ((tick (fun _ => 0) f71DB 1716184800000000000).2.lst.map Seg.start = []) ∧
    ((tick_repaired (fun _ => 0) f71DB 1716184800000000000).2.lst.map Seg.start =
      [1714867200000000000, 1715299200000000000]) := by
  decide

/-- … hence the full statement is false for the code as written (F71). -/
theorem retention_statement_fails : ¬ RetentionStatement (fun _ => 0) := by
  intro h
  have h1 := (h f71DB [.tick 1716184800000000000]).1
  have h2 := h1 (fun hf => by cases hf) ⟨1715299200000000000, 1715385600000000000, some 1715385600000000000, 0⟩
    (by decide) (by decide)
  have h3 : ((applyOp (fun _ => 0) f71DB (.tick 1716184800000000000)).lst.map Seg.start = []) := by decide
  have h4 := List.mem_map_of_mem (f := Seg.start) h2
  rw [h3] at h4
  cases h4

example : TraceOKGen (applyOp (fun _ => 0)) true f71DB
    [.tick 1715320800000000000, .ttl ⟨.day, 1⟩, .select ⟨0, 1716184800000000000, true, true⟩, .retention, .delold] :=
  retention_property_partial _ _ _

/-- non-vacuity of the tick clause of `retention_property_partial`: a tick at the clock time -/
example : (1715320800000000000 : Int) ≤ f71DB.clock := by decide

/-- The C06 machine (`C06.step`, about which `partition_reachable` speaks) is the projection of the
    database operations `create` / `interval` / `reopen` executed by the correspondence drivers. -/
theorem applyOp_projects (z : Zone) (d : DB) :
    let G := fun n => gridOf z ⟨d.unit, n⟩
    let rp := reparse z d.unit
    (∀ ts, (applyOp z d (.create ts)).lst = (C06.step G rp ⟨d.num, d.lst⟩ (.create ts)).lst ∧
           (applyOp z d (.create ts)).num = (C06.step G rp ⟨d.num, d.lst⟩ (.create ts)).num) ∧
    (∀ n, 1 ≤ n → (applyOp z d (.interval n)).lst = (C06.step G rp ⟨d.num, d.lst⟩ (.setInterval n)).lst ∧
           (applyOp z d (.interval n)).num = (C06.step G rp ⟨d.num, d.lst⟩ (.setInterval n)).num) ∧
    ((applyOp z d .reopen).lst = (C06.step G rp ⟨d.num, d.lst⟩ .reopen).lst ∧
     (applyOp z d .reopen).num = (C06.step G rp ⟨d.num, d.lst⟩ .reopen).num) := by
  intro G rp
  refine ⟨?_, ?_, ?_⟩
  · intro ts
    simp only [applyOp, applyOpWith, C06.step, DB.grid, DB.rule, G]
    cases create (gridOf z ⟨d.unit, d.num⟩) d.lst ts <;> simp
  · intro n hn
    simp [applyOp, applyOpWith, C06.step, hn]
  · simp [applyOp, applyOpWith, C06.step, DB.reopen, DB.grid, DB.rule, G, rp]

end Banyan.C07
