/- C08 property theorems (under construction) -/
import Banyan.Model.C08
namespace Banyan.C08
end Banyan.C08
