/-
C08 — Criteria mean the same with or without indexes and pruning.
Property theorems only; helper lemmas live in Banyan/Lemmas/C08*.lean.

The theorems are about the executable models in Banyan/Model/C08.lean, which mirror the *repaired* functions
(fixes F9, F21–F25, F27, F29, F61–F63 in /verif/fixes); each `_legacy` definition mirrors the code at the pinned
commit and comes with a `decide`d counterexample.
-/
import Banyan.Model.C08
import Banyan.Lemmas.C08Bloom
import Banyan.Lemmas.C08Dict
import Banyan.Lemmas.C08Order
import Banyan.Lemmas.C08MinMax
import Banyan.Lemmas.C08Skip
import Banyan.Lemmas.C08Index
import Banyan.Lemmas.C08Scan

namespace Banyan.C08
open Banyan

/-! ## 1. bloom filter: no false negatives, for ANY hash function -/

/-- `MightContain(x)` is true for every `x` that was `Add`ed, whatever the hash function `H`, the initial bit
    array (any positive size, any prior content) and the other items added before or after. -/
theorem bloom_no_false_negative (H : Bytes → Nat) (bf : Bloom) (hm : 0 < bf.bits.length)
    (xs : List Bytes) (x : Bytes) (hx : x ∈ xs) : (bf.addAll H xs).mightContain H x = true := by
  induction xs generalizing bf with
  | nil => cases hx
  | cons y ys ih =>
    simp only [Bloom.addAll, List.foldl_cons]
    rcases List.mem_cons.mp hx with rfl | hmem
    · exact Bloom.mightContain_addAll_mono H _ x ys (Bloom.mightContain_add_self H bf hm x)
    · exact ih (bf.add H y) (by rw [Bloom.add_length]; exact hm) hmem

/-- the filter the writers allocate (`NewBloomFilter(n)` / `ResizeBits(OptimalBitsSize(n))`) is never empty,
    in particular at the `n >> 2 = 0` edge (`n < 4`). -/
theorem bloom_new_nonempty (n : Nat) : 0 < (Bloom.new n).bits.length := Bloom.new_length_pos n

theorem bloom_new_no_false_negative (H : Bytes → Nat) (n : Nat) (xs : List Bytes) (x : Bytes) (hx : x ∈ xs) :
    ((Bloom.new n).addAll H xs).mightContain H x = true :=
  bloom_no_false_negative H _ (bloom_new_nonempty n) xs x hx

/-- monotone: further `Add`s never turn "might contain" into "does not contain". -/
theorem bloom_monotone (H : Bytes → Nat) (bf : Bloom) (x : Bytes) (ys : List Bytes)
    (h : bf.mightContain H x = true) : (bf.addAll H ys).mightContain H x = true :=
  Bloom.mightContain_addAll_mono H bf x ys h

/-- `ContainsAll(items)` is true when every item was added. -/
theorem bloom_containsAll_sound (H : Bytes → Nat) (n : Nat) (xs items : List Bytes) (h : ∀ i ∈ items, i ∈ xs) :
    ((Bloom.new n).addAll H xs).containsAll H items = true := by
  simp only [Bloom.containsAll, List.all_eq_true]
  intro i hi
  exact bloom_new_no_false_negative H n xs i (h i hi)

example : ((Bloom.new 0).addAll xxh64 [[97], [98]]).mightContain xxh64 [97] = true :=
  bloom_new_no_false_negative xxh64 0 [[97], [98]] [97] (by simp)

/-! ## 2. dictionary filter -/

/-- **exact specification of the repaired `ContainsAll` on string-array dictionaries**: for ANY element bytes
    (including `|` and `\`), the answer is "the query items are a subset of one stored array". -/
theorem dictionary_filter_sound (arrs : List (List Bytes)) (items : List Bytes) :
    (Dict.mk .strArr (arrs.map marshalStrArr)).containsAll items =
      (items.isEmpty || arrs.any fun a => items.all fun x => a.contains x) := by
  unfold Dict.containsAll
  cases hi : items.isEmpty
  · simp only [Bool.false_eq_true, if_false, Bool.false_or, List.any_map]
    congr 1
    funext a
    exact extractStrArr_marshal a items
  · simp

/-- the same for int-array dictionaries (8-byte ordered encodings) -/
theorem dictionary_filter_sound_intArr (arrs : List (List I64)) (items : List I64) :
    (Dict.mk .intArr (arrs.map fun a => (a.map encI64).flatten)).containsAll (items.map encI64) =
      (items.isEmpty || arrs.any fun a => items.all fun x => a.contains x) := by
  unfold Dict.containsAll
  cases items with
  | nil => simp
  | cons i is =>
    simp only [List.map_cons, List.isEmpty_cons, Bool.false_eq_true, if_false, Bool.false_or, List.any_map]
    congr 1
    funext a
    exact extractIntArr_enc a (i :: is)

/-- scalar dictionaries: all items are dictionary values -/
theorem dictionary_filter_sound_scalar (vals items : List Bytes) :
    (Dict.mk .str vals).containsAll items = items.all fun x => vals.contains x := by
  unfold Dict.containsAll
  cases items with
  | nil => simp
  | cons i is => simp

/-- **no false negative**: a block whose dictionary holds the (serialized) array of some row admits every
    sub-list of that row's elements — so a `skip` based on it never discards that row. -/
theorem dictionary_no_false_negative (arrs : List (List Bytes)) (a : List Bytes) (ha : a ∈ arrs)
    (items : List Bytes) (hsub : ∀ x ∈ items, x ∈ a) :
    (Dict.mk .strArr (arrs.map marshalStrArr)).containsAll items = true := by
  rw [dictionary_filter_sound]
  cases hi : items.isEmpty
  · simp only [Bool.false_or, List.any_eq_true]
    exact ⟨a, ha, by simp only [List.all_eq_true]; intro x hx; simpa using hsub x hx⟩
  · rfl

/-- the repaired filter is a pure function: asking twice gives the same answer (trivially) and the stored
    values are not part of the result. Finding F9: at the pinned commit the lookup decodes the stored value in
    place — `a\|b|c|` becomes `a|bb|c|` — so the second identical query answers `false`. -/
theorem dictionary_legacy_counterexample :
    let stored := [marshalStrArr [[97, 124, 98], [99]]]          -- one array: ["a|b", "c"]
    let q := [[97, 124, 98]]                                     -- ContainsAll(["a|b"])
    let (r1, stored1) := containsAllStrArrLegacy stored q
    let (r2, _) := containsAllStrArrLegacy stored1 q
    r1 = true ∧ r2 = false ∧ stored1 ≠ stored ∧
      (Dict.mk .strArr stored).containsAll q = true := by
  decide

/-! ## 3. min/max -/

/-- the writer's running min/max (repaired F27: nulls ignored) bracket every stored value -/
theorem minmax_written_sound (vs : List (Option I64)) (i : I64) (hi : some i ∈ vs) :
    let stored := vs.map (Option.map encI64)
    lexLt (blockMax stored) (encI64 i) = false ∧ lexLt (encI64 i) (blockMin stored) = false := by
  have hne : ∀ v, some v ∈ vs.map (Option.map encI64) → v ≠ [] := by
    intro v hv
    obtain ⟨o, _, ho⟩ := List.mem_map.mp hv
    cases o with
    | none => cases ho
    | some j =>
      simp only [Option.map_some, Option.some.injEq] at ho
      subst ho
      intro h
      have := encI64_length j
      rw [h] at this
      cases this
  have hmem : some (encI64 i) ∈ vs.map (Option.map encI64) := List.mem_map.mpr ⟨some i, hi, rfl⟩
  exact ⟨blockMax_ge _ hne _ hmem, blockMin_le _ hne _ hmem⟩

/-- **min/max pruning is sound**: if the block's bounds bracket `i` and `Range` says "skip" for a range
    condition `op lit`, then the scan predicate is false for `i`. -/
theorem minmax_sound (mt : Val → Val → Bool) (mn mx : Bytes) (op : Op) (l i : I64) (r : IntRange)
    (hr : intRangeOf op l = some r)
    (hmx : lexLt mx (encI64 i) = false) (hmn : lexLt (encI64 i) mn = false)
    (h : rangeSkip mn mx r = true) : leafEval cmpI64 mt op (.int l) (.int i) = false := by
  rw [leafEval_int_range mt op l i r hr]
  exact rangeSkip_sound mn mx r i hmx hmn h

example : rangeSkip (encI64 5#64) (encI64 7#64) ⟨7#64, maxI64, false, true⟩ = true := by decide

/-- F27: at the pinned commit a null between two values resets the running minimum: `[5, null, 7]` ends with
    min = enc 7, above the stored 5. -/
theorem minmax_legacy_counterexample :
    blockMin_legacy [some (encI64 5#64), none, some (encI64 7#64)] = encI64 7#64 ∧
    blockMin [some (encI64 5#64), none, some (encI64 7#64)] = encI64 5#64 := by
  decide

/-- F21: `int64Literal.Compare` by subtraction wraps: `9e18 > -9e18` is evaluated as false. -/
theorem compare_legacy_counterexample :
    let a : I64 := BitVec.ofInt 64 (-9000000000000000000)
    let b : I64 := BitVec.ofInt 64 9000000000000000000
    leafEval cmpI64_legacy (fun _ _ => false) .gt (.int a) (.int b) = false ∧
    leafEval cmpI64 (fun _ _ => false) .gt (.int a) (.int b) = true := by
  decide

/-- F29: at the pinned commit the implicit bound of a one-sided range is exclusive, so `tag > 6` prunes a block
    whose only value is `MaxInt64`. -/
theorem range_legacy_counterexample :
    (intRangeOf_legacy .gt 6#64).map (rangeSkip (encI64 maxI64) (encI64 maxI64)) = some true ∧
    (intRangeOf .gt 6#64).map (rangeSkip (encI64 maxI64) (encI64 maxI64)) = some false ∧
    leafEval cmpI64 (fun _ _ => false) .gt (.int 6#64) (.int maxI64) = true := by
  decide

/-! ## 4. pruning is sound: a skipped block holds no matching row -/

/-- **`pruning_sound` (stream)**: `skip summary pred = true → ∀ row ∈ block, ¬ pred row`, for every criteria tree,
    index configuration and hash function, given that the block's summaries were built from its rows. -/
theorem pruning_sound_stream (H : Bytes → Nat) (mt : Val → Val → Bool) (schema : List TagType) (cfg : List Cfg)
    (rows : List Row) (s : BlockSummary) (hs : BlockSound H .stream schema rows s) (ht : RowsTyped schema rows)
    (c : Criteria) (f : SFilter) (hc : compileStream schema cfg c = .ok f)
    (hk : shouldSkip H .stream s f = some true) : ∀ r ∈ rows, holds mt c r = false := by
  intro r hr
  have := compileStream_sound H schema cfg rows s hs ht mt c f hc hk r hr
  simp only [holds]
  cases h : eval mt c r with
  | none => rfl
  | some b => cases b <;> simp_all

/-- **`pruning_sound` (trace / sidx)** -/
theorem pruning_sound_trace (H : Bytes → Nat) (mt : Val → Val → Bool) (schema : List TagType)
    (rows : List Row) (s : BlockSummary) (hs : BlockSound H .trace schema rows s) (ht : RowsTyped schema rows)
    (c : Criteria) (f : SFilter) (hc : compileTrace schema c = .ok f)
    (hk : shouldSkip H .trace s f = some true) : ∀ r ∈ rows, holds mt c r = false := by
  intro r hr
  have := compileTrace_sound H schema rows s hs ht mt c f hc hk r hr
  simp only [holds]
  cases h : eval mt c r with
  | none => rfl
  | some b => cases b <;> simp_all

/-- non-vacuity: a block `{s = "a"}` whose dictionary holds "a" is pruned by `s = "b"` (and `BlockSound` holds). -/
example :
    let rows : List Row := [[some (.str [97])]]
    let s : BlockSummary := [(0, ⟨.dict ⟨.str, [[97]]⟩, [], [], .str⟩)]
    compileStream [.str] [.skipping] (.leaf .eq 0 (.str [98])) = .ok (.eq 0 [[98]]) ∧
      shouldSkip xxh64 .stream s (.eq 0 [[98]]) = some true ∧
      rows.map (holds (fun _ _ => false) (.leaf .eq 0 (.str [98]))) = [false] := by
  exact ⟨rfl, by decide, by decide⟩

/-- F22: the legacy skipping EQ probes the decimal text of an int literal; a dictionary of stored (8-byte) values
    never contains it, so a block holding the value 5 is pruned by `tag = 5`. -/
theorem eq_probe_legacy_counterexample :
    let d : FilterS := .dict ⟨.int, [encI64 5#64]⟩
    d.containsAll xxh64 [decimalBytes 5#64] = false ∧ d.containsAll xxh64 (litBytes (.int 5#64)) = true := by
  decide

/-- F24: `Eq` through `MightContain` never finds an element of an array dictionary. -/
theorem eq_array_legacy_counterexample :
    let s : BlockSummary := [(0, ⟨.dict ⟨.strArr, [marshalStrArr [[97], [98]]]⟩, [], [], .strArr⟩)]
    opEq_legacy xxh64 .stream s 0 [97] = false ∧ opEq xxh64 .stream s 0 [97] = true := by
  decide

/-! ## 5. inverted index -/

/-- **`index_superset`**: every document that satisfies the criteria is in the posting list the compiled inverted
    filter returns from the abstract index (for every tree, also with non-indexed leaves). -/
theorem index_superset (mt : Val → Val → Bool) (schema : List TagType) (cfg : List Cfg) (docs : List Doc)
    (hn : (docs.map (·.1)).Nodup) (c : Criteria) (f : IFilter) (hc : compileInv schema cfg c = .ok f)
    (d : Doc) (hd : d ∈ docs) (hty : RowTyped schema d.2) (hok : CritOk schema cfg d c)
    (hh : holds mt c d.2 = true) : (exec cfg docs f).contains d.1 = true := by
  rw [exec_contains cfg docs hn (compileInv_shape hc) d hd]
  apply isem_of_holds mt schema cfg d hty c f hok hc
  simpa [holds] using hh

/-- **`index_eq_scan` (mixed trees)**: the stream pipeline — index lookup, then the scan filter on the candidates —
    selects exactly the brute-force answer `rows.filter (eval c)`. -/
theorem index_eq_scan (mt : Val → Val → Bool) (schema : List TagType) (cfg : List Cfg) (docs : List Doc)
    (hn : (docs.map (·.1)).Nodup) (c : Criteria) (f : IFilter) (hc : compileInv schema cfg c = .ok f)
    (hty : ∀ d ∈ docs, RowTyped schema d.2) (hok : ∀ d ∈ docs, CritOk schema cfg d c) :
    docs.filter (fun d => (exec cfg docs f).contains d.1 && holds mt c d.2) = docs.filter (fun d => holds mt c d.2) := by
  apply List.filter_congr
  intro d hd
  cases hh : holds mt c d.2
  · simp
  · simp [index_superset mt schema cfg docs hn c f hc d hd (hty d hd) (hok d hd) hh]

/-- the index alone is exact for a filter tree: `Execute` returns precisely the documents with the tree's meaning
    (used for the NOT nodes; full exactness w.r.t. `eval` needs the literal/tag typing listed in the design note). -/
theorem index_exec_exact (cfg : List Cfg) (docs : List Doc) (hn : (docs.map (·.1)).Nodup)
    (schema : List TagType) (c : Criteria) (f : IFilter) (hc : compileInv schema cfg c = .ok f)
    (d : Doc) (hd : d ∈ docs) : (exec cfg docs f).contains d.1 = isem cfg f d :=
  exec_contains cfg docs hn (compileInv_shape hc) d hd

/-- full statement of index = scan for fully indexed trees (index alone, without the scan filter). It does NOT hold
    without further typing hypotheses (e.g. `s = "a"` on an array tag, HAVING on a scalar tag); kept visible. -/
def index_eq_scanStatement : Prop :=
  ∀ (mt : Val → Val → Bool) (schema : List TagType) (cfg : List Cfg) (docs : List Doc) (c : Criteria) (f : IFilter),
    (docs.map (·.1)).Nodup → compileInv schema cfg c = .ok f → (∀ d ∈ docs, RowTyped schema d.2) →
    (∀ d ∈ docs, CritOk schema cfg d c) → f.isEnode = false →
    ∀ d ∈ docs, (exec cfg docs f).contains d.1 = holds mt c d.2

/-- non-vacuity of `index_superset`'s hypotheses, and F26 (a document without any indexed field is invisible). -/
example :
    let cfg := [Cfg.inverted]
    let docs : List Doc := [(1, [some (.str [97])]), (2, [some .null])]
    compileInv [.str] cfg (.leaf .ne 0 (.str [98])) = .ok (.not 0 (.eq 0 (some (.bytes [98])))) ∧
      exec cfg docs (.not 0 (.eq 0 (some (.bytes [98])))) = .ids [1] ∧
      holds (fun _ _ => false) (.leaf .ne 0 (.str [98])) [some .null] = true := by
  exact ⟨rfl, by decide, by decide⟩

/-! ## 6. the property: the selected rows do not depend on the index configuration -/

theorem flatMap_filter_keep {α β : Type} (bs : List α) (keep : α → Bool) (g g' : α → List β)
    (h : ∀ b ∈ bs, (if keep b then g b else []) = g' b) : (bs.filter keep).flatMap g = bs.flatMap g' := by
  induction bs with
  | nil => rfl
  | cons b bs ih =>
    have hb := h b (by simp)
    have ih' := ih (fun b' hb' => h b' (by simp [hb']))
    by_cases hk : keep b = true
    · simp only [hk, if_true] at hb
      simp [List.filter_cons, hk, hb, ih']
    · simp only [hk, Bool.false_eq_true, if_false] at hb
      simp [List.filter_cons, hk, ← hb, ih']

/-- one block of a part: its summaries and its documents -/
abbrev Block := BlockSummary × List Doc

/-- The stream query pipeline on one part under configuration `cfg`: block pruning by the compiled skipping filter,
    index lookup by the compiled inverted filter, scan filter on what is left. `none` = the query is rejected. -/
def select (H : Bytes → Nat) (mt : Val → Val → Bool) (schema : List TagType) (cfg : List Cfg)
    (blocks : List Block) (c : Criteria) : Option (List Doc) :=
  let docs := blocks.flatMap (·.2)
  match compileStream schema cfg c, compileInv schema cfg c with
  | .ok sf, .ok f =>
    some ((blocks.filter fun b => !(shouldSkip H .stream b.1 sf == some true)).flatMap fun b =>
      b.2.filter fun d => (exec cfg docs f).contains d.1 && holds mt c d.2)
  | _, _ => none

def brute (mt : Val → Val → Bool) (blocks : List Block) (c : Criteria) : List Doc :=
  blocks.flatMap fun b => b.2.filter fun d => holds mt c d.2

/-- **`criteria_config_invariant`**: under every index configuration for which the query is accepted, the pipeline
    selects exactly the brute-force answer — hence the same rows under none / inverted / skipping. -/
theorem criteria_config_invariant (H : Bytes → Nat) (mt : Val → Val → Bool) (schema : List TagType) (cfg : List Cfg)
    (blocks : List Block) (c : Criteria)
    (hn : ((blocks.flatMap (·.2)).map (·.1)).Nodup)
    (hsound : ∀ b ∈ blocks, BlockSound H .stream schema (b.2.map (·.2)) b.1)
    (hty : ∀ b ∈ blocks, ∀ d ∈ b.2, RowTyped schema d.2)
    (hok : ∀ b ∈ blocks, ∀ d ∈ b.2, CritOk schema cfg d c)
    (res : List Doc) (hres : select H mt schema cfg blocks c = some res) : res = brute mt blocks c := by
  unfold select at hres
  simp only at hres
  split at hres
  · rename_i sf f hsf hf
    simp only [Option.some.injEq] at hres
    subst hres
    unfold brute
    have hdocs : ∀ b ∈ blocks, ∀ d ∈ b.2, d ∈ blocks.flatMap (·.2) := fun b hb d hd =>
      List.mem_flatMap.mpr ⟨b, hb, hd⟩
    -- per block: either it is kept (then the index is a superset) or skipped (then nothing matches)
    have key : ∀ b ∈ blocks,
        (if !(shouldSkip H .stream b.1 sf == some true) then
          b.2.filter (fun d => (exec cfg (blocks.flatMap (·.2)) f).contains d.1 && holds mt c d.2) else []) =
        b.2.filter (fun d => holds mt c d.2) := by
      intro b hb
      by_cases hk : shouldSkip H .stream b.1 sf = some true
      · simp only [hk, beq_self_eq_true, Bool.not_true, Bool.false_eq_true, if_false]
        symm
        apply List.filter_eq_nil_iff.mpr
        intro d hd
        have hrt : RowsTyped schema (b.2.map (·.2)) := by
          intro r hr tag v hv
          obtain ⟨d', hd', rfl⟩ := List.mem_map.mp hr
          exact hty b hb d' hd' tag v hv
        have := pruning_sound_stream H mt schema cfg (b.2.map (·.2)) b.1 (hsound b hb) hrt c sf hsf hk d.2
          (List.mem_map.mpr ⟨d, hd, rfl⟩)
        simp [this]
      · have : (shouldSkip H .stream b.1 sf == some true) = false := by
          cases h : shouldSkip H .stream b.1 sf with
          | none => rfl
          | some x => cases x <;> simp_all
        simp only [this, Bool.not_false, if_true]
        apply List.filter_congr
        intro d hd
        cases hh : holds mt c d.2
        · simp
        · simp [index_superset mt schema cfg _ hn c f hf d (hdocs b hb d hd) (hty b hb d hd) (hok b hb d hd) hh]
    exact flatMap_filter_keep blocks _ _ _ key
  · cases hres


/-! ## 7. series / time / block-filter pruning inside one part (`partIter.findBlock`) -/

/-- full statement: for block headers sorted by (series, start time) and wanted series in increasing order, the
    iterator returns exactly the blocks of wanted series that overlap `[lo, hi]` and are not pruned. -/
def scanPart_completeStatement : Prop :=
  ∀ (lo hi : Int) (skip : BlockMeta → Bool) (blocks : List BlockMeta) (sids : List Nat),
    blocks.Pairwise (fun a b => a.sid < b.sid ∨ (a.sid = b.sid ∧ a.minTs ≤ b.minTs)) →
    sids.Pairwise (· < ·) →
    scanPart false lo hi skip blocks sids =
      blocks.filter fun b => sids.contains b.sid && wantedBlock lo hi skip b

/-- proved part: all blocks of ONE wanted series (the multi-block case of finding F25): the iterator returns exactly
    the blocks that overlap the time range and are not pruned by the block filter. -/
theorem scanPart_complete_partial (lo hi : Int) (skip : BlockMeta → Bool) (sid : Nat) (blocks : List BlockMeta)
    (hs : ∀ b ∈ blocks, b.sid = sid) (hsorted : blocks.Pairwise fun a b => a.minTs ≤ b.minTs) :
    scanPart false lo hi skip blocks [sid] = blocks.filter (wantedBlock lo hi skip) := by
  unfold scanPart
  exact scanBlocks_single lo hi skip sid blocks hs hsorted _ (by simp; omega)

example : scanPart false 0 100 (fun b => b.minTs == 1) [⟨1, 1, 2⟩, ⟨1, 3, 3⟩] [1] = [⟨1, 3, 3⟩] := by decide

/-- F25: at the pinned commit a pruned block makes the iterator jump to the next series, so the second block of the
    series (which is not pruned and overlaps the time range) is never returned. -/
theorem scan_legacy_counterexample :
    scanPart true 0 100 (fun b => b.minTs == 1) [⟨1, 1, 2⟩, ⟨1, 3, 3⟩] [1] = [] ∧
    scanPart false 0 100 (fun b => b.minTs == 1) [⟨1, 1, 2⟩, ⟨1, 3, 3⟩] [1] = [⟨1, 3, 3⟩] := by
  decide

/-- F62: without the guard, `Range` prunes a block that has no recorded bounds (written before the index rule). -/
theorem range_missing_bounds_legacy_counterexample :
    rangeSkip [] [] ⟨3#64, maxI64, false, true⟩ = true ∧
    opRange .stream [(0, ⟨.none, [], [], .int⟩)] 0 (some ⟨3#64, maxI64, false, true⟩) true = some false := by
  decide


/-! ## 8. trace key range of the order-by tag -/

/-- **`bounds_sound`**: the key range `[minVal, maxVal]` that `buildFilter` derives for the order-by tag contains the
    key of every row satisfying the criteria, for every AND/OR tree (AND intersects, OR takes the hull). -/
theorem bounds_sound (mt : Val → Val → Bool) (orderTag : Nat) (c : Criteria) (r : Row) (v : I64)
    (he : eval mt c r = some true) (hv : r.get orderTag = some (.int v)) :
    (keyBounds orderTag c).1 ≤ v.toInt ∧ v.toInt ≤ (keyBounds orderTag c).2 := by
  have hlo : iMin ≤ v.toInt := min_le_toInt v
  have hhi : v.toInt ≤ iMax := toInt_le_max v
  induction c with
  | leaf op tag lit =>
    obtain ⟨w, hw, hle⟩ := evalWith_leaf_true he
    simp only [keyBounds, leafBounds]
    by_cases ht : tag = orderTag
    · subst ht
      rw [hv] at hw
      cases hw
      simp only [ne_eq, not_true_eq_false, if_false]
      cases lit with
      | int l =>
        cases op <;> simp only
        all_goals first
          | exact ⟨hlo, hhi⟩
          | skip
        · -- lt
          have := leafEval_int_range mt .lt l v _ rfl
          rw [this] at hle
          simp only [IntRange.mem, Bool.and_eq_true, if_true, Bool.false_eq_true, if_false] at hle
          have h2 := (slt_iff _ _).mp hle.2
          split <;> (try split) <;> constructor <;> (try simp only) <;> omega
        · -- le
          have := leafEval_int_range mt .le l v _ rfl
          rw [this] at hle
          simp only [IntRange.mem, Bool.and_eq_true, if_true] at hle
          have h2 := (sle_iff _ _).mp hle.2
          split <;> constructor <;> (try simp only) <;> omega
        · -- gt
          have := leafEval_int_range mt .gt l v _ rfl
          rw [this] at hle
          simp only [IntRange.mem, Bool.and_eq_true, if_true, Bool.false_eq_true, if_false] at hle
          have h1 := (slt_iff _ _).mp hle.1
          split <;> (try split) <;> constructor <;> (try simp only) <;> omega
        · -- ge
          have := leafEval_int_range mt .ge l v _ rfl
          rw [this] at hle
          simp only [IntRange.mem, Bool.and_eq_true, if_true] at hle
          have h1 := (sle_iff _ _).mp hle.1
          split <;> constructor <;> (try simp only) <;> omega
      | _ => exact ⟨hlo, hhi⟩
    · simp only [ne_eq, ht, not_false_eq_true, if_true]
      exact ⟨hlo, hhi⟩
  | and a b iha ihb =>
    obtain ⟨ha, hb⟩ := evalWith_and_true he
    have h1 := iha ha
    have h2 := ihb hb
    simp only [keyBounds]
    omega
  | or a b iha ihb =>
    simp only [keyBounds]
    rcases evalWith_or_true he with h | h
    · have h1 := iha h; omega
    · have h2 := ihb h; omega

example : keyBounds 0 (.or (.leaf .le 0 (.int 50#64)) (.leaf .ge 0 (.int 500#64))) = (iMin, iMax) := by decide

end Banyan.C08
