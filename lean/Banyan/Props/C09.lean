/-
C09 — Ordered results are globally sorted; limit/offset is a window of them.
Theorems about the executable model `Banyan.Model.C09` (tied to /repo by the c09 correspondence driver).
-/
import Banyan.Model.C09
import Banyan.Lemmas.C09Merge
import Banyan.Lemmas.C09Order
import Banyan.Lemmas.C09Complete
import Banyan.Lemmas.C09Dedup
import Banyan.Lemmas.C09Writer
import Banyan.Lemmas.C09Measure

namespace Banyan.C09

/-! ## 1. k-way merge -/

section KWay
variable {α : Type} {lt : α → α → Bool}

/-- **kway_merge_sorted.** Whatever `Less`-minimal entry `heap.Pop` returns at every step (all tie choices),
    draining a heap of sorted cursors yields a permutation of everything the cursors hold, in sorted order. -/
theorem kway_merge_sorted (sw : StrictWeak lt) {h : List (Cursor α)} {out : List α}
    (hs : ∀ c ∈ h, Sorted lt c.all) (hm : Merge lt h out) :
    out.Perm (heapAll h) ∧ Sorted lt out := ⟨hm.perm, hm.sorted sw hs⟩

/-- The executable merge (first minimal entry) is one admissible run. -/
theorem mergeHeap_is_Merge (sw : StrictWeak lt) (h : List (Cursor α)) : Merge lt h (mergeHeap lt h) :=
  mergeHeap_Merge sw h

/-- `NewItemIter(iters, desc)` over sorted iterators: every run (any tie choices) returns a sorted
    permutation of the union. -/
theorem newItemIter_sorted (sw : StrictWeak lt) {iters : List (List α)} {out : List α}
    (hs : ∀ it ∈ iters, Sorted lt it) (hm : Merge lt (initHeap iters) out) :
    out.Perm iters.flatten ∧ Sorted lt out := by
  have := kway_merge_sorted sw (sorted_initHeap hs) hm
  rwa [heapAll_initHeap] at this

/-- … in particular the executable `kmerge`. -/
theorem kmerge_sorted (sw : StrictWeak lt) {iters : List (List α)} (hs : ∀ it ∈ iters, Sorted lt it) :
    (kmerge lt iters).Perm iters.flatten ∧ Sorted lt (kmerge lt iters) :=
  newItemIter_sorted sw hs (mergeHeap_is_Merge sw _)

/-- Under a strict total order a sorted permutation is unique. -/
theorem sorted_perm_eq (so : StrictTotal lt) : ∀ {a b : List α}, a.Perm b → Sorted lt a → Sorted lt b → a = b := by
  intro a
  induction a with
  | nil => intro b p _ _; exact (List.Perm.nil_eq p)
  | cons x a' ih =>
    intro b p sa sb
    cases b with
    | nil => exact absurd p.symm (by simp)
    | cons y b' =>
      have hx : x ∈ y :: b' := (p.mem_iff).mp List.mem_cons_self
      have hy : y ∈ x :: a' := (p.mem_iff).mpr List.mem_cons_self
      have h1 : lt y x = false := by
        rcases List.mem_cons.mp hy with rfl | hy
        · exact so.irrefl _
        · exact (Sorted_cons.mp sa).1 y hy
      have h2 : lt x y = false := by
        rcases List.mem_cons.mp hx with rfl | hx
        · exact so.irrefl _
        · exact (Sorted_cons.mp sb).1 x hx
      have := so.total x y h2 h1
      subst this
      rw [ih p.cons_inv (Sorted_cons.mp sa).2 (Sorted_cons.mp sb).2]

theorem Sorted_map {κ : Type} {ltK : κ → κ → Bool} (key : α → κ) (hlt : ∀ x y, lt x y = ltK (key x) (key y))
    {l : List α} (s : Sorted lt l) : Sorted ltK (l.map key) := by
  unfold Sorted at *
  rw [List.pairwise_map]
  exact s.imp (by intro a b h; rw [← hlt]; exact h)

/-- **sorted_perm_keys_unique.** Rows may tie, but if the comparison is a strict total order on the sort
    keys, the *key sequence* of a sorted permutation is unique. -/
theorem sorted_perm_keys_unique {κ : Type} {ltK : κ → κ → Bool} (key : α → κ)
    (hlt : ∀ x y, lt x y = ltK (key x) (key y)) (so : StrictTotal ltK)
    {a b : List α} (p : a.Perm b) (sa : Sorted lt a) (sb : Sorted lt b) : a.map key = b.map key :=
  sorted_perm_eq so (p.map key) (Sorted_map key hlt sa) (Sorted_map key hlt sb)

end KWay

/-! ## 2. limit / offset -/

section Window
variable {α : Type}

theorem LimitIt.skip_spec (s : LimitIt α) : ∀ (f : Nat), f = s.offset - s.index →
    s.skip f = if f ≤ s.inner.length then some { s with inner := s.inner.drop f, index := s.index + f } else none := by
  intro f
  induction f generalizing s with
  | zero => intro _; simp [LimitIt.skip]
  | succ f ih =>
    intro hf
    have hlt : s.index < s.offset := by omega
    simp only [LimitIt.skip, hlt, if_true]
    cases hi : s.inner with
    | nil => simp
    | cons x r =>
      simp only []
      rw [ih _ (by simp; omega)]
      simp only [List.length_cons, List.drop_succ_cons, Nat.add_le_add_iff_right]
      split
      · congr 2; omega
      · rfl

theorem LimitIt.drain_spec : ∀ (f : Nat) (s : LimitIt α), s.inner.length < f → s.offset ≤ s.index →
    LimitIt.drain f s = s.inner.take (s.limit - (s.index - s.offset)) := by
  intro f
  induction f with
  | zero => intro s h; omega
  | succ f ih =>
    intro s hlen hoff
    have h0 : s.offset - s.index = 0 := by omega
    simp only [LimitIt.drain, LimitIt.next, h0, LimitIt.skip]
    by_cases hl : s.index - s.offset ≥ s.limit
    · simp only [hl, if_true]
      have : s.limit - (s.index - s.offset) = 0 := by omega
      simp [this]
    · simp only [hl, if_false]
      cases hi : s.inner with
      | nil => simp
      | cons x r =>
        simp only []
        rw [ih _ (by simp [hi] at hlen ⊢; omega) (by simp; omega)]
        simp only []
        have : s.limit - (s.index - s.offset) = (s.limit - (s.index + 1 - s.offset)) + 1 := by omega
        rw [this, List.take_succ_cons]

/-- **limitAll_eq_window.** The row-path `limitIterator` (skip loop + counter, mirrored control flow)
    returns exactly `(rows.drop offset).take limit`. -/
theorem limitAll_eq_window (offset limit : Nat) (l : List α) : limitAll offset limit l = window offset limit l := by
  unfold limitAll window
  cases hd : l.length + 1 with
  | zero => omega
  | succ f =>
    simp only [LimitIt.drain, LimitIt.next]
    rw [LimitIt.skip_spec _ _ (by simp)]
    simp only [Nat.sub_zero, Nat.zero_add]
    by_cases hle : offset ≤ l.length
    · simp only [hle, if_true, Nat.sub_self]
      by_cases hl : limit = 0
      · subst hl; simp
      · have : ¬ (0 ≥ limit) := by omega
        simp only [this, if_false]
        cases hdr : l.drop offset with
        | nil => simp
        | cons x r =>
          simp only []
          have hlen : r.length < f := by
            have := congrArg List.length hdr
            simp at this
            omega
          rw [LimitIt.drain_spec f _ (by simpa using hlen) (by simp)]
          simp only []
          have : limit = (limit - (offset + 1 - offset)) + 1 := by omega
          conv => rhs; rw [this, List.take_succ_cons]
    · simp only [hle, if_false]
      have : l.drop offset = [] := List.drop_eq_nil_of_le (by omega)
      simp [this]

variable {lt : α → α → Bool}

/-- **window_spec.** limit/offset applied to any run of the merge is the window of the ordered result:
    its key sequence equals the window of the key sequence of *every* sorted permutation `ref` of the
    union (`ref` = "the full ordered result"); if the comparison is total on rows (distinct sort keys), the
    rows themselves are determined. -/
theorem window_spec {κ : Type} {ltK : κ → κ → Bool} (key : α → κ)
    (hlt : ∀ x y, lt x y = ltK (key x) (key y)) (so : StrictTotal ltK) (sw : StrictWeak lt)
    {h : List (Cursor α)} {out ref : List α} (hs : ∀ c ∈ h, Sorted lt c.all) (hm : Merge lt h out)
    (hp : ref.Perm (heapAll h)) (hr : Sorted lt ref) (offset limit : Nat) :
    (limitAll offset limit out).map key = window offset limit (ref.map key) := by
  have ⟨p, s⟩ := kway_merge_sorted sw hs hm
  rw [limitAll_eq_window]
  have := sorted_perm_keys_unique key hlt so (p.trans hp.symm) s hr
  simp only [window, List.map_take, List.map_drop, this]

theorem window_unique (so : StrictTotal lt)
    {h : List (Cursor α)} {out ref : List α} (hs : ∀ c ∈ h, Sorted lt c.all) (hm : Merge lt h out)
    (hp : ref.Perm (heapAll h)) (hr : Sorted lt ref) (offset limit : Nat) :
    limitAll offset limit out = window offset limit ref := by
  have ⟨p, s⟩ := kway_merge_sorted so.toStrictWeak hs hm
  rw [limitAll_eq_window, sorted_perm_eq so (p.trans hp.symm) s hr]

end Window

/-! ## 3. sidx query -/

theorem flatten_take_prefix {α : Type} (cs : List (List α)) (k : Nat) : (cs.take k).flatten <+: cs.flatten :=
  ⟨(cs.drop k).flatten, by rw [← List.flatten_append, List.take_append_drop]⟩

/-- The hypothesis under which the per-scanner-batch heap drain is harmless: all matched blocks fit
    into one scanner batch, or their key ranges are pairwise disjoint. -/
def NoF11 (r : Req) (snap : List Part) : Prop :=
  (iterBlocks r snap).length ≤ threshold r ∨ PairwiseDisjoint (iterBlocks r snap)

theorem prefix_batches_sorted (r : Req) {snap : List Part} (wf : WF snap) (h : NoF11 r snap) (k : Nat) :
    Sorted (elemLt r.asc) ((((scanBatches r snap).take k).flatMap (mergeCall r)).flatten) := by
  rw [flatten_flatMap_mergeCall]
  have hsub : ((scanBatches r snap).take k).flatten.Sublist (iterBlocks r snap) := by
    have := (flatten_take_prefix (scanBatches r snap) k).sublist
    rwa [scanBatches_flatten'] at this
  refine batches_sorted r _ ?_ ?_
  · intro c hc b hb
    exact iterBlocks_wf wf b (hsub.subset (List.mem_flatten.mpr ⟨c, hc, hb⟩))
  · rcases h with h | h
    · left
      have hlen : (scanBatches r snap).length ≤ 1 := by
        unfold scanBatches
        rcases chunk_short (threshold_pos r) h with e | e <;> simp [e]
      rw [List.length_take]; omega
    · right
      have hc := chain_of_sorted_disjoint r.asc (iterBlocks_wf wf) (iterBlocks_sorted r wf) h
      exact List.Pairwise.sublist hsub hc

/-- `QuerySync` = the first `k` scanner batches of `StreamingQuery` (it stops after the batch at which
    `MaxBatchSize` distinct data values have been collected). -/
theorem syncLoop_prefix (r : Req) : ∀ (cs : List (List Block)) (seen : List String),
    ∃ k, syncLoop r seen cs = (cs.take k).flatMap (mergeCall r) := by
  intro cs
  induction cs with
  | nil => intro seen; exact ⟨0, rfl⟩
  | cons c cs ih =>
    intro seen
    simp only [syncLoop]
    split
    · exact ⟨1, by simp⟩
    · obtain ⟨k, hk⟩ := ih (countDistinct seen (mergeCall r c).flatten)
      exact ⟨k + 1, by simp [hk]⟩

theorem syncLoop_unbounded (r : Req) (h0 : r.maxBatch = 0) : ∀ (cs : List (List Block)) (seen : List String),
    syncLoop r seen cs = cs.flatMap (mergeCall r) := by
  intro cs
  induction cs with
  | nil => intro _; rfl
  | cons c cs ih =>
    intro seen
    simp only [syncLoop, h0, Nat.lt_irrefl, false_and, if_false, List.flatMap_cons, ih]

/-- **streaming_eq_sync.** `QuerySync` returns the response batches of `StreamingQuery` for a prefix of the
    scanner batches – all of them when `MaxBatchSize = 0` – so the two entry points agree as sequences. -/
theorem streaming_eq_sync (r : Req) (snap : List Part) :
    (∃ k, querySync r snap = ((scanBatches r snap).take k).flatMap (mergeCall r)) ∧
    (querySync r snap).flatten <+: (streamingQuery r snap).flatten ∧
    (r.maxBatch = 0 → querySync r snap = streamingQuery r snap) := by
  obtain ⟨k, hk⟩ := syncLoop_prefix r (scanBatches r snap) []
  refine ⟨⟨k, hk⟩, ?_, ?_⟩
  · unfold querySync streamingQuery
    rw [hk]
    have : (scanBatches r snap).flatMap (mergeCall r)
        = ((scanBatches r snap).take k).flatMap (mergeCall r) ++ ((scanBatches r snap).drop k).flatMap (mergeCall r) := by
      rw [← List.flatMap_append, List.take_append_drop]
    rw [this, List.flatten_append]
    exact List.prefix_append _ _
  · intro h0
    exact syncLoop_unbounded r h0 _ _

/-- **sidx_query_sorted.** Outside the F11 class both entry points return their elements in key order
    (for every write/flush/merge state `snap` satisfying the writer invariants). -/
theorem sidx_query_sorted (r : Req) {snap : List Part} (wf : WF snap) (h : NoF11 r snap) :
    Sorted (elemLt r.asc) (streamingQuery r snap).flatten ∧ Sorted (elemLt r.asc) (querySync r snap).flatten := by
  constructor
  · have := prefix_batches_sorted r wf h (scanBatches r snap).length
    rwa [List.take_length] at this
  · obtain ⟨k, hk⟩ := (streaming_eq_sync r snap).1
    rw [hk]
    exact prefix_batches_sorted r wf h k

/-! ### F11: the per-scanner-batch drain breaks the order beyond the hypothesis -/

def f11Small : List Part :=
  [ { id := 1, blocks := [{ sid := 1, lo := 1, hi := 3, elems := [⟨1, 1, "a"⟩, ⟨1, 3, "b"⟩] }] },
    { id := 2, blocks := [{ sid := 2, lo := 2, hi := 4, elems := [⟨2, 2, "c"⟩, ⟨2, 4, "d"⟩] }] } ]

def f11Req (mb : Nat) (asc : Bool) (sids : List Nat) : Req := { sids := sids, minKey := none, maxKey := none, asc := asc, maxBatch := mb }

/-- two overlapping blocks, `MaxBatchSize = 1`: StreamingQuery yields keys 1 3 2 4 -/
theorem f11_counterexample_small :
    ((streamingQuery (f11Req 1 true [1, 2]) f11Small).flatten.map (·.key)) = [1, 3, 2, 4] := by decide


/-- **completeness**: without duplicate data values (the de-duplication is then the identity) the
    concatenated response batches of `StreamingQuery` are a permutation of the matching elements –
    every matching element exactly once, nothing else. No hypothesis on batch sizes or block overlap. -/
theorem streaming_perm_matching (r : Req) {snap : List Part} (wf : WF snap) (hs : r.sids.Nodup)
    (hd : ((snap.flatMap Part.elems).map (·.data)).Nodup) :
    (streamingQuery r snap).flatten.Perm (matching r snap) := by
  have hB := iterBlocks_perm r snap hs
  -- data values inside the matched blocks are distinct
  have hBnd : (((iterBlocks r snap).flatMap (·.elems)).map (·.data)).Nodup := by
    have h1 : (((selectedBlocks r snap).flatMap (·.elems)).map (·.data)).Nodup := by
      rw [elems_flatMap] at hd
      exact hd.sublist (List.Sublist.map _ (sublist_flatMap_right _ List.filter_sublist))
    exact (((List.Perm.flatMap_right _ hB).map _).nodup_iff).mpr h1
  unfold streamingQuery
  rw [flatten_flatMap_mergeCall, ← List.flatMap_def, matching_eq r wf]
  refine (perm_flatMap_left (g := fun c => c.flatMap (rangeElems r)) ?_).trans ?_
  · intro c hc
    apply drainBatch_perm
    have hsub := chunk_sublist (threshold r) (iterBlocks r snap) c hc
    exact hBnd.sublist (List.Sublist.map _ (sublist_flatMap_right _ hsub))
  · rw [flatMap_flatten', scanBatches_flatten']
    exact List.Perm.flatMap_right _ hB



/-- the hypothesis in terms of the matched blocks themselves (order independent) -/
theorem noF11_of_selected (r : Req) (snap : List Part) (hs : r.sids.Nodup)
    (h : (selectedBlocks r snap).length ≤ threshold r ∨ PairwiseDisjoint (selectedBlocks r snap)) : NoF11 r snap := by
  have hp := iterBlocks_perm r snap hs
  rcases h with h | h
  · left; rw [hp.length_eq]; exact h
  · right
    unfold PairwiseDisjoint at *
    exact (hp.pairwise_iff (fun {a b} hab => hab.symm)).mpr h

/-- **sidx_query_spec.** For every write/flush/merge state satisfying the writer invariants, every request
    with distinct series ids, and data values that are distinct (so that the data-level de-duplication is
    the identity): if the matched blocks fit into one scanner batch or have pairwise disjoint key ranges, then
    `StreamingQuery` returns exactly the matching elements, each once, in key order; its key sequence is the
    one of *any* sorted permutation of the matching elements; and `QuerySync` returns a prefix of it
    (everything when `MaxBatchSize = 0`). -/
theorem sidx_query_spec (r : Req) {snap : List Part} (wf : WF snap) (hs : r.sids.Nodup)
    (hd : ((snap.flatMap Part.elems).map (·.data)).Nodup)
    (h : (selectedBlocks r snap).length ≤ threshold r ∨ PairwiseDisjoint (selectedBlocks r snap)) :
    let out := (streamingQuery r snap).flatten
    out.Perm (matching r snap) ∧ Sorted (elemLt r.asc) out ∧
    (∀ ref : List Elem, ref.Perm (matching r snap) → Sorted (elemLt r.asc) ref → out.map (·.key) = ref.map (·.key)) ∧
    (querySync r snap).flatten <+: out ∧ Sorted (elemLt r.asc) (querySync r snap).flatten ∧
    (r.maxBatch = 0 → querySync r snap = streamingQuery r snap) := by
  intro out
  have hp := streaming_perm_matching r wf hs hd
  have ⟨s1, s2⟩ := sidx_query_sorted r wf (noF11_of_selected r snap hs h)
  have ⟨_, e2, e3⟩ := streaming_eq_sync r snap
  refine ⟨hp, s1, ?_, e2, s2, e3⟩
  intro ref hr hsr
  exact sorted_perm_keys_unique Elem.key (elemLt_eq r.asc) (strictTotal_intLt r.asc) (hp.trans hr.symm) s1 hsr


/-- `sidx_query_spec` for every modelled write/flush/merge history (the writer invariants are a theorem,
    `applyOps_WF`, not a hypothesis). -/
theorem sidx_query_spec_history (ops : List Op) (r : Req) (hs : r.sids.Nodup)
    (hd : (((applyOps ops).flatMap Part.elems).map (·.data)).Nodup)
    (h : (selectedBlocks r (applyOps ops)).length ≤ threshold r ∨ PairwiseDisjoint (selectedBlocks r (applyOps ops))) :
    let out := (streamingQuery r (applyOps ops)).flatten
    out.Perm (matching r (applyOps ops)) ∧ Sorted (elemLt r.asc) out ∧
    (querySync r (applyOps ops)).flatten <+: out := by
  intro out
  have := sidx_query_spec r (applyOps_WF ops) hs hd h
  exact ⟨this.1, this.2.1, this.2.2.2.1⟩

/-! ### F11: the heap is drained completely for every scanner batch -/

def mkBlk (sid : Nat) (ks : List Int) : Block :=
  { sid := sid, lo := ks.head!, hi := ks.getLast!, elems := ks.map fun k => ⟨sid, k, s!"{sid}-{k}"⟩ }

/-- the input of the confirmed real-code reproduction: series 1..6, one part each, keys `sid + 7k`, k < 10 -/
def f11Snap : List Part :=
  (List.range 6).map fun i => { id := i + 1, blocks := [mkBlk (i + 1) ((List.range 10).map fun k => ((i + 1 + 7 * k : Nat) : Int))] }

/-- `MaxBatchSize = 1`: StreamingQuery returns all 60 elements, but as `1 8 15 … 64 2 9 …` -/
theorem f11_counterexample :
    ((streamingQuery (f11Req 1 true [1, 2, 3, 4, 5, 6]) f11Snap).flatten.map (·.key)).take 12
      = [1, 8, 15, 22, 29, 36, 43, 50, 57, 64, 2, 9] ∧
    (streamingQuery (f11Req 1 true [1, 2, 3, 4, 5, 6]) f11Snap).flatten.length = 60 ∧
    ¬ Sorted (elemLt true) (streamingQuery (f11Req 1 true [1, 2, 3, 4, 5, 6]) f11Snap).flatten := by
  refine ⟨by decide, by decide, ?_⟩
  intro h
  have : ∀ l : List Elem, Sorted (elemLt true) l → (l.map (·.key)).Pairwise (· ≤ ·) := by
    intro l hl
    rw [List.pairwise_map]
    exact hl.imp (by intro a b hab; simp [elemLt] at hab; omega)
  have h2 := this _ h
  revert h2
  decide



theorem countDistinct_length (l : List Elem) : ∀ seen : List String, (countDistinct seen l).length ≤ seen.length + l.length := by
  induction l with
  | nil => intro seen; simp [countDistinct]
  | cons e es ih =>
    intro seen
    simp only [countDistinct]
    split
    · have := ih seen; simp only [List.length_cons]; omega
    · have := ih (e.data :: seen); simp only [List.length_cons] at this ⊢; omega

/-- either the sync loop saw every scanner batch, or it collected at least `MaxBatchSize` elements -/
theorem syncLoop_full_or_budget (r : Req) : ∀ (cs : List (List Block)) (seen : List String),
    syncLoop r seen cs = cs.flatMap (mergeCall r) ∨ r.maxBatch ≤ seen.length + (syncLoop r seen cs).flatten.length := by
  intro cs
  induction cs with
  | nil => intro seen; left; rfl
  | cons c cs ih =>
    intro seen
    simp only [syncLoop]
    split
    · rename_i hb
      right
      have := countDistinct_length (mergeCall r c).flatten seen
      omega
    · rcases ih (countDistinct seen (mergeCall r c).flatten) with h | h
      · left; simp [h]
      · right
        have := countDistinct_length (mergeCall r c).flatten seen
        simp only [List.flatten_append, List.length_append]
        omega

/-- **first_n_correct** (conditional – see `first_n_statement_false`): outside the F11 class the first
    `MaxBatchSize` keys returned by `QuerySync` are the first keys of the ordered matching elements. -/
theorem first_n_correct (r : Req) {snap : List Part} (wf : WF snap) (hs : r.sids.Nodup)
    (hd : ((snap.flatMap Part.elems).map (·.data)).Nodup)
    (h : (selectedBlocks r snap).length ≤ threshold r ∨ PairwiseDisjoint (selectedBlocks r snap))
    (ref : List Elem) (hr : ref.Perm (matching r snap)) (hsr : Sorted (elemLt r.asc) ref) :
    ((querySync r snap).flatten.take r.maxBatch).map (·.key) = (ref.take r.maxBatch).map (·.key) := by
  have spec := sidx_query_spec r wf hs hd h
  simp only at spec
  obtain ⟨_, _, hk, hpre, _, _⟩ := spec
  have hkeys := hk ref hr hsr
  have htake : (querySync r snap).flatten.take r.maxBatch = (streamingQuery r snap).flatten.take r.maxBatch := by
    rcases syncLoop_full_or_budget r (scanBatches r snap) [] with h1 | h1
    · unfold querySync streamingQuery; rw [h1]
    · obtain ⟨t, ht⟩ := hpre
      rw [← ht, List.take_append_of_le_length]
      simpa [querySync] using h1
  rw [htake, List.map_take, List.map_take, hkeys]

/-- the claim in the comment of `processSyncLoop` ("the block iterator yields blocks in key order, so the
    first MaxBatchSize distinct elements are the ordered top-N"), without the F11 hypothesis -/
def FirstNStatement : Prop :=
  ∀ (r : Req) (snap : List Part), WF snap → r.sids.Nodup → ((snap.flatMap Part.elems).map (·.data)).Nodup →
    ∀ ref : List Elem, ref.Perm (matching r snap) → Sorted (elemLt r.asc) ref →
      ((querySync r snap).flatten.take r.maxBatch).map (·.key) = (ref.take r.maxBatch).map (·.key)



/-! decidability of the writer invariants on concrete snapshots -/
theorem wfBlock_iff (b : Block) : WFBlock b ↔
    ((∀ e ∈ b.elems, e.sid = b.sid ∧ b.lo ≤ e.key ∧ e.key ≤ b.hi) ∧
      b.elems.Pairwise (fun x y => x.key ≤ y.key) ∧ b.lo ≤ b.hi) := by
  constructor
  · intro w; exact ⟨fun e he => ⟨w.sid e he, w.lo e he, w.hi e he⟩, w.sorted, w.range⟩
  · intro ⟨h1, h2, h3⟩
    exact ⟨fun e he => (h1 e he).1, fun e he => (h1 e he).2.1, fun e he => (h1 e he).2.2, h2, h3⟩

instance (b : Block) : Decidable (WFBlock b) := decidable_of_iff _ (wfBlock_iff b).symm

instance {α : Type} (lt : α → α → Bool) (l : List α) : Decidable (Sorted lt l) := by
  unfold Sorted; infer_instance

theorem wfPart_iff (p : Part) : WFPart p ↔
    ((∀ b ∈ p.blocks, WFBlock b) ∧
      ∀ sid ∈ p.blocks.map (·.sid), Sorted lessByKey (p.blocks.filter fun b => b.sid == sid)) := by
  constructor
  · intro w; exact ⟨w.blocks, fun sid _ => w.series sid⟩
  · intro ⟨h1, h2⟩
    refine ⟨h1, fun sid => ?_⟩
    by_cases hm : sid ∈ p.blocks.map (·.sid)
    · exact h2 sid hm
    · have : (p.blocks.filter fun b => b.sid == sid) = [] := by
        rw [List.filter_eq_nil_iff]
        intro b hb hbs
        exact hm (List.mem_map.mpr ⟨b, hb, by simpa using hbs⟩)
      rw [this]; exact List.Pairwise.nil

instance (p : Part) : Decidable (WFPart p) := decidable_of_iff _ (wfPart_iff p).symm
instance (snap : List Part) : Decidable (WF snap) := by unfold WF; infer_instance

/-- descending order, `MaxBatchSize = 1`: blocks come by *minimum* key descending, the first scanner batch
    holds the block [50,60] only, the budget is reached, and `QuerySync` answers 60 although 100 matches.
    (Confirmed on the real code: `sidxf11 W1=1:1:a,1:100:b W2=2:50:c,2:60:d Q desc;1;*;*;1+2`.) -/
def firstNSnap : List Part :=
  [ { id := 1, blocks := [{ sid := 1, lo := 1, hi := 100, elems := [⟨1, 1, "a"⟩, ⟨1, 100, "b"⟩] }] },
    { id := 2, blocks := [{ sid := 2, lo := 50, hi := 60, elems := [⟨2, 50, "c"⟩, ⟨2, 60, "d"⟩] }] } ]

theorem first_n_counterexample_desc :
    ((querySync (f11Req 1 false [1, 2]) firstNSnap).flatten.map (·.key)) = [60, 50] := by decide

/-- ascending order with a lower key bound: block minima say nothing about the least *in-range* key.
    (Confirmed on the real code: `W1=1:1:a,1:20:b W2=2:2:c,2:9:d W3=3:3:e,3:6:f Q asc;1;5;10;1+2+3` → 9.) -/
def firstNRangeSnap : List Part :=
  [ { id := 1, blocks := [{ sid := 1, lo := 1, hi := 20, elems := [⟨1, 1, "a"⟩, ⟨1, 20, "b"⟩] }] },
    { id := 2, blocks := [{ sid := 2, lo := 2, hi := 9, elems := [⟨2, 2, "c"⟩, ⟨2, 9, "d"⟩] }] },
    { id := 3, blocks := [{ sid := 3, lo := 3, hi := 6, elems := [⟨3, 3, "e"⟩, ⟨3, 6, "f"⟩] }] } ]

theorem first_n_counterexample_range :
    ((querySync { sids := [1, 2, 3], minKey := some 5, maxKey := some 10, asc := true, maxBatch := 1 }
      firstNRangeSnap).flatten.map (·.key)) = [9] ∧
    (matching { sids := [1, 2, 3], minKey := some 5, maxKey := some 10, asc := true, maxBatch := 1 }
      firstNRangeSnap).map (·.key) = [9, 6] := by decide

/-- The unconditional top-N claim is false. -/
theorem first_n_statement_false : ¬ FirstNStatement := by
  intro h
  have := h (f11Req 1 false [1, 2]) firstNSnap (by decide) (by decide) (by decide)
    [⟨1, 100, "b"⟩, ⟨2, 60, "d"⟩, ⟨2, 50, "c"⟩, ⟨1, 1, "a"⟩] (by decide) (by decide)
  revert this
  decide

/-! non-vacuity of the hypotheses of `sidx_query_spec` / `first_n_correct` -/
example : WF f11Snap ∧ (f11Req 0 true [1, 2, 3, 4, 5, 6]).sids.Nodup ∧
    ((f11Snap.flatMap Part.elems).map (·.data)).Nodup ∧
    (selectedBlocks (f11Req 0 true [1, 2, 3, 4, 5, 6]) f11Snap).length ≤ threshold (f11Req 0 true [1, 2, 3, 4, 5, 6]) ∧
    (selectedBlocks (f11Req 0 true [1, 2, 3, 4, 5, 6]) f11Snap).length = 6 := by decide

/-- a disjoint layout with 3 blocks and `MaxBatchSize = 1` (threshold 1 < 3 blocks) -/
def disjointSnap : List Part :=
  [ { id := 1, blocks := [mkBlk 1 [1, 2, 5], mkBlk 2 [20, 21]] },
    { id := 2, blocks := [mkBlk 1 [6, 9, 20]] } ]

example : WF disjointSnap ∧ ((disjointSnap.flatMap Part.elems).map (·.data)).Nodup ∧
    ¬ (selectedBlocks (f11Req 1 false [2, 1]) disjointSnap).length ≤ threshold (f11Req 1 false [2, 1]) ∧
    PairwiseDisjoint (selectedBlocks (f11Req 1 false [2, 1]) disjointSnap) ∧
    (streamingQuery (f11Req 1 false [2, 1]) disjointSnap).flatten.map (·.key) = [21, 20, 20, 9, 6, 5, 2, 1] := by
  unfold PairwiseDisjoint
  decide



/-! ## 4. TopQueue -/

theorem popMin_none {rev : Bool} {h : List Int} (hn : popMin rev h = none) : h = [] := by
  cases h with
  | nil => rfl
  | cons c cs =>
    simp only [popMin] at hn
    split at hn
    · contradiction
    · split at hn <;> contradiction

theorem topLt_eq (rev : Bool) : topLt rev = intLt (!rev) := by
  funext a b; cases rev <;> simp [topLt, intLt]

theorem popMin_spec (rev : Bool) : ∀ (h : List Int) (m : Int) (o : List Int),
    popMin rev h = some (m, o) → h.Perm (m :: o) ∧ ∀ c ∈ h, topLt rev c m = false := by
  have sw : StrictWeak (topLt rev) := by rw [topLt_eq]; exact (strictTotal_intLt _).toStrictWeak
  intro h
  induction h with
  | nil => intro m o hp; simp [popMin] at hp
  | cons c cs ih =>
    intro m o hp
    simp only [popMin] at hp
    split at hp
    · rename_i hnone
      have := popMin_none hnone
      subst this
      cases hp
      exact ⟨List.Perm.refl _, by intro c' hc'; simp at hc'; subst hc'; exact sw.irrefl _⟩
    · rename_i m' o' hsome
      have ⟨hperm, hmin⟩ := ih m' o' hsome
      split at hp
      · rename_i hlt
        cases hp
        refine ⟨(List.Perm.cons c hperm).trans (List.Perm.swap _ _ _), ?_⟩
        intro c' hc'
        rcases List.mem_cons.mp hc' with rfl | hc'
        · exact sw.asymm hlt
        · exact hmin c' hc'
      · rename_i hlt
        cases hp
        refine ⟨List.Perm.refl _, ?_⟩
        intro c' hc'
        rcases List.mem_cons.mp hc' with rfl | hc'
        · exact sw.irrefl _
        · exact sw.nlt_trans (by simpa using hlt) (hmin c' hc')

/-- `a` ranks at least as high as `b` in the queue's order (top: `b ≤ a`, bottom: `a ≤ b`) -/
def topGe (rev : Bool) (a b : Int) : Prop := if rev then a ≤ b else b ≤ a

/-- the heap holds a top-`n` selection of `xs`: everything left out ranks no higher than anything kept -/
def IsTopN (n : Nat) (rev : Bool) (xs h : List Int) : Prop :=
  h.length = min n xs.length ∧ ∃ rest, xs.Perm (h ++ rest) ∧ ∀ a ∈ h, ∀ b ∈ rest, topGe rev a b

theorem topInsert_spec (n : Nat) (rev : Bool) (xs h : List Int) (x : Int) (inv : IsTopN n rev xs h)
    {a : Bool} {h' : List Int} (hi : topInsert n rev h x = some (a, h')) : IsTopN n rev (xs ++ [x]) h' := by
  obtain ⟨hlen, rest, hperm, hge⟩ := inv
  have hxl := hperm.length_eq
  simp only [List.length_append] at hxl
  unfold topInsert at hi
  split at hi
  · -- not full
    rename_i hlt
    cases hi
    have hrest : rest = [] := by
      apply List.length_eq_zero_iff.mp
      omega
    subst hrest
    refine ⟨by simp only [List.length_append, List.length_singleton]; omega, [], ?_, by simp⟩
    simp only [List.append_nil] at hperm ⊢
    exact List.Perm.append hperm (List.Perm.refl _)
  · rename_i hfull
    split at hi
    · contradiction
    · rename_i m o hpop
      have ⟨hp, hmin⟩ := popMin_spec rev h m o hpop
      have hol : o.length + 1 = h.length := by have := hp.length_eq; simp at this; omega
      have hmh : m ∈ h := (hp.mem_iff).mpr List.mem_cons_self
      have hoh : ∀ c ∈ o, c ∈ h := fun c hc => (hp.mem_iff).mpr (List.mem_cons_of_mem _ hc)
      have hm_le : ∀ c ∈ h, topGe rev c m := by
        intro c hc
        have := hmin c hc
        cases rev <;> simp [topLt, topGe] at this ⊢ <;> omega
      cases hrej : topRejects rev m x with
      | true =>
        -- rejected: x ranks strictly below the heap minimum
        simp only [hrej, if_true] at hi
        cases hi
        refine ⟨by simp only [List.length_append, List.length_singleton]; omega, x :: rest, ?_, ?_⟩
        · have h1 : (o ++ [m]).Perm h := (List.perm_append_comm.trans hp.symm)
          have : (xs ++ [x]).Perm (h ++ rest ++ [x]) := List.Perm.append hperm (List.Perm.refl _)
          refine this.trans ?_
          rw [List.append_assoc]
          refine List.Perm.append h1.symm ?_
          exact List.perm_append_comm
        · intro a ha b hb
          have ha' : a ∈ h := by
            rcases List.mem_append.mp ha with ha | ha
            · exact hoh a ha
            · simp at ha; subst ha; exact hmh
          rcases List.mem_cons.mp hb with rfl | hb
          · have := hm_le a ha'
            cases rev <;> simp [topGe, topRejects] at this hrej ⊢ <;> omega
          · exact hge a ha' b hb
      | false =>
        have hacc := hrej
        simp only [hrej, Bool.false_eq_true, if_false] at hi
        cases hi
        refine ⟨by simp only [List.length_append, List.length_singleton]; omega, m :: rest, ?_, ?_⟩
        · have : (xs ++ [x]).Perm (h ++ rest ++ [x]) := List.Perm.append hperm (List.Perm.refl _)
          refine this.trans ?_
          have h2 : (h ++ rest ++ [x]).Perm (m :: o ++ rest ++ [x]) :=
            List.Perm.append (List.Perm.append hp (List.Perm.refl _)) (List.Perm.refl _)
          refine h2.trans ?_
          have hA : (m :: o ++ rest ++ [x]).Perm (m :: (o ++ [x] ++ rest)) := by
            have : (o ++ rest ++ [x]).Perm (o ++ [x] ++ rest) := by
              rw [List.append_assoc, List.append_assoc]
              exact List.Perm.append (List.Perm.refl o) List.perm_append_comm
            exact List.Perm.cons m this
          have hB : (m :: (o ++ [x] ++ rest)).Perm (o ++ [x] ++ m :: rest) := List.perm_middle.symm
          exact hA.trans hB
        · intro a ha b hb
          have hxm : topGe rev x m := by cases rev <;> simp [topGe, topRejects] at hacc ⊢ <;> omega
          rcases List.mem_cons.mp hb with rfl | hb
          · rcases List.mem_append.mp ha with ha | ha
            · exact hm_le a (hoh a ha)
            · simp at ha; subst ha; exact hxm
          · rcases List.mem_append.mp ha with ha | ha
            · exact hge a (hoh a ha) b hb
            · simp at ha; subst ha
              have := hge m hmh b hb
              cases rev <;> simp [topGe] at this hxm ⊢ <;> omega

theorem topRun_spec (n : Nat) (rev : Bool) : ∀ (xs pre : List Int) (st : List Bool × List Int),
    IsTopN n rev pre st.2 → ∀ {res}, topRun n rev xs st = some res → IsTopN n rev (pre ++ xs) res.2 := by
  intro xs
  induction xs with
  | nil => intro pre st inv res hr; simp [topRun] at hr; subst hr; simpa using inv
  | cons x xs ih =>
    intro pre st inv res hr
    simp only [topRun] at hr
    split at hr
    · contradiction
    · rename_i a h' hi
      have := ih (pre ++ [x]) _ (topInsert_spec n rev pre st.2 x inv hi) hr
      simpa using this

/-- **topn_heap_spec.** After inserting any sequence into a `TopQueue(n)` (whatever the heap's tie choices
    in the executable model), the heap is a top-`n` selection of the inserted values and `Elements()`
    lists it in rank order (descending for top, ascending for bottom). -/
theorem topn_heap_spec (n : Nat) (rev : Bool) (xs : List Int) {acc : List Bool} {h : List Int}
    (hr : topRun n rev xs ([], []) = some (acc, h)) :
    IsTopN n rev xs h ∧ (topElements rev h).Perm h ∧ (topElements rev h).Pairwise (topGe rev) := by
  have h0 : IsTopN n rev [] (([], []) : List Bool × List Int).2 := ⟨by simp, [], by simp, by simp⟩
  have h1 := topRun_spec n rev xs [] ([], []) h0 hr
  refine ⟨by simpa using h1, List.mergeSort_perm _ _, ?_⟩
  unfold topElements
  have := List.pairwise_mergeSort (le := fun a b => if rev then decide (a ≤ b) else decide (a ≥ b))
    (by intro a b c; cases rev <;> simp <;> omega) (by intro a b; cases rev <;> simp <;> omega) h
  exact this.imp (by intro a b hab; cases rev <;> simp [topGe] at hab ⊢ <;> omega)

/-- `heap.Pop` on an empty heap (Go: index out of range) is reachable only with `n = 0` -/
theorem topInsert_no_panic (n : Nat) (rev : Bool) (h : List Int) (x : Int) (hn : 0 < n) (hl : h.length ≤ n) :
    (topInsert n rev h x).isSome = true := by
  unfold topInsert
  split
  · rfl
  · split
    · rename_i hp
      have := popMin_none hp
      subst this
      simp at *
      omega
    · cases topRejects rev _ x <;> rfl

example : topRun 2 false [5, 1, 7, 3] ([], []) = some ([true, true, true, false], [7, 5]) := by decide


/-! ## 5. coordinator merge + (sid, ts)-by-version de-duplication (`sortedMIterator`) -/


theorem strictWeak_dpLt (desc : Bool) : StrictWeak (dpLt desc) where
  irrefl := by intro a; cases desc <;> simp [dpLt]
  trans := by intro a b c; cases desc <;> simp [dpLt] <;> omega
  ntrans := by intro a b c; cases desc <;> simp [dpLt] <;> omega

/-- what the coordinator returns for the rows `union` held by the data nodes -/
structure MergedResult (desc : Bool) (union out : List DP) : Prop where
  sorted : Sorted (dpLt desc) out
  distinct : out.Pairwise (fun a b => ¬ sameKey a b)
  newest : ∀ d ∈ out, d ∈ union ∧ ∀ e ∈ union, sameKey e d → e.ver ≤ d.ver
  complete : ∀ e ∈ union, ∃ d ∈ out, sameKey d e

theorem mem_of_pairwise_distinct {l : List DP} (h : l.Pairwise (fun a b => ¬ sameKey a b)) {a b : DP}
    (ha : a ∈ l) (hb : b ∈ l) (hk : sameKey a b) : a = b := by
  induction l with
  | nil => cases ha
  | cons x xs ih =>
    rw [List.pairwise_cons] at h
    rcases List.mem_cons.mp ha with rfl | ha'
    · rcases List.mem_cons.mp hb with rfl | hb'
      · rfl
      · exact absurd hk (h.1 b hb')
    · rcases List.mem_cons.mp hb with rfl | hb'
      · exact absurd ⟨hk.1.symm, hk.2.symm⟩ (h.1 a ha')
      · exact ih h.2 ha' hb'

/-- **distributed_merge_spec.** The coordinator's k-way merge of the per-node lists (each sorted by the sort
    key; any tie choices of the heap) followed by `sortedMIterator`'s (sid, timestamp)-by-version
    de-duplication is sorted, holds every (sid, timestamp) of the union exactly once, and each with its
    newest version. -/
theorem distributed_merge_spec (desc : Bool) (nodes : List (List DP))
    (hs : ∀ n ∈ nodes, Sorted (dpLt desc) n) {merged : List DP} (hm : Merge (dpLt desc) (initHeap nodes) merged) :
    MergedResult desc nodes.flatten (dedupGroups [] merged) := by
  have ⟨hp, hsorted⟩ := newItemIter_sorted (strictWeak_dpLt desc) hs hm
  have pre : DedupPre desc [] merged := ⟨hsorted, by simp, by simp, List.Pairwise.nil⟩
  have post := dedupGroups_spec desc merged [] pre
  refine ⟨post.sorted, post.distinct, ?_, ?_⟩
  · intro d hd
    have hdm : d ∈ merged := by
      rcases post.mem d hd with h | h
      · cases h
      · exact h
    refine ⟨(hp.mem_iff).mp hdm, ?_⟩
    intro e he hk
    obtain ⟨x, hx, hkx, hv⟩ := post.cover e (by simpa using (hp.mem_iff).mpr he)
    have : x = d := mem_of_pairwise_distinct post.distinct hx hd ⟨hkx.1.trans hk.1, hkx.2.trans hk.2⟩
    subst this
    exact hv
  · intro e he
    obtain ⟨x, hx, hkx, _⟩ := post.cover e (by simpa using (hp.mem_iff).mpr he)
    exact ⟨x, hx, hkx⟩

/-- … hence the result does not depend on how the rows are spread over nodes: two distributions of the same
    rows (in particular: all rows on a single node) yield the same (sid, timestamp, version) triples. -/
theorem distributed_eq_single_node (desc : Bool) {u₁ u₂ o₁ o₂ : List DP} (hu : u₁.Perm u₂)
    (r₁ : MergedResult desc u₁ o₁) (r₂ : MergedResult desc u₂ o₂) :
    ∀ d₁ ∈ o₁, ∃ d₂ ∈ o₂, sameKey d₂ d₁ ∧ d₂.ver = d₁.ver := by
  intro d₁ h₁
  have ⟨hm₁, hn₁⟩ := r₁.newest d₁ h₁
  obtain ⟨d₂, h₂, hk⟩ := r₂.complete d₁ ((hu.mem_iff).mp hm₁)
  have ⟨hm₂, hn₂⟩ := r₂.newest d₂ h₂
  have a := hn₂ d₁ ((hu.mem_iff).mp hm₁) ⟨hk.1.symm, hk.2.symm⟩
  have b := hn₁ d₂ ((hu.mem_iff).mpr hm₂) hk
  exact ⟨d₂, h₂, hk, by omega⟩

/-- the executable `mmerge` is such a run followed by the limit window -/
theorem mmerge_eq (desc : Bool) (offset limit : Nat) (nodes : List (List DP)) :
    mmerge desc offset limit nodes = window offset limit (dedupGroups [] (kmerge (dpLt desc) nodes)) ∧
    Merge (dpLt desc) (initHeap nodes) (kmerge (dpLt desc) nodes) :=
  ⟨limitAll_eq_window _ _ _, mergeHeap_is_Merge (strictWeak_dpLt desc) _⟩

example : mmerge false 0 10 [[⟨1, 1, 1, 5⟩, ⟨3, 1, 1, 6⟩], [⟨1, 1, 2, 7⟩, ⟨2, 2, 1, 8⟩]]
    = [⟨1, 1, 2, 7⟩, ⟨2, 2, 1, 8⟩, ⟨3, 1, 1, 6⟩] := by decide


/-! ## 6. measure `queryResult` (order by time) -/

/-- **measure_pull_sorted.** Order by time: whatever is in the heap of block cursors (each cursor in
    timestamp order), the rows handed out by successive `Pull()` calls – one series run per call, newer versions
    replacing older ones – come in timestamp order in the requested direction over the *whole* result. -/
theorem measure_pull_sorted (asc : Bool) (sids : List Nat) (h : List (Cursor MRow))
    (hs : ∀ c ∈ h, Sorted (qrLt true asc sids) c.all) (fuel : Nat) :
    (qrPullAll (qrLt true asc sids) fuel h).flatten.Pairwise (tsLe asc) :=
  (qrPullAll_spec asc sids fuel h hs).1



/-- **measure_query_sorted.** Order by time: for every set of parts (any duplicates of (series, timestamp)
    with any versions inside and across parts), every series selection and time range, the rows returned by
    the successive `Pull()` calls of the measure `queryResult` are in timestamp order in the requested
    direction over the whole result. -/
theorem measure_query_sorted (parts : List (List MRow)) (sids : List Nat) (minTS maxTS : Int) (asc : Bool) :
    (measureQuery parts sids minTS maxTS true asc).flatten.Pairwise (tsLe asc) := by
  unfold measureQuery
  refine (qrPullAll_spec asc sids _ _ ?_).1
  apply sorted_initHeap
  intro it hit
  obtain ⟨b, hb, rfl⟩ := List.mem_map.mp hit
  have hb' := (List.mem_filter.mp hb).1
  obtain ⟨p, _, hbp⟩ := List.mem_flatMap.mp hb'
  exact cursor_sorted asc sids (measureBlocks_rows p b hbp) _

/-- three cursors of two parts, duplicates of (series 1, timestamp 5) -/
def pullEx : List (Cursor MRow) :=
  [(⟨1, 7, 1, 11⟩, [⟨1, 5, 1, 10⟩]), (⟨2, 6, 1, 20⟩, []), (⟨1, 5, 2, 12⟩, []), (⟨2, 8, 1, 21⟩, [])]

/-- non-vacuity of the hypothesis of `qrPullAll_spec` / `measure_pull_sorted` (descending) -/
example : (∀ c ∈ pullEx, Sorted (qrLt true false [1, 2]) c.all) ∧
    qrPullAll (qrLt true false [1, 2]) 10 pullEx = [[⟨2, 8, 1, 21⟩], [⟨1, 7, 1, 11⟩], [⟨2, 6, 1, 20⟩], [⟨1, 5, 2, 12⟩]] := by
  unfold Sorted
  decide



/-! ## 7. stream row-path limit over a paged source; trace multi-instance merge -/

section
variable {α : Type}

theorem limitLoop_eq (target : Nat) : ∀ (ps : List (List α)) (acc : List α), (∀ p ∈ ps, p ≠ []) →
    acc.length ≤ target → limitLoop target ps acc = (acc ++ ps.flatten).take target := by
  intro ps
  induction ps with
  | nil => intro acc _ h; simp [limitLoop, List.take_of_length_le h]
  | cons p ps ih =>
    intro acc hne hlen
    simp only [limitLoop]
    split
    · rename_i hlt
      have hp : p ≠ [] := hne p List.mem_cons_self
      have : p.isEmpty = false := by cases p <;> simp_all
      simp only [this, Bool.false_eq_true, if_false]
      rw [ih _ (fun q hq => hne q (List.mem_cons_of_mem _ hq))
        (by simp only [List.length_append, List.length_take]; omega)]
      simp only [List.flatten_cons]
      by_cases hpl : p.length ≤ target - acc.length
      · rw [List.take_of_length_le hpl, List.append_assoc]
      · have h1 : (acc ++ p.take (target - acc.length)).length = target := by
          simp only [List.length_append, List.length_take]; omega
        rw [List.take_append_of_le_length (by omega), List.take_of_length_le (by omega)]
        rw [← List.append_assoc, List.take_append_of_le_length (by simp only [List.length_append]; omega)]
        rw [List.take_append]
        simp only [List.take_of_length_le (Nat.le_of_lt hlt)]
    · rename_i hge
      have : acc.length = target := by omega
      rw [List.take_append_of_le_length (by omega), List.take_of_length_le (by omega)]

theorem take_flatten_map_take (t : Nat) : ∀ (ps : List (List α)) (s : Nat), s ≤ t →
    ((ps.map fun p => p.take t).flatten).take s = ps.flatten.take s := by
  intro ps
  induction ps with
  | nil => intro s _; rfl
  | cons p ps ih =>
    intro s hs
    simp only [List.map_cons, List.flatten_cons]
    by_cases hp : p.length ≤ t
    · rw [List.take_of_length_le hp, List.take_append, List.take_append,
        ih _ (by omega)]
    · have h1 : s ≤ (p.take t).length := by simp only [List.length_take]; omega
      rw [List.take_append_of_le_length h1, List.take_append_of_le_length (by omega), List.take_take]
      congr 1; omega

theorem flatten_filter_nonempty (ps : List (List α)) : (ps.filter fun p => !p.isEmpty).flatten = ps.flatten := by
  induction ps with
  | nil => rfl
  | cons p ps ih => cases p <;> simp [ih]

/-- **stream_limit_window.** The row-path `limit.Execute` of the stream plan – page accumulation loop over the
    successive pulls of the storage result, each pull capped at `limit+offset`, empty pulls skipped – returns exactly
    `window offset limit` of the concatenated pulls, however the ordered rows are spread over pulls. -/
theorem stream_limit_window (offset limit : Nat) (pulls : List (List α)) :
    streamLimit offset limit pulls = window offset limit pulls.flatten := by
  unfold streamLimit window
  by_cases h0 : offset + limit > 0
  · simp only [h0, if_true]
    rw [limitLoop_eq _ _ [] (by intro p hp; have := (List.mem_filter.mp hp).2; cases p <;> simp_all) (by simp)]
    simp only [List.nil_append, flatten_filter_nonempty]
    rw [take_flatten_map_take _ _ _ (Nat.le_refl _)]
    have hlen : (pulls.flatten.take (limit + offset)).length ≤ limit + offset := by
      simp only [List.length_take]; omega
    split
    · rename_i hle
      have : (pulls.flatten.drop offset).take limit = [] := by
        simp only [List.length_take] at hle
        by_cases hl : limit = 0
        · subst hl; simp
        · have : (pulls.flatten.drop offset) = [] := by
            apply List.length_eq_zero_iff.mp
            simp only [List.length_drop]; omega
          rw [this]; simp
      rw [this]
    · have hmin : min (offset + limit) (pulls.flatten.take (limit + offset)).length
          = (pulls.flatten.take (limit + offset)).length := by omega
      rw [hmin, List.take_length, List.drop_take]
      congr 1
      omega
  · have ho : offset = 0 := by omega
    have hl : limit = 0 := by omega
    subst ho; subst hl
    simp
end

/-- **trace_stream_merge_sorted.** Cross-instance merge of the trace index: if every sidx instance delivers its
    stream in key order (e.g. by `sidx_query_spec`), then for every run of the merge heap (any tie choices) followed
    by the trace-id de-duplication the emitted (key, trace id) sequence is in key order and every emitted entry is the
    first occurrence of its trace id in that order; without shared trace ids it is a permutation of the union. -/
theorem trace_stream_merge_sorted (asc : Bool) (streams : List (List Elem))
    (hs : ∀ s ∈ streams, Sorted (elemLt asc) s) {merged : List Elem}
    (hm : Merge (elemLt asc) (initHeap streams) merged) :
    Sorted (elemLt asc) (dedupData [] merged) ∧ (dedupData [] merged).Sublist merged ∧ merged.Perm streams.flatten ∧
    ((streams.flatten.map (·.data)).Nodup → (dedupData [] merged).Perm streams.flatten) := by
  have ⟨hp, hsorted⟩ := newItemIter_sorted (strictWeak_elemLt asc) hs hm
  refine ⟨List.Pairwise.sublist (dedupData_sublist _ _) hsorted, dedupData_sublist _ _, hp, ?_⟩
  intro hnd
  rw [dedupData_id [] merged (((hp.map _).nodup_iff).mpr hnd) (by simp)]
  exact hp

/-- the executable model is such a run, cut into batches -/
theorem traceMergeStreams_flatten (asc : Bool) (bs : Nat) (streams : List (List Elem)) :
    (traceMergeStreams asc bs streams).flatten = dedupData [] (kmerge (elemLt asc) streams) ∧
    Merge (elemLt asc) (initHeap streams) (kmerge (elemLt asc) streams) :=
  ⟨flatten_chunk _ _, mergeHeap_is_Merge (strictWeak_elemLt asc) _⟩

example : traceMergeStreams true 3 [[⟨1, 10, "a"⟩, ⟨1, 30, "b"⟩], [⟨1, 20, "c"⟩, ⟨1, 40, "a"⟩]]
    = [[⟨1, 10, "a"⟩, ⟨1, 20, "c"⟩, ⟨1, 30, "b"⟩]] := by decide



/-! ## 8. `getDisjointParts`, time-ordered stream scan, measure index-mode ordered query -/

section Groups
variable {α : Type} (rg : α → Int × Int)

theorem insertByLo_perm (p : α) (l : List α) : (insertByLo rg p l).Perm (p :: l) := by
  induction l with
  | nil => exact List.Perm.refl _
  | cons q qs ih =>
    simp only [insertByLo]
    split
    · exact List.Perm.refl _
    · exact (List.Perm.cons q ih).trans (List.Perm.swap _ _ _)

theorem sortByLo_perm (l : List α) : (sortByLo rg l).Perm l := by
  induction l with
  | nil => exact List.Perm.refl _
  | cons x xs ih => exact (insertByLo_perm rg x _).trans (List.Perm.cons x ih)

theorem insertByLo_sorted (p : α) {l : List α} (h : l.Pairwise (fun a b => (rg a).1 ≤ (rg b).1)) :
    (insertByLo rg p l).Pairwise (fun a b => (rg a).1 ≤ (rg b).1) := by
  induction l with
  | nil => exact List.pairwise_singleton _ _
  | cons q qs ih =>
    simp only [insertByLo]
    rw [List.pairwise_cons] at h
    split
    · rename_i hle
      rw [List.pairwise_cons]
      refine ⟨?_, List.pairwise_cons.mpr h⟩
      intro b hb
      rcases List.mem_cons.mp hb with rfl | hb
      · exact hle
      · exact Int.le_trans hle (h.1 b hb)
    · rename_i hgt
      rw [List.pairwise_cons]
      refine ⟨?_, ih h.2⟩
      intro b hb
      rcases List.mem_cons.mp ((insertByLo_perm rg p qs).subset hb) with rfl | hb
      · omega
      · exact h.1 b hb

theorem sortByLo_sorted (l : List α) : (sortByLo rg l).Pairwise (fun a b => (rg a).1 ≤ (rg b).1) := by
  induction l with
  | nil => exact List.Pairwise.nil
  | cons x xs ih => exact insertByLo_sorted rg x ih

/-- every part of an earlier group ends before every part of a later group starts -/
def GroupsSeparated (gs : List (List α)) : Prop :=
  gs.Pairwise (fun g₁ g₂ => ∀ a ∈ g₁, ∀ b ∈ g₂, (rg a).2 < (rg b).1)

theorem groupParts_spec : ∀ (ps cur : List α) (b : Int), (cur ++ ps).Pairwise (fun x y => (rg x).1 ≤ (rg y).1) →
    (∀ a ∈ cur, (rg a).2 ≤ b) →
    (groupParts rg ps cur b).flatten = cur ++ ps ∧ GroupsSeparated rg (groupParts rg ps cur b) ∧
    (∀ g ∈ groupParts rg ps cur b, g ≠ []) := by
  intro ps
  induction ps with
  | nil =>
    intro cur b _ _
    cases cur with
    | nil => simp [groupParts, GroupsSeparated]
    | cons c cs => simp [groupParts, GroupsSeparated]
  | cons p ps ih =>
    intro cur b hs hb
    cases cur with
    | nil =>
      simp only [groupParts]
      have := ih [p] (rg p).2 (by simpa using hs) (by intro a ha; simp at ha; subst ha; exact Int.le_refl _)
      simpa using this
    | cons c cs =>
      simp only [groupParts]
      split
      · rename_i hle
        have := ih (c :: cs ++ [p]) (if (rg p).2 > b then (rg p).2 else b) (by simpa using hs) (by
          intro a ha
          rcases List.mem_append.mp ha with ha | ha
          · have := hb a ha; split <;> omega
          · simp at ha; subst ha; split <;> omega)
        simpa using this
      · rename_i hgt
        have hs2 : ([p] ++ ps).Pairwise (fun x y => (rg x).1 ≤ (rg y).1) := by
          have := (List.pairwise_append.mp hs).2.1
          simpa using this
        have ⟨h1, h2, h3⟩ := ih [p] (rg p).2 hs2 (by intro a ha; simp at ha; subst ha; exact Int.le_refl _)
        refine ⟨by simp [h1], ?_, ?_⟩
        · unfold GroupsSeparated at *
          rw [List.pairwise_cons]
          refine ⟨?_, h2⟩
          intro g hg a ha y hy
          have hy' : y ∈ p :: ps := by
            have : y ∈ (groupParts rg ps [p] (rg p).2).flatten := List.mem_flatten.mpr ⟨g, hg, hy⟩
            rw [h1] at this
            simpa using this
          have hpy : (rg p).1 ≤ (rg y).1 := by
            rcases List.mem_cons.mp hy' with rfl | hyp
            · exact Int.le_refl _
            · exact (List.pairwise_cons.mp hs2).1 y hyp
          have := hb a ha
          omega
        · intro g hg
          rcases List.mem_cons.mp hg with rfl | hg
          · simp
          · exact h3 g hg

/-- **disjoint_groups_spec.** `getDisjointParts`: the groups partition the parts; every part of an earlier group ends
    strictly before every part of a later group starts (so groups do not overlap in time and come in time order;
    reversed order for descending scans), whatever nesting/overlap pattern the part ranges have. -/
theorem disjoint_groups_spec (parts : List α) (asc : Bool) :
    (disjointGroups rg parts asc).flatten.Perm parts ∧
    (∀ g ∈ disjointGroups rg parts asc, g ≠ []) ∧
    GroupsSeparated rg (if asc then disjointGroups rg parts asc else (disjointGroups rg parts asc).reverse) := by
  have ⟨h1, h2, h3⟩ := groupParts_spec rg (sortByLo rg parts) [] 0 (by simpa using sortByLo_sorted rg parts) (by simp)
  unfold disjointGroups
  cases asc with
  | true =>
    simp only [if_true]
    exact ⟨by rw [h1]; simpa using sortByLo_perm rg parts, h3, h2⟩
  | false =>
    simp only [Bool.false_eq_true, if_false, List.reverse_reverse]
    refine ⟨?_, fun g hg => h3 g (List.mem_reverse.mp hg), h2⟩
    have : (groupParts rg (sortByLo rg parts) [] 0).reverse.flatten.Perm (groupParts rg (sortByLo rg parts) [] 0).flatten := by
      rw [← List.flatMap_id, ← List.flatMap_id]
      exact List.Perm.flatMap_right _ (List.reverse_perm _)
    exact this.trans (by rw [h1]; simpa using sortByLo_perm rg parts)
end Groups

/-- nesting: the input of the seeded change n3 – a wide part, a part nested in it, a part overlapping only the wide
    one – plus a later part, descending -/
example : disjointGroups TRange.rg [⟨1, 1, 100⟩, ⟨2, 10, 20⟩, ⟨3, 50, 60⟩, ⟨4, 200, 300⟩] false
    = [[⟨4, 200, 300⟩], [⟨1, 1, 100⟩, ⟨2, 10, 20⟩, ⟨3, 50, 60⟩]] := by decide

def intOrd (asc : Bool) (a b : Int) : Prop := if asc then a ≤ b else b ≤ a

theorem intLe_iff (asc : Bool) (a b : Int) : intLe asc a b = true ↔ intOrd asc a b := by
  cases asc <;> simp [intLe, intOrd]

theorem intOrd_total (asc : Bool) (a b : Int) : ¬ intOrd asc a b → intOrd asc b a := by
  cases asc <;> simp [intOrd] <;> omega

theorem intOrd_trans {asc : Bool} {a b c : Int} (h1 : intOrd asc a b) (h2 : intOrd asc b c) : intOrd asc a c := by
  cases asc <;> simp [intOrd] at * <;> omega

theorem insertInt_mem {asc : Bool} {x y : Int} {l : List Int} (h : y ∈ insertInt asc x l) : y = x ∨ y ∈ l := by
  induction l with
  | nil => simp [insertInt] at h; exact Or.inl h
  | cons z zs ih =>
    simp only [insertInt] at h
    split at h
    · rcases List.mem_cons.mp h with rfl | h
      · exact Or.inl rfl
      · exact Or.inr h
    · rcases List.mem_cons.mp h with rfl | h
      · exact Or.inr List.mem_cons_self
      · rcases ih h with h | h
        · exact Or.inl h
        · exact Or.inr (List.mem_cons_of_mem _ h)

theorem insertInt_sorted (asc : Bool) (x : Int) {l : List Int} (h : l.Pairwise (intOrd asc)) :
    (insertInt asc x l).Pairwise (intOrd asc) := by
  induction l with
  | nil => exact List.pairwise_singleton _ _
  | cons z zs ih =>
    rw [List.pairwise_cons] at h
    simp only [insertInt]
    split
    · rename_i hle
      have hle' := (intLe_iff asc x z).mp hle
      rw [List.pairwise_cons]
      refine ⟨?_, List.pairwise_cons.mpr h⟩
      intro b hb
      rcases List.mem_cons.mp hb with rfl | hb
      · exact hle'
      · exact intOrd_trans hle' (h.1 b hb)
    · rename_i hgt
      have hzx : intOrd asc z x := intOrd_total asc x z (fun h' => hgt ((intLe_iff asc x z).mpr h'))
      rw [List.pairwise_cons]
      refine ⟨?_, ih h.2⟩
      intro b hb
      rcases insertInt_mem hb with rfl | hb
      · exact hzx
      · exact h.1 b hb

theorem sortInts_sorted (asc : Bool) (l : List Int) : (sortInts asc l).Pairwise (intOrd asc) := by
  induction l with
  | nil => exact List.Pairwise.nil
  | cons x xs ih => exact insertInt_sorted asc x ih

theorem sortInts_mem {asc : Bool} {l : List Int} {y : Int} (h : y ∈ sortInts asc l) : y ∈ l := by
  induction l with
  | nil => simp [sortInts] at h
  | cons x xs ih =>
    rcases insertInt_mem (l := sortInts asc xs) h with rfl | h
    · exact List.mem_cons_self
    · exact List.mem_cons_of_mem _ (ih h)

theorem spart_range (p : SPart) {r : Nat × Int} (hr : r ∈ p.rows) : p.rg.1 ≤ r.2 ∧ r.2 ≤ p.rg.2 :=
  ⟨(foldl_min_le _ _).2 _ (List.mem_map_of_mem hr), (foldl_max_ge _ _).2 _ (List.mem_map_of_mem hr)⟩

/-- **stream_ts_query_sorted.** Time-ordered scan of one segment (with the group order of fix F91): for any parts –
    nested, overlapping or disjoint time ranges –, any series selection and time range, the timestamps of the
    concatenated pages are globally ordered in the requested direction. -/
theorem stream_ts_query_sorted (parts : List SPart) (sids : List Nat) (minTS maxTS : Int) (asc : Bool) :
    (streamTsQuery parts sids minTS maxTS asc).Pairwise (intOrd asc) := by
  unfold streamTsQuery streamScan
  simp only [Bool.false_and, Bool.false_eq_true, if_false]
  generalize (parts.filter fun p => !(decide (maxTS < p.rg.1) || decide (minTS > p.rg.2))) = sel
  have ⟨_, _, hsep⟩ := disjoint_groups_spec SPart.rg sel asc
  generalize disjointGroups SPart.rg sel asc = gs at hsep
  have hmem : ∀ (g : List SPart), ∀ y ∈ sortInts asc (g.flatMap fun p =>
      (p.rows.filter fun r => sids.contains r.1 && decide (minTS ≤ r.2) && decide (r.2 ≤ maxTS)).map (·.2)),
      ∃ p ∈ g, p.rg.1 ≤ y ∧ y ≤ p.rg.2 := by
    intro g y hy
    obtain ⟨p, hp, hyp⟩ := List.mem_flatMap.mp (sortInts_mem hy)
    obtain ⟨row, hrow, rfl⟩ := List.mem_map.mp hyp
    exact ⟨p, hp, spart_range p (List.mem_filter.mp hrow).1⟩
  rw [List.flatMap_def, List.pairwise_flatten]
  refine ⟨?_, ?_⟩
  · intro l hl
    obtain ⟨g, _, rfl⟩ := List.mem_map.mp hl
    exact sortInts_sorted asc _
  · rw [List.pairwise_map]
    cases asc with
    | true =>
      simp only [if_true] at hsep
      refine hsep.imp ?_
      intro g1 g2 h12 x hx y hy
      obtain ⟨p, hp, hp1, hp2⟩ := hmem g1 x hx
      obtain ⟨q, hq, hq1, hq2⟩ := hmem g2 y hy
      have := h12 p hp q hq
      simp only [intOrd, if_true]; omega
    | false =>
      simp only [Bool.false_eq_true, if_false] at hsep
      unfold GroupsSeparated at hsep
      rw [List.pairwise_reverse] at hsep
      refine hsep.imp ?_
      intro g1 g2 h12 x hx y hy
      obtain ⟨p, hp, hp1, hp2⟩ := hmem g1 x hx
      obtain ⟨q, hq, hq1, hq2⟩ := hmem g2 y hy
      have := h12 q hq p hp
      simp only [intOrd, Bool.false_eq_true, if_false]; omega

/-- F91: `blockScanner.scan` as found (descending: last group of the already reversed list first) on two disjoint
    parts [1,2] and [10,11] yields 2 1 11 10; with the group order fixed 11 10 2 1. (Reproduced on the real code:
    `squery desc 0 1000 100 1 1:1,1:2|1:10,1:11` → `2,1,11,10`.) -/
theorem stream_ts_query_legacy_counterexample :
    streamTsQuery_legacy [⟨1, [(1, 1), (1, 2)]⟩, ⟨2, [(1, 10), (1, 11)]⟩] [1] 0 1000 false = [2, 1, 11, 10] ∧
    streamTsQuery [⟨1, [(1, 1), (1, 2)]⟩, ⟨2, [(1, 10), (1, 11)]⟩] [1] 0 1000 false = [11, 10, 2, 1] := by decide



theorem strictWeak_kvLt (desc : Bool) : StrictWeak (kvLt desc) := by
  have : kvLt desc = fun a b => intLt (!desc) a.2 b.2 := by
    funext a b; cases desc <;> simp [kvLt, intLt]
  rw [this]
  exact (strictTotal_intLt _).toStrictWeak.comap (fun x : String × Int => x.2)

theorem keepUnseen_sublist : ∀ (seg : List (String × Int)) (seen : List String), (keepUnseen seen seg).1.Sublist seg := by
  intro seg
  induction seg with
  | nil => intro seen; exact List.Sublist.refl _
  | cons x xs ih =>
    intro seen
    simp only [keepUnseen]
    split
    · exact (ih seen).cons x
    · exact (ih _).cons_cons x

/-- what `keepUnseen` keeps is new, pairwise distinct, and recorded in the filter -/
theorem keepUnseen_spec : ∀ (seg : List (String × Int)) (seen : List String),
    (∀ e ∈ (keepUnseen seen seg).1, e.1 ∉ seen) ∧ ((keepUnseen seen seg).1.map (·.1)).Nodup ∧
    (∀ n, n ∈ (keepUnseen seen seg).2 ↔ n ∈ seen ∨ n ∈ (keepUnseen seen seg).1.map (·.1)) ∧
    (∀ e ∈ seg, e.1 ∈ (keepUnseen seen seg).2) := by
  intro seg
  induction seg with
  | nil => intro seen; simp [keepUnseen]
  | cons x xs ih =>
    intro seen
    simp only [keepUnseen]
    split
    · rename_i hc
      have ⟨h1, h2, h3, h4⟩ := ih seen
      refine ⟨h1, h2, h3, ?_⟩
      intro e he
      rcases List.mem_cons.mp he with rfl | he
      · exact (h3 _).mpr (Or.inl (by simpa using hc))
      · exact h4 e he
    · rename_i hc
      have hx : x.1 ∉ seen := by simpa using hc
      have ⟨h1, h2, h3, h4⟩ := ih (x.1 :: seen)
      refine ⟨?_, ?_, ?_, ?_⟩
      · intro e he
        rcases List.mem_cons.mp he with rfl | he
        · exact hx
        · exact fun hs => h1 e he (List.mem_cons_of_mem _ hs)
      · simp only [List.map_cons, List.nodup_cons]
        refine ⟨?_, h2⟩
        intro hm
        obtain ⟨e, he, hex⟩ := List.mem_map.mp hm
        exact h1 e he (hex ▸ List.mem_cons_self)
      · intro n
        rw [h3 n]
        simp only [List.mem_cons, List.map_cons]
        constructor
        · rintro ((rfl | h) | h)
          · exact Or.inr (Or.inl rfl)
          · exact Or.inl h
          · exact Or.inr (Or.inr h)
        · rintro (h | rfl | h)
          · exact Or.inl (Or.inr h)
          · exact Or.inl (Or.inl rfl)
          · exact Or.inr h
      · intro e he
        rcases List.mem_cons.mp he with rfl | he
        · exact (h3 _).mpr (Or.inl List.mem_cons_self)
        · exact h4 e he

theorem dropSeen_spec : ∀ (segs : List (List (String × Int))) (seen : List String),
    (∀ l ∈ dropSeen seen segs, ∃ seg ∈ segs, l.Sublist seg) ∧
    (((dropSeen seen segs).flatten).map (·.1)).Nodup ∧
    (∀ e ∈ (dropSeen seen segs).flatten, e.1 ∉ seen) ∧
    (∀ seg ∈ segs, ∀ e ∈ seg, e.1 ∈ seen ∨ e.1 ∈ ((dropSeen seen segs).flatten).map (·.1)) := by
  intro segs
  induction segs with
  | nil => intro seen; simp [dropSeen]
  | cons seg rest ih =>
    intro seen
    simp only [dropSeen]
    have ⟨k1, k2, k3, k4⟩ := keepUnseen_spec seg seen
    have ⟨i1, i2, i3, i4⟩ := ih (keepUnseen seen seg).2
    refine ⟨?_, ?_, ?_, ?_⟩
    · intro l hl
      rcases List.mem_cons.mp hl with rfl | hl
      · exact ⟨seg, List.mem_cons_self, keepUnseen_sublist seg seen⟩
      · obtain ⟨s, hs, hsub⟩ := i1 l hl
        exact ⟨s, List.mem_cons_of_mem _ hs, hsub⟩
    · simp only [List.flatten_cons, List.map_append]
      rw [List.nodup_append]
      refine ⟨k2, i2, ?_⟩
      intro a ha b hb hab
      subst hab
      obtain ⟨e, he, rfl⟩ := List.mem_map.mp hb
      exact i3 e he ((k3 _).mpr (Or.inr ha))
    · intro e he
      simp only [List.flatten_cons] at he
      rcases List.mem_append.mp he with he | he
      · exact k1 e he
      · exact fun hs => i3 e he ((k3 _).mpr (Or.inl hs))
    · intro s hs e he
      simp only [List.flatten_cons, List.map_append, List.mem_append]
      rcases List.mem_cons.mp hs with rfl | hs
      · rcases (k3 e.1).mp (k4 e he) with h | h
        · exact Or.inl h
        · exact Or.inr (Or.inl h)
      · rcases i4 s hs e he with h | h
        · rcases (k3 e.1).mp h with h | h
          · exact Or.inl h
          · exact Or.inr (Or.inl h)
        · exact Or.inr (Or.inr h)

theorem insertKV_mem {desc : Bool} {x y : String × Int} {l : List (String × Int)} (h : y ∈ insertKV desc x l) :
    y = x ∨ y ∈ l := by
  induction l with
  | nil => simp [insertKV] at h; exact Or.inl h
  | cons z zs ih =>
    simp only [insertKV] at h
    split at h
    · rcases List.mem_cons.mp h with rfl | h
      · exact Or.inl rfl
      · exact Or.inr h
    · rcases List.mem_cons.mp h with rfl | h
      · exact Or.inr List.mem_cons_self
      · rcases ih h with h | h
        · exact Or.inl h
        · exact Or.inr (List.mem_cons_of_mem _ h)

theorem insertKV_sorted (desc : Bool) (x : String × Int) {l : List (String × Int)}
    (h : l.Pairwise (fun a b => intOrd (!desc) a.2 b.2)) :
    (insertKV desc x l).Pairwise (fun a b => intOrd (!desc) a.2 b.2) := by
  induction l with
  | nil => exact List.pairwise_singleton _ _
  | cons z zs ih =>
    rw [List.pairwise_cons] at h
    simp only [insertKV]
    split
    · rename_i hle
      have hle' := (intLe_iff (!desc) x.2 z.2).mp hle
      rw [List.pairwise_cons]
      refine ⟨?_, List.pairwise_cons.mpr h⟩
      intro b hb
      rcases List.mem_cons.mp hb with rfl | hb
      · exact hle'
      · exact intOrd_trans hle' (h.1 b hb)
    · rename_i hgt
      have hzx : intOrd (!desc) z.2 x.2 := intOrd_total _ x.2 z.2 (fun h' => hgt ((intLe_iff _ x.2 z.2).mpr h'))
      rw [List.pairwise_cons]
      refine ⟨?_, ih h.2⟩
      intro b hb
      rcases insertKV_mem hb with rfl | hb
      · exact hzx
      · exact h.1 b hb

theorem sortKV_sorted (desc : Bool) (l : List (String × Int)) : Sorted (kvLt desc) (sortKV desc l) := by
  have : (sortKV desc l).Pairwise (fun a b => intOrd (!desc) a.2 b.2) := by
    induction l with
    | nil => exact List.Pairwise.nil
    | cons x xs ih => exact insertKV_sorted desc x ih
  unfold Sorted
  exact this.imp (by intro a b h; cases desc <;> simp [kvLt, intOrd] at h ⊢ <;> omega)

theorem sortKV_perm (desc : Bool) (l : List (String × Int)) : (sortKV desc l).Perm l := by
  induction l with
  | nil => exact List.Perm.refl _
  | cons x xs ih =>
    have : ∀ (l : List (String × Int)), (insertKV desc x l).Perm (x :: l) := by
      intro l
      induction l with
      | nil => exact List.Perm.refl _
      | cons q qs ih2 =>
        simp only [insertKV]
        split
        · exact List.Perm.refl _
        · exact (List.Perm.cons q ih2).trans (List.Perm.swap _ _ _)
    exact (this _).trans (List.Perm.cons x ih)

/-- **index_sort_query_spec.** Index-mode measure query ordered by an indexed tag over any number of segments (series
    shared between segments in any pattern): the merged result is in sort-key order in the requested direction, no
    series is returned twice, and every series of every segment is returned. -/
theorem index_sort_query_spec (desc : Bool) (segs : List (List (String × Int))) :
    Sorted (kvLt desc) (indexSortQuery desc segs) ∧
    ((indexSortQuery desc segs).map (·.1)).Nodup ∧
    (∀ seg ∈ segs, ∀ e ∈ seg, e.1 ∈ (indexSortQuery desc segs).map (·.1)) := by
  unfold indexSortQuery
  have sw := strictWeak_kvLt desc
  have ⟨d1, d2, _, d4⟩ := dropSeen_spec (segs.map (sortKV desc)) []
  have hsorted : ∀ it ∈ dropSeen [] (segs.map (sortKV desc)), Sorted (kvLt desc) it := by
    intro it hit
    obtain ⟨s, hs, hsub⟩ := d1 it hit
    obtain ⟨seg, _, rfl⟩ := List.mem_map.mp hs
    exact List.Pairwise.sublist hsub (sortKV_sorted desc seg)
  have ⟨hp, hs⟩ := kmerge_sorted sw hsorted
  refine ⟨hs, ((hp.map _).nodup_iff).mpr d2, ?_⟩
  intro seg hseg e he
  have := d4 (sortKV desc seg) (List.mem_map_of_mem hseg) e ((sortKV_perm desc seg).mem_iff.mpr he)
  rcases this with h | h
  · cases h
  · exact ((hp.map _).mem_iff).mpr h

/-- the input of the seeded change n2 (segments {b,e,f} and {a,b,c,d,f}) -/
example : (indexSortQuery false [[("b", 20), ("e", 35), ("f", 50)], [("a", 10), ("b", 20), ("c", 30), ("d", 40), ("f", 50)]]).map (·.1)
    = ["a", "b", "c", "e", "d", "f"] := by decide


end Banyan.C09
